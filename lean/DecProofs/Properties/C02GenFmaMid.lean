/-
  C02GenFmaMid — block "Mid" of the fused multiply-add `bid128_ext_fma` (bid128_fma.rs lines 2515–3206, as translated in
  `DecGen/Code.lean`): Cases (2)–(6) — the addend `z` dominates or overlaps the exact product (`0 ≤ delta ≤ 33`) —, the
  `'case2_repeat` loop, and the tail that hands `delta ≤ 1` with opposite signs to `bid_add_and_round`.
  The block theorem `midBlock_spec` (the block returns `encode (addFin …)`, i.e. `fmaD`'s result, and the flags or-ed in, for all
  rounding modes and status words, under the entry invariant `EntryInv` and the case test) is in C02GenFmaMidTop.lean; the set-up
  of the cases (`setupK_spec`, `case_test_entry`, `setup_link`) in C02GenFmaMidB.lean (by the C01GenDiv agent).

  §A THE CODE.  `midBlock` is the text of the translation with the 39 live variables as parameters.  It is cut into pieces that
  are again literal text (`setupK`, `scaleC3K`, `roundC4K`, `sameAddK`, `same35K`, `dblFixK`, `sameTailK`, `sameLsbK`, `diffSubK`,
  `diffContK`, `diffFixK`, `tinyK`, `uPrepK`, `ndigK`, `uRoundK`, `uTailK`, `finalK`, `tailK`); the suffixes
  `bodyLit` ⊃ `sumRestLit` ⊃ `uflowRestLit` ⊃ `finalK` of one turn of the loop are literal text too, so that every composition
  lemma (`midBlock_eq`, `loopLit_eq`, `bodyLit_eq`, `sumRestLit_eq`, `uflowRestLit_eq`) is a definitional unfolding.
  (A composition through abstract continuations is definitional too, but checking it expands the join points of the `do`
  block: exponential.  With literal suffixes and the explicit return type the two sides meet syntactically after one unfolding.)

  §1–9 THE MATHEMATICS, on numbers.  `Pos` / `NE` / `Side`: what the four indicators say about the exact value; `spec_NE`: what the
  rounding helpers hand back, in that form; `dbl_round`: the code's repair after two roundings in a row gives the nearest-even
  rounding of the exact value with the right indicators (35-digit sum; below the least exponent); `lsbFixSame_NE`,
  `lsbFixDiff_NE`: rounding the product first and adding the integer `C3·10^scale` is a nearest rounding of the exact sum, the
  tie-break repaired when that integer is odd; `finish_at`, `finish_inexact`, `finish_exact'`, `finish_exact_ovf`: `finish` at a
  known least exponent; `correction_deliver`: `bid_rounding_correction` written out; `final_math`; `MainOut` and the three exits
  of the main stage `exit_same34`, `exit_same35`, `exit_diff`; `repeat_step`: the second turn is the last; `U_round`, `U_one`:
  below the least exponent (digit bound `x0 ≤ ind`: `UPre.dig`).

  §10–14 THE PIECES EVALUATED AND COMPOSED.  `*K_spec` / `*K_eq` for every piece (never a panic: all table indices in range);
  `finalN_spec`: flags, `10^34 → 10^33`, packing, overflow (nearest-even) or `bid_rounding_correction` (other modes) deliver
  `finish`; `uflowRest_spec`, `sumRest_same`, `sumRest_diff`, `turn_spec` (one turn: result, or one more turn), `loop_spec` (at
  most two turns, the fuel is never used up).  Interfaces: `EntryInv`, `LoopPre` (§12).

  FINDINGS: none — on Cases (2)–(6) the code agrees with `fmaD` for all inputs, modes and status words.  Dead code seen by the
  proofs: the two branches returning a "pure zero" (`lsbFixSame_pos`, `lsbFixDiff_pos`: the repaired result is never 0 here), the
  `if` after each repair of two roundings (`tailFix` is the identity: `dbl_round`), the redundant `else if lsb`.  The packing
  `(e3 + 6176) << 49` at `e3 = 6112` (carry at the largest exponent) is overwritten (nearest-even) or ignored by
  `bid_rounding_correction` (other modes), which then delivers the overflow result: `finalN_spec`.
-/
import DecGen.Code
import DecProofs.Properties.C02GenCorrection
import DecProofs.Core.FinishUnique
import DecProofs.Properties.C01GenArith
import DecProofs.Properties.C13GenNoncomp
import DecProofs.Properties.C02GenRound
import Mathlib.Tactic.SplitIfs
import Mathlib.Tactic.Tauto
import Mathlib.Tactic.Linarith
import Mathlib.Tactic.FieldSimp

set_option linter.unusedSimpArgs false
set_option linter.unusedVariables false
set_option linter.unusedTactic false
set_option linter.unreachableTactic false
set_option linter.unnecessarySeqFocus false

namespace Dec.C02GenFmaMid
open Dec.Rs Dec.Gen.Code
open Dec.RH (Ind)
open Dec.C02RoundHelpers (Spec rne rne_eq rne_rounded)

/-- **the block**: Cases (2)–(6) of `bid128_ext_fma` (bid128_fma.rs lines 2515–3206), the text of the translation with
the live variables as parameters; after the loop (never left normally) the text that follows the case analysis -/
def midBlock (ptr_is_midpoint_lt_even_ : Bool) (ptr_is_midpoint_gt_even_ : Bool) (ptr_is_inexact_lt_midpoint_ : Bool) (ptr_is_inexact_gt_midpoint_ : Bool) (rnd_mode_ : RoundingMode) (pfpsf_ : UInt32) (res_ : U128) (z_sign_ : UInt64) (p_sign_ : UInt64) (tmp_sign_ : UInt64) (C3_ : U128) (C4_ : U256) (q3_ : Int32) (q4_ : Int32) (e3_ : Int32) (e4_ : Int32) (scale_ : Int32) (ind_ : Int32) (delta_ : Int32) (x0_ : Int32) (p34_ : Int32) (is_midpoint_lt_even_ : Bool) (is_midpoint_gt_even_ : Bool) (is_inexact_lt_midpoint_ : Bool) (is_inexact_gt_midpoint_ : Bool) (is_midpoint_lt_even0_ : Bool) (is_midpoint_gt_even0_ : Bool) (is_inexact_lt_midpoint0_ : Bool) (is_inexact_gt_midpoint0_ : Bool) (incr_exp_ : Bool) (lsb_ : Bool) (is_tiny_ : Bool) (R64_ : UInt64) (tmp64_ : UInt64) (P128_ : U128) (R128_ : U128) (P192_ : U192) (R192_ : U192) (R256_ : U256) :
    Except String (U128 × Bool × Bool × Bool × Bool × UInt32) := do
  let mut ptr_is_midpoint_lt_even : Bool := ptr_is_midpoint_lt_even_
  let mut ptr_is_midpoint_gt_even : Bool := ptr_is_midpoint_gt_even_
  let mut ptr_is_inexact_lt_midpoint : Bool := ptr_is_inexact_lt_midpoint_
  let mut ptr_is_inexact_gt_midpoint : Bool := ptr_is_inexact_gt_midpoint_
  let mut rnd_mode : RoundingMode := rnd_mode_
  let mut pfpsf : UInt32 := pfpsf_
  let mut res : U128 := res_
  let mut z_sign : UInt64 := z_sign_
  let mut p_sign : UInt64 := p_sign_
  let mut tmp_sign : UInt64 := tmp_sign_
  let mut C3 : U128 := C3_
  let mut C4 : U256 := C4_
  let mut q3 : Int32 := q3_
  let mut q4 : Int32 := q4_
  let mut e3 : Int32 := e3_
  let mut e4 : Int32 := e4_
  let mut scale : Int32 := scale_
  let mut ind : Int32 := ind_
  let mut delta : Int32 := delta_
  let mut x0 : Int32 := x0_
  let mut p34 : Int32 := p34_
  let mut is_midpoint_lt_even : Bool := is_midpoint_lt_even_
  let mut is_midpoint_gt_even : Bool := is_midpoint_gt_even_
  let mut is_inexact_lt_midpoint : Bool := is_inexact_lt_midpoint_
  let mut is_inexact_gt_midpoint : Bool := is_inexact_gt_midpoint_
  let mut is_midpoint_lt_even0 : Bool := is_midpoint_lt_even0_
  let mut is_midpoint_gt_even0 : Bool := is_midpoint_gt_even0_
  let mut is_inexact_lt_midpoint0 : Bool := is_inexact_lt_midpoint0_
  let mut is_inexact_gt_midpoint0 : Bool := is_inexact_gt_midpoint0_
  let mut incr_exp : Bool := incr_exp_
  let mut lsb : Bool := lsb_
  let mut is_tiny : Bool := is_tiny_
  let mut R64 : UInt64 := R64_
  let mut tmp64 : UInt64 := tmp64_
  let mut P128 : U128 := P128_
  let mut R128 : U128 := R128_
  let mut P192 : U192 := P192_
  let mut R192 : U192 := R192_
  let mut R256 : U256 := R256_
  if ((((((((((decide (q3 ≤ delta)) && (decide (delta < p34))) && (decide (p34 < (delta + q4))))) || (((decide (q3 ≤ delta)) && (decide ((delta + q4) ≤ p34))))) || (((decide (delta < q3)) && (decide (p34 < (delta + q4)))))) || ((((decide (delta < q3)) && (decide (q3 ≤ (delta + q4)))) && (decide ((delta + q4) ≤ p34))))) || ((decide ((delta + q4) < q3))))) && (!(((decide (delta ≤ (1 : Int32))) && (p_sign != z_sign))))) then
    if (((((decide (q3 ≤ delta)) && (decide (delta < p34))) && (decide (p34 < (delta + q4))))) || (((decide (delta < q3)) && (decide (p34 < (delta + q4)))))) then
      scale := (p34 - q3)
      x0 := ((delta + q4) - p34)
    else
      if (decide ((delta + q4) < q3)) then
        scale := ((q3 - delta) - q4)
        if (decide (q4 ≤ (0x13 : Int32))) then
          if (decide (scale ≤ (0x13 : Int32))) then
            P128 := (← mul_64x64_to_128MACH C4.w0 (← tbl64 Dec.Gen.BID_TEN2K64 (UInt64.ofInt (toI scale))))
          else
            P128 := (← mul_128x64_to_128 C4.w0 (← tbl128 Dec.Gen.BID_TEN2K128 (UInt64.ofInt (toI ((scale - (0x14 : Int32)))))))
        else
          let mut tmp_38 : U128 := (⟨C4.w0, C4.w1⟩ : U128)
          P128 := (← mul_128x64_to_128 (← tbl64 Dec.Gen.BID_TEN2K64 (UInt64.ofInt (toI scale))) tmp_38)
        C4 := { C4 with w0 := P128.w0 }
        C4 := { C4 with w1 := P128.w1 }
        scale := (0 : Int32)
        x0 := (0 : Int32)
      else
        scale := ((delta + q4) - q3)
        x0 := (0 : Int32)
    let mut brk__39 : Bool := false
    for _ in [0:4096] do
      if (scale == (0 : Int32)) then
        res := { res with w1 := C3.w1 }
        res := { res with w0 := C3.w0 }
      else
        if (decide (q3 ≤ (0x13 : Int32))) then
          res := (← (if (decide (scale ≤ (0x13 : Int32))) then (do pure (← mul_64x64_to_128MACH C3.w0 (← tbl64 Dec.Gen.BID_TEN2K64 (UInt64.ofInt (toI scale))))) else (do pure (← mul_128x64_to_128 C3.w0 (← tbl128 Dec.Gen.BID_TEN2K128 (UInt64.ofInt (toI ((scale - (0x14 : Int32))))))))))
        else
          res := (← mul_128x64_to_128 (← tbl64 Dec.Gen.BID_TEN2K64 (UInt64.ofInt (toI scale))) C3)
      e3 := (e3 - scale)
      if (x0 == (0 : Int32)) then
        R128 := { R128 with w1 := C4.w1 }
        R128 := { R128 with w0 := C4.w0 }
      else
        if (decide (q4 ≤ (0x12 : Int32))) then
          let t__40 ← bid_round64_2_18 q4 x0 C4.w0 incr_exp is_midpoint_lt_even is_midpoint_gt_even is_inexact_lt_midpoint is_inexact_gt_midpoint
          incr_exp := t__40.2.1
          is_midpoint_lt_even := t__40.2.2.1
          is_midpoint_gt_even := t__40.2.2.2.1
          is_inexact_lt_midpoint := t__40.2.2.2.2.1
          is_inexact_gt_midpoint := t__40.2.2.2.2.2
          R64 := t__40.1
          if incr_exp then
            R64 := (← tbl64 Dec.Gen.BID_TEN2K64 (UInt64.ofInt (toI ((q4 - x0)))))
          R128 := { R128 with w1 := (0 : UInt64) }
          R128 := { R128 with w0 := R64 }
        else
          if (decide (q4 ≤ (0x26 : Int32))) then
            P128 := { P128 with w1 := C4.w1 }
            P128 := { P128 with w0 := C4.w0 }
            let t__41 ← bid_round128_19_38 q4 x0 P128 incr_exp is_midpoint_lt_even is_midpoint_gt_even is_inexact_lt_midpoint is_inexact_gt_midpoint
            incr_exp := t__41.2.1
            is_midpoint_lt_even := t__41.2.2.1
            is_midpoint_gt_even := t__41.2.2.2.1
            is_inexact_lt_midpoint := t__41.2.2.2.2.1
            is_inexact_gt_midpoint := t__41.2.2.2.2.2
            R128 := t__41.1
            if incr_exp then
              if (decide ((q4 - x0) ≤ (0x13 : Int32))) then
                R128 := { R128 with w0 := (← tbl64 Dec.Gen.BID_TEN2K64 (UInt64.ofInt (toI ((q4 - x0))))) }
              else
                R128 := { R128 with w0 := (← tbl128 Dec.Gen.BID_TEN2K128 (UInt64.ofInt (toI (((q4 - x0) - (0x14 : Int32)))))).w0 }
                R128 := { R128 with w1 := (← tbl128 Dec.Gen.BID_TEN2K128 (UInt64.ofInt (toI (((q4 - x0) - (0x14 : Int32)))))).w1 }
          else
            if (decide (q4 ≤ (0x39 : Int32))) then
              P192 := { P192 with w2 := C4.w2 }
              P192 := { P192 with w1 := C4.w1 }
              P192 := { P192 with w0 := C4.w0 }
              let t__42 ← bid_round192_39_57 q4 x0 P192 incr_exp is_midpoint_lt_even is_midpoint_gt_even is_inexact_lt_midpoint is_inexact_gt_midpoint
              incr_exp := t__42.2.1
              is_midpoint_lt_even := t__42.2.2.1
              is_midpoint_gt_even := t__42.2.2.2.1
              is_inexact_lt_midpoint := t__42.2.2.2.2.1
              is_inexact_gt_midpoint := t__42.2.2.2.2.2
              R192 := t__42.1
              if incr_exp then
                if (decide ((q4 - x0) ≤ (0x13 : Int32))) then
                  R192 := { R192 with w0 := (← tbl64 Dec.Gen.BID_TEN2K64 (UInt64.ofInt (toI ((q4 - x0))))) }
                else
                  R192 := { R192 with w0 := (← tbl128 Dec.Gen.BID_TEN2K128 (UInt64.ofInt (toI (((q4 - x0) - (0x14 : Int32)))))).w0 }
                  R192 := { R192 with w1 := (← tbl128 Dec.Gen.BID_TEN2K128 (UInt64.ofInt (toI (((q4 - x0) - (0x14 : Int32)))))).w1 }
              R128 := { R128 with w1 := R192.w1 }
              R128 := { R128 with w0 := R192.w0 }
            else
              let t__43 ← bid_round256_58_76 q4 x0 C4 incr_exp is_midpoint_lt_even is_midpoint_gt_even is_inexact_lt_midpoint is_inexact_gt_midpoint
              incr_exp := t__43.2.1
              is_midpoint_lt_even := t__43.2.2.1
              is_midpoint_gt_even := t__43.2.2.2.1
              is_inexact_lt_midpoint := t__43.2.2.2.2.1
              is_inexact_gt_midpoint := t__43.2.2.2.2.2
              R256 := t__43.1
              if incr_exp then
                if (decide ((q4 - x0) ≤ (0x13 : Int32))) then
                  R256 := { R256 with w0 := (← tbl64 Dec.Gen.BID_TEN2K64 (UInt64.ofInt (toI ((q4 - x0))))) }
                else
                  R256 := { R256 with w0 := (← tbl128 Dec.Gen.BID_TEN2K128 (UInt64.ofInt (toI (((q4 - x0) - (0x14 : Int32)))))).w0 }
                  R256 := { R256 with w1 := (← tbl128 Dec.Gen.BID_TEN2K128 (UInt64.ofInt (toI (((q4 - x0) - (0x14 : Int32)))))).w1 }
              R128 := { R128 with w1 := R256.w1 }
              R128 := { R128 with w0 := R256.w0 }
      if (z_sign == p_sign) then
        lsb := (((res.w0 &&& (1 : UInt64))) == (1 : UInt64))
        res := { res with w0 := (res.w0 + R128.w0) }
        res := { res with w1 := (res.w1 + R128.w1) }
        if (decide (res.w0 < R128.w0)) then
          res := { res with w1 := (res.w1 + 1) }
        if ((decide (res.w1 > (0x1ed09bead87c0 : UInt64))) || (((res.w1 == (0x1ed09bead87c0 : UInt64)) && (decide (res.w0 > (0x378d8e63ffffffff : UInt64)))))) then
          is_inexact_lt_midpoint0 := is_inexact_lt_midpoint
          is_inexact_gt_midpoint0 := is_inexact_gt_midpoint
          is_midpoint_lt_even0 := is_midpoint_lt_even
          is_midpoint_gt_even0 := is_midpoint_gt_even
          is_inexact_lt_midpoint := false
          is_inexact_gt_midpoint := false
          is_midpoint_lt_even := false
          is_midpoint_gt_even := false
          P128 := { P128 with w1 := res.w1 }
          P128 := { P128 with w0 := res.w0 }
          let t__44 ← bid_round128_19_38 (0x23 : Int32) (1 : Int32) P128 incr_exp is_midpoint_lt_even is_midpoint_gt_even is_inexact_lt_midpoint is_inexact_gt_midpoint
          incr_exp := t__44.2.1
          is_midpoint_lt_even := t__44.2.2.1
          is_midpoint_gt_even := t__44.2.2.2.1
          is_inexact_lt_midpoint := t__44.2.2.2.2.1
          is_inexact_gt_midpoint := t__44.2.2.2.2.2
          res := t__44.1
          if (((is_inexact_gt_midpoint0 || is_midpoint_lt_even0)) && is_midpoint_lt_even) then
            res := { res with w0 := (res.w0 - 1) }
            if (res.w0 == (0xffffffffffffffff : UInt64)) then
              res := { res with w1 := (res.w1 - 1) }
            is_midpoint_lt_even := false
            is_inexact_lt_midpoint := true
          else
            if (((is_inexact_lt_midpoint0 || is_midpoint_gt_even0)) && is_midpoint_gt_even) then
              res := { res with w0 := (res.w0 + 1) }
              if (res.w0 == (0 : UInt64)) then
                res := { res with w1 := (res.w1 + 1) }
              is_midpoint_gt_even := false
              is_inexact_gt_midpoint := true
            else
              if ((((!is_midpoint_lt_even) && (!is_midpoint_gt_even)) && (!is_inexact_lt_midpoint)) && (!is_inexact_gt_midpoint)) then
                if (is_inexact_gt_midpoint0 || is_midpoint_lt_even0) then
                  is_inexact_gt_midpoint := true
                if (is_inexact_lt_midpoint0 || is_midpoint_gt_even0) then
                  is_inexact_lt_midpoint := true
              else
                if (is_midpoint_gt_even && ((is_inexact_gt_midpoint0 || is_midpoint_lt_even0))) then
                  is_inexact_lt_midpoint := true
                  is_inexact_gt_midpoint := false
                  is_midpoint_lt_even := false
                  is_midpoint_gt_even := false
                else
                  if (is_midpoint_lt_even && ((is_inexact_lt_midpoint0 || is_midpoint_gt_even0))) then
                    is_inexact_lt_midpoint := false
                    is_inexact_gt_midpoint := true
                    is_midpoint_lt_even := false
                    is_midpoint_gt_even := false
                  else
                    pure ()
          e3 := (e3 + 1)
          if (((((!is_midpoint_lt_even) && (!is_midpoint_gt_even)) && (!is_inexact_lt_midpoint)) && (!is_inexact_gt_midpoint)) && ((((is_midpoint_lt_even0 || is_midpoint_gt_even0) || is_inexact_lt_midpoint0) || is_inexact_gt_midpoint0))) then
            is_inexact_lt_midpoint := true
        else
          res := { res with w1 := (res.w1 &&& c_MASK_COEFF) }
          if lsb then
            if is_midpoint_gt_even then
              is_midpoint_gt_even := false
              is_midpoint_lt_even := true
              res := { res with w0 := (res.w0 + 1) }
              if (res.w0 == (0 : UInt64)) then
                res := { res with w1 := (res.w1 + 1) }
              if ((res.w1 == (0x1ed09bead87c0 : UInt64)) && (res.w0 == (0x378d8e6400000000 : UInt64))) then
                res := { res with w1 := (0x314dc6448d93 : UInt64) }
                res := { res with w0 := (0x38c15b0a00000000 : UInt64) }
                e3 := (e3 + 1)
            else
              if is_midpoint_lt_even then
                is_midpoint_lt_even := false
                is_midpoint_gt_even := true
                res := { res with w0 := (res.w0 - 1) }
                if (res.w0 == (0xffffffffffffffff : UInt64)) then
                  res := { res with w1 := (res.w1 - 1) }
                if ((res.w1 == (0 : UInt64)) && (res.w0 == (0 : UInt64))) then
                  z_sign := (if (rnd_mode != RoundingMode.Downward) then (0 : UInt64) else (0x8000000000000000 : UInt64))
                  res := { res with w1 := (0 : UInt64) }
                  res := { res with w0 := (0 : UInt64) }
                  ptr_is_midpoint_lt_even := is_midpoint_lt_even
                  ptr_is_midpoint_gt_even := is_midpoint_gt_even
                  ptr_is_inexact_lt_midpoint := is_inexact_lt_midpoint
                  ptr_is_inexact_gt_midpoint := is_inexact_gt_midpoint
                  return (res, ptr_is_midpoint_lt_even, ptr_is_midpoint_gt_even, ptr_is_inexact_lt_midpoint, ptr_is_inexact_gt_midpoint, pfpsf)
              else
                pure ()
      else
        lsb := (((res.w0 &&& (1 : UInt64))) == (1 : UInt64))
        tmp64 := res.w0
        res := { res with w0 := (res.w0 - R128.w0) }
        res := { res with w1 := (res.w1 - R128.w1) }
        if (decide (res.w0 > tmp64)) then
          res := { res with w1 := (res.w1 - 1) }
        if (((decide (e3 > c_EXP_MIN_UNBIASED)) && (((((decide (res.w1 < (0x314dc6448d93 : UInt64))) || (((res.w1 == (0x314dc6448d93 : UInt64)) && (decide (res.w0 < (0x38c15b0a00000000 : UInt64))))))) || (((((is_inexact_lt_midpoint || is_midpoint_gt_even)) && (res.w1 == (0x314dc6448d93 : UInt64))) && (res.w0 == (0x38c15b0a00000000 : UInt64))))))) && (decide (x0 ≥ (1 : Int32)))) then
          x0 := (x0 - 1)
          e3 := (e3 + scale)
          scale := (scale + 1)
          is_inexact_lt_midpoint := false
          is_inexact_gt_midpoint := false
          is_midpoint_lt_even := false
          is_midpoint_gt_even := false
          incr_exp := false
          continue
        if is_inexact_lt_midpoint then
          is_inexact_lt_midpoint := false
          is_inexact_gt_midpoint := true
        else
          if is_inexact_gt_midpoint then
            is_inexact_gt_midpoint := false
            is_inexact_lt_midpoint := true
          else
            if (!lsb) then
              if is_midpoint_lt_even then
                is_midpoint_lt_even := false
                is_midpoint_gt_even := true
              else
                if is_midpoint_gt_even then
                  is_midpoint_gt_even := false
                  is_midpoint_lt_even := true
                else
                  pure ()
            else
              if lsb then
                if is_midpoint_lt_even then
                  res := { res with w0 := (res.w0 + 1) }
                  if (res.w0 == (0 : UInt64)) then
                    res := { res with w1 := (res.w1 + 1) }
                  if ((res.w1 == (0x1ed09bead87c0 : UInt64)) && (res.w0 == (0x378d8e6400000000 : UInt64))) then
                    res := { res with w1 := (0x314dc6448d93 : UInt64) }
                    res := { res with w0 := (0x38c15b0a00000000 : UInt64) }
                    e3 := (e3 + 1)
                else
                  if is_midpoint_gt_even then
                    res := { res with w0 := (res.w0 - 1) }
                    if (res.w0 == (0xffffffffffffffff : UInt64)) then
                      res := { res with w1 := (res.w1 - 1) }
                    if ((res.w1 == (0 : UInt64)) && (res.w0 == (0 : UInt64))) then
                      z_sign := (if (rnd_mode != RoundingMode.Downward) then (0 : UInt64) else (0x8000000000000000 : UInt64))
                      res := { res with w1 := (0 : UInt64) }
                      res := { res with w0 := (0 : UInt64) }
                      ptr_is_midpoint_lt_even := is_midpoint_lt_even
                      ptr_is_midpoint_gt_even := is_midpoint_gt_even
                      ptr_is_inexact_lt_midpoint := is_inexact_lt_midpoint
                      ptr_is_inexact_gt_midpoint := is_inexact_gt_midpoint
                      return (res, ptr_is_midpoint_lt_even, ptr_is_midpoint_gt_even, ptr_is_inexact_lt_midpoint, ptr_is_inexact_gt_midpoint, pfpsf)
                  else
                    pure ()
              else
                pure ()
      let t__45 : Int32 := e3
      if (let value := t__45; (value == c_EXP_MIN_UNBIASED)) then
        let mut value : Int32 := t__45
        if ((decide (((res.w1 &&& c_MASK_COEFF)) < (0x314dc6448d93 : UInt64))) || (((((res.w1 &&& c_MASK_COEFF)) == (0x314dc6448d93 : UInt64)) && (decide (res.w0 < (0x38c15b0a00000000 : UInt64)))))) then
          is_tiny := true
        if ((((((res.w1 &&& (0x7fffffffffffffff : UInt64))) == (0x314dc6448d93 : UInt64))) && ((res.w0 == (0x38c15b0a00000000 : UInt64)))) && ((is_inexact_gt_midpoint || is_midpoint_lt_even))) then
          is_tiny := true
      else
        if (let value := t__45; (decide (value < c_EXP_MIN_UNBIASED))) then
          let mut value : Int32 := t__45
          is_tiny := true
          x0 := (c_EXP_MIN_UNBIASED - e3)
          is_inexact_lt_midpoint0 := is_inexact_lt_midpoint
          is_inexact_gt_midpoint0 := is_inexact_gt_midpoint
          is_midpoint_lt_even0 := is_midpoint_lt_even
          is_midpoint_gt_even0 := is_midpoint_gt_even
          is_inexact_lt_midpoint := false
          is_inexact_gt_midpoint := false
          is_midpoint_lt_even := false
          is_midpoint_gt_even := false
          if (res.w1 == (0 : UInt64)) then
            ind := (Int32.ofInt (toI (← countWhile64 Dec.Gen.BID_TEN2K64 1 19 (fun x => (decide (res.w0 ≥ x))))))
            ind := (ind + 1)
          else
            if (← (if (decide (res.w1 < (← tbl128 Dec.Gen.BID_TEN2K128 (UInt64.ofInt (toI 0))).w1)) then pure true else (do pure ((← (if (res.w1 == (← tbl128 Dec.Gen.BID_TEN2K128 (UInt64.ofInt (toI 0))).w1) then (do pure (decide (res.w0 < (← tbl128 Dec.Gen.BID_TEN2K128 (UInt64.ofInt (toI 0))).w0))) else pure false)))))) then
              ind := (0x14 : Int32)
            else
              ind := (Int32.ofInt (toI (← countWhile128 Dec.Gen.BID_TEN2K128 1 18 (fun d => (!(((decide (res.w1 < d.w1)) || (((res.w1 == d.w1) && (decide (res.w0 < d.w0)))))))))))
              ind := (ind + 1)
              ind := (ind + 0x14)
          if (x0 == ind) then
            res := { res with w1 := (0 : UInt64) }
            res := { res with w0 := (1 : UInt64) }
            is_inexact_gt_midpoint := true
          else
            if (decide (ind ≤ (0x12 : Int32))) then
              let t__46 ← bid_round64_2_18 ind x0 res.w0 incr_exp is_midpoint_lt_even is_midpoint_gt_even is_inexact_lt_midpoint is_inexact_gt_midpoint
              incr_exp := t__46.2.1
              is_midpoint_lt_even := t__46.2.2.1
              is_midpoint_gt_even := t__46.2.2.2.1
              is_inexact_lt_midpoint := t__46.2.2.2.2.1
              is_inexact_gt_midpoint := t__46.2.2.2.2.2
              R64 := t__46.1
              if incr_exp then
                R64 := (← tbl64 Dec.Gen.BID_TEN2K64 (UInt64.ofInt (toI ((ind - x0)))))
              res := { res with w1 := (0 : UInt64) }
              res := { res with w0 := R64 }
            else
              if (decide (ind ≤ (0x26 : Int32))) then
                P128 := { P128 with w1 := res.w1 }
                P128 := { P128 with w0 := res.w0 }
                let t__47 ← bid_round128_19_38 ind x0 P128 incr_exp is_midpoint_lt_even is_midpoint_gt_even is_inexact_lt_midpoint is_inexact_gt_midpoint
                incr_exp := t__47.2.1
                is_midpoint_lt_even := t__47.2.2.1
                is_midpoint_gt_even := t__47.2.2.2.1
                is_inexact_lt_midpoint := t__47.2.2.2.2.1
                is_inexact_gt_midpoint := t__47.2.2.2.2.2
                res := t__47.1
                if incr_exp then
                  if (decide ((ind - x0) ≤ (0x13 : Int32))) then
                    res := { res with w0 := (← tbl64 Dec.Gen.BID_TEN2K64 (UInt64.ofInt (toI ((ind - x0))))) }
                  else
                    res := { res with w0 := (← tbl128 Dec.Gen.BID_TEN2K128 (UInt64.ofInt (toI (((ind - x0) - (0x14 : Int32)))))).w0 }
                    res := { res with w1 := (← tbl128 Dec.Gen.BID_TEN2K128 (UInt64.ofInt (toI (((ind - x0) - (0x14 : Int32)))))).w1 }
          if (((is_inexact_gt_midpoint0 || is_midpoint_lt_even0)) && is_midpoint_lt_even) then
            res := { res with w0 := (res.w0 - 1) }
            if (res.w0 == (0xffffffffffffffff : UInt64)) then
              res := { res with w1 := (res.w1 - 1) }
            is_midpoint_lt_even := false
            is_inexact_lt_midpoint := true
          else
            if (((is_inexact_lt_midpoint0 || is_midpoint_gt_even0)) && is_midpoint_gt_even) then
              res := { res with w0 := (res.w0 + 1) }
              if (res.w0 == (0 : UInt64)) then
                res := { res with w1 := (res.w1 + 1) }
              is_midpoint_gt_even := false
              is_inexact_gt_midpoint := true
            else
              if ((((!is_midpoint_lt_even) && (!is_midpoint_gt_even)) && (!is_inexact_lt_midpoint)) && (!is_inexact_gt_midpoint)) then
                if (is_inexact_gt_midpoint0 || is_midpoint_lt_even0) then
                  is_inexact_gt_midpoint := true
                if (is_inexact_lt_midpoint0 || is_midpoint_gt_even0) then
                  is_inexact_lt_midpoint := true
              else
                if (is_midpoint_gt_even && ((is_inexact_gt_midpoint0 || is_midpoint_lt_even0))) then
                  is_inexact_lt_midpoint := true
                  is_inexact_gt_midpoint := false
                  is_midpoint_lt_even := false
                  is_midpoint_gt_even := false
                else
                  if (is_midpoint_lt_even && ((is_inexact_lt_midpoint0 || is_midpoint_gt_even0))) then
                    is_inexact_lt_midpoint := false
                    is_inexact_gt_midpoint := true
                    is_midpoint_lt_even := false
                    is_midpoint_gt_even := false
                  else
                    pure ()
          e3 := (e3 + x0)
          if (((((!is_midpoint_lt_even) && (!is_midpoint_gt_even)) && (!is_inexact_lt_midpoint)) && (!is_inexact_gt_midpoint)) && ((((is_midpoint_lt_even0 || is_midpoint_gt_even0) || is_inexact_lt_midpoint0) || is_inexact_gt_midpoint0))) then
            is_inexact_lt_midpoint := true
        else
          pure ()
      if (((is_inexact_lt_midpoint || is_inexact_gt_midpoint) || is_midpoint_lt_even) || is_midpoint_gt_even) then
        pfpsf := (pfpsf ||| c_StatusFlags_BID_INEXACT_EXCEPTION)
        if is_tiny then
          pfpsf := (pfpsf ||| c_StatusFlags_BID_UNDERFLOW_EXCEPTION)
      if ((res.w1 == (0x1ed09bead87c0 : UInt64)) && (res.w0 == (0x378d8e6400000000 : UInt64))) then
        res := { res with w1 := (0x314dc6448d93 : UInt64) }
        res := { res with w0 := (0x38c15b0a00000000 : UInt64) }
        e3 := (e3 + 1)
      res := { res with w1 := (res.w1 ||| (z_sign ||| ((((UInt64.ofInt (toI ((e3 + (0x1820 : Int32)))))) <<< 0x31)))) }
      if ((rnd_mode == RoundingMode.NearestEven) && (decide (e3 > c_EXP_MAX_UNBIASED))) then
        res := { res with w1 := (z_sign ||| (0x7800000000000000 : UInt64)) }
        res := { res with w0 := (0 : UInt64) }
        pfpsf := (pfpsf ||| (c_StatusFlags_BID_INEXACT_EXCEPTION ||| c_StatusFlags_BID_OVERFLOW_EXCEPTION))
      if (rnd_mode != RoundingMode.NearestEven) then
        let t__48 ← bid_rounding_correction rnd_mode is_inexact_lt_midpoint is_inexact_gt_midpoint is_midpoint_lt_even is_midpoint_gt_even e3 res pfpsf
        res := t__48.1
        pfpsf := t__48.2
      ptr_is_midpoint_lt_even := is_midpoint_lt_even
      ptr_is_midpoint_gt_even := is_midpoint_gt_even
      ptr_is_inexact_lt_midpoint := is_inexact_lt_midpoint
      ptr_is_inexact_gt_midpoint := is_inexact_gt_midpoint
      return (res, ptr_is_midpoint_lt_even, ptr_is_midpoint_gt_even, ptr_is_inexact_lt_midpoint, ptr_is_inexact_gt_midpoint, pfpsf)
    if !brk__39 then throw "loop fuel exhausted"
  else
    if (decide ((delta + q4) < q3)) then
      P128 := { P128 with w1 := C3.w1 }
      P128 := { P128 with w0 := C3.w0 }
      C3 := { C3 with w1 := C4.w1 }
      C3 := { C3 with w0 := C4.w0 }
      C4 := { C4 with w1 := P128.w1 }
      C4 := { C4 with w0 := P128.w0 }
      ind := q3
      q3 := q4
      q4 := ind
      ind := e3
      e3 := e4
      e4 := ind
      tmp_sign := z_sign
      z_sign := p_sign
      p_sign := tmp_sign
    else
      delta := (-delta)
    let t__49 ← bid_add_and_round q3 q4 e4 delta p34 z_sign p_sign C3 C4 rnd_mode is_midpoint_lt_even is_midpoint_gt_even is_inexact_lt_midpoint is_inexact_gt_midpoint pfpsf
    is_midpoint_lt_even := t__49.2.1
    is_midpoint_gt_even := t__49.2.2.1
    is_inexact_lt_midpoint := t__49.2.2.2.1
    is_inexact_gt_midpoint := t__49.2.2.2.2.1
    pfpsf := t__49.2.2.2.2.2
    res := t__49.1
    ptr_is_midpoint_lt_even := is_midpoint_lt_even
    ptr_is_midpoint_gt_even := is_midpoint_gt_even
    ptr_is_inexact_lt_midpoint := is_inexact_lt_midpoint
    ptr_is_inexact_gt_midpoint := is_inexact_gt_midpoint
    return (res, ptr_is_midpoint_lt_even, ptr_is_midpoint_gt_even, ptr_is_inexact_lt_midpoint, ptr_is_inexact_gt_midpoint, pfpsf)
  ptr_is_midpoint_lt_even := is_midpoint_lt_even
  ptr_is_midpoint_gt_even := is_midpoint_gt_even
  ptr_is_inexact_lt_midpoint := is_inexact_lt_midpoint
  ptr_is_inexact_gt_midpoint := is_inexact_gt_midpoint
  return (res, ptr_is_midpoint_lt_even, ptr_is_midpoint_gt_even, ptr_is_inexact_lt_midpoint, ptr_is_inexact_gt_midpoint, pfpsf)


abbrev Ret := U128 × Bool × Bool × Bool × Bool × UInt32
abbrev LS := Bool × Bool × Bool × Bool × UInt32 × U128 × UInt64 × Int32 × Int32 × Int32 × Int32 × Bool × Bool × Bool × Bool × Bool × Bool × Bool × Bool × Bool × Bool × Bool × UInt64 × UInt64 × U128 × U128 × U192 × U192 × U256
abbrev Step := ForInStep (Option Ret × LS)

/-- Cases (2)/(4), (6), (3)/(5): the scale factor of `C3`, the number `x0` of digits to remove from `C4` (Case (6): `C4` scaled instead) -/
def setupK {α : Type} (C4_ : U256) (q3_ : Int32) (q4_ : Int32) (scale_ : Int32) (delta_ : Int32) (x0_ : Int32) (p34_ : Int32) (P128_ : U128) (k : U256 → Int32 → Int32 → U128 → Except String α) : Except String α := do
  let mut C4 : U256 := C4_
  let mut q3 : Int32 := q3_
  let mut q4 : Int32 := q4_
  let mut scale : Int32 := scale_
  let mut delta : Int32 := delta_
  let mut x0 : Int32 := x0_
  let mut p34 : Int32 := p34_
  let mut P128 : U128 := P128_
  if (((((decide (q3 ≤ delta)) && (decide (delta < p34))) && (decide (p34 < (delta + q4))))) || (((decide (delta < q3)) && (decide (p34 < (delta + q4)))))) then
    scale := (p34 - q3)
    x0 := ((delta + q4) - p34)
  else
    if (decide ((delta + q4) < q3)) then
      scale := ((q3 - delta) - q4)
      if (decide (q4 ≤ (0x13 : Int32))) then
        if (decide (scale ≤ (0x13 : Int32))) then
          P128 := (← mul_64x64_to_128MACH C4.w0 (← tbl64 Dec.Gen.BID_TEN2K64 (UInt64.ofInt (toI scale))))
        else
          P128 := (← mul_128x64_to_128 C4.w0 (← tbl128 Dec.Gen.BID_TEN2K128 (UInt64.ofInt (toI ((scale - (0x14 : Int32)))))))
      else
        let mut tmp_38 : U128 := (⟨C4.w0, C4.w1⟩ : U128)
        P128 := (← mul_128x64_to_128 (← tbl64 Dec.Gen.BID_TEN2K64 (UInt64.ofInt (toI scale))) tmp_38)
      C4 := { C4 with w0 := P128.w0 }
      C4 := { C4 with w1 := P128.w1 }
      scale := (0 : Int32)
      x0 := (0 : Int32)
    else
      scale := ((delta + q4) - q3)
      x0 := (0 : Int32)
  k C4 scale x0 P128

/-- `res = C3·10^scale` -/
def scaleC3K {α : Type} (res_ : U128) (C3_ : U128) (q3_ : Int32) (scale_ : Int32) (k : U128 → Except String α) : Except String α := do
  let mut res : U128 := res_
  let mut C3 : U128 := C3_
  let mut q3 : Int32 := q3_
  let mut scale : Int32 := scale_
  if (scale == (0 : Int32)) then
    res := { res with w1 := C3.w1 }
    res := { res with w0 := C3.w0 }
  else
    if (decide (q3 ≤ (0x13 : Int32))) then
      res := (← (if (decide (scale ≤ (0x13 : Int32))) then (do pure (← mul_64x64_to_128MACH C3.w0 (← tbl64 Dec.Gen.BID_TEN2K64 (UInt64.ofInt (toI scale))))) else (do pure (← mul_128x64_to_128 C3.w0 (← tbl128 Dec.Gen.BID_TEN2K128 (UInt64.ofInt (toI ((scale - (0x14 : Int32))))))))))
    else
      res := (← mul_128x64_to_128 (← tbl64 Dec.Gen.BID_TEN2K64 (UInt64.ofInt (toI scale))) C3)
  k res

/-- `R128 = C4` rounded to `q4 − x0` digits (nearest-even), with the indicators -/
def roundC4K {α : Type} (C4_ : U256) (q4_ : Int32) (x0_ : Int32) (is_midpoint_lt_even_ : Bool) (is_midpoint_gt_even_ : Bool) (is_inexact_lt_midpoint_ : Bool) (is_inexact_gt_midpoint_ : Bool) (incr_exp_ : Bool) (R64_ : UInt64) (P128_ : U128) (R128_ : U128) (P192_ : U192) (R192_ : U192) (R256_ : U256) (k : Bool → Bool → Bool → Bool → Bool → UInt64 → U128 → U128 → U192 → U192 → U256 → Except String α) : Except String α := do
  let mut C4 : U256 := C4_
  let mut q4 : Int32 := q4_
  let mut x0 : Int32 := x0_
  let mut is_midpoint_lt_even : Bool := is_midpoint_lt_even_
  let mut is_midpoint_gt_even : Bool := is_midpoint_gt_even_
  let mut is_inexact_lt_midpoint : Bool := is_inexact_lt_midpoint_
  let mut is_inexact_gt_midpoint : Bool := is_inexact_gt_midpoint_
  let mut incr_exp : Bool := incr_exp_
  let mut R64 : UInt64 := R64_
  let mut P128 : U128 := P128_
  let mut R128 : U128 := R128_
  let mut P192 : U192 := P192_
  let mut R192 : U192 := R192_
  let mut R256 : U256 := R256_
  if (x0 == (0 : Int32)) then
    R128 := { R128 with w1 := C4.w1 }
    R128 := { R128 with w0 := C4.w0 }
  else
    if (decide (q4 ≤ (0x12 : Int32))) then
      let t__40 ← bid_round64_2_18 q4 x0 C4.w0 incr_exp is_midpoint_lt_even is_midpoint_gt_even is_inexact_lt_midpoint is_inexact_gt_midpoint
      incr_exp := t__40.2.1
      is_midpoint_lt_even := t__40.2.2.1
      is_midpoint_gt_even := t__40.2.2.2.1
      is_inexact_lt_midpoint := t__40.2.2.2.2.1
      is_inexact_gt_midpoint := t__40.2.2.2.2.2
      R64 := t__40.1
      if incr_exp then
        R64 := (← tbl64 Dec.Gen.BID_TEN2K64 (UInt64.ofInt (toI ((q4 - x0)))))
      R128 := { R128 with w1 := (0 : UInt64) }
      R128 := { R128 with w0 := R64 }
    else
      if (decide (q4 ≤ (0x26 : Int32))) then
        P128 := { P128 with w1 := C4.w1 }
        P128 := { P128 with w0 := C4.w0 }
        let t__41 ← bid_round128_19_38 q4 x0 P128 incr_exp is_midpoint_lt_even is_midpoint_gt_even is_inexact_lt_midpoint is_inexact_gt_midpoint
        incr_exp := t__41.2.1
        is_midpoint_lt_even := t__41.2.2.1
        is_midpoint_gt_even := t__41.2.2.2.1
        is_inexact_lt_midpoint := t__41.2.2.2.2.1
        is_inexact_gt_midpoint := t__41.2.2.2.2.2
        R128 := t__41.1
        if incr_exp then
          if (decide ((q4 - x0) ≤ (0x13 : Int32))) then
            R128 := { R128 with w0 := (← tbl64 Dec.Gen.BID_TEN2K64 (UInt64.ofInt (toI ((q4 - x0))))) }
          else
            R128 := { R128 with w0 := (← tbl128 Dec.Gen.BID_TEN2K128 (UInt64.ofInt (toI (((q4 - x0) - (0x14 : Int32)))))).w0 }
            R128 := { R128 with w1 := (← tbl128 Dec.Gen.BID_TEN2K128 (UInt64.ofInt (toI (((q4 - x0) - (0x14 : Int32)))))).w1 }
      else
        if (decide (q4 ≤ (0x39 : Int32))) then
          P192 := { P192 with w2 := C4.w2 }
          P192 := { P192 with w1 := C4.w1 }
          P192 := { P192 with w0 := C4.w0 }
          let t__42 ← bid_round192_39_57 q4 x0 P192 incr_exp is_midpoint_lt_even is_midpoint_gt_even is_inexact_lt_midpoint is_inexact_gt_midpoint
          incr_exp := t__42.2.1
          is_midpoint_lt_even := t__42.2.2.1
          is_midpoint_gt_even := t__42.2.2.2.1
          is_inexact_lt_midpoint := t__42.2.2.2.2.1
          is_inexact_gt_midpoint := t__42.2.2.2.2.2
          R192 := t__42.1
          if incr_exp then
            if (decide ((q4 - x0) ≤ (0x13 : Int32))) then
              R192 := { R192 with w0 := (← tbl64 Dec.Gen.BID_TEN2K64 (UInt64.ofInt (toI ((q4 - x0))))) }
            else
              R192 := { R192 with w0 := (← tbl128 Dec.Gen.BID_TEN2K128 (UInt64.ofInt (toI (((q4 - x0) - (0x14 : Int32)))))).w0 }
              R192 := { R192 with w1 := (← tbl128 Dec.Gen.BID_TEN2K128 (UInt64.ofInt (toI (((q4 - x0) - (0x14 : Int32)))))).w1 }
          R128 := { R128 with w1 := R192.w1 }
          R128 := { R128 with w0 := R192.w0 }
        else
          let t__43 ← bid_round256_58_76 q4 x0 C4 incr_exp is_midpoint_lt_even is_midpoint_gt_even is_inexact_lt_midpoint is_inexact_gt_midpoint
          incr_exp := t__43.2.1
          is_midpoint_lt_even := t__43.2.2.1
          is_midpoint_gt_even := t__43.2.2.2.1
          is_inexact_lt_midpoint := t__43.2.2.2.2.1
          is_inexact_gt_midpoint := t__43.2.2.2.2.2
          R256 := t__43.1
          if incr_exp then
            if (decide ((q4 - x0) ≤ (0x13 : Int32))) then
              R256 := { R256 with w0 := (← tbl64 Dec.Gen.BID_TEN2K64 (UInt64.ofInt (toI ((q4 - x0))))) }
            else
              R256 := { R256 with w0 := (← tbl128 Dec.Gen.BID_TEN2K128 (UInt64.ofInt (toI (((q4 - x0) - (0x14 : Int32)))))).w0 }
              R256 := { R256 with w1 := (← tbl128 Dec.Gen.BID_TEN2K128 (UInt64.ofInt (toI (((q4 - x0) - (0x14 : Int32)))))).w1 }
          R128 := { R128 with w1 := R256.w1 }
          R128 := { R128 with w0 := R256.w0 }
  k is_midpoint_lt_even is_midpoint_gt_even is_inexact_lt_midpoint is_inexact_gt_midpoint incr_exp R64 P128 R128 P192 R192 R256

/-- same signs: `res += R128`, `lsb` the parity of `C3·10^scale` -/
def sameAddK {α : Type} (res_ : U128) (lsb_ : Bool) (R128_ : U128) (k : U128 → Bool → Except String α) : Except String α := do
  let mut res : U128 := res_
  let mut lsb : Bool := lsb_
  let mut R128 : U128 := R128_
  lsb := (((res.w0 &&& (1 : UInt64))) == (1 : UInt64))
  res := { res with w0 := (res.w0 + R128.w0) }
  res := { res with w1 := (res.w1 + R128.w1) }
  if (decide (res.w0 < R128.w0)) then
    res := { res with w1 := (res.w1 + 1) }
  k res lsb

/-- the sum has 35 digits: round off one more digit -/
def same35K {α : Type} (res_ : U128) (is_midpoint_lt_even_ : Bool) (is_midpoint_gt_even_ : Bool) (is_inexact_lt_midpoint_ : Bool) (is_inexact_gt_midpoint_ : Bool) (is_midpoint_lt_even0_ : Bool) (is_midpoint_gt_even0_ : Bool) (is_inexact_lt_midpoint0_ : Bool) (is_inexact_gt_midpoint0_ : Bool) (incr_exp_ : Bool) (P128_ : U128) (k : U128 → Bool → Bool → Bool → Bool → Bool → Bool → Bool → Bool → Bool → U128 → Except String α) : Except String α := do
  let mut res : U128 := res_
  let mut is_midpoint_lt_even : Bool := is_midpoint_lt_even_
  let mut is_midpoint_gt_even : Bool := is_midpoint_gt_even_
  let mut is_inexact_lt_midpoint : Bool := is_inexact_lt_midpoint_
  let mut is_inexact_gt_midpoint : Bool := is_inexact_gt_midpoint_
  let mut is_midpoint_lt_even0 : Bool := is_midpoint_lt_even0_
  let mut is_midpoint_gt_even0 : Bool := is_midpoint_gt_even0_
  let mut is_inexact_lt_midpoint0 : Bool := is_inexact_lt_midpoint0_
  let mut is_inexact_gt_midpoint0 : Bool := is_inexact_gt_midpoint0_
  let mut incr_exp : Bool := incr_exp_
  let mut P128 : U128 := P128_
  is_inexact_lt_midpoint0 := is_inexact_lt_midpoint
  is_inexact_gt_midpoint0 := is_inexact_gt_midpoint
  is_midpoint_lt_even0 := is_midpoint_lt_even
  is_midpoint_gt_even0 := is_midpoint_gt_even
  is_inexact_lt_midpoint := false
  is_inexact_gt_midpoint := false
  is_midpoint_lt_even := false
  is_midpoint_gt_even := false
  P128 := { P128 with w1 := res.w1 }
  P128 := { P128 with w0 := res.w0 }
  let t__44 ← bid_round128_19_38 (0x23 : Int32) (1 : Int32) P128 incr_exp is_midpoint_lt_even is_midpoint_gt_even is_inexact_lt_midpoint is_inexact_gt_midpoint
  incr_exp := t__44.2.1
  is_midpoint_lt_even := t__44.2.2.1
  is_midpoint_gt_even := t__44.2.2.2.1
  is_inexact_lt_midpoint := t__44.2.2.2.2.1
  is_inexact_gt_midpoint := t__44.2.2.2.2.2
  res := t__44.1
  k res is_midpoint_lt_even is_midpoint_gt_even is_inexact_lt_midpoint is_inexact_gt_midpoint is_midpoint_lt_even0 is_midpoint_gt_even0 is_inexact_lt_midpoint0 is_inexact_gt_midpoint0 incr_exp P128

/-- correction of a double rounding: first indicators `…0`, second rounding in the current ones -/
def dblFixK {α : Type} (res_ : U128) (is_midpoint_lt_even_ : Bool) (is_midpoint_gt_even_ : Bool) (is_inexact_lt_midpoint_ : Bool) (is_inexact_gt_midpoint_ : Bool) (is_midpoint_lt_even0_ : Bool) (is_midpoint_gt_even0_ : Bool) (is_inexact_lt_midpoint0_ : Bool) (is_inexact_gt_midpoint0_ : Bool) (k : U128 → Bool → Bool → Bool → Bool → Except String α) : Except String α := do
  let mut res : U128 := res_
  let mut is_midpoint_lt_even : Bool := is_midpoint_lt_even_
  let mut is_midpoint_gt_even : Bool := is_midpoint_gt_even_
  let mut is_inexact_lt_midpoint : Bool := is_inexact_lt_midpoint_
  let mut is_inexact_gt_midpoint : Bool := is_inexact_gt_midpoint_
  let mut is_midpoint_lt_even0 : Bool := is_midpoint_lt_even0_
  let mut is_midpoint_gt_even0 : Bool := is_midpoint_gt_even0_
  let mut is_inexact_lt_midpoint0 : Bool := is_inexact_lt_midpoint0_
  let mut is_inexact_gt_midpoint0 : Bool := is_inexact_gt_midpoint0_
  if (((is_inexact_gt_midpoint0 || is_midpoint_lt_even0)) && is_midpoint_lt_even) then
    res := { res with w0 := (res.w0 - 1) }
    if (res.w0 == (0xffffffffffffffff : UInt64)) then
      res := { res with w1 := (res.w1 - 1) }
    is_midpoint_lt_even := false
    is_inexact_lt_midpoint := true
  else
    if (((is_inexact_lt_midpoint0 || is_midpoint_gt_even0)) && is_midpoint_gt_even) then
      res := { res with w0 := (res.w0 + 1) }
      if (res.w0 == (0 : UInt64)) then
        res := { res with w1 := (res.w1 + 1) }
      is_midpoint_gt_even := false
      is_inexact_gt_midpoint := true
    else
      if ((((!is_midpoint_lt_even) && (!is_midpoint_gt_even)) && (!is_inexact_lt_midpoint)) && (!is_inexact_gt_midpoint)) then
        if (is_inexact_gt_midpoint0 || is_midpoint_lt_even0) then
          is_inexact_gt_midpoint := true
        if (is_inexact_lt_midpoint0 || is_midpoint_gt_even0) then
          is_inexact_lt_midpoint := true
      else
        if (is_midpoint_gt_even && ((is_inexact_gt_midpoint0 || is_midpoint_lt_even0))) then
          is_inexact_lt_midpoint := true
          is_inexact_gt_midpoint := false
          is_midpoint_lt_even := false
          is_midpoint_gt_even := false
        else
          if (is_midpoint_lt_even && ((is_inexact_lt_midpoint0 || is_midpoint_gt_even0))) then
            is_inexact_lt_midpoint := false
            is_inexact_gt_midpoint := true
            is_midpoint_lt_even := false
            is_midpoint_gt_even := false
          else
            pure ()
  k res is_midpoint_lt_even is_midpoint_gt_even is_inexact_lt_midpoint is_inexact_gt_midpoint

def sameTailK {α : Type} (e3_ : Int32) (is_midpoint_lt_even_ : Bool) (is_midpoint_gt_even_ : Bool) (is_inexact_lt_midpoint_ : Bool) (is_inexact_gt_midpoint_ : Bool) (is_midpoint_lt_even0_ : Bool) (is_midpoint_gt_even0_ : Bool) (is_inexact_lt_midpoint0_ : Bool) (is_inexact_gt_midpoint0_ : Bool) (k : Int32 → Bool → Except String α) : Except String α := do
  let mut e3 : Int32 := e3_
  let mut is_midpoint_lt_even : Bool := is_midpoint_lt_even_
  let mut is_midpoint_gt_even : Bool := is_midpoint_gt_even_
  let mut is_inexact_lt_midpoint : Bool := is_inexact_lt_midpoint_
  let mut is_inexact_gt_midpoint : Bool := is_inexact_gt_midpoint_
  let mut is_midpoint_lt_even0 : Bool := is_midpoint_lt_even0_
  let mut is_midpoint_gt_even0 : Bool := is_midpoint_gt_even0_
  let mut is_inexact_lt_midpoint0 : Bool := is_inexact_lt_midpoint0_
  let mut is_inexact_gt_midpoint0 : Bool := is_inexact_gt_midpoint0_
  e3 := (e3 + 1)
  if (((((!is_midpoint_lt_even) && (!is_midpoint_gt_even)) && (!is_inexact_lt_midpoint)) && (!is_inexact_gt_midpoint)) && ((((is_midpoint_lt_even0 || is_midpoint_gt_even0) || is_inexact_lt_midpoint0) || is_inexact_gt_midpoint0))) then
    is_inexact_lt_midpoint := true
  k e3 is_inexact_lt_midpoint

/-- same signs, at most 34 digits: repair of the tie-break when `C3·10^scale` is odd -/
def sameLsbK (ptr_is_midpoint_lt_even_ : Bool) (ptr_is_midpoint_gt_even_ : Bool) (ptr_is_inexact_lt_midpoint_ : Bool) (ptr_is_inexact_gt_midpoint_ : Bool) (rnd_mode_ : RoundingMode) (pfpsf_ : UInt32) (res_ : U128) (z_sign_ : UInt64) (e3_ : Int32) (scale_ : Int32) (ind_ : Int32) (x0_ : Int32) (is_midpoint_lt_even_ : Bool) (is_midpoint_gt_even_ : Bool) (is_inexact_lt_midpoint_ : Bool) (is_inexact_gt_midpoint_ : Bool) (is_midpoint_lt_even0_ : Bool) (is_midpoint_gt_even0_ : Bool) (is_inexact_lt_midpoint0_ : Bool) (is_inexact_gt_midpoint0_ : Bool) (incr_exp_ : Bool) (lsb_ : Bool) (is_tiny_ : Bool) (R64_ : UInt64) (tmp64_ : UInt64) (P128_ : U128) (R128_ : U128) (P192_ : U192) (R192_ : U192) (R256_ : U256) (k : Bool → Bool → Bool → Bool → U128 → UInt64 → Int32 → Bool → Bool → Except String (ForInStep (Option (U128 × Bool × Bool × Bool × Bool × UInt32) × (Bool × Bool × Bool × Bool × UInt32 × U128 × UInt64 × Int32 × Int32 × Int32 × Int32 × Bool × Bool × Bool × Bool × Bool × Bool × Bool × Bool × Bool × Bool × Bool × UInt64 × UInt64 × U128 × U128 × U192 × U192 × U256)))) : Except String (ForInStep (Option (U128 × Bool × Bool × Bool × Bool × UInt32) × (Bool × Bool × Bool × Bool × UInt32 × U128 × UInt64 × Int32 × Int32 × Int32 × Int32 × Bool × Bool × Bool × Bool × Bool × Bool × Bool × Bool × Bool × Bool × Bool × UInt64 × UInt64 × U128 × U128 × U192 × U192 × U256))) := do
  let mut ptr_is_midpoint_lt_even : Bool := ptr_is_midpoint_lt_even_
  let mut ptr_is_midpoint_gt_even : Bool := ptr_is_midpoint_gt_even_
  let mut ptr_is_inexact_lt_midpoint : Bool := ptr_is_inexact_lt_midpoint_
  let mut ptr_is_inexact_gt_midpoint : Bool := ptr_is_inexact_gt_midpoint_
  let mut rnd_mode : RoundingMode := rnd_mode_
  let mut pfpsf : UInt32 := pfpsf_
  let mut res : U128 := res_
  let mut z_sign : UInt64 := z_sign_
  let mut e3 : Int32 := e3_
  let mut scale : Int32 := scale_
  let mut ind : Int32 := ind_
  let mut x0 : Int32 := x0_
  let mut is_midpoint_lt_even : Bool := is_midpoint_lt_even_
  let mut is_midpoint_gt_even : Bool := is_midpoint_gt_even_
  let mut is_inexact_lt_midpoint : Bool := is_inexact_lt_midpoint_
  let mut is_inexact_gt_midpoint : Bool := is_inexact_gt_midpoint_
  let mut is_midpoint_lt_even0 : Bool := is_midpoint_lt_even0_
  let mut is_midpoint_gt_even0 : Bool := is_midpoint_gt_even0_
  let mut is_inexact_lt_midpoint0 : Bool := is_inexact_lt_midpoint0_
  let mut is_inexact_gt_midpoint0 : Bool := is_inexact_gt_midpoint0_
  let mut incr_exp : Bool := incr_exp_
  let mut lsb : Bool := lsb_
  let mut is_tiny : Bool := is_tiny_
  let mut R64 : UInt64 := R64_
  let mut tmp64 : UInt64 := tmp64_
  let mut P128 : U128 := P128_
  let mut R128 : U128 := R128_
  let mut P192 : U192 := P192_
  let mut R192 : U192 := R192_
  let mut R256 : U256 := R256_
  res := { res with w1 := (res.w1 &&& c_MASK_COEFF) }
  if lsb then
    if is_midpoint_gt_even then
      is_midpoint_gt_even := false
      is_midpoint_lt_even := true
      res := { res with w0 := (res.w0 + 1) }
      if (res.w0 == (0 : UInt64)) then
        res := { res with w1 := (res.w1 + 1) }
      if ((res.w1 == (0x1ed09bead87c0 : UInt64)) && (res.w0 == (0x378d8e6400000000 : UInt64))) then
        res := { res with w1 := (0x314dc6448d93 : UInt64) }
        res := { res with w0 := (0x38c15b0a00000000 : UInt64) }
        e3 := (e3 + 1)
    else
      if is_midpoint_lt_even then
        is_midpoint_lt_even := false
        is_midpoint_gt_even := true
        res := { res with w0 := (res.w0 - 1) }
        if (res.w0 == (0xffffffffffffffff : UInt64)) then
          res := { res with w1 := (res.w1 - 1) }
        if ((res.w1 == (0 : UInt64)) && (res.w0 == (0 : UInt64))) then
          z_sign := (if (rnd_mode != RoundingMode.Downward) then (0 : UInt64) else (0x8000000000000000 : UInt64))
          res := { res with w1 := (0 : UInt64) }
          res := { res with w0 := (0 : UInt64) }
          ptr_is_midpoint_lt_even := is_midpoint_lt_even
          ptr_is_midpoint_gt_even := is_midpoint_gt_even
          ptr_is_inexact_lt_midpoint := is_inexact_lt_midpoint
          ptr_is_inexact_gt_midpoint := is_inexact_gt_midpoint
          return (ForInStep.done (some (res, ptr_is_midpoint_lt_even, ptr_is_midpoint_gt_even, ptr_is_inexact_lt_midpoint, ptr_is_inexact_gt_midpoint, pfpsf), (ptr_is_midpoint_lt_even, ptr_is_midpoint_gt_even, ptr_is_inexact_lt_midpoint, ptr_is_inexact_gt_midpoint, pfpsf, res, z_sign, e3, scale, ind, x0, is_midpoint_lt_even, is_midpoint_gt_even, is_inexact_lt_midpoint, is_inexact_gt_midpoint, is_midpoint_lt_even0, is_midpoint_gt_even0, is_inexact_lt_midpoint0, is_inexact_gt_midpoint0, incr_exp, lsb, is_tiny, R64, tmp64, P128, R128, P192, R192, R256)))
      else
        pure ()
  k ptr_is_midpoint_lt_even ptr_is_midpoint_gt_even ptr_is_inexact_lt_midpoint ptr_is_inexact_gt_midpoint res z_sign e3 is_midpoint_lt_even is_midpoint_gt_even

/-- opposite signs: `res −= R128` -/
def diffSubK {α : Type} (res_ : U128) (lsb_ : Bool) (tmp64_ : UInt64) (R128_ : U128) (k : U128 → Bool → UInt64 → Except String α) : Except String α := do
  let mut res : U128 := res_
  let mut lsb : Bool := lsb_
  let mut tmp64 : UInt64 := tmp64_
  let mut R128 : U128 := R128_
  lsb := (((res.w0 &&& (1 : UInt64))) == (1 : UInt64))
  tmp64 := res.w0
  res := { res with w0 := (res.w0 - R128.w0) }
  res := { res with w1 := (res.w1 - R128.w1) }
  if (decide (res.w0 > tmp64)) then
    res := { res with w1 := (res.w1 - 1) }
  k res lsb tmp64

/-- leading digit cancelled: one digit less to remove, and again -/
def diffContK (ptr_is_midpoint_lt_even_ : Bool) (ptr_is_midpoint_gt_even_ : Bool) (ptr_is_inexact_lt_midpoint_ : Bool) (ptr_is_inexact_gt_midpoint_ : Bool) (pfpsf_ : UInt32) (res_ : U128) (z_sign_ : UInt64) (e3_ : Int32) (scale_ : Int32) (ind_ : Int32) (x0_ : Int32) (is_midpoint_lt_even_ : Bool) (is_midpoint_gt_even_ : Bool) (is_inexact_lt_midpoint_ : Bool) (is_inexact_gt_midpoint_ : Bool) (is_midpoint_lt_even0_ : Bool) (is_midpoint_gt_even0_ : Bool) (is_inexact_lt_midpoint0_ : Bool) (is_inexact_gt_midpoint0_ : Bool) (incr_exp_ : Bool) (lsb_ : Bool) (is_tiny_ : Bool) (R64_ : UInt64) (tmp64_ : UInt64) (P128_ : U128) (R128_ : U128) (P192_ : U192) (R192_ : U192) (R256_ : U256) : Except String (ForInStep (Option (U128 × Bool × Bool × Bool × Bool × UInt32) × (Bool × Bool × Bool × Bool × UInt32 × U128 × UInt64 × Int32 × Int32 × Int32 × Int32 × Bool × Bool × Bool × Bool × Bool × Bool × Bool × Bool × Bool × Bool × Bool × UInt64 × UInt64 × U128 × U128 × U192 × U192 × U256))) := do
  let mut ptr_is_midpoint_lt_even : Bool := ptr_is_midpoint_lt_even_
  let mut ptr_is_midpoint_gt_even : Bool := ptr_is_midpoint_gt_even_
  let mut ptr_is_inexact_lt_midpoint : Bool := ptr_is_inexact_lt_midpoint_
  let mut ptr_is_inexact_gt_midpoint : Bool := ptr_is_inexact_gt_midpoint_
  let mut pfpsf : UInt32 := pfpsf_
  let mut res : U128 := res_
  let mut z_sign : UInt64 := z_sign_
  let mut e3 : Int32 := e3_
  let mut scale : Int32 := scale_
  let mut ind : Int32 := ind_
  let mut x0 : Int32 := x0_
  let mut is_midpoint_lt_even : Bool := is_midpoint_lt_even_
  let mut is_midpoint_gt_even : Bool := is_midpoint_gt_even_
  let mut is_inexact_lt_midpoint : Bool := is_inexact_lt_midpoint_
  let mut is_inexact_gt_midpoint : Bool := is_inexact_gt_midpoint_
  let mut is_midpoint_lt_even0 : Bool := is_midpoint_lt_even0_
  let mut is_midpoint_gt_even0 : Bool := is_midpoint_gt_even0_
  let mut is_inexact_lt_midpoint0 : Bool := is_inexact_lt_midpoint0_
  let mut is_inexact_gt_midpoint0 : Bool := is_inexact_gt_midpoint0_
  let mut incr_exp : Bool := incr_exp_
  let mut lsb : Bool := lsb_
  let mut is_tiny : Bool := is_tiny_
  let mut R64 : UInt64 := R64_
  let mut tmp64 : UInt64 := tmp64_
  let mut P128 : U128 := P128_
  let mut R128 : U128 := R128_
  let mut P192 : U192 := P192_
  let mut R192 : U192 := R192_
  let mut R256 : U256 := R256_
  x0 := (x0 - 1)
  e3 := (e3 + scale)
  scale := (scale + 1)
  is_inexact_lt_midpoint := false
  is_inexact_gt_midpoint := false
  is_midpoint_lt_even := false
  is_midpoint_gt_even := false
  incr_exp := false
  return (ForInStep.yield (none, (ptr_is_midpoint_lt_even, ptr_is_midpoint_gt_even, ptr_is_inexact_lt_midpoint, ptr_is_inexact_gt_midpoint, pfpsf, res, z_sign, e3, scale, ind, x0, is_midpoint_lt_even, is_midpoint_gt_even, is_inexact_lt_midpoint, is_inexact_gt_midpoint, is_midpoint_lt_even0, is_midpoint_gt_even0, is_inexact_lt_midpoint0, is_inexact_gt_midpoint0, incr_exp, lsb, is_tiny, R64, tmp64, P128, R128, P192, R192, R256)))

/-- opposite signs: the indicators change sides; repair of the tie-break when `C3·10^scale` is odd -/
def diffFixK (ptr_is_midpoint_lt_even_ : Bool) (ptr_is_midpoint_gt_even_ : Bool) (ptr_is_inexact_lt_midpoint_ : Bool) (ptr_is_inexact_gt_midpoint_ : Bool) (rnd_mode_ : RoundingMode) (pfpsf_ : UInt32) (res_ : U128) (z_sign_ : UInt64) (e3_ : Int32) (scale_ : Int32) (ind_ : Int32) (x0_ : Int32) (is_midpoint_lt_even_ : Bool) (is_midpoint_gt_even_ : Bool) (is_inexact_lt_midpoint_ : Bool) (is_inexact_gt_midpoint_ : Bool) (is_midpoint_lt_even0_ : Bool) (is_midpoint_gt_even0_ : Bool) (is_inexact_lt_midpoint0_ : Bool) (is_inexact_gt_midpoint0_ : Bool) (incr_exp_ : Bool) (lsb_ : Bool) (is_tiny_ : Bool) (R64_ : UInt64) (tmp64_ : UInt64) (P128_ : U128) (R128_ : U128) (P192_ : U192) (R192_ : U192) (R256_ : U256) (k : Bool → Bool → Bool → Bool → U128 → UInt64 → Int32 → Bool → Bool → Bool → Bool → Except String (ForInStep (Option (U128 × Bool × Bool × Bool × Bool × UInt32) × (Bool × Bool × Bool × Bool × UInt32 × U128 × UInt64 × Int32 × Int32 × Int32 × Int32 × Bool × Bool × Bool × Bool × Bool × Bool × Bool × Bool × Bool × Bool × Bool × UInt64 × UInt64 × U128 × U128 × U192 × U192 × U256)))) : Except String (ForInStep (Option (U128 × Bool × Bool × Bool × Bool × UInt32) × (Bool × Bool × Bool × Bool × UInt32 × U128 × UInt64 × Int32 × Int32 × Int32 × Int32 × Bool × Bool × Bool × Bool × Bool × Bool × Bool × Bool × Bool × Bool × Bool × UInt64 × UInt64 × U128 × U128 × U192 × U192 × U256))) := do
  let mut ptr_is_midpoint_lt_even : Bool := ptr_is_midpoint_lt_even_
  let mut ptr_is_midpoint_gt_even : Bool := ptr_is_midpoint_gt_even_
  let mut ptr_is_inexact_lt_midpoint : Bool := ptr_is_inexact_lt_midpoint_
  let mut ptr_is_inexact_gt_midpoint : Bool := ptr_is_inexact_gt_midpoint_
  let mut rnd_mode : RoundingMode := rnd_mode_
  let mut pfpsf : UInt32 := pfpsf_
  let mut res : U128 := res_
  let mut z_sign : UInt64 := z_sign_
  let mut e3 : Int32 := e3_
  let mut scale : Int32 := scale_
  let mut ind : Int32 := ind_
  let mut x0 : Int32 := x0_
  let mut is_midpoint_lt_even : Bool := is_midpoint_lt_even_
  let mut is_midpoint_gt_even : Bool := is_midpoint_gt_even_
  let mut is_inexact_lt_midpoint : Bool := is_inexact_lt_midpoint_
  let mut is_inexact_gt_midpoint : Bool := is_inexact_gt_midpoint_
  let mut is_midpoint_lt_even0 : Bool := is_midpoint_lt_even0_
  let mut is_midpoint_gt_even0 : Bool := is_midpoint_gt_even0_
  let mut is_inexact_lt_midpoint0 : Bool := is_inexact_lt_midpoint0_
  let mut is_inexact_gt_midpoint0 : Bool := is_inexact_gt_midpoint0_
  let mut incr_exp : Bool := incr_exp_
  let mut lsb : Bool := lsb_
  let mut is_tiny : Bool := is_tiny_
  let mut R64 : UInt64 := R64_
  let mut tmp64 : UInt64 := tmp64_
  let mut P128 : U128 := P128_
  let mut R128 : U128 := R128_
  let mut P192 : U192 := P192_
  let mut R192 : U192 := R192_
  let mut R256 : U256 := R256_
  if is_inexact_lt_midpoint then
    is_inexact_lt_midpoint := false
    is_inexact_gt_midpoint := true
  else
    if is_inexact_gt_midpoint then
      is_inexact_gt_midpoint := false
      is_inexact_lt_midpoint := true
    else
      if (!lsb) then
        if is_midpoint_lt_even then
          is_midpoint_lt_even := false
          is_midpoint_gt_even := true
        else
          if is_midpoint_gt_even then
            is_midpoint_gt_even := false
            is_midpoint_lt_even := true
          else
            pure ()
      else
        if lsb then
          if is_midpoint_lt_even then
            res := { res with w0 := (res.w0 + 1) }
            if (res.w0 == (0 : UInt64)) then
              res := { res with w1 := (res.w1 + 1) }
            if ((res.w1 == (0x1ed09bead87c0 : UInt64)) && (res.w0 == (0x378d8e6400000000 : UInt64))) then
              res := { res with w1 := (0x314dc6448d93 : UInt64) }
              res := { res with w0 := (0x38c15b0a00000000 : UInt64) }
              e3 := (e3 + 1)
          else
            if is_midpoint_gt_even then
              res := { res with w0 := (res.w0 - 1) }
              if (res.w0 == (0xffffffffffffffff : UInt64)) then
                res := { res with w1 := (res.w1 - 1) }
              if ((res.w1 == (0 : UInt64)) && (res.w0 == (0 : UInt64))) then
                z_sign := (if (rnd_mode != RoundingMode.Downward) then (0 : UInt64) else (0x8000000000000000 : UInt64))
                res := { res with w1 := (0 : UInt64) }
                res := { res with w0 := (0 : UInt64) }
                ptr_is_midpoint_lt_even := is_midpoint_lt_even
                ptr_is_midpoint_gt_even := is_midpoint_gt_even
                ptr_is_inexact_lt_midpoint := is_inexact_lt_midpoint
                ptr_is_inexact_gt_midpoint := is_inexact_gt_midpoint
                return (ForInStep.done (some (res, ptr_is_midpoint_lt_even, ptr_is_midpoint_gt_even, ptr_is_inexact_lt_midpoint, ptr_is_inexact_gt_midpoint, pfpsf), (ptr_is_midpoint_lt_even, ptr_is_midpoint_gt_even, ptr_is_inexact_lt_midpoint, ptr_is_inexact_gt_midpoint, pfpsf, res, z_sign, e3, scale, ind, x0, is_midpoint_lt_even, is_midpoint_gt_even, is_inexact_lt_midpoint, is_inexact_gt_midpoint, is_midpoint_lt_even0, is_midpoint_gt_even0, is_inexact_lt_midpoint0, is_inexact_gt_midpoint0, incr_exp, lsb, is_tiny, R64, tmp64, P128, R128, P192, R192, R256)))
            else
              pure ()
        else
          pure ()
  k ptr_is_midpoint_lt_even ptr_is_midpoint_gt_even ptr_is_inexact_lt_midpoint ptr_is_inexact_gt_midpoint res z_sign e3 is_midpoint_lt_even is_midpoint_gt_even is_inexact_lt_midpoint is_inexact_gt_midpoint

/-- least exponent: is the exact result below `10^33·10^emin`? -/
def tinyK {α : Type} (res_ : U128) (is_midpoint_lt_even_ : Bool) (is_inexact_gt_midpoint_ : Bool) (is_tiny_ : Bool) (t__45_ : Int32) (k : Bool → Except String α) : Except String α := do
  let mut res : U128 := res_
  let mut is_midpoint_lt_even : Bool := is_midpoint_lt_even_
  let mut is_inexact_gt_midpoint : Bool := is_inexact_gt_midpoint_
  let mut is_tiny : Bool := is_tiny_
  let mut t__45 : Int32 := t__45_
  let mut value : Int32 := t__45
  if ((decide (((res.w1 &&& c_MASK_COEFF)) < (0x314dc6448d93 : UInt64))) || (((((res.w1 &&& c_MASK_COEFF)) == (0x314dc6448d93 : UInt64)) && (decide (res.w0 < (0x38c15b0a00000000 : UInt64)))))) then
    is_tiny := true
  if ((((((res.w1 &&& (0x7fffffffffffffff : UInt64))) == (0x314dc6448d93 : UInt64))) && ((res.w0 == (0x38c15b0a00000000 : UInt64)))) && ((is_inexact_gt_midpoint || is_midpoint_lt_even))) then
    is_tiny := true
  k is_tiny

def uPrepK {α : Type} (e3_ : Int32) (x0_ : Int32) (is_midpoint_lt_even_ : Bool) (is_midpoint_gt_even_ : Bool) (is_inexact_lt_midpoint_ : Bool) (is_inexact_gt_midpoint_ : Bool) (is_midpoint_lt_even0_ : Bool) (is_midpoint_gt_even0_ : Bool) (is_inexact_lt_midpoint0_ : Bool) (is_inexact_gt_midpoint0_ : Bool) (is_tiny_ : Bool) (t__45_ : Int32) (k : Int32 → Bool → Bool → Bool → Bool → Bool → Bool → Bool → Bool → Bool → Except String α) : Except String α := do
  let mut e3 : Int32 := e3_
  let mut x0 : Int32 := x0_
  let mut is_midpoint_lt_even : Bool := is_midpoint_lt_even_
  let mut is_midpoint_gt_even : Bool := is_midpoint_gt_even_
  let mut is_inexact_lt_midpoint : Bool := is_inexact_lt_midpoint_
  let mut is_inexact_gt_midpoint : Bool := is_inexact_gt_midpoint_
  let mut is_midpoint_lt_even0 : Bool := is_midpoint_lt_even0_
  let mut is_midpoint_gt_even0 : Bool := is_midpoint_gt_even0_
  let mut is_inexact_lt_midpoint0 : Bool := is_inexact_lt_midpoint0_
  let mut is_inexact_gt_midpoint0 : Bool := is_inexact_gt_midpoint0_
  let mut is_tiny : Bool := is_tiny_
  let mut t__45 : Int32 := t__45_
  let mut value : Int32 := t__45
  is_tiny := true
  x0 := (c_EXP_MIN_UNBIASED - e3)
  is_inexact_lt_midpoint0 := is_inexact_lt_midpoint
  is_inexact_gt_midpoint0 := is_inexact_gt_midpoint
  is_midpoint_lt_even0 := is_midpoint_lt_even
  is_midpoint_gt_even0 := is_midpoint_gt_even
  is_inexact_lt_midpoint := false
  is_inexact_gt_midpoint := false
  is_midpoint_lt_even := false
  is_midpoint_gt_even := false
  k x0 is_midpoint_lt_even is_midpoint_gt_even is_inexact_lt_midpoint is_inexact_gt_midpoint is_midpoint_lt_even0 is_midpoint_gt_even0 is_inexact_lt_midpoint0 is_inexact_gt_midpoint0 is_tiny

/-- number of decimal digits of `res` -/
def ndigK {α : Type} (res_ : U128) (ind_ : Int32) (k : Int32 → Except String α) : Except String α := do
  let mut res : U128 := res_
  let mut ind : Int32 := ind_
  if (res.w1 == (0 : UInt64)) then
    ind := (Int32.ofInt (toI (← countWhile64 Dec.Gen.BID_TEN2K64 1 19 (fun x => (decide (res.w0 ≥ x))))))
    ind := (ind + 1)
  else
    if (← (if (decide (res.w1 < (← tbl128 Dec.Gen.BID_TEN2K128 (UInt64.ofInt (toI 0))).w1)) then pure true else (do pure ((← (if (res.w1 == (← tbl128 Dec.Gen.BID_TEN2K128 (UInt64.ofInt (toI 0))).w1) then (do pure (decide (res.w0 < (← tbl128 Dec.Gen.BID_TEN2K128 (UInt64.ofInt (toI 0))).w0))) else pure false)))))) then
      ind := (0x14 : Int32)
    else
      ind := (Int32.ofInt (toI (← countWhile128 Dec.Gen.BID_TEN2K128 1 18 (fun d => (!(((decide (res.w1 < d.w1)) || (((res.w1 == d.w1) && (decide (res.w0 < d.w0)))))))))))
      ind := (ind + 1)
      ind := (ind + 0x14)
  k ind

/-- below the least exponent: remove `x0 = emin − e3` more digits -/
def uRoundK {α : Type} (res_ : U128) (ind_ : Int32) (x0_ : Int32) (is_midpoint_lt_even_ : Bool) (is_midpoint_gt_even_ : Bool) (is_inexact_lt_midpoint_ : Bool) (is_inexact_gt_midpoint_ : Bool) (incr_exp_ : Bool) (R64_ : UInt64) (P128_ : U128) (k : U128 → Bool → Bool → Bool → Bool → Bool → UInt64 → U128 → Except String α) : Except String α := do
  let mut res : U128 := res_
  let mut ind : Int32 := ind_
  let mut x0 : Int32 := x0_
  let mut is_midpoint_lt_even : Bool := is_midpoint_lt_even_
  let mut is_midpoint_gt_even : Bool := is_midpoint_gt_even_
  let mut is_inexact_lt_midpoint : Bool := is_inexact_lt_midpoint_
  let mut is_inexact_gt_midpoint : Bool := is_inexact_gt_midpoint_
  let mut incr_exp : Bool := incr_exp_
  let mut R64 : UInt64 := R64_
  let mut P128 : U128 := P128_
  if (x0 == ind) then
    res := { res with w1 := (0 : UInt64) }
    res := { res with w0 := (1 : UInt64) }
    is_inexact_gt_midpoint := true
  else
    if (decide (ind ≤ (0x12 : Int32))) then
      let t__46 ← bid_round64_2_18 ind x0 res.w0 incr_exp is_midpoint_lt_even is_midpoint_gt_even is_inexact_lt_midpoint is_inexact_gt_midpoint
      incr_exp := t__46.2.1
      is_midpoint_lt_even := t__46.2.2.1
      is_midpoint_gt_even := t__46.2.2.2.1
      is_inexact_lt_midpoint := t__46.2.2.2.2.1
      is_inexact_gt_midpoint := t__46.2.2.2.2.2
      R64 := t__46.1
      if incr_exp then
        R64 := (← tbl64 Dec.Gen.BID_TEN2K64 (UInt64.ofInt (toI ((ind - x0)))))
      res := { res with w1 := (0 : UInt64) }
      res := { res with w0 := R64 }
    else
      if (decide (ind ≤ (0x26 : Int32))) then
        P128 := { P128 with w1 := res.w1 }
        P128 := { P128 with w0 := res.w0 }
        let t__47 ← bid_round128_19_38 ind x0 P128 incr_exp is_midpoint_lt_even is_midpoint_gt_even is_inexact_lt_midpoint is_inexact_gt_midpoint
        incr_exp := t__47.2.1
        is_midpoint_lt_even := t__47.2.2.1
        is_midpoint_gt_even := t__47.2.2.2.1
        is_inexact_lt_midpoint := t__47.2.2.2.2.1
        is_inexact_gt_midpoint := t__47.2.2.2.2.2
        res := t__47.1
        if incr_exp then
          if (decide ((ind - x0) ≤ (0x13 : Int32))) then
            res := { res with w0 := (← tbl64 Dec.Gen.BID_TEN2K64 (UInt64.ofInt (toI ((ind - x0))))) }
          else
            res := { res with w0 := (← tbl128 Dec.Gen.BID_TEN2K128 (UInt64.ofInt (toI (((ind - x0) - (0x14 : Int32)))))).w0 }
            res := { res with w1 := (← tbl128 Dec.Gen.BID_TEN2K128 (UInt64.ofInt (toI (((ind - x0) - (0x14 : Int32)))))).w1 }
  k res is_midpoint_lt_even is_midpoint_gt_even is_inexact_lt_midpoint is_inexact_gt_midpoint incr_exp R64 P128

def uTailK {α : Type} (e3_ : Int32) (x0_ : Int32) (is_midpoint_lt_even_ : Bool) (is_midpoint_gt_even_ : Bool) (is_inexact_lt_midpoint_ : Bool) (is_inexact_gt_midpoint_ : Bool) (is_midpoint_lt_even0_ : Bool) (is_midpoint_gt_even0_ : Bool) (is_inexact_lt_midpoint0_ : Bool) (is_inexact_gt_midpoint0_ : Bool) (k : Int32 → Bool → Except String α) : Except String α := do
  let mut e3 : Int32 := e3_
  let mut x0 : Int32 := x0_
  let mut is_midpoint_lt_even : Bool := is_midpoint_lt_even_
  let mut is_midpoint_gt_even : Bool := is_midpoint_gt_even_
  let mut is_inexact_lt_midpoint : Bool := is_inexact_lt_midpoint_
  let mut is_inexact_gt_midpoint : Bool := is_inexact_gt_midpoint_
  let mut is_midpoint_lt_even0 : Bool := is_midpoint_lt_even0_
  let mut is_midpoint_gt_even0 : Bool := is_midpoint_gt_even0_
  let mut is_inexact_lt_midpoint0 : Bool := is_inexact_lt_midpoint0_
  let mut is_inexact_gt_midpoint0 : Bool := is_inexact_gt_midpoint0_
  e3 := (e3 + x0)
  if (((((!is_midpoint_lt_even) && (!is_midpoint_gt_even)) && (!is_inexact_lt_midpoint)) && (!is_inexact_gt_midpoint)) && ((((is_midpoint_lt_even0 || is_midpoint_gt_even0) || is_inexact_lt_midpoint0) || is_inexact_gt_midpoint0))) then
    is_inexact_lt_midpoint := true
  k e3 is_inexact_lt_midpoint

/-- flags, `10^34 → 10^33`, packing, overflow (nearest-even) / `bid_rounding_correction` (other modes) -/
def finalK (ptr_is_midpoint_lt_even_ : Bool) (ptr_is_midpoint_gt_even_ : Bool) (ptr_is_inexact_lt_midpoint_ : Bool) (ptr_is_inexact_gt_midpoint_ : Bool) (rnd_mode_ : RoundingMode) (pfpsf_ : UInt32) (res_ : U128) (z_sign_ : UInt64) (e3_ : Int32) (scale_ : Int32) (ind_ : Int32) (x0_ : Int32) (is_midpoint_lt_even_ : Bool) (is_midpoint_gt_even_ : Bool) (is_inexact_lt_midpoint_ : Bool) (is_inexact_gt_midpoint_ : Bool) (is_midpoint_lt_even0_ : Bool) (is_midpoint_gt_even0_ : Bool) (is_inexact_lt_midpoint0_ : Bool) (is_inexact_gt_midpoint0_ : Bool) (incr_exp_ : Bool) (lsb_ : Bool) (is_tiny_ : Bool) (R64_ : UInt64) (tmp64_ : UInt64) (P128_ : U128) (R128_ : U128) (P192_ : U192) (R192_ : U192) (R256_ : U256) : Except String (ForInStep (Option (U128 × Bool × Bool × Bool × Bool × UInt32) × (Bool × Bool × Bool × Bool × UInt32 × U128 × UInt64 × Int32 × Int32 × Int32 × Int32 × Bool × Bool × Bool × Bool × Bool × Bool × Bool × Bool × Bool × Bool × Bool × UInt64 × UInt64 × U128 × U128 × U192 × U192 × U256))) := do
  let mut ptr_is_midpoint_lt_even : Bool := ptr_is_midpoint_lt_even_
  let mut ptr_is_midpoint_gt_even : Bool := ptr_is_midpoint_gt_even_
  let mut ptr_is_inexact_lt_midpoint : Bool := ptr_is_inexact_lt_midpoint_
  let mut ptr_is_inexact_gt_midpoint : Bool := ptr_is_inexact_gt_midpoint_
  let mut rnd_mode : RoundingMode := rnd_mode_
  let mut pfpsf : UInt32 := pfpsf_
  let mut res : U128 := res_
  let mut z_sign : UInt64 := z_sign_
  let mut e3 : Int32 := e3_
  let mut scale : Int32 := scale_
  let mut ind : Int32 := ind_
  let mut x0 : Int32 := x0_
  let mut is_midpoint_lt_even : Bool := is_midpoint_lt_even_
  let mut is_midpoint_gt_even : Bool := is_midpoint_gt_even_
  let mut is_inexact_lt_midpoint : Bool := is_inexact_lt_midpoint_
  let mut is_inexact_gt_midpoint : Bool := is_inexact_gt_midpoint_
  let mut is_midpoint_lt_even0 : Bool := is_midpoint_lt_even0_
  let mut is_midpoint_gt_even0 : Bool := is_midpoint_gt_even0_
  let mut is_inexact_lt_midpoint0 : Bool := is_inexact_lt_midpoint0_
  let mut is_inexact_gt_midpoint0 : Bool := is_inexact_gt_midpoint0_
  let mut incr_exp : Bool := incr_exp_
  let mut lsb : Bool := lsb_
  let mut is_tiny : Bool := is_tiny_
  let mut R64 : UInt64 := R64_
  let mut tmp64 : UInt64 := tmp64_
  let mut P128 : U128 := P128_
  let mut R128 : U128 := R128_
  let mut P192 : U192 := P192_
  let mut R192 : U192 := R192_
  let mut R256 : U256 := R256_
  if (((is_inexact_lt_midpoint || is_inexact_gt_midpoint) || is_midpoint_lt_even) || is_midpoint_gt_even) then
    pfpsf := (pfpsf ||| c_StatusFlags_BID_INEXACT_EXCEPTION)
    if is_tiny then
      pfpsf := (pfpsf ||| c_StatusFlags_BID_UNDERFLOW_EXCEPTION)
  if ((res.w1 == (0x1ed09bead87c0 : UInt64)) && (res.w0 == (0x378d8e6400000000 : UInt64))) then
    res := { res with w1 := (0x314dc6448d93 : UInt64) }
    res := { res with w0 := (0x38c15b0a00000000 : UInt64) }
    e3 := (e3 + 1)
  res := { res with w1 := (res.w1 ||| (z_sign ||| ((((UInt64.ofInt (toI ((e3 + (0x1820 : Int32)))))) <<< 0x31)))) }
  if ((rnd_mode == RoundingMode.NearestEven) && (decide (e3 > c_EXP_MAX_UNBIASED))) then
    res := { res with w1 := (z_sign ||| (0x7800000000000000 : UInt64)) }
    res := { res with w0 := (0 : UInt64) }
    pfpsf := (pfpsf ||| (c_StatusFlags_BID_INEXACT_EXCEPTION ||| c_StatusFlags_BID_OVERFLOW_EXCEPTION))
  if (rnd_mode != RoundingMode.NearestEven) then
    let t__48 ← bid_rounding_correction rnd_mode is_inexact_lt_midpoint is_inexact_gt_midpoint is_midpoint_lt_even is_midpoint_gt_even e3 res pfpsf
    res := t__48.1
    pfpsf := t__48.2
  ptr_is_midpoint_lt_even := is_midpoint_lt_even
  ptr_is_midpoint_gt_even := is_midpoint_gt_even
  ptr_is_inexact_lt_midpoint := is_inexact_lt_midpoint
  ptr_is_inexact_gt_midpoint := is_inexact_gt_midpoint
  return (ForInStep.done (some (res, ptr_is_midpoint_lt_even, ptr_is_midpoint_gt_even, ptr_is_inexact_lt_midpoint, ptr_is_inexact_gt_midpoint, pfpsf), (ptr_is_midpoint_lt_even, ptr_is_midpoint_gt_even, ptr_is_inexact_lt_midpoint, ptr_is_inexact_gt_midpoint, pfpsf, res, z_sign, e3, scale, ind, x0, is_midpoint_lt_even, is_midpoint_gt_even, is_inexact_lt_midpoint, is_inexact_gt_midpoint, is_midpoint_lt_even0, is_midpoint_gt_even0, is_inexact_lt_midpoint0, is_inexact_gt_midpoint0, incr_exp, lsb, is_tiny, R64, tmp64, P128, R128, P192, R192, R256)))

/-- `delta ≤ 1` and opposite signs: massive cancellation possible, handed to `bid_add_and_round` -/
def tailK (ptr_is_midpoint_lt_even_ : Bool) (ptr_is_midpoint_gt_even_ : Bool) (ptr_is_inexact_lt_midpoint_ : Bool) (ptr_is_inexact_gt_midpoint_ : Bool) (rnd_mode_ : RoundingMode) (pfpsf_ : UInt32) (res_ : U128) (z_sign_ : UInt64) (p_sign_ : UInt64) (tmp_sign_ : UInt64) (C3_ : U128) (C4_ : U256) (q3_ : Int32) (q4_ : Int32) (e3_ : Int32) (e4_ : Int32) (ind_ : Int32) (delta_ : Int32) (p34_ : Int32) (is_midpoint_lt_even_ : Bool) (is_midpoint_gt_even_ : Bool) (is_inexact_lt_midpoint_ : Bool) (is_inexact_gt_midpoint_ : Bool) (P128_ : U128) : Except String (U128 × Bool × Bool × Bool × Bool × UInt32) := do
  let mut ptr_is_midpoint_lt_even : Bool := ptr_is_midpoint_lt_even_
  let mut ptr_is_midpoint_gt_even : Bool := ptr_is_midpoint_gt_even_
  let mut ptr_is_inexact_lt_midpoint : Bool := ptr_is_inexact_lt_midpoint_
  let mut ptr_is_inexact_gt_midpoint : Bool := ptr_is_inexact_gt_midpoint_
  let mut rnd_mode : RoundingMode := rnd_mode_
  let mut pfpsf : UInt32 := pfpsf_
  let mut res : U128 := res_
  let mut z_sign : UInt64 := z_sign_
  let mut p_sign : UInt64 := p_sign_
  let mut tmp_sign : UInt64 := tmp_sign_
  let mut C3 : U128 := C3_
  let mut C4 : U256 := C4_
  let mut q3 : Int32 := q3_
  let mut q4 : Int32 := q4_
  let mut e3 : Int32 := e3_
  let mut e4 : Int32 := e4_
  let mut ind : Int32 := ind_
  let mut delta : Int32 := delta_
  let mut p34 : Int32 := p34_
  let mut is_midpoint_lt_even : Bool := is_midpoint_lt_even_
  let mut is_midpoint_gt_even : Bool := is_midpoint_gt_even_
  let mut is_inexact_lt_midpoint : Bool := is_inexact_lt_midpoint_
  let mut is_inexact_gt_midpoint : Bool := is_inexact_gt_midpoint_
  let mut P128 : U128 := P128_
  if (decide ((delta + q4) < q3)) then
    P128 := { P128 with w1 := C3.w1 }
    P128 := { P128 with w0 := C3.w0 }
    C3 := { C3 with w1 := C4.w1 }
    C3 := { C3 with w0 := C4.w0 }
    C4 := { C4 with w1 := P128.w1 }
    C4 := { C4 with w0 := P128.w0 }
    ind := q3
    q3 := q4
    q4 := ind
    ind := e3
    e3 := e4
    e4 := ind
    tmp_sign := z_sign
    z_sign := p_sign
    p_sign := tmp_sign
  else
    delta := (-delta)
  let t__49 ← bid_add_and_round q3 q4 e4 delta p34 z_sign p_sign C3 C4 rnd_mode is_midpoint_lt_even is_midpoint_gt_even is_inexact_lt_midpoint is_inexact_gt_midpoint pfpsf
  is_midpoint_lt_even := t__49.2.1
  is_midpoint_gt_even := t__49.2.2.1
  is_inexact_lt_midpoint := t__49.2.2.2.1
  is_inexact_gt_midpoint := t__49.2.2.2.2.1
  pfpsf := t__49.2.2.2.2.2
  res := t__49.1
  ptr_is_midpoint_lt_even := is_midpoint_lt_even
  ptr_is_midpoint_gt_even := is_midpoint_gt_even
  ptr_is_inexact_lt_midpoint := is_inexact_lt_midpoint
  ptr_is_inexact_gt_midpoint := is_inexact_gt_midpoint
  return (res, ptr_is_midpoint_lt_even, ptr_is_midpoint_gt_even, ptr_is_inexact_lt_midpoint, ptr_is_inexact_gt_midpoint, pfpsf)

/-- the underflow check and what follows it (literal text) -/
def uflowRestLit (ptr_is_midpoint_lt_even_ : Bool) (ptr_is_midpoint_gt_even_ : Bool) (ptr_is_inexact_lt_midpoint_ : Bool) (ptr_is_inexact_gt_midpoint_ : Bool) (rnd_mode_ : RoundingMode) (pfpsf_ : UInt32) (res_ : U128) (z_sign_ : UInt64) (e3_ : Int32) (scale_ : Int32) (ind_ : Int32) (x0_ : Int32) (is_midpoint_lt_even_ : Bool) (is_midpoint_gt_even_ : Bool) (is_inexact_lt_midpoint_ : Bool) (is_inexact_gt_midpoint_ : Bool) (is_midpoint_lt_even0_ : Bool) (is_midpoint_gt_even0_ : Bool) (is_inexact_lt_midpoint0_ : Bool) (is_inexact_gt_midpoint0_ : Bool) (incr_exp_ : Bool) (lsb_ : Bool) (is_tiny_ : Bool) (R64_ : UInt64) (tmp64_ : UInt64) (P128_ : U128) (R128_ : U128) (P192_ : U192) (R192_ : U192) (R256_ : U256) : Except String (ForInStep (Option (U128 × Bool × Bool × Bool × Bool × UInt32) × (Bool × Bool × Bool × Bool × UInt32 × U128 × UInt64 × Int32 × Int32 × Int32 × Int32 × Bool × Bool × Bool × Bool × Bool × Bool × Bool × Bool × Bool × Bool × Bool × UInt64 × UInt64 × U128 × U128 × U192 × U192 × U256))) := do
  let mut ptr_is_midpoint_lt_even : Bool := ptr_is_midpoint_lt_even_
  let mut ptr_is_midpoint_gt_even : Bool := ptr_is_midpoint_gt_even_
  let mut ptr_is_inexact_lt_midpoint : Bool := ptr_is_inexact_lt_midpoint_
  let mut ptr_is_inexact_gt_midpoint : Bool := ptr_is_inexact_gt_midpoint_
  let mut rnd_mode : RoundingMode := rnd_mode_
  let mut pfpsf : UInt32 := pfpsf_
  let mut res : U128 := res_
  let mut z_sign : UInt64 := z_sign_
  let mut e3 : Int32 := e3_
  let mut scale : Int32 := scale_
  let mut ind : Int32 := ind_
  let mut x0 : Int32 := x0_
  let mut is_midpoint_lt_even : Bool := is_midpoint_lt_even_
  let mut is_midpoint_gt_even : Bool := is_midpoint_gt_even_
  let mut is_inexact_lt_midpoint : Bool := is_inexact_lt_midpoint_
  let mut is_inexact_gt_midpoint : Bool := is_inexact_gt_midpoint_
  let mut is_midpoint_lt_even0 : Bool := is_midpoint_lt_even0_
  let mut is_midpoint_gt_even0 : Bool := is_midpoint_gt_even0_
  let mut is_inexact_lt_midpoint0 : Bool := is_inexact_lt_midpoint0_
  let mut is_inexact_gt_midpoint0 : Bool := is_inexact_gt_midpoint0_
  let mut incr_exp : Bool := incr_exp_
  let mut lsb : Bool := lsb_
  let mut is_tiny : Bool := is_tiny_
  let mut R64 : UInt64 := R64_
  let mut tmp64 : UInt64 := tmp64_
  let mut P128 : U128 := P128_
  let mut R128 : U128 := R128_
  let mut P192 : U192 := P192_
  let mut R192 : U192 := R192_
  let mut R256 : U256 := R256_
  let t__45 : Int32 := e3
  if (let value := t__45; (value == c_EXP_MIN_UNBIASED)) then
    let mut value : Int32 := t__45
    if ((decide (((res.w1 &&& c_MASK_COEFF)) < (0x314dc6448d93 : UInt64))) || (((((res.w1 &&& c_MASK_COEFF)) == (0x314dc6448d93 : UInt64)) && (decide (res.w0 < (0x38c15b0a00000000 : UInt64)))))) then
      is_tiny := true
    if ((((((res.w1 &&& (0x7fffffffffffffff : UInt64))) == (0x314dc6448d93 : UInt64))) && ((res.w0 == (0x38c15b0a00000000 : UInt64)))) && ((is_inexact_gt_midpoint || is_midpoint_lt_even))) then
      is_tiny := true
  else
    if (let value := t__45; (decide (value < c_EXP_MIN_UNBIASED))) then
      let mut value : Int32 := t__45
      is_tiny := true
      x0 := (c_EXP_MIN_UNBIASED - e3)
      is_inexact_lt_midpoint0 := is_inexact_lt_midpoint
      is_inexact_gt_midpoint0 := is_inexact_gt_midpoint
      is_midpoint_lt_even0 := is_midpoint_lt_even
      is_midpoint_gt_even0 := is_midpoint_gt_even
      is_inexact_lt_midpoint := false
      is_inexact_gt_midpoint := false
      is_midpoint_lt_even := false
      is_midpoint_gt_even := false
      if (res.w1 == (0 : UInt64)) then
        ind := (Int32.ofInt (toI (← countWhile64 Dec.Gen.BID_TEN2K64 1 19 (fun x => (decide (res.w0 ≥ x))))))
        ind := (ind + 1)
      else
        if (← (if (decide (res.w1 < (← tbl128 Dec.Gen.BID_TEN2K128 (UInt64.ofInt (toI 0))).w1)) then pure true else (do pure ((← (if (res.w1 == (← tbl128 Dec.Gen.BID_TEN2K128 (UInt64.ofInt (toI 0))).w1) then (do pure (decide (res.w0 < (← tbl128 Dec.Gen.BID_TEN2K128 (UInt64.ofInt (toI 0))).w0))) else pure false)))))) then
          ind := (0x14 : Int32)
        else
          ind := (Int32.ofInt (toI (← countWhile128 Dec.Gen.BID_TEN2K128 1 18 (fun d => (!(((decide (res.w1 < d.w1)) || (((res.w1 == d.w1) && (decide (res.w0 < d.w0)))))))))))
          ind := (ind + 1)
          ind := (ind + 0x14)
      if (x0 == ind) then
        res := { res with w1 := (0 : UInt64) }
        res := { res with w0 := (1 : UInt64) }
        is_inexact_gt_midpoint := true
      else
        if (decide (ind ≤ (0x12 : Int32))) then
          let t__46 ← bid_round64_2_18 ind x0 res.w0 incr_exp is_midpoint_lt_even is_midpoint_gt_even is_inexact_lt_midpoint is_inexact_gt_midpoint
          incr_exp := t__46.2.1
          is_midpoint_lt_even := t__46.2.2.1
          is_midpoint_gt_even := t__46.2.2.2.1
          is_inexact_lt_midpoint := t__46.2.2.2.2.1
          is_inexact_gt_midpoint := t__46.2.2.2.2.2
          R64 := t__46.1
          if incr_exp then
            R64 := (← tbl64 Dec.Gen.BID_TEN2K64 (UInt64.ofInt (toI ((ind - x0)))))
          res := { res with w1 := (0 : UInt64) }
          res := { res with w0 := R64 }
        else
          if (decide (ind ≤ (0x26 : Int32))) then
            P128 := { P128 with w1 := res.w1 }
            P128 := { P128 with w0 := res.w0 }
            let t__47 ← bid_round128_19_38 ind x0 P128 incr_exp is_midpoint_lt_even is_midpoint_gt_even is_inexact_lt_midpoint is_inexact_gt_midpoint
            incr_exp := t__47.2.1
            is_midpoint_lt_even := t__47.2.2.1
            is_midpoint_gt_even := t__47.2.2.2.1
            is_inexact_lt_midpoint := t__47.2.2.2.2.1
            is_inexact_gt_midpoint := t__47.2.2.2.2.2
            res := t__47.1
            if incr_exp then
              if (decide ((ind - x0) ≤ (0x13 : Int32))) then
                res := { res with w0 := (← tbl64 Dec.Gen.BID_TEN2K64 (UInt64.ofInt (toI ((ind - x0))))) }
              else
                res := { res with w0 := (← tbl128 Dec.Gen.BID_TEN2K128 (UInt64.ofInt (toI (((ind - x0) - (0x14 : Int32)))))).w0 }
                res := { res with w1 := (← tbl128 Dec.Gen.BID_TEN2K128 (UInt64.ofInt (toI (((ind - x0) - (0x14 : Int32)))))).w1 }
      if (((is_inexact_gt_midpoint0 || is_midpoint_lt_even0)) && is_midpoint_lt_even) then
        res := { res with w0 := (res.w0 - 1) }
        if (res.w0 == (0xffffffffffffffff : UInt64)) then
          res := { res with w1 := (res.w1 - 1) }
        is_midpoint_lt_even := false
        is_inexact_lt_midpoint := true
      else
        if (((is_inexact_lt_midpoint0 || is_midpoint_gt_even0)) && is_midpoint_gt_even) then
          res := { res with w0 := (res.w0 + 1) }
          if (res.w0 == (0 : UInt64)) then
            res := { res with w1 := (res.w1 + 1) }
          is_midpoint_gt_even := false
          is_inexact_gt_midpoint := true
        else
          if ((((!is_midpoint_lt_even) && (!is_midpoint_gt_even)) && (!is_inexact_lt_midpoint)) && (!is_inexact_gt_midpoint)) then
            if (is_inexact_gt_midpoint0 || is_midpoint_lt_even0) then
              is_inexact_gt_midpoint := true
            if (is_inexact_lt_midpoint0 || is_midpoint_gt_even0) then
              is_inexact_lt_midpoint := true
          else
            if (is_midpoint_gt_even && ((is_inexact_gt_midpoint0 || is_midpoint_lt_even0))) then
              is_inexact_lt_midpoint := true
              is_inexact_gt_midpoint := false
              is_midpoint_lt_even := false
              is_midpoint_gt_even := false
            else
              if (is_midpoint_lt_even && ((is_inexact_lt_midpoint0 || is_midpoint_gt_even0))) then
                is_inexact_lt_midpoint := false
                is_inexact_gt_midpoint := true
                is_midpoint_lt_even := false
                is_midpoint_gt_even := false
              else
                pure ()
      e3 := (e3 + x0)
      if (((((!is_midpoint_lt_even) && (!is_midpoint_gt_even)) && (!is_inexact_lt_midpoint)) && (!is_inexact_gt_midpoint)) && ((((is_midpoint_lt_even0 || is_midpoint_gt_even0) || is_inexact_lt_midpoint0) || is_inexact_gt_midpoint0))) then
        is_inexact_lt_midpoint := true
    else
      pure ()
  if (((is_inexact_lt_midpoint || is_inexact_gt_midpoint) || is_midpoint_lt_even) || is_midpoint_gt_even) then
    pfpsf := (pfpsf ||| c_StatusFlags_BID_INEXACT_EXCEPTION)
    if is_tiny then
      pfpsf := (pfpsf ||| c_StatusFlags_BID_UNDERFLOW_EXCEPTION)
  if ((res.w1 == (0x1ed09bead87c0 : UInt64)) && (res.w0 == (0x378d8e6400000000 : UInt64))) then
    res := { res with w1 := (0x314dc6448d93 : UInt64) }
    res := { res with w0 := (0x38c15b0a00000000 : UInt64) }
    e3 := (e3 + 1)
  res := { res with w1 := (res.w1 ||| (z_sign ||| ((((UInt64.ofInt (toI ((e3 + (0x1820 : Int32)))))) <<< 0x31)))) }
  if ((rnd_mode == RoundingMode.NearestEven) && (decide (e3 > c_EXP_MAX_UNBIASED))) then
    res := { res with w1 := (z_sign ||| (0x7800000000000000 : UInt64)) }
    res := { res with w0 := (0 : UInt64) }
    pfpsf := (pfpsf ||| (c_StatusFlags_BID_INEXACT_EXCEPTION ||| c_StatusFlags_BID_OVERFLOW_EXCEPTION))
  if (rnd_mode != RoundingMode.NearestEven) then
    let t__48 ← bid_rounding_correction rnd_mode is_inexact_lt_midpoint is_inexact_gt_midpoint is_midpoint_lt_even is_midpoint_gt_even e3 res pfpsf
    res := t__48.1
    pfpsf := t__48.2
  ptr_is_midpoint_lt_even := is_midpoint_lt_even
  ptr_is_midpoint_gt_even := is_midpoint_gt_even
  ptr_is_inexact_lt_midpoint := is_inexact_lt_midpoint
  ptr_is_inexact_gt_midpoint := is_inexact_gt_midpoint
  return (ForInStep.done (some (res, ptr_is_midpoint_lt_even, ptr_is_midpoint_gt_even, ptr_is_inexact_lt_midpoint, ptr_is_inexact_gt_midpoint, pfpsf), (ptr_is_midpoint_lt_even, ptr_is_midpoint_gt_even, ptr_is_inexact_lt_midpoint, ptr_is_inexact_gt_midpoint, pfpsf, res, z_sign, e3, scale, ind, x0, is_midpoint_lt_even, is_midpoint_gt_even, is_inexact_lt_midpoint, is_inexact_gt_midpoint, is_midpoint_lt_even0, is_midpoint_gt_even0, is_inexact_lt_midpoint0, is_inexact_gt_midpoint0, incr_exp, lsb, is_tiny, R64, tmp64, P128, R128, P192, R192, R256)))

set_option maxRecDepth 100000 in
set_option maxHeartbeats 4000000 in
theorem uflowRestLit_eq (ptr_is_midpoint_lt_even : Bool) (ptr_is_midpoint_gt_even : Bool) (ptr_is_inexact_lt_midpoint : Bool) (ptr_is_inexact_gt_midpoint : Bool) (rnd_mode : RoundingMode) (pfpsf : UInt32) (res : U128) (z_sign : UInt64) (e3 : Int32) (scale : Int32) (ind : Int32) (x0 : Int32) (is_midpoint_lt_even : Bool) (is_midpoint_gt_even : Bool) (is_inexact_lt_midpoint : Bool) (is_inexact_gt_midpoint : Bool) (is_midpoint_lt_even0 : Bool) (is_midpoint_gt_even0 : Bool) (is_inexact_lt_midpoint0 : Bool) (is_inexact_gt_midpoint0 : Bool) (incr_exp : Bool) (lsb : Bool) (is_tiny : Bool) (R64 : UInt64) (tmp64 : UInt64) (P128 : U128) (R128 : U128) (P192 : U192) (R192 : U192) (R256 : U256) :
    uflowRestLit ptr_is_midpoint_lt_even ptr_is_midpoint_gt_even ptr_is_inexact_lt_midpoint ptr_is_inexact_gt_midpoint rnd_mode pfpsf res z_sign e3 scale ind x0 is_midpoint_lt_even is_midpoint_gt_even is_inexact_lt_midpoint is_inexact_gt_midpoint is_midpoint_lt_even0 is_midpoint_gt_even0 is_inexact_lt_midpoint0 is_inexact_gt_midpoint0 incr_exp lsb is_tiny R64 tmp64 P128 R128 P192 R192 R256 =
      let t__45 : Int32 := e3
      if (let value := t__45; (value == c_EXP_MIN_UNBIASED)) then
        tinyK res is_midpoint_lt_even is_inexact_gt_midpoint is_tiny t__45 (fun is_tiny =>
          finalK ptr_is_midpoint_lt_even ptr_is_midpoint_gt_even ptr_is_inexact_lt_midpoint ptr_is_inexact_gt_midpoint rnd_mode pfpsf res z_sign e3 scale ind x0 is_midpoint_lt_even is_midpoint_gt_even is_inexact_lt_midpoint is_inexact_gt_midpoint is_midpoint_lt_even0 is_midpoint_gt_even0 is_inexact_lt_midpoint0 is_inexact_gt_midpoint0 incr_exp lsb is_tiny R64 tmp64 P128 R128 P192 R192 R256)
      else
        if (let value := t__45; (decide (value < c_EXP_MIN_UNBIASED))) then
          uPrepK e3 x0 is_midpoint_lt_even is_midpoint_gt_even is_inexact_lt_midpoint is_inexact_gt_midpoint is_midpoint_lt_even0 is_midpoint_gt_even0 is_inexact_lt_midpoint0 is_inexact_gt_midpoint0 is_tiny t__45 (fun x0 is_midpoint_lt_even is_midpoint_gt_even is_inexact_lt_midpoint is_inexact_gt_midpoint is_midpoint_lt_even0 is_midpoint_gt_even0 is_inexact_lt_midpoint0 is_inexact_gt_midpoint0 is_tiny =>
          ndigK res ind (fun ind =>
          uRoundK res ind x0 is_midpoint_lt_even is_midpoint_gt_even is_inexact_lt_midpoint is_inexact_gt_midpoint incr_exp R64 P128 (fun res is_midpoint_lt_even is_midpoint_gt_even is_inexact_lt_midpoint is_inexact_gt_midpoint incr_exp R64 P128 =>
          dblFixK res is_midpoint_lt_even is_midpoint_gt_even is_inexact_lt_midpoint is_inexact_gt_midpoint is_midpoint_lt_even0 is_midpoint_gt_even0 is_inexact_lt_midpoint0 is_inexact_gt_midpoint0 (fun res is_midpoint_lt_even is_midpoint_gt_even is_inexact_lt_midpoint is_inexact_gt_midpoint =>
          uTailK e3 x0 is_midpoint_lt_even is_midpoint_gt_even is_inexact_lt_midpoint is_inexact_gt_midpoint is_midpoint_lt_even0 is_midpoint_gt_even0 is_inexact_lt_midpoint0 is_inexact_gt_midpoint0 (fun e3 is_inexact_lt_midpoint =>
          finalK ptr_is_midpoint_lt_even ptr_is_midpoint_gt_even ptr_is_inexact_lt_midpoint ptr_is_inexact_gt_midpoint rnd_mode pfpsf res z_sign e3 scale ind x0 is_midpoint_lt_even is_midpoint_gt_even is_inexact_lt_midpoint is_inexact_gt_midpoint is_midpoint_lt_even0 is_midpoint_gt_even0 is_inexact_lt_midpoint0 is_inexact_gt_midpoint0 incr_exp lsb is_tiny R64 tmp64 P128 R128 P192 R192 R256)))))
        else
          finalK ptr_is_midpoint_lt_even ptr_is_midpoint_gt_even ptr_is_inexact_lt_midpoint ptr_is_inexact_gt_midpoint rnd_mode pfpsf res z_sign e3 scale ind x0 is_midpoint_lt_even is_midpoint_gt_even is_inexact_lt_midpoint is_inexact_gt_midpoint is_midpoint_lt_even0 is_midpoint_gt_even0 is_inexact_lt_midpoint0 is_inexact_gt_midpoint0 incr_exp lsb is_tiny R64 tmp64 P128 R128 P192 R192 R256 := rfl

/-- the sum and what follows it (literal text) -/
def sumRestLit (ptr_is_midpoint_lt_even_ : Bool) (ptr_is_midpoint_gt_even_ : Bool) (ptr_is_inexact_lt_midpoint_ : Bool) (ptr_is_inexact_gt_midpoint_ : Bool) (rnd_mode_ : RoundingMode) (pfpsf_ : UInt32) (res_ : U128) (z_sign_ : UInt64) (p_sign_ : UInt64) (e3_ : Int32) (scale_ : Int32) (ind_ : Int32) (x0_ : Int32) (is_midpoint_lt_even_ : Bool) (is_midpoint_gt_even_ : Bool) (is_inexact_lt_midpoint_ : Bool) (is_inexact_gt_midpoint_ : Bool) (is_midpoint_lt_even0_ : Bool) (is_midpoint_gt_even0_ : Bool) (is_inexact_lt_midpoint0_ : Bool) (is_inexact_gt_midpoint0_ : Bool) (incr_exp_ : Bool) (lsb_ : Bool) (is_tiny_ : Bool) (R64_ : UInt64) (tmp64_ : UInt64) (P128_ : U128) (R128_ : U128) (P192_ : U192) (R192_ : U192) (R256_ : U256) : Except String (ForInStep (Option (U128 × Bool × Bool × Bool × Bool × UInt32) × (Bool × Bool × Bool × Bool × UInt32 × U128 × UInt64 × Int32 × Int32 × Int32 × Int32 × Bool × Bool × Bool × Bool × Bool × Bool × Bool × Bool × Bool × Bool × Bool × UInt64 × UInt64 × U128 × U128 × U192 × U192 × U256))) := do
  let mut ptr_is_midpoint_lt_even : Bool := ptr_is_midpoint_lt_even_
  let mut ptr_is_midpoint_gt_even : Bool := ptr_is_midpoint_gt_even_
  let mut ptr_is_inexact_lt_midpoint : Bool := ptr_is_inexact_lt_midpoint_
  let mut ptr_is_inexact_gt_midpoint : Bool := ptr_is_inexact_gt_midpoint_
  let mut rnd_mode : RoundingMode := rnd_mode_
  let mut pfpsf : UInt32 := pfpsf_
  let mut res : U128 := res_
  let mut z_sign : UInt64 := z_sign_
  let mut p_sign : UInt64 := p_sign_
  let mut e3 : Int32 := e3_
  let mut scale : Int32 := scale_
  let mut ind : Int32 := ind_
  let mut x0 : Int32 := x0_
  let mut is_midpoint_lt_even : Bool := is_midpoint_lt_even_
  let mut is_midpoint_gt_even : Bool := is_midpoint_gt_even_
  let mut is_inexact_lt_midpoint : Bool := is_inexact_lt_midpoint_
  let mut is_inexact_gt_midpoint : Bool := is_inexact_gt_midpoint_
  let mut is_midpoint_lt_even0 : Bool := is_midpoint_lt_even0_
  let mut is_midpoint_gt_even0 : Bool := is_midpoint_gt_even0_
  let mut is_inexact_lt_midpoint0 : Bool := is_inexact_lt_midpoint0_
  let mut is_inexact_gt_midpoint0 : Bool := is_inexact_gt_midpoint0_
  let mut incr_exp : Bool := incr_exp_
  let mut lsb : Bool := lsb_
  let mut is_tiny : Bool := is_tiny_
  let mut R64 : UInt64 := R64_
  let mut tmp64 : UInt64 := tmp64_
  let mut P128 : U128 := P128_
  let mut R128 : U128 := R128_
  let mut P192 : U192 := P192_
  let mut R192 : U192 := R192_
  let mut R256 : U256 := R256_
  if (z_sign == p_sign) then
    lsb := (((res.w0 &&& (1 : UInt64))) == (1 : UInt64))
    res := { res with w0 := (res.w0 + R128.w0) }
    res := { res with w1 := (res.w1 + R128.w1) }
    if (decide (res.w0 < R128.w0)) then
      res := { res with w1 := (res.w1 + 1) }
    if ((decide (res.w1 > (0x1ed09bead87c0 : UInt64))) || (((res.w1 == (0x1ed09bead87c0 : UInt64)) && (decide (res.w0 > (0x378d8e63ffffffff : UInt64)))))) then
      is_inexact_lt_midpoint0 := is_inexact_lt_midpoint
      is_inexact_gt_midpoint0 := is_inexact_gt_midpoint
      is_midpoint_lt_even0 := is_midpoint_lt_even
      is_midpoint_gt_even0 := is_midpoint_gt_even
      is_inexact_lt_midpoint := false
      is_inexact_gt_midpoint := false
      is_midpoint_lt_even := false
      is_midpoint_gt_even := false
      P128 := { P128 with w1 := res.w1 }
      P128 := { P128 with w0 := res.w0 }
      let t__44 ← bid_round128_19_38 (0x23 : Int32) (1 : Int32) P128 incr_exp is_midpoint_lt_even is_midpoint_gt_even is_inexact_lt_midpoint is_inexact_gt_midpoint
      incr_exp := t__44.2.1
      is_midpoint_lt_even := t__44.2.2.1
      is_midpoint_gt_even := t__44.2.2.2.1
      is_inexact_lt_midpoint := t__44.2.2.2.2.1
      is_inexact_gt_midpoint := t__44.2.2.2.2.2
      res := t__44.1
      if (((is_inexact_gt_midpoint0 || is_midpoint_lt_even0)) && is_midpoint_lt_even) then
        res := { res with w0 := (res.w0 - 1) }
        if (res.w0 == (0xffffffffffffffff : UInt64)) then
          res := { res with w1 := (res.w1 - 1) }
        is_midpoint_lt_even := false
        is_inexact_lt_midpoint := true
      else
        if (((is_inexact_lt_midpoint0 || is_midpoint_gt_even0)) && is_midpoint_gt_even) then
          res := { res with w0 := (res.w0 + 1) }
          if (res.w0 == (0 : UInt64)) then
            res := { res with w1 := (res.w1 + 1) }
          is_midpoint_gt_even := false
          is_inexact_gt_midpoint := true
        else
          if ((((!is_midpoint_lt_even) && (!is_midpoint_gt_even)) && (!is_inexact_lt_midpoint)) && (!is_inexact_gt_midpoint)) then
            if (is_inexact_gt_midpoint0 || is_midpoint_lt_even0) then
              is_inexact_gt_midpoint := true
            if (is_inexact_lt_midpoint0 || is_midpoint_gt_even0) then
              is_inexact_lt_midpoint := true
          else
            if (is_midpoint_gt_even && ((is_inexact_gt_midpoint0 || is_midpoint_lt_even0))) then
              is_inexact_lt_midpoint := true
              is_inexact_gt_midpoint := false
              is_midpoint_lt_even := false
              is_midpoint_gt_even := false
            else
              if (is_midpoint_lt_even && ((is_inexact_lt_midpoint0 || is_midpoint_gt_even0))) then
                is_inexact_lt_midpoint := false
                is_inexact_gt_midpoint := true
                is_midpoint_lt_even := false
                is_midpoint_gt_even := false
              else
                pure ()
      e3 := (e3 + 1)
      if (((((!is_midpoint_lt_even) && (!is_midpoint_gt_even)) && (!is_inexact_lt_midpoint)) && (!is_inexact_gt_midpoint)) && ((((is_midpoint_lt_even0 || is_midpoint_gt_even0) || is_inexact_lt_midpoint0) || is_inexact_gt_midpoint0))) then
        is_inexact_lt_midpoint := true
    else
      res := { res with w1 := (res.w1 &&& c_MASK_COEFF) }
      if lsb then
        if is_midpoint_gt_even then
          is_midpoint_gt_even := false
          is_midpoint_lt_even := true
          res := { res with w0 := (res.w0 + 1) }
          if (res.w0 == (0 : UInt64)) then
            res := { res with w1 := (res.w1 + 1) }
          if ((res.w1 == (0x1ed09bead87c0 : UInt64)) && (res.w0 == (0x378d8e6400000000 : UInt64))) then
            res := { res with w1 := (0x314dc6448d93 : UInt64) }
            res := { res with w0 := (0x38c15b0a00000000 : UInt64) }
            e3 := (e3 + 1)
        else
          if is_midpoint_lt_even then
            is_midpoint_lt_even := false
            is_midpoint_gt_even := true
            res := { res with w0 := (res.w0 - 1) }
            if (res.w0 == (0xffffffffffffffff : UInt64)) then
              res := { res with w1 := (res.w1 - 1) }
            if ((res.w1 == (0 : UInt64)) && (res.w0 == (0 : UInt64))) then
              z_sign := (if (rnd_mode != RoundingMode.Downward) then (0 : UInt64) else (0x8000000000000000 : UInt64))
              res := { res with w1 := (0 : UInt64) }
              res := { res with w0 := (0 : UInt64) }
              ptr_is_midpoint_lt_even := is_midpoint_lt_even
              ptr_is_midpoint_gt_even := is_midpoint_gt_even
              ptr_is_inexact_lt_midpoint := is_inexact_lt_midpoint
              ptr_is_inexact_gt_midpoint := is_inexact_gt_midpoint
              return (ForInStep.done (some (res, ptr_is_midpoint_lt_even, ptr_is_midpoint_gt_even, ptr_is_inexact_lt_midpoint, ptr_is_inexact_gt_midpoint, pfpsf), (ptr_is_midpoint_lt_even, ptr_is_midpoint_gt_even, ptr_is_inexact_lt_midpoint, ptr_is_inexact_gt_midpoint, pfpsf, res, z_sign, e3, scale, ind, x0, is_midpoint_lt_even, is_midpoint_gt_even, is_inexact_lt_midpoint, is_inexact_gt_midpoint, is_midpoint_lt_even0, is_midpoint_gt_even0, is_inexact_lt_midpoint0, is_inexact_gt_midpoint0, incr_exp, lsb, is_tiny, R64, tmp64, P128, R128, P192, R192, R256)))
          else
            pure ()
  else
    lsb := (((res.w0 &&& (1 : UInt64))) == (1 : UInt64))
    tmp64 := res.w0
    res := { res with w0 := (res.w0 - R128.w0) }
    res := { res with w1 := (res.w1 - R128.w1) }
    if (decide (res.w0 > tmp64)) then
      res := { res with w1 := (res.w1 - 1) }
    if (((decide (e3 > c_EXP_MIN_UNBIASED)) && (((((decide (res.w1 < (0x314dc6448d93 : UInt64))) || (((res.w1 == (0x314dc6448d93 : UInt64)) && (decide (res.w0 < (0x38c15b0a00000000 : UInt64))))))) || (((((is_inexact_lt_midpoint || is_midpoint_gt_even)) && (res.w1 == (0x314dc6448d93 : UInt64))) && (res.w0 == (0x38c15b0a00000000 : UInt64))))))) && (decide (x0 ≥ (1 : Int32)))) then
      x0 := (x0 - 1)
      e3 := (e3 + scale)
      scale := (scale + 1)
      is_inexact_lt_midpoint := false
      is_inexact_gt_midpoint := false
      is_midpoint_lt_even := false
      is_midpoint_gt_even := false
      incr_exp := false
      return (ForInStep.yield (none, (ptr_is_midpoint_lt_even, ptr_is_midpoint_gt_even, ptr_is_inexact_lt_midpoint, ptr_is_inexact_gt_midpoint, pfpsf, res, z_sign, e3, scale, ind, x0, is_midpoint_lt_even, is_midpoint_gt_even, is_inexact_lt_midpoint, is_inexact_gt_midpoint, is_midpoint_lt_even0, is_midpoint_gt_even0, is_inexact_lt_midpoint0, is_inexact_gt_midpoint0, incr_exp, lsb, is_tiny, R64, tmp64, P128, R128, P192, R192, R256)))
    if is_inexact_lt_midpoint then
      is_inexact_lt_midpoint := false
      is_inexact_gt_midpoint := true
    else
      if is_inexact_gt_midpoint then
        is_inexact_gt_midpoint := false
        is_inexact_lt_midpoint := true
      else
        if (!lsb) then
          if is_midpoint_lt_even then
            is_midpoint_lt_even := false
            is_midpoint_gt_even := true
          else
            if is_midpoint_gt_even then
              is_midpoint_gt_even := false
              is_midpoint_lt_even := true
            else
              pure ()
        else
          if lsb then
            if is_midpoint_lt_even then
              res := { res with w0 := (res.w0 + 1) }
              if (res.w0 == (0 : UInt64)) then
                res := { res with w1 := (res.w1 + 1) }
              if ((res.w1 == (0x1ed09bead87c0 : UInt64)) && (res.w0 == (0x378d8e6400000000 : UInt64))) then
                res := { res with w1 := (0x314dc6448d93 : UInt64) }
                res := { res with w0 := (0x38c15b0a00000000 : UInt64) }
                e3 := (e3 + 1)
            else
              if is_midpoint_gt_even then
                res := { res with w0 := (res.w0 - 1) }
                if (res.w0 == (0xffffffffffffffff : UInt64)) then
                  res := { res with w1 := (res.w1 - 1) }
                if ((res.w1 == (0 : UInt64)) && (res.w0 == (0 : UInt64))) then
                  z_sign := (if (rnd_mode != RoundingMode.Downward) then (0 : UInt64) else (0x8000000000000000 : UInt64))
                  res := { res with w1 := (0 : UInt64) }
                  res := { res with w0 := (0 : UInt64) }
                  ptr_is_midpoint_lt_even := is_midpoint_lt_even
                  ptr_is_midpoint_gt_even := is_midpoint_gt_even
                  ptr_is_inexact_lt_midpoint := is_inexact_lt_midpoint
                  ptr_is_inexact_gt_midpoint := is_inexact_gt_midpoint
                  return (ForInStep.done (some (res, ptr_is_midpoint_lt_even, ptr_is_midpoint_gt_even, ptr_is_inexact_lt_midpoint, ptr_is_inexact_gt_midpoint, pfpsf), (ptr_is_midpoint_lt_even, ptr_is_midpoint_gt_even, ptr_is_inexact_lt_midpoint, ptr_is_inexact_gt_midpoint, pfpsf, res, z_sign, e3, scale, ind, x0, is_midpoint_lt_even, is_midpoint_gt_even, is_inexact_lt_midpoint, is_inexact_gt_midpoint, is_midpoint_lt_even0, is_midpoint_gt_even0, is_inexact_lt_midpoint0, is_inexact_gt_midpoint0, incr_exp, lsb, is_tiny, R64, tmp64, P128, R128, P192, R192, R256)))
              else
                pure ()
          else
            pure ()
  let t__45 : Int32 := e3
  if (let value := t__45; (value == c_EXP_MIN_UNBIASED)) then
    let mut value : Int32 := t__45
    if ((decide (((res.w1 &&& c_MASK_COEFF)) < (0x314dc6448d93 : UInt64))) || (((((res.w1 &&& c_MASK_COEFF)) == (0x314dc6448d93 : UInt64)) && (decide (res.w0 < (0x38c15b0a00000000 : UInt64)))))) then
      is_tiny := true
    if ((((((res.w1 &&& (0x7fffffffffffffff : UInt64))) == (0x314dc6448d93 : UInt64))) && ((res.w0 == (0x38c15b0a00000000 : UInt64)))) && ((is_inexact_gt_midpoint || is_midpoint_lt_even))) then
      is_tiny := true
  else
    if (let value := t__45; (decide (value < c_EXP_MIN_UNBIASED))) then
      let mut value : Int32 := t__45
      is_tiny := true
      x0 := (c_EXP_MIN_UNBIASED - e3)
      is_inexact_lt_midpoint0 := is_inexact_lt_midpoint
      is_inexact_gt_midpoint0 := is_inexact_gt_midpoint
      is_midpoint_lt_even0 := is_midpoint_lt_even
      is_midpoint_gt_even0 := is_midpoint_gt_even
      is_inexact_lt_midpoint := false
      is_inexact_gt_midpoint := false
      is_midpoint_lt_even := false
      is_midpoint_gt_even := false
      if (res.w1 == (0 : UInt64)) then
        ind := (Int32.ofInt (toI (← countWhile64 Dec.Gen.BID_TEN2K64 1 19 (fun x => (decide (res.w0 ≥ x))))))
        ind := (ind + 1)
      else
        if (← (if (decide (res.w1 < (← tbl128 Dec.Gen.BID_TEN2K128 (UInt64.ofInt (toI 0))).w1)) then pure true else (do pure ((← (if (res.w1 == (← tbl128 Dec.Gen.BID_TEN2K128 (UInt64.ofInt (toI 0))).w1) then (do pure (decide (res.w0 < (← tbl128 Dec.Gen.BID_TEN2K128 (UInt64.ofInt (toI 0))).w0))) else pure false)))))) then
          ind := (0x14 : Int32)
        else
          ind := (Int32.ofInt (toI (← countWhile128 Dec.Gen.BID_TEN2K128 1 18 (fun d => (!(((decide (res.w1 < d.w1)) || (((res.w1 == d.w1) && (decide (res.w0 < d.w0)))))))))))
          ind := (ind + 1)
          ind := (ind + 0x14)
      if (x0 == ind) then
        res := { res with w1 := (0 : UInt64) }
        res := { res with w0 := (1 : UInt64) }
        is_inexact_gt_midpoint := true
      else
        if (decide (ind ≤ (0x12 : Int32))) then
          let t__46 ← bid_round64_2_18 ind x0 res.w0 incr_exp is_midpoint_lt_even is_midpoint_gt_even is_inexact_lt_midpoint is_inexact_gt_midpoint
          incr_exp := t__46.2.1
          is_midpoint_lt_even := t__46.2.2.1
          is_midpoint_gt_even := t__46.2.2.2.1
          is_inexact_lt_midpoint := t__46.2.2.2.2.1
          is_inexact_gt_midpoint := t__46.2.2.2.2.2
          R64 := t__46.1
          if incr_exp then
            R64 := (← tbl64 Dec.Gen.BID_TEN2K64 (UInt64.ofInt (toI ((ind - x0)))))
          res := { res with w1 := (0 : UInt64) }
          res := { res with w0 := R64 }
        else
          if (decide (ind ≤ (0x26 : Int32))) then
            P128 := { P128 with w1 := res.w1 }
            P128 := { P128 with w0 := res.w0 }
            let t__47 ← bid_round128_19_38 ind x0 P128 incr_exp is_midpoint_lt_even is_midpoint_gt_even is_inexact_lt_midpoint is_inexact_gt_midpoint
            incr_exp := t__47.2.1
            is_midpoint_lt_even := t__47.2.2.1
            is_midpoint_gt_even := t__47.2.2.2.1
            is_inexact_lt_midpoint := t__47.2.2.2.2.1
            is_inexact_gt_midpoint := t__47.2.2.2.2.2
            res := t__47.1
            if incr_exp then
              if (decide ((ind - x0) ≤ (0x13 : Int32))) then
                res := { res with w0 := (← tbl64 Dec.Gen.BID_TEN2K64 (UInt64.ofInt (toI ((ind - x0))))) }
              else
                res := { res with w0 := (← tbl128 Dec.Gen.BID_TEN2K128 (UInt64.ofInt (toI (((ind - x0) - (0x14 : Int32)))))).w0 }
                res := { res with w1 := (← tbl128 Dec.Gen.BID_TEN2K128 (UInt64.ofInt (toI (((ind - x0) - (0x14 : Int32)))))).w1 }
      if (((is_inexact_gt_midpoint0 || is_midpoint_lt_even0)) && is_midpoint_lt_even) then
        res := { res with w0 := (res.w0 - 1) }
        if (res.w0 == (0xffffffffffffffff : UInt64)) then
          res := { res with w1 := (res.w1 - 1) }
        is_midpoint_lt_even := false
        is_inexact_lt_midpoint := true
      else
        if (((is_inexact_lt_midpoint0 || is_midpoint_gt_even0)) && is_midpoint_gt_even) then
          res := { res with w0 := (res.w0 + 1) }
          if (res.w0 == (0 : UInt64)) then
            res := { res with w1 := (res.w1 + 1) }
          is_midpoint_gt_even := false
          is_inexact_gt_midpoint := true
        else
          if ((((!is_midpoint_lt_even) && (!is_midpoint_gt_even)) && (!is_inexact_lt_midpoint)) && (!is_inexact_gt_midpoint)) then
            if (is_inexact_gt_midpoint0 || is_midpoint_lt_even0) then
              is_inexact_gt_midpoint := true
            if (is_inexact_lt_midpoint0 || is_midpoint_gt_even0) then
              is_inexact_lt_midpoint := true
          else
            if (is_midpoint_gt_even && ((is_inexact_gt_midpoint0 || is_midpoint_lt_even0))) then
              is_inexact_lt_midpoint := true
              is_inexact_gt_midpoint := false
              is_midpoint_lt_even := false
              is_midpoint_gt_even := false
            else
              if (is_midpoint_lt_even && ((is_inexact_lt_midpoint0 || is_midpoint_gt_even0))) then
                is_inexact_lt_midpoint := false
                is_inexact_gt_midpoint := true
                is_midpoint_lt_even := false
                is_midpoint_gt_even := false
              else
                pure ()
      e3 := (e3 + x0)
      if (((((!is_midpoint_lt_even) && (!is_midpoint_gt_even)) && (!is_inexact_lt_midpoint)) && (!is_inexact_gt_midpoint)) && ((((is_midpoint_lt_even0 || is_midpoint_gt_even0) || is_inexact_lt_midpoint0) || is_inexact_gt_midpoint0))) then
        is_inexact_lt_midpoint := true
    else
      pure ()
  if (((is_inexact_lt_midpoint || is_inexact_gt_midpoint) || is_midpoint_lt_even) || is_midpoint_gt_even) then
    pfpsf := (pfpsf ||| c_StatusFlags_BID_INEXACT_EXCEPTION)
    if is_tiny then
      pfpsf := (pfpsf ||| c_StatusFlags_BID_UNDERFLOW_EXCEPTION)
  if ((res.w1 == (0x1ed09bead87c0 : UInt64)) && (res.w0 == (0x378d8e6400000000 : UInt64))) then
    res := { res with w1 := (0x314dc6448d93 : UInt64) }
    res := { res with w0 := (0x38c15b0a00000000 : UInt64) }
    e3 := (e3 + 1)
  res := { res with w1 := (res.w1 ||| (z_sign ||| ((((UInt64.ofInt (toI ((e3 + (0x1820 : Int32)))))) <<< 0x31)))) }
  if ((rnd_mode == RoundingMode.NearestEven) && (decide (e3 > c_EXP_MAX_UNBIASED))) then
    res := { res with w1 := (z_sign ||| (0x7800000000000000 : UInt64)) }
    res := { res with w0 := (0 : UInt64) }
    pfpsf := (pfpsf ||| (c_StatusFlags_BID_INEXACT_EXCEPTION ||| c_StatusFlags_BID_OVERFLOW_EXCEPTION))
  if (rnd_mode != RoundingMode.NearestEven) then
    let t__48 ← bid_rounding_correction rnd_mode is_inexact_lt_midpoint is_inexact_gt_midpoint is_midpoint_lt_even is_midpoint_gt_even e3 res pfpsf
    res := t__48.1
    pfpsf := t__48.2
  ptr_is_midpoint_lt_even := is_midpoint_lt_even
  ptr_is_midpoint_gt_even := is_midpoint_gt_even
  ptr_is_inexact_lt_midpoint := is_inexact_lt_midpoint
  ptr_is_inexact_gt_midpoint := is_inexact_gt_midpoint
  return (ForInStep.done (some (res, ptr_is_midpoint_lt_even, ptr_is_midpoint_gt_even, ptr_is_inexact_lt_midpoint, ptr_is_inexact_gt_midpoint, pfpsf), (ptr_is_midpoint_lt_even, ptr_is_midpoint_gt_even, ptr_is_inexact_lt_midpoint, ptr_is_inexact_gt_midpoint, pfpsf, res, z_sign, e3, scale, ind, x0, is_midpoint_lt_even, is_midpoint_gt_even, is_inexact_lt_midpoint, is_inexact_gt_midpoint, is_midpoint_lt_even0, is_midpoint_gt_even0, is_inexact_lt_midpoint0, is_inexact_gt_midpoint0, incr_exp, lsb, is_tiny, R64, tmp64, P128, R128, P192, R192, R256)))

set_option maxRecDepth 100000 in
set_option maxHeartbeats 4000000 in
theorem sumRestLit_eq (ptr_is_midpoint_lt_even : Bool) (ptr_is_midpoint_gt_even : Bool) (ptr_is_inexact_lt_midpoint : Bool) (ptr_is_inexact_gt_midpoint : Bool) (rnd_mode : RoundingMode) (pfpsf : UInt32) (res : U128) (z_sign : UInt64) (p_sign : UInt64) (e3 : Int32) (scale : Int32) (ind : Int32) (x0 : Int32) (is_midpoint_lt_even : Bool) (is_midpoint_gt_even : Bool) (is_inexact_lt_midpoint : Bool) (is_inexact_gt_midpoint : Bool) (is_midpoint_lt_even0 : Bool) (is_midpoint_gt_even0 : Bool) (is_inexact_lt_midpoint0 : Bool) (is_inexact_gt_midpoint0 : Bool) (incr_exp : Bool) (lsb : Bool) (is_tiny : Bool) (R64 : UInt64) (tmp64 : UInt64) (P128 : U128) (R128 : U128) (P192 : U192) (R192 : U192) (R256 : U256) :
    sumRestLit ptr_is_midpoint_lt_even ptr_is_midpoint_gt_even ptr_is_inexact_lt_midpoint ptr_is_inexact_gt_midpoint rnd_mode pfpsf res z_sign p_sign e3 scale ind x0 is_midpoint_lt_even is_midpoint_gt_even is_inexact_lt_midpoint is_inexact_gt_midpoint is_midpoint_lt_even0 is_midpoint_gt_even0 is_inexact_lt_midpoint0 is_inexact_gt_midpoint0 incr_exp lsb is_tiny R64 tmp64 P128 R128 P192 R192 R256 =
      if (z_sign == p_sign) then
        sameAddK res lsb R128 (fun res lsb =>
        if ((decide (res.w1 > (0x1ed09bead87c0 : UInt64))) || (((res.w1 == (0x1ed09bead87c0 : UInt64)) && (decide (res.w0 > (0x378d8e63ffffffff : UInt64)))))) then
          same35K res is_midpoint_lt_even is_midpoint_gt_even is_inexact_lt_midpoint is_inexact_gt_midpoint is_midpoint_lt_even0 is_midpoint_gt_even0 is_inexact_lt_midpoint0 is_inexact_gt_midpoint0 incr_exp P128 (fun res is_midpoint_lt_even is_midpoint_gt_even is_inexact_lt_midpoint is_inexact_gt_midpoint is_midpoint_lt_even0 is_midpoint_gt_even0 is_inexact_lt_midpoint0 is_inexact_gt_midpoint0 incr_exp P128 =>
          dblFixK res is_midpoint_lt_even is_midpoint_gt_even is_inexact_lt_midpoint is_inexact_gt_midpoint is_midpoint_lt_even0 is_midpoint_gt_even0 is_inexact_lt_midpoint0 is_inexact_gt_midpoint0 (fun res is_midpoint_lt_even is_midpoint_gt_even is_inexact_lt_midpoint is_inexact_gt_midpoint =>
          sameTailK e3 is_midpoint_lt_even is_midpoint_gt_even is_inexact_lt_midpoint is_inexact_gt_midpoint is_midpoint_lt_even0 is_midpoint_gt_even0 is_inexact_lt_midpoint0 is_inexact_gt_midpoint0 (fun e3 is_inexact_lt_midpoint =>
          uflowRestLit ptr_is_midpoint_lt_even ptr_is_midpoint_gt_even ptr_is_inexact_lt_midpoint ptr_is_inexact_gt_midpoint rnd_mode pfpsf res z_sign e3 scale ind x0 is_midpoint_lt_even is_midpoint_gt_even is_inexact_lt_midpoint is_inexact_gt_midpoint is_midpoint_lt_even0 is_midpoint_gt_even0 is_inexact_lt_midpoint0 is_inexact_gt_midpoint0 incr_exp lsb is_tiny R64 tmp64 P128 R128 P192 R192 R256)))
        else
          sameLsbK ptr_is_midpoint_lt_even ptr_is_midpoint_gt_even ptr_is_inexact_lt_midpoint ptr_is_inexact_gt_midpoint rnd_mode pfpsf res z_sign e3 scale ind x0 is_midpoint_lt_even is_midpoint_gt_even is_inexact_lt_midpoint is_inexact_gt_midpoint is_midpoint_lt_even0 is_midpoint_gt_even0 is_inexact_lt_midpoint0 is_inexact_gt_midpoint0 incr_exp lsb is_tiny R64 tmp64 P128 R128 P192 R192 R256 (fun ptr_is_midpoint_lt_even ptr_is_midpoint_gt_even ptr_is_inexact_lt_midpoint ptr_is_inexact_gt_midpoint res z_sign e3 is_midpoint_lt_even is_midpoint_gt_even =>
          uflowRestLit ptr_is_midpoint_lt_even ptr_is_midpoint_gt_even ptr_is_inexact_lt_midpoint ptr_is_inexact_gt_midpoint rnd_mode pfpsf res z_sign e3 scale ind x0 is_midpoint_lt_even is_midpoint_gt_even is_inexact_lt_midpoint is_inexact_gt_midpoint is_midpoint_lt_even0 is_midpoint_gt_even0 is_inexact_lt_midpoint0 is_inexact_gt_midpoint0 incr_exp lsb is_tiny R64 tmp64 P128 R128 P192 R192 R256))
      else
        diffSubK res lsb tmp64 R128 (fun res lsb tmp64 =>
        if (((decide (e3 > c_EXP_MIN_UNBIASED)) && (((((decide (res.w1 < (0x314dc6448d93 : UInt64))) || (((res.w1 == (0x314dc6448d93 : UInt64)) && (decide (res.w0 < (0x38c15b0a00000000 : UInt64))))))) || (((((is_inexact_lt_midpoint || is_midpoint_gt_even)) && (res.w1 == (0x314dc6448d93 : UInt64))) && (res.w0 == (0x38c15b0a00000000 : UInt64))))))) && (decide (x0 ≥ (1 : Int32)))) then
          diffContK ptr_is_midpoint_lt_even ptr_is_midpoint_gt_even ptr_is_inexact_lt_midpoint ptr_is_inexact_gt_midpoint pfpsf res z_sign e3 scale ind x0 is_midpoint_lt_even is_midpoint_gt_even is_inexact_lt_midpoint is_inexact_gt_midpoint is_midpoint_lt_even0 is_midpoint_gt_even0 is_inexact_lt_midpoint0 is_inexact_gt_midpoint0 incr_exp lsb is_tiny R64 tmp64 P128 R128 P192 R192 R256
        else
          diffFixK ptr_is_midpoint_lt_even ptr_is_midpoint_gt_even ptr_is_inexact_lt_midpoint ptr_is_inexact_gt_midpoint rnd_mode pfpsf res z_sign e3 scale ind x0 is_midpoint_lt_even is_midpoint_gt_even is_inexact_lt_midpoint is_inexact_gt_midpoint is_midpoint_lt_even0 is_midpoint_gt_even0 is_inexact_lt_midpoint0 is_inexact_gt_midpoint0 incr_exp lsb is_tiny R64 tmp64 P128 R128 P192 R192 R256 (fun ptr_is_midpoint_lt_even ptr_is_midpoint_gt_even ptr_is_inexact_lt_midpoint ptr_is_inexact_gt_midpoint res z_sign e3 is_midpoint_lt_even is_midpoint_gt_even is_inexact_lt_midpoint is_inexact_gt_midpoint =>
          uflowRestLit ptr_is_midpoint_lt_even ptr_is_midpoint_gt_even ptr_is_inexact_lt_midpoint ptr_is_inexact_gt_midpoint rnd_mode pfpsf res z_sign e3 scale ind x0 is_midpoint_lt_even is_midpoint_gt_even is_inexact_lt_midpoint is_inexact_gt_midpoint is_midpoint_lt_even0 is_midpoint_gt_even0 is_inexact_lt_midpoint0 is_inexact_gt_midpoint0 incr_exp lsb is_tiny R64 tmp64 P128 R128 P192 R192 R256)) := rfl

/-- one turn of the loop (literal text) -/
def bodyLit (ptr_is_midpoint_lt_even_ : Bool) (ptr_is_midpoint_gt_even_ : Bool) (ptr_is_inexact_lt_midpoint_ : Bool) (ptr_is_inexact_gt_midpoint_ : Bool) (rnd_mode_ : RoundingMode) (pfpsf_ : UInt32) (res_ : U128) (z_sign_ : UInt64) (p_sign_ : UInt64) (C3_ : U128) (C4_ : U256) (q3_ : Int32) (q4_ : Int32) (e3_ : Int32) (scale_ : Int32) (ind_ : Int32) (x0_ : Int32) (is_midpoint_lt_even_ : Bool) (is_midpoint_gt_even_ : Bool) (is_inexact_lt_midpoint_ : Bool) (is_inexact_gt_midpoint_ : Bool) (is_midpoint_lt_even0_ : Bool) (is_midpoint_gt_even0_ : Bool) (is_inexact_lt_midpoint0_ : Bool) (is_inexact_gt_midpoint0_ : Bool) (incr_exp_ : Bool) (lsb_ : Bool) (is_tiny_ : Bool) (R64_ : UInt64) (tmp64_ : UInt64) (P128_ : U128) (R128_ : U128) (P192_ : U192) (R192_ : U192) (R256_ : U256) : Except String (ForInStep (Option (U128 × Bool × Bool × Bool × Bool × UInt32) × (Bool × Bool × Bool × Bool × UInt32 × U128 × UInt64 × Int32 × Int32 × Int32 × Int32 × Bool × Bool × Bool × Bool × Bool × Bool × Bool × Bool × Bool × Bool × Bool × UInt64 × UInt64 × U128 × U128 × U192 × U192 × U256))) := do
  let mut ptr_is_midpoint_lt_even : Bool := ptr_is_midpoint_lt_even_
  let mut ptr_is_midpoint_gt_even : Bool := ptr_is_midpoint_gt_even_
  let mut ptr_is_inexact_lt_midpoint : Bool := ptr_is_inexact_lt_midpoint_
  let mut ptr_is_inexact_gt_midpoint : Bool := ptr_is_inexact_gt_midpoint_
  let mut rnd_mode : RoundingMode := rnd_mode_
  let mut pfpsf : UInt32 := pfpsf_
  let mut res : U128 := res_
  let mut z_sign : UInt64 := z_sign_
  let mut p_sign : UInt64 := p_sign_
  let mut C3 : U128 := C3_
  let mut C4 : U256 := C4_
  let mut q3 : Int32 := q3_
  let mut q4 : Int32 := q4_
  let mut e3 : Int32 := e3_
  let mut scale : Int32 := scale_
  let mut ind : Int32 := ind_
  let mut x0 : Int32 := x0_
  let mut is_midpoint_lt_even : Bool := is_midpoint_lt_even_
  let mut is_midpoint_gt_even : Bool := is_midpoint_gt_even_
  let mut is_inexact_lt_midpoint : Bool := is_inexact_lt_midpoint_
  let mut is_inexact_gt_midpoint : Bool := is_inexact_gt_midpoint_
  let mut is_midpoint_lt_even0 : Bool := is_midpoint_lt_even0_
  let mut is_midpoint_gt_even0 : Bool := is_midpoint_gt_even0_
  let mut is_inexact_lt_midpoint0 : Bool := is_inexact_lt_midpoint0_
  let mut is_inexact_gt_midpoint0 : Bool := is_inexact_gt_midpoint0_
  let mut incr_exp : Bool := incr_exp_
  let mut lsb : Bool := lsb_
  let mut is_tiny : Bool := is_tiny_
  let mut R64 : UInt64 := R64_
  let mut tmp64 : UInt64 := tmp64_
  let mut P128 : U128 := P128_
  let mut R128 : U128 := R128_
  let mut P192 : U192 := P192_
  let mut R192 : U192 := R192_
  let mut R256 : U256 := R256_
  if (scale == (0 : Int32)) then
    res := { res with w1 := C3.w1 }
    res := { res with w0 := C3.w0 }
  else
    if (decide (q3 ≤ (0x13 : Int32))) then
      res := (← (if (decide (scale ≤ (0x13 : Int32))) then (do pure (← mul_64x64_to_128MACH C3.w0 (← tbl64 Dec.Gen.BID_TEN2K64 (UInt64.ofInt (toI scale))))) else (do pure (← mul_128x64_to_128 C3.w0 (← tbl128 Dec.Gen.BID_TEN2K128 (UInt64.ofInt (toI ((scale - (0x14 : Int32))))))))))
    else
      res := (← mul_128x64_to_128 (← tbl64 Dec.Gen.BID_TEN2K64 (UInt64.ofInt (toI scale))) C3)
  e3 := (e3 - scale)
  if (x0 == (0 : Int32)) then
    R128 := { R128 with w1 := C4.w1 }
    R128 := { R128 with w0 := C4.w0 }
  else
    if (decide (q4 ≤ (0x12 : Int32))) then
      let t__40 ← bid_round64_2_18 q4 x0 C4.w0 incr_exp is_midpoint_lt_even is_midpoint_gt_even is_inexact_lt_midpoint is_inexact_gt_midpoint
      incr_exp := t__40.2.1
      is_midpoint_lt_even := t__40.2.2.1
      is_midpoint_gt_even := t__40.2.2.2.1
      is_inexact_lt_midpoint := t__40.2.2.2.2.1
      is_inexact_gt_midpoint := t__40.2.2.2.2.2
      R64 := t__40.1
      if incr_exp then
        R64 := (← tbl64 Dec.Gen.BID_TEN2K64 (UInt64.ofInt (toI ((q4 - x0)))))
      R128 := { R128 with w1 := (0 : UInt64) }
      R128 := { R128 with w0 := R64 }
    else
      if (decide (q4 ≤ (0x26 : Int32))) then
        P128 := { P128 with w1 := C4.w1 }
        P128 := { P128 with w0 := C4.w0 }
        let t__41 ← bid_round128_19_38 q4 x0 P128 incr_exp is_midpoint_lt_even is_midpoint_gt_even is_inexact_lt_midpoint is_inexact_gt_midpoint
        incr_exp := t__41.2.1
        is_midpoint_lt_even := t__41.2.2.1
        is_midpoint_gt_even := t__41.2.2.2.1
        is_inexact_lt_midpoint := t__41.2.2.2.2.1
        is_inexact_gt_midpoint := t__41.2.2.2.2.2
        R128 := t__41.1
        if incr_exp then
          if (decide ((q4 - x0) ≤ (0x13 : Int32))) then
            R128 := { R128 with w0 := (← tbl64 Dec.Gen.BID_TEN2K64 (UInt64.ofInt (toI ((q4 - x0))))) }
          else
            R128 := { R128 with w0 := (← tbl128 Dec.Gen.BID_TEN2K128 (UInt64.ofInt (toI (((q4 - x0) - (0x14 : Int32)))))).w0 }
            R128 := { R128 with w1 := (← tbl128 Dec.Gen.BID_TEN2K128 (UInt64.ofInt (toI (((q4 - x0) - (0x14 : Int32)))))).w1 }
      else
        if (decide (q4 ≤ (0x39 : Int32))) then
          P192 := { P192 with w2 := C4.w2 }
          P192 := { P192 with w1 := C4.w1 }
          P192 := { P192 with w0 := C4.w0 }
          let t__42 ← bid_round192_39_57 q4 x0 P192 incr_exp is_midpoint_lt_even is_midpoint_gt_even is_inexact_lt_midpoint is_inexact_gt_midpoint
          incr_exp := t__42.2.1
          is_midpoint_lt_even := t__42.2.2.1
          is_midpoint_gt_even := t__42.2.2.2.1
          is_inexact_lt_midpoint := t__42.2.2.2.2.1
          is_inexact_gt_midpoint := t__42.2.2.2.2.2
          R192 := t__42.1
          if incr_exp then
            if (decide ((q4 - x0) ≤ (0x13 : Int32))) then
              R192 := { R192 with w0 := (← tbl64 Dec.Gen.BID_TEN2K64 (UInt64.ofInt (toI ((q4 - x0))))) }
            else
              R192 := { R192 with w0 := (← tbl128 Dec.Gen.BID_TEN2K128 (UInt64.ofInt (toI (((q4 - x0) - (0x14 : Int32)))))).w0 }
              R192 := { R192 with w1 := (← tbl128 Dec.Gen.BID_TEN2K128 (UInt64.ofInt (toI (((q4 - x0) - (0x14 : Int32)))))).w1 }
          R128 := { R128 with w1 := R192.w1 }
          R128 := { R128 with w0 := R192.w0 }
        else
          let t__43 ← bid_round256_58_76 q4 x0 C4 incr_exp is_midpoint_lt_even is_midpoint_gt_even is_inexact_lt_midpoint is_inexact_gt_midpoint
          incr_exp := t__43.2.1
          is_midpoint_lt_even := t__43.2.2.1
          is_midpoint_gt_even := t__43.2.2.2.1
          is_inexact_lt_midpoint := t__43.2.2.2.2.1
          is_inexact_gt_midpoint := t__43.2.2.2.2.2
          R256 := t__43.1
          if incr_exp then
            if (decide ((q4 - x0) ≤ (0x13 : Int32))) then
              R256 := { R256 with w0 := (← tbl64 Dec.Gen.BID_TEN2K64 (UInt64.ofInt (toI ((q4 - x0))))) }
            else
              R256 := { R256 with w0 := (← tbl128 Dec.Gen.BID_TEN2K128 (UInt64.ofInt (toI (((q4 - x0) - (0x14 : Int32)))))).w0 }
              R256 := { R256 with w1 := (← tbl128 Dec.Gen.BID_TEN2K128 (UInt64.ofInt (toI (((q4 - x0) - (0x14 : Int32)))))).w1 }
          R128 := { R128 with w1 := R256.w1 }
          R128 := { R128 with w0 := R256.w0 }
  if (z_sign == p_sign) then
    lsb := (((res.w0 &&& (1 : UInt64))) == (1 : UInt64))
    res := { res with w0 := (res.w0 + R128.w0) }
    res := { res with w1 := (res.w1 + R128.w1) }
    if (decide (res.w0 < R128.w0)) then
      res := { res with w1 := (res.w1 + 1) }
    if ((decide (res.w1 > (0x1ed09bead87c0 : UInt64))) || (((res.w1 == (0x1ed09bead87c0 : UInt64)) && (decide (res.w0 > (0x378d8e63ffffffff : UInt64)))))) then
      is_inexact_lt_midpoint0 := is_inexact_lt_midpoint
      is_inexact_gt_midpoint0 := is_inexact_gt_midpoint
      is_midpoint_lt_even0 := is_midpoint_lt_even
      is_midpoint_gt_even0 := is_midpoint_gt_even
      is_inexact_lt_midpoint := false
      is_inexact_gt_midpoint := false
      is_midpoint_lt_even := false
      is_midpoint_gt_even := false
      P128 := { P128 with w1 := res.w1 }
      P128 := { P128 with w0 := res.w0 }
      let t__44 ← bid_round128_19_38 (0x23 : Int32) (1 : Int32) P128 incr_exp is_midpoint_lt_even is_midpoint_gt_even is_inexact_lt_midpoint is_inexact_gt_midpoint
      incr_exp := t__44.2.1
      is_midpoint_lt_even := t__44.2.2.1
      is_midpoint_gt_even := t__44.2.2.2.1
      is_inexact_lt_midpoint := t__44.2.2.2.2.1
      is_inexact_gt_midpoint := t__44.2.2.2.2.2
      res := t__44.1
      if (((is_inexact_gt_midpoint0 || is_midpoint_lt_even0)) && is_midpoint_lt_even) then
        res := { res with w0 := (res.w0 - 1) }
        if (res.w0 == (0xffffffffffffffff : UInt64)) then
          res := { res with w1 := (res.w1 - 1) }
        is_midpoint_lt_even := false
        is_inexact_lt_midpoint := true
      else
        if (((is_inexact_lt_midpoint0 || is_midpoint_gt_even0)) && is_midpoint_gt_even) then
          res := { res with w0 := (res.w0 + 1) }
          if (res.w0 == (0 : UInt64)) then
            res := { res with w1 := (res.w1 + 1) }
          is_midpoint_gt_even := false
          is_inexact_gt_midpoint := true
        else
          if ((((!is_midpoint_lt_even) && (!is_midpoint_gt_even)) && (!is_inexact_lt_midpoint)) && (!is_inexact_gt_midpoint)) then
            if (is_inexact_gt_midpoint0 || is_midpoint_lt_even0) then
              is_inexact_gt_midpoint := true
            if (is_inexact_lt_midpoint0 || is_midpoint_gt_even0) then
              is_inexact_lt_midpoint := true
          else
            if (is_midpoint_gt_even && ((is_inexact_gt_midpoint0 || is_midpoint_lt_even0))) then
              is_inexact_lt_midpoint := true
              is_inexact_gt_midpoint := false
              is_midpoint_lt_even := false
              is_midpoint_gt_even := false
            else
              if (is_midpoint_lt_even && ((is_inexact_lt_midpoint0 || is_midpoint_gt_even0))) then
                is_inexact_lt_midpoint := false
                is_inexact_gt_midpoint := true
                is_midpoint_lt_even := false
                is_midpoint_gt_even := false
              else
                pure ()
      e3 := (e3 + 1)
      if (((((!is_midpoint_lt_even) && (!is_midpoint_gt_even)) && (!is_inexact_lt_midpoint)) && (!is_inexact_gt_midpoint)) && ((((is_midpoint_lt_even0 || is_midpoint_gt_even0) || is_inexact_lt_midpoint0) || is_inexact_gt_midpoint0))) then
        is_inexact_lt_midpoint := true
    else
      res := { res with w1 := (res.w1 &&& c_MASK_COEFF) }
      if lsb then
        if is_midpoint_gt_even then
          is_midpoint_gt_even := false
          is_midpoint_lt_even := true
          res := { res with w0 := (res.w0 + 1) }
          if (res.w0 == (0 : UInt64)) then
            res := { res with w1 := (res.w1 + 1) }
          if ((res.w1 == (0x1ed09bead87c0 : UInt64)) && (res.w0 == (0x378d8e6400000000 : UInt64))) then
            res := { res with w1 := (0x314dc6448d93 : UInt64) }
            res := { res with w0 := (0x38c15b0a00000000 : UInt64) }
            e3 := (e3 + 1)
        else
          if is_midpoint_lt_even then
            is_midpoint_lt_even := false
            is_midpoint_gt_even := true
            res := { res with w0 := (res.w0 - 1) }
            if (res.w0 == (0xffffffffffffffff : UInt64)) then
              res := { res with w1 := (res.w1 - 1) }
            if ((res.w1 == (0 : UInt64)) && (res.w0 == (0 : UInt64))) then
              z_sign := (if (rnd_mode != RoundingMode.Downward) then (0 : UInt64) else (0x8000000000000000 : UInt64))
              res := { res with w1 := (0 : UInt64) }
              res := { res with w0 := (0 : UInt64) }
              ptr_is_midpoint_lt_even := is_midpoint_lt_even
              ptr_is_midpoint_gt_even := is_midpoint_gt_even
              ptr_is_inexact_lt_midpoint := is_inexact_lt_midpoint
              ptr_is_inexact_gt_midpoint := is_inexact_gt_midpoint
              return (ForInStep.done (some (res, ptr_is_midpoint_lt_even, ptr_is_midpoint_gt_even, ptr_is_inexact_lt_midpoint, ptr_is_inexact_gt_midpoint, pfpsf), (ptr_is_midpoint_lt_even, ptr_is_midpoint_gt_even, ptr_is_inexact_lt_midpoint, ptr_is_inexact_gt_midpoint, pfpsf, res, z_sign, e3, scale, ind, x0, is_midpoint_lt_even, is_midpoint_gt_even, is_inexact_lt_midpoint, is_inexact_gt_midpoint, is_midpoint_lt_even0, is_midpoint_gt_even0, is_inexact_lt_midpoint0, is_inexact_gt_midpoint0, incr_exp, lsb, is_tiny, R64, tmp64, P128, R128, P192, R192, R256)))
          else
            pure ()
  else
    lsb := (((res.w0 &&& (1 : UInt64))) == (1 : UInt64))
    tmp64 := res.w0
    res := { res with w0 := (res.w0 - R128.w0) }
    res := { res with w1 := (res.w1 - R128.w1) }
    if (decide (res.w0 > tmp64)) then
      res := { res with w1 := (res.w1 - 1) }
    if (((decide (e3 > c_EXP_MIN_UNBIASED)) && (((((decide (res.w1 < (0x314dc6448d93 : UInt64))) || (((res.w1 == (0x314dc6448d93 : UInt64)) && (decide (res.w0 < (0x38c15b0a00000000 : UInt64))))))) || (((((is_inexact_lt_midpoint || is_midpoint_gt_even)) && (res.w1 == (0x314dc6448d93 : UInt64))) && (res.w0 == (0x38c15b0a00000000 : UInt64))))))) && (decide (x0 ≥ (1 : Int32)))) then
      x0 := (x0 - 1)
      e3 := (e3 + scale)
      scale := (scale + 1)
      is_inexact_lt_midpoint := false
      is_inexact_gt_midpoint := false
      is_midpoint_lt_even := false
      is_midpoint_gt_even := false
      incr_exp := false
      return (ForInStep.yield (none, (ptr_is_midpoint_lt_even, ptr_is_midpoint_gt_even, ptr_is_inexact_lt_midpoint, ptr_is_inexact_gt_midpoint, pfpsf, res, z_sign, e3, scale, ind, x0, is_midpoint_lt_even, is_midpoint_gt_even, is_inexact_lt_midpoint, is_inexact_gt_midpoint, is_midpoint_lt_even0, is_midpoint_gt_even0, is_inexact_lt_midpoint0, is_inexact_gt_midpoint0, incr_exp, lsb, is_tiny, R64, tmp64, P128, R128, P192, R192, R256)))
    if is_inexact_lt_midpoint then
      is_inexact_lt_midpoint := false
      is_inexact_gt_midpoint := true
    else
      if is_inexact_gt_midpoint then
        is_inexact_gt_midpoint := false
        is_inexact_lt_midpoint := true
      else
        if (!lsb) then
          if is_midpoint_lt_even then
            is_midpoint_lt_even := false
            is_midpoint_gt_even := true
          else
            if is_midpoint_gt_even then
              is_midpoint_gt_even := false
              is_midpoint_lt_even := true
            else
              pure ()
        else
          if lsb then
            if is_midpoint_lt_even then
              res := { res with w0 := (res.w0 + 1) }
              if (res.w0 == (0 : UInt64)) then
                res := { res with w1 := (res.w1 + 1) }
              if ((res.w1 == (0x1ed09bead87c0 : UInt64)) && (res.w0 == (0x378d8e6400000000 : UInt64))) then
                res := { res with w1 := (0x314dc6448d93 : UInt64) }
                res := { res with w0 := (0x38c15b0a00000000 : UInt64) }
                e3 := (e3 + 1)
            else
              if is_midpoint_gt_even then
                res := { res with w0 := (res.w0 - 1) }
                if (res.w0 == (0xffffffffffffffff : UInt64)) then
                  res := { res with w1 := (res.w1 - 1) }
                if ((res.w1 == (0 : UInt64)) && (res.w0 == (0 : UInt64))) then
                  z_sign := (if (rnd_mode != RoundingMode.Downward) then (0 : UInt64) else (0x8000000000000000 : UInt64))
                  res := { res with w1 := (0 : UInt64) }
                  res := { res with w0 := (0 : UInt64) }
                  ptr_is_midpoint_lt_even := is_midpoint_lt_even
                  ptr_is_midpoint_gt_even := is_midpoint_gt_even
                  ptr_is_inexact_lt_midpoint := is_inexact_lt_midpoint
                  ptr_is_inexact_gt_midpoint := is_inexact_gt_midpoint
                  return (ForInStep.done (some (res, ptr_is_midpoint_lt_even, ptr_is_midpoint_gt_even, ptr_is_inexact_lt_midpoint, ptr_is_inexact_gt_midpoint, pfpsf), (ptr_is_midpoint_lt_even, ptr_is_midpoint_gt_even, ptr_is_inexact_lt_midpoint, ptr_is_inexact_gt_midpoint, pfpsf, res, z_sign, e3, scale, ind, x0, is_midpoint_lt_even, is_midpoint_gt_even, is_inexact_lt_midpoint, is_inexact_gt_midpoint, is_midpoint_lt_even0, is_midpoint_gt_even0, is_inexact_lt_midpoint0, is_inexact_gt_midpoint0, incr_exp, lsb, is_tiny, R64, tmp64, P128, R128, P192, R192, R256)))
              else
                pure ()
          else
            pure ()
  let t__45 : Int32 := e3
  if (let value := t__45; (value == c_EXP_MIN_UNBIASED)) then
    let mut value : Int32 := t__45
    if ((decide (((res.w1 &&& c_MASK_COEFF)) < (0x314dc6448d93 : UInt64))) || (((((res.w1 &&& c_MASK_COEFF)) == (0x314dc6448d93 : UInt64)) && (decide (res.w0 < (0x38c15b0a00000000 : UInt64)))))) then
      is_tiny := true
    if ((((((res.w1 &&& (0x7fffffffffffffff : UInt64))) == (0x314dc6448d93 : UInt64))) && ((res.w0 == (0x38c15b0a00000000 : UInt64)))) && ((is_inexact_gt_midpoint || is_midpoint_lt_even))) then
      is_tiny := true
  else
    if (let value := t__45; (decide (value < c_EXP_MIN_UNBIASED))) then
      let mut value : Int32 := t__45
      is_tiny := true
      x0 := (c_EXP_MIN_UNBIASED - e3)
      is_inexact_lt_midpoint0 := is_inexact_lt_midpoint
      is_inexact_gt_midpoint0 := is_inexact_gt_midpoint
      is_midpoint_lt_even0 := is_midpoint_lt_even
      is_midpoint_gt_even0 := is_midpoint_gt_even
      is_inexact_lt_midpoint := false
      is_inexact_gt_midpoint := false
      is_midpoint_lt_even := false
      is_midpoint_gt_even := false
      if (res.w1 == (0 : UInt64)) then
        ind := (Int32.ofInt (toI (← countWhile64 Dec.Gen.BID_TEN2K64 1 19 (fun x => (decide (res.w0 ≥ x))))))
        ind := (ind + 1)
      else
        if (← (if (decide (res.w1 < (← tbl128 Dec.Gen.BID_TEN2K128 (UInt64.ofInt (toI 0))).w1)) then pure true else (do pure ((← (if (res.w1 == (← tbl128 Dec.Gen.BID_TEN2K128 (UInt64.ofInt (toI 0))).w1) then (do pure (decide (res.w0 < (← tbl128 Dec.Gen.BID_TEN2K128 (UInt64.ofInt (toI 0))).w0))) else pure false)))))) then
          ind := (0x14 : Int32)
        else
          ind := (Int32.ofInt (toI (← countWhile128 Dec.Gen.BID_TEN2K128 1 18 (fun d => (!(((decide (res.w1 < d.w1)) || (((res.w1 == d.w1) && (decide (res.w0 < d.w0)))))))))))
          ind := (ind + 1)
          ind := (ind + 0x14)
      if (x0 == ind) then
        res := { res with w1 := (0 : UInt64) }
        res := { res with w0 := (1 : UInt64) }
        is_inexact_gt_midpoint := true
      else
        if (decide (ind ≤ (0x12 : Int32))) then
          let t__46 ← bid_round64_2_18 ind x0 res.w0 incr_exp is_midpoint_lt_even is_midpoint_gt_even is_inexact_lt_midpoint is_inexact_gt_midpoint
          incr_exp := t__46.2.1
          is_midpoint_lt_even := t__46.2.2.1
          is_midpoint_gt_even := t__46.2.2.2.1
          is_inexact_lt_midpoint := t__46.2.2.2.2.1
          is_inexact_gt_midpoint := t__46.2.2.2.2.2
          R64 := t__46.1
          if incr_exp then
            R64 := (← tbl64 Dec.Gen.BID_TEN2K64 (UInt64.ofInt (toI ((ind - x0)))))
          res := { res with w1 := (0 : UInt64) }
          res := { res with w0 := R64 }
        else
          if (decide (ind ≤ (0x26 : Int32))) then
            P128 := { P128 with w1 := res.w1 }
            P128 := { P128 with w0 := res.w0 }
            let t__47 ← bid_round128_19_38 ind x0 P128 incr_exp is_midpoint_lt_even is_midpoint_gt_even is_inexact_lt_midpoint is_inexact_gt_midpoint
            incr_exp := t__47.2.1
            is_midpoint_lt_even := t__47.2.2.1
            is_midpoint_gt_even := t__47.2.2.2.1
            is_inexact_lt_midpoint := t__47.2.2.2.2.1
            is_inexact_gt_midpoint := t__47.2.2.2.2.2
            res := t__47.1
            if incr_exp then
              if (decide ((ind - x0) ≤ (0x13 : Int32))) then
                res := { res with w0 := (← tbl64 Dec.Gen.BID_TEN2K64 (UInt64.ofInt (toI ((ind - x0))))) }
              else
                res := { res with w0 := (← tbl128 Dec.Gen.BID_TEN2K128 (UInt64.ofInt (toI (((ind - x0) - (0x14 : Int32)))))).w0 }
                res := { res with w1 := (← tbl128 Dec.Gen.BID_TEN2K128 (UInt64.ofInt (toI (((ind - x0) - (0x14 : Int32)))))).w1 }
      if (((is_inexact_gt_midpoint0 || is_midpoint_lt_even0)) && is_midpoint_lt_even) then
        res := { res with w0 := (res.w0 - 1) }
        if (res.w0 == (0xffffffffffffffff : UInt64)) then
          res := { res with w1 := (res.w1 - 1) }
        is_midpoint_lt_even := false
        is_inexact_lt_midpoint := true
      else
        if (((is_inexact_lt_midpoint0 || is_midpoint_gt_even0)) && is_midpoint_gt_even) then
          res := { res with w0 := (res.w0 + 1) }
          if (res.w0 == (0 : UInt64)) then
            res := { res with w1 := (res.w1 + 1) }
          is_midpoint_gt_even := false
          is_inexact_gt_midpoint := true
        else
          if ((((!is_midpoint_lt_even) && (!is_midpoint_gt_even)) && (!is_inexact_lt_midpoint)) && (!is_inexact_gt_midpoint)) then
            if (is_inexact_gt_midpoint0 || is_midpoint_lt_even0) then
              is_inexact_gt_midpoint := true
            if (is_inexact_lt_midpoint0 || is_midpoint_gt_even0) then
              is_inexact_lt_midpoint := true
          else
            if (is_midpoint_gt_even && ((is_inexact_gt_midpoint0 || is_midpoint_lt_even0))) then
              is_inexact_lt_midpoint := true
              is_inexact_gt_midpoint := false
              is_midpoint_lt_even := false
              is_midpoint_gt_even := false
            else
              if (is_midpoint_lt_even && ((is_inexact_lt_midpoint0 || is_midpoint_gt_even0))) then
                is_inexact_lt_midpoint := false
                is_inexact_gt_midpoint := true
                is_midpoint_lt_even := false
                is_midpoint_gt_even := false
              else
                pure ()
      e3 := (e3 + x0)
      if (((((!is_midpoint_lt_even) && (!is_midpoint_gt_even)) && (!is_inexact_lt_midpoint)) && (!is_inexact_gt_midpoint)) && ((((is_midpoint_lt_even0 || is_midpoint_gt_even0) || is_inexact_lt_midpoint0) || is_inexact_gt_midpoint0))) then
        is_inexact_lt_midpoint := true
    else
      pure ()
  if (((is_inexact_lt_midpoint || is_inexact_gt_midpoint) || is_midpoint_lt_even) || is_midpoint_gt_even) then
    pfpsf := (pfpsf ||| c_StatusFlags_BID_INEXACT_EXCEPTION)
    if is_tiny then
      pfpsf := (pfpsf ||| c_StatusFlags_BID_UNDERFLOW_EXCEPTION)
  if ((res.w1 == (0x1ed09bead87c0 : UInt64)) && (res.w0 == (0x378d8e6400000000 : UInt64))) then
    res := { res with w1 := (0x314dc6448d93 : UInt64) }
    res := { res with w0 := (0x38c15b0a00000000 : UInt64) }
    e3 := (e3 + 1)
  res := { res with w1 := (res.w1 ||| (z_sign ||| ((((UInt64.ofInt (toI ((e3 + (0x1820 : Int32)))))) <<< 0x31)))) }
  if ((rnd_mode == RoundingMode.NearestEven) && (decide (e3 > c_EXP_MAX_UNBIASED))) then
    res := { res with w1 := (z_sign ||| (0x7800000000000000 : UInt64)) }
    res := { res with w0 := (0 : UInt64) }
    pfpsf := (pfpsf ||| (c_StatusFlags_BID_INEXACT_EXCEPTION ||| c_StatusFlags_BID_OVERFLOW_EXCEPTION))
  if (rnd_mode != RoundingMode.NearestEven) then
    let t__48 ← bid_rounding_correction rnd_mode is_inexact_lt_midpoint is_inexact_gt_midpoint is_midpoint_lt_even is_midpoint_gt_even e3 res pfpsf
    res := t__48.1
    pfpsf := t__48.2
  ptr_is_midpoint_lt_even := is_midpoint_lt_even
  ptr_is_midpoint_gt_even := is_midpoint_gt_even
  ptr_is_inexact_lt_midpoint := is_inexact_lt_midpoint
  ptr_is_inexact_gt_midpoint := is_inexact_gt_midpoint
  return (ForInStep.done (some (res, ptr_is_midpoint_lt_even, ptr_is_midpoint_gt_even, ptr_is_inexact_lt_midpoint, ptr_is_inexact_gt_midpoint, pfpsf), (ptr_is_midpoint_lt_even, ptr_is_midpoint_gt_even, ptr_is_inexact_lt_midpoint, ptr_is_inexact_gt_midpoint, pfpsf, res, z_sign, e3, scale, ind, x0, is_midpoint_lt_even, is_midpoint_gt_even, is_inexact_lt_midpoint, is_inexact_gt_midpoint, is_midpoint_lt_even0, is_midpoint_gt_even0, is_inexact_lt_midpoint0, is_inexact_gt_midpoint0, incr_exp, lsb, is_tiny, R64, tmp64, P128, R128, P192, R192, R256)))

set_option maxRecDepth 100000 in
set_option maxHeartbeats 4000000 in
theorem bodyLit_eq (ptr_is_midpoint_lt_even : Bool) (ptr_is_midpoint_gt_even : Bool) (ptr_is_inexact_lt_midpoint : Bool) (ptr_is_inexact_gt_midpoint : Bool) (rnd_mode : RoundingMode) (pfpsf : UInt32) (res : U128) (z_sign : UInt64) (p_sign : UInt64) (C3 : U128) (C4 : U256) (q3 : Int32) (q4 : Int32) (e3 : Int32) (scale : Int32) (ind : Int32) (x0 : Int32) (is_midpoint_lt_even : Bool) (is_midpoint_gt_even : Bool) (is_inexact_lt_midpoint : Bool) (is_inexact_gt_midpoint : Bool) (is_midpoint_lt_even0 : Bool) (is_midpoint_gt_even0 : Bool) (is_inexact_lt_midpoint0 : Bool) (is_inexact_gt_midpoint0 : Bool) (incr_exp : Bool) (lsb : Bool) (is_tiny : Bool) (R64 : UInt64) (tmp64 : UInt64) (P128 : U128) (R128 : U128) (P192 : U192) (R192 : U192) (R256 : U256) :
    bodyLit ptr_is_midpoint_lt_even ptr_is_midpoint_gt_even ptr_is_inexact_lt_midpoint ptr_is_inexact_gt_midpoint rnd_mode pfpsf res z_sign p_sign C3 C4 q3 q4 e3 scale ind x0 is_midpoint_lt_even is_midpoint_gt_even is_inexact_lt_midpoint is_inexact_gt_midpoint is_midpoint_lt_even0 is_midpoint_gt_even0 is_inexact_lt_midpoint0 is_inexact_gt_midpoint0 incr_exp lsb is_tiny R64 tmp64 P128 R128 P192 R192 R256 =
      scaleC3K res C3 q3 scale (fun res =>
      let e3 := (e3 - scale)
      roundC4K C4 q4 x0 is_midpoint_lt_even is_midpoint_gt_even is_inexact_lt_midpoint is_inexact_gt_midpoint incr_exp R64 P128 R128 P192 R192 R256 (fun is_midpoint_lt_even is_midpoint_gt_even is_inexact_lt_midpoint is_inexact_gt_midpoint incr_exp R64 P128 R128 P192 R192 R256 =>
      sumRestLit ptr_is_midpoint_lt_even ptr_is_midpoint_gt_even ptr_is_inexact_lt_midpoint ptr_is_inexact_gt_midpoint rnd_mode pfpsf res z_sign p_sign e3 scale ind x0 is_midpoint_lt_even is_midpoint_gt_even is_inexact_lt_midpoint is_inexact_gt_midpoint is_midpoint_lt_even0 is_midpoint_gt_even0 is_inexact_lt_midpoint0 is_inexact_gt_midpoint0 incr_exp lsb is_tiny R64 tmp64 P128 R128 P192 R192 R256)) := rfl

/-- the `'case2_repeat` loop with what follows it (literal text) -/
def loopLit (ptr_is_midpoint_lt_even_ : Bool) (ptr_is_midpoint_gt_even_ : Bool) (ptr_is_inexact_lt_midpoint_ : Bool) (ptr_is_inexact_gt_midpoint_ : Bool) (rnd_mode_ : RoundingMode) (pfpsf_ : UInt32) (res_ : U128) (z_sign_ : UInt64) (p_sign_ : UInt64) (C3_ : U128) (C4_ : U256) (q3_ : Int32) (q4_ : Int32) (e3_ : Int32) (scale_ : Int32) (ind_ : Int32) (x0_ : Int32) (is_midpoint_lt_even_ : Bool) (is_midpoint_gt_even_ : Bool) (is_inexact_lt_midpoint_ : Bool) (is_inexact_gt_midpoint_ : Bool) (is_midpoint_lt_even0_ : Bool) (is_midpoint_gt_even0_ : Bool) (is_inexact_lt_midpoint0_ : Bool) (is_inexact_gt_midpoint0_ : Bool) (incr_exp_ : Bool) (lsb_ : Bool) (is_tiny_ : Bool) (R64_ : UInt64) (tmp64_ : UInt64) (P128_ : U128) (R128_ : U128) (P192_ : U192) (R192_ : U192) (R256_ : U256) : Except String (U128 × Bool × Bool × Bool × Bool × UInt32) := do
  let mut ptr_is_midpoint_lt_even : Bool := ptr_is_midpoint_lt_even_
  let mut ptr_is_midpoint_gt_even : Bool := ptr_is_midpoint_gt_even_
  let mut ptr_is_inexact_lt_midpoint : Bool := ptr_is_inexact_lt_midpoint_
  let mut ptr_is_inexact_gt_midpoint : Bool := ptr_is_inexact_gt_midpoint_
  let mut rnd_mode : RoundingMode := rnd_mode_
  let mut pfpsf : UInt32 := pfpsf_
  let mut res : U128 := res_
  let mut z_sign : UInt64 := z_sign_
  let mut p_sign : UInt64 := p_sign_
  let mut C3 : U128 := C3_
  let mut C4 : U256 := C4_
  let mut q3 : Int32 := q3_
  let mut q4 : Int32 := q4_
  let mut e3 : Int32 := e3_
  let mut scale : Int32 := scale_
  let mut ind : Int32 := ind_
  let mut x0 : Int32 := x0_
  let mut is_midpoint_lt_even : Bool := is_midpoint_lt_even_
  let mut is_midpoint_gt_even : Bool := is_midpoint_gt_even_
  let mut is_inexact_lt_midpoint : Bool := is_inexact_lt_midpoint_
  let mut is_inexact_gt_midpoint : Bool := is_inexact_gt_midpoint_
  let mut is_midpoint_lt_even0 : Bool := is_midpoint_lt_even0_
  let mut is_midpoint_gt_even0 : Bool := is_midpoint_gt_even0_
  let mut is_inexact_lt_midpoint0 : Bool := is_inexact_lt_midpoint0_
  let mut is_inexact_gt_midpoint0 : Bool := is_inexact_gt_midpoint0_
  let mut incr_exp : Bool := incr_exp_
  let mut lsb : Bool := lsb_
  let mut is_tiny : Bool := is_tiny_
  let mut R64 : UInt64 := R64_
  let mut tmp64 : UInt64 := tmp64_
  let mut P128 : U128 := P128_
  let mut R128 : U128 := R128_
  let mut P192 : U192 := P192_
  let mut R192 : U192 := R192_
  let mut R256 : U256 := R256_
  let mut brk__39 : Bool := false
  for _ in [0:4096] do
    if (scale == (0 : Int32)) then
      res := { res with w1 := C3.w1 }
      res := { res with w0 := C3.w0 }
    else
      if (decide (q3 ≤ (0x13 : Int32))) then
        res := (← (if (decide (scale ≤ (0x13 : Int32))) then (do pure (← mul_64x64_to_128MACH C3.w0 (← tbl64 Dec.Gen.BID_TEN2K64 (UInt64.ofInt (toI scale))))) else (do pure (← mul_128x64_to_128 C3.w0 (← tbl128 Dec.Gen.BID_TEN2K128 (UInt64.ofInt (toI ((scale - (0x14 : Int32))))))))))
      else
        res := (← mul_128x64_to_128 (← tbl64 Dec.Gen.BID_TEN2K64 (UInt64.ofInt (toI scale))) C3)
    e3 := (e3 - scale)
    if (x0 == (0 : Int32)) then
      R128 := { R128 with w1 := C4.w1 }
      R128 := { R128 with w0 := C4.w0 }
    else
      if (decide (q4 ≤ (0x12 : Int32))) then
        let t__40 ← bid_round64_2_18 q4 x0 C4.w0 incr_exp is_midpoint_lt_even is_midpoint_gt_even is_inexact_lt_midpoint is_inexact_gt_midpoint
        incr_exp := t__40.2.1
        is_midpoint_lt_even := t__40.2.2.1
        is_midpoint_gt_even := t__40.2.2.2.1
        is_inexact_lt_midpoint := t__40.2.2.2.2.1
        is_inexact_gt_midpoint := t__40.2.2.2.2.2
        R64 := t__40.1
        if incr_exp then
          R64 := (← tbl64 Dec.Gen.BID_TEN2K64 (UInt64.ofInt (toI ((q4 - x0)))))
        R128 := { R128 with w1 := (0 : UInt64) }
        R128 := { R128 with w0 := R64 }
      else
        if (decide (q4 ≤ (0x26 : Int32))) then
          P128 := { P128 with w1 := C4.w1 }
          P128 := { P128 with w0 := C4.w0 }
          let t__41 ← bid_round128_19_38 q4 x0 P128 incr_exp is_midpoint_lt_even is_midpoint_gt_even is_inexact_lt_midpoint is_inexact_gt_midpoint
          incr_exp := t__41.2.1
          is_midpoint_lt_even := t__41.2.2.1
          is_midpoint_gt_even := t__41.2.2.2.1
          is_inexact_lt_midpoint := t__41.2.2.2.2.1
          is_inexact_gt_midpoint := t__41.2.2.2.2.2
          R128 := t__41.1
          if incr_exp then
            if (decide ((q4 - x0) ≤ (0x13 : Int32))) then
              R128 := { R128 with w0 := (← tbl64 Dec.Gen.BID_TEN2K64 (UInt64.ofInt (toI ((q4 - x0))))) }
            else
              R128 := { R128 with w0 := (← tbl128 Dec.Gen.BID_TEN2K128 (UInt64.ofInt (toI (((q4 - x0) - (0x14 : Int32)))))).w0 }
              R128 := { R128 with w1 := (← tbl128 Dec.Gen.BID_TEN2K128 (UInt64.ofInt (toI (((q4 - x0) - (0x14 : Int32)))))).w1 }
        else
          if (decide (q4 ≤ (0x39 : Int32))) then
            P192 := { P192 with w2 := C4.w2 }
            P192 := { P192 with w1 := C4.w1 }
            P192 := { P192 with w0 := C4.w0 }
            let t__42 ← bid_round192_39_57 q4 x0 P192 incr_exp is_midpoint_lt_even is_midpoint_gt_even is_inexact_lt_midpoint is_inexact_gt_midpoint
            incr_exp := t__42.2.1
            is_midpoint_lt_even := t__42.2.2.1
            is_midpoint_gt_even := t__42.2.2.2.1
            is_inexact_lt_midpoint := t__42.2.2.2.2.1
            is_inexact_gt_midpoint := t__42.2.2.2.2.2
            R192 := t__42.1
            if incr_exp then
              if (decide ((q4 - x0) ≤ (0x13 : Int32))) then
                R192 := { R192 with w0 := (← tbl64 Dec.Gen.BID_TEN2K64 (UInt64.ofInt (toI ((q4 - x0))))) }
              else
                R192 := { R192 with w0 := (← tbl128 Dec.Gen.BID_TEN2K128 (UInt64.ofInt (toI (((q4 - x0) - (0x14 : Int32)))))).w0 }
                R192 := { R192 with w1 := (← tbl128 Dec.Gen.BID_TEN2K128 (UInt64.ofInt (toI (((q4 - x0) - (0x14 : Int32)))))).w1 }
            R128 := { R128 with w1 := R192.w1 }
            R128 := { R128 with w0 := R192.w0 }
          else
            let t__43 ← bid_round256_58_76 q4 x0 C4 incr_exp is_midpoint_lt_even is_midpoint_gt_even is_inexact_lt_midpoint is_inexact_gt_midpoint
            incr_exp := t__43.2.1
            is_midpoint_lt_even := t__43.2.2.1
            is_midpoint_gt_even := t__43.2.2.2.1
            is_inexact_lt_midpoint := t__43.2.2.2.2.1
            is_inexact_gt_midpoint := t__43.2.2.2.2.2
            R256 := t__43.1
            if incr_exp then
              if (decide ((q4 - x0) ≤ (0x13 : Int32))) then
                R256 := { R256 with w0 := (← tbl64 Dec.Gen.BID_TEN2K64 (UInt64.ofInt (toI ((q4 - x0))))) }
              else
                R256 := { R256 with w0 := (← tbl128 Dec.Gen.BID_TEN2K128 (UInt64.ofInt (toI (((q4 - x0) - (0x14 : Int32)))))).w0 }
                R256 := { R256 with w1 := (← tbl128 Dec.Gen.BID_TEN2K128 (UInt64.ofInt (toI (((q4 - x0) - (0x14 : Int32)))))).w1 }
            R128 := { R128 with w1 := R256.w1 }
            R128 := { R128 with w0 := R256.w0 }
    if (z_sign == p_sign) then
      lsb := (((res.w0 &&& (1 : UInt64))) == (1 : UInt64))
      res := { res with w0 := (res.w0 + R128.w0) }
      res := { res with w1 := (res.w1 + R128.w1) }
      if (decide (res.w0 < R128.w0)) then
        res := { res with w1 := (res.w1 + 1) }
      if ((decide (res.w1 > (0x1ed09bead87c0 : UInt64))) || (((res.w1 == (0x1ed09bead87c0 : UInt64)) && (decide (res.w0 > (0x378d8e63ffffffff : UInt64)))))) then
        is_inexact_lt_midpoint0 := is_inexact_lt_midpoint
        is_inexact_gt_midpoint0 := is_inexact_gt_midpoint
        is_midpoint_lt_even0 := is_midpoint_lt_even
        is_midpoint_gt_even0 := is_midpoint_gt_even
        is_inexact_lt_midpoint := false
        is_inexact_gt_midpoint := false
        is_midpoint_lt_even := false
        is_midpoint_gt_even := false
        P128 := { P128 with w1 := res.w1 }
        P128 := { P128 with w0 := res.w0 }
        let t__44 ← bid_round128_19_38 (0x23 : Int32) (1 : Int32) P128 incr_exp is_midpoint_lt_even is_midpoint_gt_even is_inexact_lt_midpoint is_inexact_gt_midpoint
        incr_exp := t__44.2.1
        is_midpoint_lt_even := t__44.2.2.1
        is_midpoint_gt_even := t__44.2.2.2.1
        is_inexact_lt_midpoint := t__44.2.2.2.2.1
        is_inexact_gt_midpoint := t__44.2.2.2.2.2
        res := t__44.1
        if (((is_inexact_gt_midpoint0 || is_midpoint_lt_even0)) && is_midpoint_lt_even) then
          res := { res with w0 := (res.w0 - 1) }
          if (res.w0 == (0xffffffffffffffff : UInt64)) then
            res := { res with w1 := (res.w1 - 1) }
          is_midpoint_lt_even := false
          is_inexact_lt_midpoint := true
        else
          if (((is_inexact_lt_midpoint0 || is_midpoint_gt_even0)) && is_midpoint_gt_even) then
            res := { res with w0 := (res.w0 + 1) }
            if (res.w0 == (0 : UInt64)) then
              res := { res with w1 := (res.w1 + 1) }
            is_midpoint_gt_even := false
            is_inexact_gt_midpoint := true
          else
            if ((((!is_midpoint_lt_even) && (!is_midpoint_gt_even)) && (!is_inexact_lt_midpoint)) && (!is_inexact_gt_midpoint)) then
              if (is_inexact_gt_midpoint0 || is_midpoint_lt_even0) then
                is_inexact_gt_midpoint := true
              if (is_inexact_lt_midpoint0 || is_midpoint_gt_even0) then
                is_inexact_lt_midpoint := true
            else
              if (is_midpoint_gt_even && ((is_inexact_gt_midpoint0 || is_midpoint_lt_even0))) then
                is_inexact_lt_midpoint := true
                is_inexact_gt_midpoint := false
                is_midpoint_lt_even := false
                is_midpoint_gt_even := false
              else
                if (is_midpoint_lt_even && ((is_inexact_lt_midpoint0 || is_midpoint_gt_even0))) then
                  is_inexact_lt_midpoint := false
                  is_inexact_gt_midpoint := true
                  is_midpoint_lt_even := false
                  is_midpoint_gt_even := false
                else
                  pure ()
        e3 := (e3 + 1)
        if (((((!is_midpoint_lt_even) && (!is_midpoint_gt_even)) && (!is_inexact_lt_midpoint)) && (!is_inexact_gt_midpoint)) && ((((is_midpoint_lt_even0 || is_midpoint_gt_even0) || is_inexact_lt_midpoint0) || is_inexact_gt_midpoint0))) then
          is_inexact_lt_midpoint := true
      else
        res := { res with w1 := (res.w1 &&& c_MASK_COEFF) }
        if lsb then
          if is_midpoint_gt_even then
            is_midpoint_gt_even := false
            is_midpoint_lt_even := true
            res := { res with w0 := (res.w0 + 1) }
            if (res.w0 == (0 : UInt64)) then
              res := { res with w1 := (res.w1 + 1) }
            if ((res.w1 == (0x1ed09bead87c0 : UInt64)) && (res.w0 == (0x378d8e6400000000 : UInt64))) then
              res := { res with w1 := (0x314dc6448d93 : UInt64) }
              res := { res with w0 := (0x38c15b0a00000000 : UInt64) }
              e3 := (e3 + 1)
          else
            if is_midpoint_lt_even then
              is_midpoint_lt_even := false
              is_midpoint_gt_even := true
              res := { res with w0 := (res.w0 - 1) }
              if (res.w0 == (0xffffffffffffffff : UInt64)) then
                res := { res with w1 := (res.w1 - 1) }
              if ((res.w1 == (0 : UInt64)) && (res.w0 == (0 : UInt64))) then
                z_sign := (if (rnd_mode != RoundingMode.Downward) then (0 : UInt64) else (0x8000000000000000 : UInt64))
                res := { res with w1 := (0 : UInt64) }
                res := { res with w0 := (0 : UInt64) }
                ptr_is_midpoint_lt_even := is_midpoint_lt_even
                ptr_is_midpoint_gt_even := is_midpoint_gt_even
                ptr_is_inexact_lt_midpoint := is_inexact_lt_midpoint
                ptr_is_inexact_gt_midpoint := is_inexact_gt_midpoint
                return (res, ptr_is_midpoint_lt_even, ptr_is_midpoint_gt_even, ptr_is_inexact_lt_midpoint, ptr_is_inexact_gt_midpoint, pfpsf)
            else
              pure ()
    else
      lsb := (((res.w0 &&& (1 : UInt64))) == (1 : UInt64))
      tmp64 := res.w0
      res := { res with w0 := (res.w0 - R128.w0) }
      res := { res with w1 := (res.w1 - R128.w1) }
      if (decide (res.w0 > tmp64)) then
        res := { res with w1 := (res.w1 - 1) }
      if (((decide (e3 > c_EXP_MIN_UNBIASED)) && (((((decide (res.w1 < (0x314dc6448d93 : UInt64))) || (((res.w1 == (0x314dc6448d93 : UInt64)) && (decide (res.w0 < (0x38c15b0a00000000 : UInt64))))))) || (((((is_inexact_lt_midpoint || is_midpoint_gt_even)) && (res.w1 == (0x314dc6448d93 : UInt64))) && (res.w0 == (0x38c15b0a00000000 : UInt64))))))) && (decide (x0 ≥ (1 : Int32)))) then
        x0 := (x0 - 1)
        e3 := (e3 + scale)
        scale := (scale + 1)
        is_inexact_lt_midpoint := false
        is_inexact_gt_midpoint := false
        is_midpoint_lt_even := false
        is_midpoint_gt_even := false
        incr_exp := false
        continue
      if is_inexact_lt_midpoint then
        is_inexact_lt_midpoint := false
        is_inexact_gt_midpoint := true
      else
        if is_inexact_gt_midpoint then
          is_inexact_gt_midpoint := false
          is_inexact_lt_midpoint := true
        else
          if (!lsb) then
            if is_midpoint_lt_even then
              is_midpoint_lt_even := false
              is_midpoint_gt_even := true
            else
              if is_midpoint_gt_even then
                is_midpoint_gt_even := false
                is_midpoint_lt_even := true
              else
                pure ()
          else
            if lsb then
              if is_midpoint_lt_even then
                res := { res with w0 := (res.w0 + 1) }
                if (res.w0 == (0 : UInt64)) then
                  res := { res with w1 := (res.w1 + 1) }
                if ((res.w1 == (0x1ed09bead87c0 : UInt64)) && (res.w0 == (0x378d8e6400000000 : UInt64))) then
                  res := { res with w1 := (0x314dc6448d93 : UInt64) }
                  res := { res with w0 := (0x38c15b0a00000000 : UInt64) }
                  e3 := (e3 + 1)
              else
                if is_midpoint_gt_even then
                  res := { res with w0 := (res.w0 - 1) }
                  if (res.w0 == (0xffffffffffffffff : UInt64)) then
                    res := { res with w1 := (res.w1 - 1) }
                  if ((res.w1 == (0 : UInt64)) && (res.w0 == (0 : UInt64))) then
                    z_sign := (if (rnd_mode != RoundingMode.Downward) then (0 : UInt64) else (0x8000000000000000 : UInt64))
                    res := { res with w1 := (0 : UInt64) }
                    res := { res with w0 := (0 : UInt64) }
                    ptr_is_midpoint_lt_even := is_midpoint_lt_even
                    ptr_is_midpoint_gt_even := is_midpoint_gt_even
                    ptr_is_inexact_lt_midpoint := is_inexact_lt_midpoint
                    ptr_is_inexact_gt_midpoint := is_inexact_gt_midpoint
                    return (res, ptr_is_midpoint_lt_even, ptr_is_midpoint_gt_even, ptr_is_inexact_lt_midpoint, ptr_is_inexact_gt_midpoint, pfpsf)
                else
                  pure ()
            else
              pure ()
    let t__45 : Int32 := e3
    if (let value := t__45; (value == c_EXP_MIN_UNBIASED)) then
      let mut value : Int32 := t__45
      if ((decide (((res.w1 &&& c_MASK_COEFF)) < (0x314dc6448d93 : UInt64))) || (((((res.w1 &&& c_MASK_COEFF)) == (0x314dc6448d93 : UInt64)) && (decide (res.w0 < (0x38c15b0a00000000 : UInt64)))))) then
        is_tiny := true
      if ((((((res.w1 &&& (0x7fffffffffffffff : UInt64))) == (0x314dc6448d93 : UInt64))) && ((res.w0 == (0x38c15b0a00000000 : UInt64)))) && ((is_inexact_gt_midpoint || is_midpoint_lt_even))) then
        is_tiny := true
    else
      if (let value := t__45; (decide (value < c_EXP_MIN_UNBIASED))) then
        let mut value : Int32 := t__45
        is_tiny := true
        x0 := (c_EXP_MIN_UNBIASED - e3)
        is_inexact_lt_midpoint0 := is_inexact_lt_midpoint
        is_inexact_gt_midpoint0 := is_inexact_gt_midpoint
        is_midpoint_lt_even0 := is_midpoint_lt_even
        is_midpoint_gt_even0 := is_midpoint_gt_even
        is_inexact_lt_midpoint := false
        is_inexact_gt_midpoint := false
        is_midpoint_lt_even := false
        is_midpoint_gt_even := false
        if (res.w1 == (0 : UInt64)) then
          ind := (Int32.ofInt (toI (← countWhile64 Dec.Gen.BID_TEN2K64 1 19 (fun x => (decide (res.w0 ≥ x))))))
          ind := (ind + 1)
        else
          if (← (if (decide (res.w1 < (← tbl128 Dec.Gen.BID_TEN2K128 (UInt64.ofInt (toI 0))).w1)) then pure true else (do pure ((← (if (res.w1 == (← tbl128 Dec.Gen.BID_TEN2K128 (UInt64.ofInt (toI 0))).w1) then (do pure (decide (res.w0 < (← tbl128 Dec.Gen.BID_TEN2K128 (UInt64.ofInt (toI 0))).w0))) else pure false)))))) then
            ind := (0x14 : Int32)
          else
            ind := (Int32.ofInt (toI (← countWhile128 Dec.Gen.BID_TEN2K128 1 18 (fun d => (!(((decide (res.w1 < d.w1)) || (((res.w1 == d.w1) && (decide (res.w0 < d.w0)))))))))))
            ind := (ind + 1)
            ind := (ind + 0x14)
        if (x0 == ind) then
          res := { res with w1 := (0 : UInt64) }
          res := { res with w0 := (1 : UInt64) }
          is_inexact_gt_midpoint := true
        else
          if (decide (ind ≤ (0x12 : Int32))) then
            let t__46 ← bid_round64_2_18 ind x0 res.w0 incr_exp is_midpoint_lt_even is_midpoint_gt_even is_inexact_lt_midpoint is_inexact_gt_midpoint
            incr_exp := t__46.2.1
            is_midpoint_lt_even := t__46.2.2.1
            is_midpoint_gt_even := t__46.2.2.2.1
            is_inexact_lt_midpoint := t__46.2.2.2.2.1
            is_inexact_gt_midpoint := t__46.2.2.2.2.2
            R64 := t__46.1
            if incr_exp then
              R64 := (← tbl64 Dec.Gen.BID_TEN2K64 (UInt64.ofInt (toI ((ind - x0)))))
            res := { res with w1 := (0 : UInt64) }
            res := { res with w0 := R64 }
          else
            if (decide (ind ≤ (0x26 : Int32))) then
              P128 := { P128 with w1 := res.w1 }
              P128 := { P128 with w0 := res.w0 }
              let t__47 ← bid_round128_19_38 ind x0 P128 incr_exp is_midpoint_lt_even is_midpoint_gt_even is_inexact_lt_midpoint is_inexact_gt_midpoint
              incr_exp := t__47.2.1
              is_midpoint_lt_even := t__47.2.2.1
              is_midpoint_gt_even := t__47.2.2.2.1
              is_inexact_lt_midpoint := t__47.2.2.2.2.1
              is_inexact_gt_midpoint := t__47.2.2.2.2.2
              res := t__47.1
              if incr_exp then
                if (decide ((ind - x0) ≤ (0x13 : Int32))) then
                  res := { res with w0 := (← tbl64 Dec.Gen.BID_TEN2K64 (UInt64.ofInt (toI ((ind - x0))))) }
                else
                  res := { res with w0 := (← tbl128 Dec.Gen.BID_TEN2K128 (UInt64.ofInt (toI (((ind - x0) - (0x14 : Int32)))))).w0 }
                  res := { res with w1 := (← tbl128 Dec.Gen.BID_TEN2K128 (UInt64.ofInt (toI (((ind - x0) - (0x14 : Int32)))))).w1 }
        if (((is_inexact_gt_midpoint0 || is_midpoint_lt_even0)) && is_midpoint_lt_even) then
          res := { res with w0 := (res.w0 - 1) }
          if (res.w0 == (0xffffffffffffffff : UInt64)) then
            res := { res with w1 := (res.w1 - 1) }
          is_midpoint_lt_even := false
          is_inexact_lt_midpoint := true
        else
          if (((is_inexact_lt_midpoint0 || is_midpoint_gt_even0)) && is_midpoint_gt_even) then
            res := { res with w0 := (res.w0 + 1) }
            if (res.w0 == (0 : UInt64)) then
              res := { res with w1 := (res.w1 + 1) }
            is_midpoint_gt_even := false
            is_inexact_gt_midpoint := true
          else
            if ((((!is_midpoint_lt_even) && (!is_midpoint_gt_even)) && (!is_inexact_lt_midpoint)) && (!is_inexact_gt_midpoint)) then
              if (is_inexact_gt_midpoint0 || is_midpoint_lt_even0) then
                is_inexact_gt_midpoint := true
              if (is_inexact_lt_midpoint0 || is_midpoint_gt_even0) then
                is_inexact_lt_midpoint := true
            else
              if (is_midpoint_gt_even && ((is_inexact_gt_midpoint0 || is_midpoint_lt_even0))) then
                is_inexact_lt_midpoint := true
                is_inexact_gt_midpoint := false
                is_midpoint_lt_even := false
                is_midpoint_gt_even := false
              else
                if (is_midpoint_lt_even && ((is_inexact_lt_midpoint0 || is_midpoint_gt_even0))) then
                  is_inexact_lt_midpoint := false
                  is_inexact_gt_midpoint := true
                  is_midpoint_lt_even := false
                  is_midpoint_gt_even := false
                else
                  pure ()
        e3 := (e3 + x0)
        if (((((!is_midpoint_lt_even) && (!is_midpoint_gt_even)) && (!is_inexact_lt_midpoint)) && (!is_inexact_gt_midpoint)) && ((((is_midpoint_lt_even0 || is_midpoint_gt_even0) || is_inexact_lt_midpoint0) || is_inexact_gt_midpoint0))) then
          is_inexact_lt_midpoint := true
      else
        pure ()
    if (((is_inexact_lt_midpoint || is_inexact_gt_midpoint) || is_midpoint_lt_even) || is_midpoint_gt_even) then
      pfpsf := (pfpsf ||| c_StatusFlags_BID_INEXACT_EXCEPTION)
      if is_tiny then
        pfpsf := (pfpsf ||| c_StatusFlags_BID_UNDERFLOW_EXCEPTION)
    if ((res.w1 == (0x1ed09bead87c0 : UInt64)) && (res.w0 == (0x378d8e6400000000 : UInt64))) then
      res := { res with w1 := (0x314dc6448d93 : UInt64) }
      res := { res with w0 := (0x38c15b0a00000000 : UInt64) }
      e3 := (e3 + 1)
    res := { res with w1 := (res.w1 ||| (z_sign ||| ((((UInt64.ofInt (toI ((e3 + (0x1820 : Int32)))))) <<< 0x31)))) }
    if ((rnd_mode == RoundingMode.NearestEven) && (decide (e3 > c_EXP_MAX_UNBIASED))) then
      res := { res with w1 := (z_sign ||| (0x7800000000000000 : UInt64)) }
      res := { res with w0 := (0 : UInt64) }
      pfpsf := (pfpsf ||| (c_StatusFlags_BID_INEXACT_EXCEPTION ||| c_StatusFlags_BID_OVERFLOW_EXCEPTION))
    if (rnd_mode != RoundingMode.NearestEven) then
      let t__48 ← bid_rounding_correction rnd_mode is_inexact_lt_midpoint is_inexact_gt_midpoint is_midpoint_lt_even is_midpoint_gt_even e3 res pfpsf
      res := t__48.1
      pfpsf := t__48.2
    ptr_is_midpoint_lt_even := is_midpoint_lt_even
    ptr_is_midpoint_gt_even := is_midpoint_gt_even
    ptr_is_inexact_lt_midpoint := is_inexact_lt_midpoint
    ptr_is_inexact_gt_midpoint := is_inexact_gt_midpoint
    return (res, ptr_is_midpoint_lt_even, ptr_is_midpoint_gt_even, ptr_is_inexact_lt_midpoint, ptr_is_inexact_gt_midpoint, pfpsf)
  if !brk__39 then throw "loop fuel exhausted"
  ptr_is_midpoint_lt_even := is_midpoint_lt_even
  ptr_is_midpoint_gt_even := is_midpoint_gt_even
  ptr_is_inexact_lt_midpoint := is_inexact_lt_midpoint
  ptr_is_inexact_gt_midpoint := is_inexact_gt_midpoint
  return (res, ptr_is_midpoint_lt_even, ptr_is_midpoint_gt_even, ptr_is_inexact_lt_midpoint, ptr_is_inexact_gt_midpoint, pfpsf)

/-- one turn of the loop, on the loop state -/
def iterK (rnd_mode : RoundingMode) (p_sign : UInt64) (C3 : U128) (C4 : U256) (q3 : Int32) (q4 : Int32) (st : Option (U128 × Bool × Bool × Bool × Bool × UInt32) × (Bool × Bool × Bool × Bool × UInt32 × U128 × UInt64 × Int32 × Int32 × Int32 × Int32 × Bool × Bool × Bool × Bool × Bool × Bool × Bool × Bool × Bool × Bool × Bool × UInt64 × UInt64 × U128 × U128 × U192 × U192 × U256)) : Except String (ForInStep (Option (U128 × Bool × Bool × Bool × Bool × UInt32) × (Bool × Bool × Bool × Bool × UInt32 × U128 × UInt64 × Int32 × Int32 × Int32 × Int32 × Bool × Bool × Bool × Bool × Bool × Bool × Bool × Bool × Bool × Bool × Bool × UInt64 × UInt64 × U128 × U128 × U192 × U192 × U256))) :=
  let ptr_is_midpoint_lt_even : Bool := st.2.1
  let ptr_is_midpoint_gt_even : Bool := st.2.2.1
  let ptr_is_inexact_lt_midpoint : Bool := st.2.2.2.1
  let ptr_is_inexact_gt_midpoint : Bool := st.2.2.2.2.1
  let pfpsf : UInt32 := st.2.2.2.2.2.1
  let res : U128 := st.2.2.2.2.2.2.1
  let z_sign : UInt64 := st.2.2.2.2.2.2.2.1
  let e3 : Int32 := st.2.2.2.2.2.2.2.2.1
  let scale : Int32 := st.2.2.2.2.2.2.2.2.2.1
  let ind : Int32 := st.2.2.2.2.2.2.2.2.2.2.1
  let x0 : Int32 := st.2.2.2.2.2.2.2.2.2.2.2.1
  let is_midpoint_lt_even : Bool := st.2.2.2.2.2.2.2.2.2.2.2.2.1
  let is_midpoint_gt_even : Bool := st.2.2.2.2.2.2.2.2.2.2.2.2.2.1
  let is_inexact_lt_midpoint : Bool := st.2.2.2.2.2.2.2.2.2.2.2.2.2.2.1
  let is_inexact_gt_midpoint : Bool := st.2.2.2.2.2.2.2.2.2.2.2.2.2.2.2.1
  let is_midpoint_lt_even0 : Bool := st.2.2.2.2.2.2.2.2.2.2.2.2.2.2.2.2.1
  let is_midpoint_gt_even0 : Bool := st.2.2.2.2.2.2.2.2.2.2.2.2.2.2.2.2.2.1
  let is_inexact_lt_midpoint0 : Bool := st.2.2.2.2.2.2.2.2.2.2.2.2.2.2.2.2.2.2.1
  let is_inexact_gt_midpoint0 : Bool := st.2.2.2.2.2.2.2.2.2.2.2.2.2.2.2.2.2.2.2.1
  let incr_exp : Bool := st.2.2.2.2.2.2.2.2.2.2.2.2.2.2.2.2.2.2.2.2.1
  let lsb : Bool := st.2.2.2.2.2.2.2.2.2.2.2.2.2.2.2.2.2.2.2.2.2.1
  let is_tiny : Bool := st.2.2.2.2.2.2.2.2.2.2.2.2.2.2.2.2.2.2.2.2.2.2.1
  let R64 : UInt64 := st.2.2.2.2.2.2.2.2.2.2.2.2.2.2.2.2.2.2.2.2.2.2.2.1
  let tmp64 : UInt64 := st.2.2.2.2.2.2.2.2.2.2.2.2.2.2.2.2.2.2.2.2.2.2.2.2.1
  let P128 : U128 := st.2.2.2.2.2.2.2.2.2.2.2.2.2.2.2.2.2.2.2.2.2.2.2.2.2.1
  let R128 : U128 := st.2.2.2.2.2.2.2.2.2.2.2.2.2.2.2.2.2.2.2.2.2.2.2.2.2.2.1
  let P192 : U192 := st.2.2.2.2.2.2.2.2.2.2.2.2.2.2.2.2.2.2.2.2.2.2.2.2.2.2.2.1
  let R192 : U192 := st.2.2.2.2.2.2.2.2.2.2.2.2.2.2.2.2.2.2.2.2.2.2.2.2.2.2.2.2.1
  let R256 : U256 := st.2.2.2.2.2.2.2.2.2.2.2.2.2.2.2.2.2.2.2.2.2.2.2.2.2.2.2.2.2
  bodyLit ptr_is_midpoint_lt_even ptr_is_midpoint_gt_even ptr_is_inexact_lt_midpoint ptr_is_inexact_gt_midpoint rnd_mode pfpsf res z_sign p_sign C3 C4 q3 q4 e3 scale ind x0 is_midpoint_lt_even is_midpoint_gt_even is_inexact_lt_midpoint is_inexact_gt_midpoint is_midpoint_lt_even0 is_midpoint_gt_even0 is_inexact_lt_midpoint0 is_inexact_gt_midpoint0 incr_exp lsb is_tiny R64 tmp64 P128 R128 P192 R192 R256

/-- the loop -/
def loopK (ptr_is_midpoint_lt_even : Bool) (ptr_is_midpoint_gt_even : Bool) (ptr_is_inexact_lt_midpoint : Bool) (ptr_is_inexact_gt_midpoint : Bool) (rnd_mode : RoundingMode) (pfpsf : UInt32) (res : U128) (z_sign : UInt64) (p_sign : UInt64) (C3 : U128) (C4 : U256) (q3 : Int32) (q4 : Int32) (e3 : Int32) (scale : Int32) (ind : Int32) (x0 : Int32) (is_midpoint_lt_even : Bool) (is_midpoint_gt_even : Bool) (is_inexact_lt_midpoint : Bool) (is_inexact_gt_midpoint : Bool) (is_midpoint_lt_even0 : Bool) (is_midpoint_gt_even0 : Bool) (is_inexact_lt_midpoint0 : Bool) (is_inexact_gt_midpoint0 : Bool) (incr_exp : Bool) (lsb : Bool) (is_tiny : Bool) (R64 : UInt64) (tmp64 : UInt64) (P128 : U128) (R128 : U128) (P192 : U192) (R192 : U192) (R256 : U256) : Except String (U128 × Bool × Bool × Bool × Bool × UInt32) := do
  let __s ← forIn [0:4096] ((none, ptr_is_midpoint_lt_even, ptr_is_midpoint_gt_even, ptr_is_inexact_lt_midpoint, ptr_is_inexact_gt_midpoint, pfpsf, res, z_sign, e3, scale, ind, x0, is_midpoint_lt_even, is_midpoint_gt_even, is_inexact_lt_midpoint, is_inexact_gt_midpoint, is_midpoint_lt_even0, is_midpoint_gt_even0, is_inexact_lt_midpoint0, is_inexact_gt_midpoint0, incr_exp, lsb, is_tiny, R64, tmp64, P128, R128, P192, R192, R256) : Option (U128 × Bool × Bool × Bool × Bool × UInt32) × (Bool × Bool × Bool × Bool × UInt32 × U128 × UInt64 × Int32 × Int32 × Int32 × Int32 × Bool × Bool × Bool × Bool × Bool × Bool × Bool × Bool × Bool × Bool × Bool × UInt64 × UInt64 × U128 × U128 × U192 × U192 × U256)) (fun _ st => iterK rnd_mode p_sign C3 C4 q3 q4 st)
  match __s.1 with
  | some r => pure r
  | none => throw "loop fuel exhausted"

set_option maxRecDepth 100000 in
set_option maxHeartbeats 4000000 in
theorem loopLit_eq (ptr_is_midpoint_lt_even : Bool) (ptr_is_midpoint_gt_even : Bool) (ptr_is_inexact_lt_midpoint : Bool) (ptr_is_inexact_gt_midpoint : Bool) (rnd_mode : RoundingMode) (pfpsf : UInt32) (res : U128) (z_sign : UInt64) (p_sign : UInt64) (C3 : U128) (C4 : U256) (q3 : Int32) (q4 : Int32) (e3 : Int32) (scale : Int32) (ind : Int32) (x0 : Int32) (is_midpoint_lt_even : Bool) (is_midpoint_gt_even : Bool) (is_inexact_lt_midpoint : Bool) (is_inexact_gt_midpoint : Bool) (is_midpoint_lt_even0 : Bool) (is_midpoint_gt_even0 : Bool) (is_inexact_lt_midpoint0 : Bool) (is_inexact_gt_midpoint0 : Bool) (incr_exp : Bool) (lsb : Bool) (is_tiny : Bool) (R64 : UInt64) (tmp64 : UInt64) (P128 : U128) (R128 : U128) (P192 : U192) (R192 : U192) (R256 : U256) : loopLit ptr_is_midpoint_lt_even ptr_is_midpoint_gt_even ptr_is_inexact_lt_midpoint ptr_is_inexact_gt_midpoint rnd_mode pfpsf res z_sign p_sign C3 C4 q3 q4 e3 scale ind x0 is_midpoint_lt_even is_midpoint_gt_even is_inexact_lt_midpoint is_inexact_gt_midpoint is_midpoint_lt_even0 is_midpoint_gt_even0 is_inexact_lt_midpoint0 is_inexact_gt_midpoint0 incr_exp lsb is_tiny R64 tmp64 P128 R128 P192 R192 R256 = loopK ptr_is_midpoint_lt_even ptr_is_midpoint_gt_even ptr_is_inexact_lt_midpoint ptr_is_inexact_gt_midpoint rnd_mode pfpsf res z_sign p_sign C3 C4 q3 q4 e3 scale ind x0 is_midpoint_lt_even is_midpoint_gt_even is_inexact_lt_midpoint is_inexact_gt_midpoint is_midpoint_lt_even0 is_midpoint_gt_even0 is_inexact_lt_midpoint0 is_inexact_gt_midpoint0 incr_exp lsb is_tiny R64 tmp64 P128 R128 P192 R192 R256 := by
  delta loopLit loopK
  show bind _ _ = bind _ _
  congr 1
  funext s; rcases s with ⟨r, s⟩; cases r <;> rfl

set_option maxRecDepth 100000 in
set_option maxHeartbeats 4000000 in
theorem midBlock_eq (ptr_is_midpoint_lt_even : Bool) (ptr_is_midpoint_gt_even : Bool) (ptr_is_inexact_lt_midpoint : Bool) (ptr_is_inexact_gt_midpoint : Bool) (rnd_mode : RoundingMode) (pfpsf : UInt32) (res : U128) (z_sign : UInt64) (p_sign : UInt64) (tmp_sign : UInt64) (C3 : U128) (C4 : U256) (q3 : Int32) (q4 : Int32) (e3 : Int32) (e4 : Int32) (scale : Int32) (ind : Int32) (delta : Int32) (x0 : Int32) (p34 : Int32) (is_midpoint_lt_even : Bool) (is_midpoint_gt_even : Bool) (is_inexact_lt_midpoint : Bool) (is_inexact_gt_midpoint : Bool) (is_midpoint_lt_even0 : Bool) (is_midpoint_gt_even0 : Bool) (is_inexact_lt_midpoint0 : Bool) (is_inexact_gt_midpoint0 : Bool) (incr_exp : Bool) (lsb : Bool) (is_tiny : Bool) (R64 : UInt64) (tmp64 : UInt64) (P128 : U128) (R128 : U128) (P192 : U192) (R192 : U192) (R256 : U256) :
    midBlock ptr_is_midpoint_lt_even ptr_is_midpoint_gt_even ptr_is_inexact_lt_midpoint ptr_is_inexact_gt_midpoint rnd_mode pfpsf res z_sign p_sign tmp_sign C3 C4 q3 q4 e3 e4 scale ind delta x0 p34 is_midpoint_lt_even is_midpoint_gt_even is_inexact_lt_midpoint is_inexact_gt_midpoint is_midpoint_lt_even0 is_midpoint_gt_even0 is_inexact_lt_midpoint0 is_inexact_gt_midpoint0 incr_exp lsb is_tiny R64 tmp64 P128 R128 P192 R192 R256 =
      if ((((((((((decide (q3 ≤ delta)) && (decide (delta < p34))) && (decide (p34 < (delta + q4))))) || (((decide (q3 ≤ delta)) && (decide ((delta + q4) ≤ p34))))) || (((decide (delta < q3)) && (decide (p34 < (delta + q4)))))) || ((((decide (delta < q3)) && (decide (q3 ≤ (delta + q4)))) && (decide ((delta + q4) ≤ p34))))) || ((decide ((delta + q4) < q3))))) && (!(((decide (delta ≤ (1 : Int32))) && (p_sign != z_sign))))) then
        setupK C4 q3 q4 scale delta x0 p34 P128 (fun C4 scale x0 P128 =>
        loopLit ptr_is_midpoint_lt_even ptr_is_midpoint_gt_even ptr_is_inexact_lt_midpoint ptr_is_inexact_gt_midpoint rnd_mode pfpsf res z_sign p_sign C3 C4 q3 q4 e3 scale ind x0 is_midpoint_lt_even is_midpoint_gt_even is_inexact_lt_midpoint is_inexact_gt_midpoint is_midpoint_lt_even0 is_midpoint_gt_even0 is_inexact_lt_midpoint0 is_inexact_gt_midpoint0 incr_exp lsb is_tiny R64 tmp64 P128 R128 P192 R192 R256)
      else
        tailK ptr_is_midpoint_lt_even ptr_is_midpoint_gt_even ptr_is_inexact_lt_midpoint ptr_is_inexact_gt_midpoint rnd_mode pfpsf res z_sign p_sign tmp_sign C3 C4 q3 q4 e3 e4 ind delta p34 is_midpoint_lt_even is_midpoint_gt_even is_inexact_lt_midpoint is_inexact_gt_midpoint P128 := rfl


open Dec.RH (Ind)
open Dec.C02RoundHelpers (Spec rne rne_eq rne_rounded)

/-! ## 1. Where the exact value lies: the four indicators as statements -/

/-- the indicators `fl` say where `V/D` lies relative to the integer `c`, and it is at most half a unit away:
`inexLtMid`: in `(c, c + ½)`; `inexGtMid`: in `(c − ½, c)`; `midLtEven`: `= c − ½`; `midGtEven`: `= c + ½` -/
structure Pos (V D c : Nat) (fl : Ind) : Prop where
  near : 2 * V ≤ 2 * (c * D) + D ∧ 2 * (c * D) ≤ 2 * V + D
  L : fl.inexLtMid = true ↔ (c * D < V ∧ 2 * V < 2 * (c * D) + D)
  G : fl.inexGtMid = true ↔ (V < c * D ∧ 2 * (c * D) < 2 * V + D)
  ML : fl.midLtEven = true ↔ 2 * V + D = 2 * (c * D)
  MG : fl.midGtEven = true ↔ 2 * V = 2 * (c * D) + D

/-- `c` is `V/D` rounded to nearest-even, and the indicators say where `V/D` lies -/
structure NE (V D c : Nat) (fl : Ind) : Prop extends Pos V D c fl where
  even : (2 * V + D = 2 * (c * D) ∨ 2 * V = 2 * (c * D) + D) → c % 2 = 0

def anyF (fl : Ind) : Bool := fl.inexLtMid || fl.inexGtMid || fl.midLtEven || fl.midGtEven

theorem Pos.exact_iff {V D c : Nat} {fl : Ind} (h : Pos V D c fl) (hD : 0 < D) : anyF fl = false ↔ V = c * D := by
  obtain ⟨⟨n1, n2⟩, l, g, ml, mg⟩ := h
  unfold anyF
  generalize c * D = W at *
  cases e1 : fl.inexLtMid <;> cases e2 : fl.inexGtMid <;> cases e3 : fl.midLtEven <;> cases e4 : fl.midGtEven <;>
    simp only [e1, e2, e3, e4, true_iff, false_iff, Bool.false_eq_true, Bool.or_false, Bool.or_true, Bool.or_self,
      Bool.true_eq_false, Bool.true_or, Bool.false_or] at * <;> omega

theorem NE.rounded {V D c : Nat} {fl : Ind} (h : NE V D c fl) (s : Bool) : RoundedInt .rne s V D c := by
  obtain ⟨⟨⟨n1, n2⟩, -, -, -, -⟩, ev⟩ := h
  unfold RoundedInt
  simp only [Nat.mul_assoc]
  refine ⟨⟨n1, n2⟩, fun h => ev ?_⟩
  omega

theorem b2d (b : Bool) (p : Prop) [Decidable p] (h : b = true ↔ p) : b = decide p := by
  cases b
  · exact (decide_eq_false (fun hp => Bool.noConfusion (h.2 hp))).symm
  · exact (decide_eq_true (h.1 rfl)).symm

/-- what a rounding helper hands back (`Spec`), as a nearest-even statement about `rne C x` -/
theorem spec_NE (q x C cstar : Nat) (incr : Bool) (fl : Ind) (sp : Spec q x C cstar incr fl) (hx : 1 ≤ x) :
    NE C (10 ^ x) (rne C x) fl := by
  obtain ⟨-, -, c3, c4, c5, c6⟩ := sp
  obtain ⟨h, hh, hD, hh2⟩ := Dec.C02GenCorrection.pow_split x hx
  have hr := rne_eq C x hx
  rw [hh2] at c3 c4 c5 c6 hr
  have hdm := Nat.div_add_mod C (10 ^ x)
  have hrl := Nat.mod_lt C (Nat.pow_pos (by decide) : 0 < 10 ^ x)
  have hsucc : (C / 10 ^ x + 1) * 10 ^ x = C / 10 ^ x * 10 ^ x + 10 ^ x := by rw [Nat.add_mul, Nat.one_mul]
  have hcomm : 10 ^ x * (C / 10 ^ x) = C / 10 ^ x * 10 ^ x := Nat.mul_comm _ _
  rw [hcomm] at hdm
  generalize hR : rne C x = R at *
  generalize ha : C / 10 ^ x = a at *
  generalize hrr : C % 10 ^ x = r at *
  generalize hDD : 10 ^ x = D at *
  generalize hP : a * D = P at *
  have hRD : (R = a ∧ R * D = P) ∨ (R = a + 1 ∧ R * D = P + D) := by
    split at hr
    · left; exact ⟨hr, by rw [hr, hP]⟩
    · split at hr
      · right; exact ⟨hr, by rw [hr, hsucc]⟩
      · split at hr
        · left; exact ⟨hr, by rw [hr, hP]⟩
        · right; exact ⟨hr, by rw [hr, hsucc]⟩
  refine ⟨⟨?_, ?_, ?_, ?_, ?_⟩, ?_⟩
  · rcases hRD with ⟨h1, h2⟩ | ⟨h1, h2⟩ <;> rw [h2] <;> split at hr <;> (try split at hr) <;> (try split at hr) <;> omega
  · rw [c5]; rcases hRD with ⟨h1, h2⟩ | ⟨h1, h2⟩ <;> rw [h2] <;> split at hr <;> (try split at hr) <;> (try split at hr) <;> omega
  · rw [c6]; rcases hRD with ⟨h1, h2⟩ | ⟨h1, h2⟩ <;> rw [h2] <;> split at hr <;> (try split at hr) <;> (try split at hr) <;> omega
  · rw [c3]; rcases hRD with ⟨h1, h2⟩ | ⟨h1, h2⟩ <;> rw [h2] <;> split at hr <;> (try split at hr) <;> (try split at hr) <;> omega
  · rw [c4]; rcases hRD with ⟨h1, h2⟩ | ⟨h1, h2⟩ <;> rw [h2] <;> split at hr <;> (try split at hr) <;> (try split at hr) <;> omega
  · rcases hRD with ⟨h1, h2⟩ | ⟨h1, h2⟩ <;> rw [h2] <;> split at hr <;> (try split at hr) <;> (try split at hr) <;> omega

/-- nothing removed: exact, no indicator -/
theorem NE_exact (V : Nat) : NE V 1 V {} := by
  refine ⟨⟨by omega, ?_, ?_, ?_, ?_⟩, by omega⟩ <;> simp


/-! ## 2. Two roundings in a row: the repair of the indicators -/

/-- the code's repair after a second rounding (`f0`: the indicators of the first rounding, `f`: those of the second),
on numbers -/
def dblFix (c : Nat) (f0 f : Ind) : Nat × Ind :=
  if ((f0.inexGtMid || f0.midLtEven) && f.midLtEven) = true then
    (c - 1, { f with midLtEven := false, inexLtMid := true })
  else if ((f0.inexLtMid || f0.midGtEven) && f.midGtEven) = true then
    (c + 1, { f with midGtEven := false, inexGtMid := true })
  else if (!f.midLtEven && !f.midGtEven && !f.inexLtMid && !f.inexGtMid) = true then
    (c, { f with inexGtMid := (if (f0.inexGtMid || f0.midLtEven) = true then true else f.inexGtMid),
                 inexLtMid := (if (f0.inexLtMid || f0.midGtEven) = true then true else f.inexLtMid) })
  else if (f.midGtEven && (f0.inexGtMid || f0.midLtEven)) = true then
    (c, { midLtEven := false, midGtEven := false, inexLtMid := true, inexGtMid := false })
  else if (f.midLtEven && (f0.inexLtMid || f0.midGtEven)) = true then
    (c, { midLtEven := false, midGtEven := false, inexLtMid := false, inexGtMid := true })
  else (c, f)

/-- the statement after the repair (dead code, as it turns out): still exact-looking although the first rounding was not -/
def tailFix (f0 f : Ind) : Ind :=
  if (!f.midLtEven && !f.midGtEven && !f.inexLtMid && !f.inexGtMid &&
      (f0.midLtEven || f0.midGtEven || f0.inexLtMid || f0.inexGtMid)) = true then { f with inexLtMid := true } else f

/-- the five possible indicator words -/
def fE : Ind := {}
def fL : Ind := { inexLtMid := true }
def fG : Ind := { inexGtMid := true }
def fML : Ind := { midLtEven := true }
def fMG : Ind := { midGtEven := true }

/-- the indicators are one of the five words, with the corresponding position (`W = c·D`) -/
theorem Pos.cases {V D c : Nat} {fl : Ind} (h : Pos V D c fl) (hD : 0 < D) :
    (fl = fE ∧ V = c * D) ∨ (fl = fL ∧ c * D < V ∧ 2 * V < 2 * (c * D) + D) ∨
    (fl = fG ∧ V < c * D ∧ 2 * (c * D) < 2 * V + D) ∨ (fl = fML ∧ 2 * V + D = 2 * (c * D)) ∨
    (fl = fMG ∧ 2 * V = 2 * (c * D) + D) := by
  obtain ⟨⟨n1, n2⟩, l, g, ml, mg⟩ := h
  obtain ⟨ML, MG, L, G⟩ := fl
  simp only [] at l g ml mg
  generalize c * D = W at *
  simp only [fE, fL, fG, fML, fMG, Ind.mk.injEq]
  cases ML <;> cases MG <;> cases L <;> cases G <;>
    simp only [true_iff, false_iff, Bool.false_eq_true, Bool.true_eq_false, and_self, and_false, false_and, true_and,
      and_true, false_or, or_false] at * <;> omega

theorem Pos_E {V D c : Nat} (h : V = c * D) (hD : 0 < D) : Pos V D c fE := by
  subst h
  refine ⟨by omega, ?_, ?_, ?_, ?_⟩ <;> simp [fE] <;> omega
theorem Pos_L {V D c : Nat} (h1 : c * D < V) (h2 : 2 * V < 2 * (c * D) + D) : Pos V D c fL := by
  refine ⟨by omega, ?_, ?_, ?_, ?_⟩ <;> simp [fL] <;> omega
theorem Pos_G {V D c : Nat} (h1 : V < c * D) (h2 : 2 * (c * D) < 2 * V + D) : Pos V D c fG := by
  refine ⟨by omega, ?_, ?_, ?_, ?_⟩ <;> simp [fG] <;> omega
theorem Pos_ML {V D c : Nat} (h : 2 * V + D = 2 * (c * D)) (hD : 0 < D) : Pos V D c fML := by
  refine ⟨by omega, ?_, ?_, ?_, ?_⟩ <;> simp [fML] <;> omega
theorem Pos_MG {V D c : Nat} (h : 2 * V = 2 * (c * D) + D) (hD : 0 < D) : Pos V D c fMG := by
  refine ⟨by omega, ?_, ?_, ?_, ?_⟩ <;> simp [fMG] <;> omega

theorem NE_E {V D c : Nat} (h : V = c * D) (hD : 0 < D) : NE V D c fE := ⟨Pos_E h hD, by omega⟩
theorem NE_L {V D c : Nat} (h1 : c * D < V) (h2 : 2 * V < 2 * (c * D) + D) : NE V D c fL := ⟨Pos_L h1 h2, by omega⟩
theorem NE_G {V D c : Nat} (h1 : V < c * D) (h2 : 2 * (c * D) < 2 * V + D) : NE V D c fG := ⟨Pos_G h1 h2, by omega⟩
theorem NE_ML {V D c : Nat} (h : 2 * V + D = 2 * (c * D)) (hD : 0 < D) (he : c % 2 = 0) : NE V D c fML :=
  ⟨Pos_ML h hD, fun _ => he⟩
theorem NE_MG {V D c : Nat} (h : 2 * V = 2 * (c * D) + D) (hD : 0 < D) (he : c % 2 = 0) : NE V D c fMG :=
  ⟨Pos_MG h hD, fun _ => he⟩

/-- the position of `c` relative to `c2·(2h)`, scaled by `D` -/
theorem NE.scaled {c h c2 : Nat} {f : Ind} (h2 : NE c (2 * h) c2 f) (hh : 0 < h) (D : Nat) :
    (f = fE ∧ c * D = c2 * (2 * h) * D) ∨
    (f = fL ∧ c2 * (2 * h) * D + D ≤ c * D ∧ c * D + D ≤ c2 * (2 * h) * D + h * D) ∨
    (f = fG ∧ c2 * (2 * h) * D + D ≤ c * D + h * D ∧ c * D + D ≤ c2 * (2 * h) * D) ∨
    (f = fML ∧ c * D + h * D = c2 * (2 * h) * D ∧ c2 % 2 = 0) ∨
    (f = fMG ∧ c * D = c2 * (2 * h) * D + h * D ∧ c2 % 2 = 0) := by
  have hs : ∀ a b : Nat, a + 1 ≤ b → a * D + D ≤ b * D := by
    intro a b hab; have := Nat.mul_le_mul_right D hab; rw [Nat.add_mul, Nat.one_mul] at this; exact this
  have ev := h2.even
  rcases h2.toPos.cases (by omega) with ⟨e, r⟩ | ⟨e, r1, r2⟩ | ⟨e, r1, r2⟩ | ⟨e, r⟩ | ⟨e, r⟩
  · left; exact ⟨e, by rw [r]⟩
  · right; left
    refine ⟨e, hs _ _ (by omega), ?_⟩
    have := hs c (c2 * (2 * h) + h) (by omega)
    rw [Nat.add_mul] at this; exact this
  · right; right; left
    refine ⟨e, ?_, hs _ _ (by omega)⟩
    have := hs (c2 * (2 * h)) (c + h) (by omega)
    rw [Nat.add_mul] at this; exact this
  · right; right; right; left
    refine ⟨e, ?_, ev (Or.inl r)⟩
    rw [← Nat.add_mul]; congr 1; omega
  · right; right; right; right
    refine ⟨e, ?_, ev (Or.inr r)⟩
    rw [← Nat.add_mul]; congr 1; omega

/-- **two roundings in a row.**  `c` is within half a unit of `V/D` with indicators `f0` (it need not be the even one at a
tie); `c2` is `c/10^x` rounded to nearest-even with indicators `f`.  After the code's repair the result is `V/(D·10^x)`
rounded to nearest-even, with the right indicators. -/
theorem dbl_round (V D c x c2 : Nat) (f0 f : Ind) (hx : 1 ≤ x) (hD : 0 < D) (h0 : Pos V D c f0) (h2 : NE c (10 ^ x) c2 f) :
    NE V (D * 10 ^ x) (dblFix c2 f0 f).1 (dblFix c2 f0 f).2 ∧ tailFix f0 (dblFix c2 f0 f).2 = (dblFix c2 f0 f).2 := by
  obtain ⟨h, hh, hT, -⟩ := Dec.C02GenCorrection.pow_split x hx
  rw [hT] at h2 ⊢
  have eA0 : c2 * (D * (2 * h)) = c2 * (2 * h) * D := by ring
  have eA1 : (c2 + 1) * (D * (2 * h)) = c2 * (2 * h) * D + 2 * (h * D) := by ring
  have eAm : 0 < c2 → (c2 - 1) * (D * (2 * h)) + 2 * (h * D) = c2 * (2 * h) * D := by
    intro hc
    obtain ⟨j, rfl⟩ : ∃ j, c2 = j + 1 := ⟨c2 - 1, by omega⟩
    rw [Nat.add_sub_cancel]; ring
  have eD : D * (2 * h) = 2 * (h * D) := by ring
  have hk0 : c2 = 0 → c2 * (2 * h) * D = 0 := fun e => by rw [e, Nat.zero_mul, Nat.zero_mul]
  have hH : 0 < h * D := Nat.mul_pos hh hD
  have hHD : D ≤ h * D := Nat.le_mul_of_pos_left D hh
  have s2 := h2.scaled hh D
  have s0 := h0.cases hD
  generalize D * (2 * h) = DD at *
  generalize c2 * (2 * h) * D = K at *
  generalize h * D = H at *
  generalize c * D = W at *
  clear h2 h0 hT hx
  rcases s0 with ⟨e0, r0⟩ | ⟨e0, r0, r0'⟩ | ⟨e0, r0, r0'⟩ | ⟨e0, r0⟩ | ⟨e0, r0⟩ <;>
  rcases s2 with ⟨e2, r2⟩ | ⟨e2, r2, r2'⟩ | ⟨e2, r2, r2'⟩ | ⟨e2, r2, r2'⟩ | ⟨e2, r2, r2'⟩ <;>
  subst e0 <;> subst e2 <;> refine ⟨?_, rfl⟩
  all_goals
    simp only [dblFix, fE, fL, fG, fML, fMG, Bool.or_false, Bool.false_or, Bool.or_true, Bool.true_or, Bool.and_true,
      Bool.and_false, Bool.true_and, Bool.false_and, Bool.not_true, Bool.not_false, Bool.false_eq_true, if_false, if_true,
      Bool.or_self, Bool.and_self]
    first
    | (refine NE_E ?_ ?_ <;> omega)
    | (refine NE_L ?_ ?_ <;> omega)
    | (refine NE_G ?_ ?_ <;> omega)
    | (refine NE_ML ?_ ?_ ?_ <;> omega)
    | (refine NE_MG ?_ ?_ ?_ <;> omega)


-- the classical double rounding: 12344.99 → 12345 (value below: `inexGtMid`), then 1234|5 → a tie, rounded up to the even 1234?
-- no: to 1234 (even); with the value known to lie below the tie the repair gives 1234 with "value above, below the midpoint"
example : dblFix 1234 fG fMG = (1234, fL) := by decide
-- … and 12355 ← 12354.99, second rounding 1235|5 → tie → 1236 (`midLtEven`): one unit too much, repaired to 1235
example : dblFix 1236 fG fML = (1235, fL) := by decide
example : NE 1235499 (100 * 10 ^ 1) (dblFix 1236 fG fML).1 (dblFix 1236 fG fML).2 :=
  (dbl_round 1235499 100 12355 1 1236 fG fML (by decide) (by decide) (Pos_G (by decide) (by decide))
    (NE_ML (by decide) (by decide) (by decide))).1
example : NE 12345 (10 ^ 1) (rne 12345 1) fMG := by
  have : rne 12345 1 = 1234 := by decide +kernel
  rw [this]; exact NE_MG (by decide) (by decide) (by decide)


open Dec.RH (Ind)

/-! ## 3. Rounding the product first, then adding: the tie-break repair -/

/-- same signs: the sum of the integer `A` and the rounded `C4/T` is as near to the exact sum as `R` is to `C4/T`, on the
same side -/
theorem sum_same_pos {A C4 T R : Nat} {fl : Ind} (h : Pos C4 T R fl) : Pos (A * T + C4) T (A + R) fl := by
  obtain ⟨⟨n1, n2⟩, l, g, ml, mg⟩ := h
  have e : (A + R) * T = A * T + R * T := Nat.add_mul _ _ _
  refine ⟨⟨?_, ?_⟩, ?_, ?_, ?_, ?_⟩ <;> rw [e] <;> generalize A * T = AT at * <;> generalize R * T = RT at *
  · omega
  · omega
  · rw [l]; omega
  · rw [g]; omega
  · rw [ml]; omega
  · rw [mg]; omega

/-- exchange of the sides -/
def swapInd (fl : Ind) : Ind :=
  { midLtEven := fl.midGtEven, midGtEven := fl.midLtEven, inexLtMid := fl.inexGtMid, inexGtMid := fl.inexLtMid }

/-- opposite signs: the difference of the integer `A` and the rounded `C4/T` is as near to the exact difference, on the
other side -/
theorem sum_diff_pos {A C4 T R : Nat} {fl : Ind} (h : Pos C4 T R fl) (hR : R ≤ A) (hC : C4 ≤ A * T) :
    Pos (A * T - C4) T (A - R) (swapInd fl) := by
  obtain ⟨⟨n1, n2⟩, l, g, ml, mg⟩ := h
  have e : (A - R) * T + R * T = A * T := by rw [← Nat.add_mul]; congr 1; omega
  refine ⟨⟨?_, ?_⟩, ?_, ?_, ?_, ?_⟩ <;> (try simp only [swapInd]) <;> generalize A * T = AT at * <;>
    generalize R * T = RT at * <;> generalize (A - R) * T = DT at *
  · omega
  · omega
  · rw [g]; omega
  · rw [l]; omega
  · rw [mg]; omega
  · rw [ml]; omega

/-- the repair of the tie-break (same signs): at a tie with `A` odd the other neighbour is the even one -/
def lsbFixSame (lsb : Bool) (c : Nat) (fl : Ind) : Nat × Ind :=
  if lsb = true then
    if fl.midGtEven = true then (c + 1, { fl with midGtEven := false, midLtEven := true })
    else if fl.midLtEven = true then (c - 1, { fl with midLtEven := false, midGtEven := true })
    else (c, fl)
  else (c, fl)

/-- the repair of the tie-break (opposite signs), the indicators already being those of the product's rounding `fl`
(not yet exchanged): inexact indicators change sides; midpoint indicators change sides when `A` is even, and the result
moves to the even neighbour when `A` is odd -/
def lsbFixDiff (lsb : Bool) (c : Nat) (fl : Ind) : Nat × Ind :=
  if fl.inexLtMid = true then (c, { fl with inexLtMid := false, inexGtMid := true })
  else if fl.inexGtMid = true then (c, { fl with inexGtMid := false, inexLtMid := true })
  else if lsb = false then
    if fl.midLtEven = true then (c, { fl with midLtEven := false, midGtEven := true })
    else if fl.midGtEven = true then (c, { fl with midGtEven := false, midLtEven := true })
    else (c, fl)
  else
    if fl.midLtEven = true then (c + 1, fl)
    else if fl.midGtEven = true then (c - 1, fl)
    else (c, fl)

theorem lsbFixSame_NE {A C4 T R : Nat} {fl : Ind} (h : NE C4 T R fl) (hT : 0 < T) (lsb : Bool)
    (hl : lsb = true ↔ A % 2 = 1) :
    NE (A * T + C4) T (lsbFixSame lsb (A + R) fl).1 (lsbFixSame lsb (A + R) fl).2 ∧
    ((lsbFixSame lsb (A + R) fl).1 = A + R ∨
      ((lsbFixSame lsb (A + R) fl).1 = A + R + 1 ∧ 2 * (A * T + C4) + T = 2 * ((A + R + 1) * T)) ∨
      ((lsbFixSame lsb (A + R) fl).1 = A + R - 1 ∧ 1 ≤ R)) := by
  have ev := h.even
  have e : (A + R) * T = A * T + R * T := Nat.add_mul _ _ _
  have e1 : (A + R + 1) * T = A * T + R * T + T := by rw [Nat.add_mul, Nat.one_mul, e]
  have e2 : 1 ≤ R → (A + R - 1) * T + T = A * T + R * T := by
    intro hR
    rw [← e]; obtain ⟨j, hj⟩ : ∃ j, A + R = j + 1 := ⟨A + R - 1, by omega⟩
    rw [hj, Nat.add_sub_cancel, Nat.add_mul, Nat.one_mul]
  have hR1 : 2 * C4 + T = 2 * (R * T) → 1 ≤ R := by
    intro r
    rcases Nat.eq_zero_or_pos R with h0 | h0
    · rw [h0, Nat.zero_mul] at r; omega
    · exact h0
  have hA : (lsb = true ∧ A % 2 = 1) ∨ (lsb = false ∧ A % 2 = 0) := by
    cases lsb
    · right; refine ⟨rfl, ?_⟩; have := hl.not; simp at this; omega
    · left; exact ⟨rfl, hl.1 rfl⟩
  have s0 := h.toPos.cases hT
  generalize A * T = AT at *
  generalize R * T = RT at *
  rcases hA with ⟨hb, hA⟩ | ⟨hb, hA⟩ <;> subst hb <;>
  rcases s0 with ⟨e0, r⟩ | ⟨e0, r1, r2⟩ | ⟨e0, r1, r2⟩ | ⟨e0, r⟩ | ⟨e0, r⟩ <;> subst e0 <;>
  simp only [lsbFixSame, fE, fL, fG, fML, fMG, if_true, if_false, Bool.false_eq_true, Bool.true_eq_false] <;>
  refine ⟨?_, ?_⟩
  all_goals first
    | exact Or.inl trivial
    | omega
    | (have := hR1 (by omega); simp <;> omega)
    | (simp <;> omega)
    | (refine NE_E ?_ ?_ <;> omega)
    | (refine NE_L ?_ ?_ <;> omega)
    | (refine NE_G ?_ ?_ <;> omega)
    | (have := hR1 (by omega); have := e2 this; refine NE_MG ?_ ?_ ?_ <;> omega)
    | (refine NE_ML ?_ ?_ ?_ <;> omega)
    | (refine NE_MG ?_ ?_ ?_ <;> omega)
    | (have := hR1 (by omega); omega)

theorem lsbFixDiff_NE {A C4 T R : Nat} {fl : Ind} (h : NE C4 T R fl) (hT : 0 < T) (hR : R ≤ A) (hC : C4 ≤ A * T)
    (lsb : Bool) (hl : lsb = true ↔ A % 2 = 1) :
    NE (A * T - C4) T (lsbFixDiff lsb (A - R) fl).1 (lsbFixDiff lsb (A - R) fl).2 ∧
    ((lsbFixDiff lsb (A - R) fl).1 = A - R ∨
      ((lsbFixDiff lsb (A - R) fl).1 = A - R + 1 ∧ 2 * (A * T - C4) + T = 2 * ((A - R + 1) * T)) ∨
      ((lsbFixDiff lsb (A - R) fl).1 = A - R - 1 ∧ 2 * (A * T - C4) + T = 2 * ((A - R) * T))) := by
  have ev := h.even
  have e : (A - R) * T + R * T = A * T := by rw [← Nat.add_mul]; congr 1; omega
  have e1 : (A - R + 1) * T = (A - R) * T + T := by rw [Nat.add_mul, Nat.one_mul]
  have e2 : 1 ≤ A - R → (A - R - 1) * T + T = (A - R) * T := by
    intro h1
    obtain ⟨j, hj⟩ : ∃ j, A - R = j + 1 := ⟨A - R - 1, by omega⟩
    rw [hj, Nat.add_sub_cancel, Nat.add_mul, Nat.one_mul]
  have hc0 : A - R = 0 → (A - R) * T = 0 := fun h0 => by rw [h0, Nat.zero_mul]
  have hA : (lsb = true ∧ A % 2 = 1) ∨ (lsb = false ∧ A % 2 = 0) := by
    cases lsb
    · right; refine ⟨rfl, ?_⟩; have := hl.not; simp at this; omega
    · left; exact ⟨rfl, hl.1 rfl⟩
  have s0 := h.toPos.cases hT
  generalize A * T = AT at *
  generalize R * T = RT at *
  rcases hA with ⟨hb, hA⟩ | ⟨hb, hA⟩ <;> subst hb <;>
  rcases s0 with ⟨e0, r⟩ | ⟨e0, r1, r2⟩ | ⟨e0, r1, r2⟩ | ⟨e0, r⟩ | ⟨e0, r⟩ <;> subst e0 <;>
  simp only [lsbFixDiff, fE, fL, fG, fML, fMG, if_true, if_false, Bool.false_eq_true, Bool.true_eq_false] <;>
  refine ⟨?_, ?_⟩
  all_goals first
    | exact Or.inl trivial
    | omega
    | (simp <;> omega)
    | (refine NE_E ?_ ?_ <;> omega)
    | (refine NE_L ?_ ?_ <;> omega)
    | (refine NE_G ?_ ?_ <;> omega)
    | (have := e2 (by omega); refine NE_MG ?_ ?_ ?_ <;> omega)
    | (refine NE_ML ?_ ?_ ?_ <;> omega)
    | (refine NE_MG ?_ ?_ ?_ <;> omega)


-- 1235 + 12.5: the product rounds to the even 12 (tie, `midGtEven`), the sum 1247 is odd: repaired to 1248 with `midLtEven`
example : lsbFixSame true (1235 + 12) fMG = (1248, fML) := by decide
-- 1235 − 12.5: 1223 is odd, the exact difference 1222.5 is a tie: repaired to 1222 (indicators of the product unchanged)
example : lsbFixDiff true (1235 - 12) fMG = (1222, fMG) := by decide
-- an inexact product: the indicators change sides
example : lsbFixDiff false (1234 - 12) fL = (1222, fG) := by decide


open Dec.RH (Ind)

/-! ## 4. From a rounding at the right exponent to `finish` -/

theorem ten_ne' : (10 : ℚ) ≠ 0 := by norm_num

/-- the exact value in the two units: `V·10^m = (V/D)·10^ef` when `D = 10^(ef − m)` -/
theorem val_units (V : Nat) (m ef : Int) (hm : m ≤ ef) :
    (V : ℚ) / ((1 : Nat) : ℚ) * (10 : ℚ) ^ m = (V : ℚ) / ((10 ^ (ef - m).toNat : Nat) : ℚ) * (10 : ℚ) ^ ef := by
  have hp : ((10 ^ (ef - m).toNat : Nat) : ℚ) = (10 : ℚ) ^ (ef - m) := (zpow_toNat (by omega)).symm
  rw [hp, Nat.cast_one, div_one, zpow_sub₀ ten_ne']
  have h1 : (10 : ℚ) ^ m ≠ 0 := zpow_ne_zero _ ten_ne'
  have h2 : (10 : ℚ) ^ ef ≠ 0 := zpow_ne_zero _ ten_ne'
  field_simp

/-- **`finish` is its main branch at any exponent that is the least possible one**: with the value `V·10^m` written as
`(V/D)·10^ef`, `V/D < 10^34`, and `ef` the least exponent (`ef = emin`, or `V/D ≥ 10^33`) -/
theorem finish_at (mode : Mode) (neg : Bool) (V : Nat) (m ef pref : Int) (hV : 0 < V) (hm : m ≤ ef) (hef : eMin ≤ ef)
    (h34 : V < P34 * 10 ^ (ef - m).toNat) (hleast : ef = eMin ∨ P33 * 10 ^ (ef - m).toNat ≤ V) :
    finish mode neg V 1 m pref =
      finishAt mode neg V (10 ^ (ef - m).toNat) ef pref (decide (V < P33 * 10 ^ (ef - m).toNat)) := by
  have hD : 0 < 10 ^ (ef - m).toNat := Nat.pow_pos (by decide)
  generalize hDD : 10 ^ (ef - m).toNat = D at *
  have hDq : (0 : ℚ) < (D : ℚ) := by exact_mod_cast hD
  have hval : (V : ℚ) / ((1 : Nat) : ℚ) * (10 : ℚ) ^ m = (V : ℚ) / (D : ℚ) * (10 : ℚ) ^ ef := by
    rw [← hDD]; exact val_units V m ef hm
  have hw34 : (V : ℚ) / D < (10 : ℚ) ^ (34 : ℤ) := by
    rw [div_lt_iff₀ hDq, ← P34_cast]; exact_mod_cast h34
  have hl : ef = eMin ∨ (10 : ℚ) ^ (33 : ℤ) ≤ (V : ℚ) / D := by
    rcases hleast with h | h
    · exact Or.inl h
    · right; rw [le_div_iff₀ hDq, ← P33_cast]; exact_mod_cast h
  have htiny : decide (V < P33 * D) = true ↔ (V : ℚ) / D * (10 : ℚ) ^ ef < (10 : ℚ) ^ (-6143 : ℤ) := by
    rw [decide_eq_true_eq]
    have hpe : (0 : ℚ) < (10 : ℚ) ^ ef := zpow_pos (by norm_num) _
    have e43 : (10 : ℚ) ^ (-6143 : ℤ) = (10 : ℚ) ^ (33 : ℤ) * (10 : ℚ) ^ (-6176 : ℤ) := by
      rw [← zpow_add₀ ten_ne']; norm_num
    constructor
    · intro hlt
      have hef' : ef = -6176 := by
        rcases hleast with h | h
        · exact h
        · omega
      have : (V : ℚ) / D < (10 : ℚ) ^ (33 : ℤ) := by
        rw [div_lt_iff₀ hDq, ← P33_cast]; exact_mod_cast hlt
      rw [e43, hef']
      exact mul_lt_mul_of_pos_right this (zpow_pos (by norm_num) _)
    · intro hlt
      by_contra hcon
      have hge : (10 : ℚ) ^ (33 : ℤ) ≤ (V : ℚ) / D := by
        rw [le_div_iff₀ hDq, ← P33_cast]; exact_mod_cast (Nat.le_of_not_lt hcon)
      have h6 : (10 : ℚ) ^ (-6176 : ℤ) ≤ (10 : ℚ) ^ ef := zpow_le_zpow_right₀ (by norm_num) hef
      have : (10 : ℚ) ^ (33 : ℤ) * (10 : ℚ) ^ (-6176 : ℤ) ≤ (V : ℚ) / D * (10 : ℚ) ^ ef :=
        mul_le_mul hge h6 (zpow_pos (by norm_num) _).le (le_trans (zpow_pos (by norm_num) _).le hge)
      rw [← e43] at this
      linarith
  have hspec := finishAt_spec mode neg V D ef pref (decide (V < P33 * D)) hD hV hw34 hef hl htiny
  have hstrict : FinishSpecStrict mode neg ((V : ℚ) / D * (10 : ℚ) ^ ef) pref
      (finishAt mode neg V D ef pref (decide (V < P33 * D))) := by
    rcases hspec with h | ⟨hmm, mm, x, ho, h1, h2, h3, h4, h5⟩ | h
    · exact Or.inl h
    · right; left
      refine ⟨hmm, mm, x, ho, h1, h2, h3, inexact_clause_rounded h5, ?_⟩
      intro x' M hx1 hx2 hM
      refine finishAt_least mode neg V D ef pref _ hD hl ho (flags_ne_zero _).symm ?_ hx1 hx2 hM
      split <;> decide
    · exact Or.inr (Or.inr h)
  have hfs := finish_spec_strict mode neg V 1 m pref hV (by decide)
  rw [hval] at hfs
  exact FinishSpecStrict_unique (by rw [← hval]; exact finish_val_pos hV (by decide) m) hfs hstrict


/-- the result of a rounding at the least exponent, delivered: carry into a 35th digit renormalised, overflow checked -/
def deliverOut (mode : Mode) (neg : Bool) (M : Nat) (ef : Int) (tiny : Bool) : Datum × Flags :=
  if (if M = P34 then ef + 1 else ef) > eMax then (overflowResult mode neg, fOverflow ||| fInexact)
  else (.fin neg (if M = P34 then P33 else M) (if M = P34 then ef + 1 else ef),
        if tiny = true then fUnderflow ||| fInexact else fInexact)

/-- **inexact result**: `finish` is the single rounding `roundInt` of `V/D` at the least exponent `ef`, delivered -/
theorem finish_inexact (mode : Mode) (neg : Bool) (V : Nat) (m ef pref : Int) (hV : 0 < V) (hm : m ≤ ef) (hef : eMin ≤ ef)
    (h34 : V < P34 * 10 ^ (ef - m).toNat) (hleast : ef = eMin ∨ P33 * 10 ^ (ef - m).toNat ≤ V)
    (hr : V % 10 ^ (ef - m).toNat ≠ 0) :
    finish mode neg V 1 m pref =
      deliverOut mode neg (roundInt mode neg (V / 10 ^ (ef - m).toNat) (V % 10 ^ (ef - m).toNat) (10 ^ (ef - m).toNat)) ef
        (decide (V < P33 * 10 ^ (ef - m).toNat)) := by
  rw [finish_at mode neg V m ef pref hV hm hef h34 hleast]
  unfold deliverOut
  by_cases hM : roundInt mode neg (V / 10 ^ (ef - m).toNat) (V % 10 ^ (ef - m).toNat) (10 ^ (ef - m).toNat) = P34
  · rw [finishAt_inexact_carry _ _ _ _ _ _ _ hr hM, hM]
    simp only [if_true]
  · rw [finishAt_inexact _ _ _ _ _ _ _ hr hM]
    simp only [hM, if_false]

/-- **exact result** (`V·10^m = M·10^X` a member of the format, `X ≥ m` as close to the preferred exponent `m` as the
format allows): no flag -/
theorem finish_exact' (mode : Mode) (neg : Bool) (N : Nat) (m : Int) (hN : 0 < N) (M : Nat) (X : Int) (hX : m ≤ X)
    (hval : M * 10 ^ (X - m).toNat = N) (hrep : Representable M X) (hclose : X = m ∨ P34 ≤ M * 10 ∨ X = eMin) :
    finish mode neg N 1 m m = (.fin neg M X, 0) := by
  rw [finish_eq_iff mode neg N 1 m m hN (by norm_num)]
  left
  have hv : fval false M X = (N : ℚ) / ((1 : Nat) : ℚ) * (10 : ℚ) ^ m := by
    rw [fval_false, ← hval]
    push_cast
    rw [div_one, mul_assoc, ← zpow_natCast, ← zpow_add₀ ten_ne']
    congr 2
    omega
  refine ⟨⟨M, X, hrep, hv⟩, M, X, rfl, hv, hrep, ?_⟩
  intro m' x' hr' hv'
  rcases hclose with h | h | h
  · rw [h, sub_self, abs_zero]; exact abs_nonneg _
  · by_cases hx : X ≤ x'
    · rw [abs_of_nonneg (by omega), abs_of_nonneg (by omega)]; omega
    · exfalso
      rw [← hv, fval_false, fval_false] at hv'
      have hk : X = x' + ((X - x').toNat : Int) := by omega
      rw [hk, zpow_add₀ ten_ne', zpow_natCast] at hv'
      have h10 : (10 : ℚ) ^ x' ≠ 0 := zpow_ne_zero _ ten_ne'
      have e1 : (m' : ℚ) = (M : ℚ) * (10 : ℚ) ^ (X - x').toNat := by
        have : (m' : ℚ) * (10 : ℚ) ^ x' = ((M : ℚ) * (10 : ℚ) ^ (X - x').toNat) * (10 : ℚ) ^ x' := by rw [hv']; ring
        exact mul_right_cancel₀ h10 this
      have e2 : m' = M * 10 ^ (X - x').toNat := by exact_mod_cast e1
      obtain ⟨k, hk'⟩ : ∃ k, (X - x').toNat = k + 1 := ⟨(X - x').toNat - 1, by omega⟩
      rw [hk', Nat.pow_succ] at e2
      have : M * 10 ≤ m' := by
        rw [e2, Nat.mul_comm (10 ^ k) 10, ← Nat.mul_assoc]
        exact Nat.le_mul_of_pos_right _ (Nat.pow_pos (by decide))
      have := hr'.1
      omega
  · have := hr'.2.1
    rw [abs_of_nonneg (by omega), abs_of_nonneg (by omega)]; omega

/-- **exact, but beyond the range**: overflow -/
theorem finish_exact_ovf (mode : Mode) (neg : Bool) (N : Nat) (m pref : Int) (hN : 0 < N)
    (hbig : P34 * 10 ^ (eMax - m).toNat ≤ N) (hm : m ≤ eMax) :
    finish mode neg N 1 m pref = (overflowResult mode neg, fOverflow ||| fInexact) := by
  rw [finish_eq_iff mode neg N 1 m pref hN (by norm_num)]
  right; right
  have hv : (10 : ℚ) ^ (34 + eMax) ≤ (N : ℚ) / ((1 : Nat) : ℚ) * (10 : ℚ) ^ m := by
    have h1 : ((P34 * 10 ^ (eMax - m).toNat : Nat) : ℚ) ≤ (N : ℚ) := by exact_mod_cast hbig
    rw [Nat.cast_mul, ← zpow_toNat (by omega), P34_cast] at h1
    rw [Nat.cast_one, div_one]
    have hp : (0 : ℚ) < (10 : ℚ) ^ m := zpow_pos (by norm_num) _
    calc (10 : ℚ) ^ (34 + eMax) = (10 : ℚ) ^ (34 : ℤ) * (10 : ℚ) ^ (eMax - m) * (10 : ℚ) ^ m := by
          rw [← zpow_add₀ ten_ne', ← zpow_add₀ ten_ne']; congr 1; ring
      _ ≤ (N : ℚ) * (10 : ℚ) ^ m := mul_le_mul_of_nonneg_right h1 hp.le
  obtain ⟨h1, h2⟩ := overflow_clause mode neg hv
  exact ⟨h1, rfl, h2⟩


open Dec.RH (Ind)
open Dec.Rs Dec.Gen.Code
open Dec.C02GenCorrection
open Dec.C03GenCompare (sigW negW)

/-! ## 5. `bid_rounding_correction`, delivered -/

/-- the two indicators "the value is below the delivered one" are interchangeable for the routine -/
theorem correction_swap (m : RoundingMode) (L G ML MG : Bool) (e : Int32) (res : U128) (f : UInt32) :
    bid_rounding_correction m L G ML MG e res f = bid_rounding_correction m L ML G MG e res f := by
  rw [correction_shape, correction_shape]
  have e1 : downB m (res.w1 &&& c_MASK_SIGN) G ML = downB m (res.w1 &&& c_MASK_SIGN) ML G := by
    unfold downB; rw [Bool.or_comm ML G]
  have e2 : (((L || G) || ML) || MG) = (((L || ML) || G) || MG) := by cases L <;> cases G <;> cases ML <;> rfl
  rw [e1, e2]

/-- the step raises the exponent only by the carry into `10^34` -/
theorem step_carry (up down : Bool) (cf : Nat) (ef : Int) (hcf : cf ≤ P34) (hup : up = true → cf < P34)
    (hlow : up = false → down = true → cf = P33 → ef = -6176) (hef : -6176 ≤ ef) :
    (stepC up down (deliver cf ef).1 (deliver cf ef).2).2.1 = ef + 1 →
      (stepC up down (deliver cf ef).1 (deliver cf ef).2).1 = P33 := by
  have e34 : P34 = 10000000000000000000000000000000000 := rfl
  have e33 : P33 = 1000000000000000000000000000000000 := rfl
  unfold deliver stepC
  by_cases h34 : cf = P34
  · simp only [h34, if_true]
    cases up
    · cases down
      · simp
      · simp only [Bool.false_eq_true, if_false, if_true]
        rw [if_pos (by omega)]
        simp only []
        intro h; omega
    · exact absurd (hup rfl) (by omega)
  · simp only [h34, if_false]
    cases up
    · cases down
      · simp only [Bool.false_eq_true, if_false]; intro h; omega
      · simp only [Bool.false_eq_true, if_false, if_true]
        by_cases h33 : cf = P33
        · have := hlow rfl rfl h33
          rw [if_pos h33, if_neg (by omega)]
          simp only []; intro h; omega
        · rw [if_neg h33]; simp only []; intro h; omega
    · simp only [if_true]
      by_cases hw : cf + 1 = P34
      · rw [if_pos hw]; simp
      · rw [if_neg hw]; simp only []; intro h; omega

/-- `deliver` as two components -/
def dlv (M : Nat) (ef : Int) : Nat × Int := (if M = P34 then P33 else M, if M = P34 then ef + 1 else ef)

/-- **`bid_rounding_correction`, with what it returns written out**: under the hypotheses of `correction_spec`, the
result is the single rounding `M = roundInt` of the exact value `V/D` in the mode asked for, delivered (`dlv`): packed, or the
overflow datum; inexact iff an indicator is set, overflow + inexact iff the final exponent exceeds 6111, and underflow
exactly when `10^33` at the least exponent was lowered. -/
theorem correction_deliver (m : RoundingMode) (L G ML MG : Bool) (e : Int32) (res : U128) (f : UInt32)
    (V D cf : Nat) (ef : Int) (hD : 0 < D)
    (hne : RoundedInt .rne (negW res.w1.toNat) V D cf)
    (hL : L = decide (cf * D < V ∧ 2 * V < 2 * (cf * D) + D)) (hG : G = decide (V < cf * D ∧ 2 * (cf * D) < 2 * V + D))
    (hML : ML = decide (2 * V + D = 2 * (cf * D))) (hMG : MG = decide (2 * V = 2 * (cf * D) + D))
    (hcf : cf ≤ P34) (hcarry : cf = P34 → V ≤ cf * D) (hlow : V < cf * D → cf = P33 → ef = -6176)
    (hef1 : -6176 ≤ ef) (hef2 : ef < 26590)
    (hc : sigW res.w1.toNat res.w0.toNat = (deliver cf ef).1) (he : e.toInt = (deliver cf ef).2) :
    ∃ uf : Bool,
      bid_rounding_correction m L G ML MG e res f =
        .ok (ofBits (encode (if 6111 < (dlv (roundInt (modeOf m) (negW res.w1.toNat) (V / D) (V % D) D) ef).2
              then ovfDatum m (negW res.w1.toNat)
              else .fin (negW res.w1.toNat) (dlv (roundInt (modeOf m) (negW res.w1.toNat) (V / D) (V % D) D) ef).1
                    (dlv (roundInt (modeOf m) (negW res.w1.toNat) (V / D) (V % D) D) ef).2)),
             outF (L || G || ML || MG) uf
               (decide (6111 < (dlv (roundInt (modeOf m) (negW res.w1.toNat) (V / D) (V % D) D) ef).2)) f) ∧
      (uf = true ↔ (corrI m (negW res.w1.toNat) L G ML MG = -1 ∧ cf = P33)) := by
  have e34 : P34 = 10000000000000000000000000000000000 := rfl
  have e33 : P33 = 1000000000000000000000000000000000 := rfl
  generalize hs : negW res.w1.toNat = s at *
  have htab := table_correct m s V D cf L G ML MG hD hne hL hG hML hMG
  have upV : upD m s L MG = true → cf * D < V := by
    intro h
    subst hL hMG
    cases m <;> cases s <;> simp only [upD, Bool.not_true, Bool.not_false, Bool.false_and, Bool.true_and, Bool.or_eq_true,
      decide_eq_true_eq, Bool.false_eq_true] at h <;> omega
  have dnV : downD m s G ML = true → V < cf * D := by
    intro h
    subst hG hML
    cases m <;> cases s <;> simp only [downD, Bool.not_true, Bool.not_false, Bool.false_and, Bool.true_and, Bool.or_eq_true,
      decide_eq_true_eq, Bool.false_eq_true] at h <;> omega
  have hup : upD m s L MG = true → cf < P34 := by
    intro h
    have := upV h
    by_contra hcon
    have := hcarry (by omega)
    omega
  have hpos : upD m s L MG = false → downD m s G ML = true → 0 < cf := by
    intro _ h
    have := dnV h
    exact Nat.pos_of_ne_zero (fun h0 => by rw [h0, Nat.zero_mul] at this; omega)
  obtain ⟨v1, v2, v3, v4, v5⟩ := step_value (upD m s L MG) (downD m s G ML) cf ef hcf hup hpos
    (fun _ h => hlow (dnV h)) hef1
  have v6 := step_carry (upD m s L MG) (downD m s G ML) cf ef hcf hup (fun _ h => hlow (dnV h)) hef1
  have hd1 : (deliver cf ef).1 < P34 := by unfold deliver; split <;> simp only [] <;> omega
  have hd2 : -6176 ≤ (deliver cf ef).2 ∧ (deliver cf ef).2 < 26592 := by unfold deliver; split <;> simp only [] <;> omega
  have hpos' : upD m (negW res.w1.toNat) L MG = false → downD m (negW res.w1.toNat) G ML = true → 0 < (deliver cf ef).1 := by
    rw [hs]
    intro a b
    have := hpos a b
    unfold deliver; split <;> simp only [] <;> omega
  have hev := correction_eval m L G ML MG e res f _ _ he hd2.1 hd2.2 hc hd1 hpos'
  rw [hs, outW_eq, hs] at hev
  -- the stepped pair is the delivered rounding
  generalize hc2 : (stepC (upD m s L MG) (downD m s G ML) (deliver cf ef).1 (deliver cf ef).2).1 = c2 at *
  generalize he2 : (stepC (upD m s L MG) (downD m s G ML) (deliver cf ef).1 (deliver cf ef).2).2.1 = e2 at *
  generalize huf : (stepC (upD m s L MG) (downD m s G ML) (deliver cf ef).1 (deliver cf ef).2).2.2 = uf at *
  have hspec := roundInt_spec (modeOf m) s (V / D) (V % D) D (Nat.mod_lt _ hD)
  rw [Nat.div_add_mod'] at hspec
  have hM : c2 * 10 ^ (e2 - ef).toNat = roundInt (modeOf m) s (V / D) (V % D) D := by
    refine RoundedInt_unique _ _ _ _ _ _ hD ?_ hspec
    rw [v1, ← corrI_eq]; exact htab
  generalize roundInt (modeOf m) s (V / D) (V % D) D = M at *
  have hdl : dlv M ef = (c2, e2) := by
    unfold dlv
    by_cases hee : e2 = ef
    · rw [hee, Int.sub_self] at hM
      have : c2 = M := by simpa using hM
      have hne' : ¬ M = P34 := by omega
      rw [if_neg hne', if_neg hne', this, hee]
    · have hee' : e2 = ef + 1 := by omega
      have hc33 := v6 hee'
      rw [hee', show ef + 1 - ef = 1 by omega] at hM
      have : M = P34 := by rw [← hM, hc33]; rfl
      rw [if_pos this, if_pos this, hc33, hee']
  rw [hdl]
  refine ⟨uf, hev, ?_⟩
  rw [v5, corrI_eq]
  unfold corrOf
  constructor
  · rintro ⟨a, b, c⟩; rw [a, b]; simp [c]
  · rintro ⟨a, c⟩
    refine ⟨?_, ?_, c⟩
    · by_contra hcon
      rw [if_pos (by simpa using hcon)] at a; omega
    · by_contra hcon
      have hu : upD m s L MG = false := by
        by_contra hcon2
        rw [if_pos (by simpa using hcon2)] at a; omega
      rw [hu] at a
      simp only [Bool.false_eq_true, if_false] at a
      rw [if_neg hcon] at a; omega


open Dec.RH (Ind)
open Dec.C02GenCorrection

/-! ## 6. The final stage, on numbers -/

theorem roundInt_zero (mode : Mode) (s : Bool) (a D : Nat) : roundInt mode s a 0 D = a := by
  simp [roundInt, roundUp]

/-- **the result of the routine is `finish`**: `cf` the nearest-even rounding of `V/D` (`D = 10^(ef − m)`) at an exponent `ef`
that is the least possible one (or the preferred one `m`), `M` the rounding in the mode asked for -/
theorem final_math (mode : Mode) (s : Bool) (V : Nat) (m ef : Int) (cf : Nat) (flv : Ind) (hV : 0 < V) (hm : m ≤ ef)
    (hef : eMin ≤ ef) (hmx : m ≤ eMax) (hNE : NE V (10 ^ (ef - m).toNat) cf flv)
    (h34 : V ≤ P34 * 10 ^ (ef - m).toNat)
    (h5 : ef = eMin ∨ ef = m ∨ P33 * 10 ^ (ef - m).toNat ≤ V) :
    finish mode s V 1 m m =
      if eMax < (dlv (roundInt mode s (V / 10 ^ (ef - m).toNat) (V % 10 ^ (ef - m).toNat) (10 ^ (ef - m).toNat)) ef).2 then
        (overflowResult mode s, fOverflow ||| fInexact)
      else (.fin s (dlv (roundInt mode s (V / 10 ^ (ef - m).toNat) (V % 10 ^ (ef - m).toNat) (10 ^ (ef - m).toNat)) ef).1
              (dlv (roundInt mode s (V / 10 ^ (ef - m).toNat) (V % 10 ^ (ef - m).toNat) (10 ^ (ef - m).toNat)) ef).2,
            if anyF flv = true then (if V < P33 * 10 ^ (ef - m).toNat then fUnderflow ||| fInexact else fInexact) else 0) := by
  have e34 : P34 = 10000000000000000000000000000000000 := rfl
  have e33 : P33 = 1000000000000000000000000000000000 := rfl
  have hMax : eMax = 6111 := rfl
  have hMin : eMin = -6176 := rfl
  have hD : 0 < 10 ^ (ef - m).toNat := Nat.pow_pos (by decide)
  have hex := hNE.toPos.exact_iff hD
  by_cases hr : V % 10 ^ (ef - m).toNat = 0
  · -- exact
    have hq : V = V / 10 ^ (ef - m).toNat * 10 ^ (ef - m).toNat := by
      have := Nat.div_add_mod' V (10 ^ (ef - m).toNat); omega
    have hcf : V / 10 ^ (ef - m).toNat = cf := by
      have h1 := roundInt_spec .rne s (V / 10 ^ (ef - m).toNat) 0 (10 ^ (ef - m).toNat) hD
      rw [roundInt_zero, Nat.add_zero, ← hq] at h1
      exact RoundedInt_unique _ _ _ _ _ _ hD h1 (hNE.rounded s)
    have hany : anyF flv = false := hex.2 (by rw [← hcf]; exact hq)
    rw [hr, roundInt_zero, hcf, hany]
    rw [hcf] at hq
    generalize hDD : 10 ^ (ef - m).toNat = D at *
    have hcf34 : cf ≤ P34 := by
      by_contra hc
      have : (P34 + 1) * D ≤ cf * D := Nat.mul_le_mul_right D (by omega)
      rw [Nat.add_mul, Nat.one_mul] at this
      omega
    have hcfpos : 0 < cf := Nat.pos_of_ne_zero (fun h0 => by rw [h0, Nat.zero_mul] at hq; omega)
    have hcf33 : ef = eMin ∨ ef = m ∨ P33 ≤ cf := by
      rcases h5 with h | h | h
      · exact Or.inl h
      · exact Or.inr (Or.inl h)
      · right; right
        rw [hq] at h
        exact Nat.le_of_mul_le_mul_right h hD
    simp only [Bool.false_eq_true, if_false]
    unfold dlv
    by_cases hc : cf = P34
    · simp only [hc, if_true]
      have hval : P33 * 10 ^ (ef + 1 - m).toNat = V := by
        rw [show (ef + 1 - m).toNat = (ef - m).toNat + 1 by omega, Nat.pow_succ, hDD, hq, hc, e33, e34]; ring
      by_cases ho : eMax < ef + 1
      · rw [if_pos ho]
        refine finish_exact_ovf mode s V m m hV ?_ hmx
        rw [← hval]
        have : 10 ^ (ef + 1 - m).toNat = 10 ^ (eMax - m).toNat * 10 ^ (ef + 1 - eMax).toNat := by
          rw [← Nat.pow_add]; congr 1; omega
        rw [this, show (ef + 1 - eMax).toNat = (ef + 1 - eMax).toNat - 1 + 1 by omega, Nat.pow_succ, e33, e34]
        have hp : 0 < 10 ^ ((ef + 1 - eMax).toNat - 1) := Nat.pow_pos (by decide)
        generalize 10 ^ ((ef + 1 - eMax).toNat - 1) = p at *
        generalize 10 ^ (eMax - m).toNat = w at *
        calc 10000000000000000000000000000000000 * w = 1000000000000000000000000000000000 * (w * (1 * 10)) := by ring
          _ ≤ 1000000000000000000000000000000000 * (w * (p * 10)) :=
              Nat.mul_le_mul_left _ (Nat.mul_le_mul_left _ (Nat.mul_le_mul_right _ hp))
      · rw [if_neg ho]
        exact finish_exact' mode s V m hV P33 (ef + 1) (by omega) hval ⟨by decide, by omega, by omega⟩
          (Or.inr (Or.inl (by decide)))
    · simp only [hc, if_false]
      have hval : cf * 10 ^ (ef - m).toNat = V := by rw [hDD]; exact hq.symm
      by_cases ho : eMax < ef
      · rw [if_pos ho]
        refine finish_exact_ovf mode s V m m hV ?_ hmx
        have hc33 : P33 ≤ cf := by
          rcases hcf33 with h | h | h
          · omega
          · omega
          · exact h
        rw [hq, ← hDD]
        have : 10 ^ (ef - m).toNat = 10 ^ (eMax - m).toNat * 10 ^ (ef - eMax).toNat := by
          rw [← Nat.pow_add]; congr 1; omega
        rw [this, show (ef - eMax).toNat = (ef - eMax).toNat - 1 + 1 by omega, Nat.pow_succ, e34]
        have hp : 0 < 10 ^ ((ef - eMax).toNat - 1) := Nat.pow_pos (by decide)
        generalize 10 ^ ((ef - eMax).toNat - 1) = p at *
        generalize 10 ^ (eMax - m).toNat = w at *
        calc 10000000000000000000000000000000000 * w = 1000000000000000000000000000000000 * (w * (1 * 10)) := by ring
          _ ≤ cf * (w * (p * 10)) := Nat.mul_le_mul (by omega) (Nat.mul_le_mul_left _ (Nat.mul_le_mul_right _ hp))
      · rw [if_neg ho]
        refine finish_exact' mode s V m hV cf ef hm hval ⟨by omega, hef, by omega⟩ ?_
        rcases hcf33 with h | h | h
        · exact Or.inr (Or.inr h)
        · exact Or.inl h
        · right; left; omega
  · -- inexact
    have hany : anyF flv = true := by
      cases ha : anyF flv
      · have := hex.1 ha
        rw [this, Nat.mul_mod_left] at hr
        exact absurd rfl hr
      · rfl
    have hlt : V < P34 * 10 ^ (ef - m).toNat := by
      rcases Nat.lt_or_ge V (P34 * 10 ^ (ef - m).toNat) with h | h
      · exact h
      · have : V = P34 * 10 ^ (ef - m).toNat := by omega
        rw [this, Nat.mul_mod_left] at hr
        exact absurd rfl hr
    have hleast : ef = eMin ∨ P33 * 10 ^ (ef - m).toNat ≤ V := by
      rcases h5 with h | h | h
      · exact Or.inl h
      · rw [h, Int.sub_self] at hr
        exact absurd (Nat.mod_one V) hr
      · exact Or.inr h
    rw [finish_inexact mode s V m ef m hV hm hef hlt hleast hr, hany]
    unfold deliverOut dlv
    simp only [if_true, decide_eq_true_eq]


example : dlv P34 5 = (P33, 6) ∧ dlv 123 5 = (123, 5) := by decide


open Dec.RH (Ind)
open Dec.Rs Dec.Gen.Code

/-! ## 7. The pieces of the code, evaluated -/

/-- the final stage without the loop bookkeeping -/
def finalN (rnd_mode : RoundingMode) (pfpsf : UInt32) (res : U128) (z_sign : UInt64) (e3 : Int32)
    (ML MG L G is_tiny : Bool) : Except String (U128 × UInt32) :=
  let pf1 : UInt32 := if (((L || G) || ML) || MG) = true then
      (if is_tiny = true then (pfpsf ||| c_StatusFlags_BID_INEXACT_EXCEPTION) ||| c_StatusFlags_BID_UNDERFLOW_EXCEPTION
       else pfpsf ||| c_StatusFlags_BID_INEXACT_EXCEPTION) else pfpsf
  let b : Bool := (res.w1 == (0x1ed09bead87c0 : UInt64)) && (res.w0 == (0x378d8e6400000000 : UInt64))
  let r1 : U128 := if b = true then ⟨0x38c15b0a00000000, 0x314dc6448d93⟩ else res
  let e1 : Int32 := if b = true then e3 + 1 else e3
  let r2 : U128 := ⟨r1.w0, r1.w1 ||| (z_sign ||| ((UInt64.ofInt (toI (e1 + (0x1820 : Int32)))) <<< 0x31))⟩
  if (rnd_mode == RoundingMode.NearestEven) = true then
    (if decide (e1 > c_EXP_MAX_UNBIASED) = true then
      .ok (⟨0, z_sign ||| (0x7800000000000000 : UInt64)⟩,
           pf1 ||| (c_StatusFlags_BID_INEXACT_EXCEPTION ||| c_StatusFlags_BID_OVERFLOW_EXCEPTION))
     else .ok (r2, pf1))
  else bid_rounding_correction rnd_mode L G ML MG e1 r2 pf1

theorem finalK_eq (p1 p2 p3 p4 : Bool) (rnd_mode : RoundingMode) (pfpsf : UInt32) (res : U128) (z_sign : UInt64)
    (e3 scale ind x0 : Int32) (ML MG L G ML0 MG0 L0 G0 incr_exp lsb is_tiny : Bool) (R64 tmp64 : UInt64)
    (P128 R128 : U128) (P192 R192 : U192) (R256 : U256) :
    finalK p1 p2 p3 p4 rnd_mode pfpsf res z_sign e3 scale ind x0 ML MG L G ML0 MG0 L0 G0 incr_exp lsb is_tiny R64 tmp64
        P128 R128 P192 R192 R256 =
      (finalN rnd_mode pfpsf res z_sign e3 ML MG L G is_tiny).bind (fun t =>
        .ok (ForInStep.done (some (t.1, ML, MG, L, G, t.2),
          (ML, MG, L, G, t.2, t.1, z_sign,
            (if ((res.w1 == (0x1ed09bead87c0 : UInt64)) && (res.w0 == (0x378d8e6400000000 : UInt64))) = true then e3 + 1 else e3),
            scale, ind, x0, ML, MG, L, G, ML0, MG0, L0, G0, incr_exp, lsb, is_tiny, R64, tmp64, P128, R128, P192, R192,
            R256)))) := by
  unfold finalK finalN
  dsimp only
  generalize (((L || G) || ML) || MG) = a
  generalize ((res.w1 == (0x1ed09bead87c0 : UInt64)) && (res.w0 == (0x378d8e6400000000 : UInt64))) = b
  cases b
  · simp only [Bool.false_eq_true, if_false]
    generalize decide (e3 > c_EXP_MAX_UNBIASED) = d0
    cases rnd_mode <;> cases a <;> cases is_tiny <;> cases d0 <;> rfl
  · simp only [if_true]
    generalize decide (e3 + 1 > c_EXP_MAX_UNBIASED) = d1
    cases rnd_mode <;> cases a <;> cases is_tiny <;> cases d1 <;> rfl


-- the final stage on 10^34 (from a carry), exponent 0, toward zero, "value below": 9999999999999999999999999999999999e0
example : finalN .TowardZero 0 ⟨0x378d8e6400000000, 0x1ed09bead87c0⟩ 0 0 false false false true false =
    .ok (⟨0x378d8e63ffffffff, 0x3041ed09bead87c0⟩, 0x20) := by decide +kernel


open Dec.RH (Ind)
open Dec.Rs Dec.Gen.Code
open Dec.C02GenCorrection
open Dec.C03GenCompare (sigW negW val128 bitsOf)

/-- the test for `10^34` -/
theorem p34_test (res : U128) :
    ((res.w1 == (0x1ed09bead87c0 : UInt64)) && (res.w0 == (0x378d8e6400000000 : UInt64))) = decide (val128 res = P34) := by
  have e34 : P34 = 0x1ed09bead87c0 * 2^64 + 0x378d8e6400000000 := by decide
  have h0 := res.w0.toNat_lt
  rw [Bool.eq_iff_iff, Bool.and_eq_true, beq_iff_eq, beq_iff_eq, decide_eq_true_eq, ← UInt64.toNat_inj, ← UInt64.toNat_inj]
  unfold val128
  rw [e34]
  show res.w1.toNat = 0x1ed09bead87c0 ∧ res.w0.toNat = 0x378d8e6400000000 ↔ _
  omega

theorem val128_p33 : val128 (⟨0x38c15b0a00000000, 0x314dc6448d93⟩ : U128) = P33 := by decide

/-- **packing** as the block does it: coefficient words, sign word and exponent field or-ed together -/
theorem pack_word (r1 : U128) (zs : UInt64) (e1 : Int32) (S : Nat) (ed : Int) (cd : Nat) (hS : S ≤ 1)
    (hzs : zs.toNat = S * 2^63) (he1 : e1.toInt = ed) (h1 : -6176 ≤ ed) (h2 : ed ≤ 10207) (hcd : val128 r1 = cd)
    (hlt : cd < 2^113) :
    (⟨r1.w0, r1.w1 ||| (zs ||| ((UInt64.ofInt (toI (e1 + (0x1820 : Int32)))) <<< 0x31))⟩ : U128) =
      Dec.C17GenNext.ofBits (S * 2^127 + (ed + 6176).toNat * 2^113 + cd) := by
  have hx := expField e1 ed he1 h1 (by omega)
  have hE : (ed + 6176).toNat < 2^14 := by omega
  generalize (ed + 6176).toNat = E at *
  generalize ((UInt64.ofInt (toI (e1 + (0x1820 : Int32)))) <<< 0x31) = xe at *
  rw [← Dec.C17GenNext.pack_bits zs xe r1.w1 r1.w0 S E cd hzs hS hx hE hcd hlt]
  congr 1
  rw [UInt64.or_comm, UInt64.or_assoc]

theorem ofBits_words (n : Nat) (h : n < 2^128) :
    (Dec.C17GenNext.ofBits n).w1.toNat = n / 2^64 ∧ (Dec.C17GenNext.ofBits n).w0.toNat = n % 2^64 := by
  have := Dec.C06GenFromInt.bitsOf_ofBits h
  have h0 := (Dec.C17GenNext.ofBits n).w0.toNat_lt
  change (Dec.C17GenNext.ofBits n).w1.toNat * 2^64 + (Dec.C17GenNext.ofBits n).w0.toNat = n at this
  omega

/-- what `bid_rounding_correction` reads in the packed word: coefficient and sign -/
theorem pack_fields (S E cd : Nat) (hS : S ≤ 1) (hE : E < 2^14) (hlt : cd < 2^113) :
    sigW (Dec.C17GenNext.ofBits (S * 2^127 + E * 2^113 + cd)).w1.toNat (Dec.C17GenNext.ofBits (S * 2^127 + E * 2^113 + cd)).w0.toNat = cd ∧
    negW (Dec.C17GenNext.ofBits (S * 2^127 + E * 2^113 + cd)).w1.toNat = decide (S = 1) := by
  obtain ⟨a, b⟩ := ofBits_words (S * 2^127 + E * 2^113 + cd) (by omega)
  rw [a, b]
  unfold sigW negW
  refine ⟨by omega, ?_⟩
  rw [decide_eq_decide]; omega


/-! ### the final stage -/

/-- what the final stage needs to know: the state `(c, Ec)` with indicators `ML MG L G`, seen — possibly one decade lower
(`cf = 10^34` at `ef = Ec − 1` when the code holds `10^33` from a carry) — as the nearest-even rounding `cf` of `V/10^(ef−m)` at
an exponent `ef` that is the least possible one or the preferred one; the indicators agree up to the exchange of the two
"value below" ones; `is_tiny` is right when it matters -/
def FinalPre (V : Nat) (m : Int) (c : Nat) (Ec : Int) (ML MG L G tiny : Bool) : Prop :=
  ∃ (cf : Nat) (ef : Int) (flv : Ind),
    m ≤ ef ∧ eMin ≤ ef ∧ ef ≤ 6300 ∧ NE V (10 ^ (ef - m).toNat) cf flv ∧ V ≤ P34 * 10 ^ (ef - m).toNat ∧
    (ef = eMin ∨ ef = m ∨ P33 * 10 ^ (ef - m).toNat ≤ V) ∧
    c ≤ P34 ∧ deliver c Ec = deliver cf ef ∧ L = flv.inexLtMid ∧ MG = flv.midGtEven ∧
    ((G = flv.inexGtMid ∧ ML = flv.midLtEven) ∨ (G = flv.midLtEven ∧ ML = flv.inexGtMid)) ∧
    (anyF flv = true → (tiny = true ↔ V < P33 * 10 ^ (ef - m).toNat))

theorem dlv_deliver (M : Nat) (ef : Int) : dlv M ef = deliver M ef := by
  unfold dlv deliver; split <;> rfl

theorem flag_or1 (pf : UInt32) : (pf ||| 0x20) ||| 0x28 = pf ||| 0x28 := by
  rw [UInt32.or_assoc]; rfl
theorem flag_or2 (pf : UInt32) : (pf ||| 0x20) ||| 0x10 = pf ||| 0x30 := by
  rw [UInt32.or_assoc]; rfl
theorem flag_or3 (pf : UInt32) : (pf ||| 0x20) ||| 0x20 = pf ||| 0x20 := by
  rw [UInt32.or_assoc]; rfl
theorem flag_or4 (pf : UInt32) : (pf ||| 0x30) ||| 0x20 = pf ||| 0x30 := by
  rw [UInt32.or_assoc]; rfl
theorem flag_or5 (pf : UInt32) : (pf ||| 0x30) ||| 0x10 = pf ||| 0x30 := by
  rw [UInt32.or_assoc]; rfl

theorem inf_word (zs : UInt64) (s : Bool) (hzs : zs.toNat = (if s = true then 1 else 0) * 2^63) :
    (⟨0, zs ||| (0x7800000000000000 : UInt64)⟩ : U128) = Dec.C17GenNext.ofBits (encode (.inf s)) := by
  apply Dec.C17GenNext.eq_ofBits
  unfold Dec.C03GenCompare.bitsOf
  simp only [UInt64.toNat_or, hzs]
  cases s
  · simp only [Bool.false_eq_true, if_false, Nat.zero_mul, Nat.zero_or]; decide
  · simp only [if_true, Nat.one_mul]; decide


open Dec.RH (Ind)
open Dec.Rs Dec.Gen.Code
open Dec.C02GenCorrection
open Dec.C03GenCompare (sigW negW val128 bitsOf)

theorem cf_le_P34 {V D cf : Nat} {fl : Ind} (h : NE V D cf fl) (hD : 0 < D) (h34 : V ≤ P34 * D) : cf ≤ P34 := by
  by_contra hc
  have : (P34 + 1) * D ≤ cf * D := Nat.mul_le_mul_right D (by omega)
  rw [Nat.add_mul, Nat.one_mul] at this
  have := h.near.2
  omega

/-- a correction downwards means that the exact value is below the delivered one -/
theorem corr_neg_lt {V D cf : Nat} {fl : Ind} (h : NE V D cf fl) (hD : 0 < D) (rm : RoundingMode) (s : Bool)
    (hc : corrI rm s fl.inexLtMid fl.inexGtMid fl.midLtEven fl.midGtEven = -1) : V < cf * D := by
  unfold corrI at hc
  split at hc
  · omega
  · split at hc
    · rename_i hd
      have : fl.inexGtMid = true ∨ fl.midLtEven = true := by
        cases rm <;> cases s <;> simp only [downD, Bool.not_true, Bool.not_false, Bool.false_and, Bool.true_and, Bool.or_eq_true,
          Bool.false_eq_true] at hd <;> tauto
      rcases this with g | g
      · exact (h.G.1 g).1
      · have := h.ML.1 g; have := h.near; omega
    · omega

set_option maxHeartbeats 1000000 in
/-- **the final stage**: flags, `10^34 → 10^33`, packing, overflow (nearest-even) or `bid_rounding_correction` (other modes)
deliver exactly what the specification's `finish` says for the exact value `V·10^m` with preferred exponent `m` -/
theorem finalN_spec (rm : RoundingMode) (pf : UInt32) (res : U128) (zs : UInt64) (e3 : Int32) (ML MG L G tiny : Bool)
    (s : Bool) (V : Nat) (m : Int) (c : Nat) (Ec : Int)
    (hres : val128 res = c) (he3 : e3.toInt = Ec) (hzs : zs.toNat = (if s = true then 1 else 0) * 2^63)
    (hV : 0 < V) (hmx : m ≤ eMax) (hEc : -6176 ≤ Ec ∧ Ec ≤ 6300)
    (hpre : FinalPre V m c Ec ML MG L G tiny) :
    finalN rm pf res zs e3 ML MG L G tiny =
      .ok (Dec.C17GenNext.ofBits (encode (finish (modeOf rm) s V 1 m m).1),
           pf ||| UInt32.ofNat (finish (modeOf rm) s V 1 m m).2) := by
  have e34 : P34 = 10000000000000000000000000000000000 := rfl
  have e33 : P33 = 1000000000000000000000000000000000 := rfl
  have hMax : eMax = 6111 := rfl
  have hMin : eMin = -6176 := rfl
  obtain ⟨cf, ef, flv, hm, hef, hef2, hNE, h34, h5, hc34, hdel, hL, hMG, hGML, htiny⟩ := hpre
  have hD : 0 < 10 ^ (ef - m).toNat := Nat.pow_pos (by decide)
  have hfin := final_math (modeOf rm) s V m ef cf flv hV hm hef hmx hNE h34 h5
  have hcf34 := cf_le_P34 hNE hD h34
  -- the code's coefficient and exponent after the `10^34` test
  unfold finalN
  simp only []
  rw [p34_test, hres]
  have hr1 : val128 (if decide (c = P34) = true then (⟨0x38c15b0a00000000, 0x314dc6448d93⟩ : U128) else res) = (deliver cf ef).1 := by
    rw [← hdel]; unfold deliver
    by_cases h : c = P34
    · rw [if_pos (by simpa using h), if_pos h]; exact val128_p33
    · rw [if_neg (by simpa using h), if_neg h]; exact hres
  have he1 : (if decide (c = P34) = true then e3 + 1 else e3).toInt = (deliver cf ef).2 := by
    rw [← hdel]; unfold deliver
    by_cases h : c = P34
    · rw [if_pos (by simpa using h), if_pos h]; exact i32_add1 e3 Ec he3 (by omega) (by omega)
    · rw [if_neg (by simpa using h), if_neg h]; exact he3
  generalize (if decide (c = P34) = true then (⟨0x38c15b0a00000000, 0x314dc6448d93⟩ : U128) else res) = r1 at *
  generalize (if decide (c = P34) = true then e3 + 1 else e3) = e1 at *
  have hd1 : (deliver cf ef).1 < P34 := by unfold deliver; split <;> simp only [] <;> omega
  have hd2 : ef ≤ (deliver cf ef).2 ∧ (deliver cf ef).2 ≤ ef + 1 := by unfold deliver; split <;> simp only [] <;> omega
  -- the packed word
  have hS : (if s = true then 1 else 0) ≤ 1 := by split <;> omega
  have hpk := pack_word r1 zs e1 (if s = true then 1 else 0) (deliver cf ef).2 (deliver cf ef).1 hS hzs he1 (by omega) (by omega)
    hr1 (by omega)
  rw [hpk]
  obtain ⟨hsig, hneg⟩ := pack_fields (if s = true then 1 else 0) ((deliver cf ef).2 + 6176).toNat (deliver cf ef).1 hS (by omega)
    (by omega)
  have hneg' : negW (Dec.C17GenNext.ofBits ((if s = true then 1 else 0) * 2^127 + ((deliver cf ef).2 + 6176).toNat * 2^113 + (deliver cf ef).1)).w1.toNat = s := by
    rw [hneg]; cases s <;> rfl
  -- the indicators
  have hany : (((L || G) || ML) || MG) = anyF flv := by
    unfold anyF
    rcases hGML with ⟨a, b⟩ | ⟨a, b⟩ <;> rw [hL, hMG, a, b] <;>
      cases flv.inexLtMid <;> cases flv.inexGtMid <;> cases flv.midLtEven <;> cases flv.midGtEven <;> rfl
  rw [hany]
  -- the value of `is_tiny`, when it matters
  have hpf1 : (if anyF flv = true then (if tiny = true then (pf ||| c_StatusFlags_BID_INEXACT_EXCEPTION) ||| c_StatusFlags_BID_UNDERFLOW_EXCEPTION
      else pf ||| c_StatusFlags_BID_INEXACT_EXCEPTION) else pf) =
      (if anyF flv = true then (if V < P33 * 10 ^ (ef - m).toNat then pf ||| 0x30 else pf ||| 0x20) else pf) := by
    by_cases ha : anyF flv = true
    · rw [if_pos ha, if_pos ha]
      have := htiny ha
      by_cases ht : tiny = true
      · rw [if_pos ht, if_pos (this.1 ht)]; exact flag_or2 pf
      · rw [if_neg ht, if_neg (fun h => ht (this.2 h))]; rfl
    · rw [if_neg ha, if_neg ha]
  rw [hpf1]
  clear hpf1
  have hexm : ef = m → anyF flv = false := by
    intro h
    rw [(hNE.toPos.exact_iff hD)]
    have := hNE.near
    rw [h, Int.sub_self] at this ⊢
    simp only [Int.toNat_zero, Nat.pow_zero, Nat.mul_one] at this ⊢
    omega
  generalize hDD : 10 ^ (ef - m).toNat = D at *
  by_cases hrm : rm = RoundingMode.NearestEven
  · -- nearest-even: no correction
    subst hrm
    rw [if_pos (by decide)]
    have hM : roundInt .rne s (V / D) (V % D) D = cf := by
      have h1 := roundInt_spec .rne s (V / D) (V % D) D (Nat.mod_lt _ hD)
      rw [Nat.div_add_mod'] at h1
      exact RoundedInt_unique _ _ _ _ _ _ hD h1 (hNE.rounded s)
    rw [show modeOf RoundingMode.NearestEven = .rne from rfl, hM, dlv_deliver] at hfin
    rw [show modeOf RoundingMode.NearestEven = .rne from rfl, hfin]
    rw [i32_gt, he1, show c_EXP_MAX_UNBIASED.toInt = 6111 from rfl]
    by_cases ho : 6111 < (deliver cf ef).2
    · have ho' : eMax < (deliver cf ef).2 := by omega
      rw [if_pos (by simpa using ho), if_pos ho', inf_word zs s hzs]
      have hfl : (if anyF flv = true then (if V < P33 * D then pf ||| 0x30 else pf ||| 0x20) else pf) |||
          (c_StatusFlags_BID_INEXACT_EXCEPTION ||| c_StatusFlags_BID_OVERFLOW_EXCEPTION) = pf ||| UInt32.ofNat (fOverflow ||| fInexact) := by
        by_cases ha : anyF flv = true
        · have hnt : ¬ (V < P33 * D) := by
            rcases h5 with h | h | h
            · omega
            · rw [hexm h] at ha; exact absurd ha (by decide)
            · omega
          rw [if_pos ha, if_neg hnt]; exact flag_or1 pf
        · rw [if_neg ha]; rfl
      rw [hfl]; rfl
    · have ho' : ¬ eMax < (deliver cf ef).2 := by omega
      rw [if_neg (by simpa using ho), if_neg ho']
      have hw : (if s = true then 1 else 0) * 2^127 + ((deliver cf ef).2 + 6176).toNat * 2^113 + (deliver cf ef).1 =
          encode (.fin s (deliver cf ef).1 (deliver cf ef).2) := by
        unfold encode signBit
        cases s <;> simp
      have hfl : (if anyF flv = true then (if V < P33 * D then pf ||| 0x30 else pf ||| 0x20) else pf) =
          pf ||| UInt32.ofNat (if anyF flv = true then (if V < P33 * D then fUnderflow ||| fInexact else fInexact) else 0) := by
        by_cases ha : anyF flv = true
        · rw [if_pos ha, if_pos ha]
          by_cases ht : V < P33 * D
          · rw [if_pos ht, if_pos ht]; rfl
          · rw [if_neg ht, if_neg ht]; rfl
        · rw [if_neg ha, if_neg ha]; exact (UInt32.or_zero).symm
      rw [hw, hfl]
  · -- the other modes: `bid_rounding_correction`
    rw [if_neg (by cases rm <;> first | exact absurd rfl hrm | decide)]
    generalize hW : Dec.C17GenNext.ofBits ((if s = true then 1 else 0) * 2^127 + ((deliver cf ef).2 + 6176).toNat * 2^113 + (deliver cf ef).1) = W at *
    generalize hpf1 : (if anyF flv = true then (if V < P33 * D then pf ||| 0x30 else pf ||| 0x20) else pf) = pf1
    have hcorr : bid_rounding_correction rm L G ML MG e1 W pf1 =
        bid_rounding_correction rm flv.inexLtMid flv.inexGtMid flv.midLtEven flv.midGtEven e1 W pf1 := by
      rcases hGML with ⟨a, b⟩ | ⟨a, b⟩
      · rw [hL, hMG, a, b]
      · rw [hL, hMG, a, b, correction_swap]
    rw [hcorr]
    have hcarry : cf = P34 → V ≤ cf * D := fun h => by rw [h]; exact h34
    have hlow : V < cf * D → cf = P33 → ef = -6176 := by
      intro h1 h2
      rcases h5 with h | h | h
      · omega
      · have := (hNE.toPos.exact_iff hD).1 (hexm h); omega
      · rw [h2] at h1; omega
    obtain ⟨uf, hcd, huf⟩ := correction_deliver rm flv.inexLtMid flv.inexGtMid flv.midLtEven flv.midGtEven e1 W pf1 V D cf ef hD
      (hNE.rounded _) (b2d _ _ hNE.L) (b2d _ _ hNE.G) (b2d _ _ hNE.ML) (b2d _ _ hNE.MG) hcf34 hcarry hlow (by omega) (by omega)
      hsig he1
    rw [hneg'] at huf
    rw [hcd, hneg', hfin]
    have hanyv : (flv.inexLtMid || flv.inexGtMid || flv.midLtEven || flv.midGtEven) = anyF flv := rfl
    rw [hanyv]
    generalize roundInt (modeOf rm) s (V / D) (V % D) D = M at *
    have hdl2 : ef ≤ (dlv M ef).2 ∧ (dlv M ef).2 ≤ ef + 1 := by unfold dlv; split <;> simp only [] <;> omega
    have hufV : uf = true → V < P33 * D := by
      intro h
      obtain ⟨a, b⟩ := huf.1 h
      have := corr_neg_lt hNE hD rm s a
      rw [b] at this; exact this
    have hufany : uf = true → anyF flv = true := by
      intro h
      have := hufV h
      cases ha : anyF flv
      · have := (hNE.toPos.exact_iff hD).1 ha
        obtain ⟨a, b⟩ := huf.1 h
        rw [b] at this; omega
      · rfl
    by_cases ho : 6111 < (dlv M ef).2
    · have ho' : eMax < (dlv M ef).2 := by omega
      rw [if_pos ho, if_pos ho', ovfDatum_model rm s hrm, decide_eq_true ho]
      have hufF : uf = false := by
        cases hu : uf
        · rfl
        · have := hufV hu
          rcases h5 with h | h | h
          · omega
          · rw [hexm h] at hufany; exact absurd (hufany hu) (by decide)
          · omega
      rw [hufF]
      have hfl : outF (anyF flv) false true pf1 = pf ||| UInt32.ofNat (fOverflow ||| fInexact) := by
        unfold outF
        simp only [Bool.false_eq_true, if_false, if_true]
        rw [← hpf1]
        by_cases ha : anyF flv = true
        · have hnt : ¬ (V < P33 * D) := by
            rcases h5 with h | h | h
            · omega
            · rw [hexm h] at ha; exact absurd ha (by decide)
            · omega
          rw [if_pos ha, if_pos ha, if_neg hnt, flag_or3]; exact flag_or1 pf
        · rw [if_neg ha, if_neg ha]; rfl
      rw [hfl]
    · have ho' : ¬ eMax < (dlv M ef).2 := by omega
      rw [if_neg ho, if_neg ho', decide_eq_false ho]
      have hfl : outF (anyF flv) uf false pf1 =
          pf ||| UInt32.ofNat (if anyF flv = true then (if V < P33 * D then fUnderflow ||| fInexact else fInexact) else 0) := by
        unfold outF
        simp only [Bool.false_eq_true, if_false]
        rw [← hpf1]
        by_cases ha : anyF flv = true
        · rw [if_pos ha, if_pos ha, if_pos ha]
          by_cases ht : V < P33 * D
          · rw [if_pos ht, if_pos ht, flag_or4]
            cases uf
            · rfl
            · exact flag_or5 pf
          · rw [if_neg ht, if_neg ht, flag_or3]
            have : uf = false := by
              cases hu : uf
              · rfl
              · exact absurd (hufV hu) ht
            rw [this]; rfl
        · rw [if_neg ha, if_neg ha, if_neg ha]
          have : uf = false := by
            cases hu : uf
            · rfl
            · exact absurd (hufany hu) ha
          rw [this]; exact (UInt32.or_zero).symm
      rw [hfl]


open Dec.RH (Ind)
open Dec.C02GenCorrection

/-! ## 7. Between the stages: what is known of the state -/

/-- one of the five indicator words -/
def Canon (fl : Ind) : Prop := fl = fE ∨ fl = fL ∨ fl = fG ∨ fl = fML ∨ fl = fMG

/-- the indicators tell on which side of `c` the value `V/D` lies (at most half a unit away); which of the two indicators
of a side is set is not looked at -/
structure Side (V D c : Nat) (fl : Ind) : Prop where
  near : 2 * V ≤ 2 * (c * D) + D ∧ 2 * (c * D) ≤ 2 * V + D
  below : (fl.inexGtMid || fl.midLtEven) = true ↔ V < c * D
  above : (fl.inexLtMid || fl.midGtEven) = true ↔ c * D < V
  canon : Canon fl

theorem Pos.side {V D c : Nat} {fl : Ind} (h : Pos V D c fl) (hD : 0 < D) : Side V D c fl := by
  rcases h.cases hD with ⟨e, r⟩ | ⟨e, r1, r2⟩ | ⟨e, r1, r2⟩ | ⟨e, r⟩ | ⟨e, r⟩ <;> subst e
  · exact ⟨h.near, by simp [fE]; omega, by simp [fE]; omega, Or.inl rfl⟩
  · exact ⟨h.near, by simp [fL]; omega, by simp [fL]; omega, Or.inr (Or.inl rfl)⟩
  · exact ⟨h.near, by simp [fG]; omega, by simp [fG]; omega, Or.inr (Or.inr (Or.inl rfl))⟩
  · exact ⟨h.near, by simp [fML]; omega, by simp [fML]; omega, Or.inr (Or.inr (Or.inr (Or.inl rfl)))⟩
  · exact ⟨h.near, by simp [fMG]; omega, by simp [fMG]; omega, Or.inr (Or.inr (Or.inr (Or.inr rfl)))⟩

/-- the position behind a side statement -/
theorem Side.pos {V D c : Nat} {fl : Ind} (h : Side V D c fl) (hD : 0 < D) :
    ∃ fl', Pos V D c fl' ∧ (fl'.inexGtMid || fl'.midLtEven) = (fl.inexGtMid || fl.midLtEven) ∧
      (fl'.inexLtMid || fl'.midGtEven) = (fl.inexLtMid || fl.midGtEven) ∧
      (fl'.midLtEven || fl'.midGtEven || fl'.inexLtMid || fl'.inexGtMid) = (fl.midLtEven || fl.midGtEven || fl.inexLtMid || fl.inexGtMid) := by
  obtain ⟨⟨n1, n2⟩, hb, ha, hc⟩ := h
  generalize hW : c * D = W at *
  have key : ∀ f : Ind, Pos V D c f → (V < W ↔ (f.inexGtMid || f.midLtEven) = true) → (W < V ↔ (f.inexLtMid || f.midGtEven) = true) →
      (f.inexGtMid || f.midLtEven) = (fl.inexGtMid || fl.midLtEven) ∧ (f.inexLtMid || f.midGtEven) = (fl.inexLtMid || fl.midGtEven) ∧
      (f.midLtEven || f.midGtEven || f.inexLtMid || f.inexGtMid) = (fl.midLtEven || fl.midGtEven || fl.inexLtMid || fl.inexGtMid) := by
    intro f _ h1 h2
    have a1 : (f.inexGtMid || f.midLtEven) = (fl.inexGtMid || fl.midLtEven) := by
      rw [Bool.eq_iff_iff, hb, h1]
    have a2 : (f.inexLtMid || f.midGtEven) = (fl.inexLtMid || fl.midGtEven) := by
      rw [Bool.eq_iff_iff, ha, h2]
    refine ⟨a1, a2, ?_⟩
    revert a1 a2
    cases f.inexGtMid <;> cases f.midLtEven <;> cases f.inexLtMid <;> cases f.midGtEven <;>
      cases fl.inexGtMid <;> cases fl.midLtEven <;> cases fl.inexLtMid <;> cases fl.midGtEven <;> simp
  by_cases h1 : V = W
  · exact ⟨fE, Pos_E (by rw [hW]; exact h1) hD, key fE (Pos_E (by rw [hW]; exact h1) hD) (by simp [fE]; omega) (by simp [fE]; omega)⟩
  by_cases h2 : W < V
  · by_cases h3 : 2 * V = 2 * W + D
    · have p := Pos_MG (V := V) (D := D) (c := c) (by rw [hW]; exact h3) hD
      exact ⟨fMG, p, key fMG p (by simp [fMG]; omega) (by simp [fMG]; omega)⟩
    · have p := Pos_L (V := V) (D := D) (c := c) (by rw [hW]; exact h2) (by rw [hW]; omega)
      exact ⟨fL, p, key fL p (by simp [fL]; omega) (by simp [fL]; omega)⟩
  · by_cases h3 : 2 * V + D = 2 * W
    · have p := Pos_ML (V := V) (D := D) (c := c) (by rw [hW]; exact h3) hD
      exact ⟨fML, p, key fML p (by simp [fML]; omega) (by simp [fML]; omega)⟩
    · have p := Pos_G (V := V) (D := D) (c := c) (by rw [hW]; omega) (by rw [hW]; omega)
      exact ⟨fG, p, key fG p (by simp [fG]; omega) (by simp [fG]; omega)⟩

/-- the repair looks at the first indicators only through the two sides -/
theorem dblFix_sides (c : Nat) (f0 f0' f : Ind)
    (h1 : (f0'.inexGtMid || f0'.midLtEven) = (f0.inexGtMid || f0.midLtEven))
    (h2 : (f0'.inexLtMid || f0'.midGtEven) = (f0.inexLtMid || f0.midGtEven)) :
    dblFix c f0' f = dblFix c f0 f := by
  unfold dblFix; rw [h1, h2]

theorem tailFix_sides (f0 f0' f : Ind)
    (h : (f0'.midLtEven || f0'.midGtEven || f0'.inexLtMid || f0'.inexGtMid) = (f0.midLtEven || f0.midGtEven || f0.inexLtMid || f0.inexGtMid)) :
    tailFix f0' f = tailFix f0 f := by
  unfold tailFix; rw [h]

/-- **two roundings in a row**, knowing of the first only the side -/
theorem dbl_round' (V D c x c2 : Nat) (f0 f : Ind) (hx : 1 ≤ x) (hD : 0 < D) (h0 : Side V D c f0) (h2 : NE c (10 ^ x) c2 f) :
    NE V (D * 10 ^ x) (dblFix c2 f0 f).1 (dblFix c2 f0 f).2 ∧ tailFix f0 (dblFix c2 f0 f).2 = (dblFix c2 f0 f).2 := by
  obtain ⟨f0', p, a1, a2, a3⟩ := h0.pos hD
  have := dbl_round V D c x c2 f0' f hx hD p h2
  rw [dblFix_sides c2 f0 f0' f a1 a2, tailFix_sides f0 f0' _ a3] at this
  exact this


open Dec.RH (Ind)
open Dec.C02GenCorrection

/-- the state after the main stage, below the least exponent -/
structure UPre (V : Nat) (m : Int) (c : Nat) (Ec : Int) (fl : Ind) : Prop where
  hm : m ≤ Ec
  lt : Ec < eMin
  side : Side V (10 ^ (Ec - m).toNat) c fl
  le34 : V ≤ P34 * 10 ^ (Ec - m).toNat
  c34 : c ≤ P34
  dig : 9 * 10 ^ ((eMin - Ec).toNat - 1) ≤ c

theorem dblFix_fst (c : Nat) (f0 f : Ind) :
    (dblFix c f0 f).1 = c ∨ (dblFix c f0 f).1 = c + 1 ∨ (dblFix c f0 f).1 = c - 1 := by
  unfold dblFix; split_ifs <;> simp

theorem dblFix_canon (c : Nat) (f0 f : Ind) (hf : Canon f) (h0 : Canon f0) : Canon (dblFix c f0 f).2 := by
  rcases hf with rfl | rfl | rfl | rfl | rfl <;> rcases h0 with rfl | rfl | rfl | rfl | rfl <;>
    simp [dblFix, Canon, fE, fL, fG, fML, fMG]

theorem NE.canon {V D c : Nat} {fl : Ind} (h : NE V D c fl) (hD : 0 < D) : Canon fl := by
  rcases h.toPos.cases hD with ⟨e, _⟩ | ⟨e, _⟩ | ⟨e, _⟩ | ⟨e, _⟩ | ⟨e, _⟩ <;> simp [Canon, e]

/-- the view of a state at the least exponent is the state itself -/
theorem FinalPre_self (V : Nat) (m : Int) (c : Nat) (fl : Ind) (hm : m ≤ eMin) (hNE : NE V (10 ^ (eMin - m).toNat) c fl)
    (h34 : V ≤ P34 * 10 ^ (eMin - m).toNat) (tiny : Bool)
    (ht : anyF fl = true → (tiny = true ↔ V < P33 * 10 ^ (eMin - m).toNat)) :
    FinalPre V m c eMin fl.midLtEven fl.midGtEven fl.inexLtMid fl.inexGtMid tiny := by
  have hD : 0 < 10 ^ (eMin - m).toNat := Nat.pow_pos (by decide)
  exact ⟨c, eMin, fl, hm, le_refl _, by decide, hNE, h34, Or.inl rfl, cf_le_P34 hNE hD h34, rfl, rfl, rfl,
    Or.inl ⟨rfl, rfl⟩, ht⟩

/-- below the least exponent, the tiny flag is right (when something was discarded) -/
theorem tiny_below {V D' c' : Nat} {fl' : Ind} (hNE : NE V D' c' fl') (hD : 0 < D') (hle : V ≤ P33 * D')
    (ha : anyF fl' = true) : V < P33 * D' := by
  rcases Nat.lt_or_ge V (P33 * D') with h | h
  · exact h
  · exfalso
    have hV : V = P33 * D' := by omega
    have h1 : RoundedInt .rne false V D' P33 := by
      rw [hV]
      have := roundInt_spec .rne false P33 0 D' hD
      rw [roundInt_zero, Nat.add_zero] at this; exact this
    have := RoundedInt_unique _ _ _ _ _ _ hD h1 (hNE.rounded false)
    have h2 := (hNE.toPos.exact_iff hD).2 (by rw [← this]; exact hV)
    rw [h2] at ha; exact absurd ha (by decide)

theorem pow_exp_split (m Ec : Int) (hm : m ≤ Ec) (hlt : Ec < eMin) :
    10 ^ (eMin - m).toNat = 10 ^ (Ec - m).toNat * 10 ^ (eMin - Ec).toNat := by
  rw [← Nat.pow_add]; congr 1; omega

/-- **below the least exponent, regular branch**: the second rounding by `x = emin − Ec` digits, repaired -/
theorem U_round (V : Nat) (m : Int) (c : Nat) (Ec : Int) (fl : Ind) (h : UPre V m c Ec fl) (c2 : Nat) (f2 : Ind)
    (h2 : NE c (10 ^ (eMin - Ec).toNat) c2 f2) :
    FinalPre V m (dblFix c2 fl f2).1 eMin (dblFix c2 fl f2).2.midLtEven (dblFix c2 fl f2).2.midGtEven
      (dblFix c2 fl f2).2.inexLtMid (dblFix c2 fl f2).2.inexGtMid true ∧
    tailFix fl (dblFix c2 fl f2).2 = (dblFix c2 fl f2).2 := by
  have e34 : P34 = 10000000000000000000000000000000000 := rfl
  have e33 : P33 = 1000000000000000000000000000000000 := rfl
  obtain ⟨hm, hlt, hs, h34, hc34, hdig⟩ := h
  have hD : 0 < 10 ^ (Ec - m).toNat := Nat.pow_pos (by decide)
  have hx : 1 ≤ (eMin - Ec).toNat := by omega
  obtain ⟨a, b⟩ := dbl_round' V _ c _ c2 fl f2 hx hD hs h2
  rw [← pow_exp_split m Ec hm hlt] at a
  refine ⟨?_, b⟩
  have hT : 10 ≤ 10 ^ (eMin - Ec).toNat := by
    obtain ⟨j, hj⟩ : ∃ j, (eMin - Ec).toNat = j + 1 := ⟨(eMin - Ec).toNat - 1, by omega⟩
    rw [hj, Nat.pow_succ]; have := Nat.pow_pos (n := j) (show 0 < 10 by decide); omega
  have hle : V ≤ P33 * 10 ^ (eMin - m).toNat := by
    rw [pow_exp_split m Ec hm hlt]
    calc V ≤ P34 * 10 ^ (Ec - m).toNat := h34
      _ = P33 * (10 ^ (Ec - m).toNat * 10) := by rw [e34, e33]; ring
      _ ≤ P33 * (10 ^ (Ec - m).toNat * 10 ^ (eMin - Ec).toNat) := Nat.mul_le_mul_left _ (Nat.mul_le_mul_left _ hT)
  have hD' : 0 < 10 ^ (eMin - m).toNat := Nat.pow_pos (by decide)
  refine FinalPre_self V m _ _ (by omega) a ?_ true ?_
  · calc V ≤ P33 * 10 ^ (eMin - m).toNat := hle
      _ ≤ P34 * 10 ^ (eMin - m).toNat := Nat.mul_le_mul_right _ (by decide)
  · intro ha
    exact ⟨fun _ => tiny_below a hD' hle ha, fun _ => rfl⟩

/-- **below the least exponent, the branch `x0 = ind`**: all digits go, the leading one is a 9: the result is one unit, rounded up -/
theorem U_one (V : Nat) (m : Int) (c : Nat) (Ec : Int) (fl : Ind) (h : UPre V m c Ec fl) (hc : c < 10 ^ (eMin - Ec).toNat) :
    FinalPre V m 1 eMin false false false true true ∧
    dblFix 1 fl fG = (1, fG) ∧ tailFix fl fG = fG := by
  have e34 : P34 = 10000000000000000000000000000000000 := rfl
  have e33 : P33 = 1000000000000000000000000000000000 := rfl
  obtain ⟨hm, hlt, hs, h34, hc34, hdig⟩ := h
  have hD : 0 < 10 ^ (Ec - m).toNat := Nat.pow_pos (by decide)
  have hD' : 0 < 10 ^ (eMin - m).toNat := Nat.pow_pos (by decide)
  obtain ⟨j, hj⟩ : ∃ j, (eMin - Ec).toNat = j + 1 := ⟨(eMin - Ec).toNat - 1, by omega⟩
  rw [hj, Nat.add_sub_cancel] at hdig
  rw [hj, Nat.pow_succ] at hc
  have hp : 0 < 10 ^ j := Nat.pow_pos (by decide)
  have hNE : NE V (10 ^ (eMin - m).toNat) 1 fG := by
    rw [pow_exp_split m Ec hm hlt, hj, Nat.pow_succ]
    obtain ⟨n1, n2⟩ := hs.near
    have e1 : (c + 1) * 10 ^ (Ec - m).toNat ≤ (10 ^ j * 10) * 10 ^ (Ec - m).toNat := Nat.mul_le_mul_right _ (by omega)
    have e2 : (9 * 10 ^ j) * 10 ^ (Ec - m).toNat ≤ c * 10 ^ (Ec - m).toNat := Nat.mul_le_mul_right _ hdig
    rw [Nat.add_mul, Nat.one_mul] at e1
    have e3 : (9 * 10 ^ j) * 10 ^ (Ec - m).toNat = 9 * (10 ^ j * 10 ^ (Ec - m).toNat) := by ring
    have e4 : (10 ^ j * 10) * 10 ^ (Ec - m).toNat = 10 * (10 ^ j * 10 ^ (Ec - m).toNat) := by ring
    have e5 : 1 * (10 ^ (Ec - m).toNat * (10 ^ j * 10)) = 10 * (10 ^ j * 10 ^ (Ec - m).toNat) := by ring
    have e6 : 10 ^ (Ec - m).toNat ≤ 10 ^ j * 10 ^ (Ec - m).toNat := Nat.le_mul_of_pos_left _ hp
    rw [e3] at e2; rw [e4] at e1
    generalize 10 ^ j * 10 ^ (Ec - m).toNat = P at *
    generalize c * 10 ^ (Ec - m).toNat = W at *
    refine NE_G ?_ ?_
    · rw [e5]; omega
    · rw [e5]; omega
  have hle : V ≤ P33 * 10 ^ (eMin - m).toNat := by
    have := hNE.near.1
    have : 1 * 10 ^ (eMin - m).toNat ≤ P33 * 10 ^ (eMin - m).toNat := Nat.mul_le_mul_right _ (by decide)
    have h2 : 2 * 10 ^ (eMin - m).toNat ≤ P33 * 10 ^ (eMin - m).toNat := Nat.mul_le_mul_right _ (by decide)
    omega
  refine ⟨?_, ?_, ?_⟩
  · have := FinalPre_self V m 1 fG (by omega) hNE
      (le_trans hle (Nat.mul_le_mul_right _ (by decide))) true
      (fun ha => ⟨fun _ => tiny_below hNE hD' hle ha, fun _ => rfl⟩)
    exact this
  · rcases hs.canon with rfl | rfl | rfl | rfl | rfl <;> rfl
  · rcases hs.canon with rfl | rfl | rfl | rfl | rfl <;> rfl


/-- the tiny test of the code at the least exponent -/
def tinyAt (c : Nat) (fl : Ind) : Bool := decide (c < P33) || (decide (c = P33) && (fl.inexGtMid || fl.midLtEven))

/-- **at the least exponent**: the state is its own view, and the code's tiny test is right -/
theorem FinalPre_eq (V : Nat) (m : Int) (c : Nat) (fl : Ind) (hm : m ≤ eMin) (hNE : NE V (10 ^ (eMin - m).toNat) c fl)
    (h34 : V ≤ P34 * 10 ^ (eMin - m).toNat) :
    FinalPre V m c eMin fl.midLtEven fl.midGtEven fl.inexLtMid fl.inexGtMid (tinyAt c fl) := by
  refine FinalPre_self V m c fl hm hNE h34 _ (fun _ => ?_)
  have hD : 0 < 10 ^ (eMin - m).toNat := Nat.pow_pos (by decide)
  generalize 10 ^ (eMin - m).toNat = D at *
  obtain ⟨⟨⟨n1, n2⟩, l, g, ml, mg⟩, -⟩ := hNE
  unfold tinyAt
  simp only [Bool.or_eq_true, Bool.and_eq_true, decide_eq_true_eq, g, ml]
  have e1 : c < P33 → (c + 1) * D ≤ P33 * D := fun h => Nat.mul_le_mul_right D h
  have e2 : P33 < c → (P33 + 1) * D ≤ c * D := fun h => Nat.mul_le_mul_right D h
  rw [Nat.add_mul, Nat.one_mul] at e1 e2
  constructor
  · rintro (h | ⟨h, h2⟩)
    · have := e1 h; omega
    · subst h; omega
  · intro h
    by_cases h1 : c < P33
    · exact Or.inl h1
    · right
      have h2 : c = P33 := by
        by_contra hne
        have := e2 (by omega); omega
      refine ⟨h2, ?_⟩
      subst h2; omega

/-- **above the least exponent** nothing is tiny -/
theorem FinalPre_gt (V : Nat) (m : Int) (c : Nat) (Ec : Int) (ML MG L G : Bool)
    (h : ∃ (cf : Nat) (ef : Int) (flv : Ind),
      m ≤ ef ∧ eMin ≤ ef ∧ ef ≤ 6300 ∧ NE V (10 ^ (ef - m).toNat) cf flv ∧ V ≤ P34 * 10 ^ (ef - m).toNat ∧
      (ef = m ∨ P33 * 10 ^ (ef - m).toNat ≤ V) ∧
      c ≤ P34 ∧ deliver c Ec = deliver cf ef ∧ L = flv.inexLtMid ∧ MG = flv.midGtEven ∧
      ((G = flv.inexGtMid ∧ ML = flv.midLtEven) ∨ (G = flv.midLtEven ∧ ML = flv.inexGtMid))) :
    FinalPre V m c Ec ML MG L G false := by
  obtain ⟨cf, ef, flv, h1, h2, h3, h4, h5, h6, h7, h8, h9, h10, h11⟩ := h
  refine ⟨cf, ef, flv, h1, h2, h3, h4, h5, ?_, h7, h8, h9, h10, h11, fun ha => ?_⟩
  · rcases h6 with h | h
    · exact Or.inr (Or.inl h)
    · exact Or.inr (Or.inr h)
  · have hD : 0 < 10 ^ (ef - m).toNat := Nat.pow_pos (by decide)
    constructor
    · intro h; exact absurd h (by decide)
    · intro hlt
      rcases h6 with h | h
      · exfalso
        have := h4.near
        have hex := (h4.toPos.exact_iff hD)
        rw [h, Int.sub_self] at this hex
        simp only [Int.toNat_zero, Nat.pow_zero, Nat.mul_one] at this hex
        have : anyF flv = false := hex.2 (by omega)
        rw [this] at ha; exact absurd ha (by decide)
      · omega


open Dec.RH (Ind)
open Dec.C02GenCorrection

/-! ## 8. After the main stage -/

/-- the code's indicators agree with the true ones, up to the exchange of the two "value below" ones -/
def FlagsSim (fl flv : Ind) : Prop :=
  fl.inexLtMid = flv.inexLtMid ∧ fl.midGtEven = flv.midGtEven ∧
  ((fl.inexGtMid = flv.inexGtMid ∧ fl.midLtEven = flv.midLtEven) ∨ (fl.inexGtMid = flv.midLtEven ∧ fl.midLtEven = flv.inexGtMid))

theorem FlagsSim.refl (fl : Ind) : FlagsSim fl fl := ⟨rfl, rfl, Or.inl ⟨rfl, rfl⟩⟩

/-- what the main stage establishes of the state `(c, Ec)` with indicators `fl` it leaves -/
structure MainOut (V : Nat) (m : Int) (c : Nat) (Ec : Int) (fl : Ind) : Prop where
  lt : Ec < eMin → UPre V m c Ec fl
  eq : Ec = eMin → m ≤ eMin ∧ ∃ flv, NE V (10 ^ (eMin - m).toNat) c flv ∧ FlagsSim fl flv ∧ V ≤ P34 * 10 ^ (eMin - m).toNat
  gt : eMin < Ec → ∃ (cf : Nat) (ef : Int) (flv : Ind),
      m ≤ ef ∧ eMin ≤ ef ∧ ef ≤ 6300 ∧ NE V (10 ^ (ef - m).toNat) cf flv ∧ V ≤ P34 * 10 ^ (ef - m).toNat ∧
      (ef = m ∨ P33 * 10 ^ (ef - m).toNat ≤ V) ∧
      c ≤ P34 ∧ deliver c Ec = deliver cf ef ∧ FlagsSim fl flv

theorem tinyAt_sim (c : Nat) (fl flv : Ind) (h : FlagsSim fl flv) : tinyAt c fl = tinyAt c flv := by
  obtain ⟨-, -, ⟨a, b⟩ | ⟨a, b⟩⟩ := h <;> unfold tinyAt <;> rw [a, b]
  rw [Bool.or_comm flv.midLtEven]

/-- at the least exponent -/
theorem FinalPre_eq' (V : Nat) (m : Int) (c : Nat) (fl flv : Ind) (hm : m ≤ eMin) (hNE : NE V (10 ^ (eMin - m).toNat) c flv)
    (hs : FlagsSim fl flv) (h34 : V ≤ P34 * 10 ^ (eMin - m).toNat) :
    FinalPre V m c eMin fl.midLtEven fl.midGtEven fl.inexLtMid fl.inexGtMid (tinyAt c fl) := by
  obtain ⟨cf, ef, flv', h1, h2, h3, h4, h5, h6, h7, h8, h9, h10, h11, h12⟩ := FinalPre_eq V m c flv hm hNE h34
  rw [tinyAt_sim c fl flv hs]
  refine ⟨cf, ef, flv', h1, h2, h3, h4, h5, h6, h7, h8, ?_, ?_, ?_, h12⟩
  · rw [hs.1]; exact h9
  · rw [hs.2.1]; exact h10
  · obtain ⟨-, -, ⟨a, b⟩ | ⟨a, b⟩⟩ := hs <;> rcases h11 with ⟨p, q⟩ | ⟨p, q⟩ <;> rw [a, b]
    · exact Or.inl ⟨p, q⟩
    · exact Or.inr ⟨p, q⟩
    · exact Or.inr ⟨q, p⟩
    · exact Or.inl ⟨q, p⟩

/-- above the least exponent -/
theorem MainOut.final_gt {V : Nat} {m : Int} {c : Nat} {Ec : Int} {fl : Ind} (h : MainOut V m c Ec fl) (hE : eMin < Ec) :
    FinalPre V m c Ec fl.midLtEven fl.midGtEven fl.inexLtMid fl.inexGtMid false := by
  obtain ⟨cf, ef, flv, h1, h2, h3, h4, h5, h6, h7, h8, hs⟩ := h.gt hE
  refine FinalPre_gt V m c Ec _ _ _ _ ⟨cf, ef, flv, h1, h2, h3, h4, h5, h6, h7, h8, hs.1, hs.2.1, ?_⟩
  exact hs.2.2

theorem MainOut.final_eq {V : Nat} {m : Int} {c : Nat} {Ec : Int} {fl : Ind} (h : MainOut V m c Ec fl) (hE : Ec = eMin) :
    FinalPre V m c Ec fl.midLtEven fl.midGtEven fl.inexLtMid fl.inexGtMid (tinyAt c fl) := by
  obtain ⟨hm, flv, hNE, hs, h34⟩ := h.eq hE
  rw [hE]
  exact FinalPre_eq' V m c fl flv hm hNE hs h34

/-- **from a nearest-even view to the state the code holds**: the view `(cN, EN)` with true indicators `flN`; the code holds
it as it is, or — when `cN = 10^34`, which then lies above the value — as `10^33` with the exponent raised -/
theorem MainOut_of_view (V : Nat) (m : Int) (cN : Nat) (EN : Int) (flN : Ind) (c : Nat) (Ec : Int) (fl : Ind)
    (hm : m ≤ EN) (hNE : NE V (10 ^ (EN - m).toNat) cN flN) (h34 : V ≤ P34 * 10 ^ (EN - m).toNat)
    (hcar : cN = P34 → V < P34 * 10 ^ (EN - m).toNat) (hEN : EN ≤ 6300)
    (hbig : eMin < EN → EN = m ∨ P33 * 10 ^ (EN - m).toNat ≤ V)
    (hcode : (c = cN ∧ Ec = EN) ∨ (cN = P34 ∧ c = P33 ∧ Ec = EN + 1)) (hs : FlagsSim fl flN) (hcan : Canon fl)
    (hdig : Ec < eMin → 9 * 10 ^ ((eMin - Ec).toNat - 1) ≤ c) :
    MainOut V m c Ec fl := by
  have e34 : P34 = 10000000000000000000000000000000000 := rfl
  have e33 : P33 = 1000000000000000000000000000000000 := rfl
  have hMin : eMin = -6176 := rfl
  have hD : 0 < 10 ^ (EN - m).toNat := Nat.pow_pos (by decide)
  have hcN := cf_le_P34 hNE hD h34
  have hside := hNE.toPos.side hD
  have hsim_side : ∀ D' c', Side V D' c' flN → Side V D' c' fl := by
    intro D' c' ⟨n, b, a, cn⟩
    refine ⟨n, ?_, ?_, hcan⟩
    · rw [← b]; obtain ⟨-, -, ⟨p, q⟩ | ⟨p, q⟩⟩ := hs <;> rw [p, q]
      rw [Bool.or_comm]
    · rw [← a, hs.1, hs.2.1]
  rcases hcode with ⟨rfl, rfl⟩ | ⟨hc34, rfl, rfl⟩
  · -- the code holds the view
    refine ⟨fun hlt => ⟨hm, hlt, hsim_side _ _ hside, h34, hcN, hdig hlt⟩, fun he => ?_, fun hgt => ?_⟩
    · subst he; exact ⟨hm, flN, hNE, hs, h34⟩
    · exact ⟨c, Ec, flN, hm, by omega, by omega, hNE, h34, hbig hgt, hcN, rfl, hs⟩
  · -- the code holds `10^33` one exponent higher
    have hlt := hcar hc34
    have hpow : 10 ^ (EN + 1 - m).toNat = 10 ^ (EN - m).toNat * 10 := by
      rw [show (EN + 1 - m).toNat = (EN - m).toNat + 1 by omega, Nat.pow_succ]
    have hflN : flN = fG ∨ flN = fML := by
      rcases hNE.toPos.cases hD with ⟨e, r⟩ | ⟨e, r1, r2⟩ | ⟨e, r1, r2⟩ | ⟨e, r⟩ | ⟨e, r⟩
      · rw [hc34] at r; omega
      · rw [hc34] at r1; omega
      · exact Or.inl e
      · exact Or.inr e
      · rw [hc34] at r; omega
    have hnear := hNE.near
    rw [hc34] at hnear
    have hG10 : NE V (10 ^ (EN + 1 - m).toNat) P33 fG := by
      rw [hpow]
      refine NE_G ?_ ?_
      · rw [e33]; rw [e34] at hlt; generalize 10 ^ (EN - m).toNat = D at *; omega
      · rw [e33]; rw [e34] at hnear; generalize 10 ^ (EN - m).toNat = D at *; omega
    have hsimG : FlagsSim fl fG := by
      rcases hflN with e | e <;> rw [e] at hs
      · exact hs
      · obtain ⟨a, b, ⟨p, q⟩ | ⟨p, q⟩⟩ := hs
        · exact ⟨a, b, Or.inr ⟨by rw [p]; rfl, by rw [q]; rfl⟩⟩
        · exact ⟨a, b, Or.inl ⟨by rw [p]; rfl, by rw [q]; rfl⟩⟩
    have h34' : V ≤ P34 * 10 ^ (EN + 1 - m).toNat := by
      rw [hpow, e34]; rw [e34] at hlt; generalize 10 ^ (EN - m).toNat = D at *; omega
    refine ⟨fun hlt' => ⟨by omega, hlt', hsim_side _ _ ?_, h34', by decide, hdig hlt'⟩, fun he => ?_, fun hgt => ?_⟩
    · -- side of 10^33 on the coarser grid
      have := hG10.toPos.side (Nat.pow_pos (by decide))
      rcases hflN with e | e
      · rw [e]; exact this
      · rw [e]
        exact ⟨this.near, by rw [← this.below]; rfl, by rw [← this.above]; rfl, Or.inr (Or.inr (Or.inr (Or.inl rfl)))⟩
    · refine ⟨by omega, fG, ?_, hsimG, ?_⟩
      · rw [← he]; exact hG10
      · rw [← he]; exact h34'
    · refine ⟨P34, EN, flN, hm, by omega, by omega, by rw [← hc34]; exact hNE, h34, ?_, by decide, ?_, hs⟩
      · right
        rw [e33]; rw [e34] at hnear; generalize 10 ^ (EN - m).toNat = D at *; omega
      · unfold deliver; rw [if_neg (by decide), if_pos rfl]


open Dec.RH (Ind)
open Dec.C02GenCorrection

/-! ## 9. The exits of the main stage -/

/-- what one turn of the loop works with: `A = C3·10^scale` units of `10^E`, `T = 10^x0`, the result unit `10^m` -/
structure Ctx (A T x : Nat) (E m : Int) : Prop where
  hT : T = 10 ^ x
  hm : m + x = E
  hA0 : 0 < A
  hx33 : x = 0 ∨ P33 ≤ A
  hlow : E < eMin → 10 ^ (eMin - E).toNat ≤ A
  hE : E ≤ 6200

theorem Ctx.pow {A T x : Nat} {E m : Int} (h : Ctx A T x E m) : 10 ^ (E - m).toNat = T := by
  rw [h.hT]; congr 1; have := h.hm; omega

theorem lsbFixSame_canon (lsb : Bool) (c : Nat) (fl : Ind) (h : Canon fl) : Canon (lsbFixSame lsb c fl).2 := by
  rcases h with rfl | rfl | rfl | rfl | rfl <;> cases lsb <;> simp [lsbFixSame, Canon, fE, fL, fG, fML, fMG]

theorem lsbFixDiff_canon (lsb : Bool) (c : Nat) (fl : Ind) (h : Canon fl) : Canon (lsbFixDiff lsb c fl).2 := by
  rcases h with rfl | rfl | rfl | rfl | rfl <;> cases lsb <;> simp [lsbFixDiff, Canon, fE, fL, fG, fML, fMG]

theorem pow_le_P33 (k : Nat) (h : 10 ^ k < P34) : k ≤ 33 := by
  by_contra hc
  have : 10 ^ 34 ≤ 10 ^ k := Nat.pow_le_pow_right (by decide) (by omega)
  have e34 : P34 = 10 ^ 34 := by decide
  omega

theorem nine_le_P33 (k : Nat) (h : k ≤ 32) : 9 * 10 ^ k ≤ P33 := by
  have : 10 ^ k ≤ 10 ^ 32 := Nat.pow_le_pow_right (by decide) h
  have e33 : P33 = 10 * 10 ^ 32 := by decide
  omega

theorem nine_le_pow (k : Nat) (h : 1 ≤ k) : 9 * 10 ^ (k - 1) ≤ 10 ^ k := by
  obtain ⟨j, rfl⟩ : ∃ j, k = j + 1 := ⟨k - 1, by omega⟩
  rw [Nat.add_sub_cancel, Nat.pow_succ]; omega

/-- the rounded product is small against `A` when the product itself is -/
theorem R_le_A {A T C4 R : Nat} {fl : Ind} (h1 : NE C4 T R fl) (hT : 0 < T) (hA0 : 0 < A) (hdom : 10 * C4 < A * T) : R ≤ A := by
  by_contra hc
  have : (A + 1) * T ≤ R * T := Nat.mul_le_mul_right T (by omega)
  rw [Nat.add_mul, Nat.one_mul] at this
  have := h1.near.2
  have : T ≤ A * T := Nat.le_mul_of_pos_left T hA0
  omega

theorem lsbFixSame_pos {A T C4 R : Nat} {fl1 : Ind} (h1 : NE C4 T R fl1) (hT0 : 0 < T) (hA0 : 0 < A) (lsb : Bool)
    (hl : lsb = true ↔ A % 2 = 1) : 1 ≤ (lsbFixSame lsb (A + R) fl1).1 := by
  obtain ⟨-, hdis⟩ := lsbFixSame_NE (A := A) h1 hT0 lsb hl
  rcases hdis with h | ⟨h, -⟩ | ⟨h, h2⟩ <;> omega

theorem lsbFixDiff_pos {A T C4 R : Nat} {fl1 : Ind} (h1 : NE C4 T R fl1) (hT0 : 0 < T) (hA0 : 0 < A)
    (hdom : 10 * C4 < A * T) (lsb : Bool) (hl : lsb = true ↔ A % 2 = 1) : 1 ≤ (lsbFixDiff lsb (A - R) fl1).1 := by
  have hRA := R_le_A h1 hT0 hA0 hdom
  have hC : C4 ≤ A * T := by omega
  obtain ⟨hNE, -⟩ := lsbFixDiff_NE h1 hT0 hRA hC lsb hl
  have hTA : T ≤ A * T := Nat.le_mul_of_pos_left T hA0
  have hn := hNE.near
  rcases Nat.eq_zero_or_pos (lsbFixDiff lsb (A - R) fl1).1 with h0 | h0
  · rw [h0, Nat.zero_mul] at hn; omega
  · exact h0

/-- **same signs, the sum has at most 34 digits** -/
theorem exit_same34 {A T x : Nat} {E m : Int} (ctx : Ctx A T x E m) (hA34 : A < P34) (C4 R : Nat) (fl1 : Ind)
    (h1 : NE C4 T R fl1) (lsb : Bool) (hl : lsb = true ↔ A % 2 = 1) (hc1 : A + R ≤ P34 - 1)
    (c : Nat) (Ec : Int)
    (hcode : (c = (lsbFixSame lsb (A + R) fl1).1 ∧ Ec = E) ∨ ((lsbFixSame lsb (A + R) fl1).1 = P34 ∧ c = P33 ∧ Ec = E + 1)) :
    MainOut (A * T + C4) m c Ec (lsbFixSame lsb (A + R) fl1).2 ∧ 1 ≤ (lsbFixSame lsb (A + R) fl1).1 := by
  have e34 : P34 = 10000000000000000000000000000000000 := rfl
  have e33 : P33 = 1000000000000000000000000000000000 := rfl
  have hMin : eMin = -6176 := rfl
  have hT0 : 0 < T := by rw [ctx.hT]; exact Nat.pow_pos (by decide)
  obtain ⟨hNE, hdis⟩ := lsbFixSame_NE (A := A) h1 hT0 lsb hl
  have hcan := lsbFixSame_canon lsb (A + R) fl1 (h1.canon hT0)
  generalize (lsbFixSame lsb (A + R) fl1).1 = c' at *
  generalize (lsbFixSame lsb (A + R) fl1).2 = fl' at *
  have hA0 := ctx.hA0
  have hcpos : 1 ≤ c' := by rcases hdis with h | ⟨h, -⟩ | ⟨h, h2⟩ <;> omega
  refine ⟨?_, hcpos⟩
  have hcA : A ≤ c' := by rcases hdis with h | ⟨h, -⟩ | ⟨h, h2⟩ <;> omega
  have hc34 : c' ≤ P34 := by rcases hdis with h | ⟨h, -⟩ | ⟨h, h2⟩ <;> omega
  have hlt34 : c' = P34 → A * T + C4 < P34 * T := by
    intro h34
    rcases hdis with h | ⟨h, h2⟩ | ⟨h, h2⟩
    · omega
    · rw [← h, h34] at h2; omega
    · omega
  have hpw := ctx.pow
  have hle34 : A * T + C4 ≤ P34 * T := by
    have hn := hNE.near.1
    rcases Nat.lt_or_ge c' P34 with h | h
    · have : (c' + 1) * T ≤ P34 * T := Nat.mul_le_mul_right T h
      rw [Nat.add_mul, Nat.one_mul] at this; omega
    · exact Nat.le_of_lt (hlt34 (by omega))
  have hk33 : E < eMin → (eMin - E).toNat ≤ 33 := fun h => pow_le_P33 _ (Nat.lt_of_le_of_lt (ctx.hlow h) hA34)
  refine MainOut_of_view (A * T + C4) m c' E fl' c Ec fl' (by have := ctx.hm; omega) (by rw [hpw]; exact hNE)
    (by rw [hpw]; exact hle34) (by rw [hpw]; exact hlt34) (by have := ctx.hE; omega) ?_ ?_ (FlagsSim.refl _) hcan ?_
  · intro _
    rcases ctx.hx33 with h | h
    · left; have := ctx.hm; omega
    · right; rw [hpw]
      calc P33 * T ≤ A * T := Nat.mul_le_mul_right T h
        _ ≤ A * T + C4 := Nat.le_add_right _ _
  · rcases hcode with ⟨a, b⟩ | ⟨a, b, c⟩
    · exact Or.inl ⟨a, b⟩
    · exact Or.inr ⟨a, b, c⟩
  · intro hlt
    rcases hcode with ⟨a, b⟩ | ⟨a, b, c⟩
    · subst a b
      have := ctx.hlow hlt
      have := nine_le_pow (eMin - Ec).toNat (by omega)
      omega
    · subst b c
      have := hk33 (by omega)
      exact nine_le_P33 _ (by omega)


theorem nine_lt_P33 (k : Nat) (h : k ≤ 32) : 9 * 10 ^ k ≤ P33 - 1 := by
  have : 10 ^ k ≤ 10 ^ 32 := Nat.pow_le_pow_right (by decide) h
  have e33 : P33 = 10 * 10 ^ 32 := by decide
  have : 0 < 10 ^ 32 := by decide
  omega

/-- **same signs, the sum has 35 digits**: one more digit rounded off, the two roundings repaired -/
theorem exit_same35 {A T x : Nat} {E m : Int} (ctx : Ctx A T x E m) (hA34 : A < P34) (C4 R : Nat) (fl1 : Ind)
    (h1 : NE C4 T R fl1) (hR : R ≤ P34) (hc1 : P34 ≤ A + R) (c2 : Nat) (f2 : Ind) (h2 : NE (A + R) (10 ^ 1) c2 f2) :
    MainOut (A * T + C4) m (dblFix c2 fl1 f2).1 (E + 1) (dblFix c2 fl1 f2).2 ∧
      tailFix fl1 (dblFix c2 fl1 f2).2 = (dblFix c2 fl1 f2).2 := by
  have e34 : P34 = 10000000000000000000000000000000000 := rfl
  have e33 : P33 = 1000000000000000000000000000000000 := rfl
  have hMin : eMin = -6176 := rfl
  have hT0 : 0 < T := by rw [ctx.hT]; exact Nat.pow_pos (by decide)
  have hp := sum_same_pos (A := A) h1.toPos
  obtain ⟨hNE, htail⟩ := dbl_round (A * T + C4) T (A + R) 1 c2 fl1 f2 (le_refl 1) hT0 hp h2
  refine ⟨?_, htail⟩
  have hpw := ctx.pow
  have hpw1 : 10 ^ (E + 1 - m).toNat = T * 10 ^ 1 := by
    rw [show (E + 1 - m).toNat = (E - m).toNat + 1 by have := ctx.hm; omega, Nat.pow_succ, hpw]; rfl
  have hk33 : E < eMin → (eMin - E).toNat ≤ 33 := fun h => pow_le_P33 _ (Nat.lt_of_le_of_lt (ctx.hlow h) hA34)
  have hdis := dblFix_fst c2 fl1 f2
  have hcan := dblFix_canon c2 fl1 f2 (h2.canon (by decide)) (h1.canon hT0)
  have n2 := h2.near
  rw [show (10:Nat) ^ 1 = 10 from rfl] at n2
  have hc2lo : P33 ≤ c2 := by omega
  have hc2hi : c2 ≤ 2 * P33 := by omega
  generalize hV : A * T + C4 = V at *
  by_cases hbig : P34 * T ≤ V
  · -- the state is its own view
    generalize (dblFix c2 fl1 f2).1 = c' at *
    generalize (dblFix c2 fl1 f2).2 = fl' at *
    have hc' : P33 - 1 ≤ c' ∧ c' ≤ 2 * P33 + 1 := by omega
    refine MainOut_of_view V m c' (E + 1) fl' c' (E + 1) fl' (by have := ctx.hm; omega) (by rw [hpw1]; exact hNE) ?_
      (fun h => by omega) (by have := ctx.hE; omega) ?_ (Or.inl ⟨rfl, rfl⟩) (FlagsSim.refl _) hcan ?_
    · rw [hpw1]
      have := hp.near.1
      have : (A + R + 1) * T ≤ (2 * P34) * T := Nat.mul_le_mul_right T (by omega)
      rw [Nat.add_mul _ 1, Nat.one_mul] at this
      have e : P34 * (T * 10 ^ 1) = 10 * (P34 * T) := by ring
      have e2 : 2 * P34 * T = 2 * (P34 * T) := by ring
      rw [e]; rw [e2] at this
      generalize (A + R) * T = W at *
      generalize P34 * T = Q at *
      omega
    · intro _; right
      rw [hpw1]
      have e : P33 * (T * 10 ^ 1) = P34 * T := by rw [e33, e34]; ring
      rw [e]; exact hbig
    · intro hlt
      have := hk33 (by omega)
      have := nine_lt_P33 ((eMin - (E + 1)).toNat - 1) (by omega)
      omega
  · -- the sum is 10^34, above the value: the code holds 10^33, one exponent higher
    have hlt : V < P34 * T := Nat.lt_of_not_le hbig
    have hc1eq : A + R = P34 := by
      by_contra hne
      have : (P34 + 1) * T ≤ (A + R) * T := Nat.mul_le_mul_right T (by omega)
      rw [Nat.add_mul, Nat.one_mul] at this
      have := hp.near.2
      omega
    rw [hc1eq] at h2 hp
    have hc2 : c2 = P33 := by omega
    have hf2 : f2 = fE := by
      rcases h2.toPos.cases (by decide) with ⟨e, r⟩ | ⟨e, r1, r2⟩ | ⟨e, r1, r2⟩ | ⟨e, r⟩ | ⟨e, r⟩ <;>
        first | exact e | (rw [hc2, show (10:Nat)^1 = 10 from rfl] at *; omega)
    have hfl1 : fl1 = fG ∨ fl1 = fML := by
      rcases hp.cases hT0 with ⟨e, r⟩ | ⟨e, r1, r2⟩ | ⟨e, r1, r2⟩ | ⟨e, r⟩ | ⟨e, r⟩
      · omega
      · omega
      · exact Or.inl e
      · exact Or.inr e
      · omega
    have hres : dblFix c2 fl1 f2 = (P33, fG) := by
      rw [hc2, hf2]; rcases hfl1 with e | e <;> rw [e] <;> rfl
    rw [hres]
    refine MainOut_of_view V m P34 E fl1 P33 (E + 1) fG (by have := ctx.hm; omega) ?_ (by rw [hpw]; exact Nat.le_of_lt hlt)
      (fun _ => by rw [hpw]; exact hlt) (by have := ctx.hE; omega) ?_ (Or.inr ⟨rfl, rfl, rfl⟩) ?_
      (Or.inr (Or.inr (Or.inl rfl))) ?_
    · rw [hpw]; exact ⟨hp, fun _ => by decide⟩
    · intro _
      right; rw [hpw]
      have := hp.near.2
      rw [e33]; rw [e34] at this; omega
    · rcases hfl1 with e | e <;> rw [e]
      · exact FlagsSim.refl _
      · exact ⟨rfl, rfl, Or.inr ⟨rfl, rfl⟩⟩
    · intro hlt'
      have := hk33 (by omega)
      exact nine_le_P33 _ (by omega)


/-- **opposite signs, no further turn** -/
theorem exit_diff {A T x : Nat} {E m : Int} (ctx : Ctx A T x E m) (C4 R : Nat) (fl1 : Ind)
    (h1 : NE C4 T R fl1) (hdom : 10 * C4 < A * T) (hV34 : A * T - C4 < P34 * T) (hk : E < eMin → A < P34)
    (lsb : Bool) (hl : lsb = true ↔ A % 2 = 1)
    (hnorep : ¬ (eMin < E ∧ (A - R < P33 ∨ ((fl1.inexLtMid || fl1.midGtEven) = true ∧ A - R = P33)) ∧ 1 ≤ x))
    (c : Nat) (Ec : Int)
    (hcode : (c = (lsbFixDiff lsb (A - R) fl1).1 ∧ Ec = E) ∨ ((lsbFixDiff lsb (A - R) fl1).1 = P34 ∧ c = P33 ∧ Ec = E + 1)) :
    MainOut (A * T - C4) m c Ec (lsbFixDiff lsb (A - R) fl1).2 ∧ 1 ≤ (lsbFixDiff lsb (A - R) fl1).1 := by
  have e34 : P34 = 10000000000000000000000000000000000 := rfl
  have e33 : P33 = 1000000000000000000000000000000000 := rfl
  have hMin : eMin = -6176 := rfl
  have hT0 : 0 < T := by rw [ctx.hT]; exact Nat.pow_pos (by decide)
  have hA0 := ctx.hA0
  have hRA := R_le_A h1 hT0 hA0 hdom
  have hC : C4 ≤ A * T := by omega
  obtain ⟨hNE, hdis⟩ := lsbFixDiff_NE h1 hT0 hRA hC lsb hl
  have hp := sum_diff_pos h1.toPos hRA hC
  have hcan := lsbFixDiff_canon lsb (A - R) fl1 (h1.canon hT0)
  have hTA : T ≤ A * T := Nat.le_mul_of_pos_left T hA0
  generalize (lsbFixDiff lsb (A - R) fl1).1 = c' at *
  generalize (lsbFixDiff lsb (A - R) fl1).2 = fl' at *
  generalize hV : A * T - C4 = V at *
  have hV10 : 9 * (A * T) < 10 * V := by omega
  have hn := hNE.near
  have hcpos : 1 ≤ c' := by
    rcases Nat.eq_zero_or_pos c' with h0 | h0
    · rw [h0, Nat.zero_mul] at hn; omega
    · exact h0
  refine ⟨?_, hcpos⟩
  have hpw := ctx.pow
  have hk33 : E < eMin → (eMin - E).toNat ≤ 33 := fun h => pow_le_P33 _ (Nat.lt_of_le_of_lt (ctx.hlow h) (hk h))
  -- 20c' + 10 > 18A
  have hcA : 18 * A < 20 * c' + 10 := by
    have h1 : 18 * A * T < (20 * c' + 10) * T := by
      have e1 : 18 * A * T = 2 * (9 * (A * T)) := by ring
      have e2 : (20 * c' + 10) * T = 10 * (2 * (c' * T) + T) := by ring
      rw [e1, e2]; omega
    exact Nat.lt_of_mul_lt_mul_right h1
  refine MainOut_of_view V m c' E fl' c Ec fl' (by have := ctx.hm; omega) (by rw [hpw]; exact hNE)
    (by rw [hpw]; exact Nat.le_of_lt hV34) (fun _ => by rw [hpw]; exact hV34) (by have := ctx.hE; omega) ?_ ?_
    (FlagsSim.refl _) hcan ?_
  · intro hgt
    rcases Nat.eq_zero_or_pos x with hx | hx
    · left; have := ctx.hm; omega
    · right; rw [hpw]
      have hnr : ¬ (A - R < P33 ∨ ((fl1.inexLtMid || fl1.midGtEven) = true ∧ A - R = P33)) := fun h => hnorep ⟨hgt, h, hx⟩
      have h33 : P33 ≤ A - R := by omega
      rcases Nat.lt_or_ge P33 (A - R) with hlt | hge
      · have : (P33 + 1) * T ≤ (A - R) * T := Nat.mul_le_mul_right T hlt
        rw [Nat.add_mul, Nat.one_mul] at this
        have := hp.near.2
        omega
      · have heq : A - R = P33 := by omega
        have hnf : (fl1.inexLtMid || fl1.midGtEven) = false := by
          cases hb : (fl1.inexLtMid || fl1.midGtEven)
          · rfl
          · exact absurd (Or.inr ⟨hb, heq⟩) hnr
        rw [← heq]
        rcases hp.cases hT0 with ⟨e, r⟩ | ⟨e, r1, r2⟩ | ⟨e, r1, r2⟩ | ⟨e, r⟩ | ⟨e, r⟩
        · omega
        · omega
        · exfalso
          have : (swapInd fl1).inexGtMid = true := by rw [e]; rfl
          simp only [swapInd] at this
          rw [this] at hnf; simp at hnf
        · exfalso
          have : (swapInd fl1).midLtEven = true := by rw [e]; rfl
          simp only [swapInd] at this
          rw [this] at hnf; simp at hnf
        · omega
  · rcases hcode with ⟨a, b⟩ | ⟨a, b, c⟩
    · exact Or.inl ⟨a, b⟩
    · exact Or.inr ⟨a, b, c⟩
  · intro hlt
    rcases hcode with ⟨a, b⟩ | ⟨a, b, c⟩
    · subst a b
      have h10 := ctx.hlow hlt
      obtain ⟨j, hj⟩ : ∃ j, (eMin - Ec).toNat = j + 1 := ⟨(eMin - Ec).toNat - 1, by omega⟩
      rw [hj, Nat.pow_succ] at h10
      rw [hj, Nat.add_sub_cancel]
      omega
    · subst b c
      have := hk33 (by omega)
      exact nine_le_P33 _ (by omega)


/-- **opposite signs, the leading digit is gone: the next turn** works with one digit more of `C3·10^scale` and removes one
digit less of the product; it is the last one -/
theorem repeat_step {A T x : Nat} {E m : Int} (ctx : Ctx A T x E m) (C4 R : Nat) (fl1 : Ind)
    (h1 : NE C4 T R fl1) (hdom : 10 * C4 < A * T)
    (hrep : eMin < E ∧ (A - R < P33 ∨ ((fl1.inexLtMid || fl1.midGtEven) = true ∧ A - R = P33)) ∧ 1 ≤ x) :
    ∃ T', T = T' * 10 ∧ Ctx (A * 10) T' (x - 1) (E - 1) m ∧ A * 10 * T' = A * T ∧ A * T - C4 < P34 * T' ∧
      (∀ (R' : Nat) (fl' : Ind), NE C4 T' R' fl' →
        ¬ (eMin < E - 1 ∧ (A * 10 - R' < P33 ∨ ((fl'.inexLtMid || fl'.midGtEven) = true ∧ A * 10 - R' = P33)) ∧ 1 ≤ x - 1)) := by
  have e34 : P34 = 10000000000000000000000000000000000 := rfl
  have e33 : P33 = 1000000000000000000000000000000000 := rfl
  have hMin : eMin = -6176 := rfl
  obtain ⟨hgt, hc, hx⟩ := hrep
  have hT0 : 0 < T := by rw [ctx.hT]; exact Nat.pow_pos (by decide)
  have hA0 := ctx.hA0
  have hA33 : P33 ≤ A := by rcases ctx.hx33 with h | h <;> omega
  obtain ⟨j, hj⟩ : ∃ j, x = j + 1 := ⟨x - 1, by omega⟩
  have hT' : T = 10 ^ j * 10 := by rw [ctx.hT, hj, Nat.pow_succ]
  have hT'0 : 0 < 10 ^ j := Nat.pow_pos (by decide)
  have hRA := R_le_A h1 hT0 hA0 hdom
  have hC : C4 ≤ A * T := by omega
  have hp := sum_diff_pos h1.toPos hRA hC
  have eAT : A * 10 * 10 ^ j = A * T := by rw [hT']; ring
  have hTA : T ≤ A * T := Nat.le_mul_of_pos_left T hA0
  have hVlt : A * T - C4 < P33 * T := by
    rcases hc with h | ⟨hb, heq⟩
    · have : (A - R + 1) * T ≤ P33 * T := Nat.mul_le_mul_right T h
      rw [Nat.add_mul, Nat.one_mul] at this
      have := hp.near.1
      omega
    · rw [← heq]
      rcases hp.cases hT0 with ⟨e, r⟩ | ⟨e, r1, r2⟩ | ⟨e, r1, r2⟩ | ⟨e, r⟩ | ⟨e, r⟩
      · exfalso
        have a1 : (swapInd fl1).inexGtMid = false := by rw [e]; rfl
        have a2 : (swapInd fl1).midLtEven = false := by rw [e]; rfl
        simp only [swapInd] at a1 a2
        rw [a1, a2] at hb; simp at hb
      · exfalso
        have a1 : (swapInd fl1).inexGtMid = false := by rw [e]; rfl
        have a2 : (swapInd fl1).midLtEven = false := by rw [e]; rfl
        simp only [swapInd] at a1 a2
        rw [a1, a2] at hb; simp at hb
      · exact r1
      · omega
      · exfalso
        have a1 : (swapInd fl1).inexGtMid = false := by rw [e]; rfl
        have a2 : (swapInd fl1).midLtEven = false := by rw [e]; rfl
        simp only [swapInd] at a1 a2
        rw [a1, a2] at hb; simp at hb
  refine ⟨10 ^ j, hT', ⟨by rw [hj, Nat.add_sub_cancel], by have := ctx.hm; omega, by omega, Or.inr (by omega),
    fun h => by omega, by have := ctx.hE; omega⟩, eAT, ?_, ?_⟩
  · have : P33 * T = P34 * 10 ^ j := by rw [hT', e33, e34]; ring
    omega
  · intro R' fl' h' ⟨_, hc', _⟩
    have hdom' : 10 * C4 < A * 10 * 10 ^ j := by rw [eAT]; exact hdom
    have hRA' := R_le_A h' hT'0 (by omega) hdom'
    have hp' := sum_diff_pos h'.toPos hRA' (by omega)
    have hn := hp'.near.1
    rw [eAT] at hn
    have h9 : 9 * (P33 * T) ≤ 9 * (A * T) := Nat.mul_le_mul_left 9 (Nat.mul_le_mul_right T hA33)
    have hle : (A * 10 - R') * 10 ^ j ≤ P33 * 10 ^ j := Nat.mul_le_mul_right _ (by rcases hc' with h | ⟨-, h⟩ <;> omega)
    have e1 : P33 * T = 10 * (P33 * 10 ^ j) := by rw [hT']; ring
    have : 0 < P33 * 10 ^ j := Nat.mul_pos (by decide) hT'0
    have : 10 ^ j ≤ P33 * 10 ^ j := Nat.le_mul_of_pos_left _ (by decide)
    omega


open Dec.RH (Ind)
open Dec.Rs Dec.Gen.Code
open Dec.C03GenCompare (val128 val256)

/-! ## 10. The pieces of the code, evaluated -/

/-- the rounding helpers overwrite `incr_exp`: its value on entry does not matter -/
theorem r64_incr (q x : Int32) (C : UInt64) (b l g il ig : Bool) :
    bid_round64_2_18 q x C b l g il ig = bid_round64_2_18 q x C false l g il ig := rfl
theorem r128_incr (q x : Int32) (C : U128) (b l g il ig : Bool) :
    bid_round128_19_38 q x C b l g il ig = bid_round128_19_38 q x C false l g il ig := rfl
theorem r192_incr (q x : Int32) (C : U192) (b l g il ig : Bool) :
    bid_round192_39_57 q x C b l g il ig = bid_round192_39_57 q x C false l g il ig := rfl
theorem r256_incr (q x : Int32) (C : U256) (b l g il ig : Bool) :
    bid_round256_58_76 q x C b l g il ig = bid_round256_58_76 q x C false l g il ig := rfl


/-! ### small facts about `Int32` and table indices -/

theorem bind_ok {α β : Type} (v : α) (k : α → Except String β) : ((Except.ok v : Except String α) >>= k) = k v := rfl

theorem idx_nat (a : Int32) (n : Nat) (h : a.toInt = n) : (UInt64.ofInt (toI a)).toNat = n := by
  rw [Dec.C13GenNoncomp.toI_i32, h, Dec.C13GenNoncomp.u64_ofInt_nat, UInt64.toNat_ofNat', Nat.mod_eq_of_lt]
  have := a.toInt_lt
  have : (n : Int) < 2^31 := by rw [← h]; exact this
  omega

theorem i32_le (a n : Int32) : decide (a ≤ n) = decide (a.toInt ≤ n.toInt) := by
  rw [decide_eq_decide, Int32.le_iff_toInt_le]
theorem i32_lt (a n : Int32) : decide (a < n) = decide (a.toInt < n.toInt) := by
  rw [decide_eq_decide, Int32.lt_iff_toInt_lt]
theorem i32_beq (a n : Int32) : (a == n) = decide (a.toInt = n.toInt) := by
  rw [Bool.eq_iff_iff, beq_iff_eq, decide_eq_true_eq, Int32.toInt_inj]

theorem i32_sub' (a b : Int32) (x y : Int) (ha : a.toInt = x) (hb : b.toInt = y) (h1 : -2^31 ≤ x - y) (h2 : x - y < 2^31) :
    (a - b).toInt = x - y := by
  rw [Int32.toInt_sub, ha, hb, Dec.C13GenNoncomp.bmod32 _ h1 h2]
theorem i32_add' (a b : Int32) (x y : Int) (ha : a.toInt = x) (hb : b.toInt = y) (h1 : -2^31 ≤ x + y) (h2 : x + y < 2^31) :
    (a + b).toInt = x + y := by
  rw [Int32.toInt_add, ha, hb, Dec.C13GenNoncomp.bmod32 _ h1 h2]

theorem val128_toNat' (r : U128) : r.toNat' = val128 r := by
  unfold Dec.Rs.U128.toNat' val128; omega

/-- **`res = C3·10^scale`**: the three multiplication paths and the copy for `scale = 0` -/
theorem scaleC3K_spec {α : Type} (res C3 : U128) (q3 scale : Int32) (k : U128 → Except String α) (c Q S : Nat)
    (hC : val128 C3 = c) (hq : q3.toInt = Q) (hsc : scale.toInt = S) (hQ : Q = ndigits c) (hc0 : 0 < c)
    (hfit : Q + S ≤ 35) (hS : S ≤ 34) :
    ∃ r, scaleC3K res C3 q3 scale k = k r ∧ val128 r = c * 10 ^ S := by
  have hl := C3.w0.toNat_lt
  have hcQ : c < 10 ^ Q := by rw [hQ]; exact lt_pow_ndigits c
  have hlt : c * 10 ^ S < 10 ^ 35 := by
    calc c * 10 ^ S < 10 ^ Q * 10 ^ S := Nat.mul_lt_mul_of_pos_right hcQ (Nat.pow_pos (by decide))
      _ = 10 ^ (Q + S) := (Nat.pow_add _ _ _).symm
      _ ≤ 10 ^ 35 := Nat.pow_le_pow_right (by decide) hfit
  have h35 : (10 : Nat) ^ 35 < 2 ^ 128 := by decide
  unfold scaleC3K
  simp only [bind, Except.bind, pure, Except.pure]
  by_cases h0 : S = 0
  · rw [if_pos (by rw [i32_beq, hsc, decide_eq_true_eq, h0]; rfl)]
    exact ⟨_, rfl, by rw [h0, Nat.pow_zero, Nat.mul_one, ← hC]⟩
  rw [if_neg (by rw [i32_beq, hsc, decide_eq_true_eq]; show ¬ (S : Int) = 0; omega)]
  have hidx := idx_nat scale S hsc
  by_cases hq19 : Q ≤ 19
  · rw [if_pos (by rw [i32_le, hq, decide_eq_true_eq]; show (Q : Int) ≤ 19; omega)]
    have hCs : c < 10 ^ 19 := lt_of_lt_of_le hcQ (Nat.pow_le_pow_right (by decide) hq19)
    have hw0 : C3.w0.toNat = c := by
      have : (10 : Nat) ^ 19 < 2 ^ 64 := by decide
      unfold val128 at hC; omega
    by_cases hs19 : S ≤ 19
    · rw [if_pos (by rw [i32_le, hsc, decide_eq_true_eq]; show (S : Int) ≤ 19; omega)]
      obtain ⟨v, hv, hv10⟩ := Dec.C03GenCompare.tbl64_ten (UInt64.ofInt (toI scale)) (by omega)
      obtain ⟨r, hr, hrv⟩ := Dec.C01GenArith.gen_mul_64x64_to_128MACH C3.w0 v
      rw [hv]
      simp only [hr]
      exact ⟨r, rfl, by rw [← val128_toNat', hrv, hw0, hv10, hidx]⟩
    · rw [if_neg (by rw [i32_le, hsc, decide_eq_true_eq]; show ¬ (S : Int) ≤ 19; omega)]
      have hs20 : (scale - (0x14 : Int32)).toInt = ((S - 20 : Nat) : Int) := by
        rw [i32_sub' scale 0x14 S 20 hsc rfl (by omega) (by omega)]; omega
      have hidx2 := idx_nat _ _ hs20
      obtain ⟨v, hv, hv10⟩ := Dec.C03GenCompare.tbl128_ten (UInt64.ofInt (toI (scale - (0x14 : Int32)))) (by omega)
      rw [hidx2, show S - 20 + 20 = S by omega] at hv10
      obtain ⟨r, hr, hrv⟩ := Dec.C01GenArith.gen_mul_128x64_to_128_exact C3.w0 v (by
        rw [val128_toNat', hv10, hw0]; omega)
      rw [hv]
      simp only [hr]
      exact ⟨r, rfl, by rw [← val128_toNat', hrv, val128_toNat', hv10, hw0]⟩
  · rw [if_neg (by rw [i32_le, hq, decide_eq_true_eq]; show ¬ (Q : Int) ≤ 19; omega)]
    obtain ⟨v, hv, hv10⟩ := Dec.C03GenCompare.tbl64_ten (UInt64.ofInt (toI scale)) (by omega)
    obtain ⟨r, hr, hrv⟩ := Dec.C01GenArith.gen_mul_128x64_to_128_exact v C3 (by
      rw [val128_toNat', hv10, hidx, hC, Nat.mul_comm]; omega)
    rw [hv]
    simp only [hr]
    exact ⟨r, rfl, by rw [← val128_toNat', hrv, val128_toNat', hv10, hidx, hC, Nat.mul_comm]⟩


example : scaleC3K ⟨0, 0⟩ ⟨123, 0⟩ 3 31 (fun r => .ok r) = .ok ⟨0x85cf1b7f80000000, 0x3ca4c85970b2⟩ ∧
    0x3ca4c85970b2 * 2 ^ 64 + 0x85cf1b7f80000000 = 123 * 10 ^ 31 := by decide +kernel


open Dec.RH (Ind)
open Dec.Rs Dec.Gen.Code
open Dec.C03GenCompare (val128 val256)
open Dec.C02RoundHelpers (Spec rne)

/-! ### the rounding helpers as the block uses them -/

theorem i32_ofNat_eq (a : Int32) (n : Nat) (h : a.toInt = n) : a = Int32.ofNat n := by
  have hlt : (n : Int) < 2^31 := by rw [← h]; exact a.toInt_lt
  rw [← Int32.toInt_inj, h, Int32.toInt_ofNat_of_lt (by omega)]

/-- `10^n` from the 64-bit table -/
theorem ten64 (d : Int32) (n : Nat) (hd : d.toInt = n) (hn : n ≤ 19) :
    ∃ v, tbl64 Dec.Gen.BID_TEN2K64 (UInt64.ofInt (toI d)) = .ok v ∧ v.toNat = 10 ^ n := by
  have hidx := idx_nat d n hd
  obtain ⟨v, hv, hv10⟩ := Dec.C03GenCompare.tbl64_ten (UInt64.ofInt (toI d)) (by omega)
  exact ⟨v, hv, by rw [hv10, hidx]⟩

/-- `10^n` from the 128-bit table -/
theorem ten128 (d : Int32) (n : Nat) (hd : d.toInt = n) (h20 : 20 ≤ n) (hn : n ≤ 38) :
    ∃ v, tbl128 Dec.Gen.BID_TEN2K128 (UInt64.ofInt (toI (d - (0x14 : Int32)))) = .ok v ∧ val128 v = 10 ^ n := by
  have hs20 : (d - (0x14 : Int32)).toInt = ((n - 20 : Nat) : Int) := by
    rw [i32_sub' d 0x14 n 20 hd rfl (by omega) (by omega)]; omega
  have hidx := idx_nat _ _ hs20
  obtain ⟨v, hv, hv10⟩ := Dec.C03GenCompare.tbl128_ten (UInt64.ofInt (toI (d - (0x14 : Int32)))) (by omega)
  exact ⟨v, hv, by rw [hv10, hidx]; congr 1; omega⟩

/-- the value handed back by a helper, with the exponent increment undone -/
theorem spec_undo {q x C cstar : Nat} {incr : Bool} {fl : Ind} (sp : Spec q x C cstar incr fl) (hqx : x + 1 ≤ q) :
    (incr = true → cstar = 10 ^ (q - x - 1) ∧ rne C x = 10 ^ (q - x)) ∧ (incr = false → cstar = rne C x) := by
  have h1 := sp.cstar_eq; have h2 := sp.incr_iff
  constructor
  · intro hi
    have := h2.1 hi
    rw [if_pos this] at h1
    exact ⟨h1, this⟩
  · intro hi
    have : ¬ rne C x = 10 ^ (q - x) := fun h => by rw [h2.2 h] at hi; exact Bool.noConfusion hi
    rw [if_neg this] at h1; exact h1

theorem rne_le_pow (C x q : Nat) (hx : 1 ≤ x) (hC : C < 10 ^ q) (hqx : x ≤ q) : rne C x ≤ 10 ^ (q - x) := by
  have h := (Dec.C02RoundHelpers.rne_rounded C x)
  unfold RoundedInt at h
  obtain ⟨⟨h1, h2⟩, -⟩ := h
  have hp : 0 < 10 ^ x := Nat.pow_pos (by decide)
  have e : 10 ^ q = 10 ^ (q - x) * 10 ^ x := by rw [← Nat.pow_add]; congr 1; omega
  by_contra hc
  have : (10 ^ (q - x) + 1) * 10 ^ x ≤ rne C x * 10 ^ x := Nat.mul_le_mul_right _ (by omega)
  rw [Nat.add_mul, Nat.one_mul, ← e] at this
  rw [Nat.mul_assoc] at h2
  omega


open Dec.RH (Ind)
open Dec.Rs Dec.Gen.Code
open Dec.C03GenCompare (val128 val256)
open Dec.C02RoundHelpers (Spec rne)
open Dec.C02GenRound (v128 v192 v256)

theorem v128_val (a : U128) : v128 a = val128 a := by unfold v128 val128; omega

theorem val256_small (C : U256) (h : val256 C < 2 ^ 128) :
    C.w2.toNat = 0 ∧ C.w3.toNat = 0 ∧ val128 (⟨C.w0, C.w1⟩ : U128) = val256 C := by
  unfold val256 at h ⊢
  have h3 : C.w3.toNat = 0 := by
    by_contra hc
    have : 2 ^ 192 ≤ C.w3.toNat * 2 ^ 192 := Nat.le_mul_of_pos_left _ (by omega)
    have : (2 : Nat) ^ 128 ≤ 2 ^ 192 := by decide
    omega
  have h2 : C.w2.toNat = 0 := by
    by_contra hc
    have : 2 ^ 128 ≤ C.w2.toNat * 2 ^ 128 := Nat.le_mul_of_pos_left _ (by omega)
    omega
  refine ⟨h2, h3, ?_⟩
  unfold val128
  rw [h2, h3]; simp

theorem val256_small192 (C : U256) (h : val256 C < 2 ^ 192) :
    C.w3.toNat = 0 ∧ v192 (⟨C.w0, C.w1, C.w2⟩ : U192) = val256 C := by
  unfold val256 at h ⊢
  have h3 : C.w3.toNat = 0 := by
    by_contra hc
    have : 2 ^ 192 ≤ C.w3.toNat * 2 ^ 192 := Nat.le_mul_of_pos_left _ (by omega)
    omega
  refine ⟨h3, ?_⟩
  unfold v192
  rw [h3]; simp only []; omega

theorem v192_small (C : U192) (h : v192 C < 2 ^ 128) : C.w1.toNat * 2 ^ 64 + C.w0.toNat = v192 C := by
  unfold v192 at h ⊢
  have h2 : C.w2.toNat = 0 := by
    by_contra hc
    have : 2 ^ 128 ≤ 2 ^ 128 * C.w2.toNat := Nat.le_mul_of_pos_right _ (by omega)
    omega
  rw [h2]; omega

theorem v256_small (C : U256) (h : v256 C < 2 ^ 128) : C.w1.toNat * 2 ^ 64 + C.w0.toNat = v256 C := by
  unfold v256 at h ⊢
  have h3 : C.w3.toNat = 0 := by
    by_contra hc
    have : 2 ^ 192 ≤ 2 ^ 192 * C.w3.toNat := Nat.le_mul_of_pos_right _ (by omega)
    have : (2 : Nat) ^ 128 ≤ 2 ^ 192 := by decide
    omega
  have h2 : C.w2.toNat = 0 := by
    by_contra hc
    have : 2 ^ 128 ≤ 2 ^ 128 * C.w2.toNat := Nat.le_mul_of_pos_right _ (by omega)
    omega
  rw [h2, h3]; omega

theorem v256_val (C : U256) : v256 C = val256 C := by unfold v256 val256; omega

theorem pow35 : (10 : Nat) ^ 35 < 2 ^ 128 := by decide

set_option maxHeartbeats 2000000 in
/-- **the product rounded to `q4 − x0` digits**: `R128` is `C4/10^x0` rounded to nearest-even (the replacement of a carried
`10^(q4−x0)` undone), with the indicators; for `x0 = 0` it is `C4` itself -/
theorem roundC4K_spec {α : Type} (C4 : U256) (q4 x0 : Int32) (incr : Bool) (R64 : UInt64) (P128 R128 : U128)
    (P192 R192 : U192) (R256 : U256)
    (k : Bool → Bool → Bool → Bool → Bool → UInt64 → U128 → U128 → U192 → U192 → U256 → Except String α)
    (c4 Q X : Nat) (hC : val256 C4 = c4) (hq' : 1 ≤ X → q4.toInt = Q) (hx : x0.toInt = X) (hc4' : 1 ≤ X → c4 < 10 ^ Q)
    (hXQ : X = 0 ∨ X + 1 ≤ Q) (hQ : Q ≤ 76) (h128 : X = 0 → c4 < 2 ^ 128) (hfit : Q - X ≤ 35)
    (h58 : 58 ≤ Q → 1 ≤ X → 20 ≤ X) :
    ∃ (ML MG L G incr' : Bool) (R64' : UInt64) (P128' R128' : U128) (P192' R192' : U192) (R256' : U256),
      roundC4K C4 q4 x0 false false false false incr R64 P128 R128 P192 R192 R256 k =
        k ML MG L G incr' R64' P128' R128' P192' R192' R256' ∧
      NE c4 (10 ^ X) (val128 R128') ⟨ML, MG, L, G⟩ := by
  have b0 := C4.w0.toNat_lt; have b1 := C4.w1.toNat_lt; have b2 := C4.w2.toNat_lt; have b3 := C4.w3.toNat_lt
  unfold roundC4K
  simp only [bind, Except.bind, pure, Except.pure]
  by_cases hX0 : X = 0
  · have hz : (x0 == (0 : Int32)) = true := by
      rw [i32_beq, hx, hX0]; exact decide_eq_true rfl
    rw [if_pos hz]
    refine ⟨_, _, _, _, _, _, _, _, _, _, _, rfl, ?_⟩
    have : val128 (⟨C4.w0, C4.w1⟩ : U128) = c4 := by
      rw [← hC]; exact (val256_small C4 (by rw [hC]; exact h128 hX0)).2.2
    rw [hX0, Nat.pow_zero, this]
    exact NE_exact c4
  rw [if_neg (by rw [i32_beq, hx, decide_eq_true_eq]; show ¬ (X : Int) = 0; omega)]
  have hX1 : 1 ≤ X := by omega
  have hq := hq' hX1
  have hc4 := hc4' hX1
  have hXQ' : X + 1 ≤ Q := by omega
  have hqe := i32_ofNat_eq q4 Q hq
  have hxe := i32_ofNat_eq x0 X hx
  have hd : (q4 - x0).toInt = ((Q - X : Nat) : Int) := by
    rw [i32_sub' q4 x0 Q X hq hx (by omega) (by omega)]; omega
  have hle35 := rne_le_pow c4 X Q hX1 hc4 (by omega)
  have hp35 : 10 ^ (Q - X) ≤ 10 ^ 35 := Nat.pow_le_pow_right (by decide) hfit
  have h35 := pow35
  by_cases h18 : Q ≤ 18
  · -- one word
    rw [if_pos (by rw [i32_le, hq, decide_eq_true_eq]; show (Q : Int) ≤ 18; omega)]
    have hw0 : C4.w0.toNat = c4 := by
      have : c4 < 10 ^ 18 := lt_of_lt_of_le hc4 (Nat.pow_le_pow_right (by decide) h18)
      have : (10 : Nat) ^ 18 < 2 ^ 64 := by decide
      unfold val256 at hC; omega
    obtain ⟨cs, ic, lt, gt, ilt, igt, hcall, sp⟩ := Dec.C02GenRound.bid_round64_2_18_spec Q X C4.w0 (by omega) h18 hX1 hXQ'
      (by rw [hw0]; exact hc4)
    rw [r64_incr, hqe, hxe, hcall]
    simp only []
    rw [hw0] at sp
    obtain ⟨u1, u2⟩ := spec_undo sp hXQ'
    have hne := spec_NE Q X c4 _ ic ⟨lt, gt, ilt, igt⟩ sp hX1
    cases ic
    · simp only [Bool.false_eq_true, if_false]
      refine ⟨_, _, _, _, _, _, _, _, _, _, _, rfl, ?_⟩
      have : val128 (⟨cs, 0⟩ : U128) = rne c4 X := by
        unfold val128; simp only [UInt64.toNat_zero]; rw [u2 rfl]; omega
      rw [this]; exact hne
    · simp only [if_true]
      obtain ⟨v, hv, hv10⟩ := ten64 (Int32.ofNat Q - Int32.ofNat X) (Q - X) (by rw [← hqe, ← hxe]; exact hd) (by omega)
      rw [hv]
      simp only []
      refine ⟨_, _, _, _, _, _, _, _, _, _, _, rfl, ?_⟩
      have : val128 (⟨v, 0⟩ : U128) = rne c4 X := by
        unfold val128; simp only [UInt64.toNat_zero]; rw [hv10, (u1 rfl).2]; omega
      rw [this]; exact hne
  rw [if_neg (by rw [i32_le, hq, decide_eq_true_eq]; show ¬ (Q : Int) ≤ 18; omega)]
  have hdle : decide (q4 - x0 ≤ (0x13 : Int32)) = decide (Q - X ≤ 19) := by
    rw [i32_le, hd, decide_eq_decide]; show ((Q - X : Nat) : Int) ≤ 19 ↔ _; omega
  -- the replacement of a carried 10^(Q−X), on two words
  have fix2 : ∀ (w0 w1 : UInt64), w1.toNat * 2 ^ 64 + w0.toNat = 10 ^ (Q - X - 1) → rne c4 X = 10 ^ (Q - X) →
      (Q - X ≤ 19 → ∃ v, tbl64 Dec.Gen.BID_TEN2K64 (UInt64.ofInt (toI (q4 - x0))) = .ok v ∧ val128 (⟨v, w1⟩ : U128) = rne c4 X) ∧
      (¬ Q - X ≤ 19 → ∃ v, tbl128 Dec.Gen.BID_TEN2K128 (UInt64.ofInt (toI (q4 - x0 - (0x14 : Int32)))) = .ok v ∧
        val128 (⟨v.w0, v.w1⟩ : U128) = rne c4 X) := by
    intro w0 w1 hw hr
    constructor
    · intro h19
      obtain ⟨v, hv, hv10⟩ := ten64 (q4 - x0) (Q - X) hd h19
      refine ⟨v, hv, ?_⟩
      have : 10 ^ (Q - X - 1) ≤ 10 ^ 18 := Nat.pow_le_pow_right (by decide) (by omega)
      have : (10 : Nat) ^ 18 < 2 ^ 64 := by decide
      have hw1 : w1.toNat = 0 := by have := w0.toNat_lt; omega
      unfold val128; simp only []; rw [hw1, hv10, hr, Nat.zero_mul, Nat.zero_add]
    · intro h19
      obtain ⟨v, hv, hv10⟩ := ten128 (q4 - x0) (Q - X) hd (by omega) (by omega)
      exact ⟨v, hv, by rw [hr, ← hv10]⟩
  by_cases h38 : Q ≤ 38
  · -- two words
    rw [if_pos (by rw [i32_le, hq, decide_eq_true_eq]; show (Q : Int) ≤ 38; omega)]
    have hv2 : v128 (⟨C4.w0, C4.w1⟩ : U128) = c4 := by
      have : c4 < 10 ^ 38 := lt_of_lt_of_le hc4 (Nat.pow_le_pow_right (by decide) h38)
      have : (10 : Nat) ^ 38 < 2 ^ 128 := by decide
      rw [v128_val, ← hC]; exact (val256_small C4 (by rw [hC]; omega)).2.2
    obtain ⟨cs, ic, lt, gt, ilt, igt, hcall, sp⟩ := Dec.C02GenRound.bid_round128_19_38_spec Q X ⟨C4.w0, C4.w1⟩ (by omega) h38 hX1 hXQ'
      (by rw [hv2]; exact hc4)
    rw [r128_incr, hqe, hxe, hcall]
    simp only []
    rw [hv2, v128_val] at sp
    obtain ⟨u1, u2⟩ := spec_undo sp hXQ'
    have hne := spec_NE Q X c4 _ ic ⟨lt, gt, ilt, igt⟩ sp hX1
    cases ic
    · simp only [Bool.false_eq_true, if_false]
      refine ⟨_, _, _, _, _, _, _, _, _, _, _, rfl, ?_⟩
      rw [u2 rfl]; exact hne
    · simp only [if_true]
      rw [← hqe, ← hxe, hdle]
      obtain ⟨f1, f2⟩ := fix2 cs.w0 cs.w1 (u1 rfl).1 (u1 rfl).2
      by_cases h19 : Q - X ≤ 19
      · obtain ⟨v, hv, hvv⟩ := f1 h19
        rw [if_pos (by simpa using h19), hv]
        simp only []
        exact ⟨_, _, _, _, _, _, _, _, _, _, _, rfl, by rw [hvv]; exact hne⟩
      · obtain ⟨v, hv, hvv⟩ := f2 h19
        rw [if_neg (by simpa using h19), hv]
        simp only []
        exact ⟨_, _, _, _, _, _, _, _, _, _, _, rfl, by rw [hvv]; exact hne⟩
  rw [if_neg (by rw [i32_le, hq, decide_eq_true_eq]; show ¬ (Q : Int) ≤ 38; omega)]
  have hpw1 : 10 ^ (Q - X - 1) < 2 ^ 128 := by
    have : 10 ^ (Q - X - 1) ≤ 10 ^ 35 := Nat.pow_le_pow_right (by decide) (by omega)
    omega
  by_cases h57 : Q ≤ 57
  · -- three words
    rw [if_pos (by rw [i32_le, hq, decide_eq_true_eq]; show (Q : Int) ≤ 57; omega)]
    have hv3 : v192 (⟨C4.w0, C4.w1, C4.w2⟩ : U192) = c4 := by
      have : c4 < 10 ^ 57 := lt_of_lt_of_le hc4 (Nat.pow_le_pow_right (by decide) h57)
      have : (10 : Nat) ^ 57 < 2 ^ 192 := by decide
      rw [← hC]; exact (val256_small192 C4 (by rw [hC]; omega)).2
    obtain ⟨cs, ic, lt, gt, ilt, igt, hcall, sp⟩ := Dec.C02GenRound.bid_round192_39_57_spec Q X ⟨C4.w0, C4.w1, C4.w2⟩ (by omega) h57 hX1 hXQ'
      (by rw [hv3]; exact hc4)
    rw [r192_incr, hqe, hxe, hcall]
    simp only []
    rw [hv3] at sp
    obtain ⟨u1, u2⟩ := spec_undo sp hXQ'
    have hne := spec_NE Q X c4 _ ic ⟨lt, gt, ilt, igt⟩ sp hX1
    cases ic
    · simp only [Bool.false_eq_true, if_false]
      refine ⟨_, _, _, _, _, _, _, _, _, _, _, rfl, ?_⟩
      have : val128 (⟨cs.w0, cs.w1⟩ : U128) = rne c4 X := by
        unfold val128; simp only []
        rw [v192_small cs (by rw [u2 rfl]; omega), u2 rfl]
      rw [this]; exact hne
    · simp only [if_true]
      rw [← hqe, ← hxe, hdle]
      obtain ⟨f1, f2⟩ := fix2 cs.w0 cs.w1 (by rw [v192_small cs (by rw [(u1 rfl).1]; exact hpw1)]; exact (u1 rfl).1) (u1 rfl).2
      by_cases h19 : Q - X ≤ 19
      · obtain ⟨v, hv, hvv⟩ := f1 h19
        rw [if_pos (by simpa using h19), hv]
        simp only []
        exact ⟨_, _, _, _, _, _, _, _, _, _, _, rfl, by rw [hvv]; exact hne⟩
      · obtain ⟨v, hv, hvv⟩ := f2 h19
        rw [if_neg (by simpa using h19), hv]
        simp only []
        exact ⟨_, _, _, _, _, _, _, _, _, _, _, rfl, by rw [hvv]; exact hne⟩
  · -- four words
    rw [if_neg (by rw [i32_le, hq, decide_eq_true_eq]; show ¬ (Q : Int) ≤ 57; omega)]
    obtain ⟨cs, ic, lt, gt, ilt, igt, hcall, sp⟩ := Dec.C02GenRound.bid_round256_58_76_spec Q X C4 (by omega) hQ (h58 (by omega) hX1) hXQ'
      (by rw [v256_val, hC]; exact hc4)
    rw [r256_incr, hqe, hxe, hcall]
    simp only []
    rw [v256_val, hC] at sp
    obtain ⟨u1, u2⟩ := spec_undo sp hXQ'
    have hne := spec_NE Q X c4 _ ic ⟨lt, gt, ilt, igt⟩ sp hX1
    cases ic
    · simp only [Bool.false_eq_true, if_false]
      refine ⟨_, _, _, _, _, _, _, _, _, _, _, rfl, ?_⟩
      have : val128 (⟨cs.w0, cs.w1⟩ : U128) = rne c4 X := by
        unfold val128; simp only []
        rw [v256_small cs (by rw [u2 rfl]; omega), u2 rfl]
      rw [this]; exact hne
    · simp only [if_true]
      rw [← hqe, ← hxe, hdle]
      obtain ⟨f1, f2⟩ := fix2 cs.w0 cs.w1 (by rw [v256_small cs (by rw [(u1 rfl).1]; exact hpw1)]; exact (u1 rfl).1) (u1 rfl).2
      by_cases h19 : Q - X ≤ 19
      · obtain ⟨v, hv, hvv⟩ := f1 h19
        rw [if_pos (by simpa using h19), hv]
        simp only []
        exact ⟨_, _, _, _, _, _, _, _, _, _, _, rfl, by rw [hvv]; exact hne⟩
      · obtain ⟨v, hv, hvv⟩ := f2 h19
        rw [if_neg (by simpa using h19), hv]
        simp only []
        exact ⟨_, _, _, _, _, _, _, _, _, _, _, rfl, by rw [hvv]; exact hne⟩


-- 12345678901234567890 (20 digits) rounded to 18: 123456789012345679, "value below" (`is_inexact_gt_midpoint`)
example : roundC4K ⟨0xab54a98ceb1f0ad2, 0, 0, 0⟩ 20 2 false false false false false 0 ⟨0, 0⟩ ⟨0, 0⟩ ⟨0, 0, 0⟩ ⟨0, 0, 0⟩ ⟨0, 0, 0, 0⟩
    (fun ML MG L G _ _ _ R _ _ _ => .ok (R, ML, MG, L, G)) = .ok (⟨123456789012345679, 0⟩, false, false, false, true) := by
  decide +kernel


open Dec.RH (Ind)
open Dec.Rs Dec.Gen.Code
open Dec.C03GenCompare (val128 val256)

/-! ### two-word arithmetic as the block writes it -/

theorem odd_word (w : UInt64) : ((w &&& (1 : UInt64)) == (1 : UInt64)) = decide (w.toNat % 2 = 1) := by
  rw [Bool.eq_iff_iff, beq_iff_eq, decide_eq_true_eq, ← UInt64.toNat_inj, UInt64.toNat_and]
  show w.toNat &&& 1 = 1 ↔ _
  rw [Nat.and_one_is_mod]

theorem val128_odd (r : U128) : val128 r % 2 = r.w0.toNat % 2 := by unfold val128; omega

/-- `res += R` with the carry -/
theorem wadd (a b : U128) (h : val128 a + val128 b < 2 ^ 128) :
    val128 (if decide (a.w0 + b.w0 < b.w0) = true then (⟨a.w0 + b.w0, a.w1 + b.w1 + 1⟩ : U128) else ⟨a.w0 + b.w0, a.w1 + b.w1⟩) =
      val128 a + val128 b := by
  have := a.w0.toNat_lt; have := a.w1.toNat_lt; have := b.w0.toNat_lt; have := b.w1.toNat_lt
  unfold val128 at h ⊢
  by_cases c : a.w0 + b.w0 < b.w0
  · rw [if_pos (by simpa using c)]
    rw [UInt64.lt_iff_toNat_lt, UInt64.toNat_add] at c
    simp only [UInt64.toNat_add, UInt64.toNat_one]
    omega
  · rw [if_neg (by simpa using c)]
    rw [UInt64.lt_iff_toNat_lt, UInt64.toNat_add] at c
    simp only [UInt64.toNat_add]
    omega

/-- `res −= R` with the borrow -/
theorem wsub (a b : U128) (h : val128 b ≤ val128 a) :
    val128 (if decide (a.w0 - b.w0 > a.w0) = true then (⟨a.w0 - b.w0, a.w1 - b.w1 - 1⟩ : U128) else ⟨a.w0 - b.w0, a.w1 - b.w1⟩) =
      val128 a - val128 b := by
  have := a.w0.toNat_lt; have := a.w1.toNat_lt; have := b.w0.toNat_lt; have := b.w1.toNat_lt
  unfold val128 at h ⊢
  by_cases c : a.w0 - b.w0 > a.w0
  · rw [if_pos (by simpa using c)]
    rw [gt_iff_lt, UInt64.lt_iff_toNat_lt, UInt64.toNat_sub] at c
    simp only [UInt64.toNat_sub, UInt64.toNat_one]
    omega
  · rw [if_neg (by simpa using c)]
    rw [gt_iff_lt, UInt64.lt_iff_toNat_lt, UInt64.toNat_sub] at c
    simp only [UInt64.toNat_sub]
    omega

/-- `res += 1` -/
theorem winc (a : U128) (h : val128 a + 1 < 2 ^ 128) :
    val128 (if (a.w0 + 1 == (0 : UInt64)) = true then (⟨a.w0 + 1, a.w1 + 1⟩ : U128) else ⟨a.w0 + 1, a.w1⟩) = val128 a + 1 := by
  have := a.w0.toNat_lt; have := a.w1.toNat_lt
  unfold val128 at h ⊢
  by_cases c : (a.w0 + 1 == (0 : UInt64)) = true
  · rw [if_pos c]
    rw [beq_iff_eq, ← UInt64.toNat_inj, UInt64.toNat_add] at c
    simp only [UInt64.toNat_add, UInt64.toNat_one, UInt64.toNat_zero] at c ⊢
    omega
  · rw [if_neg c]
    rw [beq_iff_eq, ← UInt64.toNat_inj, UInt64.toNat_add] at c
    simp only [UInt64.toNat_add, UInt64.toNat_one, UInt64.toNat_zero] at c ⊢
    omega

/-- `res −= 1` -/
theorem wdec (a : U128) (h : 1 ≤ val128 a) :
    val128 (if (a.w0 - 1 == (0xffffffffffffffff : UInt64)) = true then (⟨a.w0 - 1, a.w1 - 1⟩ : U128) else ⟨a.w0 - 1, a.w1⟩) =
      val128 a - 1 := by
  have := a.w0.toNat_lt; have := a.w1.toNat_lt
  unfold val128 at h ⊢
  have e : (0xffffffffffffffff : UInt64).toNat = 2 ^ 64 - 1 := by decide
  by_cases c : (a.w0 - 1 == (0xffffffffffffffff : UInt64)) = true
  · rw [if_pos c]
    rw [beq_iff_eq, ← UInt64.toNat_inj, UInt64.toNat_sub, e] at c
    simp only [UInt64.toNat_sub, UInt64.toNat_one] at c ⊢
    omega
  · rw [if_neg c]
    rw [beq_iff_eq, ← UInt64.toNat_inj, UInt64.toNat_sub, e] at c
    simp only [UInt64.toNat_sub, UInt64.toNat_one] at c ⊢
    omega

theorem mask_coeff_id (w : UInt64) (h : w.toNat < 2 ^ 49) : w &&& c_MASK_COEFF = w := by
  rw [← UInt64.toNat_inj, show c_MASK_COEFF = 0x1ffffffffffff from rfl, Dec.C13GenNoncomp.coeff_hi]
  omega

theorem hi_small (r : U128) (h : val128 r < 2 ^ 113) : r.w1.toNat < 2 ^ 49 := by
  unfold val128 at h; omega

/-- the test `res > 10^34 − 1` -/
theorem gt_p34m1 (r : U128) :
    (decide (r.w1 > (0x1ed09bead87c0 : UInt64)) || ((r.w1 == (0x1ed09bead87c0 : UInt64)) && decide (r.w0 > (0x378d8e63ffffffff : UInt64)))) =
      decide (P34 - 1 < val128 r) := by
  rw [Dec.C13GenNoncomp.gt128, decide_eq_decide]
  unfold val128
  have : P34 - 1 = (0x1ed09bead87c0 : UInt64).toNat * 2 ^ 64 + (0x378d8e63ffffffff : UInt64).toNat := by decide
  rw [this]

/-- the test `res < 10^33` -/
theorem lt_p33 (r : U128) :
    (decide (r.w1 < (0x314dc6448d93 : UInt64)) || ((r.w1 == (0x314dc6448d93 : UInt64)) && decide (r.w0 < (0x38c15b0a00000000 : UInt64)))) =
      decide (val128 r < P33) := by
  rw [Dec.C13GenNoncomp.lt128, decide_eq_decide]
  unfold val128
  have : P33 = (0x314dc6448d93 : UInt64).toNat * 2 ^ 64 + (0x38c15b0a00000000 : UInt64).toNat := by decide
  rw [this]

/-- the test `res = 10^33` -/
theorem eq_p33 (r : U128) :
    ((r.w1 == (0x314dc6448d93 : UInt64)) && (r.w0 == (0x38c15b0a00000000 : UInt64))) = decide (val128 r = P33) := by
  have h0 := r.w0.toNat_lt
  rw [Bool.eq_iff_iff, Bool.and_eq_true, beq_iff_eq, beq_iff_eq, decide_eq_true_eq, ← UInt64.toNat_inj, ← UInt64.toNat_inj]
  unfold val128
  have : P33 = 0x314dc6448d93 * 2 ^ 64 + 0x38c15b0a00000000 := by decide
  rw [this]
  show r.w1.toNat = 0x314dc6448d93 ∧ r.w0.toNat = 0x38c15b0a00000000 ↔ _
  omega

theorem zero_test (r : U128) : ((r.w1 == (0 : UInt64)) && (r.w0 == (0 : UInt64))) = decide (val128 r = 0) := by
  rw [Dec.C13GenNoncomp.zero128]; rfl


open Dec.RH (Ind)
open Dec.Rs Dec.Gen.Code
open Dec.C03GenCompare (val128 val256)
open Dec.C02RoundHelpers (Spec rne)

/-! ### the pieces of the sum -/

theorem sameAddK_spec {α : Type} (res : U128) (lsb : Bool) (R128 : U128) (k : U128 → Bool → Except String α)
    (h : val128 res + val128 R128 < 2 ^ 128) :
    ∃ r, sameAddK res lsb R128 k = k r (decide (val128 res % 2 = 1)) ∧ val128 r = val128 res + val128 R128 := by
  have hw := wadd res R128 h
  unfold sameAddK
  simp only [bind, Except.bind, pure, Except.pure]
  rw [odd_word, ← val128_odd]
  by_cases c : res.w0 + R128.w0 < R128.w0
  · rw [if_pos (by simpa using c)] at hw ⊢
    exact ⟨_, rfl, hw⟩
  · rw [if_neg (by simpa using c)] at hw ⊢
    exact ⟨_, rfl, hw⟩

theorem diffSubK_spec {α : Type} (res : U128) (lsb : Bool) (tmp64 : UInt64) (R128 : U128)
    (k : U128 → Bool → UInt64 → Except String α) (h : val128 R128 ≤ val128 res) :
    ∃ r t, diffSubK res lsb tmp64 R128 k = k r (decide (val128 res % 2 = 1)) t ∧ val128 r = val128 res - val128 R128 := by
  have hw := wsub res R128 h
  unfold diffSubK
  simp only [bind, Except.bind, pure, Except.pure]
  rw [odd_word, ← val128_odd]
  by_cases c : res.w0 - R128.w0 > res.w0
  · rw [if_pos (by simpa using c)] at hw ⊢
    exact ⟨_, _, rfl, hw⟩
  · rw [if_neg (by simpa using c)] at hw ⊢
    exact ⟨_, _, rfl, hw⟩

/-- **the 35-digit sum**: one digit rounded off; the indicators of the first rounding move to the `…0` variables -/
theorem same35K_spec {α : Type} (res : U128) (ML MG L G ML0 MG0 L0 G0 incr : Bool) (P128 : U128)
    (k : U128 → Bool → Bool → Bool → Bool → Bool → Bool → Bool → Bool → Bool → U128 → Except String α)
    (c1 : Nat) (hres : val128 res = c1) (hlo : P34 ≤ c1) (hhi : c1 < 2 * P34) :
    ∃ (r : U128) (ML' MG' L' G' incr' : Bool) (P' : U128),
      same35K res ML MG L G ML0 MG0 L0 G0 incr P128 k = k r ML' MG' L' G' ML MG L G incr' P' ∧
      NE c1 (10 ^ 1) (val128 r) ⟨ML', MG', L', G'⟩ := by
  have e34 : P34 = 10000000000000000000000000000000000 := rfl
  have hv : Dec.C02GenRound.v128 (⟨res.w0, res.w1⟩ : U128) = c1 := by rw [v128_val]; exact hres
  have h35 : c1 < 10 ^ 35 := by
    have : (10 : Nat) ^ 35 = 100000000000000000000000000000000000 := by norm_num
    omega
  obtain ⟨cs, ic, lt, gt, ilt, igt, hcall, sp⟩ := Dec.C02GenRound.bid_round128_19_38_spec 35 1 ⟨res.w0, res.w1⟩ (by omega) (by omega)
    (le_refl 1) (by omega) (by rw [hv]; exact h35)
  unfold same35K
  simp only [bind, Except.bind, pure, Except.pure]
  rw [r128_incr]
  have e1 : (0x23 : Int32) = Int32.ofNat 35 := rfl
  have e2 : (1 : Int32) = Int32.ofNat 1 := rfl
  rw [e1, e2, hcall]
  simp only []
  rw [hv, v128_val] at sp
  obtain ⟨u1, u2⟩ := spec_undo sp (by omega)
  have hne := spec_NE 35 1 c1 _ ic ⟨lt, gt, ilt, igt⟩ sp (le_refl 1)
  have hic : ic = false := by
    cases hi : ic
    · rfl
    · exfalso
      have hr := (u1 hi).2
      have hn := hne.near.2
      rw [hr, show 35 - 1 = 34 from rfl, show (10 : Nat) ^ 34 = 10000000000000000000000000000000000 from by norm_num,
        show (10 : Nat) ^ 1 = 10 from rfl] at hn
      omega
  refine ⟨cs, lt, gt, ilt, igt, ic, _, rfl, ?_⟩
  rw [u2 hic]; exact hne


/-- the word adjustments of the repair -/
def wDec (a : U128) : U128 :=
  if (a.w0 - 1 == (0xffffffffffffffff : UInt64)) = true then ⟨a.w0 - 1, a.w1 - 1⟩ else ⟨a.w0 - 1, a.w1⟩
def wInc (a : U128) : U128 :=
  if (a.w0 + 1 == (0 : UInt64)) = true then ⟨a.w0 + 1, a.w1 + 1⟩ else ⟨a.w0 + 1, a.w1⟩

/-- the repair, on words -/
def dblFixW (res : U128) (f0 f : Ind) : U128 :=
  if ((f0.inexGtMid || f0.midLtEven) && f.midLtEven) = true then wDec res
  else if ((f0.inexLtMid || f0.midGtEven) && f.midGtEven) = true then wInc res
  else res

theorem dblFixK_eq {α : Type} (res : U128) (ML MG L G ML0 MG0 L0 G0 : Bool)
    (k : U128 → Bool → Bool → Bool → Bool → Except String α) :
    dblFixK res ML MG L G ML0 MG0 L0 G0 k =
      k (dblFixW res ⟨ML0, MG0, L0, G0⟩ ⟨ML, MG, L, G⟩)
        (dblFix 0 ⟨ML0, MG0, L0, G0⟩ ⟨ML, MG, L, G⟩).2.midLtEven (dblFix 0 ⟨ML0, MG0, L0, G0⟩ ⟨ML, MG, L, G⟩).2.midGtEven
        (dblFix 0 ⟨ML0, MG0, L0, G0⟩ ⟨ML, MG, L, G⟩).2.inexLtMid (dblFix 0 ⟨ML0, MG0, L0, G0⟩ ⟨ML, MG, L, G⟩).2.inexGtMid := by
  unfold dblFixK dblFixW dblFix wDec wInc
  dsimp only
  generalize (res.w0 - 1 == (0xffffffffffffffff : UInt64)) = b1
  generalize (res.w0 + 1 == (0 : UInt64)) = b2
  cases ML <;> cases MG <;> cases L <;> cases G <;> cases ML0 <;> cases MG0 <;> cases L0 <;> cases G0 <;>
    cases b1 <;> cases b2 <;> rfl


theorem dblFix_snd (c c' : Nat) (f0 f : Ind) : (dblFix c f0 f).2 = (dblFix c' f0 f).2 := by
  unfold dblFix; split_ifs <;> rfl

theorem dblFixW_val (res : U128) (f0 f : Ind) (h1 : 1 ≤ val128 res) (h2 : val128 res + 1 < 2 ^ 128) :
    val128 (dblFixW res f0 f) = (dblFix (val128 res) f0 f).1 := by
  unfold dblFixW dblFix
  split_ifs
  · exact wdec res h1
  · exact winc res h2
  all_goals rfl

theorem sameTailK_eq {α : Type} (e3 : Int32) (ML MG L G ML0 MG0 L0 G0 : Bool) (k : Int32 → Bool → Except String α) :
    sameTailK e3 ML MG L G ML0 MG0 L0 G0 k = k (e3 + 1) (tailFix ⟨ML0, MG0, L0, G0⟩ ⟨ML, MG, L, G⟩).inexLtMid := by
  unfold sameTailK tailFix
  dsimp only
  cases ML <;> cases MG <;> cases L <;> cases G <;> cases ML0 <;> cases MG0 <;> cases L0 <;> cases G0 <;> rfl

theorem uTailK_eq {α : Type} (e3 x0 : Int32) (ML MG L G ML0 MG0 L0 G0 : Bool) (k : Int32 → Bool → Except String α) :
    uTailK e3 x0 ML MG L G ML0 MG0 L0 G0 k = k (e3 + x0) (tailFix ⟨ML0, MG0, L0, G0⟩ ⟨ML, MG, L, G⟩).inexLtMid := by
  unfold uTailK tailFix
  dsimp only
  cases ML <;> cases MG <;> cases L <;> cases G <;> cases ML0 <;> cases MG0 <;> cases L0 <;> cases G0 <;> rfl

theorem uPrepK_eq {α : Type} (e3 x0 : Int32) (ML MG L G ML0 MG0 L0 G0 tiny : Bool) (t : Int32)
    (k : Int32 → Bool → Bool → Bool → Bool → Bool → Bool → Bool → Bool → Bool → Except String α) :
    uPrepK e3 x0 ML MG L G ML0 MG0 L0 G0 tiny t k = k (c_EXP_MIN_UNBIASED - e3) false false false false ML MG L G true := rfl

/-- the tiny test at the least exponent -/
theorem tinyK_spec {α : Type} (res : U128) (ML G tiny : Bool) (t : Int32) (k : Bool → Except String α)
    (c : Nat) (hres : val128 res = c) (hc : c < 2 ^ 113) :
    tinyK res ML G tiny t k = k (tiny || (decide (c < P33) || (decide (c = P33) && (G || ML)))) := by
  have hm := mask_coeff_id res.w1 (hi_small res (by rw [hres]; exact hc))
  have hm2 : res.w1 &&& (0x7fffffffffffffff : UInt64) = res.w1 := by
    have := hi_small res (by rw [hres]; exact hc)
    rw [← UInt64.toNat_inj, UInt64.toNat_and, show (0x7fffffffffffffff : UInt64).toNat = 2 ^ 63 - 1 from by decide,
      Nat.and_two_pow_sub_one_eq_mod]
    omega
  unfold tinyK
  simp only [bind, Except.bind, pure, Except.pure]
  rw [hm, hm2, lt_p33, eq_p33, hres]
  cases tiny <;> cases decide (c < P33) <;> cases decide (c = P33) <;> cases G <;> cases ML <;> rfl


open Dec.RH (Ind)
open Dec.Rs Dec.Gen.Code
open Dec.C03GenCompare (val128 val256)
open Dec.C02GenCorrection (i32_add1 deliver)

/-- **same signs, at most 34 digits: the tie-break repair** with the carry into `10^34` renormalised; the branch that returns a
zero is not taken (`hnz`) -/
theorem sameLsbK_spec (p1 p2 p3 p4 : Bool) (rnd_mode : RoundingMode) (pfpsf : UInt32) (res : U128) (z_sign : UInt64)
    (e3 scale ind x0 : Int32) (ML MG L G ML0 MG0 L0 G0 incr_exp lsb is_tiny : Bool) (R64 tmp64 : UInt64)
    (P128 R128 : U128) (P192 R192 : U192) (R256 : U256)
    (k : Bool → Bool → Bool → Bool → U128 → UInt64 → Int32 → Bool → Bool → Except String
      (ForInStep (Option (U128 × Bool × Bool × Bool × Bool × UInt32) × (Bool × Bool × Bool × Bool × UInt32 × U128 × UInt64 × Int32 × Int32 × Int32 × Int32 × Bool × Bool × Bool × Bool × Bool × Bool × Bool × Bool × Bool × Bool × Bool × UInt64 × UInt64 × U128 × U128 × U192 × U192 × U256))))
    (c1 : Nat) (E : Int) (hres : val128 res = c1) (hc1 : c1 ≤ P34 - 1) (he3 : e3.toInt = E) (hE : -2^30 < E ∧ E < 2^30)
    (hnz : 1 ≤ (lsbFixSame lsb c1 ⟨ML, MG, L, G⟩).1) :
    ∃ (r : U128) (e3' : Int32),
      sameLsbK p1 p2 p3 p4 rnd_mode pfpsf res z_sign e3 scale ind x0 ML MG L G ML0 MG0 L0 G0 incr_exp lsb is_tiny R64 tmp64
          P128 R128 P192 R192 R256 k =
        k p1 p2 p3 p4 r z_sign e3' (lsbFixSame lsb c1 ⟨ML, MG, L, G⟩).2.midLtEven (lsbFixSame lsb c1 ⟨ML, MG, L, G⟩).2.midGtEven ∧
      (lsbFixSame lsb c1 ⟨ML, MG, L, G⟩).2.inexLtMid = L ∧ (lsbFixSame lsb c1 ⟨ML, MG, L, G⟩).2.inexGtMid = G ∧
      ((val128 r = (lsbFixSame lsb c1 ⟨ML, MG, L, G⟩).1 ∧ e3'.toInt = E ∧ (lsbFixSame lsb c1 ⟨ML, MG, L, G⟩).1 ≠ P34) ∨
       ((lsbFixSame lsb c1 ⟨ML, MG, L, G⟩).1 = P34 ∧ val128 r = P33 ∧ e3'.toInt = E + 1)) := by
  have h113 : (2 : Nat) ^ 113 < 2 ^ 128 := by decide
  have e34 : P34 = 10000000000000000000000000000000000 := rfl
  have hP : P34 < 2 ^ 113 := by decide
  have hm := mask_coeff_id res.w1 (hi_small res (by rw [hres]; omega))
  unfold sameLsbK
  simp only [bind, Except.bind, pure, Except.pure]
  rw [hm]
  have hstruct : ({ res with w1 := res.w1 } : U128) = res := rfl
  cases lsb
  · -- even: nothing to repair
    simp only [Bool.false_eq_true, if_false]
    have hfix : (lsbFixSame false c1 ⟨ML, MG, L, G⟩) = (c1, ⟨ML, MG, L, G⟩) := rfl
    rw [hfix]
    exact ⟨_, _, rfl, rfl, rfl, Or.inl ⟨hres, he3, by simp only []; omega⟩⟩
  · simp only [if_true]
    cases MG
    · cases ML
      · simp only [Bool.false_eq_true, if_false]
        have hfix : (lsbFixSame true c1 ⟨false, false, L, G⟩) = (c1, ⟨false, false, L, G⟩) := rfl
        rw [hfix]
        exact ⟨_, _, rfl, rfl, rfl, Or.inl ⟨hres, he3, by simp only []; omega⟩⟩
      · -- one unit down
        simp only [Bool.false_eq_true, if_false, if_true]
        have hfix : (lsbFixSame true c1 ⟨true, false, L, G⟩) = (c1 - 1, ⟨false, true, L, G⟩) := rfl
        rw [hfix] at hnz ⊢
        simp only [] at hnz
        have hw := wdec res (by rw [hres]; omega)
        have hz : ∀ r : U128, val128 r = c1 - 1 → ((r.w1 == (0 : UInt64)) && (r.w0 == (0 : UInt64))) = false := by
          intro r hr; rw [zero_test, hr]; exact decide_eq_false (by omega)
        by_cases c : (res.w0 - 1 == (0xffffffffffffffff : UInt64)) = true
        · rw [if_pos c] at hw ⊢
          rw [hres] at hw
          rw [hz _ hw]
          rw [if_neg (by decide)]
          exact ⟨_, _, rfl, rfl, rfl, Or.inl ⟨hw, he3, by show c1 - 1 ≠ P34; omega⟩⟩
        · rw [if_neg c] at hw ⊢
          rw [hres] at hw
          rw [hz _ hw]
          rw [if_neg (by decide)]
          exact ⟨_, _, rfl, rfl, rfl, Or.inl ⟨hw, he3, by show c1 - 1 ≠ P34; omega⟩⟩
    · -- one unit up
      simp only [if_true]
      have hfix : (lsbFixSame true c1 ⟨ML, true, L, G⟩) = (c1 + 1, ⟨true, false, L, G⟩) := rfl
      rw [hfix]
      have hw := winc res (by rw [hres]; omega)
      have key : ∀ r : U128, val128 r = c1 + 1 →
          ∃ (r' : U128) (e3' : Int32),
            (if ((r.w1 == (0x1ed09bead87c0 : UInt64)) && (r.w0 == (0x378d8e6400000000 : UInt64))) = true then
              k p1 p2 p3 p4 ⟨0x38c15b0a00000000, 0x314dc6448d93⟩ z_sign (e3 + 1) true false
             else k p1 p2 p3 p4 r z_sign e3 true false) = k p1 p2 p3 p4 r' z_sign e3' true false ∧
            ((val128 r' = c1 + 1 ∧ e3'.toInt = E ∧ c1 + 1 ≠ P34) ∨ (c1 + 1 = P34 ∧ val128 r' = P33 ∧ e3'.toInt = E + 1)) := by
        intro r hr
        rw [p34_test, hr]
        by_cases h34 : c1 + 1 = P34
        · rw [if_pos (by simpa using h34)]
          exact ⟨_, _, rfl, Or.inr ⟨h34, val128_p33, i32_add1 e3 E he3 (by omega) (by omega)⟩⟩
        · rw [if_neg (by simpa using h34)]
          exact ⟨_, _, rfl, Or.inl ⟨hr, he3, h34⟩⟩
      by_cases c : (res.w0 + 1 == (0 : UInt64)) = true
      · rw [if_pos c] at hw ⊢
        rw [hres] at hw
        obtain ⟨r', e3', h1, h2⟩ := key _ hw
        exact ⟨r', e3', h1, rfl, rfl, h2⟩
      · rw [if_neg c] at hw ⊢
        rw [hres] at hw
        obtain ⟨r', e3', h1, h2⟩ := key _ hw
        exact ⟨r', e3', h1, rfl, rfl, h2⟩


/-- **opposite signs: the indicators change sides, the tie-break is repaired** (carry into `10^34` renormalised; the branch that
returns a zero is not taken: `hnz`) -/
theorem diffFixK_spec (p1 p2 p3 p4 : Bool) (rnd_mode : RoundingMode) (pfpsf : UInt32) (res : U128) (z_sign : UInt64)
    (e3 scale ind x0 : Int32) (ML MG L G ML0 MG0 L0 G0 incr_exp lsb is_tiny : Bool) (R64 tmp64 : UInt64)
    (P128 R128 : U128) (P192 R192 : U192) (R256 : U256)
    (k : Bool → Bool → Bool → Bool → U128 → UInt64 → Int32 → Bool → Bool → Bool → Bool → Except String
      (ForInStep (Option (U128 × Bool × Bool × Bool × Bool × UInt32) × (Bool × Bool × Bool × Bool × UInt32 × U128 × UInt64 × Int32 × Int32 × Int32 × Int32 × Bool × Bool × Bool × Bool × Bool × Bool × Bool × Bool × Bool × Bool × Bool × UInt64 × UInt64 × U128 × U128 × U192 × U192 × U256))))
    (c1 : Nat) (E : Int) (hres : val128 res = c1) (hc1 : c1 ≤ P34) (he3 : e3.toInt = E) (hE : -2^30 < E ∧ E < 2^30)
    (hcan : Canon ⟨ML, MG, L, G⟩) (hnz : 1 ≤ (lsbFixDiff lsb c1 ⟨ML, MG, L, G⟩).1) :
    ∃ (r : U128) (e3' : Int32),
      diffFixK p1 p2 p3 p4 rnd_mode pfpsf res z_sign e3 scale ind x0 ML MG L G ML0 MG0 L0 G0 incr_exp lsb is_tiny R64 tmp64
          P128 R128 P192 R192 R256 k =
        k p1 p2 p3 p4 r z_sign e3' (lsbFixDiff lsb c1 ⟨ML, MG, L, G⟩).2.midLtEven (lsbFixDiff lsb c1 ⟨ML, MG, L, G⟩).2.midGtEven
          (lsbFixDiff lsb c1 ⟨ML, MG, L, G⟩).2.inexLtMid (lsbFixDiff lsb c1 ⟨ML, MG, L, G⟩).2.inexGtMid ∧
      ((val128 r = (lsbFixDiff lsb c1 ⟨ML, MG, L, G⟩).1 ∧ e3'.toInt = E) ∨
       ((lsbFixDiff lsb c1 ⟨ML, MG, L, G⟩).1 = P34 ∧ val128 r = P33 ∧ e3'.toInt = E + 1)) := by
  have h113 : (2 : Nat) ^ 113 < 2 ^ 128 := by decide
  have e34 : P34 = 10000000000000000000000000000000000 := rfl
  have hP : P34 < 2 ^ 113 := by decide
  unfold diffFixK
  simp only [bind, Except.bind, pure, Except.pure]
  -- the inexact and the no-repair cases: indicators only
  have plain : ∀ (fl' : Ind), lsbFixDiff lsb c1 ⟨ML, MG, L, G⟩ = (c1, fl') →
      ∃ (r : U128) (e3' : Int32), k p1 p2 p3 p4 res z_sign e3 fl'.midLtEven fl'.midGtEven fl'.inexLtMid fl'.inexGtMid =
        k p1 p2 p3 p4 r z_sign e3' (lsbFixDiff lsb c1 ⟨ML, MG, L, G⟩).2.midLtEven (lsbFixDiff lsb c1 ⟨ML, MG, L, G⟩).2.midGtEven
          (lsbFixDiff lsb c1 ⟨ML, MG, L, G⟩).2.inexLtMid (lsbFixDiff lsb c1 ⟨ML, MG, L, G⟩).2.inexGtMid ∧
        ((val128 r = (lsbFixDiff lsb c1 ⟨ML, MG, L, G⟩).1 ∧ e3'.toInt = E) ∨
         ((lsbFixDiff lsb c1 ⟨ML, MG, L, G⟩).1 = P34 ∧ val128 r = P33 ∧ e3'.toInt = E + 1)) := by
    intro fl' h
    rw [h]
    exact ⟨res, e3, rfl, Or.inl ⟨hres, he3⟩⟩
  rcases hcan with e | e | e | e | e <;> obtain ⟨rfl, rfl, rfl, rfl⟩ := Ind.mk.inj e
  · -- exact
    cases lsb <;> exact plain _ rfl
  · -- inexact, below the midpoint (of the product's rounding)
    cases lsb <;> exact plain _ rfl
  · cases lsb <;> exact plain _ rfl
  · -- midpoint, product rounded up
    cases lsb
    · exact plain _ rfl
    · -- one unit up
      simp only [Bool.false_eq_true, if_false, if_true, Bool.not_true]
      have hfix : (lsbFixDiff true c1 fML) = (c1 + 1, fML) := rfl
      have hfix' : (lsbFixDiff true c1 ⟨true, false, false, false⟩) = (c1 + 1, ⟨true, false, false, false⟩) := rfl
      rw [hfix']
      have hw := winc res (by rw [hres]; omega)
      have key : ∀ r : U128, val128 r = c1 + 1 →
          ∃ (r' : U128) (e3' : Int32),
            (if ((r.w1 == (0x1ed09bead87c0 : UInt64)) && (r.w0 == (0x378d8e6400000000 : UInt64))) = true then
              k p1 p2 p3 p4 ⟨0x38c15b0a00000000, 0x314dc6448d93⟩ z_sign (e3 + 1) true false false false
             else k p1 p2 p3 p4 r z_sign e3 true false false false) = k p1 p2 p3 p4 r' z_sign e3' true false false false ∧
            ((val128 r' = c1 + 1 ∧ e3'.toInt = E) ∨ (c1 + 1 = P34 ∧ val128 r' = P33 ∧ e3'.toInt = E + 1)) := by
        intro r hr
        rw [p34_test, hr]
        by_cases h34 : c1 + 1 = P34
        · rw [if_pos (by simpa using h34)]
          exact ⟨_, _, rfl, Or.inr ⟨h34, val128_p33, i32_add1 e3 E he3 (by omega) (by omega)⟩⟩
        · rw [if_neg (by simpa using h34)]
          exact ⟨_, _, rfl, Or.inl ⟨hr, he3⟩⟩
      by_cases c : (res.w0 + 1 == (0 : UInt64)) = true
      · rw [if_pos c] at hw ⊢
        rw [hres] at hw
        exact key _ hw
      · rw [if_neg c] at hw ⊢
        rw [hres] at hw
        exact key _ hw
  · -- midpoint, product rounded down
    cases lsb
    · exact plain _ rfl
    · -- one unit down
      simp only [Bool.false_eq_true, if_false, if_true, Bool.not_true]
      have hfix' : (lsbFixDiff true c1 ⟨false, true, false, false⟩) = (c1 - 1, ⟨false, true, false, false⟩) := rfl
      rw [hfix'] at hnz ⊢
      have hnz' : 1 ≤ c1 - 1 := hnz
      have hw := wdec res (by rw [hres]; omega)
      have hz : ∀ r : U128, val128 r = c1 - 1 → ((r.w1 == (0 : UInt64)) && (r.w0 == (0 : UInt64))) = false := by
        intro r hr; rw [zero_test, hr]; exact decide_eq_false (by omega)
      by_cases c : (res.w0 - 1 == (0xffffffffffffffff : UInt64)) = true
      · rw [if_pos c] at hw ⊢
        rw [hres] at hw
        rw [hz _ hw, if_neg (by decide)]
        exact ⟨_, _, rfl, Or.inl ⟨hw, he3⟩⟩
      · rw [if_neg c] at hw ⊢
        rw [hres] at hw
        rw [hz _ hw, if_neg (by decide)]
        exact ⟨_, _, rfl, Or.inl ⟨hw, he3⟩⟩


open Dec.RH (Ind)
open Dec.Rs Dec.Gen.Code
open Dec.C03GenCompare (val128 val256)
open Dec.C02RoundHelpers (Spec rne)
open Dec.C02GenRound (v128)

/-! ### the digit count of `res` (`take_while(..).count()` over the tables of powers of ten)

`countWhileAux_spec`, `count64`, `count128` are the lemmas of `C02GenFmaLow` (block "Low", where the same idiom occurs in
`bid_add_and_round`), repeated here so that the two files do not depend on each other. -/

theorem countWhileAux_spec {α : Type} (get : Nat → Except String α) (p : α → Bool) (m : Nat) :
    ∀ (n i acc : Nat), (∀ j, i ≤ j → j < i + n → ∃ v, get j = .ok v ∧ p v = decide (j < m)) →
      countWhileAux get p n i acc = .ok (acc + (min (i + n) (max m i) - i)) := by
  intro n
  induction n with
  | zero => intro i acc _; simp [countWhileAux]
  | succ n ih =>
    intro i acc h
    obtain ⟨v, hv, hp⟩ := h i (le_refl _) (by omega)
    unfold countWhileAux
    simp only [bind, Except.bind, hv]
    by_cases him : i < m
    · rw [hp, decide_eq_true him, if_pos rfl, ih (i + 1) (acc + 1) (fun j h1 h2 => h j (by omega) (by omega))]
      congr 1; omega
    · rw [hp, decide_eq_false him]
      simp only [Bool.false_eq_true, if_false, pure, Except.pure]
      congr 1; omega

theorem pow_le_iff_lt_ndigits (R j : Nat) : 10 ^ j ≤ R ↔ j < ndigits R := by
  by_cases h : 0 < R
  · exact (lt_ndigits_iff h).symm
  · have : R = 0 := by omega
    subst this
    rw [ndigits_zero]
    have : 0 < 10 ^ j := Nat.pow_pos (by decide)
    omega

theorem ten64_get (j : Nat) (hj : j < 20) :
    ∃ v, tbl64 Dec.Gen.BID_TEN2K64 (UInt64.ofNat j) = .ok v ∧ v.toNat = 10 ^ j := by
  obtain ⟨v, hv, hv10⟩ := Dec.C03GenCompare.tbl64_ten (UInt64.ofNat j) (by rw [UInt64.toNat_ofNat', Nat.mod_eq_of_lt (by omega)]; exact hj)
  exact ⟨v, hv, by rw [hv10, UInt64.toNat_ofNat', Nat.mod_eq_of_lt (by omega)]⟩

theorem ten128_get (j : Nat) (hj : j < 19) :
    ∃ v, tbl128 Dec.Gen.BID_TEN2K128 (UInt64.ofNat j) = .ok v ∧ val128 v = 10 ^ (j + 20) := by
  obtain ⟨v, hv, hv10⟩ := Dec.C03GenCompare.tbl128_ten (UInt64.ofNat j) (by rw [UInt64.toNat_ofNat', Nat.mod_eq_of_lt (by omega)]; exact hj)
  exact ⟨v, hv, by rw [hv10, UInt64.toNat_ofNat', Nat.mod_eq_of_lt (by omega)]⟩

/-- the count over `BID_TEN2K64[1..=19]` -/
theorem count64 (w : UInt64) :
    countWhile64 Dec.Gen.BID_TEN2K64 1 19 (fun x => decide (w ≥ x))
      = .ok (UInt64.ofNat (min 20 (max (ndigits w.toNat) 1) - 1)) := by
  unfold countWhile64
  obtain ⟨v19, h19, -⟩ := ten64_get 19 (by omega)
  rw [h19]
  simp only [bind, Except.bind, pure, Except.pure]
  rw [countWhileAux_spec _ _ (ndigits w.toNat) (19 + 1 - 1) 1 0 (fun j h1 h2 => by
    obtain ⟨v, hv, hv10⟩ := ten64_get j (by omega)
    refine ⟨v, hv, ?_⟩
    rw [decide_eq_decide, ge_iff_le, UInt64.le_iff_toNat_le, hv10]
    exact pow_le_iff_lt_ndigits _ _)]
  simp

/-- the count over `BID_TEN2K128[1..=18]` -/
theorem count128 (w1 w0 : UInt64) :
    countWhile128 Dec.Gen.BID_TEN2K128 1 18
        (fun d => !((decide (w1 < d.w1)) || ((w1 == d.w1) && (decide (w0 < d.w0)))))
      = .ok (UInt64.ofNat (min 19 (max (ndigits (w1.toNat * 2 ^ 64 + w0.toNat) - 20) 1) - 1)) := by
  unfold countWhile128
  obtain ⟨v18, h18, -⟩ := ten128_get 18 (by omega)
  rw [h18]
  simp only [bind, Except.bind, pure, Except.pure]
  rw [countWhileAux_spec _ _ (ndigits (w1.toNat * 2 ^ 64 + w0.toNat) - 20) (18 + 1 - 1) 1 0 (fun j h1 h2 => by
    obtain ⟨v, hv, hv10⟩ := ten128_get j (by omega)
    refine ⟨v, hv, ?_⟩
    rw [Dec.C13GenNoncomp.lt128, ← decide_not, decide_eq_decide]
    unfold val128 at hv10
    rw [hv10]
    have := pow_le_iff_lt_ndigits (w1.toNat * 2 ^ 64 + w0.toNat) (j + 20)
    omega)]
  simp

theorem ofIdx (k : Nat) (hk : k < 2 ^ 20) : (Int32.ofInt (toI (UInt64.ofNat k))).toInt = k := by
  show (Int32.ofInt ((UInt64.ofNat k).toNat : Int)).toInt = k
  rw [UInt64.toNat_ofNat', Nat.mod_eq_of_lt (by omega), Int32.toInt_ofInt]
  exact Dec.C13GenNoncomp.bmod32 _ (by omega) (by omega)

/-- **the number of decimal digits of `res`** (`1 ≤ res < 10^38`) -/
theorem ndigK_spec {α : Type} (res : U128) (ind : Int32) (k : Int32 → Except String α) (c : Nat) (hres : val128 res = c)
    (hc0 : 0 < c) (hc : c < 10 ^ 38) :
    ∃ i : Int32, ndigK res ind k = k i ∧ i.toInt = ndigits c := by
  have hl := res.w0.toNat_lt
  have hN1 : 1 ≤ ndigits c := ndigits_pos hc0
  have hN38 : ndigits c ≤ 38 := (ndigits_le_iff hc0).2 hc
  unfold ndigK
  simp only [bind, Except.bind, pure, Except.pure]
  by_cases hw1 : res.w1.toNat = 0
  · -- one word
    rw [if_pos (by rw [beq_iff_eq, ← UInt64.toNat_inj]; exact hw1)]
    have hw0 : res.w0.toNat = c := by unfold val128 at hres; rw [hw1] at hres; omega
    rw [count64, hw0]
    simp only []
    have hN20 : ndigits c ≤ 20 := by
      rw [ndigits_le_iff hc0]
      calc c < 2 ^ 64 := by omega
        _ < 10 ^ 20 := by norm_num
    refine ⟨_, rfl, ?_⟩
    have e : min 20 (max (ndigits c) 1) - 1 = ndigits c - 1 := by omega
    rw [e, i32_add' _ 1 ((ndigits c - 1 : Nat) : Int) 1 (ofIdx _ (by omega)) rfl (by omega) (by omega)]
    omega
  · rw [if_neg (by rw [beq_iff_eq, ← UInt64.toNat_inj]; exact hw1)]
    obtain ⟨v0, h0, hv0⟩ := ten128_get 0 (by omega)
    have e0 : UInt64.ofInt (toI 0) = UInt64.ofNat 0 := rfl
    rw [e0, h0]
    simp only []
    have hlt : (if decide (res.w1 < v0.w1) = true then Except.ok true
        else (if (res.w1 == v0.w1) = true then Except.ok (decide (res.w0 < v0.w0)) else Except.ok false : Except String Bool)) =
        .ok (decide (c < 10 ^ 20)) := by
      have : (decide (res.w1 < v0.w1) || ((res.w1 == v0.w1) && decide (res.w0 < v0.w0))) = decide (c < 10 ^ 20) := by
        rw [Dec.C13GenNoncomp.lt128, decide_eq_decide]
        unfold val128 at hv0 hres
        rw [hv0, hres]
      rw [← this]
      cases decide (res.w1 < v0.w1) <;> cases (res.w1 == v0.w1) <;> rfl
    rw [hlt]
    simp only []
    have hc64 : 2 ^ 64 ≤ c := by
      unfold val128 at hres
      have : 2 ^ 64 ≤ res.w1.toNat * 2 ^ 64 := Nat.le_mul_of_pos_left _ (by omega)
      omega
    have hN20 : 20 ≤ ndigits c := by
      have : 19 < ndigits c := (lt_ndigits_iff hc0).2 (by
        calc (10 : Nat) ^ 19 ≤ 2 ^ 64 := by norm_num
          _ ≤ c := hc64)
      omega
    by_cases h20 : c < 10 ^ 20
    · rw [if_pos (by simpa using h20)]
      refine ⟨_, rfl, ?_⟩
      have : ndigits c ≤ 20 := (ndigits_le_iff hc0).2 h20
      show ((20 : Nat) : Int) = _
      omega
    · rw [if_neg (by simpa using h20)]
      have hres' : res.w1.toNat * 2 ^ 64 + res.w0.toNat = c := hres
      rw [count128, hres']
      simp only []
      have hN21 : 21 ≤ ndigits c := by
        have : 20 < ndigits c := (lt_ndigits_iff hc0).2 (by omega)
        omega
      refine ⟨_, rfl, ?_⟩
      have e : min 19 (max (ndigits c - 20) 1) - 1 = ndigits c - 21 := by omega
      rw [e]
      have a1 := i32_add' _ 1 ((ndigits c - 21 : Nat) : Int) 1 (ofIdx _ (by omega)) rfl (by omega) (by omega)
      rw [i32_add' _ 0x14 _ 20 a1 rfl (by omega) (by omega)]
      omega


example : ndigK ⟨0, 1⟩ 0 (fun i => .ok i) = .ok 20 ∧ ndigK ⟨12345, 0⟩ 0 (fun i => .ok i) = .ok 5 ∧
    ndigK ⟨0x378d8e63ffffffff, 0x1ed09bead87c0⟩ 0 (fun i => .ok i) = .ok 34 := by decide +kernel


open Dec.RH (Ind)
open Dec.Rs Dec.Gen.Code
open Dec.C03GenCompare (val128 val256)
open Dec.C02RoundHelpers (Spec rne)
open Dec.C02GenRound (v128)

set_option maxHeartbeats 1000000 in
/-- **below the least exponent: `x0 = emin − e3` more digits removed** from the `ind`-digit `res`; for `x0 = ind` the result
is one unit with "rounded up" -/
theorem uRoundK_spec {α : Type} (res : U128) (ind x0 : Int32) (incr : Bool) (R64 : UInt64) (P128 : U128)
    (k : U128 → Bool → Bool → Bool → Bool → Bool → UInt64 → U128 → Except String α)
    (c N X : Nat) (hres : val128 res = c) (hind : ind.toInt = N) (hx : x0.toInt = X) (hN : N = ndigits c) (hc0 : 0 < c)
    (hN38 : N ≤ 38) (hX1 : 1 ≤ X) (hXN : X ≤ N) :
    ∃ (r : U128) (ML MG L G incr' : Bool) (R64' : UInt64) (P' : U128),
      uRoundK res ind x0 false false false false incr R64 P128 k = k r ML MG L G incr' R64' P' ∧
      ((X = N ∧ val128 r = 1 ∧ (⟨ML, MG, L, G⟩ : Ind) = fG) ∨ (X < N ∧ NE c (10 ^ X) (val128 r) ⟨ML, MG, L, G⟩)) := by
  have hcN : c < 10 ^ N := by rw [hN]; exact lt_pow_ndigits c
  unfold uRoundK
  simp only [bind, Except.bind, pure, Except.pure]
  by_cases hXeq : X = N
  · rw [if_pos (by rw [i32_beq, hx, hind, decide_eq_true_eq, hXeq])]
    exact ⟨_, _, _, _, _, _, _, _, rfl, Or.inl ⟨hXeq, by decide, rfl⟩⟩
  rw [if_neg (by rw [i32_beq, hx, hind, decide_eq_true_eq]; omega)]
  have hXN' : X + 1 ≤ N := by omega
  have hqe := i32_ofNat_eq ind N hind
  have hxe := i32_ofNat_eq x0 X hx
  have hd : (ind - x0).toInt = ((N - X : Nat) : Int) := by
    rw [i32_sub' ind x0 N X hind hx (by omega) (by omega)]; omega
  have hdle : decide (ind - x0 ≤ (0x13 : Int32)) = decide (N - X ≤ 19) := by
    rw [i32_le, hd, decide_eq_decide]; show ((N - X : Nat) : Int) ≤ 19 ↔ _; omega
  by_cases h18 : N ≤ 18
  · rw [if_pos (by rw [i32_le, hind, decide_eq_true_eq]; show (N : Int) ≤ 18; omega)]
    have hw0 : res.w0.toNat = c := by
      have : c < 10 ^ 18 := lt_of_lt_of_le hcN (Nat.pow_le_pow_right (by decide) h18)
      have : (10 : Nat) ^ 18 < 2 ^ 64 := by decide
      have := res.w0.toNat_lt
      unfold val128 at hres; omega
    obtain ⟨cs, ic, lt, gt, ilt, igt, hcall, sp⟩ := Dec.C02GenRound.bid_round64_2_18_spec N X res.w0 (by omega) h18 hX1 hXN'
      (by rw [hw0]; exact hcN)
    rw [r64_incr, hqe, hxe, hcall]
    simp only []
    rw [hw0] at sp
    obtain ⟨u1, u2⟩ := spec_undo sp hXN'
    have hne := spec_NE N X c _ ic ⟨lt, gt, ilt, igt⟩ sp hX1
    cases ic
    · simp only [Bool.false_eq_true, if_false]
      refine ⟨_, _, _, _, _, _, _, _, rfl, Or.inr ⟨by omega, ?_⟩⟩
      have : val128 (⟨cs, 0⟩ : U128) = rne c X := by
        unfold val128; simp only [UInt64.toNat_zero]; rw [u2 rfl]; omega
      rw [this]; exact hne
    · simp only [if_true]
      obtain ⟨v, hv, hv10⟩ := ten64 (Int32.ofNat N - Int32.ofNat X) (N - X) (by rw [← hqe, ← hxe]; exact hd) (by omega)
      rw [hv]
      simp only []
      refine ⟨_, _, _, _, _, _, _, _, rfl, Or.inr ⟨by omega, ?_⟩⟩
      have : val128 (⟨v, 0⟩ : U128) = rne c X := by
        unfold val128; simp only [UInt64.toNat_zero]; rw [hv10, (u1 rfl).2]; omega
      rw [this]; exact hne
  rw [if_neg (by rw [i32_le, hind, decide_eq_true_eq]; show ¬ (N : Int) ≤ 18; omega)]
  rw [if_pos (by rw [i32_le, hind, decide_eq_true_eq]; show (N : Int) ≤ 38; omega)]
  have hv2 : v128 (⟨res.w0, res.w1⟩ : U128) = c := by rw [v128_val]; exact hres
  obtain ⟨cs, ic, lt, gt, ilt, igt, hcall, sp⟩ := Dec.C02GenRound.bid_round128_19_38_spec N X ⟨res.w0, res.w1⟩ (by omega) hN38 hX1 hXN'
    (by rw [hv2]; exact hcN)
  rw [r128_incr, hqe, hxe, hcall]
  simp only []
  rw [hv2, v128_val] at sp
  obtain ⟨u1, u2⟩ := spec_undo sp hXN'
  have hne := spec_NE N X c _ ic ⟨lt, gt, ilt, igt⟩ sp hX1
  cases ic
  · simp only [Bool.false_eq_true, if_false]
    refine ⟨_, _, _, _, _, _, _, _, rfl, Or.inr ⟨by omega, ?_⟩⟩
    rw [u2 rfl]; exact hne
  · simp only [if_true]
    rw [← hqe, ← hxe, hdle]
    have hw : cs.w1.toNat * 2 ^ 64 + cs.w0.toNat = 10 ^ (N - X - 1) := (u1 rfl).1
    have hr := (u1 rfl).2
    by_cases h19 : N - X ≤ 19
    · obtain ⟨v, hv, hv10⟩ := ten64 (ind - x0) (N - X) hd h19
      rw [if_pos (by simpa using h19), hv]
      simp only []
      refine ⟨_, _, _, _, _, _, _, _, rfl, Or.inr ⟨by omega, ?_⟩⟩
      have : 10 ^ (N - X - 1) ≤ 10 ^ 18 := Nat.pow_le_pow_right (by decide) (by omega)
      have : (10 : Nat) ^ 18 < 2 ^ 64 := by decide
      have hw1 : cs.w1.toNat = 0 := by have := cs.w0.toNat_lt; omega
      have : val128 (⟨v, cs.w1⟩ : U128) = rne c X := by
        unfold val128; simp only []; rw [hw1, hv10, hr, Nat.zero_mul, Nat.zero_add]
      rw [this]; exact hne
    · obtain ⟨v, hv, hv10⟩ := ten128 (ind - x0) (N - X) hd (by omega) (by omega)
      rw [if_neg (by simpa using h19), hv]
      simp only []
      refine ⟨_, _, _, _, _, _, _, _, rfl, Or.inr ⟨by omega, ?_⟩⟩
      have : val128 (⟨v.w0, v.w1⟩ : U128) = rne c X := by rw [hr, ← hv10]
      rw [this]; exact hne


-- 9123 (four digits) with four digits to go: one unit, "rounded up"
example : uRoundK ⟨9123, 0⟩ 4 4 false false false false false 0 ⟨0, 0⟩ (fun r ML MG L G _ _ _ => .ok (r, ML, MG, L, G)) =
    .ok (⟨1, 0⟩, false, false, false, true) := by decide +kernel


open Dec.RH (Ind)
open Dec.Rs Dec.Gen.Code
open Dec.C03GenCompare (val128 val256)
open Dec.C02GenCorrection (modeOf)

/-! ## 11. The stages composed -/

/-- the loop state -/
abbrev LSt := Bool × Bool × Bool × Bool × UInt32 × U128 × UInt64 × Int32 × Int32 × Int32 × Int32 × Bool × Bool × Bool × Bool × Bool × Bool × Bool × Bool × Bool × Bool × Bool × UInt64 × UInt64 × U128 × U128 × U192 × U192 × U256
/-- what a turn of the loop returns -/
abbrev StepT := ForInStep (Option (U128 × Bool × Bool × Bool × Bool × UInt32) × LSt)

/-- the turn ends the routine with the result word `w` and the status word `pf` -/
def Done (x : Except String StepT) (w : U128) (pf : UInt32) : Prop :=
  ∃ (a b c d : Bool) (st : LSt), x = .ok (ForInStep.done (some (w, a, b, c, d, pf), st))

/-- what the specification says the block returns for the exact value `±V·10^m` (preferred exponent `m`) -/
def specW (rm : RoundingMode) (s : Bool) (V : Nat) (m : Int) : U128 :=
  Dec.C17GenNext.ofBits (encode (finish (modeOf rm) s V 1 m m).1)
def specF (rm : RoundingMode) (s : Bool) (V : Nat) (m : Int) (pf : UInt32) : UInt32 :=
  pf ||| UInt32.ofNat (finish (modeOf rm) s V 1 m m).2

/-- **the final stage ends the routine with the specified result** -/
theorem finalK_done (p1 p2 p3 p4 : Bool) (rm : RoundingMode) (pf : UInt32) (res : U128) (zs : UInt64)
    (e3 scale ind x0 : Int32) (ML MG L G ML0 MG0 L0 G0 incr lsb tiny : Bool) (R64 tmp64 : UInt64)
    (P128 R128 : U128) (P192 R192 : U192) (R256 : U256)
    (s : Bool) (V : Nat) (m : Int) (c : Nat) (Ec : Int)
    (hres : val128 res = c) (he3 : e3.toInt = Ec) (hzs : zs.toNat = (if s = true then 1 else 0) * 2^63)
    (hV : 0 < V) (hmx : m ≤ eMax) (hEc : -6176 ≤ Ec ∧ Ec ≤ 6300)
    (hpre : FinalPre V m c Ec ML MG L G tiny) :
    Done (finalK p1 p2 p3 p4 rm pf res zs e3 scale ind x0 ML MG L G ML0 MG0 L0 G0 incr lsb tiny R64 tmp64 P128 R128 P192 R192 R256)
      (specW rm s V m) (specF rm s V m pf) := by
  rw [finalK_eq, finalN_spec rm pf res zs e3 ML MG L G tiny s V m c Ec hres he3 hzs hV hmx hEc hpre]
  exact ⟨_, _, _, _, _, rfl⟩


theorem i32_emin : c_EXP_MIN_UNBIASED.toInt = -6176 := rfl

theorem ndigits_ge_of_nine (c X : Nat) (hX : 1 ≤ X) (h : 9 * 10 ^ (X - 1) ≤ c) : X ≤ ndigits c := by
  have hp : 0 < 10 ^ (X - 1) := Nat.pow_pos (by decide)
  have hc0 : 0 < c := by omega
  have : X - 1 < ndigits c := (lt_ndigits_iff hc0).2 (by omega)
  omega

theorem ndigits_le35 (c : Nat) (hc0 : 0 < c) (h : c ≤ P34) : ndigits c ≤ 35 ∧ c < 10 ^ 38 := by
  have e34 : P34 = 10 ^ 34 := by decide
  have : c < 10 ^ 35 := by rw [e34] at h; have : (10:Nat) ^ 34 < 10 ^ 35 := by norm_num
                           omega
  exact ⟨(ndigits_le_iff hc0).2 this, lt_trans this (by norm_num)⟩


/-! ### the piece specifications as rules: to show `Q` of a piece with continuation `k`, show `Q` of `k` on what the piece
hands on -/

theorem ndigK_rule {α : Type} (Q : Except String α → Prop) (res : U128) (ind : Int32) (k : Int32 → Except String α) (c : Nat)
    (hres : val128 res = c) (hc0 : 0 < c) (hc : c < 10 ^ 38) (h : ∀ i : Int32, i.toInt = ndigits c → Q (k i)) :
    Q (ndigK res ind k) := by
  obtain ⟨i, hi, hiv⟩ := ndigK_spec res ind k c hres hc0 hc
  rw [hi]; exact h i hiv

theorem uRoundK_rule {α : Type} (Q : Except String α → Prop) (res : U128) (ind x0 : Int32) (incr : Bool) (R64 : UInt64) (P128 : U128)
    (k : U128 → Bool → Bool → Bool → Bool → Bool → UInt64 → U128 → Except String α)
    (c N X : Nat) (hres : val128 res = c) (hind : ind.toInt = N) (hx : x0.toInt = X) (hN : N = ndigits c) (hc0 : 0 < c)
    (hN38 : N ≤ 38) (hX1 : 1 ≤ X) (hXN : X ≤ N)
    (h : ∀ (r : U128) (ML MG L G incr' : Bool) (R64' : UInt64) (P' : U128),
      ((X = N ∧ val128 r = 1 ∧ (⟨ML, MG, L, G⟩ : Ind) = fG) ∨ (X < N ∧ NE c (10 ^ X) (val128 r) ⟨ML, MG, L, G⟩)) →
      Q (k r ML MG L G incr' R64' P')) :
    Q (uRoundK res ind x0 false false false false incr R64 P128 k) := by
  obtain ⟨r, ML, MG, L, G, incr', R64', P', hr, hcase⟩ := uRoundK_spec res ind x0 incr R64 P128 k c N X hres hind hx hN hc0 hN38 hX1 hXN
  rw [hr]; exact h r ML MG L G incr' R64' P' hcase

set_option maxRecDepth 20000 in
set_option maxHeartbeats 1000000 in
/-- **the underflow check and the final stage**: from what the main stage establishes of its state to the specified result -/
theorem uflowRest_spec (p1 p2 p3 p4 : Bool) (rm : RoundingMode) (pf : UInt32) (res : U128) (zs : UInt64)
    (e3 scale ind x0 : Int32) (ML MG L G ML0 MG0 L0 G0 incr lsb : Bool) (R64 tmp64 : UInt64)
    (P128 R128 : U128) (P192 R192 : U192) (R256 : U256)
    (s : Bool) (V : Nat) (m : Int) (c : Nat) (Ec : Int)
    (hres : val128 res = c) (he3 : e3.toInt = Ec) (hzs : zs.toNat = (if s = true then 1 else 0) * 2^63)
    (hV : 0 < V) (hmx : m ≤ eMax) (hEc : -6300 ≤ Ec ∧ Ec ≤ 6300) (hc0 : 0 < c) (hc34 : c ≤ P34)
    (hmo : MainOut V m c Ec ⟨ML, MG, L, G⟩) :
    Done (uflowRestLit p1 p2 p3 p4 rm pf res zs e3 scale ind x0 ML MG L G ML0 MG0 L0 G0 incr lsb false R64 tmp64 P128 R128 P192 R192 R256)
      (specW rm s V m) (specF rm s V m pf) := by
  have hMin : eMin = -6176 := rfl
  have hP : P34 < 2 ^ 113 := by decide
  rw [uflowRestLit_eq]
  simp only []
  by_cases hE1 : Ec = -6176
  · -- the least exponent: the tiny test
    rw [if_pos (by rw [i32_beq, he3, i32_emin, decide_eq_true_eq]; exact hE1)]
    rw [tinyK_spec res ML G false e3 _ c hres (by omega)]
    have hpre := hmo.final_eq (by omega)
    refine finalK_done _ _ _ _ rm pf res zs e3 scale ind x0 ML MG L G ML0 MG0 L0 G0 incr lsb _ R64 tmp64 P128 R128 P192 R192 R256
      s V m c Ec hres he3 hzs hV hmx (by omega) ?_
    have : (false || (decide (c < P33) || (decide (c = P33) && (G || ML)))) = tinyAt c ⟨ML, MG, L, G⟩ := by
      unfold tinyAt; simp only [Bool.false_or]
    rw [this]; exact hpre
  rw [if_neg (by rw [i32_beq, he3, i32_emin, decide_eq_true_eq]; exact hE1)]
  by_cases hE2 : Ec < -6176
  · -- below the least exponent: more digits go
    rw [if_pos (by rw [i32_lt, he3, i32_emin, decide_eq_true_eq]; exact hE2)]
    have hup := hmo.lt (by omega)
    rw [uPrepK_eq]
    have hX : (c_EXP_MIN_UNBIASED - e3).toInt = (((eMin - Ec).toNat : Nat) : Int) := by
      rw [i32_sub' _ _ (-6176) Ec i32_emin he3 (by omega) (by omega)]; omega
    have hX1 : 1 ≤ (eMin - Ec).toNat := by omega
    obtain ⟨hN35, hc38⟩ := ndigits_le35 c hc0 hc34
    have hXN := ndigits_ge_of_nine c _ hX1 hup.dig
    refine ndigK_rule (fun x => Done x (specW rm s V m) (specF rm s V m pf)) res ind _ c hres hc0 hc38 (fun i hiv => ?_)
    have hN38 : ndigits c ≤ 38 := by omega
    refine uRoundK_rule (fun x => Done x (specW rm s V m) (specF rm s V m pf)) res i (c_EXP_MIN_UNBIASED - e3) incr R64 P128 _ c (ndigits c)
      (eMin - Ec).toNat hres hiv hX rfl hc0 hN38 hX1 hXN ?_
    intro r ML' MG' L' G' incr' R64' P' hcase
    rw [dblFixK_eq, uTailK_eq]
    have hE' : (e3 + (c_EXP_MIN_UNBIASED - e3)).toInt = -6176 := by
      rw [i32_add' e3 _ Ec _ he3 hX (by omega) (by omega)]; omega
    rcases hcase with ⟨hXeq, hr1, hfl⟩ | ⟨hXlt, hne⟩
    · -- all digits go: one unit
      have hcX : c < 10 ^ (eMin - Ec).toNat := by rw [hXeq]; exact lt_pow_ndigits c
      obtain ⟨hpre, hd1, ht1⟩ := U_one V m c Ec ⟨ML, MG, L, G⟩ hup hcX
      obtain ⟨rfl, rfl, rfl, rfl⟩ := Ind.mk.inj hfl
      have hflags : (dblFix 0 ⟨ML, MG, L, G⟩ ⟨false, false, false, true⟩).2 = fG := by
        rw [dblFix_snd 0 1]; exact congrArg Prod.snd hd1
      have hval : val128 (dblFixW r ⟨ML, MG, L, G⟩ ⟨false, false, false, true⟩) = 1 := by
        rw [dblFixW_val r _ _ (by omega) (by omega), hr1]; exact congrArg Prod.fst hd1
      have htl : (tailFix ⟨ML, MG, L, G⟩ ⟨(dblFix 0 ⟨ML, MG, L, G⟩ ⟨false, false, false, true⟩).2.midLtEven,
          (dblFix 0 ⟨ML, MG, L, G⟩ ⟨false, false, false, true⟩).2.midGtEven, (dblFix 0 ⟨ML, MG, L, G⟩ ⟨false, false, false, true⟩).2.inexLtMid,
          (dblFix 0 ⟨ML, MG, L, G⟩ ⟨false, false, false, true⟩).2.inexGtMid⟩).inexLtMid = false := by
        rw [show (⟨(dblFix 0 ⟨ML, MG, L, G⟩ ⟨false, false, false, true⟩).2.midLtEven,
          (dblFix 0 ⟨ML, MG, L, G⟩ ⟨false, false, false, true⟩).2.midGtEven, (dblFix 0 ⟨ML, MG, L, G⟩ ⟨false, false, false, true⟩).2.inexLtMid,
          (dblFix 0 ⟨ML, MG, L, G⟩ ⟨false, false, false, true⟩).2.inexGtMid⟩ : Ind) = (dblFix 0 ⟨ML, MG, L, G⟩ ⟨false, false, false, true⟩).2 from rfl,
          hflags, ht1]; rfl
      rw [htl, hflags]
      exact finalK_done _ _ _ _ rm pf _ zs _ scale i _ _ _ _ _ ML MG L G incr' lsb true R64' tmp64 P' R128 P192 R192 R256
        s V m 1 eMin hval hE' hzs hV hmx (by decide) hpre
    · -- the regular second rounding
      obtain ⟨hpre, ht1⟩ := U_round V m c Ec ⟨ML, MG, L, G⟩ hup (val128 r) ⟨ML', MG', L', G'⟩ hne
      have hc2 : 1 ≤ val128 r := by
        rcases Nat.eq_zero_or_pos (val128 r) with h0 | h0
        · exfalso
          have hn := hne.near.1
          rw [h0, Nat.zero_mul] at hn
          have hd := hup.dig
          obtain ⟨j, hj⟩ : ∃ j, (eMin - Ec).toNat = j + 1 := ⟨(eMin - Ec).toNat - 1, by omega⟩
          rw [hj, Nat.add_sub_cancel] at hd
          rw [hj, Nat.pow_succ] at hn
          omega
        · exact h0
      have hc2hi : val128 r + 1 < 2 ^ 128 := by
        have hn := hne.near.1
        have hp : 1 ≤ 10 ^ (eMin - Ec).toNat := Nat.pow_pos (by decide)
        have : val128 r * 1 ≤ val128 r * 10 ^ (eMin - Ec).toNat := Nat.mul_le_mul_left _ hp
        have : (2:Nat) ^ 113 < 2 ^ 128 - 2 := by decide
        have hn2 := hne.near.2
        by_contra hcon
        have h3 : 2 ^ 113 ≤ val128 r * 10 ^ (eMin - Ec).toNat := by omega
        have : 10 ^ (eMin - Ec).toNat ≤ val128 r * 10 ^ (eMin - Ec).toNat := Nat.le_mul_of_pos_left _ hc2
        omega
      have hval : val128 (dblFixW r ⟨ML, MG, L, G⟩ ⟨ML', MG', L', G'⟩) = (dblFix (val128 r) ⟨ML, MG, L, G⟩ ⟨ML', MG', L', G'⟩).1 :=
        dblFixW_val r _ _ hc2 hc2hi
      rw [dblFix_snd 0 (val128 r)]
      have htl : (tailFix ⟨ML, MG, L, G⟩ ⟨(dblFix (val128 r) ⟨ML, MG, L, G⟩ ⟨ML', MG', L', G'⟩).2.midLtEven,
          (dblFix (val128 r) ⟨ML, MG, L, G⟩ ⟨ML', MG', L', G'⟩).2.midGtEven, (dblFix (val128 r) ⟨ML, MG, L, G⟩ ⟨ML', MG', L', G'⟩).2.inexLtMid,
          (dblFix (val128 r) ⟨ML, MG, L, G⟩ ⟨ML', MG', L', G'⟩).2.inexGtMid⟩).inexLtMid =
          (dblFix (val128 r) ⟨ML, MG, L, G⟩ ⟨ML', MG', L', G'⟩).2.inexLtMid := by
        rw [show (⟨(dblFix (val128 r) ⟨ML, MG, L, G⟩ ⟨ML', MG', L', G'⟩).2.midLtEven,
          (dblFix (val128 r) ⟨ML, MG, L, G⟩ ⟨ML', MG', L', G'⟩).2.midGtEven, (dblFix (val128 r) ⟨ML, MG, L, G⟩ ⟨ML', MG', L', G'⟩).2.inexLtMid,
          (dblFix (val128 r) ⟨ML, MG, L, G⟩ ⟨ML', MG', L', G'⟩).2.inexGtMid⟩ : Ind) = (dblFix (val128 r) ⟨ML, MG, L, G⟩ ⟨ML', MG', L', G'⟩).2 from rfl,
          ht1]
      rw [htl]
      exact finalK_done _ _ _ _ rm pf _ zs _ scale i _ _ _ _ _ ML MG L G incr' lsb true R64' tmp64 P' R128 P192 R192 R256
        s V m _ eMin hval hE' hzs hV hmx (by decide) hpre
  · -- above the least exponent
    rw [if_neg (by rw [i32_lt, he3, i32_emin, decide_eq_true_eq]; exact hE2)]
    exact finalK_done _ _ _ _ rm pf res zs e3 scale ind x0 ML MG L G ML0 MG0 L0 G0 incr lsb false R64 tmp64 P128 R128 P192 R192 R256
      s V m c Ec hres he3 hzs hV hmx (by omega) (hmo.final_gt (by omega))


open Dec.RH (Ind)
open Dec.Rs Dec.Gen.Code
open Dec.C03GenCompare (val128 val256)
open Dec.C02GenCorrection (modeOf)

/-! ## 12. Interfaces: what the loop needs from the set-up of the cases, and the block's entry invariant -/

/-- **what the loop needs to know on entry** (after `setupK`): `c3 = C3` with `S = scale` zeros to append, `c4 = C4` (in Case (6)
already scaled) of which `X = x0` digits go, `E0 = e3`; `same`: the signs of product and addend agree; `V·10^m` is the exact
magnitude of the result (`m` the smaller exponent) -/
structure LoopPre (c3 c4 S X : Nat) (E0 : Int) (same : Bool) (m : Int) (V : Nat) : Prop where
  hc3 : 0 < c3
  hS : ndigits c3 + S ≤ 34
  hc4 : 0 < c4
  hQ4 : ndigits c4 ≤ 68
  hX : X = 0 ∨ X + 1 ≤ ndigits c4
  hfit : ndigits c4 - X ≤ 34
  h58 : 58 ≤ ndigits c4 → 1 ≤ X → 21 ≤ X
  h128 : X = 0 → c4 < P34
  hE0 : -6176 ≤ E0 ∧ E0 ≤ 6111
  hm : m + X = E0 - S
  hx33 : X = 0 ∨ ndigits c3 + S = 34
  hV : V = if same = true then c3 * 10 ^ S * 10 ^ X + c4 else c3 * 10 ^ S * 10 ^ X - c4
  hdom : same = false → 10 * c4 < c3 * 10 ^ S * 10 ^ X

/-- `LoopPre` for the block's SECOND use (after the operand exchange of Cases (9), (10), (13), (14), (18), when `c3` is the product
and its exponent `E0 = e1 + e2` may lie outside the format's range): instead of the range of `E0` only the position of the leading
digit of `c3` is known — not below `10^emin` (since `delta ≥ 0`) and not above `10^6177` (since `delta ≤ 33`) -/
structure LoopPreW (c3 c4 S X : Nat) (E0 : Int) (same : Bool) (m : Int) (V : Nat) : Prop where
  hc3 : 0 < c3
  hS : ndigits c3 + S ≤ 34
  hc4 : 0 < c4
  hQ4 : ndigits c4 ≤ 68
  hX : X = 0 ∨ X + 1 ≤ ndigits c4
  hfit : ndigits c4 - X ≤ 34
  h58 : 58 ≤ ndigits c4 → 1 ≤ X → 21 ≤ X
  h128 : X = 0 → c4 < P34
  hlead : eMin + 1 ≤ (ndigits c3 : Int) + E0 ∧ (ndigits c3 : Int) + E0 ≤ 6178
  hm : m + X = E0 - S
  hx33 : X = 0 ∨ ndigits c3 + S = 34
  hV : V = if same = true then c3 * 10 ^ S * 10 ^ X + c4 else c3 * 10 ^ S * 10 ^ X - c4
  hdom : same = false → 10 * c4 < c3 * 10 ^ S * 10 ^ X

/-- the first use is an instance of the second -/
theorem LoopPre.toW {c3 c4 S X : Nat} {E0 : Int} {same : Bool} {m : Int} {V : Nat} (h : LoopPre c3 c4 S X E0 same m V) :
    LoopPreW c3 c4 S X E0 same m V := by
  obtain ⟨hc3, hS, hc4, hQ4, hX, hfit, h58, h128, hE0, hm, hx33, hV, hdom⟩ := h
  have := ndigits_pos hc3
  have hMin : eMin = -6176 := rfl
  exact ⟨hc3, hS, hc4, hQ4, hX, hfit, h58, h128, ⟨by omega, by omega⟩, hm, hx33, hV, hdom⟩

/-- **the entry invariant of the block** (after the front end of `bid128_ext_fma`): `z = ±c3·10^E3` with `q3` digits, the exact
product `±c4·10^E4` with `q4` digits, `delta = q3 + e3 − q4 − e4` in `[0, 33]` (larger `delta` went to Cases (1)), the sign
words, `p34 = 34` -/
structure EntryInv (C3 : U128) (C4 : U256) (q3 q4 e3 e4 delta p34 : Int32) (z_sign p_sign : UInt64)
    (c3 c4 : Nat) (E3 E4 : Int) (sz sp : Bool) : Prop where
  hC3 : val128 C3 = c3
  hc3 : 0 < c3 ∧ c3 < P34
  hq3 : q3.toInt = ndigits c3
  he3 : e3.toInt = E3
  hE3 : -6176 ≤ E3 ∧ E3 ≤ 6111
  hC4 : val256 C4 = c4
  hc4 : 0 < c4 ∧ c4 < P34 * P34
  hq4 : q4.toInt = ndigits c4
  he4 : e4.toInt = E4
  hE4 : -12352 ≤ E4 ∧ E4 ≤ 12222
  hdelta : delta.toInt = (ndigits c3 : Int) + E3 - ndigits c4 - E4
  hdr : 0 ≤ delta.toInt ∧ delta.toInt ≤ 33
  hp34 : p34.toInt = 34
  hzs : z_sign.toNat = (if sz = true then 1 else 0) * 2 ^ 63
  hps : p_sign.toNat = (if sp = true then 1 else 0) * 2 ^ 63


open Dec.RH (Ind)
open Dec.Rs Dec.Gen.Code
open Dec.C03GenCompare (val128 val256)
open Dec.C02GenCorrection (modeOf)

theorem sameAddK_rule {α : Type} (Q : Except String α → Prop) (res : U128) (lsb : Bool) (R128 : U128)
    (k : U128 → Bool → Except String α) (h : val128 res + val128 R128 < 2 ^ 128)
    (hk : ∀ r : U128, val128 r = val128 res + val128 R128 → Q (k r (decide (val128 res % 2 = 1)))) :
    Q (sameAddK res lsb R128 k) := by
  obtain ⟨r, hr, hv⟩ := sameAddK_spec res lsb R128 k h
  rw [hr]; exact hk r hv

theorem diffSubK_rule {α : Type} (Q : Except String α → Prop) (res : U128) (lsb : Bool) (tmp64 : UInt64) (R128 : U128)
    (k : U128 → Bool → UInt64 → Except String α) (h : val128 R128 ≤ val128 res)
    (hk : ∀ (r : U128) (t : UInt64), val128 r = val128 res - val128 R128 → Q (k r (decide (val128 res % 2 = 1)) t)) :
    Q (diffSubK res lsb tmp64 R128 k) := by
  obtain ⟨r, t, hr, hv⟩ := diffSubK_spec res lsb tmp64 R128 k h
  rw [hr]; exact hk r t hv

theorem same35K_rule {α : Type} (Q : Except String α → Prop) (res : U128) (ML MG L G ML0 MG0 L0 G0 incr : Bool) (P128 : U128)
    (k : U128 → Bool → Bool → Bool → Bool → Bool → Bool → Bool → Bool → Bool → U128 → Except String α)
    (c1 : Nat) (hres : val128 res = c1) (hlo : P34 ≤ c1) (hhi : c1 < 2 * P34)
    (hk : ∀ (r : U128) (ML' MG' L' G' incr' : Bool) (P' : U128), NE c1 (10 ^ 1) (val128 r) ⟨ML', MG', L', G'⟩ →
      Q (k r ML' MG' L' G' ML MG L G incr' P')) :
    Q (same35K res ML MG L G ML0 MG0 L0 G0 incr P128 k) := by
  obtain ⟨r, ML', MG', L', G', incr', P', hr, hne⟩ := same35K_spec res ML MG L G ML0 MG0 L0 G0 incr P128 k c1 hres hlo hhi
  rw [hr]; exact hk r ML' MG' L' G' incr' P' hne


theorem sameLsbK_rule (Q : Except String StepT → Prop) (p1 p2 p3 p4 : Bool) (rnd_mode : RoundingMode) (pfpsf : UInt32) (res : U128)
    (z_sign : UInt64) (e3 scale ind x0 : Int32) (ML MG L G ML0 MG0 L0 G0 incr_exp lsb is_tiny : Bool) (R64 tmp64 : UInt64)
    (P128 R128 : U128) (P192 R192 : U192) (R256 : U256)
    (k : Bool → Bool → Bool → Bool → U128 → UInt64 → Int32 → Bool → Bool → Except String StepT)
    (c1 : Nat) (E : Int) (hres : val128 res = c1) (hc1 : c1 ≤ P34 - 1) (he3 : e3.toInt = E) (hE : -2^30 < E ∧ E < 2^30)
    (hnz : 1 ≤ (lsbFixSame lsb c1 ⟨ML, MG, L, G⟩).1)
    (hk : ∀ (r : U128) (e3' : Int32),
      (lsbFixSame lsb c1 ⟨ML, MG, L, G⟩).2.inexLtMid = L → (lsbFixSame lsb c1 ⟨ML, MG, L, G⟩).2.inexGtMid = G →
      ((val128 r = (lsbFixSame lsb c1 ⟨ML, MG, L, G⟩).1 ∧ e3'.toInt = E ∧ (lsbFixSame lsb c1 ⟨ML, MG, L, G⟩).1 ≠ P34) ∨
       ((lsbFixSame lsb c1 ⟨ML, MG, L, G⟩).1 = P34 ∧ val128 r = P33 ∧ e3'.toInt = E + 1)) →
      Q (k p1 p2 p3 p4 r z_sign e3' (lsbFixSame lsb c1 ⟨ML, MG, L, G⟩).2.midLtEven (lsbFixSame lsb c1 ⟨ML, MG, L, G⟩).2.midGtEven)) :
    Q (sameLsbK p1 p2 p3 p4 rnd_mode pfpsf res z_sign e3 scale ind x0 ML MG L G ML0 MG0 L0 G0 incr_exp lsb is_tiny R64 tmp64
          P128 R128 P192 R192 R256 k) := by
  obtain ⟨r, e3', hr, a, b, c⟩ := sameLsbK_spec p1 p2 p3 p4 rnd_mode pfpsf res z_sign e3 scale ind x0 ML MG L G ML0 MG0 L0 G0
    incr_exp lsb is_tiny R64 tmp64 P128 R128 P192 R192 R256 k c1 E hres hc1 he3 hE hnz
  rw [hr]; exact hk r e3' a b c

theorem ind_eta (x : Ind) (L G : Bool) (a : x.inexLtMid = L) (b : x.inexGtMid = G) :
    (⟨x.midLtEven, x.midGtEven, L, G⟩ : Ind) = x := by
  cases x; simp only at a b; subst a b; rfl

theorem dec_odd (A : Nat) : (decide (A % 2 = 1) = true ↔ A % 2 = 1) := by simp

set_option maxRecDepth 20000 in
set_option maxHeartbeats 1000000 in
/-- **same signs: from the sum to the result** -/
theorem sumRest_same (p1 p2 p3 p4 : Bool) (rm : RoundingMode) (pf : UInt32) (res : U128) (zs ps : UInt64)
    (e3 scale ind x0 : Int32) (ML MG L G ML0 MG0 L0 G0 incr lsb : Bool) (R64 tmp64 : UInt64)
    (P128 R128 : U128) (P192 R192 : U192) (R256 : U256)
    (s : Bool) (A T X : Nat) (E m : Int) (C4 R : Nat)
    (hsame : (zs == ps) = true) (ctx : Ctx A T X E m) (hA34 : A < P34) (hres : val128 res = A) (hR : val128 R128 = R)
    (hR34 : R ≤ P34) (h1 : NE C4 T R ⟨ML, MG, L, G⟩) (he3 : e3.toInt = E)
    (hzs : zs.toNat = (if s = true then 1 else 0) * 2^63) (hmx : m ≤ eMax) (hElo : -6300 ≤ E) :
    Done (sumRestLit p1 p2 p3 p4 rm pf res zs ps e3 scale ind x0 ML MG L G ML0 MG0 L0 G0 incr lsb false R64 tmp64 P128 R128 P192 R192 R256)
      (specW rm s (A * T + C4) m) (specF rm s (A * T + C4) m pf) := by
  have e34 : P34 = 10000000000000000000000000000000000 := rfl
  have e33 : P33 = 1000000000000000000000000000000000 := rfl
  have hT0 : 0 < T := by rw [ctx.hT]; exact Nat.pow_pos (by decide)
  have hA0 := ctx.hA0
  have hEhi := ctx.hE
  have hV : 0 < A * T + C4 := by have := Nat.mul_pos hA0 hT0; omega
  rw [sumRestLit_eq, if_pos hsame]
  refine sameAddK_rule (fun x => Done x _ _) res lsb R128 _ (by rw [hres, hR]; omega) (fun r hr => ?_)
  rw [hres, hR] at hr
  try simp only []
  rw [gt_p34m1, hr, hres]
  by_cases hbig : P34 - 1 < A + R
  · -- 35 digits
    rw [if_pos (by simpa using hbig)]
    refine same35K_rule (fun x => Done x _ _) r ML MG L G ML0 MG0 L0 G0 incr P128 _ (A + R) hr (by omega) (by omega)
      (fun r2 ML' MG' L' G' incr' P' hne => ?_)
    try simp only []
    rw [dblFixK_eq, sameTailK_eq]
    obtain ⟨hmo, htl⟩ := exit_same35 ctx hA34 C4 R ⟨ML, MG, L, G⟩ h1 hR34 (by omega) (val128 r2) ⟨ML', MG', L', G'⟩ hne
    have n2 := hne.near
    rw [show (10:Nat) ^ 1 = 10 from rfl] at n2
    have hc2 : P33 ≤ val128 r2 ∧ val128 r2 ≤ 2 * P33 := by omega
    have hval := dblFixW_val r2 ⟨ML, MG, L, G⟩ ⟨ML', MG', L', G'⟩ (by omega) (by omega)
    have hdis := dblFix_fst (val128 r2) ⟨ML, MG, L, G⟩ ⟨ML', MG', L', G'⟩
    rw [dblFix_snd 0 (val128 r2)]
    generalize hD : dblFix (val128 r2) ⟨ML, MG, L, G⟩ ⟨ML', MG', L', G'⟩ = D at *
    have htl' : (tailFix ⟨ML, MG, L, G⟩ ⟨D.2.midLtEven, D.2.midGtEven, D.2.inexLtMid, D.2.inexGtMid⟩).inexLtMid = D.2.inexLtMid := by
      rw [show (⟨D.2.midLtEven, D.2.midGtEven, D.2.inexLtMid, D.2.inexGtMid⟩ : Ind) = D.2 from rfl, htl]
    rw [htl']
    have he3' : (e3 + 1).toInt = E + 1 := Dec.C02GenCorrection.i32_add1 e3 E he3 (by omega) (by omega)
    have hEb : -6300 ≤ E + 1 ∧ E + 1 ≤ 6300 := by omega
    have hcp : 0 < D.1 := by omega
    have hc34' : D.1 ≤ P34 := by omega
    have hmo' : MainOut (A * T + C4) m D.1 (E + 1) ⟨D.2.midLtEven, D.2.midGtEven, D.2.inexLtMid, D.2.inexGtMid⟩ := hmo
    exact uflowRest_spec p1 p2 p3 p4 rm pf (dblFixW r2 ⟨ML, MG, L, G⟩ ⟨ML', MG', L', G'⟩) zs (e3 + 1) scale ind x0 D.2.midLtEven
      D.2.midGtEven D.2.inexLtMid D.2.inexGtMid ML MG L G incr' (decide (A % 2 = 1)) R64 tmp64 P' R128 P192 R192 R256
      s (A * T + C4) m D.1 (E + 1) hval he3' hzs hV hmx hEb hcp hc34' hmo'
  · -- at most 34 digits
    rw [if_neg (by simpa using hbig)]
    have hl := dec_odd A
    have hnz := lsbFixSame_pos h1 hT0 hA0 (decide (A % 2 = 1)) hl
    refine sameLsbK_rule (fun x => Done x _ _) p1 p2 p3 p4 rm pf r zs e3 scale ind x0 ML MG L G ML0 MG0 L0 G0 incr
      (decide (A % 2 = 1)) false R64 tmp64 P128 R128 P192 R192 R256 _ (A + R) E hr (by omega) he3 (by omega) hnz
      (fun r' e3' hL hG hcode => ?_)
    try simp only []
    have hcode' : (val128 r' = (lsbFixSame (decide (A % 2 = 1)) (A + R) ⟨ML, MG, L, G⟩).1 ∧ e3'.toInt = E) ∨
        ((lsbFixSame (decide (A % 2 = 1)) (A + R) ⟨ML, MG, L, G⟩).1 = P34 ∧ val128 r' = P33 ∧ e3'.toInt = E + 1) := by
      rcases hcode with ⟨a, b, -⟩ | h
      · exact Or.inl ⟨a, b⟩
      · exact Or.inr h
    obtain ⟨hmo, -⟩ := exit_same34 ctx hA34 C4 R ⟨ML, MG, L, G⟩ h1 (decide (A % 2 = 1)) hl (by omega) (val128 r') e3'.toInt hcode'
    have hflags : (⟨(lsbFixSame (decide (A % 2 = 1)) (A + R) ⟨ML, MG, L, G⟩).2.midLtEven,
        (lsbFixSame (decide (A % 2 = 1)) (A + R) ⟨ML, MG, L, G⟩).2.midGtEven, L, G⟩ : Ind) =
        (lsbFixSame (decide (A % 2 = 1)) (A + R) ⟨ML, MG, L, G⟩).2 := ind_eta _ L G hL hG
    rw [← hflags] at hmo
    have hcb : 0 < val128 r' ∧ val128 r' ≤ P34 ∧ e3'.toInt ≤ E + 1 ∧ E ≤ e3'.toInt := by
      have hdis := (lsbFixSame_NE (A := A) h1 hT0 (decide (A % 2 = 1)) hl).2
      rcases hcode' with ⟨a, b⟩ | ⟨a, b, c⟩
      · rw [a, b]; rcases hdis with h | ⟨h, -⟩ | ⟨h, h2⟩ <;> omega
      · rw [b, c]; omega
    exact uflowRest_spec p1 p2 p3 p4 rm pf r' zs e3' scale ind x0 _ _ L G ML0 MG0 L0 G0 incr (decide (A % 2 = 1)) R64 tmp64 P128 R128
      P192 R192 R256 s (A * T + C4) m (val128 r') e3'.toInt rfl rfl hzs hV hmx (by omega) (by omega) (by omega) hmo


open Dec.RH (Ind)
open Dec.Rs Dec.Gen.Code
open Dec.C03GenCompare (val128 val256)
open Dec.C02GenCorrection (modeOf)

theorem diffContK_eq (p1 p2 p3 p4 : Bool) (pf : UInt32) (res : U128) (zs : UInt64) (e3 scale ind x0 : Int32)
    (ML MG L G ML0 MG0 L0 G0 incr lsb tiny : Bool) (R64 tmp64 : UInt64) (P128 R128 : U128) (P192 R192 : U192) (R256 : U256) :
    diffContK p1 p2 p3 p4 pf res zs e3 scale ind x0 ML MG L G ML0 MG0 L0 G0 incr lsb tiny R64 tmp64 P128 R128 P192 R192 R256 =
      .ok (ForInStep.yield (none, (p1, p2, p3, p4, pf, res, zs, e3 + scale, scale + 1, ind, x0 - 1, false, false, false, false,
        ML0, MG0, L0, G0, false, lsb, tiny, R64, tmp64, P128, R128, P192, R192, R256))) := rfl

/-- the test "one more turn" -/
theorem repeat_test (r : U128) (e3 x0 : Int32) (L MG : Bool) (c1 : Nat) (E : Int) (X : Nat) (hr : val128 r = c1)
    (he3 : e3.toInt = E) (hx : x0.toInt = X) :
    (((decide (e3 > c_EXP_MIN_UNBIASED)) && (((((decide (r.w1 < (0x314dc6448d93 : UInt64))) || (((r.w1 == (0x314dc6448d93 : UInt64)) && (decide (r.w0 < (0x38c15b0a00000000 : UInt64))))))) || (((((L || MG)) && (r.w1 == (0x314dc6448d93 : UInt64))) && (r.w0 == (0x38c15b0a00000000 : UInt64))))))) && (decide (x0 ≥ (1 : Int32)))) =
      decide (eMin < E ∧ (c1 < P33 ∨ ((L || MG) = true ∧ c1 = P33)) ∧ 1 ≤ X) := by
  rw [lt_p33, Bool.and_assoc (L || MG), eq_p33, hr]
  have h1 : decide (e3 > c_EXP_MIN_UNBIASED) = decide (eMin < E) := by
    rw [Dec.C02GenCorrection.i32_gt, he3, i32_emin]; rfl
  have h2 : decide (x0 ≥ (1 : Int32)) = decide (1 ≤ X) := by
    rw [decide_eq_decide, ge_iff_le, Int32.le_iff_toInt_le, hx]; show (1 : Int) ≤ X ↔ _; omega
  rw [h1, h2, Bool.eq_iff_iff]
  simp only [Bool.and_eq_true, Bool.or_eq_true, decide_eq_true_eq]
  tauto


theorem diffFixK_rule (Q : Except String StepT → Prop) (p1 p2 p3 p4 : Bool) (rnd_mode : RoundingMode) (pfpsf : UInt32) (res : U128)
    (z_sign : UInt64) (e3 scale ind x0 : Int32) (ML MG L G ML0 MG0 L0 G0 incr_exp lsb is_tiny : Bool) (R64 tmp64 : UInt64)
    (P128 R128 : U128) (P192 R192 : U192) (R256 : U256)
    (k : Bool → Bool → Bool → Bool → U128 → UInt64 → Int32 → Bool → Bool → Bool → Bool → Except String StepT)
    (c1 : Nat) (E : Int) (hres : val128 res = c1) (hc1 : c1 ≤ P34) (he3 : e3.toInt = E) (hE : -2^30 < E ∧ E < 2^30)
    (hcan : Canon ⟨ML, MG, L, G⟩) (hnz : 1 ≤ (lsbFixDiff lsb c1 ⟨ML, MG, L, G⟩).1)
    (hk : ∀ (r : U128) (e3' : Int32),
      ((val128 r = (lsbFixDiff lsb c1 ⟨ML, MG, L, G⟩).1 ∧ e3'.toInt = E) ∨
       ((lsbFixDiff lsb c1 ⟨ML, MG, L, G⟩).1 = P34 ∧ val128 r = P33 ∧ e3'.toInt = E + 1)) →
      Q (k p1 p2 p3 p4 r z_sign e3' (lsbFixDiff lsb c1 ⟨ML, MG, L, G⟩).2.midLtEven (lsbFixDiff lsb c1 ⟨ML, MG, L, G⟩).2.midGtEven
          (lsbFixDiff lsb c1 ⟨ML, MG, L, G⟩).2.inexLtMid (lsbFixDiff lsb c1 ⟨ML, MG, L, G⟩).2.inexGtMid)) :
    Q (diffFixK p1 p2 p3 p4 rnd_mode pfpsf res z_sign e3 scale ind x0 ML MG L G ML0 MG0 L0 G0 incr_exp lsb is_tiny R64 tmp64
          P128 R128 P192 R192 R256 k) := by
  obtain ⟨r, e3', hr, c⟩ := diffFixK_spec p1 p2 p3 p4 rnd_mode pfpsf res z_sign e3 scale ind x0 ML MG L G ML0 MG0 L0 G0
    incr_exp lsb is_tiny R64 tmp64 P128 R128 P192 R192 R256 k c1 E hres hc1 he3 hE hcan hnz
  rw [hr]; exact hk r e3' c

set_option maxRecDepth 20000 in
set_option maxHeartbeats 1000000 in
/-- **opposite signs: from the difference to the result, or to the next turn** -/
theorem sumRest_diff (p1 p2 p3 p4 : Bool) (rm : RoundingMode) (pf : UInt32) (res : U128) (zs ps : UInt64)
    (e3 scale ind x0 : Int32) (ML MG L G ML0 MG0 L0 G0 incr lsb : Bool) (R64 tmp64 : UInt64)
    (P128 R128 : U128) (P192 R192 : U192) (R256 : U256)
    (s : Bool) (A T X : Nat) (E m : Int) (C4 R : Nat)
    (hdiff : (zs == ps) = false) (ctx : Ctx A T X E m) (hres : val128 res = A) (hR : val128 R128 = R)
    (h1 : NE C4 T R ⟨ML, MG, L, G⟩) (hdom : 10 * C4 < A * T) (hV34 : A * T - C4 < P34 * T) (hk : E < eMin → A < P34)
    (hA35 : A < 10 * P34) (he3 : e3.toInt = E) (hx0 : x0.toInt = X)
    (hzs : zs.toNat = (if s = true then 1 else 0) * 2^63) (hmx : m ≤ eMax) (hElo : -6300 ≤ E) :
    (¬ (eMin < E ∧ (A - R < P33 ∨ ((L || MG) = true ∧ A - R = P33)) ∧ 1 ≤ X) →
      Done (sumRestLit p1 p2 p3 p4 rm pf res zs ps e3 scale ind x0 ML MG L G ML0 MG0 L0 G0 incr lsb false R64 tmp64 P128 R128 P192 R192 R256)
        (specW rm s (A * T - C4) m) (specF rm s (A * T - C4) m pf)) ∧
    ((eMin < E ∧ (A - R < P33 ∨ ((L || MG) = true ∧ A - R = P33)) ∧ 1 ≤ X) →
      ∃ (r : U128) (lsb' : Bool) (t : UInt64),
        sumRestLit p1 p2 p3 p4 rm pf res zs ps e3 scale ind x0 ML MG L G ML0 MG0 L0 G0 incr lsb false R64 tmp64 P128 R128 P192 R192 R256 =
          .ok (ForInStep.yield (none, (p1, p2, p3, p4, pf, r, zs, e3 + scale, scale + 1, ind, x0 - 1, false, false, false, false,
            ML0, MG0, L0, G0, false, lsb', false, R64, t, P128, R128, P192, R192, R256)))) := by
  have e34 : P34 = 10000000000000000000000000000000000 := rfl
  have e33 : P33 = 1000000000000000000000000000000000 := rfl
  have hT0 : 0 < T := by rw [ctx.hT]; exact Nat.pow_pos (by decide)
  have hA0 := ctx.hA0
  have hEhi := ctx.hE
  have hRA := R_le_A h1 hT0 hA0 hdom
  have hTA : T ≤ A * T := Nat.le_mul_of_pos_left T hA0
  have hV : 0 < A * T - C4 := by omega
  have hc1le : A - R ≤ P34 := by
    -- the difference is within half a unit of V/T < P34
    have hp := sum_diff_pos h1.toPos hRA (by omega)
    have := hp.near.2
    by_contra hc
    have : (P34 + 1) * T ≤ (A - R) * T := Nat.mul_le_mul_right T (by omega)
    rw [Nat.add_mul, Nat.one_mul] at this
    omega
  rw [sumRestLit_eq, if_neg (by rw [hdiff]; decide)]
  constructor
  · intro hnr
    refine diffSubK_rule (fun x => Done x _ _) res lsb tmp64 R128 _ (by rw [hres, hR]; exact hRA) (fun r t hr => ?_)
    rw [hres, hR] at hr
    try simp only []
    rw [repeat_test r e3 x0 L MG (A - R) E X hr he3 hx0, hres, if_neg (by simpa using hnr)]
    have hl := dec_odd A
    have hnz := lsbFixDiff_pos h1 hT0 hA0 hdom (decide (A % 2 = 1)) hl
    refine diffFixK_rule (fun x => Done x _ _) p1 p2 p3 p4 rm pf r zs e3 scale ind x0 ML MG L G ML0 MG0 L0 G0 incr
      (decide (A % 2 = 1)) false R64 t P128 R128 P192 R192 R256 _ (A - R) E hr hc1le he3 (by omega) (h1.canon hT0) hnz
      (fun r' e3' hcode => ?_)
    try simp only []
    obtain ⟨hmo, -⟩ := exit_diff ctx C4 R ⟨ML, MG, L, G⟩ h1 hdom hV34 hk (decide (A % 2 = 1)) hl hnr (val128 r') e3'.toInt hcode
    generalize hD : lsbFixDiff (decide (A % 2 = 1)) (A - R) ⟨ML, MG, L, G⟩ = D at *
    have hcb : 0 < val128 r' ∧ val128 r' ≤ P34 ∧ e3'.toInt ≤ E + 1 ∧ E ≤ e3'.toInt := by
      have hNE := (lsbFixDiff_NE h1 hT0 hRA (by omega) (decide (A % 2 = 1)) hl).1
      rw [hD] at hNE
      have hle := cf_le_P34 hNE hT0 (Nat.le_of_lt hV34)
      rcases hcode with ⟨a, b⟩ | ⟨a, b, c⟩
      · rw [a, b]; omega
      · rw [b, c]; omega
    have hmo' : MainOut (A * T - C4) m (val128 r') e3'.toInt ⟨D.2.midLtEven, D.2.midGtEven, D.2.inexLtMid, D.2.inexGtMid⟩ := hmo
    exact uflowRest_spec p1 p2 p3 p4 rm pf r' zs e3' scale ind x0 _ _ _ _ ML0 MG0 L0 G0 incr (decide (A % 2 = 1)) R64 t P128 R128
      P192 R192 R256 s (A * T - C4) m (val128 r') e3'.toInt rfl rfl hzs hV hmx (by omega) (by omega) (by omega) hmo'
  · intro hrep
    obtain ⟨r, t, hr, hv⟩ := diffSubK_spec res lsb tmp64 R128 (fun res lsb tmp64 =>
        if (((decide (e3 > c_EXP_MIN_UNBIASED)) && (((((decide (res.w1 < (0x314dc6448d93 : UInt64))) || (((res.w1 == (0x314dc6448d93 : UInt64)) && (decide (res.w0 < (0x38c15b0a00000000 : UInt64))))))) || (((((L || MG)) && (res.w1 == (0x314dc6448d93 : UInt64))) && (res.w0 == (0x38c15b0a00000000 : UInt64))))))) && (decide (x0 ≥ (1 : Int32)))) = true then
          diffContK p1 p2 p3 p4 pf res zs e3 scale ind x0 ML MG L G ML0 MG0 L0 G0 incr lsb false R64 tmp64 P128 R128 P192 R192 R256
        else
          diffFixK p1 p2 p3 p4 rm pf res zs e3 scale ind x0 ML MG L G ML0 MG0 L0 G0 incr lsb false R64 tmp64 P128 R128 P192 R192 R256 (fun ptr_is_midpoint_lt_even ptr_is_midpoint_gt_even ptr_is_inexact_lt_midpoint ptr_is_inexact_gt_midpoint res z_sign e3 is_midpoint_lt_even is_midpoint_gt_even is_inexact_lt_midpoint is_inexact_gt_midpoint =>
          uflowRestLit ptr_is_midpoint_lt_even ptr_is_midpoint_gt_even ptr_is_inexact_lt_midpoint ptr_is_inexact_gt_midpoint rm pf res z_sign e3 scale ind x0 is_midpoint_lt_even is_midpoint_gt_even is_inexact_lt_midpoint is_inexact_gt_midpoint ML0 MG0 L0 G0 incr lsb false R64 tmp64 P128 R128 P192 R192 R256))
      (by rw [hres, hR]; exact hRA)
    rw [hres, hR] at hv
    refine ⟨r, decide (val128 res % 2 = 1), t, ?_⟩
    rw [hr]
    try simp only []
    rw [repeat_test r e3 x0 L MG (A - R) E X hv he3 hx0, if_pos (by simpa using hrep), diffContK_eq]


open Dec.RH (Ind)
open Dec.Rs Dec.Gen.Code
open Dec.C03GenCompare (val128 val256)
open Dec.C02GenCorrection (modeOf)

/-! ## 13. One turn of the loop -/

theorem scaleC3K_rule {α : Type} (Q : Except String α → Prop) (res C3 : U128) (q3 scale : Int32) (k : U128 → Except String α)
    (c Qn S : Nat) (hC : val128 C3 = c) (hq : q3.toInt = Qn) (hsc : scale.toInt = S) (hQ : Qn = ndigits c) (hc0 : 0 < c)
    (hfit : Qn + S ≤ 35) (hS : S ≤ 34) (hk : ∀ r : U128, val128 r = c * 10 ^ S → Q (k r)) :
    Q (scaleC3K res C3 q3 scale k) := by
  obtain ⟨r, hr, hv⟩ := scaleC3K_spec res C3 q3 scale k c Qn S hC hq hsc hQ hc0 hfit hS
  rw [hr]; exact hk r hv

theorem roundC4K_rule {α : Type} (Q : Except String α → Prop) (C4 : U256) (q4 x0 : Int32) (incr : Bool) (R64 : UInt64)
    (P128 R128 : U128) (P192 R192 : U192) (R256 : U256)
    (k : Bool → Bool → Bool → Bool → Bool → UInt64 → U128 → U128 → U192 → U192 → U256 → Except String α)
    (c4 Qn X : Nat) (hC : val256 C4 = c4) (hq' : 1 ≤ X → q4.toInt = Qn) (hx : x0.toInt = X) (hc4' : 1 ≤ X → c4 < 10 ^ Qn)
    (hXQ : X = 0 ∨ X + 1 ≤ Qn) (hQ : Qn ≤ 76) (h128 : X = 0 → c4 < 2 ^ 128) (hfit : Qn - X ≤ 35)
    (h58 : 58 ≤ Qn → 1 ≤ X → 20 ≤ X)
    (hk : ∀ (ML MG L G incr' : Bool) (R64' : UInt64) (P128' R128' : U128) (P192' R192' : U192) (R256' : U256),
      NE c4 (10 ^ X) (val128 R128') ⟨ML, MG, L, G⟩ → Q (k ML MG L G incr' R64' P128' R128' P192' R192' R256')) :
    Q (roundC4K C4 q4 x0 false false false false incr R64 P128 R128 P192 R192 R256 k) := by
  obtain ⟨ML, MG, L, G, incr', R64', P128', R128', P192', R192', R256', hr, hne⟩ :=
    roundC4K_spec C4 q4 x0 incr R64 P128 R128 P192 R192 R256 k c4 Qn X hC hq' hx hc4' hXQ hQ h128 hfit h58
  rw [hr]; exact hk ML MG L G incr' R64' P128' R128' P192' R192' R256' hne

/-- **what one turn needs**: `c3` with `S` zeros to append is `A`, the unit `10^E` with `E = E0 − S`; `X` digits of `c4` go -/
structure TurnPre (c3 c4 S X : Nat) (E0 : Int) (same : Bool) (m : Int) (V : Nat) : Prop where
  hc3 : 0 < c3
  hS : ndigits c3 + S ≤ 35
  hS34 : S ≤ 34
  ctx : Ctx (c3 * 10 ^ S) (10 ^ X) X (E0 - S) m
  hc4 : 0 < c4
  hQ4 : ndigits c4 ≤ 76
  hX : X = 0 ∨ X + 1 ≤ ndigits c4
  hfit : ndigits c4 - X ≤ 35
  hR34 : same = true → ndigits c4 - X ≤ 34
  h58 : 58 ≤ ndigits c4 → 1 ≤ X → 20 ≤ X
  h128 : X = 0 → c4 < 2 ^ 128
  hElo : -6300 ≤ E0 - S
  hV : V = if same = true then c3 * 10 ^ S * 10 ^ X + c4 else c3 * 10 ^ S * 10 ^ X - c4
  hsame : same = true → c3 * 10 ^ S < P34
  hdom : same = false → 10 * c4 < c3 * 10 ^ S * 10 ^ X
  hV34 : same = false → c3 * 10 ^ S * 10 ^ X - c4 < P34 * 10 ^ X
  hk : same = false → E0 - S < eMin → c3 * 10 ^ S < P34
  hA35 : c3 * 10 ^ S < 10 * P34

/-- the condition for one more turn -/
def RepCond (A X : Nat) (E : Int) (R : Nat) (fl : Ind) : Prop :=
  eMin < E ∧ (A - R < P33 ∨ ((fl.inexLtMid || fl.midGtEven) = true ∧ A - R = P33)) ∧ 1 ≤ X


theorem rne_le34 (c4 X : Nat) (hX : X = 0 ∨ X + 1 ≤ ndigits c4) (hfit : ndigits c4 - X ≤ 34) (R : Nat) (fl : Ind)
    (h : NE c4 (10 ^ X) R fl) : R ≤ P34 := by
  have e34 : P34 = 10 ^ 34 := by decide
  have hp : 0 < 10 ^ X := Nat.pow_pos (by decide)
  have hc : c4 < 10 ^ ndigits c4 := lt_pow_ndigits c4
  have hle : 10 ^ ndigits c4 ≤ 10 ^ 34 * 10 ^ X := by
    rw [← Nat.pow_add]; exact Nat.pow_le_pow_right (by decide) (by omega)
  have hn := h.near.2
  by_contra hcon
  have : (10 ^ 34 + 1) * 10 ^ X ≤ R * 10 ^ X := Nat.mul_le_mul_right _ (by omega)
  rw [Nat.add_mul, Nat.one_mul] at this
  omega

set_option maxRecDepth 20000 in
set_option maxHeartbeats 1000000 in
/-- **one turn of the loop**: it ends the routine with the specified result, or (opposite signs, leading digit cancelled) asks
for one more turn with one digit more of `C3·10^scale` and one digit less removed -/
theorem turn_spec (p1 p2 p3 p4 : Bool) (rm : RoundingMode) (pf : UInt32) (res : U128) (zs ps : UInt64) (C3 : U128) (C4 : U256)
    (q3 q4 e3 scale ind x0 : Int32) (ML0 MG0 L0 G0 incr lsb : Bool) (R64 tmp64 : UInt64)
    (P128 R128 : U128) (P192 R192 : U192) (R256 : U256)
    (sz same : Bool) (c3 c4 S X : Nat) (E0 m : Int) (V : Nat)
    (hC3 : val128 C3 = c3) (hq3 : q3.toInt = ndigits c3) (hsc : scale.toInt = S) (hx0 : x0.toInt = X) (he3 : e3.toInt = E0)
    (hC4 : val256 C4 = c4) (hq4 : 1 ≤ X → q4.toInt = ndigits c4) (hsg : (zs == ps) = same)
    (hzs : zs.toNat = (if sz = true then 1 else 0) * 2^63) (hmx : m ≤ eMax) (hE0 : -6300 ≤ E0 ∧ E0 ≤ 6300)
    (tp : TurnPre c3 c4 S X E0 same m V) :
    Done (bodyLit p1 p2 p3 p4 rm pf res zs ps C3 C4 q3 q4 e3 scale ind x0 false false false false ML0 MG0 L0 G0 incr lsb false R64 tmp64
        P128 R128 P192 R192 R256) (specW rm sz V m) (specF rm sz V m pf) ∨
    (same = false ∧ ∃ (R : Nat) (fl1 : Ind), NE c4 (10 ^ X) R fl1 ∧ RepCond (c3 * 10 ^ S) X (E0 - S) R fl1 ∧
      ∃ (r : U128) (lsb' : Bool) (t R64' : UInt64) (P128' R128' : U128) (P192' R192' : U192) (R256' : U256),
        bodyLit p1 p2 p3 p4 rm pf res zs ps C3 C4 q3 q4 e3 scale ind x0 false false false false ML0 MG0 L0 G0 incr lsb false R64 tmp64
          P128 R128 P192 R192 R256 =
        .ok (ForInStep.yield (none, (p1, p2, p3, p4, pf, r, zs, (e3 - scale) + scale, scale + 1, ind, x0 - 1, false, false, false, false,
          ML0, MG0, L0, G0, false, lsb', false, R64', t, P128', R128', P192', R192', R256')))) := by
  have e34 : P34 = 10000000000000000000000000000000000 := rfl
  have hP128 : P34 < 2 ^ 128 := by decide
  have hS34 := tp.hS34
  have heS : (e3 - scale).toInt = E0 - S := i32_sub' e3 scale E0 S he3 hsc (by omega) (by omega)
  -- the two stages before the sum, with what they hand on
  obtain ⟨rA, hrA, hvA⟩ := scaleC3K_spec res C3 q3 scale (fun res =>
      let e3 := (e3 - scale)
      roundC4K C4 q4 x0 false false false false incr R64 P128 R128 P192 R192 R256 (fun is_midpoint_lt_even is_midpoint_gt_even is_inexact_lt_midpoint is_inexact_gt_midpoint incr_exp R64 P128 R128 P192 R192 R256 =>
      sumRestLit p1 p2 p3 p4 rm pf res zs ps e3 scale ind x0 is_midpoint_lt_even is_midpoint_gt_even is_inexact_lt_midpoint is_inexact_gt_midpoint ML0 MG0 L0 G0 incr_exp lsb false R64 tmp64 P128 R128 P192 R192 R256))
    c3 (ndigits c3) S hC3 hq3 hsc rfl tp.hc3 tp.hS tp.hS34
  rw [bodyLit_eq, hrA]
  try simp only []
  obtain ⟨ML, MG, L, G, incr', R64', P128', R128', P192', R192', R256', hrB, hne⟩ := roundC4K_spec C4 q4 x0 incr R64 P128 R128 P192 R192 R256
    (fun is_midpoint_lt_even is_midpoint_gt_even is_inexact_lt_midpoint is_inexact_gt_midpoint incr_exp R64 P128 R128 P192 R192 R256 =>
      sumRestLit p1 p2 p3 p4 rm pf rA zs ps (e3 - scale) scale ind x0 is_midpoint_lt_even is_midpoint_gt_even is_inexact_lt_midpoint is_inexact_gt_midpoint ML0 MG0 L0 G0 incr_exp lsb false R64 tmp64 P128 R128 P192 R192 R256)
    c4 (ndigits c4) X hC4 hq4 hx0 (fun _ => lt_pow_ndigits c4) tp.hX tp.hQ4 tp.h128 tp.hfit tp.h58
  rw [hrB]
  try simp only []
  have hV := tp.hV
  cases same
  · -- opposite signs
    simp only [Bool.false_eq_true, if_false] at hV
    obtain ⟨hD, hY⟩ := sumRest_diff p1 p2 p3 p4 rm pf rA zs ps (e3 - scale) scale ind x0 ML MG L G ML0 MG0 L0 G0 incr' lsb R64' tmp64
      P128' R128' P192' R192' R256' sz (c3 * 10 ^ S) (10 ^ X) X (E0 - S) m c4 (val128 R128') hsg tp.ctx hvA rfl hne (tp.hdom rfl)
      (tp.hV34 rfl) (tp.hk rfl) tp.hA35 heS hx0 hzs hmx tp.hElo
    by_cases hrep : eMin < E0 - S ∧ (c3 * 10 ^ S - val128 R128' < P33 ∨ ((L || MG) = true ∧ c3 * 10 ^ S - val128 R128' = P33)) ∧ 1 ≤ X
    · right
      obtain ⟨r, lsb', t, hy⟩ := hY hrep
      exact ⟨rfl, val128 R128', ⟨ML, MG, L, G⟩, hne, hrep, r, lsb', t, R64', P128', R128', P192', R192', R256', hy⟩
    · left
      rw [hV]; exact hD hrep
  · -- same signs
    simp only [if_true] at hV
    left
    rw [hV]
    exact sumRest_same p1 p2 p3 p4 rm pf rA zs ps (e3 - scale) scale ind x0 ML MG L G ML0 MG0 L0 G0 incr' lsb R64' tmp64
      P128' R128' P192' R192' R256' sz (c3 * 10 ^ S) (10 ^ X) X (E0 - S) m c4 (val128 R128') hsg tp.ctx (tp.hsame rfl) hvA rfl
      (rne_le34 c4 X tp.hX (tp.hR34 rfl) _ _ hne) hne heS hzs hmx tp.hElo


open Dec.RH (Ind)
open Dec.Rs Dec.Gen.Code
open Dec.C03GenCompare (val128 val256)
open Dec.C02GenCorrection (modeOf)

/-! ## 14. The loop: at most two turns -/

theorem forIn_done1 {σ : Type} (f : Nat → σ → Except String (ForInStep σ)) (s s' : σ) (n : Nat)
    (h : f 0 s = .ok (ForInStep.done s')) : forIn [0:n + 1] s f = .ok s' := by
  rw [Std.Legacy.Range.forIn_eq_forIn_range']
  have : Std.Legacy.Range.size [0:n + 1] = n + 1 := by simp [Std.Legacy.Range.size]
  rw [this, List.range'_succ, List.forIn_cons, h]
  rfl

theorem forIn_done2 {σ : Type} (f : Nat → σ → Except String (ForInStep σ)) (s s1 s' : σ) (n : Nat)
    (h1 : f 0 s = .ok (ForInStep.yield s1)) (h2 : f 1 s1 = .ok (ForInStep.done s')) : forIn [0:n + 2] s f = .ok s' := by
  rw [Std.Legacy.Range.forIn_eq_forIn_range']
  have : Std.Legacy.Range.size [0:n + 2] = n + 1 + 1 := by simp [Std.Legacy.Range.size]
  rw [this, List.range'_succ, List.forIn_cons, h1]
  simp only [bind, Except.bind]
  rw [List.range'_succ, List.forIn_cons, h2]
  rfl

/-- the first turn's preconditions, from the loop's (wide form) -/
theorem TurnPre.firstW {c3 c4 S X : Nat} {E0 : Int} {same : Bool} {m : Int} {V : Nat} (h : LoopPreW c3 c4 S X E0 same m V) :
    TurnPre c3 c4 S X E0 same m V := by
  have e34 : P34 = 10 ^ 34 := by decide
  have e33 : P33 = 10 ^ 33 := by decide
  have hMin : eMin = -6176 := rfl
  obtain ⟨hc3, hS, hc4, hQ4, hX, hfit, h58, h128, hE0, hm, hx33, hV, hdom⟩ := h
  have hQ1 : 1 ≤ ndigits c3 := ndigits_pos hc3
  have hcQ : c3 < 10 ^ ndigits c3 := lt_pow_ndigits c3
  have hpS : 0 < 10 ^ S := Nat.pow_pos (by decide)
  have hpX : 0 < 10 ^ X := Nat.pow_pos (by decide)
  have hA34 : c3 * 10 ^ S < P34 := by
    calc c3 * 10 ^ S < 10 ^ ndigits c3 * 10 ^ S := Nat.mul_lt_mul_of_pos_right hcQ hpS
      _ = 10 ^ (ndigits c3 + S) := (Nat.pow_add _ _ _).symm
      _ ≤ 10 ^ 34 := Nat.pow_le_pow_right (by decide) hS
      _ = P34 := e34.symm
  have hA0 : 0 < c3 * 10 ^ S := Nat.mul_pos hc3 hpS
  have hAS : 10 ^ S ≤ c3 * 10 ^ S := Nat.le_mul_of_pos_left _ hc3
  refine ⟨hc3, by omega, by omega, ⟨rfl, by omega, hA0, ?_, ?_, by omega⟩, hc4, by omega, hX, by omega, fun _ => hfit,
    fun a b => by have := h58 a b; omega, fun h => lt_trans (h128 h) (by decide), by omega, hV, fun _ => hA34, hdom, ?_, fun _ _ => hA34,
    by omega⟩
  · rcases hx33 with h | h
    · exact Or.inl h
    · right
      have hlo := (ndigits_spec hc3).1
      calc P33 = 10 ^ (ndigits c3 - 1) * 10 ^ S := by rw [e33, ← Nat.pow_add]; congr 1; omega
        _ ≤ c3 * 10 ^ S := Nat.mul_le_mul_right _ hlo
  · intro hlt
    have hlo := (ndigits_spec hc3).1
    calc 10 ^ (eMin - (E0 - ↑S)).toNat ≤ 10 ^ (ndigits c3 - 1 + S) := Nat.pow_le_pow_right (by decide) (by omega)
      _ = 10 ^ (ndigits c3 - 1) * 10 ^ S := Nat.pow_add _ _ _
      _ ≤ c3 * 10 ^ S := Nat.mul_le_mul_right _ hlo
  · intro hs
    have : c3 * 10 ^ S * 10 ^ X < P34 * 10 ^ X := Nat.mul_lt_mul_of_pos_right hA34 hpX
    omega


/-- the first turn's preconditions, from the loop's -/
theorem TurnPre.first {c3 c4 S X : Nat} {E0 : Int} {same : Bool} {m : Int} {V : Nat} (h : LoopPre c3 c4 S X E0 same m V) :
    TurnPre c3 c4 S X E0 same m V := TurnPre.firstW h.toW

/-- the second turn's preconditions, from the first turn's and the condition that asked for it (wide form) -/
theorem TurnPre.secondW {c3 c4 S X : Nat} {E0 : Int} {m : Int} {V : Nat} (h : LoopPreW c3 c4 S X E0 false m V)
    (R : Nat) (fl1 : Ind) (h1 : NE c4 (10 ^ X) R fl1) (hrep : RepCond (c3 * 10 ^ S) X (E0 - S) R fl1) :
    TurnPre c3 c4 (S + 1) (X - 1) E0 false m V ∧
    (∀ (R' : Nat) (fl' : Ind), NE c4 (10 ^ (X - 1)) R' fl' → ¬ RepCond (c3 * 10 ^ (S + 1)) (X - 1) (E0 - (S + 1 : Nat)) R' fl') := by
  have e34 : P34 = 10 ^ 34 := by decide
  have hMin : eMin = -6176 := rfl
  have tp := TurnPre.firstW h
  obtain ⟨hc3, hS, hc4, hQ4, hX, hfit, h58, h128, hE0, hm, hx33, hV, hdom⟩ := h
  have hQ1 : 1 ≤ ndigits c3 := ndigits_pos hc3
  have hX1 : 1 ≤ X := hrep.2.2
  obtain ⟨T', hT, ctx', eAT, hV34, hnorep⟩ := repeat_step tp.ctx c4 R fl1 h1 (hdom rfl) hrep
  have hT' : T' = 10 ^ (X - 1) := ctx'.hT
  have eA : c3 * 10 ^ (S + 1) = c3 * 10 ^ S * 10 := by rw [Nat.pow_succ, Nat.mul_assoc]
  have hcast : ((S + 1 : Nat) : Int) = (S : Int) + 1 := by push_cast; rfl
  have hE' : E0 - ((S + 1 : Nat) : Int) = E0 - S - 1 := by omega
  have hcQ4 : c4 < 10 ^ ndigits c4 := lt_pow_ndigits c4
  refine ⟨⟨hc3, by omega, by omega, ?_, hc4, by omega, by omega, by omega, fun h => absurd h (by decide),
    fun a b => by have := h58 a (by omega); omega, ?_, by omega, ?_, fun h => absurd h (by decide), ?_, ?_, ?_, ?_⟩, ?_⟩
  · rw [eA, hE', ← hT']; exact ctx'
  · intro _
    calc c4 < 10 ^ ndigits c4 := hcQ4
      _ ≤ 10 ^ 35 := Nat.pow_le_pow_right (by decide) (by omega)
      _ < 2 ^ 128 := by decide
  · rw [hV, eA, ← hT', eAT, ← tp.ctx.hT]
  · intro _; rw [eA, ← hT', eAT, ← tp.ctx.hT]; exact hdom rfl
  · intro _; rw [eA, ← hT', eAT, ← tp.ctx.hT]; rw [← tp.ctx.hT] at hV34; exact hV34
  · intro _ hlt
    exfalso
    have := hrep.1
    omega
  · rw [eA]
    have := tp.hsame
    have hA : c3 * 10 ^ S < P34 := by
      have hcQ : c3 < 10 ^ ndigits c3 := lt_pow_ndigits c3
      calc c3 * 10 ^ S < 10 ^ ndigits c3 * 10 ^ S := Nat.mul_lt_mul_of_pos_right hcQ (Nat.pow_pos (by decide))
        _ = 10 ^ (ndigits c3 + S) := (Nat.pow_add _ _ _).symm
        _ ≤ 10 ^ 34 := Nat.pow_le_pow_right (by decide) hS
        _ = P34 := e34.symm
    omega
  · intro R' fl' h'
    have := hnorep R' fl' (by rw [hT']; exact h')
    unfold RepCond
    rw [eA, hE']
    exact this

/-- the second turn's preconditions, from the first turn's and the condition that asked for it -/
theorem TurnPre.second {c3 c4 S X : Nat} {E0 : Int} {m : Int} {V : Nat} (h : LoopPre c3 c4 S X E0 false m V)
    (R : Nat) (fl1 : Ind) (h1 : NE c4 (10 ^ X) R fl1) (hrep : RepCond (c3 * 10 ^ S) X (E0 - S) R fl1) :
    TurnPre c3 c4 (S + 1) (X - 1) E0 false m V ∧
    (∀ (R' : Nat) (fl' : Ind), NE c4 (10 ^ (X - 1)) R' fl' → ¬ RepCond (c3 * 10 ^ (S + 1)) (X - 1) (E0 - (S + 1 : Nat)) R' fl') :=
  TurnPre.secondW h.toW R fl1 h1 hrep


open Dec.RH (Ind)
open Dec.Rs Dec.Gen.Code
open Dec.C03GenCompare (val128 val256)
open Dec.C02GenCorrection (modeOf)

set_option maxRecDepth 20000 in
set_option maxHeartbeats 2000000 in
/-- **the `'case2_repeat` loop returns the specified result** (in one or two turns; the fuel is never used up) — wide form, for both
uses of the block -/
theorem loop_specW (p1 p2 p3 p4 : Bool) (rm : RoundingMode) (pf : UInt32) (res : U128) (zs ps : UInt64) (C3 : U128) (C4 : U256)
    (q3 q4 e3 scale ind x0 : Int32) (ML0 MG0 L0 G0 incr lsb : Bool) (R64 tmp64 : UInt64)
    (P128 R128 : U128) (P192 R192 : U192) (R256 : U256)
    (sz same : Bool) (c3 c4 S X : Nat) (E0 m : Int) (V : Nat)
    (hC3 : val128 C3 = c3) (hq3 : q3.toInt = ndigits c3) (hsc : scale.toInt = S) (hx0 : x0.toInt = X) (he3 : e3.toInt = E0)
    (hC4 : val256 C4 = c4) (hq4 : 1 ≤ X → q4.toInt = ndigits c4) (hsg : (zs == ps) = same)
    (hzs : zs.toNat = (if sz = true then 1 else 0) * 2^63) (hmx : m ≤ eMax)
    (lp : LoopPreW c3 c4 S X E0 same m V) :
    ∃ a b c d : Bool,
      loopLit p1 p2 p3 p4 rm pf res zs ps C3 C4 q3 q4 e3 scale ind x0 false false false false ML0 MG0 L0 G0 incr lsb false R64 tmp64
        P128 R128 P192 R192 R256 = .ok (specW rm sz V m, a, b, c, d, specF rm sz V m pf) := by
  have hE0 := lp.hlead
  have hMin : eMin = -6176 := rfl
  have hQ1 := ndigits_pos lp.hc3
  have hS0 := lp.hS
  have hS34 : S ≤ 33 := by have := lp.hS; have := ndigits_pos lp.hc3; omega
  rw [loopLit_eq]
  unfold loopK
  simp only [bind, Except.bind, pure, Except.pure]
  have t1 := turn_spec p1 p2 p3 p4 rm pf res zs ps C3 C4 q3 q4 e3 scale ind x0 ML0 MG0 L0 G0 incr lsb R64 tmp64 P128 R128 P192 R192 R256
    sz same c3 c4 S X E0 m V hC3 hq3 hsc hx0 he3 hC4 hq4 hsg hzs hmx (by omega) (TurnPre.firstW lp)
  rcases t1 with ⟨a, b, c, d, st, hd⟩ | ⟨hs, R, fl1, h1, hrep, r, lsb', t, R64', P128', R128', P192', R192', R256', hy⟩
  · -- one turn
    have hd' : iterK rm ps C3 C4 q3 q4 (none, p1, p2, p3, p4, pf, res, zs, e3, scale, ind, x0, false, false, false, false, ML0, MG0, L0,
        G0, incr, lsb, false, R64, tmp64, P128, R128, P192, R192, R256) = _ := hd
    rw [forIn_done1 (fun _ st => iterK rm ps C3 C4 q3 q4 st) _ _ 4095 hd']
    exact ⟨a, b, c, d, rfl⟩
  · -- two turns
    subst hs
    obtain ⟨tp2, hnr⟩ := TurnPre.secondW lp R fl1 h1 hrep
    have hX1 : 1 ≤ X := hrep.2.2
    have hX68 : X ≤ 68 := by have := lp.hX; have := lp.hQ4; omega
    have hsc2 : (scale + 1).toInt = ((S + 1 : Nat) : Int) := by
      rw [i32_add' scale 1 S 1 hsc rfl (by omega) (by omega)]; push_cast; rfl
    have hx2 : (x0 - 1).toInt = ((X - 1 : Nat) : Int) := by
      rw [i32_sub' x0 1 X 1 hx0 rfl (by omega) (by omega)]; omega
    have he2 : ((e3 - scale) + scale).toInt = E0 := by
      have a1 := i32_sub' e3 scale E0 S he3 hsc (by omega) (by omega)
      rw [i32_add' _ scale _ S a1 hsc (by omega) (by omega)]; omega
    have t2 := turn_spec p1 p2 p3 p4 rm pf r zs ps C3 C4 q3 q4 ((e3 - scale) + scale) (scale + 1) ind (x0 - 1) ML0 MG0 L0 G0 false lsb'
      R64' t P128' R128' P192' R192' R256' sz false c3 c4 (S + 1) (X - 1) E0 m V hC3 hq3 hsc2 hx2 he2 hC4 (fun h => hq4 (by omega)) hsg hzs hmx
      (by omega) tp2
    rcases t2 with ⟨a, b, c, d, st, hd⟩ | ⟨-, R', fl', h', hrep', -⟩
    · have hy' : iterK rm ps C3 C4 q3 q4 (none, p1, p2, p3, p4, pf, res, zs, e3, scale, ind, x0, false, false, false, false, ML0, MG0, L0,
          G0, incr, lsb, false, R64, tmp64, P128, R128, P192, R192, R256) = _ := hy
      have hd' : iterK rm ps C3 C4 q3 q4 (none, p1, p2, p3, p4, pf, r, zs, (e3 - scale) + scale, scale + 1, ind, x0 - 1, false, false,
          false, false, ML0, MG0, L0, G0, false, lsb', false, R64', t, P128', R128', P192', R192', R256') = _ := hd
      rw [forIn_done2 (fun _ st => iterK rm ps C3 C4 q3 q4 st) _ _ _ 4094 hy' hd']
      exact ⟨a, b, c, d, rfl⟩
    · exact absurd hrep' (hnr R' fl' h')

/-- **the `'case2_repeat` loop returns the specified result** (in one or two turns; the fuel is never used up) -/
theorem loop_spec (p1 p2 p3 p4 : Bool) (rm : RoundingMode) (pf : UInt32) (res : U128) (zs ps : UInt64) (C3 : U128) (C4 : U256)
    (q3 q4 e3 scale ind x0 : Int32) (ML0 MG0 L0 G0 incr lsb : Bool) (R64 tmp64 : UInt64)
    (P128 R128 : U128) (P192 R192 : U192) (R256 : U256)
    (sz same : Bool) (c3 c4 S X : Nat) (E0 m : Int) (V : Nat)
    (hC3 : val128 C3 = c3) (hq3 : q3.toInt = ndigits c3) (hsc : scale.toInt = S) (hx0 : x0.toInt = X) (he3 : e3.toInt = E0)
    (hC4 : val256 C4 = c4) (hq4 : 1 ≤ X → q4.toInt = ndigits c4) (hsg : (zs == ps) = same)
    (hzs : zs.toNat = (if sz = true then 1 else 0) * 2^63) (hmx : m ≤ eMax)
    (lp : LoopPre c3 c4 S X E0 same m V) :
    ∃ a b c d : Bool,
      loopLit p1 p2 p3 p4 rm pf res zs ps C3 C4 q3 q4 e3 scale ind x0 false false false false ML0 MG0 L0 G0 incr lsb false R64 tmp64
        P128 R128 P192 R192 R256 = .ok (specW rm sz V m, a, b, c, d, specF rm sz V m pf) :=
  loop_specW p1 p2 p3 p4 rm pf res zs ps C3 C4 q3 q4 e3 scale ind x0 ML0 MG0 L0 G0 incr lsb R64 tmp64 P128 R128 P192 R192 R256
    sz same c3 c4 S X E0 m V hC3 hq3 hsc hx0 he3 hC4 hq4 hsg hzs hmx lp.toW


end Dec.C02GenFmaMid
