/-
  C02GenFmaZ0B — three pieces of the `z = 0` (product-only) path of `bid128_ext_fma` for products of at most 34 digits, handed over by
  the owner of the path (C02GenFmaZ0.lean, which this file imports; its assembly file imports this one):
    (A) `prefK_eval`        : `C02GenFmaZ0.prefK` (lines 627–646 of the translation: an exact result whose exponent is above the
                              addend's is scaled up towards it) on the packed exact result `(−1)^s·c·10^e`, `c` of `q ≤ 34` digits:
                              `= k (ofBits (encode (.fin s (c·10^sc) (e − sc))))`, `sc = min (34 − q) (e − E3)` if `E3 < e`, else `0`
                              (given as `(sc : Nat) (hsc : sc = if E3 < e then min (34 − q) (e − E3).toNat else 0)`: pass `_ rfl`);
                              on the way `prefTail` (the text after the choice of the scale) / `prefK_shape` / `prefTail_spec` /
                              `prefK_words` (any `res` with the right words) / `pack_prod`;
    (B) `round1K_scale`     : `C02GenFmaFront.round1K` for a product of `q ≤ 34` digits whose exponent `E` is above `emax` while
                              `q + E ≤ 34 + emax`: the coefficient is multiplied by `10^(E − emax)`, exponent `emax`
                              (`e4 − (e4 − emax)` IS `emax` as an `Int32`: stated so), digits `q4 + (e4 − emax)`, nothing else touched;
    (C) `finish_exact_pref` : number level — a member `c·10^e` of the format, scaled by `10^sc` towards the preferred exponent as far
                              as 34 digits allow (or down to it), is what `finish` returns, no flags.
  Findings: none.
-/
import DecProofs.Properties.C02GenFmaZ0

set_option linter.unusedSimpArgs false
set_option linter.unusedVariables false
set_option linter.unnecessarySeqFocus false
namespace Dec.C02GenFmaZ0B
open Dec Dec.Rs Dec.Gen.Code
open Dec.C02GenFmaFront (round1K)
open Dec.C02GenFmaZ0 (prefK)
open Dec.C02GenCorrection (ofBits)
open Dec.C02GenFmaSwap (sgnW sgnW_toNat)
open Dec.C02GenFmaLow (mk128 mk128_val ten2k64_get ten2k128_get idx_of ok_bind ofBits_words encode_fin ofIdx i32_beq0)
local notation "Out" => (U128 × Bool × Bool × Bool × Bool × UInt32)

/-! ## 0. Small facts -/

theorem i32_sub' (a b : Int32) (x y : Int) (ha : a.toInt = x) (hb : b.toInt = y) (h1 : -2^31 ≤ x - y) (h2 : x - y < 2^31) :
    (a - b).toInt = x - y := by
  rw [Int32.toInt_sub, ha, hb, Dec.C13GenNoncomp.bmod32 _ h1 h2]
theorem i32_add' (a b : Int32) (x y : Int) (ha : a.toInt = x) (hb : b.toInt = y) (h1 : -2^31 ≤ x + y) (h2 : x + y < 2^31) :
    (a + b).toInt = x + y := by
  rw [Int32.toInt_add, ha, hb, Dec.C13GenNoncomp.bmod32 _ h1 h2]

theorem eq_mk128 (r : U128) (n : Nat) (h : r.toNat' = n) : r = mk128 n := by
  subst h
  cases r with
  | mk w0 w1 =>
    unfold mk128 U128.toNat'
    simp only
    have h0 := w0.toNat_lt; have h1 := w1.toNat_lt
    congr 1
    · rw [← UInt64.toNat_inj, UInt64.toNat_ofNat']; omega
    · rw [← UInt64.toNat_inj, UInt64.toNat_ofNat']; omega

theorem u64_ofNat_eq (u : UInt64) (n : Nat) (h : u.toNat = n) : u = UInt64.ofNat n := by
  have := u.toNat_lt
  rw [← UInt64.toNat_inj, UInt64.toNat_ofNat', h]; omega

/-! ## 1. (C) the number level -/

/-- **(C)** -/
theorem finish_exact_pref (mode : Mode) (s : Bool) (N : Nat) (hN : 0 < N) (E pref : Int) (c : Nat) (e : Int) (sc : Nat)
    (hval : (N : ℚ) * (10 : ℚ) ^ E = (c : ℚ) * (10 : ℚ) ^ e) (hc : 0 < c) (hlt : c * 10 ^ sc < 10 ^ 34)
    (h1 : -6176 ≤ e - sc) (h2 : e ≤ 6111) (hp : pref ≤ e - sc) (hmax : e - sc = pref ∨ 10 ^ 34 ≤ c * 10 ^ (sc + 1)) :
    finish mode s N 1 E pref = (.fin s (c * 10 ^ sc) (e - sc), 0) := by
  rw [finish_eq_iff mode s N 1 E pref hN (by norm_num)]
  left
  have ten_ne : (10 : ℚ) ≠ 0 := by norm_num
  have hv : fval false (c * 10 ^ sc) (e - sc) = (N : ℚ) / ((1 : Nat) : ℚ) * (10 : ℚ) ^ E := by
    rw [fval_false, Nat.cast_one, div_one, hval]
    push_cast
    rw [zpow_sub₀ ten_ne, zpow_natCast]
    field_simp
  have hP : P34 = 10 ^ 34 := by decide
  have hrep : Representable (c * 10 ^ sc) (e - sc) := by
    refine ⟨by rw [hP]; exact hlt, ?_, ?_⟩
    · show (-6176 : Int) ≤ _; omega
    · show _ ≤ (6111 : Int); omega
  refine ⟨⟨_, _, hrep, hv⟩, _, _, rfl, hv, hrep, ?_⟩
  intro m' x' hr' hv'
  rcases hmax with h | h
  · rw [h]; simp
  · have hx : e - sc ≤ x' := by
      by_contra hlt'
      obtain ⟨k, hk⟩ : ∃ k : Nat, e - sc = x' + ((k + 1 : Nat) : Int) := ⟨(e - sc - x' - 1).toNat, by omega⟩
      rw [← hv, fval_false, fval_false, hk, zpow_add₀ ten_ne, zpow_natCast] at hv'
      have hp' : (10 : ℚ) ^ x' ≠ 0 := (zpow_pos (by norm_num) _).ne'
      have h3 : (m' : ℚ) = ((c * 10 ^ sc * 10 ^ (k + 1) : Nat) : ℚ) := by
        push_cast
        have : (m' : ℚ) * (10 : ℚ) ^ x' = ((c : ℚ) * 10 ^ sc * 10 ^ (k + 1)) * (10 : ℚ) ^ x' := by
          rw [hv']; push_cast; ring
        exact mul_right_cancel₀ hp' this
      have h4 : m' = c * 10 ^ sc * 10 ^ (k + 1) := by exact_mod_cast h3
      have h5 : c * 10 ^ (sc + 1) ≤ m' := by
        rw [h4, Nat.mul_assoc, ← Nat.pow_add]
        exact Nat.mul_le_mul_left _ (Nat.pow_le_pow_right (by decide) (by omega))
      have := hr'.1
      rw [hP] at this
      omega
    rw [abs_of_nonneg (by omega), abs_of_nonneg (by omega)]
    omega

/-! ## 2. (B) `round1K`: the product scaled down to `emax` -/

set_option maxHeartbeats 1000000 in
theorem round1K_scale (C4 : U256) (N q : Nat) (E : Int) (hC4 : C4.toNat' = N) (hN : 0 < N) (hq : ndigits N = q) (hq34 : q ≤ 34)
    (q4 e4 : Int32) (hq4 : q4.toInt = q) (he4 : e4.toInt = E) (h1 : 6111 < E) (h2 : (q : Int) + E ≤ 6145) (pf : UInt32)
    (k : U128 → Int32 → Int32 → UInt32 → Bool → Bool → Bool → Bool → Bool → U128 → Except String Out) :
    round1K C4 q4 e4 pf k = k (mk128 (N * 10 ^ (E - 6111).toNat)) c_EXP_MAX_UNBIASED (q4 + (e4 - c_EXP_MAX_UNBIASED)) pf
      false false false false false default := by
  have hE : (e4 - c_EXP_MAX_UNBIASED).toInt = E - 6111 := i32_sub' e4 c_EXP_MAX_UNBIASED E 6111 he4 rfl (by omega) (by omega)
  have hq1 : 1 ≤ q := by rw [← hq]; exact ndigits_pos hN
  obtain ⟨sc, hsc⟩ : ∃ sc : Nat, E - 6111 = sc := ⟨(E - 6111).toNat, by omega⟩
  have hscn : (E - 6111).toNat = sc := by omega
  have hback : e4 - (e4 - c_EXP_MAX_UNBIASED) = c_EXP_MAX_UNBIASED := by
    rw [← Int32.toInt_inj, i32_sub' e4 _ E (E - 6111) he4 hE (by omega) (by omega)]
    show E - (E - 6111) = 6111; omega
  have hqe : (q4 + e4).toInt = q + E := i32_add' q4 e4 q E hq4 he4 (by omega) (by omega)
  have hNq : N < 10 ^ q := by rw [← hq]; exact lt_pow_ndigits N
  have hN34 : N < 10 ^ 34 := lt_of_lt_of_le hNq (Nat.pow_le_pow_right (by decide) hq34)
  have h34 : (10 : Nat) ^ 34 < 2 ^ 128 := by decide
  have hfit : N * 10 ^ sc < 10 ^ 34 := by
    calc N * 10 ^ sc < 10 ^ q * 10 ^ sc := Nat.mul_lt_mul_of_pos_right hNq (Nat.pow_pos (by decide))
      _ = 10 ^ (q + sc) := (Nat.pow_add _ _ _).symm
      _ ≤ 10 ^ 34 := Nat.pow_le_pow_right (by decide) (by omega)
  -- the two low words hold the coefficient
  have hw : (⟨C4.w0, C4.w1⟩ : U128).toNat' = N ∧ C4.w2.toNat = 0 ∧ C4.w3.toNat = 0 := by
    have := C4.w0.toNat_lt; have := C4.w1.toNat_lt
    unfold U256.toNat' at hC4; unfold U128.toNat'
    simp only
    omega
  have hidx := idx_of (e4 - c_EXP_MAX_UNBIASED) sc (by rw [hE, hsc])
  unfold round1K
  simp only [bind, Except.bind, pure, Except.pure]
  rw [if_neg (by rw [decide_eq_true_eq, gt_iff_lt, Int32.lt_iff_toInt_lt, hq4]; show ¬ (34 : Int) < q; omega)]
  rw [if_pos (by
    rw [Bool.and_eq_true, decide_eq_true_eq, decide_eq_true_eq, gt_iff_lt, Int32.lt_iff_toInt_lt, Int32.le_iff_toInt_le, hqe, he4]
    refine ⟨?_, ?_⟩
    · show (q : Int) + E ≤ 6145; exact h2
    · show (6111 : Int) < E; exact h1)]
  rw [hback, hscn, hidx]
  by_cases hq19 : q ≤ 19
  · rw [if_pos (by rw [decide_eq_true_eq, Int32.le_iff_toInt_le, hq4]; show (q : Int) ≤ 19; omega)]
    have hw0 : C4.w0.toNat = N := by
      have : (10 : Nat) ^ 19 < 2 ^ 64 := by decide
      have : N < 10 ^ 19 := lt_of_lt_of_le hNq (Nat.pow_le_pow_right (by decide) hq19)
      have := hw.1; unfold U128.toNat' at this; simp only at this
      have := C4.w0.toNat_lt
      omega
    by_cases hs19 : sc ≤ 19
    · rw [if_pos (by rw [decide_eq_true_eq, Int32.le_iff_toInt_le, hE, hsc]; show (sc : Int) ≤ 19; omega)]
      rw [ten2k64_get sc (by omega)]
      obtain ⟨r, hr, hrv⟩ := Dec.C01GenArith.gen_mul_64x64_to_128MACH C4.w0 (UInt64.ofNat (10 ^ sc))
      simp only [hr]
      rw [eq_mk128 r _ hrv, hw0, UInt64.toNat_ofNat', Nat.mod_eq_of_lt (by
        have : (10 : Nat) ^ 19 < 2 ^ 64 := by decide
        exact lt_of_le_of_lt (Nat.pow_le_pow_right (by decide) hs19) this)]
    · rw [if_neg (by rw [decide_eq_true_eq, Int32.le_iff_toInt_le, hE, hsc]; show ¬ (sc : Int) ≤ 19; omega)]
      have hs20 : (e4 - c_EXP_MAX_UNBIASED - (20 : Int32)).toInt = ((sc - 20 : Nat) : Int) := by
        rw [i32_sub' _ (20 : Int32) (E - 6111) 20 hE rfl (by omega) (by omega)]; omega
      rw [idx_of _ _ hs20, ten2k128_get (sc - 20) (by omega), show sc - 20 + 20 = sc by omega]
      have hp : (10 : Nat) ^ sc < 2 ^ 128 := lt_of_le_of_lt (Nat.pow_le_pow_right (by decide) (show sc ≤ 34 by omega)) h34
      obtain ⟨r, hr, hrv⟩ := Dec.C01GenArith.gen_mul_128x64_to_128_exact C4.w0 (mk128 (10 ^ sc)) (by
        rw [mk128_val _ hp, hw0]; omega)
      simp only [hr]
      rw [eq_mk128 r _ hrv, hw0, mk128_val _ hp]
  · rw [if_neg (by rw [decide_eq_true_eq, Int32.le_iff_toInt_le, hq4]; show ¬ (q : Int) ≤ 19; omega)]
    rw [ten2k64_get sc (by omega)]
    have hp : (10 : Nat) ^ sc < 2 ^ 64 := lt_of_le_of_lt (Nat.pow_le_pow_right (by decide) (show sc ≤ 19 by omega)) (by decide)
    obtain ⟨r, hr, hrv⟩ := Dec.C01GenArith.gen_mul_128x64_to_128_exact (UInt64.ofNat (10 ^ sc)) (⟨C4.w0, C4.w1⟩ : U128) (by
      rw [hw.1, UInt64.toNat_ofNat', Nat.mod_eq_of_lt hp, Nat.mul_comm]; omega)
    simp only [hr]
    rw [eq_mk128 r _ hrv, hw.1, UInt64.toNat_ofNat', Nat.mod_eq_of_lt hp, Nat.mul_comm]

/-! ## 3. (A) `prefK`: the preferred exponent of an exact result -/

/-- the tail of `prefK` once the scale is chosen (literal text) -/
def prefTail (res_ C3 : U128) (q4 scale : Int32) (p_exp_ p_sign : UInt64) (k : U128 → Except String Out) : Except String Out := do
  let mut res : U128 := res_
  let mut p_exp : UInt64 := p_exp_
  p_exp := (p_exp - (((UInt64.ofInt (toI scale))) <<< 0x31))
  if (scale == (0 : Int32)) then
    pure ()
  else
    if (decide (q4 ≤ (0x13 : Int32))) then
      res := (← (if (decide (scale ≤ (0x13 : Int32))) then (do pure (← mul_64x64_to_128MACH C3.w0 (← tbl64 Dec.Gen.BID_TEN2K64 (UInt64.ofInt (toI scale))))) else (do pure (← mul_128x64_to_128 C3.w0 (← tbl128 Dec.Gen.BID_TEN2K128 (UInt64.ofInt (toI ((scale - (0x14 : Int32))))))))))
      res := { res with w1 := (res.w1 ||| (p_sign ||| ((p_exp &&& c_MASK_EXP)))) }
    else
      res := (← mul_128x64_to_128 (← tbl64 Dec.Gen.BID_TEN2K64 (UInt64.ofInt (toI scale))) C3)
      res := { res with w1 := (res.w1 ||| (p_sign ||| ((p_exp &&& c_MASK_EXP)))) }
  k res

theorem prefK_shape (res C3 : U128) (q4 : Int32) (z_exp p_sign : UInt64) (k : U128 → Except String Out) :
    prefK res C3 q4 z_exp p_sign k =
      if z_exp < (res.w1 &&& c_MASK_EXP) then
        prefTail res ⟨res.w0, res.w1 &&& c_MASK_COEFF⟩ q4
          (if Int32.ofInt (toI ((((res.w1 &&& c_MASK_EXP) - z_exp)) >>> 0x31)) < c_P34 - q4 then
            Int32.ofInt (toI ((((res.w1 &&& c_MASK_EXP) - z_exp)) >>> 0x31)) else c_P34 - q4)
          (res.w1 &&& c_MASK_EXP) p_sign k
      else k res := by
  unfold prefK prefTail
  simp only [bind, Except.bind, pure, Except.pure, decide_eq_true_eq]
  split
  · split <;> rfl
  · rfl

/-- sign, exponent field and a product below `10^34` packed -/
theorem pack_prod (s : Bool) (S : Nat) (hS : S = if s then 1 else 0) (n : Nat) (hn : n < 10 ^ 34) (x : Int) (Y : Nat) (hY : (x + 6176).toNat = Y)
    (hYb : Y < 2 ^ 14) (pe : UInt64) (hpe : pe.toNat = Y * 2 ^ 49) :
    (⟨(mk128 n).w0, (mk128 n).w1 ||| (sgnW s ||| (pe &&& c_MASK_EXP))⟩ : U128) = ofBits (encode (.fin s n x)) := by
  have h34 : (10 : Nat) ^ 34 < 2 ^ 113 := by decide
  apply Dec.C06GenFromInt.eq_ofBits
  rw [encode_fin, hY, ← hS]
  have hS1 : S ≤ 1 := by rw [hS]; split <;> omega
  have hm : (pe &&& c_MASK_EXP).toNat = Y * 2 ^ 49 := by
    rw [Dec.C13GenNoncomp.toNat_and_field _ c_MASK_EXP 14 49 (by decide), hpe, Nat.mul_div_cancel _ (by decide),
      Nat.mod_eq_of_lt hYb]
  have hw1 : (mk128 n).w1.toNat = n / 2 ^ 64 := by
    unfold mk128; simp only; rw [UInt64.toNat_ofNat']; omega
  have hw0 : (mk128 n).w0.toNat = n % 2 ^ 64 := by
    unfold mk128; simp only; rw [UInt64.toNat_ofNat']; omega
  show ((mk128 n).w1 ||| (sgnW s ||| (pe &&& c_MASK_EXP))).toNat * 2 ^ 64 + (mk128 n).w0.toNat = _
  rw [UInt64.toNat_or, UInt64.toNat_or, hm, sgnW_toNat, ← hS, Nat.or_comm, Dec.C17GenNext.or3 _ _ _ hS1 hYb (by rw [hw1]; omega),
    hw1, hw0]
  omega

set_option maxHeartbeats 1000000 in
theorem prefTail_spec (s : Bool) (c q : Nat) (e : Int) (sc : Nat) (hc0 : 0 < c) (hq : ndigits c = q) (hq34 : q ≤ 34)
    (he : -6176 ≤ e ∧ e ≤ 6111) (hsq : q + sc ≤ 34) (hse : -6176 ≤ e - sc)
    (q4 : Int32) (hq4 : q4.toInt = q) (k : U128 → Except String Out)
    (res C3 : U128) (hC3 : C3.toNat' = c) (hw0 : res.w0.toNat = c % 2 ^ 64) (S : Nat) (hS : S = if s then 1 else 0) (hS1 : S ≤ 1)
    (pe : UInt64) (X : Nat) (hpe : pe.toNat = X * 2 ^ 49) (hX : (e + 6176).toNat = X)
    (sw : Int32) (hsw : sw.toInt = sc) :
    prefTail res C3 q4 sw pe (sgnW s) k =
      k (if sc = 0 then res else ofBits (encode (.fin s (c * 10 ^ sc) (e - sc)))) := by
  have hq1 : 1 ≤ q := by rw [← hq]; exact ndigits_pos hc0
  have hcq : c < 10 ^ q := by rw [← hq]; exact lt_pow_ndigits c
  have hfit : c * 10 ^ sc < 10 ^ 34 := by
    calc c * 10 ^ sc < 10 ^ q * 10 ^ sc := Nat.mul_lt_mul_of_pos_right hcq (Nat.pow_pos (by decide))
      _ = 10 ^ (q + sc) := (Nat.pow_add _ _ _).symm
      _ ≤ 10 ^ 34 := Nat.pow_le_pow_right (by decide) hsq
  have h34 : (10 : Nat) ^ 34 < 2 ^ 128 := by decide
  have hidx := idx_of sw sc hsw
  unfold prefTail
  simp only [bind, Except.bind, pure, Except.pure]
  rw [i32_beq0, hsw, hidx]
  by_cases h0 : sc = 0
  · rw [if_pos (by rw [decide_eq_true_eq, h0]; rfl), if_pos h0]
  · rw [if_neg (by rw [decide_eq_true_eq]; omega), if_neg h0]
    -- the new exponent field
    have hpe' : (pe - (UInt64.ofNat sc) <<< 0x31).toNat = (X - sc) * 2 ^ 49 := by
      have hsh : ((UInt64.ofNat sc) <<< 0x31).toNat = sc * 2 ^ 49 := by
        rw [UInt64.toNat_shiftLeft, UInt64.toNat_ofNat', show (0x31 : UInt64).toNat % 64 = 49 from by decide,
          Nat.shiftLeft_eq]
        omega
      rw [UInt64.toNat_sub_of_le _ _ (by rw [UInt64.le_iff_toNat_le, hsh, hpe]; omega), hsh, hpe, Nat.sub_mul]
    have hpack : ∀ r : U128, r.toNat' = c * 10 ^ sc →
        k ⟨r.w0, r.w1 ||| (sgnW s ||| ((pe - (UInt64.ofNat sc) <<< 0x31) &&& c_MASK_EXP))⟩ =
          k (ofBits (encode (.fin s (c * 10 ^ sc) (e - sc)))) := by
      intro r hr
      rw [eq_mk128 r _ hr, pack_prod s S hS _ hfit (e - sc) (X - sc) (by omega) (by omega) _ hpe']
    by_cases hq19 : q ≤ 19
    · rw [if_pos (by rw [decide_eq_true_eq, Int32.le_iff_toInt_le, hq4]; show (q : Int) ≤ 19; omega)]
      have hw0' : C3.w0.toNat = c := by
        have : (10 : Nat) ^ 19 < 2 ^ 64 := by decide
        have : c < 10 ^ 19 := lt_of_lt_of_le hcq (Nat.pow_le_pow_right (by decide) hq19)
        unfold U128.toNat' at hC3
        have := C3.w0.toNat_lt
        omega
      by_cases hs19 : sc ≤ 19
      · rw [if_pos (by rw [decide_eq_true_eq, Int32.le_iff_toInt_le, hsw]; show (sc : Int) ≤ 19; omega)]
        rw [ten2k64_get sc (by omega)]
        obtain ⟨r, hr, hrv⟩ := Dec.C01GenArith.gen_mul_64x64_to_128MACH C3.w0 (UInt64.ofNat (10 ^ sc))
        simp only [hr]
        exact hpack r (by
          rw [hrv, hw0', UInt64.toNat_ofNat', Nat.mod_eq_of_lt (by
            have : (10 : Nat) ^ 19 < 2 ^ 64 := by decide
            exact lt_of_le_of_lt (Nat.pow_le_pow_right (by decide) hs19) this)])
      · rw [if_neg (by rw [decide_eq_true_eq, Int32.le_iff_toInt_le, hsw]; show ¬ (sc : Int) ≤ 19; omega)]
        have hs20 : (sw - (20 : Int32)).toInt = ((sc - 20 : Nat) : Int) := by
          rw [i32_sub' _ (20 : Int32) sc 20 hsw rfl (by omega) (by omega)]; omega
        rw [idx_of _ _ hs20, ten2k128_get (sc - 20) (by omega), show sc - 20 + 20 = sc by omega]
        have hp : (10 : Nat) ^ sc < 2 ^ 128 := lt_of_le_of_lt (Nat.pow_le_pow_right (by decide) (show sc ≤ 34 by omega)) h34
        obtain ⟨r, hr, hrv⟩ := Dec.C01GenArith.gen_mul_128x64_to_128_exact C3.w0 (mk128 (10 ^ sc)) (by
          rw [mk128_val _ hp, hw0']; omega)
        simp only [hr]
        exact hpack r (by rw [hrv, hw0', mk128_val _ hp])
    · rw [if_neg (by rw [decide_eq_true_eq, Int32.le_iff_toInt_le, hq4]; show ¬ (q : Int) ≤ 19; omega)]
      rw [ten2k64_get sc (by omega)]
      have hp : (10 : Nat) ^ sc < 2 ^ 64 := lt_of_le_of_lt (Nat.pow_le_pow_right (by decide) (show sc ≤ 19 by omega)) (by decide)
      obtain ⟨r, hr, hrv⟩ := Dec.C01GenArith.gen_mul_128x64_to_128_exact (UInt64.ofNat (10 ^ sc)) C3 (by
        rw [hC3, UInt64.toNat_ofNat', Nat.mod_eq_of_lt hp, Nat.mul_comm]; omega)
      simp only [hr]
      exact hpack r (by rw [hrv, hC3, UInt64.toNat_ofNat', Nat.mod_eq_of_lt hp, Nat.mul_comm])

set_option maxHeartbeats 1000000 in
theorem prefK_words (s : Bool) (c q : Nat) (e E3 : Int) (hc0 : 0 < c) (hq : ndigits c = q) (hq34 : q ≤ 34)
    (he : -6176 ≤ e ∧ e ≤ 6111) (hE3 : -6176 ≤ E3 ∧ E3 ≤ 6111) (C3 : U128) (q4 : Int32) (hq4 : q4.toInt = q)
    (z_exp : UInt64) (hze : z_exp.toNat = (E3 + 6176).toNat * 2 ^ 49) (k : U128 → Except String Out)
    (res : U128) (hw0 : res.w0.toNat = c % 2 ^ 64)
    (hw1 : res.w1.toNat = (if s then 1 else 0) * 2 ^ 63 + (e + 6176).toNat * 2 ^ 49 + c / 2 ^ 64) (sc : Nat)
    (hsc : sc = if E3 < e then min (34 - q) (e - E3).toNat else 0) :
    prefK res C3 q4 z_exp (sgnW s) k =
      k (if sc = 0 then res else ofBits (encode (.fin s (c * 10 ^ sc) (e - sc)))) := by
  have hq1 : 1 ≤ q := by rw [← hq]; exact ndigits_pos hc0
  have hcq : c < 10 ^ q := by rw [← hq]; exact lt_pow_ndigits c
  have hc34 : c < 10 ^ 34 := lt_of_lt_of_le hcq (Nat.pow_le_pow_right (by decide) hq34)
  have h34 : (10 : Nat) ^ 34 < 2 ^ 113 := by decide
  obtain ⟨X, hX⟩ : ∃ X : Nat, (e + 6176).toNat = X := ⟨_, rfl⟩
  obtain ⟨Z, hZ⟩ : ∃ Z : Nat, (E3 + 6176).toNat = Z := ⟨_, rfl⟩
  rw [hX] at hw1; rw [hZ] at hze
  have hXb : X ≤ 12287 := by omega
  have hZb : Z ≤ 12287 := by omega
  generalize hS : (if s = true then 1 else 0 : Nat) = S at hw1
  have hS1 : S ≤ 1 := by rw [← hS]; split <;> omega
  have hch : c / 2 ^ 64 < 2 ^ 49 := by omega
  have hpe : (res.w1 &&& c_MASK_EXP).toNat = X * 2 ^ 49 := by
    rw [Dec.C13GenNoncomp.toNat_and_field _ c_MASK_EXP 14 49 (by decide), hw1]
    congr 1; omega
  have hco : (res.w1 &&& c_MASK_COEFF).toNat = c / 2 ^ 64 := by
    rw [Dec.C13GenNoncomp.toNat_and_field _ c_MASK_COEFF 49 0 (by decide), hw1]
    omega
  rw [prefK_shape]
  by_cases hlt : E3 < e
  · rw [if_pos hlt] at hsc
    rw [if_pos (by rw [UInt64.lt_iff_toNat_lt, hpe, hze]; omega)]
    obtain ⟨d, hd⟩ : ∃ d : Nat, (e - E3).toNat = d := ⟨_, rfl⟩
    rw [hd] at hsc
    have hXZ : X = Z + d := by omega
    have hd1 : 1 ≤ d := by omega
    have hsub : ((res.w1 &&& c_MASK_EXP) - z_exp).toNat = d * 2 ^ 49 := by
      rw [UInt64.toNat_sub_of_le _ _ (by rw [UInt64.le_iff_toNat_le, hpe, hze]; omega), hpe, hze, hXZ]
      rw [Nat.add_mul]; omega
    have hshr : (((res.w1 &&& c_MASK_EXP) - z_exp) >>> 0x31) = UInt64.ofNat d := by
      apply u64_ofNat_eq
      rw [UInt64.toNat_shiftRight, hsub, show (0x31 : UInt64).toNat % 64 = 49 from by decide, Nat.shiftRight_eq_div_pow]
      omega
    have hind : (Int32.ofInt (toI ((((res.w1 &&& c_MASK_EXP) - z_exp)) >>> 0x31))).toInt = d := by
      rw [hshr]; exact ofIdx d (by omega)
    have hs0 : (c_P34 - q4).toInt = 34 - q := i32_sub' c_P34 q4 34 q rfl hq4 (by omega) (by omega)
    generalize (Int32.ofInt (toI ((((res.w1 &&& c_MASK_EXP) - z_exp)) >>> 0x31))) = ind at hind ⊢
    obtain ⟨sw, hsw, hswv⟩ : ∃ sw : Int32, (if ind < c_P34 - q4 then ind else c_P34 - q4) = sw ∧ sw.toInt = sc := by
      refine ⟨_, rfl, ?_⟩
      by_cases hc : ind < c_P34 - q4
      · rw [if_pos hc, hind, hsc]
        rw [Int32.lt_iff_toInt_lt, hind, hs0] at hc; omega
      · rw [if_neg hc, hs0, hsc]
        rw [Int32.lt_iff_toInt_lt, hind, hs0] at hc; omega
    rw [hsw]
    have hC3 : (⟨res.w0, res.w1 &&& c_MASK_COEFF⟩ : U128).toNat' = c := by
      unfold U128.toNat'; simp only; rw [hw0, hco]; omega
    exact prefTail_spec s c q e sc hc0 hq hq34 he (by omega) (by omega) q4 hq4 k res _ hC3 hw0 S hS.symm hS1 _ X hpe (by omega) sw hswv
  · rw [if_neg hlt] at hsc
    rw [if_neg (by rw [UInt64.lt_iff_toNat_lt, hpe, hze]; omega), if_pos hsc]

/-- **(A) the preferred exponent of an exact result**: `prefK` on the packed exact result `(−1)^s·c·10^e` (`q` digits) and the exponent
field of `z`: the coefficient is multiplied by `10^sc`, `sc = min (34 − q) (e − E3)` when `E3 < e` (else `0`), and repacked -/
theorem prefK_eval (s : Bool) (c q : Nat) (e E3 : Int) (hc0 : 0 < c) (hq : ndigits c = q) (hq34 : q ≤ 34)
    (he : -6176 ≤ e ∧ e ≤ 6111) (hE3 : -6176 ≤ E3 ∧ E3 ≤ 6111) (C3 : U128) (q4 : Int32) (hq4 : q4.toInt = q)
    (z_exp : UInt64) (hze : z_exp.toNat = (E3 + 6176).toNat * 2 ^ 49) (k : U128 → Except String Out)
    (sc : Nat) (hsc : sc = if E3 < e then min (34 - q) (e - E3).toNat else 0) :
    prefK (ofBits (encode (.fin s c e))) C3 q4 z_exp (sgnW s) k = k (ofBits (encode (.fin s (c * 10 ^ sc) (e - sc)))) := by
  have hcq : c < 10 ^ q := by rw [← hq]; exact lt_pow_ndigits c
  have hc34 : c < 10 ^ 34 := lt_of_lt_of_le hcq (Nat.pow_le_pow_right (by decide) hq34)
  have h34 : (10 : Nat) ^ 34 < 2 ^ 113 := by decide
  have hB := encode_fin s c e
  obtain ⟨X, hX⟩ : ∃ X : Nat, (e + 6176).toNat = X := ⟨_, rfl⟩
  have hXb : X ≤ 12287 := by omega
  obtain ⟨S, hS⟩ : ∃ S : Nat, (if s = true then 1 else 0 : Nat) = S := ⟨_, rfl⟩
  have hS1 : S ≤ 1 := by rw [← hS]; split <;> omega
  rw [hX, hS] at hB
  obtain ⟨hw0, hw1⟩ := ofBits_words (encode (.fin s c e)) (by rw [hB]; omega)
  have hw0' : (ofBits (encode (.fin s c e))).w0.toNat = c % 2 ^ 64 := by rw [hw0, hB]; omega
  have hw1' : (ofBits (encode (.fin s c e))).w1.toNat = (if s = true then 1 else 0) * 2 ^ 63 + (e + 6176).toNat * 2 ^ 49 + c / 2 ^ 64 := by
    rw [hw1, hB, hS, hX]; omega
  clear hw0 hw1
  by_cases h0 : sc = 0
  · have e1 : c * 10 ^ sc = c := by rw [h0]; simp
    have e2 : e - (sc : Int) = e := by rw [h0]; simp
    rw [e1, e2]
    generalize ofBits (encode (.fin s c e)) = res at hw0' hw1' ⊢
    rw [prefK_words s c q e E3 hc0 hq hq34 he hE3 C3 q4 hq4 z_exp hze k res hw0' hw1' sc hsc, if_pos h0]
  · generalize ofBits (encode (.fin s c e)) = res at hw0' hw1' ⊢
    rw [prefK_words s c q e E3 hc0 hq hq34 he hE3 C3 q4 hq4 z_exp hze k res hw0' hw1' sc hsc, if_neg h0]

/-! ## 4. Examples -/

-- 5·10^2 with preferred exponent 0: delivered as 500·10^0
example : finish .rne false 5 1 2 0 = (.fin false 500 0, 0) :=
  finish_exact_pref .rne false 5 (by decide) 2 0 5 2 2 rfl (by decide) (by decide) (by decide) (by decide) (by decide) (Or.inl rfl)
example : finish .rne false 5 1 2 0 = (.fin false 500 0, 0) := by decide +kernel
-- 12·10^6113 (q = 2): `round1K` hands on 1200·10^6111
example (pf : UInt32) (k : U128 → Int32 → Int32 → UInt32 → Bool → Bool → Bool → Bool → Bool → U128 → Except String Out) :
    round1K ⟨12, 0, 0, 0⟩ 2 6113 pf k = k (mk128 1200) c_EXP_MAX_UNBIASED (2 + (6113 - c_EXP_MAX_UNBIASED)) pf
      false false false false false default :=
  round1K_scale ⟨12, 0, 0, 0⟩ 12 2 6113 rfl (by decide) (by decide +kernel) (by decide) 2 6113 rfl rfl (by decide) (by decide) pf k
-- +7·10^3 against an addend exponent 0: 7000·10^0
example (C3 : U128) (k : U128 → Except String Out) :
    prefK (ofBits (encode (.fin false 7 3))) C3 1 ((6176 : UInt64) <<< 49) (sgnW false) k =
      k (ofBits (encode (.fin false (7 * 10 ^ 3) (3 - (3 : Nat))))) :=
  prefK_eval false 7 1 3 0 (by decide) (by decide +kernel) (by decide) (by decide) (by decide) C3 1 rfl _ (by decide) k 3 (by decide)

end Dec.C02GenFmaZ0B
