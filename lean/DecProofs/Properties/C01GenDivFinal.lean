/-
  C01 (generated-code level) — `bid128_div` of the translated source on ALL operands, and the property C01 about the public
  method `division` (`Dec.Gen.Api.run "division"`).  Puts together
    * `C01GenDiv`     (main path of `bid128_div_clear_status` = `divD`, given exactness of its one call of the long division),
    * `C01GenDiv256`  (`div_256_by_128_exact`: the repaired `bid___div_256_by_128` is exact up to one float-margin corner),
    * `C01GenMul.div_front'` (NaN-free front end), `C12GenNaN.div_nan` (NaN operands), `C10GenRem` (128-bit division).

  ONE residual hypothesis, `CornerMargin` (§2): the `hcorner` of `div_256_by_128_exact`, universally closed over divisors
  `0 < Y < 2^113` (`CornerAt X Y` for one pair).  It is vacuous for quotients `≥ 2^100` (`corner_of_big`) and for a zero dividend
  (`corner_of_zero`), hence in `bid128_div` it is asked for only in the branch `CX ≥ CY` with a remainder (`call256_at_of`): the
  branch `CY > CX` divides to a quotient `≥ 10^33 > 2^100`.  `div256_exact : CornerMargin → C01GenDiv.Div256Exact`.

  §1  the packers return canonical patterns (`get_canon`, `uf_rem_canon`) — `C01GenDiv` states decoded results only.
  §3  so does the main path (`div_main_canon`), hence the result WORD is `ofBits (encode …)` (`div_main_word`).
  §4  `div_spec_front` (unconditional off the main path), `bid128_div_spec_of` (pointwise corner hypothesis),
      **`bid128_div_spec (h : CornerMargin) : bid128_div x y m f = .ok (binSpec (divD (md m)) x y f)`** for every pair of 128-bit
      patterns, every mode, every status word (`binSpec` of `C10GenFmodRem`: NaN rule, else canonical pattern of `divD`'s datum
      and `divD`'s flags OR-ed in).
  §5  about `run "division"`: `api_division`; `quotient_property` (correctly rounded quotient = the unique `FinishSpecStrict`
      delivery, sign xor, flags 0 iff exactly representable else inexact (+ underflow / overflow), preferred exponent);
      `quotient_property_free` (no hypothesis for `c1 < c2` or `c2 ∣ c1`); `exact_property` (`c1 = q·c2`: exactly `q·10^(e1−e2)`);
      `div_by_zero_property` (0x04, infinity of the xor sign); `invalid_property` (0/0, ∞/∞); `inf_property`; `zero_property`;
      `nan_property`; each with evaluated examples (`decide +kernel` on `run`).
  Findings: none beyond the defect of `bid___div_256_by_128` found and repaired earlier (`C01GenDiv256`).
-/
import DecProofs.Properties.C01GenDiv
import DecProofs.Properties.C01GenDiv256
import DecProofs.Properties.C10GenFmodRem

set_option linter.unusedSimpArgs false
set_option linter.unusedVariables false
set_option linter.unnecessarySeqFocus false

namespace Dec.C01GenDivFinal
open Dec Dec.Rs Dec.Gen.Code Dec.C13GenPack Dec.C01GenDiv Dec.C12GenNaN
open Dec.C13PackHelpers (norm34 bits)
open Dec.C06GenFromInt (ofBits)
open Dec.C01GenMul (dOf)
open Dec.C10GenRem (lval)
open Dec.C01GenDiv256 (lval3)
open Dec.C10GenFmodRem (binSpec binSpec_nonnan result_datum dnan_word inv_flag no_flag)

/-! ## 1. The two packers return canonical patterns -/

theorem canon_of (b : Nat) (d : Datum) (hb : b < 2 ^ 128) (h1 : b = encode d) (h2 : decode b = d) : isCanonical b = true := by
  rw [isCanonical_iff]
  refine ⟨hb, ?_⟩
  unfold canon
  rw [h2, ← h1]

theorem bitsOf_lt' (x : U128) : bitsOf x < 2 ^ 128 := by
  have := x.w0.toNat_lt; have := x.w1.toNat_lt
  unfold bitsOf; omega

/-- **`bid_get_BID128` returns a canonical pattern**: sign word 0 / 2^63, coefficient `0 < C ≤ 10^34`, any exponent below `2^31 − 1`,
any mode and status word -/
theorem get_canon (sgn : UInt64) (e : Int32) (c : U128) (m : RoundingMode) (f : UInt32)
    (hs : sgn = 0 ∨ sgn = 0x8000000000000000) (hC0 : 0 < bitsOf c) (hC : bitsOf c ≤ 10 ^ 34) (he : e.toInt < 2147483647)
    (res : U128) (fl : UInt32) (hcall : bid_get_BID128 sgn e c m f = .ok (res, fl)) : isCanonical (bitsOf res) = true := by
  obtain ⟨hs', hd⟩ := sgn_cases sgn hs
  rw [bitsOf_eq c] at hC0 hC
  have hbits : ∀ r : U128, bits (pr r) = bitsOf r := fun r => rfl
  have close : ∀ (r : PackH.U128) (q : Nat) (d : Datum),
      PackH.get_BID128 sgn.toNat e.toInt (pr c) (md m) f.toNat = some (r, q) → bits r = encode d → d.WF →
      isCanonical (bitsOf res) = true := by
    intro r q d hmod hb hwf
    obtain ⟨res', fl', hcode, hp, -⟩ := get_bridge sgn e c m f r q hmod
    rw [hcall] at hcode
    injection hcode with hcode
    injection hcode with h1 h2
    subst h1
    rw [← hbits, hp, hb]
    exact isCanonical_encode hwf
  have hn := C13PackHelpers.norm34_lt (c.w0.toNat + 2 ^ 64 * c.w1.toNat) e.toInt hC
  rcases lt_trichotomy (norm34 (c.w0.toNat + 2 ^ 64 * c.w1.toNat) e.toInt).2 0 with hlt | heq | hgt
  · obtain ⟨r, mm, hget, -, hb, hdec⟩ := C13PackHelpers.get_underflow_decode sgn.toNat e.toInt c.w0.toNat c.w1.toNat (md m)
      f.toNat hs' c.w0.toNat_lt c.w1.toNat_lt hC e.le_toInt he hlt (Or.inl (by omega))
    have hwf : (Datum.fin (decide (sgn.toNat ≠ 0)) mm eMin).WF := by rw [← hdec]; exact decode_WF _
    exact close r _ _ hget hb hwf
  · obtain ⟨r, hget, hb⟩ := C13PackHelpers.get_in_range sgn.toNat e.toInt c.w0.toNat c.w1.toNat (md m) f.toNat hs'
      c.w0.toNat_lt c.w1.toNat_lt hC (by omega) (by omega)
    exact close r _ _ hget hb ⟨by rw [C13PackHelpers.P34_eq']; exact hn, by unfold eMin; omega, by unfold eMax; omega⟩
  · by_cases hin : (norm34 (c.w0.toNat + 2 ^ 64 * c.w1.toNat) e.toInt).2 ≤ 12287
    · obtain ⟨r, hget, hb⟩ := C13PackHelpers.get_in_range sgn.toNat e.toInt c.w0.toNat c.w1.toNat (md m) f.toNat hs'
        c.w0.toNat_lt c.w1.toNat_lt hC (by omega) hin
      exact close r _ _ hget hb ⟨by rw [C13PackHelpers.P34_eq']; exact hn, by unfold eMin; omega, by unfold eMax; omega⟩
    · obtain ⟨hpad, hov⟩ := C13PackHelpers.get_overflow sgn.toNat e.toInt c.w0.toNat c.w1.toNat (md m) f.toNat hs'
        c.w0.toNat_lt c.w1.toNat_lt hC e.le_toInt he (by omega)
      by_cases hp : (norm34 (c.w0.toNat + 2 ^ 64 * c.w1.toNat) e.toInt).1 *
          10 ^ ((norm34 (c.w0.toNat + 2 ^ 64 * c.w1.toNat) e.toInt).2 - 12287).toNat < 10 ^ 34
      · obtain ⟨r, hget, hb⟩ := hpad hp
        exact close r _ _ hget hb ⟨by rw [C13PackHelpers.P34_eq']; exact hp, by decide, by decide⟩
      · obtain ⟨r, hget, hb⟩ := hov hp
        exact close r _ _ hget hb (ovf_WF _ _)

/-- **`bid_handle_UF_128_rem` returns a canonical pattern** on the call the division makes -/
theorem uf_rem_canon (sgn : UInt64) (e : Int32) (CQ : U128) (R : UInt64) (m : RoundingMode) (f : UInt32)
    (hs : sgn = 0 ∨ sgn = 0x8000000000000000) (he : e.toInt ≤ -1) (hC : bitsOf CQ < 10 ^ 34) (hR : R ≠ 0)
    (res : U128) (fl : UInt32) (hcall : bid_handle_UF_128_rem sgn e CQ R m f = .ok (res, fl)) :
    isCanonical (bitsOf res) = true := by
  obtain ⟨hs', hd⟩ := sgn_cases sgn hs
  rw [bitsOf_eq CQ] at hC
  have hR' : R.toNat ≠ 0 := by rw [ne_eq, ← u64_eq_zero]; exact hR
  obtain ⟨r, mm, hget, -, hb, hdec⟩ := C13PackHelpers.handle_uf_rem_decode sgn.toNat e.toInt CQ.w0.toNat CQ.w1.toNat R.toNat (md m)
    f.toNat 2 1 hs' e.le_toInt he CQ.w0.toNat_lt CQ.w1.toNat_lt hC hR' (by decide) (by decide)
  obtain ⟨res', fl', hcode, hp, -⟩ := handle_uf_rem_bridge sgn e CQ R m f _ _ hget
  rw [hcall] at hcode
  injection hcode with hcode
  injection hcode with h1 h2
  subst h1
  have hwf : (Datum.fin (decide (sgn.toNat ≠ 0)) mm eMin).WF := by rw [← hdec]; exact decode_WF _
  show isCanonical (bits (pr res)) = true
  rw [hp, hb]
  exact isCanonical_encode hwf
/-! ## 2. The long division at the call sites of `bid128_div` -/

/-- the float-margin corner of `C01GenDiv256.div_256_by_128_exact` for one dividend / divisor pair: if the dividend is below `2^192`
and the quotient lies in `[2^100 − 2^49, 2^100)` (the second estimation stage is entered at its very edge), the dividend and the
divisor as the `f64` computation sees them satisfy `lx ≤ (2^100 + 2^48)·ly` -/
def CornerAt (X : U256) (Y : U128) : Prop :=
  X.toNat' < 2 ^ 192 → X.toNat' < 2 ^ 51 * (2 ^ 49 * Y.toNat') → (2 ^ 51 - 1) * (2 ^ 49 * Y.toNat') ≤ X.toNat' →
    lval3 X.w2.toNat X.w1.toNat X.w0.toNat ≤ (2 ^ 52 + 1) * 2 ^ 48 * lval Y.w1.toNat Y.w0.toNat

/-- **the one residual hypothesis**: `CornerAt` for every divisor `0 < Y < 2^113` and every dividend.  To be replaced by
`C01GenDiv256.corner_margin` when it lands.  In `bid128_div` it can only matter in the branch `CX ≥ CY` with a remainder
(`corner_of_big`, `corner_of_zero`: a quotient `≥ 2^100` — in particular the `≥ 10^33` of the branch `CY > CX` — or a zero dividend
never needs it). -/
def CornerMargin : Prop := ∀ (X : U256) (Y : U128), 0 < Y.toNat' → Y.toNat' < 2 ^ 113 → CornerAt X Y

theorem corner_of_big (X : U256) (Y : U128) (hY0 : 0 < Y.toNat') (hbig : 2 ^ 100 ≤ X.toNat' / Y.toNat') : CornerAt X Y := by
  intro _ hlt _
  exfalso
  have : X.toNat' / Y.toNat' < 2 ^ 100 := (Nat.div_lt_iff_lt_mul hY0).2 (by
    calc X.toNat' < 2 ^ 51 * (2 ^ 49 * Y.toNat') := hlt
      _ = 2 ^ 100 * Y.toNat' := by ring)
  omega

theorem corner_of_zero (X : U256) (Y : U128) (hY0 : 0 < Y.toNat') (h0 : X.toNat' = 0) : CornerAt X Y := by
  intro _ _ hge
  exfalso
  rw [h0] at hge
  have : 0 < (2 ^ 51 - 1) * (2 ^ 49 * Y.toNat') := Nat.mul_pos (by norm_num) (Nat.mul_pos (by norm_num) hY0)
  omega

/-- the domain of the call sites implies the domain of `div_256_by_128_exact` -/
theorem call_domain (CQ : U128) (A : U256) (CY : U128) (hY0 : 0 < CY.toNat') (hY : CY.toNat' < 10 ^ 34)
    (hhi : CQ.toNat' + A.toNat' / CY.toNat' < 10 ^ 34) :
    CY.toNat' < 2 ^ 113 ∧ A.toNat' < (2 ^ 53 - 4) * (2 ^ 60 * CY.toNat') ∧ CQ.toNat' + A.toNat' / CY.toNat' < 2 ^ 128 := by
  have h113 : (10 : Nat) ^ 34 < 2 ^ 113 := by norm_num
  refine ⟨by omega, ?_, by omega⟩
  have hq : A.toNat' / CY.toNat' < 10 ^ 34 := by omega
  have h1 : A.toNat' < 10 ^ 34 * CY.toNat' := (Nat.div_lt_iff_lt_mul hY0).1 hq
  have h2 : 10 ^ 34 * CY.toNat' ≤ (2 ^ 53 - 4) * 2 ^ 60 * CY.toNat' := Nat.mul_le_mul_right _ (by norm_num)
  calc A.toNat' < 10 ^ 34 * CY.toNat' := h1
    _ ≤ (2 ^ 53 - 4) * 2 ^ 60 * CY.toNat' := h2
    _ = (2 ^ 53 - 4) * (2 ^ 60 * CY.toNat') := by ring

/-- **the long division on the domain of `bid128_div`'s call, given the corner inequality for this pair** -/
theorem div256_at (CQ : U128) (A : U256) (CY : U128) (hY0 : 0 < CY.toNat') (hY : CY.toNat' < 10 ^ 34)
    (hhi : CQ.toNat' + A.toNat' / CY.toNat' < 10 ^ 34) (hc : CornerAt A CY) : Div256ExactAt CQ A CY := by
  obtain ⟨d1, d2, d3⟩ := call_domain CQ A CY hY0 hY hhi
  obtain ⟨Q, R, hcall, hq, hr, -, -⟩ := Dec.C01GenDiv256.div_256_by_128_exact CQ A CY hY0 d1 d2 d3 hc
  exact ⟨Q, R, hcall, hq, hr⟩

/-- **`Div256Exact` (the named hypothesis of `C01GenDiv`) from the corner margin** -/
theorem div256_exact (h : CornerMargin) : Div256Exact := by
  intro CQ A CY hY0 hY _ hhi
  exact div256_at CQ A CY hY0 hY hhi (h A CY hY0 (call_domain CQ A CY hY0 hY hhi).1)

/-- the call `bid128_div` makes for the coefficients `c1`, `c2`: its domain facts, and the corner inequality is vacuous unless
`c2 ≤ c1` and `c2 ∤ c1` -/
theorem call256_at_of (c1 c2 : Nat) (hc2 : 0 < c2) (hl2 : c2 < 10 ^ 34) (CQ : U128) (A : U256)
    (hc : Call256 c1 c2 CQ A) (hcorner : c2 ≤ c1 → c1 % c2 ≠ 0 → CornerAt A (ofBits c2)) :
    Div256ExactAt CQ A (ofBits c2) := by
  obtain ⟨ed, g1, g2, g3, g4⟩ := hc
  have hY : (ofBits c2).toNat' = c2 := ofBits_toNat' (lt_trans hl2 (by norm_num))
  have hsum : CQ.toNat' * c2 + A.toNat' = c1 * 10 ^ ed := by
    rw [g3, g4]
    have := Nat.div_add_mod c1 c2
    calc c1 / c2 * 10 ^ ed * c2 + c1 % c2 * 10 ^ ed = (c2 * (c1 / c2) + c1 % c2) * 10 ^ ed := by ring
      _ = c1 * 10 ^ ed := by rw [this]
  have hq : CQ.toNat' + A.toNat' / c2 = c1 * 10 ^ ed / c2 := by
    rw [← hsum, Nat.mul_comm, Nat.mul_add_div hc2]
  apply div256_at CQ A (ofBits c2)
  · rw [hY]; exact hc2
  · rw [hY]; exact hl2
  · rw [hY, hq]; exact (Nat.div_lt_iff_lt_mul hc2).2 g2
  · by_cases hlt : c1 < c2
    · apply corner_of_big _ _ (by rw [hY]; exact hc2)
      rw [hY, g4, Nat.mod_eq_of_lt hlt]
      have : 10 ^ 33 ≤ c1 * 10 ^ ed / c2 := (Nat.le_div_iff_mul_le hc2).2 g1
      have : (2 : Nat) ^ 100 ≤ 10 ^ 33 := by norm_num
      omega
    · by_cases hd : c1 % c2 = 0
      · apply corner_of_zero _ _ (by rw [hY]; exact hc2)
        rw [g4, hd, Nat.zero_mul]
      · exact hcorner (by omega) hd
/-! ## 3. The main path returns canonical patterns -/

theorem inexact_tail_canon (sgn : UInt64) (de : Int32) (CQ : U128) (r : U256) (CY : U128) (m : RoundingMode)
    (hs : sgn = 0 ∨ sgn = 0x8000000000000000)
    (hQ1 : 10 ^ 33 ≤ CQ.toNat') (hQ2 : CQ.toNat' < 10 ^ 34)
    (hR0 : 0 < r.w0.toNat + 2 ^ 64 * r.w1.toNat) (hRY : r.w0.toNat + 2 ^ 64 * r.w1.toNat < CY.toNat')
    (hY : CY.toNat' < 10 ^ 34) (hde2 : de.toInt < 2147483647)
    (res : U128) (fl : UInt32) (hcall : roundK sgn de CQ r CY m c_StatusFlags_BID_INEXACT_EXCEPTION = .ok (res, fl)) :
    isCanonical (bitsOf res) = true := by
  rw [roundK_eq _ _ _ _ _ _ _ hs, i32_ge0] at hcall
  by_cases hde : 0 ≤ de.toInt
  · rw [decide_eq_true hde, if_pos rfl] at hcall
    obtain ⟨CQ', hk, hv⟩ := rndK_spec m (sgn != 0) CQ r CY
      (fun CQ' => bind (bid_get_BID128 sgn de CQ' m c_StatusFlags_BID_INEXACT_EXCEPTION) (fun t => pure (t.1, t.2)))
      hR0 hRY (lt_trans hY (by norm_num)) (by have : (10:Nat) ^ 34 < 2 ^ 127 := by norm_num
                                              omega)
    rw [hk, bind_eta] at hcall
    have hle : CQ'.toNat' ≤ CQ.toNat' + 1 := by rw [hv]; unfold roundInt; split <;> omega
    have hge : CQ.toNat' ≤ CQ'.toNat' := by rw [hv]; unfold roundInt; split <;> omega
    exact get_canon sgn de CQ' m _ hs (by rw [bitsOf_eq]; show 0 < CQ'.toNat'; omega)
      (by rw [bitsOf_eq]; show CQ'.toNat' ≤ _; omega) hde2 res fl hcall
  · rw [decide_eq_false hde, if_neg (by decide)] at hcall
    have hne : ((r.w0 != (0 : UInt64)) || (r.w1 != (0 : UInt64))) = true := by
      by_contra h
      rw [Bool.not_eq_true, Bool.or_eq_false_iff, bne_eq_false_iff_eq, bne_eq_false_iff_eq] at h
      rw [h.1, h.2] at hR0
      exact absurd hR0 (by decide)
    have hword : r.w1 ||| r.w0 ≠ 0 := by
      intro h
      rw [← UInt64.toNat_inj, UInt64.toNat_or] at h
      have := Nat.or_eq_zero_iff.1 h
      omega
    have huf : ufK sgn de CQ r m c_StatusFlags_BID_INEXACT_EXCEPTION
        = bid_handle_UF_128_rem sgn de CQ (r.w1 ||| r.w0) m c_StatusFlags_BID_INEXACT_EXCEPTION := by
      unfold ufK
      take_pos
      · exact hne
      take_call (show set_status_flags c_StatusFlags_BID_INEXACT_EXCEPTION c_StatusFlags_BID_INEXACT_EXCEPTION = .ok c_StatusFlags_BID_INEXACT_EXCEPTION from rfl)
      head_step
      exact bind_eta _
    rw [huf] at hcall
    exact uf_rem_canon sgn de CQ _ m _ hs (by omega) (by rw [bitsOf_eq]; exact hQ2) hword res fl hcall

theorem after_canon (CX CY : U128) (sgn : UInt64) (m : RoundingMode) (CQ : U128) (CA4 : U256)
    (ed2 de : Int32) (ed : Nat) (hs : sgn = 0 ∨ sgn = 0x8000000000000000)
    (hX0 : 0 < CX.toNat') (hY : CY.toNat' < 10 ^ 34) (hsum : CQ.toNat' * CY.toNat' + CA4.toNat' = CX.toNat' * 10 ^ ed)
    (hlo : 10 ^ 33 * CY.toNat' ≤ CX.toNat' * 10 ^ ed) (hhi : CX.toNat' * 10 ^ ed < 10 ^ 34 * CY.toNat')
    (hed : ed2.toInt = ed) (hedb : ed ≤ 100) (hde : -2147483000 ≤ de.toInt ∧ de.toInt ≤ 2147483000)
    (h256 : Div256ExactAt CQ CA4 CY)
    (res : U128) (fl : UInt32) (hcall : afterK CX CY sgn m 0 CQ CA4 ed2 de = .ok (res, fl)) :
    isCanonical (bitsOf res) = true := by
  have hY0 : 0 < CY.toNat' := by
    rcases Nat.eq_zero_or_pos CY.toNat' with h | h
    · rw [h] at hhi; omega
    · exact h
  obtain ⟨q, r, hc, hqv, hrv⟩ := h256
  have hq : CQ.toNat' + CA4.toNat' / CY.toNat' = CX.toNat' * 10 ^ ed / CY.toNat' := by
    rw [← hsum, Nat.mul_comm, Nat.mul_add_div hY0]
  have hr : CA4.toNat' % CY.toNat' = (CX.toNat' * 10 ^ ed) % CY.toNat' := by
    rw [← hsum, Nat.mul_comm, Nat.mul_add_mod]
  rw [hq] at hqv
  rw [hr] at hrv
  generalize hNd : CX.toNat' * 10 ^ ed = N at *
  have hN1 : 10 ^ 33 ≤ N / CY.toNat' := (Nat.le_div_iff_mul_le hY0).2 hlo
  have hN2 : N / CY.toNat' < 10 ^ 34 := (Nat.div_lt_iff_lt_mul hY0).2 hhi
  unfold afterK at hcall
  rw [hc, bind_ok] at hcall
  by_cases hnd : N % CY.toNat' = 0
  · have hr0 : r.w0 = 0 ∧ r.w1 = 0 := by
      rw [hnd] at hrv
      constructor <;> apply UInt64.toNat_inj.1 <;> (show _ = 0) <;> omega
    have hne : ¬ ((r.w0 != (0 : UInt64)) || (r.w1 != (0 : UInt64))) = true := by
      rw [hr0.1, hr0.2]; decide
    have hcall' : exactK CX CY q ed2 de sgn m 0 = .ok (res, fl) := by
      have := hcall
      rw [if_neg hne] at this
      exact this
    have hQY : q.toNat' * CY.toNat' = N := by rw [hqv]; exact Nat.div_mul_cancel (Nat.dvd_of_mod_eq_zero hnd)
    have hex : ∃ (CQ' : U128) (de' : Int32) (v : Nat), exactK CX CY q ed2 de sgn m 0 = bid_get_BID128 sgn de' CQ' m 0 ∧
        10 ^ v ∣ q.toNat' ∧ ¬ 10 ^ (v + 1) ∣ q.toNat' ∧ CQ'.toNat' = q.toNat' / 10 ^ v ∧ de'.toInt = de.toInt + v := by
      by_cases hsm : ((((CX.w1 == (0 : UInt64)) && (CY.w1 == (0 : UInt64))) && ((decide (CX.w0 ≤ (0x400 : UInt64))))) && ((decide (CY.w0 ≤ (0x400 : UInt64))))) = true
      · exact exact_small CX CY q ed2 de sgn m 0 ed hsm hX0 hY0
          (by rw [hqv]; exact hN1) (by rw [hqv]; exact hN2) hed hedb (by rw [hNd]; exact hQY) hde
      · exact exact_general CX CY q ed2 de sgn m 0 hsm (by rw [hqv]; exact hN1) (by rw [hqv]; exact hN2) hde
    obtain ⟨CQ', de', v, hk, hv1, hv2, hCv, hdev⟩ := hex
    rw [hk] at hcall'
    have hqpos : 0 < q.toNat' := by omega
    have hv33 : v ≤ 33 := by
      by_contra hcn
      have h1 : 10 ^ 34 ∣ q.toNat' := Dvd.dvd.trans (Nat.pow_dvd_pow 10 (by omega)) hv1
      have := Nat.le_of_dvd hqpos h1
      omega
    have hCpos : 0 < CQ'.toNat' := by
      rw [hCv]; exact Nat.div_pos (Nat.le_of_dvd hqpos hv1) (by positivity)
    exact get_canon sgn de' CQ' m 0 hs (by rw [bitsOf_eq]; exact hCpos)
      (by rw [bitsOf_eq]; show CQ'.toNat' ≤ _; rw [hCv]; exact le_trans (Nat.div_le_self _ _) (by omega)) (by omega) res fl hcall'
  · have hR0 : 0 < r.w0.toNat + 2 ^ 64 * r.w1.toNat := by rw [hrv]; omega
    have hne : ((r.w0 != (0 : UInt64)) || (r.w1 != (0 : UInt64))) = true := by
      by_contra h
      rw [Bool.not_eq_true, Bool.or_eq_false_iff, bne_eq_false_iff_eq, bne_eq_false_iff_eq] at h
      rw [h.1, h.2] at hR0
      exact absurd hR0 (by decide)
    have hcall' : roundK sgn de q r CY m c_StatusFlags_BID_INEXACT_EXCEPTION = .ok (res, fl) := by
      have := hcall
      rw [if_pos hne] at this
      exact this
    exact inexact_tail_canon sgn de q r CY m hs (by rw [hqv]; exact hN1) (by rw [hqv]; exact hN2) hR0
      (by rw [hrv]; exact Nat.mod_lt _ hY0) hY (by omega) res fl hcall'
/-- **the main path returns a canonical pattern** (under the hypothesis of `div_main_partial`) -/
theorem div_main_canon (x y : U128) (m : RoundingMode)
    {s1 s2 : Bool} {c1 c2 : Nat} {e1 e2 : Int}
    (hx : dOf x = .fin s1 c1 e1) (hy : dOf y = .fin s2 c2 e2) (hc1 : c1 ≠ 0) (hc2 : c2 ≠ 0)
    (h256 : ∀ (CQ : U128) (A : U256), Call256 c1 c2 CQ A → Div256ExactAt CQ A (ofBits c2))
    (res : U128) (fl : UInt32) (hcall : bid128_div_clear_status x y m 0 = .ok (res, fl)) :
    isCanonical (bitsOf res) = true := by
  obtain ⟨hl1, l1, u1⟩ := Dec.C01GenMul.fin_WF x hx
  obtain ⟨hl2, l2, u2⟩ := Dec.C01GenMul.fin_WF y hy
  have hP : P34 = 10 ^ 34 := by decide
  rw [hP] at hl1 hl2
  have h128' : (10 : Nat) ^ 34 < 2 ^ 128 := by norm_num
  have hX : (ofBits c1).toNat' = c1 := ofBits_toNat' (by omega)
  have hY : (ofBits c2).toNat' = c2 := ofBits_toNat' (by omega)
  obtain ⟨hsg, hneg⟩ := sign_word x y hx hy
  have hde := de_start e1 e2 l1 u1 l2 u2
  rw [div_entry x y m 0 hx hy hc1 hc2] at hcall
  unfold mainK at hcall
  generalize hsd : (x.w1 &&& 0x8000000000000000) ^^^ (y.w1 &&& 0x8000000000000000) = sgn at *
  generalize hded : Int32.ofInt (e1 + 6176) - Int32.ofInt (e2 + 6176) + c_DECIMAL_EXPONENT_BIAS_128 = de at *
  rw [C01GenArith.gen_unsigned_compare_gt_128, hX, hY, bind_ok] at hcall
  have hc10 : 0 < c1 := Nat.pos_of_ne_zero hc1
  have hc20 : 0 < c2 := Nat.pos_of_ne_zero hc2
  have fin : ∀ (CQ : U128) (CA4 : U256) (ed2 de' : Int32) (ed : Nat), ed2.toInt = ed → ed ≤ 69 → de'.toInt = de.toInt - ed →
      CQ.toNat' * c2 + CA4.toNat' = c1 * 10 ^ ed → 10 ^ 33 * c2 ≤ c1 * 10 ^ ed → c1 * 10 ^ ed < 10 ^ 34 * c2 →
      CQ.toNat' = c1 / c2 * 10 ^ ed → CA4.toNat' = c1 % c2 * 10 ^ ed →
      afterK (ofBits c1) (ofBits c2) sgn m 0 CQ CA4 ed2 de' = .ok (res, fl) → isCanonical (bitsOf res) = true := by
    intro CQ CA4 ed2 de' ed he1 he2 he3 hsum hlo hhi hCQ hCA hk
    exact after_canon (ofBits c1) (ofBits c2) sgn m CQ CA4 ed2 de' ed hsg (by rw [hX]; exact hc10) (by rw [hY]; exact hl2)
      (by rw [hX, hY]; exact hsum) (by rw [hX, hY]; exact hlo) (by rw [hX, hY]; exact hhi) he1 (by omega) (by omega)
      (h256 CQ CA4 ⟨ed, hlo, hhi, hCQ, hCA⟩) res fl hk
  by_cases hgt : c2 > c1
  · rw [if_pos (decide_eq_true hgt)] at hcall
    obtain ⟨CQ, CA4, ed2, de', ed, hk, g1, g2, g3, g4, g5, g6, g7⟩ := scaleGt_spec (ofBits c1) (ofBits c2) de
      (afterK (ofBits c1) (ofBits c2) sgn m 0) (by rw [hX]; exact hc10) (by rw [hX, hY]; exact hgt) (by rw [hY]; exact hl2)
      (by omega)
    rw [hX, hY] at g4 g5 g6
    rw [hk] at hcall
    have hq0 : c1 / c2 = 0 := Nat.div_eq_of_lt hgt
    have hr0 : c1 % c2 = c1 := Nat.mod_eq_of_lt hgt
    exact fin CQ CA4 ed2 de' ed g1 g2 g3 g4 g5 g6 (by rw [g7, hq0, Nat.zero_mul])
      (by rw [g7, Nat.zero_mul, Nat.zero_add] at g4; rw [g4, hr0]) hcall
  · rw [if_neg (by rw [decide_eq_true_eq]; exact hgt)] at hcall
    by_cases hdvd0 : c1 % c2 = 0
    · obtain ⟨q, hk, hq⟩ := scaleLe_exit div128_exact (ofBits c1) (ofBits c2) de sgn m 0 (afterK (ofBits c1) (ofBits c2) sgn m 0)
        (by rw [hY]; exact hc20) (by rw [hX, hY]; omega) (by rw [hX]; exact hl1) (by rw [hX, hY]; exact hdvd0)
      rw [hX, hY] at hq
      rw [hk] at hcall
      have hle : c2 ≤ c1 := by omega
      have hq0 : 0 < c1 / c2 := Nat.div_pos hle hc20
      exact get_canon sgn de q m 0 hsg (by rw [bitsOf_eq]; show 0 < q.toNat'; rw [hq]; exact hq0)
        (by rw [bitsOf_eq]; show q.toNat' ≤ _; rw [hq]; exact le_trans (Nat.div_le_self _ _) (le_of_lt hl1)) (by omega) res fl hcall
    · obtain ⟨CQ, CA4, ed2, de', ed, hk, g1, g2, g3, g4, g5, g6, g7, g8⟩ := scaleLe_cont div128_exact (ofBits c1) (ofBits c2) de
        sgn m 0 (afterK (ofBits c1) (ofBits c2) sgn m 0) (by rw [hY]; exact hc20) (by rw [hX, hY]; omega) (by rw [hX]; exact hl1)
        (by rw [hX, hY]; exact hdvd0) (by omega)
      rw [hX, hY] at g4 g5 g6 g7 g8
      rw [hk] at hcall
      exact fin CQ CA4 ed2 de' ed g1 (by omega) g3 g4 g5 g6 g7 g8 hcall
/-! ## 4. `bid128_div` on all inputs -/

/-- NaN operands: `bid128_div` runs the inner routine from a clear status word and ORs what it raised into the caller's -/
theorem div_nan_full (x y : U128) (m : RoundingMode) (f : UInt32)
    (h : ((dOf x).isNaN || (dOf y).isNaN) = true) :
    bid128_div x y m f = .ok (pick2 x y, nanFlags f [dOf x, dOf y]) := by
  rw [Dec.C01GenMul.div_of_clear x y m f (div_nan x y m 0 h)]
  congr 2
  unfold nanFlags
  split
  · show f ||| ((0 : UInt32) ||| 1) = f ||| 1
    rw [UInt32.zero_or]
  · exact UInt32.or_zero

/-- a canonical pattern is the encoding of what it decodes to -/
theorem eq_ofBits_of_canon (res : U128) (d : Datum) (hc : isCanonical (bitsOf res) = true) (hd : decode (bitsOf res) = d) :
    res = ofBits (encode d) := by
  have h := ((isCanonical_iff _).1 hc).2
  unfold canon at h
  rw [hd] at h
  rw [h]
  exact (C06GenFromInt.ofBits_bitsOf res).symm

/-- **`bid128_div` on two non-zero numbers, result word and status word** -/
theorem div_main_word (x y : U128) (m : RoundingMode) (f : UInt32)
    {s1 s2 : Bool} {c1 c2 : Nat} {e1 e2 : Int}
    (hx : dOf x = .fin s1 c1 e1) (hy : dOf y = .fin s2 c2 e2) (hc1 : c1 ≠ 0) (hc2 : c2 ≠ 0)
    (h256 : ∀ (CQ : U128) (A : U256), Call256 c1 c2 CQ A → Div256ExactAt CQ A (ofBits c2)) :
    bid128_div x y m f = .ok (ofBits (encode (divD (md m) (dOf x) (dOf y)).1),
      f ||| UInt32.ofNat (divD (md m) (dOf x) (dOf y)).2) := by
  obtain ⟨res, fl, hc, hdec⟩ := div_main_partial x y m hx hy hc1 hc2 h256
  have hcan := div_main_canon x y m hx hy hc1 hc2 h256 res fl hc
  generalize divD (md m) (dOf x) (dOf y) = out at *
  have h1 : decode (bitsOf res) = out.1 := congrArg Prod.fst hdec
  have h2 : fl.toNat = out.2 := congrArg Prod.snd hdec
  rw [Dec.C01GenMul.div_of_clear x y m f hc, eq_ofBits_of_canon res out.1 hcan h1, ← h2, UInt32.ofNat_toNat]
/-- **`bid128_div` off the main path** (a NaN, an infinity or a zero among the operands): what the specification prescribes,
unconditionally -/
theorem div_spec_front (x y : U128) (m : RoundingMode) (f : UInt32)
    (h : ¬ ((dOf x).isFin = true ∧ (dOf y).isFin = true ∧ (dOf x).isZero = false ∧ (dOf y).isZero = false)) :
    bid128_div x y m f = .ok (binSpec (divD (md m)) x y f) := by
  unfold binSpec
  by_cases hn : ((dOf x).isNaN || (dOf y).isNaN) = true
  · rw [if_pos hn]; exact div_nan_full x y m f hn
  · rw [if_neg hn]
    simp only [Bool.or_eq_true, not_or, Bool.not_eq_true] at hn
    exact Dec.C01GenMul.div_front' x y m f hn.1 hn.2 h

/-- **`bid128_div` on every pair of operands and every status word**, given the corner inequality for the one call of the long
division the operands cause — which is asked for only when both are non-zero numbers with `c2 ≤ c1`, `c2 ∤ c1`: the routine never
panics and returns what the specification prescribes (`binSpec`: the NaN rule, else the canonical pattern of `divD`'s datum with
`divD`'s flags OR-ed into the status word) -/
theorem bid128_div_spec_of (x y : U128) (m : RoundingMode) (f : UInt32)
    (hcorner : ∀ (s1 s2 : Bool) (c1 c2 : Nat) (e1 e2 : Int), dOf x = .fin s1 c1 e1 → dOf y = .fin s2 c2 e2 →
      c2 ≤ c1 → c1 % c2 ≠ 0 → ∀ (CQ : U128) (A : U256), Call256 c1 c2 CQ A → CornerAt A (ofBits c2)) :
    bid128_div x y m f = .ok (binSpec (divD (md m)) x y f) := by
  by_cases hmain : (dOf x).isFin = true ∧ (dOf y).isFin = true ∧ (dOf x).isZero = false ∧ (dOf y).isZero = false
  · obtain ⟨fx, fy, zx, zy⟩ := hmain
    cases hx : dOf x with
    | fin s1 c1 e1 =>
      cases hy : dOf y with
      | fin s2 c2 e2 =>
        rw [hx] at zx; rw [hy] at zy
        have hc1 : c1 ≠ 0 := by intro h0; rw [h0] at zx; exact Bool.noConfusion zx
        have hc2 : c2 ≠ 0 := by intro h0; rw [h0] at zy; exact Bool.noConfusion zy
        have hl2 : c2 < 10 ^ 34 := by
          have := (Dec.C01GenMul.fin_WF y hy).1
          have hP : P34 = 10 ^ 34 := by decide
          omega
        have nx : (dOf x).isNaN = false := by rw [hx]; rfl
        have ny : (dOf y).isNaN = false := by rw [hy]; rfl
        rw [binSpec_nonnan _ x y f nx ny]
        exact div_main_word x y m f hx hy hc1 hc2 (fun CQ A hc =>
          call256_at_of c1 c2 (Nat.pos_of_ne_zero hc2) hl2 CQ A hc (fun h1 h2 => hcorner s1 s2 c1 c2 e1 e2 hx hy h1 h2 CQ A hc))
      | inf s2 => rw [hy] at fy; exact Bool.noConfusion fy
      | nan s2 g2 p2 => rw [hy] at fy; exact Bool.noConfusion fy
    | inf s1 => rw [hx] at fx; exact Bool.noConfusion fx
    | nan s1 g1 p1 => rw [hx] at fx; exact Bool.noConfusion fx
  · exact div_spec_front x y m f hmain

/-- **`bid128_div` = the specification on ALL operands** (every pair of 128-bit patterns — NaNs, infinities, zeros, non-canonical
encodings —, every rounding mode, every status word), given `CornerMargin` -/
theorem bid128_div_spec (h : CornerMargin) (x y : U128) (m : RoundingMode) (f : UInt32) :
    bid128_div x y m f = .ok (binSpec (divD (md m)) x y f) := by
  apply bid128_div_spec_of
  intro s1 s2 c1 c2 e1 e2 _ hy _ _ CQ A hc
  have hl2 : c2 < 10 ^ 34 := by
    have := (Dec.C01GenMul.fin_WF y hy).1
    have hP : P34 = 10 ^ 34 := by decide
    omega
  have hY : (ofBits c2).toNat' = c2 := ofBits_toNat' (lt_trans hl2 (by norm_num))
  obtain ⟨ed, -, g2, -, -⟩ := hc
  have hc2 : 0 < c2 := by
    rcases Nat.eq_zero_or_pos c2 with h0 | h0
    · rw [h0] at g2; omega
    · exact h0
  have h113 : (10 : Nat) ^ 34 < 2 ^ 113 := by norm_num
  exact h A (ofBits c2) (by rw [hY]; exact hc2) (by rw [hY]; omega)

/-! ## 5. The property C01 about the public method `division` (`Dec.Gen.Api.run`) -/

open Dec.Gen.Api

theorem run_division (m : RoundingMode) (f : UInt32) (a0 a1 : U128) :
    run "division" m f [.d a0, .d a1] = some ((bid128_div a0 a1 m f).map fun (r, g) => ([.d r], g)) := rfl

theorem binSpec_nn (D : Datum → Datum → Datum × Flags) (x y : U128) (f : UInt32) (hx : (dOf x).isNaN = false)
    (hy : (dOf y).isNaN = false) :
    binSpec D x y f = (ofBits (encode (D (dOf x) (dOf y)).1), f ||| UInt32.ofNat (D (dOf x) (dOf y)).2) :=
  binSpec_nonnan D x y f hx hy

theorem result_datum' {d : Datum} (w : d.WF) : dOf (ofBits (encode d)) = d ∧ isCanonical (bitsOf (ofBits (encode d))) = true :=
  result_datum w

/-- the method on operands for which the corner inequality of their one long-division call is supplied -/
theorem api_division_of (m : RoundingMode) (f : UInt32) (x y : U128)
    (hcorner : ∀ (s1 s2 : Bool) (c1 c2 : Nat) (e1 e2 : Int), dOf x = .fin s1 c1 e1 → dOf y = .fin s2 c2 e2 →
      c2 ≤ c1 → c1 % c2 ≠ 0 → ∀ (CQ : U128) (A : U256), Call256 c1 c2 CQ A → CornerAt A (ofBits c2)) :
    run "division" m f [.d x, .d y]
      = some (.ok ([.d (binSpec (divD (md m)) x y f).1], (binSpec (divD (md m)) x y f).2)) := by
  rw [run_division, bid128_div_spec_of x y m f hcorner]
  generalize binSpec (divD (md m)) x y f = p
  cases p; rfl

/-- `d128` division on every pair of values, every rounding mode, every status word: returns normally with what the
specification prescribes -/
theorem api_division (h : CornerMargin) (m : RoundingMode) (f : UInt32) (x y : U128) :
    run "division" m f [.d x, .d y]
      = some (.ok ([.d (binSpec (divD (md m)) x y f).1], (binSpec (divD (md m)) x y f).2)) := by
  rw [run_division, bid128_div_spec h]
  generalize binSpec (divD (md m)) x y f = p
  cases p; rfl

/-- C01, the quotient of two non-zero numbers: "division returns the exact quotient correctly rounded to 34 digits in the
rounding mode; inexact is raised iff the quotient is not exactly representable; an exact quotient gets the exponent closest to
`e1 − e2`; underflow / overflow as for every rounded result".  With `V = x / y` as a rational: the method returns the canonical
pattern of a datum `d` and ORs flags `F` into the status word, where `(d, F)` is THE correctly rounded delivery of `|V|` with sign
`s1 xor s2` and preferred exponent `e1 − e2` (`FinishSpecStrict`, which has exactly one solution: `C01Strict.div_eq_iff`); `F` is 0
iff `|V|` is a member of the format, else inexact, inexact + underflow or inexact + overflow.  Hypothesis: the corner inequality
for the one call of the long division, asked for only if `c2 ≤ c1` and `c2 ∤ c1`. -/
theorem quotient_property_of (m : RoundingMode) (f : UInt32) (x y : U128) (s1 s2 : Bool) (c1 c2 : Nat)
    (e1 e2 : Int) (hx : dOf x = .fin s1 c1 e1) (hy : dOf y = .fin s2 c2 e2) (hc1 : c1 ≠ 0) (hc2 : c2 ≠ 0)
    (hcorner : c2 ≤ c1 → c1 % c2 ≠ 0 → ∀ (CQ : U128) (A : U256), Call256 c1 c2 CQ A → CornerAt A (ofBits c2)) :
    ∃ (r : U128) (F : Flags), run "division" m f [.d x, .d y] = some (.ok ([.d r], f ||| UInt32.ofNat F)) ∧
      isCanonical (bitsOf r) = true ∧
      decide (fval s1 c1 e1 / fval s2 c2 e2 < 0) = (s1 != s2) ∧
      FinishSpecStrict (md m) (s1 != s2) |fval s1 c1 e1 / fval s2 c2 e2| (e1 - e2) (dOf r, F) ∧
      ((F = 0 ∧ IsMember |fval s1 c1 e1 / fval s2 c2 e2|) ∨
        (¬ IsMember |fval s1 c1 e1 / fval s2 c2 e2| ∧
          (F = fInexact ∨ F = fUnderflow ||| fInexact ∨ F = fOverflow ||| fInexact))) := by
  have nx : (dOf x).isNaN = false := by rw [hx]; rfl
  have ny : (dOf y).isNaN = false := by rw [hy]; rfl
  have hV : fval s1 c1 e1 / fval s2 c2 e2 ≠ 0 := by
    rw [ne_eq, div_eq_zero_iff, Dec.C01Q.fval_eq_zero_iff, Dec.C01Q.fval_eq_zero_iff]
    exact fun h => h.elim hc1 hc2
  obtain ⟨hsign, hspec⟩ := Dec.C01Strict.div_correct_strict (md m) s1 c1 e1 s2 c2 e2 hc2 hV
  rw [hsign] at hspec
  have hwf : (divD (md m) (.fin s1 c1 e1) (.fin s2 c2 e2)).1.WF :=
    (hspec.toFinishSpec (abs_pos.mpr hV)).wf
  obtain ⟨k1, k2⟩ := result_datum' hwf
  refine ⟨ofBits (encode (divD (md m) (.fin s1 c1 e1) (.fin s2 c2 e2)).1), (divD (md m) (.fin s1 c1 e1) (.fin s2 c2 e2)).2,
    ?_, k2, hsign, ?_, (hspec.toFinishSpec (abs_pos.mpr hV)).flags⟩
  · rw [api_division_of m f x y (by
        intro t1 t2 d1 d2 g1 g2 h1 h2 hle hnd
        rw [hx] at h1; rw [hy] at h2
        injection h1 with _ a1 _; injection h2 with _ a2 _
        subst a1 a2
        exact hcorner hle hnd), binSpec_nn _ x y f nx ny, hx, hy]
  · rw [k1]
    exact hspec

/-- … for all non-zero pairs, given `CornerMargin` -/
theorem quotient_property (h : CornerMargin) (m : RoundingMode) (f : UInt32) (x y : U128) (s1 s2 : Bool) (c1 c2 : Nat)
    (e1 e2 : Int) (hx : dOf x = .fin s1 c1 e1) (hy : dOf y = .fin s2 c2 e2) (hc1 : c1 ≠ 0) (hc2 : c2 ≠ 0) :
    ∃ (r : U128) (F : Flags), run "division" m f [.d x, .d y] = some (.ok ([.d r], f ||| UInt32.ofNat F)) ∧
      isCanonical (bitsOf r) = true ∧
      decide (fval s1 c1 e1 / fval s2 c2 e2 < 0) = (s1 != s2) ∧
      FinishSpecStrict (md m) (s1 != s2) |fval s1 c1 e1 / fval s2 c2 e2| (e1 - e2) (dOf r, F) ∧
      ((F = 0 ∧ IsMember |fval s1 c1 e1 / fval s2 c2 e2|) ∨
        (¬ IsMember |fval s1 c1 e1 / fval s2 c2 e2| ∧
          (F = fInexact ∨ F = fUnderflow ||| fInexact ∨ F = fOverflow ||| fInexact))) := by
  apply quotient_property_of m f x y s1 s2 c1 c2 e1 e2 hx hy hc1 hc2
  intro _ _ CQ A hc
  have hl2 : c2 < 10 ^ 34 := by
    have := (Dec.C01GenMul.fin_WF y hy).1
    have hP : P34 = 10 ^ 34 := by decide
    omega
  have hY : (ofBits c2).toNat' = c2 := ofBits_toNat' (lt_trans hl2 (by norm_num))
  have h113 : (10 : Nat) ^ 34 < 2 ^ 113 := by norm_num
  exact h A (ofBits c2) (by rw [hY]; exact Nat.pos_of_ne_zero hc2) (by rw [hY]; omega)

/-- … and with NO hypothesis when the dividend's coefficient is the smaller one (`c1 < c2`: the long division then runs to a
quotient `≥ 10^33 > 2^100`, off the corner) or a multiple of the divisor's -/
theorem quotient_property_free (m : RoundingMode) (f : UInt32) (x y : U128) (s1 s2 : Bool) (c1 c2 : Nat)
    (e1 e2 : Int) (hx : dOf x = .fin s1 c1 e1) (hy : dOf y = .fin s2 c2 e2) (hc1 : c1 ≠ 0) (hc2 : c2 ≠ 0)
    (hfree : c1 < c2 ∨ c1 % c2 = 0) :
    ∃ (r : U128) (F : Flags), run "division" m f [.d x, .d y] = some (.ok ([.d r], f ||| UInt32.ofNat F)) ∧
      isCanonical (bitsOf r) = true ∧
      decide (fval s1 c1 e1 / fval s2 c2 e2 < 0) = (s1 != s2) ∧
      FinishSpecStrict (md m) (s1 != s2) |fval s1 c1 e1 / fval s2 c2 e2| (e1 - e2) (dOf r, F) ∧
      ((F = 0 ∧ IsMember |fval s1 c1 e1 / fval s2 c2 e2|) ∨
        (¬ IsMember |fval s1 c1 e1 / fval s2 c2 e2| ∧
          (F = fInexact ∨ F = fUnderflow ||| fInexact ∨ F = fOverflow ||| fInexact))) := by
  apply quotient_property_of m f x y s1 s2 c1 c2 e1 e2 hx hy hc1 hc2
  intro hle hnd
  rcases hfree with h | h
  · omega
  · exact absurd h hnd

example (h : CornerMargin) := quotient_property h .NearestEven 0 ⟨0x1, 0x3040000000000000⟩ ⟨0x3, 0x3040000000000000⟩
  false false 1 3 0 0 (by decide +kernel) (by decide +kernel) (by decide) (by decide)
example := quotient_property_free .Upward 0 ⟨0x1, 0x3040000000000000⟩ ⟨0x3, 0x3040000000000000⟩
  false false 1 3 0 0 (by decide +kernel) (by decide +kernel) (by decide) (by decide) (Or.inl (by decide))
-- 1 / 3 = 0.3333333333333333333333333333333333, inexact (0x20)
example : run "division" .NearestEven 0 [.d ⟨0x1, 0x3040000000000000⟩, .d ⟨0x3, 0x3040000000000000⟩]
    = some (.ok ([.d ⟨0x67d9da2155555555, 0x2ffca45894e48295⟩], 0x20)) := by decide +kernel
-- 1 / 8 = 0.125: exact, all trailing zeros removed (exponent −3, the closest to the preferred 0), no flag
example : run "division" .NearestEven 0 [.d ⟨0x1, 0x3040000000000000⟩, .d ⟨0x8, 0x3040000000000000⟩]
    = some (.ok ([.d ⟨0x7d, 0x303a000000000000⟩], 0)) := by decide +kernel
-- 1E-6176 / 3: underflow (0x10) and inexact, result +0E-6176
example : run "division" .NearestEven 0 [.d ⟨0x1, 0x0⟩, .d ⟨0x3, 0x3040000000000000⟩]
    = some (.ok ([.d ⟨0x0, 0x0⟩], 0x30)) := by decide +kernel
-- 9E+6111 / 3E-6176: overflow (0x08) and inexact; toward zero the largest finite number, to nearest infinity
example : run "division" .TowardZero 0 [.d ⟨0x9, 0x5ffe000000000000⟩, .d ⟨0x3, 0x0⟩]
    = some (.ok ([.d ⟨0x378d8e63ffffffff, 0x5fffed09bead87c0⟩], 0x28)) := by decide +kernel
example : run "division" .NearestEven 0 [.d ⟨0x9, 0x5ffe000000000000⟩, .d ⟨0x1, 0x0⟩]
    = some (.ok ([.d ⟨0x0, 0x7800000000000000⟩], 0x28)) := by decide +kernel

/-- C01, exact quotients keep the preferred exponent: "if the quotient is exactly representable the result has the exponent
closest to `e1 − e2`" — in particular when the divisor's coefficient divides the dividend's (`c1 = q·c2`) and `e1 − e2` is in range
the result is exactly `(s1 xor s2) q·10^(e1−e2)`, no flag; no hypothesis needed (the long division is not called) -/
theorem exact_property (m : RoundingMode) (f : UInt32) (x y : U128) (s1 s2 : Bool) (c1 c2 q : Nat) (e1 e2 : Int)
    (hx : dOf x = .fin s1 c1 e1) (hy : dOf y = .fin s2 c2 e2) (hq : c1 = q * c2) (hc1 : c1 ≠ 0)
    (he1 : eMin ≤ e1 - e2) (he2 : e1 - e2 ≤ eMax) :
    ∃ r : U128, run "division" m f [.d x, .d y] = some (.ok ([.d r], f)) ∧
      dOf r = .fin (s1 != s2) q (e1 - e2) ∧ isCanonical (bitsOf r) = true := by
  have nx : (dOf x).isNaN = false := by rw [hx]; rfl
  have ny : (dOf y).isNaN = false := by rw [hy]; rfl
  have hc2 : c2 ≠ 0 := by intro h; rw [h, Nat.mul_zero] at hq; exact hc1 hq
  have hq0 : q ≠ 0 := by intro h; rw [h, Nat.zero_mul] at hq; exact hc1 hq
  have hqlt : q < P34 := by
    have h1 := (Dec.C01GenMul.fin_WF x hx).1
    have : q ≤ c1 := by rw [hq]; exact Nat.le_mul_of_pos_right _ (Nat.pos_of_ne_zero hc2)
    omega
  have hval : divD (md m) (.fin s1 c1 e1) (.fin s2 c2 e2) = (.fin (s1 != s2) q (e1 - e2), 0) := by
    rw [divD_fin _ _ _ _ _ _ _ hc1 hc2,
      finish_congr (md m) (s1 != s2) c1 c2 q 1 (e1 - e2) (e1 - e2) (e1 - e2) (Nat.pos_of_ne_zero hc1) (Nat.pos_of_ne_zero hc2)
        (Nat.pos_of_ne_zero hq0) (by norm_num) (by
          have h2 : (c2 : ℚ) ≠ 0 := by exact_mod_cast hc2
          rw [hq]; push_cast; field_simp),
      finish_representable (md m) _ q (e1 - e2) hq0 hqlt he1 he2]
  have hwf : (Datum.fin (s1 != s2) q (e1 - e2)).WF := ⟨hqlt, he1, he2⟩
  obtain ⟨k1, k2⟩ := result_datum' hwf
  refine ⟨_, ?_, k1, k2⟩
  rw [api_division_of m f x y (by
      intro t1 t2 d1 d2 g1 g2 h1 h2 _ hnd
      rw [hx] at h1; rw [hy] at h2
      injection h1 with _ a1 _; injection h2 with _ a2 _
      subst a1 a2
      exact absurd (by rw [hq, Nat.mul_mod_left]) hnd),
    binSpec_nn _ x y f nx ny, hx, hy, hval]
  exact congrArg (fun g => some (Except.ok ([AVal.d _], g))) (no_flag f)

-- 100 / 4 = 25 at the preferred exponent 0
example := exact_property .NearestEven 0 ⟨100, 0x3040000000000000⟩ ⟨4, 0x3040000000000000⟩ false false 100 4 25 0 0
  (by decide +kernel) (by decide +kernel) (by decide) (by decide) (by decide) (by decide)
example : run "division" .NearestEven 0 [.d ⟨100, 0x3040000000000000⟩, .d ⟨4, 0x3040000000000000⟩]
    = some (.ok ([.d ⟨25, 0x3040000000000000⟩], 0)) := by decide +kernel

/-- C01, division by zero: "a non-zero finite number divided by a zero gives the infinity whose sign is the exclusive-or of the
operands' signs and raises the division-by-zero flag" (0x04) -/
theorem div_by_zero_property (m : RoundingMode) (f : UInt32) (x y : U128) (s1 s2 : Bool) (c1 : Nat) (e1 e2 : Int)
    (hx : dOf x = .fin s1 c1 e1) (hy : dOf y = .fin s2 0 e2) (hc1 : c1 ≠ 0) :
    ∃ r : U128, run "division" m f [.d x, .d y] = some (.ok ([.d r], f ||| 4)) ∧
      dOf r = .inf (s1 != s2) ∧ isCanonical (bitsOf r) = true := by
  have nx : (dOf x).isNaN = false := by rw [hx]; rfl
  have ny : (dOf y).isNaN = false := by rw [hy]; rfl
  have hval : divD (md m) (.fin s1 c1 e1) (.fin s2 0 e2) = (.inf (s1 != s2), fDivZero) := by
    simp only [divD, if_true, hc1, if_false]
  obtain ⟨k1, k2⟩ := result_datum' (d := .inf (s1 != s2)) trivial
  refine ⟨_, ?_, k1, k2⟩
  rw [run_division, div_spec_front x y m f (by rw [hy]; intro h; exact Bool.noConfusion h.2.2.2),
    binSpec_nn _ x y f nx ny, hx, hy, hval]
  rfl

-- −6 / +0 = −∞, zero-divide (0x04) OR-ed into a status word that already holds inexact
example : run "division" .NearestEven 0x20 [.d ⟨0x6, 0xb040000000000000⟩, .d ⟨0x0, 0x3040000000000000⟩]
    = some (.ok ([.d ⟨0x0, 0xf800000000000000⟩], 0x24)) := by decide +kernel
example := div_by_zero_property .NearestEven 0x20 ⟨0x6, 0xb040000000000000⟩ ⟨0x0, 0x3040000000000000⟩ true false 6 0 0
  (by decide +kernel) (by decide +kernel) (by decide)

/-- C01, invalid operations: "0/0 and ∞/∞ give the default quiet NaN and raise invalid" (0x01) -/
theorem invalid_property (m : RoundingMode) (f : UInt32) (x y : U128)
    (h : (∃ s1 s2 e1 e2, dOf x = .fin s1 0 e1 ∧ dOf y = .fin s2 0 e2) ∨ (∃ s1 s2, dOf x = .inf s1 ∧ dOf y = .inf s2)) :
    run "division" m f [.d x, .d y] = some (.ok ([.d ⟨0, 0x7c00000000000000⟩], f ||| 1)) ∧
      dOf ⟨0, 0x7c00000000000000⟩ = .nan false false 0 := by
  refine ⟨?_, by decide +kernel⟩
  have key : (dOf x).isNaN = false ∧ (dOf y).isNaN = false ∧ divD (md m) (dOf x) (dOf y) = invalidResult ∧
      ¬ ((dOf x).isFin = true ∧ (dOf y).isFin = true ∧ (dOf x).isZero = false ∧ (dOf y).isZero = false) := by
    rcases h with ⟨s1, s2, e1, e2, hx, hy⟩ | ⟨s1, s2, hx, hy⟩
    · rw [hx, hy]; exact ⟨rfl, rfl, by simp only [divD, if_true], fun h => Bool.noConfusion h.2.2.1⟩
    · rw [hx, hy]; exact ⟨rfl, rfl, rfl, fun h => Bool.noConfusion h.1⟩
  obtain ⟨nx, ny, hval, hf⟩ := key
  rw [run_division, div_spec_front x y m f hf, binSpec_nn _ x y f nx ny, hval,
    show invalidResult = (defaultNaN, fInvalid) from rfl, dnan_word, inv_flag]
  rfl

-- 0 / 0 and ∞ / −∞
example : run "division" .NearestEven 0 [.d ⟨0x0, 0x3040000000000000⟩, .d ⟨0x0, 0x304a000000000000⟩]
    = some (.ok ([.d ⟨0, 0x7c00000000000000⟩], 1)) := by decide +kernel
example : run "division" .NearestEven 0 [.d ⟨0x0, 0x7800000000000000⟩, .d ⟨0x0, 0xf800000000000000⟩]
    = some (.ok ([.d ⟨0, 0x7c00000000000000⟩], 1)) := by decide +kernel

/-- C01, infinite operands: "∞ / finite = ∞ and finite / ∞ = 0 (at the least exponent), each with the exclusive-or of the signs,
no flag" -/
theorem inf_property (m : RoundingMode) (f : UInt32) (x y : U128) :
    (∀ s1 s2 c2 e2, dOf x = .inf s1 → dOf y = .fin s2 c2 e2 →
      ∃ r : U128, run "division" m f [.d x, .d y] = some (.ok ([.d r], f)) ∧ dOf r = .inf (s1 != s2) ∧
        isCanonical (bitsOf r) = true) ∧
    (∀ s1 s2 c1 e1, dOf x = .fin s1 c1 e1 → dOf y = .inf s2 →
      ∃ r : U128, run "division" m f [.d x, .d y] = some (.ok ([.d r], f)) ∧ dOf r = .fin (s1 != s2) 0 eMin ∧
        isCanonical (bitsOf r) = true) := by
  constructor
  · intro s1 s2 c2 e2 hx hy
    have nx : (dOf x).isNaN = false := by rw [hx]; rfl
    have ny : (dOf y).isNaN = false := by rw [hy]; rfl
    obtain ⟨k1, k2⟩ := result_datum' (d := .inf (s1 != s2)) trivial
    refine ⟨_, ?_, k1, k2⟩
    rw [run_division, div_spec_front x y m f (by rw [hx]; intro h; exact Bool.noConfusion h.1),
      binSpec_nn _ x y f nx ny, hx, hy]
    exact congrArg (fun g => some (Except.ok ([AVal.d _], g))) (no_flag f)
  · intro s1 s2 c1 e1 hx hy
    have nx : (dOf x).isNaN = false := by rw [hx]; rfl
    have ny : (dOf y).isNaN = false := by rw [hy]; rfl
    obtain ⟨k1, k2⟩ := result_datum' (d := .fin (s1 != s2) 0 eMin) ⟨by decide, by decide, by decide⟩
    refine ⟨_, ?_, k1, k2⟩
    rw [run_division, div_spec_front x y m f (by rw [hy]; intro h; exact Bool.noConfusion h.2.1),
      binSpec_nn _ x y f nx ny, hx, hy]
    exact congrArg (fun g => some (Except.ok ([AVal.d _], g))) (no_flag f)

-- ∞ / −2 = −∞;  7E−2 / −∞ = −0E−6176
example : run "division" .NearestEven 0 [.d ⟨0x0, 0x7800000000000000⟩, .d ⟨0x2, 0xb040000000000000⟩]
    = some (.ok ([.d ⟨0x0, 0xf800000000000000⟩], 0)) := by decide +kernel
example : run "division" .NearestEven 0 [.d ⟨0x7, 0x303c000000000000⟩, .d ⟨0x0, 0xf800000000000000⟩]
    = some (.ok ([.d ⟨0x0, 0x8000000000000000⟩], 0)) := by decide +kernel

/-- C01, a zero dividend: "0 / non-zero finite = 0 with the exclusive-or of the signs and the exponent `e1 − e2` clamped into the
format's range, no flag" -/
theorem zero_property (m : RoundingMode) (f : UInt32) (x y : U128) (s1 s2 : Bool) (c2 : Nat) (e1 e2 : Int)
    (hx : dOf x = .fin s1 0 e1) (hy : dOf y = .fin s2 c2 e2) (hc2 : c2 ≠ 0) :
    ∃ r : U128, run "division" m f [.d x, .d y] = some (.ok ([.d r], f)) ∧
      dOf r = .fin (s1 != s2) 0 (clampInt eMin eMax (e1 - e2)) ∧ isCanonical (bitsOf r) = true := by
  have nx : (dOf x).isNaN = false := by rw [hx]; rfl
  have ny : (dOf y).isNaN = false := by rw [hy]; rfl
  have hval : divD (md m) (.fin s1 0 e1) (.fin s2 c2 e2) = (.fin (s1 != s2) 0 (clampInt eMin eMax (e1 - e2)), 0) := by
    simp only [divD, hc2, if_false, if_true]; rfl
  obtain ⟨k1, k2⟩ := result_datum' (d := .fin (s1 != s2) 0 (clampInt eMin eMax (e1 - e2))) ⟨by decide, clamp_range _⟩
  refine ⟨_, ?_, k1, k2⟩
  rw [run_division, div_spec_front x y m f (by rw [hx]; intro h; exact Bool.noConfusion h.2.2.1),
    binSpec_nn _ x y f nx ny, hx, hy, hval]
  exact congrArg (fun g => some (Except.ok ([AVal.d _], g))) (no_flag f)

-- 0E+5 / 7E−2 = 0E+7
example : run "division" .NearestEven 0 [.d ⟨0x0, 0x304a000000000000⟩, .d ⟨0x7, 0x303c000000000000⟩]
    = some (.ok ([.d ⟨0x0, 0x304e000000000000⟩], 0)) := by decide +kernel


/-- C12 for division, restated at this level: a NaN operand gives the quieted NaN of the first NaN operand, invalid iff one is
signaling (`C12GenNaN.div_nan`) -/
theorem nan_property (m : RoundingMode) (f : UInt32) (x y : U128) (h : ((dOf x).isNaN || (dOf y).isNaN) = true) :
    run "division" m f [.d x, .d y] = some (.ok ([.d (pick2 x y)], nanFlags f [dOf x, dOf y])) := by
  rw [run_division, div_nan_full x y m f h]; rfl

-- sNaN / 1: the quiet NaN, invalid
example : run "division" .NearestEven 0 [.d ⟨0x0, 0x7e00000000000000⟩, .d ⟨0x1, 0x3040000000000000⟩]
    = some (.ok ([.d ⟨0, 0x7c00000000000000⟩], 1)) := by decide +kernel

end Dec.C01GenDivFinal
