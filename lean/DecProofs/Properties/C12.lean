/-
  C12 — NaNs propagate quietly with their payload; invalid only when required.
-/
import DecModel.Ops

namespace Dec.C12

/-- `decode` never produces a NaN payload of 10^33 or more: larger payloads read as zero. -/
theorem decode_payload_canonical (b : Nat) (s g : Bool) (p : Nat) (h : decode b = .nan s g p) : p < P33 := by
  unfold decode at h
  simp only at h
  split at h
  · split at h
    · cases h
    · injection h with _ _ hp
      subst hp
      split
      · assumption
      · decide
  · split at h <;> cases h

/-- The generic rule used for every computational operation: with at least one NaN operand the
acceptable results are exactly the quieted canonical copies of the NaN operands, and the raised set is
`invalid` iff some operand is signalling, nothing else. -/
theorem nanRule_nan (ds : List Datum) (k : Unit → Expect) (h : ds.any Datum.isNaN = true) :
    nanRule ds k =
      .oneOf ((ds.filter Datum.isNaN).map fun n => [Val.d (encode (quietNaN n))])
             (if ds.any Datum.isSNaN then fInvalid else 0) := by
  unfold nanRule
  have : (ds.filter Datum.isNaN).isEmpty = false := by
    rw [List.any_eq_true] at h
    obtain ⟨x, hx, hn⟩ := h
    cases hf : ds.filter Datum.isNaN with
    | nil =>
      have : x ∈ ds.filter Datum.isNaN := List.mem_filter.2 ⟨hx, hn⟩
      rw [hf] at this; cases this
    | cons _ _ => rfl
  simp [this]

/-- without NaN operands the rule defers to the operation -/
theorem nanRule_no_nan (ds : List Datum) (k : Unit → Expect) (h : ds.any Datum.isNaN = false) :
    nanRule ds k = k () := by
  unfold nanRule
  have : ds.filter Datum.isNaN = [] := by
    rw [List.filter_eq_nil_iff]
    intro a ha hn
    have := List.any_eq_false.1 h a ha
    simp [hn] at this
  simp [this]

/-- a quieted NaN is quiet and keeps sign and payload -/
theorem quietNaN_spec (s g : Bool) (p : Nat) : quietNaN (.nan s g p) = .nan s false p := rfl

/-- invalid operations create the default quiet NaN `0x7c00…0` and raise exactly invalid -/
theorem created_nan :
    encode defaultNaN = 0x7c000000000000000000000000000000 ∧ invalidResult = (defaultNaN, fInvalid) := by
  constructor <;> decide

theorem invalid_cases (mode : Mode) (s1 s2 : Bool) (c : Nat) (e e2 : Int) (hc : c ≠ 0) :
    divD mode (.fin s1 0 e) (.fin s2 0 e2) = invalidResult ∧
    divD mode (.inf s1) (.inf s2) = invalidResult ∧
    addD mode (.inf s1) (.inf (!s1)) = invalidResult ∧
    mulD mode (.fin s1 0 e) (.inf s2) = invalidResult ∧
    mulD mode (.inf s1) (.fin s2 0 e) = invalidResult ∧
    sqrtD mode (.fin true c e) = invalidResult ∧
    sqrtD mode (.inf true) = invalidResult ∧
    remD (.fin s1 c e) (.fin s2 0 e2) = invalidResult ∧
    fmodD (.fin s1 c e) (.fin s2 0 e2) = invalidResult ∧
    remD (.inf s1) (.fin s2 c e2) = invalidResult ∧
    fmaD mode false (.fin s1 0 e) (.inf s2) (.fin s1 c e) = invalidResult := by
  cases s1 <;> simp [divD, addD, mulD, sqrtD, remD, fmodD, fmaD, hc, invalidResult, defaultNaN]

/-- the quiet sign operations touch only bit 127 and raise nothing, for every 128-bit pattern -/
theorem quiet_ops (x y : Nat) (mode : Mode) :
    expect "copy" mode [.d x] = exactly [.d x] 0 ∧
    expect "negate" mode [.d x] = exactly [.d ((x + 2^127) % 2^128)] 0 ∧
    expect "abs" mode [.d x] = exactly [.d (x % 2^127)] 0 ∧
    expect "copy_sign" mode [.d x, .d y] = exactly [.d (x % 2^127 + (y / 2^127) % 2 * 2^127)] 0 := by
  refine ⟨rfl, rfl, rfl, rfl⟩

/-- those bit expressions leave the low 127 bits alone -/
theorem sign_ops_low_bits (x y : Nat) (_hx : x < 2^128) :
    ((x + 2^127) % 2^128) % 2^127 = x % 2^127 ∧ (x % 2^127) % 2^127 = x % 2^127 ∧
    (x % 2^127 + (y / 2^127) % 2 * 2^127) % 2^127 = x % 2^127 := by
  refine ⟨by omega, by omega, by omega⟩

example : nanRule [.fin false 1 0, .nan true true 7] (fun _ => .unknown) =
    .oneOf [[.d (encode (.nan true false 7))]] fInvalid := by rfl

end Dec.C12
