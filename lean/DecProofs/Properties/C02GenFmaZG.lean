/-
  C02GenFmaZ (part G: Cases (1')/(1''A) complete) — see C02GenFmaZ.lean
-/
import DecProofs.Properties.C02GenFmaZF
set_option linter.unusedSimpArgs false
set_option linter.unusedVariables false
namespace Dec.C02GenFmaZ
open Dec Dec.Rs Dec.Gen.Code Dec.C03GenCompare Dec.C02GenCorrection
open Dec.C08GenRoundIntegral (i32_add i32_sub)

/-! ## 11. Cases (1') and (1''A) assembled -/

/-- **Cases (1') and (1''A) of `bid128_ext_fma`, complete**: under the entry invariant and the case condition as the code
tests it, the block returns the encoding of the correctly rounded exact sum and ORs its flags into the status word. -/
theorem caseZ1_spec (C3 : U128) (C4 : U256) (q3 q4 e3 delta p34 : Int32) (z_sign p_sign z_exp : UInt64)
    (sz sp : Bool) (c3 c4 : Nat) (E3 E4 : Int)
    (inv : ZInv C3 C4 q3 q4 e3 delta p34 z_sign p_sign z_exp sz sp c3 c4 E3 E4)
    (hcase : ((decide (p34 ≤ (delta - (1 : Int32)))) ||
      ((p34 == delta) && (decide ((e3 + (0x1820 : Int32)) < (p34 - q3))))) = true)
    (pml pmg pil pig : Bool) (m : RoundingMode) (pfpsf : UInt32) (res : U128) (scale ind : Int32) (R64 : UInt64)
    (P128 R128 : U128) (P192 R192 : U192) (R256 : U256) (pref : Int) :
    ∃ ml mg il ig : Bool,
      caseZ1 pml pmg pil pig m pfpsf res z_sign p_sign z_exp C3 C4 q3 q4 e3 scale ind delta p34 false false false false false
          R64 P128 R128 P192 R192 R256 =
        .ok (ofBits (encode (addFin (modeOf m) sp c4 E4 sz c3 E3 pref).1), ml, mg, il, ig,
          pfpsf ||| UInt32.ofNat (addFin (modeOf m) sp c4 E4 sz c3 E3 pref).2) := by
  by_cases hov : ((decide ((q3 + e3) > (p34 + c_EXP_MAX_UNBIASED))) && (decide (p34 ≤ (delta - (1 : Int32))))) = true
  · exact ⟨_, _, _, _, caseZ1_ovf C3 C4 q3 q4 e3 delta p34 z_sign p_sign z_exp sz sp c3 c4 E3 E4 inv hov pml pmg pil pig m pfpsf
      res scale ind false R64 P128 R128 P192 R192 R256 pref⟩
  have inv' := inv
  obtain ⟨hC3, hc0, hc34, hq3, he3, hE1, hE2, hze, hzs, hps, hC4, h40, hq4, hq468, hE4a, hE4b, hdelta, hp⟩ := inv'
  have hQ34 : ndigits c3 ≤ 34 := Dec.C08GenRoundIntegral.ndigits_le_34 c3 (by rw [Dec.C13PackHelpers.P34_eq']; exact hc34)
  have hQ1 := ndigits_pos hc0
  have hq4p := ndigits_pos h40
  obtain ⟨hs1, hs2, hs3⟩ := scaleOf_le (ndigits c3) E3 hQ34 hE1
  have hA1 : (q3 + e3).toInt = (ndigits c3 : Int) + E3 := by rw [i32_add q3 e3 (by omega) (by omega), hq3, he3]
  have hA2 : (delta - 1).toInt = (ndigits c3 : Int) + E3 - ndigits c4 - E4 - 1 := by
    rw [i32_sub delta 1 (by omega) (by decide), hdelta]; rfl
  have hA3 : (e3 + 0x1820).toInt = E3 + 6176 := by rw [i32_add _ _ (by omega) (by decide), he3]; rfl
  have hA4 : (p34 - q3).toInt = 34 - (ndigits c3 : Int) := by rw [hp, i32_sub _ _ (by decide) (by omega), hq3]; rfl
  have e1 : (34 : Int32).toInt = 34 := rfl
  have e2 : ((34 : Int32) + c_EXP_MAX_UNBIASED).toInt = 6145 := rfl
  have hc : 35 ≤ (ndigits c3 : Int) + E3 - ndigits c4 - E4 ∨
      ((ndigits c3 : Int) + E3 - ndigits c4 - E4 = 34 ∧ E3 + 6176 < 34 - (ndigits c3 : Int)) := by
    rw [Bool.or_eq_true, Bool.and_eq_true, decide_eq_true_eq, decide_eq_true_eq, beq_iff_eq, Int32.le_iff_toInt_le,
      Int32.lt_iff_toInt_lt, ← Int32.toInt_inj, hA2, hA3, hA4, hp, hdelta, e1] at hcase
    rcases hcase with h | ⟨h1, h2⟩
    · left; omega
    · right; exact ⟨by omega, h2⟩
  have hfit : (ndigits c3 : Int) + E3 ≤ 6145 := by
    rw [Bool.and_eq_true, decide_eq_true_eq, decide_eq_true_eq, gt_iff_lt, Int32.lt_iff_toInt_lt, Int32.le_iff_toInt_le, hp,
      hA1, hA2, e1, e2] at hov
    rcases hc with h | ⟨h1, h2⟩
    · by_contra hcon; exact hov ⟨by omega, by omega⟩
    · omega
  obtain ⟨g, hg⟩ : ∃ g : Nat, (g : Int) = (ndigits c3 : Int) + E3 - ndigits c4 - E4 - ndigits c3 - scaleOf (ndigits c3) E3 := by
    refine ⟨((ndigits c3 : Int) + E3 - ndigits c4 - E4 - ndigits c3 - scaleOf (ndigits c3) E3).toNat, ?_⟩
    rcases hc with h | ⟨h1, h2⟩
    · omega
    · have : scaleOf (ndigits c3) E3 = (E3 + 6176).toNat := by
        unfold scaleOf; rw [if_pos (by omega), if_pos h2]
      omega
  have hg1 : 1 ≤ g := by
    rcases hc with h | ⟨h1, h2⟩
    · omega
    · have : scaleOf (ndigits c3) E3 = (E3 + 6176).toNat := by
        unfold scaleOf; rw [if_pos (by omega), if_pos h2]
      omega
  by_cases hgap : sp ≠ sz ∧ g = 1
  · exact ⟨_, _, _, _, caseZ1_gap C3 C4 q3 q4 e3 delta p34 z_sign p_sign z_exp sz sp c3 c4 E3 E4 inv hgap.1 (by omega) hfit hov
      pml pmg pil pig m pfpsf res scale ind R64 P128 R128 P192 R192 R256 pref⟩
  · exact ⟨_, _, _, _, caseZ1_main C3 C4 q3 q4 e3 delta p34 z_sign p_sign z_exp sz sp c3 c4 E3 E4 inv g hg hg1 hgap hfit hov
      pml pmg pil pig m pfpsf res scale ind false R64 P128 R128 P192 R192 R256 pref⟩

end Dec.C02GenFmaZ
