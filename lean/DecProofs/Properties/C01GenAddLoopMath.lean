/-
  C01GenAddLoopMath — the NUMBER-LEVEL mathematics of the rounding loop of `bid128_add` (two non-zero finite operands,
  `34 − q_L < delta < 34`; bid128_add.rs `'roundC2: loop`), for `C01GenAddRound` (which steps the code).  No code here.

  Notation: `B` the first coefficient padded to 34 digits, `k = x1` the digits removed from the second coefficient
  `cB = a·D + r` (`D = 10^k = 2h`, `r < D`), `Rf = firstR B a r h` the first rounding of `cB/D` (half up, a midpoint to the
  side that makes `B ± Rf` even), `(lte, gte, ltm, gtm)` = `(is_midpoint_lt_even, is_midpoint_gt_even,
  is_inexact_lt_midpoint, is_inexact_gt_midpoint)`.

  §1  `Truthful Q lte gte ltm gtm q ρ H`: `Q` is `q + ρ/(2H)` rounded to nearest-even and the indicators say truthfully
      where the exact value lies; `truth_adjust`: truthful ⇒ the `upB`/`dnB` correction gives `roundInt` in every mode
      (the shape of `C01GenAdd.adjust_ok`).
  §2  `repair35`: the double-rounding repair of the 35-digit sum, copied from the source as a pure function;
      `repair35_two_step`: truthful first rounding ⇒ `repair35` is the truthful rounding of the SAME exact value one digit
      higher ("second rounding + repair = one rounding").
  §3  `first_truth_add`, `first_truth_sub`: the first rounding with the loop's indicators is truthful (same / opposite signs).
  §4  `finish_long'`: `finish` on `34 + k` digits including the exact case (extends `C01GenAdd.finish_long`).
  §5  same signs, `S = B + Rf ≥ 10^34`: `add35_cases` (either `B + a ≥ 10^34`, or the edge `B + a = 10^34 − 1` rounded up);
      `add35_truth`, `add35_adjust` (the `adjust_ok`-shaped statement for the repaired quotient against the exact sum rounded at
      `k + 1` digits), `finish_add35` (model side; the coefficient stays below `10^34`); the edge: `add35_edge`,
      `finish_add35_edge` (the model rounds at `k` digits; the code's final "crossed into the lower decade" branch is what
      restores `10^34 − 1` there).
  §6  opposite signs: `sub_divmod`, `truth_floor`, `pass2_iff` (the code's second-pass test ⇔ the exact difference is below
      `10^33` units), `sub_adjust_gen` (`adjust_ok` shape for any minuend: `B` in pass 1, `10·B` in pass 2), `sub_nopass`
      (no second pass ⇒ `34 + k` digits, coefficient ≥ `10^33`), `sub_pass2` (`k ≥ 2`: `34 + (k−1)` digits, `D2 ∈ [9·10^33,
      10^34]`, no third pass, `D2 = 10^34` only by rounding up from `10^34 − 1`), `finish_sub_pass2_exact` (`k = 1`).

  §7  `corrCE`, `codeTail`: the text after the loop (correction by the rounding mode with the carry `10^34 ↦ 10^33` and the
      crossing `10^33 − 1 ↦ 10^34 − 1`, overflow, inexact flag) as a pure function; `codeTail_round` (on a truthful 34-digit
      rounding it is the model's rounding in every mode); the COMPLETE statements `finish … = codeTail …` for each arm:
      `add35_final` (same signs, `S ≥ 10^34`, main case and edge together), `sub_final1` (no second pass), `sub_final2` (second
      pass, `k ≥ 2`; also: no third pass), `sub_final_exact` (second pass, `k = 1`); `codeTail_round'` (any exponent, overflow
      included) and `add1_final` (same signs, `S < 10^34`, including the boundary `B + a = 10^34 − 1` with a final carry).

  FINDINGS: none — the repair table of the source, as copied in `repair35`, is correct in every branch (`repair35_two_step`
  is proved for ALL `S`, indicators and positions), including the two branches the source comments call impossible
  (`is_midpoint_gt_even` / `is_midpoint_lt_even` with a midpoint fraction: a tie in the first rounding makes `S` even).
-/
import DecProofs.Properties.C01GenAddLoop
namespace Dec.C01GenAddLoopMath
open Dec Dec.Rs Dec.C01GenAdd
open Dec.C13GenPack (md)
set_option linter.unusedVariables false
set_option linter.unnecessarySeqFocus false
set_option linter.unusedTactic false
set_option linter.unreachableTactic false
set_option linter.unusedSimpArgs false

/-- **truthful position indicators**: `Q` is the value `q + ρ/(2H)` (`ρ < 2H`) rounded to nearest-even, and the four
indicators of the BID code say where the exact value lies relative to `Q`: `ltm` — above `Q`, below the midpoint
(`is_inexact_lt_midpoint`); `gtm` — below `Q`, above the midpoint (`is_inexact_gt_midpoint`); `gte` — exactly the midpoint
above the even `Q` (`is_midpoint_gt_even`); `lte` — exactly the midpoint below the even `Q` (`is_midpoint_lt_even`);
all false — exact -/
def Truthful (Q : Nat) (lte gte ltm gtm : Bool) (q ρ H : Nat) : Prop :=
  (ρ = 0 → Q = q ∧ lte = false ∧ gte = false ∧ ltm = false ∧ gtm = false) ∧
  (0 < ρ → ρ < H → Q = q ∧ lte = false ∧ gte = false ∧ ltm = true ∧ gtm = false) ∧
  (ρ = H → q % 2 = 0 → Q = q ∧ lte = false ∧ gte = true ∧ ltm = false ∧ gtm = false) ∧
  (ρ = H → q % 2 = 1 → Q = q + 1 ∧ lte = true ∧ gte = false ∧ ltm = false ∧ gtm = false) ∧
  (H < ρ → Q = q + 1 ∧ lte = false ∧ gte = false ∧ ltm = false ∧ gtm = true)

example : Truthful 12 false false true false 12 3 5 := by unfold Truthful; simp

/-- **from truthful indicators to the model's rounding in every mode**: the nearest-even value `Q`, corrected by the
code's `upB` (+1) / `dnB` (−1) tests, is `roundInt` of the exact value in the mode (the shape of `C01GenAdd.adjust_ok`) -/
theorem truth_adjust (m : RoundingMode) (sA : Bool) (Q : Nat) (lte gte ltm gtm : Bool) (q ρ H : Nat) (hH : 0 < H)
    (hρ : ρ < 2 * H) (ht : Truthful Q lte gte ltm gtm q ρ H)
    (T : Nat) (hT : T = if ρ = 0 then q else roundInt (md m) sA q ρ (2 * H)) :
    (m = .NearestEven → Q = T) ∧
    (m ≠ .NearestEven → upB (!sA) sA m ltm gte = true → Q + 1 = T) ∧
    (m ≠ .NearestEven → upB (!sA) sA m ltm gte = false → dnB (!sA) sA m lte gtm = true → Q - 1 = T ∧ 1 ≤ Q) ∧
    (m ≠ .NearestEven → upB (!sA) sA m ltm gte = false → dnB (!sA) sA m lte gtm = false → Q = T) := by
  obtain ⟨t0, t1, t2, t3, t4⟩ := ht
  subst hT
  unfold roundInt roundUp upB dnB
  rcases Nat.eq_zero_or_pos ρ with r0 | r0
  · obtain ⟨rfl, rfl, rfl, rfl, rfl⟩ := t0 r0
    subst r0
    cases m <;> cases sA <;> simp [md]
  · have rne : ρ ≠ 0 := by omega
    rcases Nat.lt_trichotomy ρ H with c | c | c
    · obtain ⟨rfl, rfl, rfl, rfl, rfl⟩ := t1 r0 c
      cases m <;> cases sA <;> simp [md, rne] <;> omega
    · rcases Nat.mod_two_eq_zero_or_one q with p | p
      · obtain ⟨rfl, rfl, rfl, rfl, rfl⟩ := t2 c p
        subst c
        cases m <;> cases sA <;> simp [md, rne, p] <;> omega
      · obtain ⟨rfl, rfl, rfl, rfl, rfl⟩ := t3 c p
        subst c
        cases m <;> cases sA <;> simp [md, rne, p] <;> omega
    · obtain ⟨rfl, rfl, rfl, rfl, rfl⟩ := t4 c
      cases m <;> cases sA <;> simp [md, rne] <;> omega


/-! ## 2. Same signs, the sum has 35 digits: the second rounding and its repair -/

/-- the first rounding of `cB = a·D + r` (`D = 2h`) by the reciprocal block, as the loop uses it: half up, except that an
exact midpoint goes to the value that makes `B ± Rf` even (`B` is the padded first coefficient) -/
def firstR (B a r h : Nat) : Nat := if r < h then a else if r = h ∧ (B + a + 1) % 2 = 1 then a else a + 1

/-- **the double-rounding repair of `bid128_add`** (bid128_add.rs, "if C1 >= 10^34": `Q256 = (C1 + 5)·10^-1`, then the
table of cases on the fraction and the indicators of the first rounding), copied as a pure function: from the 35-digit sum
`S` and the indicators `(lte, gte, ltm, gtm)` and `tmp_inexact` of the first rounding to the quotient and the new
indicators `(Q, lte', gte', ltm', gtm', tmp_inexact')` -/
def repair35 (S : Nat) (lte gte ltm gtm ti : Bool) : Nat × Bool × Bool × Bool × Bool × Bool :=
  let f := (S + 5) % 10
  let Q0 := (S + 5) / 10
  if f = 0 then
    -- the fraction is a midpoint
    if ltm then (Q0, false, false, false, true, true)
    else if gtm then (Q0 - 1, false, false, true, false, true)
    else if gte then (Q0, false, false, true, false, true)
    else if Q0 % 2 = 1 then (Q0 - 1, false, true, false, false, true)
    else (Q0, true, false, false, false, true)
  else if 5 ≤ f then
    if 6 ≤ f then (Q0, false, false, true, false, true)
    else if ti then
      (if lte then (Q0, false, gte, ltm, true, ti)
       else if gte then (Q0, lte, false, true, gtm, ti)
       else (Q0, lte, gte, ltm, gtm, ti))
    else (Q0, lte, gte, ltm, gtm, ti)
  else (Q0, false, false, false, true, true)

-- 10^34 + 4 after a first rounding that went up: the exact value is below the midpoint …5, so `10^33`, "above"
example : repair35 (10 ^ 34 + 5) false false false true true = (10 ^ 33, false, false, true, false, true) := by decide


/-- remainder of `10·q + c` -/
theorem mod10_lem (q c : Nat) : (10 * q + c) % 10 = c % 10 := by omega
/-- quotient of `10·q + c` -/
theorem div10_lem (q c : Nat) : (10 * q + c) / 10 = q + c / 10 := by omega

/-- **two roundings = one (the repair is truthful)**: if `(S, indicators)` is the truthful nearest-even rounding of
`q1 + ρ1/(2·H1)` and `tmp_inexact = (ρ1 ≠ 0)`, then `repair35 S …` is the truthful nearest-even rounding of the SAME exact
value one digit higher, `q0 + (s0·2H1 + ρ1)/(20·H1)` for `q1 = 10·q0 + s0`, and the new `tmp_inexact` is truthful too -/
theorem repair35_two_step (S q1 ρ1 H1 q0 s0 : Nat) (lte gte ltm gtm ti : Bool) (hH1 : 0 < H1) (hρ1 : ρ1 < 2 * H1)
    (hq : q1 = 10 * q0 + s0) (hs : s0 < 10) (ht : Truthful S lte gte ltm gtm q1 ρ1 H1) (hti : ti = decide (ρ1 ≠ 0)) :
    Truthful (repair35 S lte gte ltm gtm ti).1 (repair35 S lte gte ltm gtm ti).2.1 (repair35 S lte gte ltm gtm ti).2.2.1
      (repair35 S lte gte ltm gtm ti).2.2.2.1 (repair35 S lte gte ltm gtm ti).2.2.2.2.1
      q0 (s0 * (2 * H1) + ρ1) (10 * H1) ∧
    (repair35 S lte gte ltm gtm ti).2.2.2.2.2 = decide (s0 * (2 * H1) + ρ1 ≠ 0) := by
  obtain ⟨t0, t1, t2, t3, t4⟩ := ht
  subst hti hq
  rcases Nat.eq_zero_or_pos ρ1 with r0 | r0
  · obtain ⟨rfl, rfl, rfl, rfl, rfl⟩ := t0 r0
    subst r0
    unfold repair35 Truthful
    interval_cases s0 <;> simp [Nat.add_assoc, mod10_lem, div10_lem] <;> (try split_ifs) <;> (try simp) <;> omega
  · have rne : ρ1 ≠ 0 := by omega
    rcases Nat.lt_trichotomy ρ1 H1 with c | c | c
    · obtain ⟨rfl, rfl, rfl, rfl, rfl⟩ := t1 r0 c
      unfold repair35 Truthful
      interval_cases s0 <;> simp [Nat.add_assoc, mod10_lem, div10_lem, rne] <;> omega
    · rcases Nat.mod_two_eq_zero_or_one (10 * q0 + s0) with p | p
      · obtain ⟨rfl, rfl, rfl, rfl, rfl⟩ := t2 c p
        subst c
        unfold repair35 Truthful
        interval_cases s0 <;> simp [Nat.add_assoc, mod10_lem, div10_lem, rne] <;> omega
      · obtain ⟨rfl, rfl, rfl, rfl, rfl⟩ := t3 c p
        subst c
        unfold repair35 Truthful
        interval_cases s0 <;> simp [Nat.add_assoc, mod10_lem, div10_lem, rne] <;> omega
    · obtain ⟨rfl, rfl, rfl, rfl, rfl⟩ := t4 c
      unfold repair35 Truthful
      interval_cases s0 <;> simp [Nat.add_assoc, mod10_lem, div10_lem, rne] <;> omega


/-! ## 3. The first rounding is truthful -/

/-- **the first rounding, same signs**: `B + Rf` with the indicators the loop sets (`hkRound`'s glue: same sign) is the
truthful nearest-even rounding of the exact sum `B + a + r/(2h)` in units `D = 2h` -/
theorem first_truth_add (B a r h : Nat) (hh : 0 < h) (hr : r < 2 * h) (lte gte ltm gtm : Bool)
    (hlte : lte = decide (r = h ∧ (B + a + 1) % 2 = 0)) (hgte : gte = decide (r = h ∧ (B + a + 1) % 2 = 1))
    (hltm : ltm = decide (0 < r ∧ r < h)) (hgtm : gtm = decide (h < r)) :
    Truthful (B + firstR B a r h) lte gte ltm gtm (B + a) r h := by
  subst hlte hgte hltm hgtm
  unfold Truthful firstR
  refine ⟨?_, ?_, ?_, ?_, ?_⟩
  · intro r0; subst r0; simp [hh] <;> omega
  · intro r0 c; simp [c, r0] <;> omega
  · intro c p; subst c
    have p' : (B + a + 1) % 2 = 1 := by omega
    simp [p'] <;> omega
  · intro c p; subst c
    have p' : (B + a + 1) % 2 = 0 := by omega
    simp [p'] <;> omega
  · intro c
    have n1 : ¬ r < h := by omega
    have n2 : ¬ r = h := by omega
    simp [n1, n2, c] <;> omega

/-- **the first rounding, opposite signs**: `Bx − Rf` with the indicators the loop sets (opposite signs: the positions are
mirrored) is the truthful nearest-even rounding of the exact difference `Bx − a − r/(2h)`, that is of
`(Bx − a − 1) + (2h − r)/(2h)` when `r ≠ 0`.  `Bx` is any integer above `a` (the padded first coefficient, or ten times it
in the second pass) -/
theorem first_truth_sub (Bx a r h : Nat) (hBx : a + 1 ≤ Bx) (hh : 0 < h) (hr : r < 2 * h) (lte gte ltm gtm : Bool)
    (hlte : lte = decide (r = h ∧ (Bx + a + 1) % 2 = 1)) (hgte : gte = decide (r = h ∧ (Bx + a + 1) % 2 = 0))
    (hltm : ltm = decide (h < r)) (hgtm : gtm = decide (0 < r ∧ r < h)) :
    Truthful (Bx - firstR Bx a r h) lte gte ltm gtm (if r = 0 then Bx - a else Bx - a - 1) (if r = 0 then 0 else 2 * h - r) h := by
  subst hlte hgte hltm hgtm
  unfold Truthful firstR
  by_cases r0 : r = 0
  · subst r0
    simp [hh] <;> omega
  · rw [if_neg r0, if_neg r0]
    refine ⟨?_, ?_, ?_, ?_, ?_⟩
    · intro c; omega
    · intro c0 c
      have n1 : ¬ r < h := by omega
      have n2 : ¬ r = h := by omega
      simp [n1, n2] <;> omega
    · intro c p
      have c' : r = h := by omega
      subst c'
      have p' : (Bx + a + 1) % 2 = 0 := by omega
      simp [p'] <;> omega
    · intro c p
      have c' : r = h := by omega
      subst c'
      have p' : (Bx + a + 1) % 2 = 1 := by omega
      simp [p'] <;> omega
    · intro c
      have c1 : r < h := by omega
      simp [c1] <;> omega


/-! ## 4. The model side: `finish` on a number of `34 + k` digits -/

/-- **`finish` on `34 + k` digits, exact case included** (`C01GenAdd.finish_long` plus the case `N % 10^k = 0`): the last `k`
digits are rounded off at exponent `e + k`; exact ⇒ no flag; `10^34` is renormalised; overflow above `eMax` -/
theorem finish_long' (mode : Mode) (neg : Bool) (N : Nat) (e : Int) (k : Nat) (hN1 : 10 ^ (33 + k) ≤ N)
    (hN2 : N < 10 ^ (34 + k)) (hk : 1 ≤ k) (he : -6176 ≤ e) (hx : e + k ≤ 6112) :
    finish mode neg N 1 e e =
      if N % 10 ^ k = 0 then
        (if e + k > eMax then (overflowResult mode neg, fOverflow ||| fInexact) else (.fin neg (N / 10 ^ k) (e + k), 0))
      else if roundInt mode neg (N / 10 ^ k) (N % 10 ^ k) (10 ^ k) = P34 then
        (if e + k + 1 > eMax then (overflowResult mode neg, fOverflow ||| fInexact) else (.fin neg P33 (e + k + 1), fInexact))
      else
        (if e + k > eMax then (overflowResult mode neg, fOverflow ||| fInexact)
          else (.fin neg (roundInt mode neg (N / 10 ^ k) (N % 10 ^ k) (10 ^ k)) (e + k), fInexact)) := by
  by_cases hr : N % 10 ^ k = 0
  · rw [if_pos hr]
    have hN0 : 0 < N := lt_of_lt_of_le (Nat.pow_pos (by decide)) hN1
    have hnd : ndigits N = 34 + k := by
      rw [ndigits_eq_iff hN0 (by omega)]
      exact ⟨by rw [show 34 + k - 1 = 33 + k from by omega]; exact hN1, hN2⟩
    have hlg : ilog10Ratio N 1 + e = 33 + k + e := by rw [ilog_one N hN0, hnd]; omega
    have hx0 : fx0 (33 + k + e) = e + k := by
      unfold fx0 eMin; rw [if_neg (by omega)]; omega
    have hnum : fnum N (e - (e + k)) = N := by
      unfold fnum; rw [if_neg (by omega)]
    have hden : fden 1 (e - (e + k)) = 10 ^ k := by
      unfold fden; rw [if_neg (by omega), show (-(e - (e + k))).toNat = k from by omega, Nat.one_mul]
    rw [finish_eq, hlg, if_neg (by omega), if_neg (by omega), hx0, hnum, hden]
    by_cases hov : e + k > eMax
    · rw [if_pos hov]; exact finishAt_exact_ovf _ _ _ _ _ _ _ hr hov
    · rw [if_neg hov, finishAt_exact _ _ _ _ _ _ _ hr (by omega)]
      have hc : clampInt (e + k) (if e + k + ↑(trailingZeros 34 (N / 10 ^ k)) > eMax then eMax
          else e + k + ↑(trailingZeros 34 (N / 10 ^ k))) e = e + k := by
        unfold clampInt; rw [if_pos (by omega)]
      rw [hc, Int.sub_self, Int.toNat_zero, Nat.pow_zero, Nat.div_one]
  · rw [if_neg hr]; exact finish_long mode neg N e k hN1 hN2 hk he hx hr


/-! ## 5. Same signs: the exact sum against the 35-digit code path -/

/-- the exact sum `N = B·D + (a·D + r)` split at `k + 1` digits: quotient `q0`, remainder `s0·D + r` for `B + a = 10·q0 + s0` -/
theorem n35_divmod (B a r h k q0 s0 : Nat) (hD : 10 ^ k = 2 * h) (hr : r < 2 * h) (hs : s0 < 10)
    (hBa : B + a = 10 * q0 + s0) :
    (B * 10 ^ k + (a * 10 ^ k + r)) / 10 ^ (k + 1) = q0 ∧ (B * 10 ^ k + (a * 10 ^ k + r)) % 10 ^ (k + 1) = s0 * (2 * h) + r := by
  have e1 : B * 10 ^ k + (a * 10 ^ k + r) = (s0 * (2 * h) + r) + q0 * 10 ^ (k + 1) := by
    rw [Nat.pow_succ, hD]
    have : B * (2 * h) + a * (2 * h) = (B + a) * (2 * h) := by ring
    rw [← Nat.add_assoc, this, hBa]; ring
  have hlt : s0 * (2 * h) + r < 10 ^ (k + 1) := by
    rw [Nat.pow_succ, hD]
    have : s0 * (2 * h) ≤ 9 * (2 * h) := Nat.mul_le_mul_right _ (by omega)
    omega
  have hp : 0 < 10 ^ (k + 1) := Nat.pow_pos (by decide)
  rw [e1]
  constructor
  · rw [Nat.add_mul_div_right _ _ hp, Nat.div_eq_of_lt hlt, Nat.zero_add]
  · rw [Nat.add_mul_mod_self_right, Nat.mod_eq_of_lt hlt]

example : (123 * 10 ^ 2 + (45 * 10 ^ 2 + 67)) / 10 ^ 3 = 16 ∧ (123 * 10 ^ 2 + (45 * 10 ^ 2 + 67)) % 10 ^ 3 = 8 * (2 * 50) + 67 := by
  decide

/-- **WANTED 1, truth**: same signs, `S = B + Rf`; the output of `repair35` on `S` and the indicators of the first rounding
is the truthful nearest-even rounding of the exact sum `N = B·10^k + cB` at `k + 1` digits, and `tmp_inexact'` says whether
`N` is inexact there.  (No hypothesis on the size of `S`: pure arithmetic.) -/
theorem add35_truth (B a r h k : Nat) (hD : 10 ^ k = 2 * h) (hh : 0 < h) (hr : r < 2 * h) (lte gte ltm gtm : Bool)
    (hlte : lte = decide (r = h ∧ (B + a + 1) % 2 = 0)) (hgte : gte = decide (r = h ∧ (B + a + 1) % 2 = 1))
    (hltm : ltm = decide (0 < r ∧ r < h)) (hgtm : gtm = decide (h < r))
    (R : Nat × Bool × Bool × Bool × Bool × Bool) (hR : R = repair35 (B + firstR B a r h) lte gte ltm gtm (decide (r ≠ 0))) :
    Truthful R.1 R.2.1 R.2.2.1 R.2.2.2.1 R.2.2.2.2.1 ((B * 10 ^ k + (a * 10 ^ k + r)) / 10 ^ (k + 1))
      ((B * 10 ^ k + (a * 10 ^ k + r)) % 10 ^ (k + 1)) (10 * h) ∧
    R.2.2.2.2.2 = decide ((B * 10 ^ k + (a * 10 ^ k + r)) % 10 ^ (k + 1) ≠ 0) ∧ 10 ^ (k + 1) = 2 * (10 * h) := by
  have hdm := Nat.div_add_mod (B + a) 10
  have hlt := Nat.mod_lt (B + a) (show 10 > 0 by decide)
  obtain ⟨d1, d2⟩ := n35_divmod B a r h k ((B + a) / 10) ((B + a) % 10) hD hr hlt (by omega)
  rw [d1, d2, hR]
  have ht := first_truth_add B a r h hh hr lte gte ltm gtm hlte hgte hltm hgtm
  obtain ⟨t1, t2⟩ := repair35_two_step (B + firstR B a r h) (B + a) r h ((B + a) / 10) ((B + a) % 10) lte gte ltm gtm
    (decide (r ≠ 0)) hh hr (by omega) hlt ht rfl
  exact ⟨t1, t2, by rw [Nat.pow_succ, hD]; ring⟩

/-- **WANTED 1, the statement in the shape of `adjust_ok`**: the repaired quotient `Q`, corrected by `upB`/`dnB` on the
repaired indicators, is the model's coefficient `T` of the exact sum rounded at `k + 1` digits, in every mode -/
theorem add35_adjust (m : RoundingMode) (sA : Bool) (B a r h k : Nat) (hD : 10 ^ k = 2 * h) (hh : 0 < h) (hr : r < 2 * h)
    (lte gte ltm gtm : Bool)
    (hlte : lte = decide (r = h ∧ (B + a + 1) % 2 = 0)) (hgte : gte = decide (r = h ∧ (B + a + 1) % 2 = 1))
    (hltm : ltm = decide (0 < r ∧ r < h)) (hgtm : gtm = decide (h < r))
    (R : Nat × Bool × Bool × Bool × Bool × Bool) (hR : R = repair35 (B + firstR B a r h) lte gte ltm gtm (decide (r ≠ 0)))
    (N T : Nat) (hN : N = B * 10 ^ k + (a * 10 ^ k + r))
    (hT : T = if N % 10 ^ (k + 1) = 0 then N / 10 ^ (k + 1)
      else roundInt (md m) sA (N / 10 ^ (k + 1)) (N % 10 ^ (k + 1)) (10 ^ (k + 1))) :
    (m = .NearestEven → R.1 = T) ∧
    (m ≠ .NearestEven → upB (!sA) sA m R.2.2.2.1 R.2.2.1 = true → R.1 + 1 = T) ∧
    (m ≠ .NearestEven → upB (!sA) sA m R.2.2.2.1 R.2.2.1 = false → dnB (!sA) sA m R.2.1 R.2.2.2.2.1 = true →
      R.1 - 1 = T ∧ 1 ≤ R.1) ∧
    (m ≠ .NearestEven → upB (!sA) sA m R.2.2.2.1 R.2.2.1 = false → dnB (!sA) sA m R.2.1 R.2.2.2.2.1 = false → R.1 = T) ∧
    R.2.2.2.2.2 = decide (N % 10 ^ (k + 1) ≠ 0) := by
  subst hN
  obtain ⟨t1, t2, t3⟩ := add35_truth B a r h k hD hh hr lte gte ltm gtm hlte hgte hltm hgtm R hR
  have hρ : (B * 10 ^ k + (a * 10 ^ k + r)) % 10 ^ (k + 1) < 2 * (10 * h) := by
    rw [← t3]; exact Nat.mod_lt _ (Nat.pow_pos (by decide))
  generalize (B * 10 ^ k + (a * 10 ^ k + r)) / 10 ^ (k + 1) = q at *
  generalize (B * 10 ^ k + (a * 10 ^ k + r)) % 10 ^ (k + 1) = ρ at *
  rw [t3] at hT
  obtain ⟨c1, c2, c3, c4⟩ := truth_adjust m sA R.1 R.2.1 R.2.2.1 R.2.2.2.1 R.2.2.2.2.1 q ρ (10 * h) (by omega) hρ t1 T hT
  exact ⟨c1, c2, c3, c4, t2⟩

/-- **WANTED 1, the model side**: when the exact integer part `B + a` already has 35 digits, `finish` rounds the exact sum at
`k + 1` digits; the rounded coefficient never reaches `10^34` -/
theorem finish_add35 (mode : Mode) (sA : Bool) (B a r k : Nat) (eB : Int) (hk : 1 ≤ k) (hr : r < 10 ^ k)
    (hB2 : B < 10 ^ 34) (ha : a < 10 ^ 33) (hS : 10 ^ 34 ≤ B + a) (he : -6176 ≤ eB) (hx : eB + k + 1 ≤ 6112)
    (N : Nat) (hN : N = B * 10 ^ k + (a * 10 ^ k + r)) :
    finish mode sA N 1 eB eB =
      (if N % 10 ^ (k + 1) = 0 then
        (if eB + k + 1 > eMax then (overflowResult mode sA, fOverflow ||| fInexact) else (.fin sA (N / 10 ^ (k + 1)) (eB + k + 1), 0))
      else
        (if eB + k + 1 > eMax then (overflowResult mode sA, fOverflow ||| fInexact)
          else (.fin sA (roundInt mode sA (N / 10 ^ (k + 1)) (N % 10 ^ (k + 1)) (10 ^ (k + 1))) (eB + k + 1), fInexact))) ∧
    10 ^ 33 ≤ N / 10 ^ (k + 1) ∧ N / 10 ^ (k + 1) + 1 < 10 ^ 34 := by
  have hp : 0 < 10 ^ k := Nat.pow_pos (by decide)
  have hN' : N = (B + a) * 10 ^ k + r := by rw [hN]; ring
  have hN1 : 10 ^ (33 + (k + 1)) ≤ N := by
    rw [hN', show 33 + (k + 1) = 34 + k from by omega, Nat.pow_add]
    exact le_trans (Nat.mul_le_mul_right _ hS) (Nat.le_add_right _ _)
  have hN2' : N < (10 ^ 34 + 10 ^ 33) * 10 ^ k := by
    rw [hN']
    have : (B + a + 1) * 10 ^ k ≤ (10 ^ 34 + 10 ^ 33) * 10 ^ k := Nat.mul_le_mul_right _ (by omega)
    have e : (B + a + 1) * 10 ^ k = (B + a) * 10 ^ k + 10 ^ k := by ring
    omega
  have hN2 : N < 10 ^ (34 + (k + 1)) := by
    rw [show 34 + (k + 1) = 35 + k from by omega, Nat.pow_add]
    exact lt_of_lt_of_le hN2' (Nat.mul_le_mul_right _ (by norm_num))
  have hq1 : 10 ^ 33 ≤ N / 10 ^ (k + 1) := by
    rw [Nat.le_div_iff_mul_le (Nat.pow_pos (by decide)), ← Nat.pow_add]; exact hN1
  have hq2 : N / 10 ^ (k + 1) + 1 < 10 ^ 34 := by
    have : N / 10 ^ (k + 1) < 10 ^ 33 + 10 ^ 32 := by
      rw [Nat.div_lt_iff_lt_mul (Nat.pow_pos (by decide))]
      refine lt_of_lt_of_le hN2' (le_of_eq ?_)
      rw [Nat.pow_succ]; ring
    omega
  refine ⟨?_, hq1, hq2⟩
  rw [finish_long' mode sA N eB (k + 1) hN1 hN2 (by omega) he (by omega)]
  have hm : roundInt mode sA (N / 10 ^ (k + 1)) (N % 10 ^ (k + 1)) (10 ^ (k + 1)) ≠ P34 := by
    unfold roundInt P34; split <;> omega
  rw [if_neg hm]
  simp only [Int.add_assoc, Nat.cast_add, Nat.cast_one]


/-- when the rounded sum reaches `10^34`: either the exact integer part `B + a` already does, or this is the edge
`B + a = 10^34 − 1` with the first rounding going up -/
theorem add35_cases (B a r h : Nat) (hS : 10 ^ 34 ≤ B + firstR B a r h) :
    10 ^ 34 ≤ B + a ∨ (B + a = 10 ^ 34 - 1 ∧ h ≤ r) := by
  unfold firstR at hS
  by_cases c : r < h
  · rw [if_pos c] at hS; exact Or.inl hS
  · rw [if_neg c] at hS
    split at hS
    · exact Or.inl hS
    · by_cases g : 10 ^ 34 ≤ B + a
      · exact Or.inl g
      · exact Or.inr ⟨by omega, by omega⟩

/-- **the edge of WANTED 1**: `B + a = 10^34 − 1` and the first rounding went up (`h ≤ r`), so `S = 10^34` although the exact
sum has only `34 + k` digits.  The repair returns `10^33` with the single indicator `gtm` ("the exact value is below"), and the
model rounds at `k` digits: up to `10^34` exactly when the code does not subtract one -/
theorem add35_edge (m : RoundingMode) (sA : Bool) (B a r h : Nat) (hh : 0 < h) (hr : r < 2 * h) (hBa : B + a = 10 ^ 34 - 1)
    (hrh : h ≤ r) (lte gte ltm gtm : Bool)
    (hlte : lte = decide (r = h ∧ (B + a + 1) % 2 = 0)) (hgte : gte = decide (r = h ∧ (B + a + 1) % 2 = 1))
    (hltm : ltm = decide (0 < r ∧ r < h)) (hgtm : gtm = decide (h < r)) :
    B + firstR B a r h = 10 ^ 34 ∧
    repair35 (B + firstR B a r h) lte gte ltm gtm (decide (r ≠ 0)) = (10 ^ 33, false, false, false, true, true) ∧
    upB (!sA) sA m false false = false ∧
    (m = .NearestEven → roundInt (md m) sA (10 ^ 34 - 1) r (2 * h) = P34) ∧
    (m ≠ .NearestEven → dnB (!sA) sA m false true = true → roundInt (md m) sA (10 ^ 34 - 1) r (2 * h) = 10 ^ 34 - 1) ∧
    (m ≠ .NearestEven → dnB (!sA) sA m false true = false → roundInt (md m) sA (10 ^ 34 - 1) r (2 * h) = P34) := by
  have hpar : (B + a + 1) % 2 = 0 := by rw [hBa]; decide
  have hR : firstR B a r h = a + 1 := by
    unfold firstR; rw [if_neg (by omega), if_neg (by omega)]
  have hS : B + firstR B a r h = 10 ^ 34 := by rw [hR]; omega
  have r0 : r ≠ 0 := by omega
  refine ⟨hS, ?_, ?_, ?_, ?_, ?_⟩
  · rw [hS]; subst hlte hgte hltm hgtm
    unfold repair35
    rcases Nat.eq_or_lt_of_le hrh with c | c
    · subst c; simp [hpar, r0]
    · have n1 : ¬ r = h := by omega
      have n2 : ¬ r < h := by omega
      simp [n1, n2, c, r0]
  · unfold upB; cases m <;> cases sA <;> rfl
  all_goals
    simp only [roundInt, roundUp, dnB, P34]
    have hodd : ((10 ^ 34 - 1) % 2 == 1) = true := by decide
    rw [hodd]
    cases m <;> cases sA <;> simp [md, r0] <;> omega

/-- the model side of the edge: the exact sum has `34 + k` digits and is rounded at `k` digits -/
theorem finish_add35_edge (mode : Mode) (sA : Bool) (B a r k : Nat) (eB : Int) (hk : 1 ≤ k) (hr : r < 10 ^ k) (hr0 : r ≠ 0)
    (hBa : B + a = 10 ^ 34 - 1) (he : -6176 ≤ eB) (hx : eB + k ≤ 6112)
    (N : Nat) (hN : N = B * 10 ^ k + (a * 10 ^ k + r)) :
    finish mode sA N 1 eB eB =
      if roundInt mode sA (10 ^ 34 - 1) r (10 ^ k) = P34 then
        (if eB + k + 1 > eMax then (overflowResult mode sA, fOverflow ||| fInexact) else (.fin sA P33 (eB + k + 1), fInexact))
      else
        (if eB + k > eMax then (overflowResult mode sA, fOverflow ||| fInexact)
          else (.fin sA (roundInt mode sA (10 ^ 34 - 1) r (10 ^ k)) (eB + k), fInexact)) := by
  have hN' : N = (10 ^ 34 - 1) * 10 ^ k + r := by rw [hN, ← hBa]; ring
  obtain ⟨d1, d2⟩ := divmod_add (10 ^ 34 - 1) k r hr
  rw [← hN'] at d1 d2
  have hN1 : 10 ^ (33 + k) ≤ N := by
    rw [hN', Nat.pow_add]
    exact le_trans (Nat.mul_le_mul_right _ (by norm_num)) (Nat.le_add_right _ _)
  have hN2 : N < 10 ^ (34 + k) := by
    rw [hN', Nat.pow_add]
    have e : (10 ^ 34 - 1 + 1) * 10 ^ k = (10 ^ 34 - 1) * 10 ^ k + 10 ^ k := by ring
    have : (10 ^ 34 - 1 + 1) * 10 ^ k = 10 ^ 34 * 10 ^ k := by norm_num
    omega
  rw [finish_long' mode sA N eB k hN1 hN2 hk he hx, d1, d2, if_neg hr0]

/-! ## 6. Opposite signs: the decision for a second pass, and both outcomes -/

/-- the exact difference `N = Bx·D − (a·D + r)` split at `k` digits -/
theorem sub_divmod (Bx a r k : Nat) (hBx : a + 1 ≤ Bx) (hr : r < 10 ^ k) :
    (Bx * 10 ^ k - (a * 10 ^ k + r)) / 10 ^ k = (if r = 0 then Bx - a else Bx - a - 1) ∧
    (Bx * 10 ^ k - (a * 10 ^ k + r)) % 10 ^ k = (if r = 0 then 0 else 10 ^ k - r) := by
  have e : Bx * 10 ^ k - (a * 10 ^ k + r) = (Bx - a) * 10 ^ k - r := by rw [Nat.sub_mul]; omega
  rw [e]
  by_cases r0 : r = 0
  · subst r0
    rw [if_pos rfl, if_pos rfl, Nat.sub_zero]
    have := divmod_add (Bx - a) k 0 (Nat.pow_pos (by decide))
    simp at this ⊢
  · rw [if_neg r0, if_neg r0]
    exact divmod_sub (Bx - a) k r (by omega) (by omega) hr

example : (50 * 10 ^ 2 - (7 * 10 ^ 2 + 30)) / 10 ^ 2 = 50 - 7 - 1 ∧ (50 * 10 ^ 2 - (7 * 10 ^ 2 + 30)) % 10 ^ 2 = 10 ^ 2 - 30 := by
  decide

/-- a truthful rounding is the floor, or the floor plus one exactly when the indicators say "the exact value is below" -/
theorem truth_floor (Q : Nat) (lte gte ltm gtm : Bool) (q ρ H : Nat) (hH : 0 < H) (ht : Truthful Q lte gte ltm gtm q ρ H) :
    (Q = q ∧ lte = false ∧ gtm = false) ∨ (Q = q + 1 ∧ (lte = true ∨ gtm = true) ∧ gte = false ∧ ltm = false) := by
  obtain ⟨t0, t1, t2, t3, t4⟩ := ht
  rcases Nat.eq_zero_or_pos ρ with r0 | r0
  · obtain ⟨a, b, c, d, e⟩ := t0 r0; exact Or.inl ⟨a, b, e⟩
  · rcases Nat.lt_trichotomy ρ H with c | c | c
    · obtain ⟨a, b, _, d, e⟩ := t1 r0 c; exact Or.inl ⟨a, b, e⟩
    · rcases Nat.mod_two_eq_zero_or_one q with p | p
      · obtain ⟨a, b, _, d, e⟩ := t2 c p; exact Or.inl ⟨a, b, e⟩
      · obtain ⟨a, b, c', d, e⟩ := t3 c p; exact Or.inr ⟨a, Or.inl b, c', d⟩
    · obtain ⟨a, b, c', d, e⟩ := t4 c; exact Or.inr ⟨a, Or.inr e, c', d⟩

/-- **WANTED 2, the decision**: the code's test for a second pass, `D1 < 10^33 ∨ (D1 = 10^33 ∧ (gtm ∨ lte))` on the rounded
difference `D1` with truthful indicators, says exactly that the EXACT difference is below `10^33` units -/
theorem pass2_iff (D1 : Nat) (lte gte ltm gtm : Bool) (q ρ H : Nat) (hH : 0 < H) (ht : Truthful D1 lte gte ltm gtm q ρ H) :
    (D1 < 10 ^ 33 ∨ (D1 = 10 ^ 33 ∧ (gtm = true ∨ lte = true))) ↔ q < 10 ^ 33 := by
  rcases truth_floor D1 lte gte ltm gtm q ρ H hH ht with ⟨a, b, c⟩ | ⟨a, b, -, -⟩
  · subst a; rw [b, c]; simp
  · subst a
    constructor
    · rintro (h | ⟨h, _⟩) <;> omega
    · intro h
      rcases Nat.lt_or_ge (q + 1) (10 ^ 33) with g | g
      · exact Or.inl g
      · exact Or.inr ⟨by omega, by rcases b with b | b <;> simp [b]⟩


/-- **WANTED 2 (ii)/(iii), the statement in the shape of `adjust_ok`**, for any minuend `Bx > a` (`B` in the first pass,
`10·B` in the second): the rounded difference `Bx − Rf`, corrected by `upB`/`dnB` on the (opposite-sign) indicators, is the
model's coefficient `T` of the exact difference `N = Bx·10^k − cB` rounded at `k` digits, in every mode; `tmp_inexact` is
`r ≠ 0 ↔ N % 10^k ≠ 0` -/
theorem sub_adjust_gen (m : RoundingMode) (sA : Bool) (Bx a r h k : Nat) (hD : 10 ^ k = 2 * h) (hh : 0 < h) (hr : r < 2 * h)
    (hBx : a + 1 ≤ Bx) (lte gte ltm gtm : Bool)
    (hlte : lte = decide (r = h ∧ (Bx + a + 1) % 2 = 1)) (hgte : gte = decide (r = h ∧ (Bx + a + 1) % 2 = 0))
    (hltm : ltm = decide (h < r)) (hgtm : gtm = decide (0 < r ∧ r < h))
    (N T : Nat) (hN : N = Bx * 10 ^ k - (a * 10 ^ k + r))
    (hT : T = if N % 10 ^ k = 0 then N / 10 ^ k else roundInt (md m) sA (N / 10 ^ k) (N % 10 ^ k) (10 ^ k)) :
    Truthful (Bx - firstR Bx a r h) lte gte ltm gtm (N / 10 ^ k) (N % 10 ^ k) h ∧
    (m = .NearestEven → Bx - firstR Bx a r h = T) ∧
    (m ≠ .NearestEven → upB (!sA) sA m ltm gte = true → Bx - firstR Bx a r h + 1 = T) ∧
    (m ≠ .NearestEven → upB (!sA) sA m ltm gte = false → dnB (!sA) sA m lte gtm = true →
      Bx - firstR Bx a r h - 1 = T ∧ 1 ≤ Bx - firstR Bx a r h) ∧
    (m ≠ .NearestEven → upB (!sA) sA m ltm gte = false → dnB (!sA) sA m lte gtm = false → Bx - firstR Bx a r h = T) ∧
    (decide (r ≠ 0) = decide (N % 10 ^ k ≠ 0)) := by
  subst hN
  obtain ⟨d1, d2⟩ := sub_divmod Bx a r k hBx (by rw [hD]; exact hr)
  have ht := first_truth_sub Bx a r h hBx hh hr lte gte ltm gtm hlte hgte hltm hgtm
  have d2' : (Bx * 10 ^ k - (a * 10 ^ k + r)) % 10 ^ k = if r = 0 then 0 else 2 * h - r := by rw [d2, hD]
  rw [← d1, ← d2'] at ht
  have hρ : (Bx * 10 ^ k - (a * 10 ^ k + r)) % 10 ^ k < 2 * h := by
    rw [← hD]; exact Nat.mod_lt _ (Nat.pow_pos (by decide))
  have hti : decide (r ≠ 0) = decide ((Bx * 10 ^ k - (a * 10 ^ k + r)) % 10 ^ k ≠ 0) := by
    rw [d2']; by_cases r0 : r = 0
    · subst r0; simp
    · rw [if_neg r0]; simp [r0]; omega
  generalize (Bx * 10 ^ k - (a * 10 ^ k + r)) / 10 ^ k = q at *
  generalize (Bx * 10 ^ k - (a * 10 ^ k + r)) % 10 ^ k = ρ at *
  rw [hD] at hT
  obtain ⟨c1, c2, c3, c4⟩ := truth_adjust m sA _ lte gte ltm gtm q ρ h hh hρ ht T hT
  exact ⟨ht, c1, c2, c3, c4, hti⟩

/-- **WANTED 2 (iii), no second pass**: if the code does not ask for a second pass, the exact difference has `34 + k` digits
(`finish_long'` applies with `k`) and every rounding of it stays at or above `10^33` -/
theorem sub_nopass (B a r h k : Nat) (hD : 10 ^ k = 2 * h) (hh : 0 < h) (hr : r < 2 * h) (hB2 : B < 10 ^ 34)
    (hBx : a + 1 ≤ B) (lte gte ltm gtm : Bool)
    (hlte : lte = decide (r = h ∧ (B + a + 1) % 2 = 1)) (hgte : gte = decide (r = h ∧ (B + a + 1) % 2 = 0))
    (hltm : ltm = decide (h < r)) (hgtm : gtm = decide (0 < r ∧ r < h))
    (N : Nat) (hN : N = B * 10 ^ k - (a * 10 ^ k + r))
    (hno : ¬ (B - firstR B a r h < 10 ^ 33 ∨ (B - firstR B a r h = 10 ^ 33 ∧ (gtm = true ∨ lte = true)))) :
    10 ^ (33 + k) ≤ N ∧ N < 10 ^ (34 + k) ∧ 10 ^ 33 ≤ N / 10 ^ k := by
  obtain ⟨ht, -⟩ := sub_adjust_gen .NearestEven false B a r h k hD hh hr hBx lte gte ltm gtm hlte hgte hltm hgtm N _ hN rfl
  have hq : ¬ N / 10 ^ k < 10 ^ 33 := fun hc => hno ((pass2_iff _ lte gte ltm gtm _ _ h hh ht).2 hc)
  have hp : 0 < 10 ^ k := Nat.pow_pos (by decide)
  refine ⟨?_, ?_, by omega⟩
  · rw [Nat.pow_add]
    exact (Nat.le_div_iff_mul_le hp).1 (by omega)
  · rw [Nat.pow_add, hN]
    exact lt_of_le_of_lt (Nat.sub_le _ _) (Nat.mul_lt_mul_of_pos_right hB2 hp)

/-- **WANTED 2 (i), the second pass for `k ≥ 2`**: if the code asks for a second pass (the exact difference is below `10^33`
units `10^k`) and at least two digits were being removed (`a < 10^32`), then at `k − 1` digits the exact difference has
exactly `34 + (k−1)` digits with leading part in `[9·10^33, 10^34)`: `finish_long'` applies with `k − 1`, the second rounded
difference `D2` lies in `[9·10^33, 10^34]` — so there is no third pass — and `D2 = 10^34` only by rounding up from `10^34 − 1` -/
theorem sub_pass2 (B a r k : Nat) (hk : 2 ≤ k) (hr : r < 10 ^ k) (hB1 : 10 ^ 33 ≤ B) (ha : a < 10 ^ 32)
    (N : Nat) (hN : N = B * 10 ^ k - (a * 10 ^ k + r)) (hyes : N / 10 ^ k < 10 ^ 33) :
    10 ^ (33 + (k - 1)) ≤ N ∧ N < 10 ^ (34 + (k - 1)) ∧ 9 * 10 ^ 33 ≤ N / 10 ^ (k - 1) ∧ N / 10 ^ (k - 1) < 10 ^ 34 ∧
    (∀ (D2 : Nat) (lte gte ltm gtm : Bool) (H : Nat), 0 < H →
      Truthful D2 lte gte ltm gtm (N / 10 ^ (k - 1)) (N % 10 ^ (k - 1)) H →
      9 * 10 ^ 33 ≤ D2 ∧ D2 ≤ 10 ^ 34 ∧ ¬ (D2 < 10 ^ 33 ∨ (D2 = 10 ^ 33 ∧ (gtm = true ∨ lte = true))) ∧
      (D2 = 10 ^ 34 → N / 10 ^ (k - 1) = 10 ^ 34 - 1 ∧ (lte = true ∨ gtm = true) ∧ gte = false ∧ ltm = false)) := by
  obtain ⟨j, rfl⟩ : ∃ j, k = j + 1 := ⟨k - 1, by omega⟩
  rw [Nat.add_sub_cancel]
  have hpj : 0 < 10 ^ j := Nat.pow_pos (by decide)
  have hp : 10 ^ (j + 1) = 10 * 10 ^ j := by rw [Nat.pow_succ]; ring
  -- upper bound: N < 10^33 · 10^k
  have hup : N < 10 ^ 33 * 10 ^ (j + 1) := (Nat.div_lt_iff_lt_mul (Nat.pow_pos (by decide))).1 hyes
  -- lower bound: N ≥ (10^33 − 10^32) · 10^k
  have hlo : 9 * 10 ^ 32 * 10 ^ (j + 1) ≤ N := by
    rw [hN]
    have h1 : 10 ^ 33 * 10 ^ (j + 1) ≤ B * 10 ^ (j + 1) := Nat.mul_le_mul_right _ hB1
    have h2 : (a + 1) * 10 ^ (j + 1) ≤ 10 ^ 32 * 10 ^ (j + 1) := Nat.mul_le_mul_right _ (by omega)
    have e1 : (a + 1) * 10 ^ (j + 1) = a * 10 ^ (j + 1) + 10 ^ (j + 1) := by ring
    have e2 : (10 : Nat) ^ 33 * 10 ^ (j + 1) = 9 * 10 ^ 32 * 10 ^ (j + 1) + 10 ^ 32 * 10 ^ (j + 1) := by ring
    omega
  have e3 : 9 * 10 ^ 32 * 10 ^ (j + 1) = 9 * 10 ^ 33 * 10 ^ j := by rw [hp]; ring
  have e4 : (10 : Nat) ^ 33 * 10 ^ (j + 1) = 10 ^ 34 * 10 ^ j := by rw [hp]; ring
  rw [e3] at hlo
  rw [e4] at hup
  have q1 : 9 * 10 ^ 33 ≤ N / 10 ^ j := (Nat.le_div_iff_mul_le hpj).2 hlo
  have q2 : N / 10 ^ j < 10 ^ 34 := (Nat.div_lt_iff_lt_mul hpj).2 hup
  refine ⟨?_, ?_, q1, q2, ?_⟩
  · rw [Nat.pow_add]; exact le_trans (Nat.mul_le_mul_right _ (by norm_num)) hlo
  · rw [Nat.pow_add]; exact hup
  · intro D2 lte gte ltm gtm H hH ht
    rcases truth_floor D2 lte gte ltm gtm _ _ H hH ht with ⟨a1, b1, c1⟩ | ⟨a1, b1, c1, d1⟩
    · subst a1; refine ⟨q1, by omega, by omega, by omega⟩
    · subst a1; refine ⟨by omega, by omega, by omega, fun h => ⟨by omega, b1, c1, d1⟩⟩

/-- **WANTED 2, the second pass for `k = 1`**: no digit is removed any more; the exact difference `10·B − cB` is below
`10^34` and is the result, with no flag -/
theorem finish_sub_pass2_exact (mode : Mode) (sA : Bool) (B cB : Nat) (eB : Int) (hcB : cB < 10 * B)
    (N : Nat) (hN : N = B * 10 ^ 1 - cB) (hyes : N / 10 ^ 1 < 10 ^ 33) (he : -6176 ≤ eB) (hx : eB ≤ 6111) :
    N = 10 * B - cB ∧ 0 < N ∧ N < 10 ^ 34 ∧ finish mode sA N 1 eB eB = (.fin sA N eB, 0) := by
  have e : N = 10 * B - cB := by rw [hN]; omega
  have h0 : 0 < N := by omega
  have h34 : N < 10 ^ 34 := by omega
  exact ⟨e, h0, h34, finish_at mode sA N eB h0 h34 he hx⟩


/-! ## 7. The text after the loop as a pure function, and the model as that function -/

/-- the correction by the rounding mode (bid128_add.rs "general correction from RN to RA, RM, RP, RZ"), on numbers:
`upB` ⇒ `Q + 1` (`10^34` becomes `10^33` one exponent higher); otherwise `dnB` ⇒ `Q − 1` (`10^33 − 1` becomes `10^34 − 1` one
exponent lower: "crossed into the lower decade") -/
def corrCE (m : RoundingMode) (sA : Bool) (Q : Nat) (E : Int) (lte gte ltm gtm : Bool) : Nat × Int :=
  if m ≠ .NearestEven ∧ upB (!sA) sA m ltm gte = true then (if Q + 1 = 10 ^ 34 then (10 ^ 33, E + 1) else (Q + 1, E))
  else if m ≠ .NearestEven ∧ dnB (!sA) sA m lte gtm = true then
    (if Q - 1 = 10 ^ 33 - 1 then (10 ^ 34 - 1, E - 1) else (Q - 1, E))
  else (Q, E)

/-- **the text after the loop** as a pure function: coefficient `Q` at exponent `E` with the position indicators and
`tmp_inexact`; the correction `corrCE`, then overflow above `eMax`, else the assembled result with the inexact flag.  (The
early exit of the same-sign path for nearest-even / nearest-away at `EXP_MAX_P1` returns the same value as the overflow
clause here, since those modes never decrement.) -/
def codeTail (m : RoundingMode) (sA : Bool) (Q : Nat) (E : Int) (lte gte ltm gtm ti : Bool) : Datum × Flags :=
  if (corrCE m sA Q E lte gte ltm gtm).2 > eMax then (overflowResult (md m) sA, fOverflow ||| fInexact)
  else (.fin sA (corrCE m sA Q E lte gte ltm gtm).1 (corrCE m sA Q E lte gte ltm gtm).2, if ti then fInexact else 0)

example : codeTail .TowardZero false (10 ^ 33) 5 false false false true true = (.fin false (10 ^ 34 - 1) 4, fInexact) := by
  decide

/-- `corrCE` when the corrected coefficient `T` stays inside the decade: the generic consequence of the four clauses of the
`adjust_ok` shape -/
theorem corrCE_of_adjust (m : RoundingMode) (sA : Bool) (Q T : Nat) (E : Int) (lte gte ltm gtm : Bool)
    (hT1 : 10 ^ 33 ≤ T) (hT2 : T < 10 ^ 34)
    (c1 : m = .NearestEven → Q = T)
    (c2 : m ≠ .NearestEven → upB (!sA) sA m ltm gte = true → Q + 1 = T)
    (c3 : m ≠ .NearestEven → upB (!sA) sA m ltm gte = false → dnB (!sA) sA m lte gtm = true → Q - 1 = T ∧ 1 ≤ Q)
    (c4 : m ≠ .NearestEven → upB (!sA) sA m ltm gte = false → dnB (!sA) sA m lte gtm = false → Q = T) :
    corrCE m sA Q E lte gte ltm gtm = (T, E) := by
  unfold corrCE
  by_cases hm : m = .NearestEven
  · rw [if_neg (fun h => h.1 hm), if_neg (fun h => h.1 hm), c1 hm]
  · by_cases hu : upB (!sA) sA m ltm gte = true
    · have := c2 hm hu
      rw [if_pos ⟨hm, hu⟩, if_neg (by omega), this]
    · have hu' : upB (!sA) sA m ltm gte = false := by simpa using hu
      rw [if_neg (fun h => hu h.2)]
      by_cases hd : dnB (!sA) sA m lte gtm = true
      · obtain ⟨e, _⟩ := c3 hm hu' hd
        rw [if_pos ⟨hm, hd⟩, if_neg (by omega), e]
      · have hd' : dnB (!sA) sA m lte gtm = false := by simpa using hd
        rw [if_neg (fun h => hd h.2), c4 hm hu' hd']

/-- **WANTED 1, complete**: same signs and a rounded sum `S = B + Rf ≥ 10^34`.  The model's result for the exact sum
`N = B·10^k + cB` is the text after the loop applied to the repaired quotient at exponent `eB + k + 1` with the repaired
indicators — in every mode, with overflow, including the edge `B + a = 10^34 − 1` where the final correction crosses back
into the lower decade -/
theorem add35_final (m : RoundingMode) (sA : Bool) (B a r h k : Nat) (eB : Int) (hD : 10 ^ k = 2 * h) (hk : 1 ≤ k)
    (hr : r < 2 * h) (hB2 : B < 10 ^ 34) (ha : a < 10 ^ 33) (lte gte ltm gtm : Bool)
    (hlte : lte = decide (r = h ∧ (B + a + 1) % 2 = 0)) (hgte : gte = decide (r = h ∧ (B + a + 1) % 2 = 1))
    (hltm : ltm = decide (0 < r ∧ r < h)) (hgtm : gtm = decide (h < r))
    (hS : 10 ^ 34 ≤ B + firstR B a r h) (he : -6176 ≤ eB) (hx : eB + k + 1 ≤ 6112)
    (R : Nat × Bool × Bool × Bool × Bool × Bool) (hR : R = repair35 (B + firstR B a r h) lte gte ltm gtm (decide (r ≠ 0)))
    (N : Nat) (hN : N = B * 10 ^ k + (a * 10 ^ k + r)) :
    finish (md m) sA N 1 eB eB = codeTail m sA R.1 (eB + k + 1) R.2.1 R.2.2.1 R.2.2.2.1 R.2.2.2.2.1 R.2.2.2.2.2 := by
  have hh : 0 < h := by
    rcases Nat.eq_zero_or_pos h with h0 | h0
    · subst h0; have := Nat.pow_pos (n := k) (show 0 < 10 by decide); omega
    · exact h0
  have hr' : r < 10 ^ k := by rw [hD]; exact hr
  rcases add35_cases B a r h hS with hmain | ⟨hBa, hrh⟩
  · -- the exact sum has 35 + k digits
    obtain ⟨hf, q1, q2⟩ := finish_add35 (md m) sA B a r k eB hk hr' hB2 ha hmain he hx N hN
    obtain ⟨tr, tti, t3⟩ := add35_truth B a r h k hD hh hr lte gte ltm gtm hlte hgte hltm hgtm R hR
    rw [← hN] at tr tti
    obtain ⟨c1, c2, c3, c4, -⟩ := add35_adjust m sA B a r h k hD hh hr lte gte ltm gtm hlte hgte hltm hgtm R hR N _ hN rfl
    generalize hq : N / 10 ^ (k + 1) = q at *
    generalize hρ : N % 10 ^ (k + 1) = ρ at *
    rw [hf]
    unfold codeTail
    by_cases ρ0 : ρ = 0
    · rw [if_pos ρ0] at c1 c2 c3 c4 ⊢
      rw [corrCE_of_adjust m sA R.1 q (eB + k + 1) _ _ _ _ q1 (by omega) c1 c2 c3 c4, tti]
      simp [ρ0]
    · rw [if_neg ρ0] at c1 c2 c3 c4 ⊢
      have hT : roundInt (md m) sA q ρ (10 ^ (k + 1)) < 10 ^ 34 := by unfold roundInt; split <;> omega
      have hT' : 10 ^ 33 ≤ roundInt (md m) sA q ρ (10 ^ (k + 1)) := by unfold roundInt; split <;> omega
      rw [corrCE_of_adjust m sA R.1 _ (eB + k + 1) _ _ _ _ hT' hT c1 c2 c3 c4, tti]
      simp [ρ0]
  · -- the edge
    obtain ⟨e1, e2, e3, e4, e5, e6⟩ := add35_edge m sA B a r h hh hr hBa hrh lte gte ltm gtm hlte hgte hltm hgtm
    have r0 : r ≠ 0 := by omega
    rw [finish_add35_edge (md m) sA B a r k eB hk hr' r0 hBa he (by omega) N hN, hR, e2, hD]
    unfold codeTail corrCE
    simp only [e3]
    by_cases hm : m = .NearestEven
    · rw [e4 hm]; simp [hm, P33]
    · by_cases hd : dnB (!sA) sA m false true = true
      · rw [e5 hm hd]
        have : ¬ (10 ^ 34 - 1 = P34) := by unfold P34; decide
        simp [hm, hd, this]
        unfold eMax; omega
      · have hd' : dnB (!sA) sA m false true = false := by simpa using hd
        rw [e6 hm hd']; simp [hm, hd', P33]


/-- with no indicator of the kind `upB` looks at, nothing is added -/
theorem upB_ff (m : RoundingMode) (sA : Bool) : upB (!sA) sA m false false = false := by
  unfold upB; cases m <;> cases sA <;> rfl
/-- with no indicator of the kind `dnB` looks at, nothing is subtracted -/
theorem dnB_ff (m : RoundingMode) (sA : Bool) : dnB (!sA) sA m false false = false := by
  unfold dnB; cases m <;> cases sA <;> rfl

/-- `codeTail` once the correction is known and stays in range -/
theorem codeTail_eq (m : RoundingMode) (sA : Bool) (Q : Nat) (E : Int) (lte gte ltm gtm ti : Bool) (C' : Nat) (E' : Int)
    (h : corrCE m sA Q E lte gte ltm gtm = (C', E')) (hE' : E' ≤ eMax) :
    codeTail m sA Q E lte gte ltm gtm ti = (.fin sA C' E', if ti then fInexact else 0) := by
  unfold codeTail; rw [h]; exact if_neg (by omega)

/-- **the text after the loop on a truthful rounding of 34 digits** (`10^33 ≤ q < 10^34`): with the code's replacement of
`10^34` by `10^33` one exponent higher (opposite signs: "if C1 = 10^34"), `codeTail` is the model's rounding of
`q + ρ/(2H)` at exponent `E` in every mode, carry to `10^34` included (no overflow: `E + 1 ≤ eMax`) -/
theorem codeTail_round (m : RoundingMode) (sA : Bool) (D2 : Nat) (lte gte ltm gtm : Bool) (q ρ H : Nat) (E : Int) (ti : Bool)
    (hH : 0 < H) (hρ : ρ < 2 * H) (ht : Truthful D2 lte gte ltm gtm q ρ H) (hq1 : 10 ^ 33 ≤ q) (hq2 : q < 10 ^ 34)
    (hE : E + 1 ≤ eMax) (hti : ti = decide (ρ ≠ 0)) :
    codeTail m sA (if D2 = 10 ^ 34 then 10 ^ 33 else D2) (if D2 = 10 ^ 34 then E + 1 else E) lte gte ltm gtm ti =
      if ρ = 0 then (.fin sA q E, 0)
      else if roundInt (md m) sA q ρ (2 * H) = P34 then (.fin sA P33 (E + 1), fInexact)
      else (.fin sA (roundInt (md m) sA q ρ (2 * H)) E, fInexact) := by
  obtain ⟨c1, c2, c3, c4⟩ := truth_adjust m sA D2 lte gte ltm gtm q ρ H hH hρ ht _ rfl
  have hfl := truth_floor D2 lte gte ltm gtm q ρ H hH ht
  subst hti
  by_cases ρ0 : ρ = 0
  · obtain ⟨rfl, rfl, rfl, rfl, rfl⟩ := ht.1 ρ0
    have hD : ¬ D2 = 10 ^ 34 := by omega
    rw [if_pos ρ0, if_neg hD, if_neg hD]
    have : corrCE m sA D2 E false false false false = (D2, E) := by
      unfold corrCE; rw [upB_ff, dnB_ff]; simp
    rw [codeTail_eq m sA D2 E _ _ _ _ _ D2 E this (by omega)]
    simp [ρ0]
  · rw [if_neg ρ0] at c1 c2 c3 c4 ⊢
    have hti : (if decide (ρ ≠ 0) = true then fInexact else (0 : Flags)) = fInexact := by simp [ρ0]
    have hTq : roundInt (md m) sA q ρ (2 * H) = q ∨ roundInt (md m) sA q ρ (2 * H) = q + 1 := by
      unfold roundInt; split <;> simp
    generalize roundInt (md m) sA q ρ (2 * H) = T at *
    by_cases hD : D2 = 10 ^ 34
    · -- the code replaces 10^34 by 10^33 at the next exponent
      rw [if_pos hD, if_pos hD]
      rcases hfl with ⟨a1, _, _⟩ | ⟨a1, b1, g0, l0⟩
      · omega
      · subst g0 l0
        have hq : q = 10 ^ 34 - 1 := by omega
        by_cases hm : m = .NearestEven
        · have hT : T = P34 := by rw [← c1 hm, hD]; rfl
          have : corrCE m sA (10 ^ 33) (E + 1) lte false false gtm = (10 ^ 33, E + 1) := by
            unfold corrCE; simp [hm]
          rw [if_pos hT, codeTail_eq m sA _ _ _ _ _ _ _ _ _ this hE, hti]; rfl
        · by_cases hd : dnB (!sA) sA m lte gtm = true
          · have hT := (c3 hm (upB_ff m sA) hd).1
            have hne : ¬ T = P34 := by unfold P34; omega
            have : corrCE m sA (10 ^ 33) (E + 1) lte false false gtm = (10 ^ 34 - 1, E) := by
              unfold corrCE; rw [upB_ff]; simp [hm, hd]
            rw [if_neg hne, codeTail_eq m sA _ _ _ _ _ _ _ _ _ this (by omega), hti]
            congr 2; omega
          · have hd' : dnB (!sA) sA m lte gtm = false := by simpa using hd
            have hT : T = P34 := by rw [← c4 hm (upB_ff m sA) hd', hD]; rfl
            have : corrCE m sA (10 ^ 33) (E + 1) lte false false gtm = (10 ^ 33, E + 1) := by
              unfold corrCE; rw [upB_ff]; simp [hm, hd']
            rw [if_pos hT, codeTail_eq m sA _ _ _ _ _ _ _ _ _ this hE, hti]; rfl
    · rw [if_neg hD, if_neg hD]
      have hD2 : D2 < 10 ^ 34 := by rcases hfl with ⟨a1, _, _⟩ | ⟨a1, _, _, _⟩ <;> omega
      by_cases hT : T = P34
      · -- the carry can only come from `upB`
        rw [if_pos hT]
        unfold P34 at hT
        have hm : m ≠ .NearestEven := fun h => by have := c1 h; omega
        have hu : upB (!sA) sA m ltm gte = true := by
          by_contra hu
          have hu' : upB (!sA) sA m ltm gte = false := by simpa using hu
          by_cases hd : dnB (!sA) sA m lte gtm = true
          · have := (c3 hm hu' hd).1; omega
          · have := c4 hm hu' (by simpa using hd); omega
        have h1 := c2 hm hu
        have : corrCE m sA D2 E lte gte ltm gtm = (10 ^ 33, E + 1) := by
          unfold corrCE; rw [if_pos ⟨hm, hu⟩, if_pos (by omega)]
        rw [codeTail_eq m sA _ _ _ _ _ _ _ _ _ this hE, hti]; rfl
      · rw [if_neg hT]
        unfold P34 at hT
        have := corrCE_of_adjust m sA D2 T E lte gte ltm gtm (by omega) (by omega) c1 c2 c3 c4
        rw [codeTail_eq m sA _ _ _ _ _ _ _ _ _ this (by omega), hti]


/-- **WANTED 2, complete, no second pass**: opposite signs, the code keeps the first turn.  The model's result for the exact
difference `N = B·10^k − cB` is the text after the loop applied to `B − Rf` at exponent `eB + k` with the indicators of the
first rounding -/
theorem sub_final1 (m : RoundingMode) (sA : Bool) (B a r h k : Nat) (eB : Int) (hD : 10 ^ k = 2 * h) (hk : 1 ≤ k)
    (hr : r < 2 * h) (hB2 : B < 10 ^ 34) (hBx : a + 1 ≤ B) (lte gte ltm gtm : Bool)
    (hlte : lte = decide (r = h ∧ (B + a + 1) % 2 = 1)) (hgte : gte = decide (r = h ∧ (B + a + 1) % 2 = 0))
    (hltm : ltm = decide (h < r)) (hgtm : gtm = decide (0 < r ∧ r < h))
    (N : Nat) (hN : N = B * 10 ^ k - (a * 10 ^ k + r))
    (hno : ¬ (B - firstR B a r h < 10 ^ 33 ∨ (B - firstR B a r h = 10 ^ 33 ∧ (gtm = true ∨ lte = true))))
    (he : -6176 ≤ eB) (hx : eB + k + 1 ≤ eMax) :
    finish (md m) sA N 1 eB eB = codeTail m sA (B - firstR B a r h) (eB + k) lte gte ltm gtm (decide (r ≠ 0)) := by
  have hh : 0 < h := by
    rcases Nat.eq_zero_or_pos h with h0 | h0
    · subst h0; have := Nat.pow_pos (n := k) (show 0 < 10 by decide); omega
    · exact h0
  obtain ⟨ht, -, -, -, -, hti⟩ :=
    sub_adjust_gen m sA B a r h k hD hh hr hBx lte gte ltm gtm hlte hgte hltm hgtm N _ hN rfl
  obtain ⟨n1, n2, q1⟩ := sub_nopass B a r h k hD hh hr hB2 hBx lte gte ltm gtm hlte hgte hltm hgtm N hN hno
  have hp : 0 < 10 ^ k := Nat.pow_pos (by decide)
  have q2 : N / 10 ^ k < 10 ^ 34 := by
    rw [Nat.div_lt_iff_lt_mul hp, ← Nat.pow_add]; exact n2
  have hρ : N % 10 ^ k < 2 * h := by rw [← hD]; exact Nat.mod_lt _ hp
  have hD1 : ¬ B - firstR B a r h = 10 ^ 34 := by omega
  have hx' : eB + k ≤ 6112 := by unfold eMax at hx; omega
  have := codeTail_round m sA (B - firstR B a r h) lte gte ltm gtm _ _ h (eB + k) (decide (r ≠ 0)) hh hρ ht q1 q2 hx hti
  rw [if_neg hD1, if_neg hD1] at this
  rw [this, finish_long' (md m) sA N eB k n1 n2 hk he hx', hD]
  unfold eMax at hx
  have g1 : ¬ eB + k > eMax := by unfold eMax; omega
  have g2 : ¬ eB + k + 1 > eMax := by unfold eMax; omega
  simp only [g1, g2, if_false]

/-- **WANTED 2, complete, the second pass with `k ≥ 2`**: opposite signs, the code redoes the turn with `k − 1` digits
(`cB = a'·10^(k−1) + r'`, minuend `10·B`, fresh indicators), replaces a rounded `10^34` by `10^33` one exponent higher,
and there is no third pass.  The model's result is the text after the loop on that -/
theorem sub_final2 (m : RoundingMode) (sA : Bool) (B a r h k a' r' h' : Nat) (eB : Int) (hD : 10 ^ k = 2 * h) (hk : 2 ≤ k)
    (hr : r < 2 * h) (hB1 : 10 ^ 33 ≤ B) (hB2 : B < 10 ^ 34) (ha : a < 10 ^ 32)
    (lte gte ltm gtm : Bool)
    (hlte : lte = decide (r = h ∧ (B + a + 1) % 2 = 1)) (hgte : gte = decide (r = h ∧ (B + a + 1) % 2 = 0))
    (hltm : ltm = decide (h < r)) (hgtm : gtm = decide (0 < r ∧ r < h))
    (N : Nat) (hN : N = B * 10 ^ k - (a * 10 ^ k + r))
    (hyes : B - firstR B a r h < 10 ^ 33 ∨ (B - firstR B a r h = 10 ^ 33 ∧ (gtm = true ∨ lte = true)))
    (hD' : 10 ^ (k - 1) = 2 * h') (hr' : r' < 2 * h') (hcB : a * 10 ^ k + r = a' * 10 ^ (k - 1) + r')
    (lte' gte' ltm' gtm' : Bool)
    (hlte' : lte' = decide (r' = h' ∧ (10 * B + a' + 1) % 2 = 1)) (hgte' : gte' = decide (r' = h' ∧ (10 * B + a' + 1) % 2 = 0))
    (hltm' : ltm' = decide (h' < r')) (hgtm' : gtm' = decide (0 < r' ∧ r' < h'))
    (D2 : Nat) (hD2 : D2 = 10 * B - firstR (10 * B) a' r' h')
    (he : -6176 ≤ eB) (hx : eB + k ≤ eMax) :
    finish (md m) sA N 1 eB eB =
      codeTail m sA (if D2 = 10 ^ 34 then 10 ^ 33 else D2) (if D2 = 10 ^ 34 then eB + (k - 1 : Nat) + 1 else eB + (k - 1 : Nat))
        lte' gte' ltm' gtm' (decide (r' ≠ 0)) ∧
    9 * 10 ^ 33 ≤ D2 ∧ D2 ≤ 10 ^ 34 ∧ ¬ (D2 < 10 ^ 33 ∨ (D2 = 10 ^ 33 ∧ (gtm' = true ∨ lte' = true))) := by
  have hpos : ∀ (x j : Nat), 10 ^ j = 2 * x → 0 < x := by
    intro x j hj
    rcases Nat.eq_zero_or_pos x with h0 | h0
    · subst h0; have := Nat.pow_pos (n := j) (show 0 < 10 by decide); omega
    · exact h0
  have hh := hpos h k hD
  have hh' := hpos h' (k - 1) hD'
  obtain ⟨j, rfl⟩ : ∃ j, k = j + 1 := ⟨k - 1, by omega⟩
  rw [Nat.add_sub_cancel] at hD' hcB ⊢
  have hpj : 0 < 10 ^ j := Nat.pow_pos (by decide)
  have hpk : 10 ^ (j + 1) = 10 * 10 ^ j := by rw [Nat.pow_succ]; ring
  -- the first turn: the test means the exact difference is below 10^33 units
  obtain ⟨ht1, -⟩ := sub_adjust_gen m sA B a r h (j + 1) hD hh hr (by omega) lte gte ltm gtm hlte hgte hltm hgtm N _ hN rfl
  have hy := (pass2_iff _ lte gte ltm gtm _ _ h hh ht1).1 hyes
  obtain ⟨n1, n2, q1, q2, hall⟩ := sub_pass2 B a r (j + 1) hk (by rw [hD]; exact hr) hB1 ha N hN hy
  rw [Nat.add_sub_cancel] at n1 n2 q1 q2 hall
  -- the second turn
  have ha' : a' + 1 ≤ 10 * B := by
    have h1 : a' * 10 ^ j ≤ a * 10 ^ (j + 1) + r := by rw [hcB]; omega
    have h2 : a * 10 ^ (j + 1) + r < (a + 1) * 10 ^ (j + 1) := by
      have : (a + 1) * 10 ^ (j + 1) = a * 10 ^ (j + 1) + 10 ^ (j + 1) := by ring
      rw [hD] at this ⊢; omega
    have h3 : (a + 1) * 10 ^ (j + 1) ≤ 10 ^ 32 * 10 ^ (j + 1) := Nat.mul_le_mul_right _ (by omega)
    have h4 : (10 : Nat) ^ 32 * 10 ^ (j + 1) = 10 ^ 33 * 10 ^ j := by rw [hpk]; ring
    have h5 : a' * 10 ^ j < 10 ^ 33 * 10 ^ j := by omega
    have := Nat.lt_of_mul_lt_mul_right h5
    omega
  have hN' : N = 10 * B * 10 ^ j - (a' * 10 ^ j + r') := by
    rw [hN, hcB, hpk]; congr 1; ring
  obtain ⟨ht2, -, -, -, -, hti⟩ :=
    sub_adjust_gen m sA (10 * B) a' r' h' j hD' hh' hr' ha' lte' gte' ltm' gtm' hlte' hgte' hltm' hgtm' N _ hN' rfl
  rw [← hD2] at ht2
  obtain ⟨d1, d2, d3, d4⟩ := hall D2 lte' gte' ltm' gtm' h' hh' ht2
  refine ⟨?_, d1, d2, d3⟩
  have hρ : N % 10 ^ j < 2 * h' := by rw [← hD']; exact Nat.mod_lt _ hpj
  have hj1 : 1 ≤ j := by omega
  have hx1 : eB + (j : Int) + 1 ≤ eMax := by push_cast at hx; omega
  rw [codeTail_round m sA D2 lte' gte' ltm' gtm' _ _ h' (eB + j) (decide (r' ≠ 0)) hh' hρ ht2 (by omega) q2 hx1 hti,
    finish_long' (md m) sA N eB j n1 n2 hj1 he (by unfold eMax at hx1; omega), hD']
  have g1 : ¬ eB + (j : Int) > eMax := by omega
  have g2 : ¬ eB + (j : Int) + 1 > eMax := by omega
  simp only [g1, g2, if_false]

/-- **WANTED 2, complete, the second pass with `k = 1`**: nothing is rounded any more; the text after the loop with all
indicators false returns the exact difference -/
theorem sub_final_exact (m : RoundingMode) (sA : Bool) (B cB : Nat) (eB : Int) (hcB : cB < 10 * B)
    (N : Nat) (hN : N = B * 10 ^ 1 - cB) (hyes : N / 10 ^ 1 < 10 ^ 33) (he : -6176 ≤ eB) (hx : eB ≤ 6111) :
    finish (md m) sA N 1 eB eB = codeTail m sA (10 * B - cB) eB false false false false false := by
  obtain ⟨e, h0, h34, hf⟩ := finish_sub_pass2_exact (md m) sA B cB eB hcB N hN hyes he hx
  have : corrCE m sA (10 * B - cB) eB false false false false = (10 * B - cB, eB) := by
    unfold corrCE; rw [upB_ff, dnB_ff]; simp
  rw [codeTail_eq m sA _ _ _ _ _ _ _ _ _ this (by unfold eMax; omega), hf, e]
  simp


/-- `codeTail` once the correction is known -/
theorem codeTail_of (m : RoundingMode) (sA : Bool) (Q : Nat) (E : Int) (lte gte ltm gtm ti : Bool) (C' : Nat) (E' : Int)
    (h : corrCE m sA Q E lte gte ltm gtm = (C', E')) :
    codeTail m sA Q E lte gte ltm gtm ti =
      if E' > eMax then (overflowResult (md m) sA, fOverflow ||| fInexact) else (.fin sA C' E', if ti then fInexact else 0) := by
  unfold codeTail; rw [h]

/-- **`codeTail_round` with overflow**: as `codeTail_round`, any exponent; the right-hand side is that of `finish_long'` -/
theorem codeTail_round' (m : RoundingMode) (sA : Bool) (D2 : Nat) (lte gte ltm gtm : Bool) (q ρ H : Nat) (E : Int) (ti : Bool)
    (hH : 0 < H) (hρ : ρ < 2 * H) (ht : Truthful D2 lte gte ltm gtm q ρ H) (hq1 : 10 ^ 33 ≤ q) (hq2 : q < 10 ^ 34)
    (hti : ti = decide (ρ ≠ 0)) :
    codeTail m sA (if D2 = 10 ^ 34 then 10 ^ 33 else D2) (if D2 = 10 ^ 34 then E + 1 else E) lte gte ltm gtm ti =
      if ρ = 0 then (if E > eMax then (overflowResult (md m) sA, fOverflow ||| fInexact) else (.fin sA q E, 0))
      else if roundInt (md m) sA q ρ (2 * H) = P34 then
        (if E + 1 > eMax then (overflowResult (md m) sA, fOverflow ||| fInexact) else (.fin sA P33 (E + 1), fInexact))
      else (if E > eMax then (overflowResult (md m) sA, fOverflow ||| fInexact)
        else (.fin sA (roundInt (md m) sA q ρ (2 * H)) E, fInexact)) := by
  obtain ⟨c1, c2, c3, c4⟩ := truth_adjust m sA D2 lte gte ltm gtm q ρ H hH hρ ht _ rfl
  have hfl := truth_floor D2 lte gte ltm gtm q ρ H hH ht
  subst hti
  by_cases ρ0 : ρ = 0
  · obtain ⟨rfl, rfl, rfl, rfl, rfl⟩ := ht.1 ρ0
    have hD : ¬ D2 = 10 ^ 34 := by omega
    rw [if_pos ρ0, if_neg hD, if_neg hD]
    have : corrCE m sA D2 E false false false false = (D2, E) := by
      unfold corrCE; rw [upB_ff, dnB_ff]; simp
    rw [codeTail_of m sA D2 E _ _ _ _ _ D2 E this]
    simp [ρ0]
  · rw [if_neg ρ0] at c1 c2 c3 c4 ⊢
    have hti : (if decide (ρ ≠ 0) = true then fInexact else (0 : Flags)) = fInexact := by simp [ρ0]
    have hTq : roundInt (md m) sA q ρ (2 * H) = q ∨ roundInt (md m) sA q ρ (2 * H) = q + 1 := by
      unfold roundInt; split <;> simp
    generalize roundInt (md m) sA q ρ (2 * H) = T at *
    by_cases hD : D2 = 10 ^ 34
    · rw [if_pos hD, if_pos hD]
      rcases hfl with ⟨a1, _, _⟩ | ⟨a1, b1, g0, l0⟩
      · omega
      · subst g0 l0
        have hq : q = 10 ^ 34 - 1 := by omega
        by_cases hm : m = .NearestEven
        · have hT : T = P34 := by rw [← c1 hm, hD]; rfl
          have : corrCE m sA (10 ^ 33) (E + 1) lte false false gtm = (10 ^ 33, E + 1) := by
            unfold corrCE; simp [hm]
          rw [if_pos hT, codeTail_of m sA _ _ _ _ _ _ _ _ _ this, hti]; rfl
        · by_cases hd : dnB (!sA) sA m lte gtm = true
          · have hT := (c3 hm (upB_ff m sA) hd).1
            have hne : ¬ T = P34 := by unfold P34; omega
            have : corrCE m sA (10 ^ 33) (E + 1) lte false false gtm = (10 ^ 34 - 1, E) := by
              unfold corrCE; rw [upB_ff]; simp [hm, hd]
            rw [if_neg hne, codeTail_of m sA _ _ _ _ _ _ _ _ _ this, hti]
            have : T = 10 ^ 34 - 1 := by omega
            rw [this]
          · have hd' : dnB (!sA) sA m lte gtm = false := by simpa using hd
            have hT : T = P34 := by rw [← c4 hm (upB_ff m sA) hd', hD]; rfl
            have : corrCE m sA (10 ^ 33) (E + 1) lte false false gtm = (10 ^ 33, E + 1) := by
              unfold corrCE; rw [upB_ff]; simp [hm, hd']
            rw [if_pos hT, codeTail_of m sA _ _ _ _ _ _ _ _ _ this, hti]; rfl
    · rw [if_neg hD, if_neg hD]
      have hD2 : D2 < 10 ^ 34 := by rcases hfl with ⟨a1, _, _⟩ | ⟨a1, _, _, _⟩ <;> omega
      by_cases hT : T = P34
      · rw [if_pos hT]
        unfold P34 at hT
        have hm : m ≠ .NearestEven := fun h => by have := c1 h; omega
        have hu : upB (!sA) sA m ltm gte = true := by
          by_contra hu
          have hu' : upB (!sA) sA m ltm gte = false := by simpa using hu
          by_cases hd : dnB (!sA) sA m lte gtm = true
          · have := (c3 hm hu' hd).1; omega
          · have := c4 hm hu' (by simpa using hd); omega
        have h1 := c2 hm hu
        have : corrCE m sA D2 E lte gte ltm gtm = (10 ^ 33, E + 1) := by
          unfold corrCE; rw [if_pos ⟨hm, hu⟩, if_pos (by omega)]
        rw [codeTail_of m sA _ _ _ _ _ _ _ _ _ this, hti]; rfl
      · rw [if_neg hT]
        unfold P34 at hT
        have := corrCE_of_adjust m sA D2 T E lte gte ltm gtm (by omega) (by omega) c1 c2 c3 c4
        rw [codeTail_of m sA _ _ _ _ _ _ _ _ _ this, hti]

/-- **same signs, one turn, any case below 35 digits** (`S = B + Rf < 10^34`; this includes the boundary
`B + a = 10^34 − 1` rounded down, where the final correction may carry to `10^34`): the model's result is the text after the
loop on `(S, eB + k)` with the indicators of the first rounding, overflow included -/
theorem add1_final (m : RoundingMode) (sA : Bool) (B a r h k : Nat) (eB : Int) (hD : 10 ^ k = 2 * h) (hk : 1 ≤ k)
    (hr : r < 2 * h) (hB1 : 10 ^ 33 ≤ B) (lte gte ltm gtm : Bool)
    (hlte : lte = decide (r = h ∧ (B + a + 1) % 2 = 0)) (hgte : gte = decide (r = h ∧ (B + a + 1) % 2 = 1))
    (hltm : ltm = decide (0 < r ∧ r < h)) (hgtm : gtm = decide (h < r))
    (hS : B + firstR B a r h < 10 ^ 34) (he : -6176 ≤ eB) (hx : eB + k ≤ 6112)
    (N : Nat) (hN : N = B * 10 ^ k + (a * 10 ^ k + r)) :
    finish (md m) sA N 1 eB eB = codeTail m sA (B + firstR B a r h) (eB + k) lte gte ltm gtm (decide (r ≠ 0)) := by
  have hh : 0 < h := by
    rcases Nat.eq_zero_or_pos h with h0 | h0
    · subst h0; have := Nat.pow_pos (n := k) (show 0 < 10 by decide); omega
    · exact h0
  have hp : 0 < 10 ^ k := Nat.pow_pos (by decide)
  have ht := first_truth_add B a r h hh hr lte gte ltm gtm hlte hgte hltm hgtm
  have hBa : B + a < 10 ^ 34 := by
    have : a ≤ firstR B a r h := by unfold firstR; split <;> (try split) <;> omega
    omega
  have hN' : N = (B + a) * 10 ^ k + r := by rw [hN]; ring
  obtain ⟨d1, d2⟩ := divmod_add (B + a) k r (by rw [hD]; exact hr)
  rw [← hN'] at d1 d2
  have hN1 : 10 ^ (33 + k) ≤ N := by
    rw [hN', Nat.pow_add]
    exact le_trans (Nat.mul_le_mul_right _ (by omega)) (Nat.le_add_right _ _)
  have hN2 : N < 10 ^ (34 + k) := by
    rw [hN', Nat.pow_add]
    have : (B + a + 1) * 10 ^ k ≤ 10 ^ 34 * 10 ^ k := Nat.mul_le_mul_right _ (by omega)
    have e : (B + a + 1) * 10 ^ k = (B + a) * 10 ^ k + 10 ^ k := by ring
    rw [hD] at *; omega
  have hne : ¬ B + firstR B a r h = 10 ^ 34 := by omega
  have := codeTail_round' m sA (B + firstR B a r h) lte gte ltm gtm (B + a) r h (eB + k) (decide (r ≠ 0)) hh hr ht
    (by omega) hBa rfl
  rw [if_neg hne, if_neg hne] at this
  rw [this, finish_long' (md m) sA N eB k hN1 hN2 hk he hx, d1, d2, hD]


/-- **`sub_final1` for any exponent** (`eB + k ≤ 6112`, in particular `eB + k = eMax`): both sides carry the same overflow
clauses (`codeTail_round'`), so no hypothesis excluding a carry is needed -/
theorem sub_final1' (m : RoundingMode) (sA : Bool) (B a r h k : Nat) (eB : Int) (hD : 10 ^ k = 2 * h) (hk : 1 ≤ k)
    (hr : r < 2 * h) (hB2 : B < 10 ^ 34) (hBx : a + 1 ≤ B) (lte gte ltm gtm : Bool)
    (hlte : lte = decide (r = h ∧ (B + a + 1) % 2 = 1)) (hgte : gte = decide (r = h ∧ (B + a + 1) % 2 = 0))
    (hltm : ltm = decide (h < r)) (hgtm : gtm = decide (0 < r ∧ r < h))
    (N : Nat) (hN : N = B * 10 ^ k - (a * 10 ^ k + r))
    (hno : ¬ (B - firstR B a r h < 10 ^ 33 ∨ (B - firstR B a r h = 10 ^ 33 ∧ (gtm = true ∨ lte = true))))
    (he : -6176 ≤ eB) (hx : eB + k ≤ 6112) :
    finish (md m) sA N 1 eB eB = codeTail m sA (B - firstR B a r h) (eB + k) lte gte ltm gtm (decide (r ≠ 0)) := by
  have hh : 0 < h := by
    rcases Nat.eq_zero_or_pos h with h0 | h0
    · subst h0; have := Nat.pow_pos (n := k) (show 0 < 10 by decide); omega
    · exact h0
  obtain ⟨ht, -, -, -, -, hti⟩ :=
    sub_adjust_gen m sA B a r h k hD hh hr hBx lte gte ltm gtm hlte hgte hltm hgtm N _ hN rfl
  obtain ⟨n1, n2, q1⟩ := sub_nopass B a r h k hD hh hr hB2 hBx lte gte ltm gtm hlte hgte hltm hgtm N hN hno
  have hp : 0 < 10 ^ k := Nat.pow_pos (by decide)
  have q2 : N / 10 ^ k < 10 ^ 34 := by
    rw [Nat.div_lt_iff_lt_mul hp, ← Nat.pow_add]; exact n2
  have hρ : N % 10 ^ k < 2 * h := by rw [← hD]; exact Nat.mod_lt _ hp
  have hD1 : ¬ B - firstR B a r h = 10 ^ 34 := by omega
  have := codeTail_round' m sA (B - firstR B a r h) lte gte ltm gtm _ _ h (eB + k) (decide (r ≠ 0)) hh hρ ht q1 q2 hti
  rw [if_neg hD1, if_neg hD1] at this
  rw [this, finish_long' (md m) sA N eB k n1 n2 hk he hx, hD]

end Dec.C01GenAddLoopMath
