/-
  C19 (round trip) — converting a decimal128 between the BID and the DPD encoding and back changes
  nothing: `fromDpd (toDpd b) = canon b` for every pattern `b` (so `= b` for canonical `b`), and
  `toDpd (fromDpd w) = w` for every canonical DPD word `w`.  Both conversions are total functions by
  construction; `fromDpd` always produces a canonical BID pattern and `toDpd` a canonical DPD word,
  so they are mutually inverse bijections between the canonical BID patterns and the canonical DPD
  words.

  Structure: `dpdDatum w` is the datum a DPD word denotes and `dpdOf d` the DPD word of a datum;
  `fromDpd = encode ∘ dpdDatum` and `toDpd = dpdOf ∘ decode` hold by unfolding, and the work is
  `dpdDatum (dpdOf d) = d` (well-formed `d`) and `dpdOf (dpdDatum w) = w` (canonical `w`).
  The declet tables themselves are checked exhaustively in `DecProofs.Properties.C19`.
-/
import DecProofs.Core.Codec
import DecProofs.Properties.C19
namespace Dec.C19RoundTrip
open Dec.C19

/-- The datum a DPD word denotes -/
def dpdDatum (w : Nat) : Datum :=
  let s := (w / 2^127) % 2 == 1
  let comb5 := (w / 2^122) % 32
  let t := undeclets 11 (w % 2^110)
  if comb5 = 30 then .inf s
  else if comb5 = 31 then .nan s ((w / 2^121) % 2 == 1) t
  else
    let (d0, etop) : Nat × Nat := if comb5 ≥ 24 then (8 + comb5 % 2, (comb5 / 2) % 4) else (comb5 % 8, comb5 / 8)
    let E : Nat := etop * 4096 + (w / 2^110) % 4096
    .fin s (d0 * P33 + t) ((E : Int) - 6176)

theorem fromDpd_eq (w : Nat) : fromDpd w = encode (dpdDatum w) := by
  unfold fromDpd dpdDatum
  dsimp only
  split
  · rfl
  · split <;> rfl

/-- The DPD word of a datum -/
def dpdOf : Datum → Nat
  | .inf s => signBit s + 0x78 * 2^120
  | .nan s sig p => signBit s + 0x7c * 2^120 + (if sig then 2^121 else 0) + declets 11 p
  | .fin s c e =>
    let E := (e + 6176).toNat
    let d0 := c / P33
    let comb5 := if d0 ≥ 8 then 24 + (E / 4096) * 2 + (d0 % 2) else (E / 4096) * 8 + d0
    signBit s + comb5 * 2^122 + (E % 4096) * 2^110 + declets 11 (c % P33)

theorem toDpd_eq (b : Nat) : toDpd b = dpdOf (decode b) := by
  unfold toDpd dpdOf
  cases decode b <;> rfl

theorem dpdDatum_inf (w : Nat) (h : (w / 2^122) % 32 = 30) : dpdDatum w = .inf ((w / 2^127) % 2 == 1) := by
  unfold dpdDatum; simp [h]

theorem dpdDatum_nan (w : Nat) (h : (w / 2^122) % 32 = 31) :
    dpdDatum w = .nan ((w / 2^127) % 2 == 1) ((w / 2^121) % 2 == 1) (undeclets 11 (w % 2^110)) := by
  unfold dpdDatum; simp [h]

theorem dpdDatum_hi (w : Nat) (h : 24 ≤ (w / 2^122) % 32) (h2 : (w / 2^122) % 32 < 30) :
    dpdDatum w = .fin ((w / 2^127) % 2 == 1) ((8 + (w / 2^122) % 32 % 2) * P33 + undeclets 11 (w % 2^110))
      (((((w / 2^122) % 32 / 2) % 4 * 4096 + (w / 2^110) % 4096 : Nat) : Int) - 6176) := by
  unfold dpdDatum
  have h30 : (w / 2^122) % 32 ≠ 30 := by omega
  have h31 : (w / 2^122) % 32 ≠ 31 := by omega
  simp [h, h30, h31]

theorem dpdDatum_lo (w : Nat) (h : (w / 2^122) % 32 < 24) :
    dpdDatum w = .fin ((w / 2^127) % 2 == 1) (((w / 2^122) % 32 % 8) * P33 + undeclets 11 (w % 2^110))
      (((((w / 2^122) % 32 / 8) * 4096 + (w / 2^110) % 4096 : Nat) : Int) - 6176) := by
  unfold dpdDatum
  have h30 : (w / 2^122) % 32 ≠ 30 := by omega
  have h31 : (w / 2^122) % 32 ≠ 31 := by omega
  have h24 : ¬ (24 ≤ (w / 2^122) % 32) := by omega
  simp [h24, h30, h31]


/-! ### declet strings -/

theorem declets_lt (k n : Nat) : declets k n < 1024 ^ k := by
  induction k generalizing n with
  | zero => simp [declets]
  | succ k ih =>
    have h2 := declEnc_lt' (n % 1000) (Nat.mod_lt _ (by decide))
    have h3 := ih (n / 1000)
    simp only [declets, Nat.pow_succ]
    generalize 1024 ^ k = M at h3 ⊢
    omega

theorem undeclets_lt (k w : Nat) : undeclets k w < 1000 ^ k := by
  induction k generalizing w with
  | zero => simp [undeclets]
  | succ k ih =>
    have h2 := declet_total ⟨w % 1024, Nat.mod_lt _ (by decide)⟩
    have h3 := ih (w / 1024)
    simp only [undeclets, Nat.pow_succ]
    simp only at h2
    generalize 1000 ^ k = M at h3 ⊢
    omega

/-- all of the low `k` declets of `w` are canonical (not one of the 24 redundant patterns) -/
def decletsCanon : Nat → Nat → Prop
  | 0, _ => True
  | k+1, w => declEnc (declDec (w % 1024)) = w % 1024 ∧ decletsCanon k (w / 1024)

theorem declets_undeclets (k w : Nat) (h : decletsCanon k w) :
    declets k (undeclets k w) = w % 1024 ^ k := by
  induction k generalizing w with
  | zero => simp [declets, Nat.mod_one]
  | succ k ih =>
    obtain ⟨h1, h2⟩ := h
    have h3 := declet_total ⟨w % 1024, Nat.mod_lt _ (by decide)⟩
    simp only at h3
    simp only [undeclets, declets]
    rw [Nat.add_mul_mod_self_left, Nat.mod_eq_of_lt h3, h1]
    rw [Nat.add_mul_div_left _ _ (by decide : 0 < 1000), Nat.div_eq_of_lt h3, Nat.zero_add, ih _ h2]
    rw [Nat.pow_succ, Nat.mul_comm (1024 ^ k) 1024, Nat.mod_mul]

theorem pow1024 : (1024 : Nat) ^ 11 = 2 ^ 110 := by decide
theorem pow1000 : (1000 : Nat) ^ 11 = P33 := by decide


theorem declets11_lt (n : Nat) : declets 11 n < 2^110 := by
  have := declets_lt 11 n; rwa [pow1024] at this

theorem undeclets11_lt (w : Nat) : undeclets 11 w < P33 := by
  have := undeclets_lt 11 w; rwa [pow1000] at this

theorem undeclets11_declets (p : Nat) (h : p < P33) : undeclets 11 (declets 11 p) = p := by
  rw [undeclets_declets, pow1000, Nat.mod_eq_of_lt h]

/-! ### datum → DPD word → datum -/

theorem dpdDatum_dpdOf_inf (s : Bool) : dpdDatum (dpdOf (.inf s)) = .inf s := by
  have h : ∀ s, (dpdOf (.inf s) / 2^122) % 32 = 30 := by decide
  rw [dpdDatum_inf _ (h s)]
  cases s <;> decide

theorem dpdDatum_dpdOf_nan (neg sig : Bool) (p : Nat) (hp : p < P33) :
    dpdDatum (dpdOf (.nan neg sig p)) = .nan neg sig p := by
  have hD := declets11_lt p
  have hU := undeclets11_declets p hp
  generalize hDe : declets 11 p = D at hD hU
  generalize hw : dpdOf (.nan neg sig p) = w
  have hw' : w = (if neg then 1 else 0) * 2^127 + 0x7c * 2^120 + (if sig then 1 else 0) * 2^121 + D := by
    rw [← hw, dpdOf, signBit, hDe]; cases neg <;> cases sig <;> simp
  generalize hs : (if neg then 1 else 0 : Nat) = s at hw'
  generalize hq : (if sig then 1 else 0 : Nat) = q at hw'
  have hs2 : s < 2 := by cases neg <;> simp at hs <;> omega
  have hq2 : q < 2 := by cases sig <;> simp at hq <;> omega
  simp only [Nat.reducePow] at hw' hD
  rw [dpdDatum_nan w (by simp only [Nat.reducePow]; omega)]
  simp only [Nat.reducePow]
  have e1 : w / 170141183460469231731687303715884105728 % 2 = s := by omega
  have e2 : w % 1298074214633706907132624082305024 = D := by omega
  have e3 : w / 2658455991569831745807614120560689152 % 2 = q := by omega
  rw [e1, e2, e3, hU, beq_one_of_eq s neg hs.symm, beq_one_of_eq q sig hq.symm]


theorem dpdDatum_dpdOf_fin (neg : Bool) (c : Nat) (e : Int) (h : (Datum.fin neg c e).WF) :
    dpdDatum (dpdOf (.fin neg c e)) = .fin neg c e := by
  obtain ⟨hc, h1, h2⟩ := h
  simp only [P34, eMin, eMax] at hc h1 h2
  generalize hE : (e + 6176).toNat = E
  have hE' : e = (E : Int) - 6176 := by omega
  have hEl : E < 12288 := by omega
  have hD := declets11_lt (c % P33)
  have hU := undeclets11_declets (c % P33) (Nat.mod_lt _ (by decide))
  generalize hDe : declets 11 (c % P33) = D at hD hU
  generalize hw : dpdOf (.fin neg c e) = w
  have hd0 : c / P33 < 10 := by simp only [P33]; omega
  have hcs : c = (c / P33) * P33 + c % P33 := by simp only [P33]; omega
  generalize hd : c / P33 = d0 at hd0 hcs
  generalize ht : c % P33 = t at hU hcs hDe
  generalize hs : (if neg then 1 else 0 : Nat) = s
  have hs2 : s < 2 := by cases neg <;> simp at hs <;> omega
  have hsb : signBit neg = s * 2^127 := by rw [← hs, signBit]; cases neg <;> simp
  by_cases h8 : d0 ≥ 8
  · have hw' : w = s * 2^127 + (24 + (E / 4096) * 2 + d0 % 2) * 2^122 + (E % 4096) * 2^110 + D := by
      rw [← hw, dpdOf]; simp only [hE, hd, ht, hDe, h8, if_true, hsb]
    have e0 : (w / 2^122) % 32 = 24 + (E / 4096) * 2 + d0 % 2 := by omega
    rw [dpdDatum_hi w (by omega) (by omega)]
    have e1 : w / 2^127 % 2 = s := by omega
    have e2 : w % 2^110 = D := by omega
    have e4 : (w / 2^110) % 4096 = E % 4096 := by omega
    have a1 : 8 + (24 + E / 4096 * 2 + d0 % 2) % 2 = d0 := by omega
    have a2 : (24 + E / 4096 * 2 + d0 % 2) / 2 % 4 * 4096 + E % 4096 = E := by omega
    rw [e0, e1, e2, e4, hU, beq_one_of_eq s neg hs.symm, a1, a2, ← hcs, hE']
  · have hw' : w = s * 2^127 + ((E / 4096) * 8 + d0) * 2^122 + (E % 4096) * 2^110 + D := by
      rw [← hw, dpdOf]; simp only [hE, hd, ht, hDe, h8, if_false, hsb]
    have e0 : (w / 2^122) % 32 = (E / 4096) * 8 + d0 := by omega
    rw [dpdDatum_lo w (by omega)]
    have e1 : w / 2^127 % 2 = s := by omega
    have e2 : w % 2^110 = D := by omega
    have e4 : (w / 2^110) % 4096 = E % 4096 := by omega
    have a1 : (E / 4096 * 8 + d0) % 8 = d0 := by omega
    have a2 : (E / 4096 * 8 + d0) / 8 * 4096 + E % 4096 = E := by omega
    rw [e0, e1, e2, e4, hU, beq_one_of_eq s neg hs.symm, a1, a2, ← hcs, hE']


theorem dpdDatum_dpdOf {d : Datum} (h : d.WF) : dpdDatum (dpdOf d) = d := by
  cases d with
  | fin s c e => exact dpdDatum_dpdOf_fin s c e h
  | inf s => exact dpdDatum_dpdOf_inf s
  | nan s g p => exact dpdDatum_dpdOf_nan s g p h

/-! ### DPD word → datum → DPD word -/

instance decletsCanon.dec : (k w : Nat) → Decidable (decletsCanon k w)
  | 0, _ => isTrue trivial
  | k+1, w => @instDecidableAnd _ _ _ (decletsCanon.dec k (w / 1024))

/-- Canonical DPD words: 128 bits; an infinity has bits 121..0 clear; a NaN has the reserved bits
120..110 clear; and none of the 11 declets of a NaN or finite number is one of the 24 redundant
(non-canonical) declet patterns. -/
def DpdCanonical (w : Nat) : Prop :=
  w < 2^128 ∧
  (if (w / 2^122) % 32 = 30 then w % 2^122 = 0
   else if (w / 2^122) % 32 = 31 then (w / 2^110) % 2^11 = 0 ∧ decletsCanon 11 (w % 2^110)
   else decletsCanon 11 (w % 2^110))

instance (w : Nat) : Decidable (DpdCanonical w) := by unfold DpdCanonical; infer_instance

theorem dpdDatum_WF (w : Nat) : (dpdDatum w).WF := by
  have ht := undeclets11_lt (w % 2^110)
  by_cases h30 : (w / 2^122) % 32 = 30
  · rw [dpdDatum_inf w h30]; trivial
  · by_cases h31 : (w / 2^122) % 32 = 31
    · rw [dpdDatum_nan w h31]; exact ht
    · by_cases h24 : 24 ≤ (w / 2^122) % 32
      · rw [dpdDatum_hi w h24 (by omega)]
        generalize undeclets 11 (w % 2^110) = t at ht
        simp only [Datum.WF, P33, P34, eMin, eMax] at ht ⊢
        omega
      · rw [dpdDatum_lo w (by omega)]
        generalize undeclets 11 (w % 2^110) = t at ht
        simp only [Datum.WF, P33, P34, eMin, eMax] at ht ⊢
        omega

theorem dpdOf_fin_hi (s : Bool) (d0 t E : Nat) (hd0 : 8 ≤ d0) (ht : t < P33) :
    dpdOf (.fin s (d0 * P33 + t) ((E : Int) - 6176)) =
      signBit s + (24 + E / 4096 * 2 + d0 % 2) * 2^122 + (E % 4096) * 2^110 + declets 11 t := by
  have h1 : (d0 * P33 + t) / P33 = d0 := by
    rw [Nat.mul_comm, Nat.mul_add_div (by decide), Nat.div_eq_of_lt ht, Nat.add_zero]
  have h2 : (d0 * P33 + t) % P33 = t := by
    rw [Nat.mul_comm, Nat.mul_add_mod, Nat.mod_eq_of_lt ht]
  have h3 : ((E : Int) - 6176 + 6176).toNat = E := by omega
  simp only [dpdOf, h1, h2, h3, ge_iff_le, hd0, if_true]

theorem dpdOf_fin_lo (s : Bool) (d0 t E : Nat) (hd0 : d0 < 8) (ht : t < P33) :
    dpdOf (.fin s (d0 * P33 + t) ((E : Int) - 6176)) =
      signBit s + (E / 4096 * 8 + d0) * 2^122 + (E % 4096) * 2^110 + declets 11 t := by
  have h1 : (d0 * P33 + t) / P33 = d0 := by
    rw [Nat.mul_comm, Nat.mul_add_div (by decide), Nat.div_eq_of_lt ht, Nat.add_zero]
  have h2 : (d0 * P33 + t) % P33 = t := by
    rw [Nat.mul_comm, Nat.mul_add_mod, Nat.mod_eq_of_lt ht]
  have h3 : ((E : Int) - 6176 + 6176).toNat = E := by omega
  have h4 : ¬ (8 ≤ d0) := by omega
  simp only [dpdOf, h1, h2, h3, ge_iff_le, h4, if_false]

theorem dpdOf_dpdDatum {w : Nat} (h : DpdCanonical w) : dpdOf (dpdDatum w) = w := by
  obtain ⟨hw, hc⟩ := h
  have ht := undeclets11_lt (w % 2^110)
  by_cases h30 : (w / 2^122) % 32 = 30
  · rw [if_pos h30] at hc
    rw [dpdDatum_inf w h30, dpdOf, signBit_beq]
    omega
  · rw [if_neg h30] at hc
    by_cases h31 : (w / 2^122) % 32 = 31
    · rw [if_pos h31] at hc
      rw [dpdDatum_nan w h31, dpdOf, signBit_beq, sigBit_beq, declets_undeclets 11 _ hc.2, pow1024]
      have := hc.1
      omega
    · rw [if_neg h31] at hc
      have hdu := declets_undeclets 11 _ hc
      rw [pow1024] at hdu
      by_cases h24 : 24 ≤ (w / 2^122) % 32
      · rw [dpdDatum_hi w h24 (by omega), dpdOf_fin_hi _ _ _ _ (by omega) ht, signBit_beq, hdu]
        omega
      · rw [dpdDatum_lo w (by omega), dpdOf_fin_lo _ _ _ _ (by omega) ht, signBit_beq, hdu]
        omega


/-! ### the image of `dpdOf` consists of canonical DPD words -/

theorem decletsCanon_declets (k n : Nat) : decletsCanon k (declets k n) := by
  induction k generalizing n with
  | zero => trivial
  | succ k ih =>
    have h1 : n % 1000 < 1000 := Nat.mod_lt _ (by decide)
    have h2 := declEnc_lt' (n % 1000) h1
    simp only [decletsCanon, declets]
    rw [Nat.add_mul_mod_self_left, Nat.mod_eq_of_lt h2, declDec_declEnc _ h1,
      Nat.add_mul_div_left _ _ (by decide : 0 < 1024), Nat.div_eq_of_lt h2, Nat.zero_add]
    exact ⟨rfl, ih _⟩

theorem dpdCanonical_dpdOf_inf (s : Bool) : DpdCanonical (dpdOf (.inf s)) := by
  cases s <;> decide

theorem dpdCanonical_dpdOf_nan (neg sig : Bool) (p : Nat) : DpdCanonical (dpdOf (.nan neg sig p)) := by
  have hD := declets11_lt p
  have hC := decletsCanon_declets 11 p
  generalize hDe : declets 11 p = D at hD hC
  generalize hw : dpdOf (.nan neg sig p) = w
  have hw' : w = (if neg then 1 else 0) * 2^127 + 0x7c * 2^120 + (if sig then 1 else 0) * 2^121 + D := by
    rw [← hw, dpdOf, signBit, hDe]; cases neg <;> cases sig <;> simp
  generalize hs : (if neg then 1 else 0 : Nat) = s at hw'
  generalize hq : (if sig then 1 else 0 : Nat) = q at hw'
  have hs2 : s < 2 := by cases neg <;> simp at hs <;> omega
  have hq2 : q < 2 := by cases sig <;> simp at hq <;> omega
  have e0 : (w / 2^122) % 32 = 31 := by omega
  have e2 : w % 2^110 = D := by omega
  refine ⟨by omega, ?_⟩
  rw [if_neg (by omega), if_pos e0, e2]
  exact ⟨by omega, hC⟩

theorem dpdCanonical_dpdOf_fin (neg : Bool) (c : Nat) (e : Int) (h : (Datum.fin neg c e).WF) :
    DpdCanonical (dpdOf (.fin neg c e)) := by
  obtain ⟨hc, h1, h2⟩ := h
  simp only [P34, eMin, eMax] at hc h1 h2
  generalize hE : (e + 6176).toNat = E
  have hEl : E < 12288 := by omega
  have hD := declets11_lt (c % P33)
  have hC := decletsCanon_declets 11 (c % P33)
  generalize hDe : declets 11 (c % P33) = D at hD hC
  generalize hw : dpdOf (.fin neg c e) = w
  have hd0 : c / P33 < 10 := by simp only [P33]; omega
  generalize hd : c / P33 = d0 at hd0
  generalize hs : (if neg then 1 else 0 : Nat) = s
  have hs2 : s < 2 := by cases neg <;> simp at hs <;> omega
  have hsb : signBit neg = s * 2^127 := by rw [← hs, signBit]; cases neg <;> simp
  by_cases h8 : d0 ≥ 8
  · have hw' : w = s * 2^127 + (24 + (E / 4096) * 2 + d0 % 2) * 2^122 + (E % 4096) * 2^110 + D := by
      rw [← hw, dpdOf]; simp only [hE, hd, hDe, h8, if_true, hsb]
    have e0 : (w / 2^122) % 32 = 24 + (E / 4096) * 2 + d0 % 2 := by omega
    have e2 : w % 2^110 = D := by omega
    refine ⟨by omega, ?_⟩
    rw [if_neg (by omega), if_neg (by omega), e2]
    exact hC
  · have hw' : w = s * 2^127 + ((E / 4096) * 8 + d0) * 2^122 + (E % 4096) * 2^110 + D := by
      rw [← hw, dpdOf]; simp only [hE, hd, hDe, h8, if_false, hsb]
    have e0 : (w / 2^122) % 32 = (E / 4096) * 8 + d0 := by omega
    have e2 : w % 2^110 = D := by omega
    refine ⟨by omega, ?_⟩
    rw [if_neg (by omega), if_neg (by omega), e2]
    exact hC

theorem dpdCanonical_dpdOf {d : Datum} (h : d.WF) : DpdCanonical (dpdOf d) := by
  cases d with
  | fin s c e => exact dpdCanonical_dpdOf_fin s c e h
  | inf s => exact dpdCanonical_dpdOf_inf s
  | nan s g p => exact dpdCanonical_dpdOf_nan s g p


/-! ### Property-level statements -/

/-- `toDpd` produces a 128-bit word, whatever the input. -/
theorem toDpd_lt (b : Nat) : toDpd b < 2^128 := by
  rw [toDpd_eq]; exact (dpdCanonical_dpdOf (decode_WF b)).1

/-- … and in fact a canonical DPD word (no redundant declet, no junk bits). -/
theorem toDpd_canonical (b : Nat) : DpdCanonical (toDpd b) := by
  rw [toDpd_eq]; exact dpdCanonical_dpdOf (decode_WF b)

/-- BID → DPD does not change the datum: the DPD word denotes exactly what the BID pattern did. -/
theorem dpdDatum_toDpd (b : Nat) : dpdDatum (toDpd b) = decode b := by
  rw [toDpd_eq]; exact dpdDatum_dpdOf (decode_WF b)

/-- DPD → BID does not change the datum: the BID result decodes to what the DPD word denoted
(every DPD word, canonical or not, 128 bits or not). -/
theorem decode_fromDpd (w : Nat) : decode (fromDpd w) = dpdDatum w := by
  rw [fromDpd_eq]; exact decode_encode (dpdDatum_WF w)

/-- BID → DPD → BID returns the canonical form of the pattern we started from — for *every* pattern
(all 2^128 of them; the hypothesis `b < 2^128` of the informal statement is not even needed). -/
theorem fromDpd_toDpd (b : Nat) : fromDpd (toDpd b) = canon b := by
  rw [fromDpd_eq, dpdDatum_toDpd]; rfl

/-- BID → DPD → BID is the identity on canonical BID patterns. -/
theorem fromDpd_toDpd_of_canonical {b : Nat} (h : isCanonical b = true) : fromDpd (toDpd b) = b := by
  rw [fromDpd_toDpd]; exact ((isCanonical_iff b).1 h).2

/-- DPD → BID → DPD is the identity on canonical DPD words. -/
theorem toDpd_fromDpd {w : Nat} (h : DpdCanonical w) : toDpd (fromDpd w) = w := by
  rw [toDpd_eq, decode_fromDpd]; exact dpdOf_dpdDatum h

/-- DPD → BID → DPD of an arbitrary word is the canonical word of the same datum, and doing the
round trip twice changes nothing more. -/
theorem toDpd_fromDpd_idem (w : Nat) : toDpd (fromDpd (toDpd (fromDpd w))) = toDpd (fromDpd w) :=
  toDpd_fromDpd (toDpd_canonical _)

/-- `fromDpd` is total and always yields a canonical BID pattern (for any input at all). -/
theorem fromDpd_canonical (w : Nat) : isCanonical (fromDpd w) = true := by
  rw [fromDpd_eq]; exact isCanonical_encode (dpdDatum_WF w)

/-- The two conversions are inverse bijections between canonical BID patterns and canonical DPD
words: injectivity of `toDpd` on canonical patterns. -/
theorem toDpd_injective {a b : Nat} (ha : isCanonical a = true) (hb : isCanonical b = true)
    (h : toDpd a = toDpd b) : a = b := by
  rw [← fromDpd_toDpd_of_canonical ha, ← fromDpd_toDpd_of_canonical hb, h]

/-! ### Non-vacuity -/

-- the largest finite number 9.99…9E+6144 and its DPD word, both ways
example : toDpd 0x5FFFED09BEAD87C0378D8E63FFFFFFFF = 0x77FFCFF3FCFF3FCFF3FCFF3FCFF3FCFF := by decide +kernel
example : fromDpd 0x77FFCFF3FCFF3FCFF3FCFF3FCFF3FCFF = 0x5FFFED09BEAD87C0378D8E63FFFFFFFF := by decide +kernel
example : isCanonical 0x5FFFED09BEAD87C0378D8E63FFFFFFFF = true := by decide +kernel
example : DpdCanonical 0x77FFCFF3FCFF3FCFF3FCFF3FCFF3FCFF := by decide +kernel
-- −1024 (BID) is −"1 024" (two declets) in DPD; a signalling NaN with payload 291
example : toDpd 0xB0400000000000000000000000000400 = 0xA2080000000000000000000000000424 := by decide +kernel
example : toDpd 0xFE000000000000000000000000000123 = 0xFE00000000000000000000000000011B := by decide +kernel
-- a non-canonical BID pattern (large-coefficient form) comes back as its canonical form, not itself
example : fromDpd (toDpd 0x6c000000000000000000000000000005) = 0x30000000000000000000000000000000 := by decide +kernel
-- the canonicity hypothesis of `toDpd_fromDpd` is needed: declet 0x16E is a redundant spelling of 888
example : ¬ DpdCanonical 0x2208000000000000000000000000016E := by decide +kernel
example : toDpd (fromDpd 0x2208000000000000000000000000016E) = 0x2208000000000000000000000000006E := by decide +kernel

end Dec.C19RoundTrip
