/-
  C02GenFmaZ (part O: Case (1''B), `10^33` at the least exponent) — see C02GenFmaZ.lean
-/
import DecProofs.Properties.C02GenFmaZM
set_option linter.unusedSimpArgs false
set_option linter.unusedVariables false
set_option linter.unusedTactic false
set_option linter.unreachableTactic false
set_option linter.unnecessarySeqFocus false
namespace Dec.C02GenFmaZ
open Dec Dec.Rs Dec.Gen.Code Dec.C03GenCompare Dec.C02GenCorrection
open Dec.C08GenRoundIntegral (bind_ok' ite_true_bool ite_false_bool i32_add i32_sub i32_neg)
open Dec.C01GenAdd (lt113)

/-! ## 19. Case (1''B), `10^33` at the least exponent -/


/-- `10^33` at the least exponent, opposite signs, the product above half a unit: nearest-even is `10^33 − 1` -/
theorem deliv_min_gt (s : Bool) (c4 : Nat) (E4 : Int) (hE : E4 ≤ -6176)
    (hc4 : c4 < 10 ^ (-6176 - E4).toNat) (hgt : 10 ^ (-6176 - E4).toNat < 2 * c4) :
    Deliv s (P33 * 10 ^ (-6176 - E4).toNat - c4) E4 (-6176) (P33 - 1) true false false false := by
  have hD : 0 < 10 ^ (-6176 - E4).toNat := Nat.pow_pos (by decide)
  obtain ⟨D, hDd⟩ : ∃ D, D = 10 ^ (-6176 - E4).toNat := ⟨_, rfl⟩
  rw [← hDd] at hD hc4 hgt ⊢
  have e3 : ∀ a : Nat, 2 * a * D = 2 * (a * D) := fun a => Nat.mul_assoc _ _ _
  have e1 : (P33 - 1) * D = P33 * D - D := by rw [Nat.sub_mul, Nat.one_mul]
  have hcD : D ≤ P33 * D := Nat.le_mul_of_pos_left D (by decide)
  have e33 : 10 ^ 33 * D = P33 * D := by rw [Dec.C13PackHelpers.P33_eq']
  have e34 : 10 ^ 34 * D = 10 * (P33 * D) := by
    rw [Dec.C13PackHelpers.P33_eq', ← Nat.mul_assoc]; rfl
  have hmod : (P33 * D - c4) % D = D - c4 := by
    have : P33 * D - c4 = (P33 - 1) * D + (D - c4) := by rw [e1]; omega
    rw [this, Nat.mul_comm, Nat.mul_add_mod, Nat.mod_eq_of_lt (by omega)]
  have hinex : (P33 * D - c4) % D ≠ 0 := by rw [hmod]; omega
  clear hmod
  refine ⟨hE, by decide, by decide, ?_, ?_, ?_, ?_, ?_, by decide, ?_, ?_, by rw [← hDd]; exact hinex, ?_, ?_⟩
  all_goals clear hinex
  all_goals try rw [← hDd]
  all_goals try rw [e1]
  · simp only [RoundedInt, e3, e1]; refine ⟨by omega, fun ht => by omega⟩
  · rw [eq_comm, decide_eq_true_eq]; omega
  · rw [eq_comm, decide_eq_false_iff_not]; omega
  · rw [eq_comm, decide_eq_false_iff_not]; omega
  · rw [eq_comm, decide_eq_false_iff_not]; omega
  · intro h; exact absurd h (by decide)
  · intro h; omega
  · rw [e34]; omega
  · left; rfl

/-- `10^33` at the least exponent, opposite signs, the product exactly half a unit: a tie, nearest-even stays at `10^33` -/
theorem deliv_min_eq (s : Bool) (c4 : Nat) (E4 : Int) (hE : E4 ≤ -6176)
    (heq : 2 * c4 = 10 ^ (-6176 - E4).toNat) :
    Deliv s (P33 * 10 ^ (-6176 - E4).toNat - c4) E4 (-6176) P33 false false true false := by
  have hD : 0 < 10 ^ (-6176 - E4).toNat := Nat.pow_pos (by decide)
  obtain ⟨D, hDd⟩ : ∃ D, D = 10 ^ (-6176 - E4).toNat := ⟨_, rfl⟩
  rw [← hDd] at hD heq ⊢
  have e3 : ∀ a : Nat, 2 * a * D = 2 * (a * D) := fun a => Nat.mul_assoc _ _ _
  have e1 : (P33 - 1) * D = P33 * D - D := by rw [Nat.sub_mul, Nat.one_mul]
  have hcD : D ≤ P33 * D := Nat.le_mul_of_pos_left D (by decide)
  have e33 : 10 ^ 33 * D = P33 * D := by rw [Dec.C13PackHelpers.P33_eq']
  have e34 : 10 ^ 34 * D = 10 * (P33 * D) := by
    rw [Dec.C13PackHelpers.P33_eq', ← Nat.mul_assoc]; rfl
  have hmod : (P33 * D - c4) % D = D - c4 := by
    have : P33 * D - c4 = (P33 - 1) * D + (D - c4) := by rw [e1]; omega
    rw [this, Nat.mul_comm, Nat.mul_add_mod, Nat.mod_eq_of_lt (by omega)]
  have hinex : (P33 * D - c4) % D ≠ 0 := by rw [hmod]; omega
  clear hmod
  refine ⟨hE, by decide, by decide, ?_, ?_, ?_, ?_, ?_, by decide, ?_, ?_, by rw [← hDd]; exact hinex, ?_, ?_⟩
  all_goals clear hinex
  all_goals try rw [← hDd]
  · simp only [RoundedInt, e3]; refine ⟨by omega, fun _ => by decide⟩
  · rw [eq_comm, decide_eq_false_iff_not]; omega
  · rw [eq_comm, decide_eq_false_iff_not]; omega
  · rw [eq_comm, decide_eq_true_eq]; omega
  · rw [eq_comm, decide_eq_false_iff_not]; omega
  · intro h; exact absurd h (by decide)
  · intro _ _; rfl
  · rw [e34]; omega
  · left; rfl


/-- a tiny delivery through the correction, underflow already raised: the flags with inexact are `finish`'s -/
theorem Deliv.corr_tiny {s : Bool} {N : Nat} {E4 ef : Int} {cf : Nat} {L G ML MG : Bool} (h : Deliv s N E4 ef cf L G ML MG)
    (ht : N < 10 ^ 33 * 10 ^ (ef - E4).toNat) (m : RoundingMode) (hm : m ≠ .NearestEven) (e : Int32) (res : U128)
    (pfpsf : UInt32) (pref : Int) (hs : negW res.w1.toNat = s) (hc : sigW res.w1.toNat res.w0.toNat = (deliver cf ef).1)
    (he : e.toInt = (deliver cf ef).2) :
    ∃ fl, bid_rounding_correction m L G ML MG e res (pfpsf ||| c_StatusFlags_BID_UNDERFLOW_EXCEPTION) =
        .ok (ofBits (encode (finish (modeOf m) s N 1 E4 pref).1), fl) ∧
      fl ||| c_StatusFlags_BID_INEXACT_EXCEPTION = pfpsf ||| UInt32.ofNat (finish (modeOf m) s N 1 E4 pref).2 := by
  obtain ⟨uf, ov, hcode, hfl, huf, hov⟩ := h.corrected m hm e res (pfpsf ||| c_StatusFlags_BID_UNDERFLOW_EXCEPTION) pref hs hc he
  have hov' : ov = false := by cases ov; rfl; exact absurd ht (hov rfl)
  subst hov'
  rw [if_neg (by decide), if_pos ht] at hfl
  refine ⟨_, hcode, ?_⟩
  rw [hfl]
  cases uf <;> simp only [outF, if_true, if_false, Bool.false_eq_true, UInt32.or_assoc] <;> congr 1

theorem z2PowM_eval {α : Type} (m : RoundingMode) (pfpsf : UInt32) (res : U128) (z_sign z_exp : UInt64) (e3 : Int32)
    (lt eq gt : Bool) (k : U128 → UInt64 → UInt32 → Bool → Bool → Bool → Bool → Except String α) :
    z2PowM m pfpsf res z_sign z_exp e3 false false false false lt eq gt k =
      if (m != RoundingMode.NearestEven) = true then
        (bid_rounding_correction m (!eq && !lt) (!eq && lt) eq false e3
          ⟨if gt = true then 0x38c15b09ffffffff else 0x38c15b0a00000000,
            (0x314dc6448d93 : UInt64) ||| (z_sign ||| (z_exp &&& c_MASK_EXP))⟩
          (pfpsf ||| c_StatusFlags_BID_UNDERFLOW_EXCEPTION)).bind fun t =>
          k t.1 (t.1.w1 &&& c_MASK_EXP) t.2 eq false (!eq && !lt) (!eq && lt)
      else
        k ⟨if gt = true then 0x38c15b09ffffffff else 0x38c15b0a00000000,
            (0x314dc6448d93 : UInt64) ||| (z_sign ||| (z_exp &&& c_MASK_EXP))⟩ z_exp
          (pfpsf ||| c_StatusFlags_BID_UNDERFLOW_EXCEPTION) eq false (!eq && !lt) (!eq && lt) := by
  cases lt <;> cases eq <;> cases gt <;>
    simp only [z2PowM, bind, pure, Except.pure, bind_ok', if_true, if_false, Bool.false_eq_true, Bool.not_true, Bool.not_false,
      Bool.and_true, Bool.and_false, Bool.true_and, Bool.false_and]


/-- the tail of the `10^33` branch after the least-exponent sub-case -/
abbrev minK (pml pmg pil pig : Bool) (z_sign : UInt64) :
    U128 → UInt64 → UInt32 → Bool → Bool → Bool → Bool → Except String (U128 × Bool × Bool × Bool × Bool × UInt32) :=
  z2PowF (fun res z_exp pfpsf ml mg il ig => z2Fin pml pmg pil pig pfpsf res z_sign z_exp ml mg il ig)

/-- **Case (1''B), `10^33` at the least exponent**: tiny and inexact; `10^33` or `10^33 − 1` -/
theorem z2PowM_spec (pml pmg pil pig : Bool) (m : RoundingMode) (pfpsf : UInt32) (res : U128) (z_sign zx : UInt64) (e3 : Int32)
    (sz : Bool) (c4 : Nat) (E4 pref : Int) (hE : E4 ≤ -6176) (h40 : 0 < c4) (hc4 : c4 < 10 ^ (-6176 - E4).toNat)
    (he : e3.toInt = -6176) (hzx : zx.toNat = 0) (hzs : z_sign.toNat = if sz then 2^63 else 0) :
    ∃ ml mg il ig : Bool,
      z2PowM m pfpsf res z_sign zx e3 false false false false (decide (2 * c4 < 10 ^ (-6176 - E4).toNat))
          (decide (2 * c4 = 10 ^ (-6176 - E4).toNat)) (decide (10 ^ (-6176 - E4).toNat < 2 * c4)) (minK pml pmg pil pig z_sign) =
        .ok (ofBits (encode (finish (modeOf m) sz (P33 * 10 ^ (-6176 - E4).toNat - c4) 1 E4 pref).1), ml, mg, il, ig,
          pfpsf ||| UInt32.ofNat (finish (modeOf m) sz (P33 * 10 ^ (-6176 - E4).toNat - c4) 1 E4 pref).2) := by
  have e33 : P33 = 1000000000000000000000000000000000 := rfl
  -- the three classes: a delivery with the code's indicators and its coefficient word
  obtain ⟨cf, lo, hdl, hlo, hcf⟩ : ∃ (cf : Nat) (lo : UInt64),
      Deliv sz (P33 * 10 ^ (-6176 - E4).toNat - c4) E4 (-6176) cf
        (!decide (2 * c4 = 10 ^ (-6176 - E4).toNat) && !decide (2 * c4 < 10 ^ (-6176 - E4).toNat))
        (!decide (2 * c4 = 10 ^ (-6176 - E4).toNat) && decide (2 * c4 < 10 ^ (-6176 - E4).toNat))
        (decide (2 * c4 = 10 ^ (-6176 - E4).toNat)) false ∧
      (if decide (10 ^ (-6176 - E4).toNat < 2 * c4) = true then (0x38c15b09ffffffff : UInt64) else 0x38c15b0a00000000) = lo ∧
      (0x314dc6448d93 : UInt64).toNat * 2^64 + lo.toNat = cf ∧ cf ≤ P33 := by
    by_cases hgt : 10 ^ (-6176 - E4).toNat < 2 * c4
    · refine ⟨P33 - 1, 0x38c15b09ffffffff, ?_, by rw [if_pos (by simpa using hgt)], ⟨by rw [e33]; rfl, by omega⟩⟩
      have := deliv_min_gt sz c4 E4 hE hc4 hgt
      rw [show decide (2 * c4 = 10 ^ (-6176 - E4).toNat) = false from by simpa using (by omega),
        show decide (2 * c4 < 10 ^ (-6176 - E4).toNat) = false from by simpa using (by omega)]
      exact this
    · by_cases heq : 2 * c4 = 10 ^ (-6176 - E4).toNat
      · refine ⟨P33, 0x38c15b0a00000000, ?_, by rw [if_neg (by simpa using hgt)], ⟨by rw [e33]; rfl, le_refl _⟩⟩
        have := deliv_min_eq sz c4 E4 hE heq
        rw [show decide (2 * c4 = 10 ^ (-6176 - E4).toNat) = true from by simpa using heq]
        exact this
      · refine ⟨P33, 0x38c15b0a00000000, ?_, by rw [if_neg (by simpa using hgt)], ⟨by rw [e33]; rfl, le_refl _⟩⟩
        have hlt : 2 * c4 < 10 ^ (-6176 - E4).toNat := by omega
        have := deliv_sub sz P33 c4 E4 (-6176) hE (by decide) (by decide) h40 hlt (by decide) (by decide) (Or.inl rfl)
        rw [show decide (2 * c4 = 10 ^ (-6176 - E4).toNat) = false from by simpa using heq,
          show decide (2 * c4 < 10 ^ (-6176 - E4).toNat) = true from by simpa using hlt]
        exact this
  obtain ⟨hword, hcfle⟩ := hcf
  have e34 : P34 = 10000000000000000000000000000000000 := rfl
  have hnd : deliver cf (-6176) = (cf, -6176) := by unfold deliver; rw [if_neg (by omega)]
  have ht : P33 * 10 ^ (-6176 - E4).toNat - c4 < 10 ^ 33 * 10 ^ (-6176 - E4).toNat := by
    rw [← Dec.C13PackHelpers.P33_eq']
    have : 0 < P33 * 10 ^ (-6176 - E4).toNat := Nat.mul_pos (by decide) (Nat.pow_pos (by decide))
    omega
  have hN0 : 0 < P33 * 10 ^ (-6176 - E4).toNat - c4 := by
    have : 10 ^ (-6176 - E4).toNat ≤ P33 * 10 ^ (-6176 - E4).toNat := Nat.le_mul_of_pos_left _ (by decide)
    omega
  have hcd : cf < 2^113 := by omega
  obtain ⟨f1, f2, f3⟩ := packed_facts lo 0x314dc6448d93 z_sign zx sz cf (-6176) hword hcd hzs (fun _ => by rw [hzx]; rfl) (by decide)
  refine ⟨decide (2 * c4 = 10 ^ (-6176 - E4).toNat), false,
    (!decide (2 * c4 = 10 ^ (-6176 - E4).toNat) && !decide (2 * c4 < 10 ^ (-6176 - E4).toNat)),
    (!decide (2 * c4 = 10 ^ (-6176 - E4).toNat) && decide (2 * c4 < 10 ^ (-6176 - E4).toNat)), ?_⟩
  rw [z2PowM_eval, hlo]
  have hany := hdl.any
  by_cases hm : m = .NearestEven
  · subst hm
    rw [if_neg (by decide)]
    unfold minK z2PowF
    dsimp only
    have hany' : ((((!decide (2 * c4 = 10 ^ (-6176 - E4).toNat) && !decide (2 * c4 < 10 ^ (-6176 - E4).toNat)) ||
        (!decide (2 * c4 = 10 ^ (-6176 - E4).toNat) && decide (2 * c4 < 10 ^ (-6176 - E4).toNat))) ||
        decide (2 * c4 = 10 ^ (-6176 - E4).toNat)) || false) = true := hany
    rw [if_pos hany', z2Fin_eq]
    show Except.ok ((⟨lo, ((0x314dc6448d93 : UInt64) ||| (z_sign ||| (zx &&& c_MASK_EXP))) ||| (z_sign ||| (zx &&& c_MASK_EXP))⟩ : U128),
      _, _, _, _, _) = Except.ok (ofBits (encode (finish .rne sz _ 1 E4 pref).1), _, _, _, _,
      pfpsf ||| UInt32.ofNat (finish .rne sz _ 1 E4 pref).2)
    rw [or_idem2, f3 (by decide), hdl.nearest pref, hnd, if_neg (by unfold eMax; show ¬ (6111 : Int) < -6176; decide), if_pos ht,
      UInt32.or_assoc, show (c_StatusFlags_BID_UNDERFLOW_EXCEPTION ||| c_StatusFlags_BID_INEXACT_EXCEPTION : UInt32) =
        UInt32.ofNat (fUnderflow ||| fInexact) from by decide]
  · rw [if_pos (by simpa using hm)]
    obtain ⟨fl, hcode, hfl⟩ := hdl.corr_tiny ht m hm e3 ⟨lo, (0x314dc6448d93 : UInt64) ||| (z_sign ||| (zx &&& c_MASK_EXP))⟩ pfpsf pref
      f1 (by rw [hnd]; exact f2) (by rw [hnd]; exact he)
    rw [hcode]
    simp only [Except.bind]
    unfold minK z2PowF
    dsimp only
    have hany' : ((((!decide (2 * c4 = 10 ^ (-6176 - E4).toNat) && !decide (2 * c4 < 10 ^ (-6176 - E4).toNat)) ||
        (!decide (2 * c4 = 10 ^ (-6176 - E4).toNat) && decide (2 * c4 < 10 ^ (-6176 - E4).toNat))) ||
        decide (2 * c4 = 10 ^ (-6176 - E4).toNat)) || false) = true := hany
    rw [if_pos hany', z2Fin_eq, hfl, final_or_id _ sz z_sign hzs (finish_shape (modeOf m) sz _ 1 E4 pref hN0 (by decide))]


end Dec.C02GenFmaZ
