/-
  C02GenFmaZ — block "Z" of the fused multiply-add `bid128_ext_fma` (bid128_fma.rs, `delta >= 0`, z dominates):
  Cases (1'), (1''A) and (1''B) of the translated routine `Dec.Gen.Code.bid128_ext_fma` against `Dec.fmaD`.

  The proof is spread over the modules C02GenFmaZA … C02GenFmaZQ (chain-imported; this file imports the last one):

    ZA  finish from a rounding at the delivered exponent (`finish_of_rounded`), `correction_spec'`, the structure `Deliv`
        (what a path hands to `bid_rounding_correction`: exact value, nearest-even coefficient, the four indicators) with
        `Deliv.corrected` / `Deliv.nearest`; the LITERAL TEXT of Cases (1')/(1''A): `caseZ1` and its slices `z1Ovf`, `z1Scale`,
        `z1Gap`, `z1Tail` (`caseZ1_eq : caseZ1 … = the slices composed`, by `rfl`)
    ZB  the padding of z (`z1Scale_spec`, `scaleOf`)
    ZC  the mathematics of "z dominates" (`deliv_add`, `deliv_sub`, `deliv_sub_pow`, …, `addFin_dom`), the tail
        (`z1Tail_spec`: tininess test + correction = one correct rounding)
    ZD  the entry invariant `ZInv`; `main_math`; `caseZ1_main` (ordinary path)
    ZE  the one-digit gap (`gapTest_spec`, `gapR64_spec`, `gapCls_spec`, `gap_math`, `caseZ1_gap`)
    ZF  the overflow sub-case of Case (1') with the D19 repair (`ovfHalf_spec`, `ovfNear_spec`, `ovf_math`, `caseZ1_ovf`)
    ZG  `caseZ1_spec` — Cases (1') and (1''A) complete
    ZH  the LITERAL TEXT of Case (1''B): `caseZ2` and its slices (`caseZ2_eq` by `rfl`); `z2Pad_spec`, `z2Half_spec`
    ZI  the last statement and the two common ends (`z2SameTail_spec`, `z2DiffTail_spec`)
    ZJ,ZK  one unit more / less (`z2SameCls_spec`, `z2DiffCls_spec`, `same_math`, `diff_math`)
    ZL–ZP  the branch "z padded = 10^33, opposite signs": helper call, exact differences (`finish_exact34`, `exact_tail`),
        inexact (`pow_math`, `z2PowC_spec`), least exponent (`z2PowM_spec`), `z2Pow_spec`
    ZQ  `caseZ2_spec` — Case (1''B) complete

  THE TWO BLOCK THEOREMS.  Under the entry invariant

      ZInv C3 C4 q3 q4 e3 delta p34 z_sign p_sign z_exp sz sp c3 c4 E3 E4

  (C3 holds the coefficient c3 of the dominant term, 0 < c3 < 10^34, q3 = ndigits c3, e3 = E3 with −6176 ≤ E3 ≤ 12222, z_exp =
  (E3 + 6176)·2^49, z_sign / p_sign the sign words of sz / sp; C4 holds c4 > 0 in four words, q4 = ndigits c4 ≤ 68,
  −12352 ≤ E4 ≤ 12222; delta = q3 + E3 − q4 − E4; p34 = 34), the indicator / comparison / `incr_exp` variables false, and the case
  tests exactly as the code makes them, for every rounding mode `m`, incoming status word `pfpsf` and every `pref`:

      caseZ1_spec :  ((decide (p34 ≤ delta − 1)) || ((p34 == delta) && decide (e3 + 0x1820 < p34 − q3))) = true  →
          ∃ ml mg il ig, caseZ1 … = .ok (ofBits (encode (addFin (modeOf m) sp c4 E4 sz c3 E3 pref).1), ml, mg, il, ig,
                                         pfpsf ||| UInt32.ofNat (addFin (modeOf m) sp c4 E4 sz c3 E3 pref).2)
      caseZ2_spec :  that test = false  →  (p34 == delta) = true  →  the same conclusion for caseZ2.

  `addFin mode sp c4 E4 sz c3 E3 pref` is the exact sum ±c4·10^E4 ± c3·10^E3 through ONE `finish` — `fmaD`'s result for
  finite operands when (sp, c4, E4) is the product and (sz, c3, E3) the addend; with the roles exchanged (E3 up to 12222 is
  covered) the same theorems serve the second pass after the operand swap of Cases (8)–(18).  In block Z the result is
  inexact or forced to 34 digits, so it does not depend on `pref` (the theorems hold for every `pref`).
  The values of the four indicator out-parameters are explicit in the component theorems (`caseZ1_main`, `caseZ1_gap` with
  `gapInd`, `caseZ1_ovf` with `ovfInd`; `sameCls`, `diffCls`, `mirror` in Case (1''B)).

  FINDING made during this proof (repaired upstream as D19, commit d22a36e; the repaired text is what is proved): in the
  overflow sub-case of Case (1') — reached in the second pass — `fma(10^16E3000, 10^17E3112, −9E6110)` returned +Inf with
  overflow|inexact in NearestEven and NearestAway; `fmaD`: 9999999999999999999999999999999999E6111, inexact.
-/
import DecProofs.Properties.C02GenFmaZQ

namespace Dec.C02GenFmaZ
open Dec Dec.Rs Dec.Gen.Code Dec.C02GenCorrection

/-! ## The block theorems, restated -/

example (C3 : U128) (C4 : U256) (q3 q4 e3 delta p34 : Int32) (z_sign p_sign z_exp : UInt64)
    (sz sp : Bool) (c3 c4 : Nat) (E3 E4 : Int)
    (inv : ZInv C3 C4 q3 q4 e3 delta p34 z_sign p_sign z_exp sz sp c3 c4 E3 E4)
    (hcase : ((decide (p34 ≤ (delta - (1 : Int32)))) ||
      ((p34 == delta) && (decide ((e3 + (0x1820 : Int32)) < (p34 - q3))))) = true)
    (pml pmg pil pig : Bool) (m : RoundingMode) (pfpsf : UInt32) (res : U128) (scale ind : Int32) (R64 : UInt64)
    (P128 R128 : U128) (P192 R192 : U192) (R256 : U256) (pref : Int) :
    ∃ ml mg il ig : Bool,
      caseZ1 pml pmg pil pig m pfpsf res z_sign p_sign z_exp C3 C4 q3 q4 e3 scale ind delta p34 false false false false false
          R64 P128 R128 P192 R192 R256 =
        .ok (ofBits (encode (addFin (modeOf m) sp c4 E4 sz c3 E3 pref).1), ml, mg, il, ig,
          pfpsf ||| UInt32.ofNat (addFin (modeOf m) sp c4 E4 sz c3 E3 pref).2) :=
  caseZ1_spec C3 C4 q3 q4 e3 delta p34 z_sign p_sign z_exp sz sp c3 c4 E3 E4 inv hcase pml pmg pil pig m pfpsf res scale ind R64
    P128 R128 P192 R192 R256 pref

example (C3 : U128) (C4 : U256) (q3 q4 e3 delta p34 : Int32) (z_sign p_sign z_exp : UInt64)
    (sz sp : Bool) (c3 c4 : Nat) (E3 E4 : Int)
    (inv : ZInv C3 C4 q3 q4 e3 delta p34 z_sign p_sign z_exp sz sp c3 c4 E3 E4)
    (hc1 : ((decide (p34 ≤ (delta - (1 : Int32)))) ||
      ((p34 == delta) && (decide ((e3 + (0x1820 : Int32)) < (p34 - q3))))) = false)
    (hc2 : (p34 == delta) = true)
    (pml pmg pil pig : Bool) (m : RoundingMode) (pfpsf : UInt32) (res : U128) (scale : Int32) (R64 : UInt64)
    (P128 R128 : U128) (P192 R192 : U192) (R256 : U256) (pref : Int) :
    ∃ ml mg il ig : Bool,
      caseZ2 pml pmg pil pig m pfpsf res z_sign p_sign z_exp C3 C4 q3 q4 e3 scale p34 false false false false false
          false false false R64 P128 R128 P192 R192 R256 =
        .ok (ofBits (encode (addFin (modeOf m) sp c4 E4 sz c3 E3 pref).1), ml, mg, il, ig,
          pfpsf ||| UInt32.ofNat (addFin (modeOf m) sp c4 E4 sz c3 E3 pref).2) :=
  caseZ2_spec C3 C4 q3 q4 e3 delta p34 z_sign p_sign z_exp sz sp c3 c4 E3 E4 inv hc1 hc2 pml pmg pil pig m pfpsf res scale R64
    P128 R128 P192 R192 R256 pref

/-- for finite operands `fmaD` IS `addFin` of the product and the addend -/
example (mode : Mode) (s1 s2 s3 : Bool) (c1 c2 c3 : Nat) (e1 e2 e3 : Int) :
    fmaD mode false (.fin s1 c1 e1) (.fin s2 c2 e2) (.fin s3 c3 e3) =
      addFin mode (s1 != s2) (c1 * c2) (e1 + e2) s3 c3 e3 (if e1 + e2 ≤ e3 then e1 + e2 else e3) := rfl

/-! ## Small instances of the auxiliary notions -/

-- zeros appended to z: up to 34 digits, not below the least exponent
example : scaleOf 1 0 = 33 ∧ scaleOf 1 (-6170) = 6 ∧ scaleOf 34 5 = 0 := by decide
-- `deliver`: a carry to 10^34 is handed over as 10^33 one exponent higher
example : deliver P34 5 = (P33, 6) ∧ deliver 7 5 = (7, 5) := by decide
-- equal signs: below half a unit keep (inexact_lt_midpoint); a tie on an odd coefficient or above half: one unit more
example : sameCls 7 true false false = (7, false, false, true, false) ∧ sameCls 7 false true false = (8, true, false, false, false) ∧
    sameCls 8 false true false = (8, false, true, false, false) ∧ sameCls 7 false false true = (8, false, false, false, true) := by
  decide
-- opposite signs: one unit less
example : diffCls 7 true false false = (7, false, false, false, true) ∧ diffCls 7 false true false = (6, false, true, false, false) ∧
    diffCls 8 false true false = (8, true, false, false, false) ∧ diffCls 7 false false true = (6, false, false, true, false) := by
  decide
-- the indicators of a subtracted rounding are the mirrored ones
example : mirror false false true false = (false, false, false, true) ∧ mirror true false false false = (false, true, false, false) := by
  decide
-- four-word comparison
example : ovfGt ⟨1, 0, 0, 1⟩ ⟨2, 0, 0, 0⟩ = true ∧ ovfGt ⟨1, 0, 0, 0⟩ ⟨2, 0, 0, 0⟩ = false := by decide

/-! ## Concrete triples through the WHOLE translated routine, every path of the block, all five modes -/

/-- the translated `bid128_fma` against `fmaD` on one triple of finite data, one mode (status word 0 coming in) -/
def agrees (m : RoundingMode) (x y z : Datum) : Bool :=
  (bid128_fma (ofBits (encode x)) (ofBits (encode y)) (ofBits (encode z)) m 0).toOption ==
    some (ofBits (encode (fmaD (modeOf m) false x y z).1), UInt32.ofNat (fmaD (modeOf m) false x y z).2)

def agreesAll (x y z : Datum) : Bool :=
  agrees .NearestEven x y z && agrees .NearestAway x y z && agrees .TowardZero x y z && agrees .Upward x y z &&
    agrees .Downward x y z

set_option maxRecDepth 100000
-- Case (1'), ordinary path
example : agreesAll (.fin false 3 0) (.fin false 7 0) (.fin false 1234567890123456789012345678901234 40) = true := by decide +kernel
example : agreesAll (.fin true 3 0) (.fin false 7 0) (.fin false 1234567890123456789012345678901234 40) = true := by decide +kernel
-- Case (1'), the one-digit gap below 10^33 (borrow to 10^34 − 1 one exponent lower; tie; below half)
example : agreesAll (.fin true 6 8) (.fin false 1 0) (.fin false (10^33) 10) = true := by decide +kernel
example : agreesAll (.fin true 5 8) (.fin false 1 0) (.fin false (10^33) 10) = true := by decide +kernel
example : agreesAll (.fin true 4 8) (.fin false 1 0) (.fin false (10^33) 10) = true := by decide +kernel
example : agreesAll (.fin true 51 7) (.fin false 1 0) (.fin true (10^20) 23) = true := by decide +kernel
-- Case (1''A): z cannot be padded to 34 digits
example : agreesAll (.fin false 5 (-3100)) (.fin false 1 (-3104)) (.fin false 1 (-6170)) = true := by decide +kernel
example : agreesAll (.fin true 5 (-3100)) (.fin false 1 (-3104)) (.fin false 1 (-6170)) = true := by decide +kernel
-- Case (1''B), equal signs (above / at / below half a unit; the 10^34 wrap)
example : agreesAll (.fin false 6 (-17)) (.fin false 1 (-17)) (.fin false 7 0) = true := by decide +kernel
example : agreesAll (.fin false 5 (-17)) (.fin false 1 (-17)) (.fin false 7 0) = true := by decide +kernel
example : agreesAll (.fin false 5 (-17)) (.fin false 1 (-17)) (.fin false 8 0) = true := by decide +kernel
example : agreesAll (.fin false 6 (-17)) (.fin false 1 (-17)) (.fin false (10^34 - 1) 0) = true := by decide +kernel
-- Case (1''B), opposite signs, not 10^33
example : agreesAll (.fin true 6 (-17)) (.fin false 1 (-17)) (.fin false 7 0) = true := by decide +kernel
example : agreesAll (.fin true 5 (-17)) (.fin false 1 (-17)) (.fin false 7 0) = true := by decide +kernel
-- Case (1''B), opposite signs, 10^33: exact (one digit; several digits), inexact, at the least exponent
example : agreesAll (.fin true 3 (-17)) (.fin false 1 (-17)) (.fin false 1 0) = true := by decide +kernel
example : agreesAll (.fin true 30 (-18)) (.fin false 1 (-17)) (.fin false 1 0) = true := by decide +kernel
example : agreesAll (.fin true 37 (-18)) (.fin false 1 (-17)) (.fin false 1 0) = true := by decide +kernel
example : agreesAll (.fin true 95 (-18)) (.fin false 1 (-17)) (.fin false 1 0) = true := by decide +kernel
example : agreesAll (.fin true 6 (-3088)) (.fin false 1 (-3089)) (.fin false (10^33) (-6176)) = true := by decide +kernel
example : agreesAll (.fin true 5 (-3088)) (.fin false 1 (-3089)) (.fin false (10^33) (-6176)) = true := by decide +kernel
-- the repaired spots: D19 (overflow sub-case of Case (1') in the second pass), D21, D22 (Case (1''B), second pass)
example : agreesAll (.fin false (10^16) 3000) (.fin false (10^17) 3112) (.fin true 9 6110) = true := by decide +kernel
example : agreesAll (.fin false (10^16) 3000) (.fin false (10^17) 3113) (.fin true 30 6111) = true := by decide +kernel
example : agreesAll (.fin true (10^16) 3000) (.fin false (10^17) 3113) (.fin false 37 6111) = true := by decide +kernel

end Dec.C02GenFmaZ
