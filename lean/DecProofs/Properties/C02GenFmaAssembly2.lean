/-
  C02GenFmaAssembly2 — shrinking `FmaRemaining` (C02GenFmaAssembly.lean, frozen) to nothing.

  C02GenFmaAssembly proves `bid128_fma_spec_partial : no NaN → ¬ FmaRemaining x y z → FmaOK x y z m f` with a complete case
  analysis; four kinds of inputs remain, each waiting for ONE theorem of another file.  Here each of them is stated as a named
  hypothesis in exactly the form this file consumes (the pattern of `C02GenFmaWrap.AarSpec`), the remaining cases are proved
  from the hypotheses, and the hypotheses are discharged at the end of the file as their theorems land:
    (a) `ProdZeroSpec`  — zero product, non-zero addend (answered in the front end: `prodZeroK`),
    (b) `Z0Spec`        — non-zero product, zero addend (the `z = 0` path `z0K`; gives `bid128_mul`),
    (c) `Case1112Spec`  — Cases (11), (12): the block `C02GenFma1112.case1112K` returns `addFin`,
    (d) `MidWideSpec`   — Cases (2)–(6) in the SECOND pass: `C02GenFmaMid.midBlock` under the swapped invariant (`MidInvWide`).
  THEOREMS.
    `ext_fma_case1112`, `ext_fma_swap_mid`: Cases (11), (12) and the second pass of Cases (2)–(6) for the routine, from (c), (d).
    `ext_fma_ok_numbers_of`: three numbers, non-zero product and addend, EVERY case, from (c), (d).
    `bid128_ext_fma_spec_of`, `bid128_fma_spec_of`: (a) → (b) → (c) → (d) → for ALL operands that are not NaNs:
        bid128_fma x y z m f = .ok (encode (fmaD …).1, f ||| (fmaD …).2).
    `bid128_mul_spec_of`: (b) → for all non-NaN operands: bid128_mul x y m f = .ok (encode (mulD …).1, f ||| (mulD …).2).
  DISCHARGED SO FAR: `prodZeroSpec` (a: `C02GenFmaFrontSpec.front_prod_zero`), `case1112Spec` (c: `C02GenFma1112.case1112_spec`),
    `midWideSpec` (d: `C02GenFmaMid.midBlock_spec_wide`).  Hence, unconditionally:
    `bid128_fma_spec_partial3`: no NaN, ¬ FmaRemaining2 x y z ⟹ FmaOK x y z m f, where `FmaRemaining2` is ONE case: two numbers
        with a non-zero product and a ZERO addend;  `bid128_fma_spec_partial2 : Z0Spec → ∀ non-NaN operands, FmaOK`;
    `fma_ok_case1112`, `fma_ok_swap_case2to6`: the two newly closed cases for `bid128_fma` on numbers.
  OPEN: (b) `Z0Spec` — the `z = 0` path (C02GenFmaZ0*.lean, in progress elsewhere); it closes `bid128_fma_spec` and
    `bid128_mul_spec` by `bid128_fma_spec_of` / `bid128_mul_spec_of`.
-/
import DecProofs.Properties.C02GenFmaAssembly
import DecProofs.Properties.C02GenFmaMidWide
import DecProofs.Properties.C02GenFma1112Closed
import DecProofs.Properties.C02GenFmaZ0

set_option linter.unusedSimpArgs false
set_option linter.unusedVariables false

namespace Dec.C02GenFmaAssembly2
open Dec.Rs Dec.Gen.Code Dec.C02GenFmaAssembly Dec.C02GenFmaFront Dec.C02GenFmaSwap
open Dec.C01GenMul (dOf z0 dOf_z0)
open Dec.C02GenRound (v128 v256)
open Dec.C02GenCorrection (ofBits modeOf)
open Dec.C02GenFmaFrontSpec (front_spec)

local notation "Out" => (U128 × Bool × Bool × Bool × Bool × UInt32)

/-! ## 1. The four missing theorems, as hypotheses -/

/-- (a) zero product, non-zero addend: the front end returns the model's `fmaD` (the addend, brought towards the preferred
exponent) -/
def ProdZeroSpec : Prop :=
  ∀ (p1 p2 p3 p4 : Bool) (x y z : U128) (m : RoundingMode) (f : UInt32) (s1 s2 s3 : Bool) (c1 c2 c3 : Nat) (e1 e2 e3 : Int),
    dOf x = .fin s1 c1 e1 → dOf y = .fin s2 c2 e2 → dOf z = .fin s3 c3 e3 → c1 * c2 = 0 → c3 ≠ 0 →
    ExtFmaOK p1 p2 p3 p4 x y z m f

/-- (b) non-zero product, zero addend: the `z = 0` path returns the model's `fmaD` (the product rounded once) -/
def Z0Spec : Prop :=
  ∀ (p1 p2 p3 p4 : Bool) (x y z : U128) (m : RoundingMode) (f : UInt32) (s1 s2 s3 : Bool) (c1 c2 : Nat) (e1 e2 e3 : Int),
    dOf x = .fin s1 c1 e1 → dOf y = .fin s2 c2 e2 → dOf z = .fin s3 0 e3 → c1 * c2 ≠ 0 →
    ExtFmaOK p1 p2 p3 p4 x y z m f

/-- (c) Cases (11), (12): under what the front end hands over (numbers) and the case condition
`d = q4 + E4 − q3 − E3 > 0`, `34 < q4`, `d < q4 < d + q3`, the block returns the encoding of `addFin` (product, addend) and
`f ||| flags`.  (All other parameters of the block are scratch variables: arbitrary.) -/
def Case1112Spec : Prop :=
  ∀ (sp sz : Bool) (c3 c4 : Nat) (E3 E4 : Int) (q3 : Int32) (C3 : U128) (C4 : U256) (e3 e4 : Int32) (m : RoundingMode)
    (p1 p2 p3 p4 : Bool) (f : UInt32) (res : U128) (sc ind x0 : Int32) (a0 b0 c0 d0 lsb l1 l2 l3 : Bool) (R64 : UInt64)
    (P128 R128 : U128) (P192 R192 : U192) (R256 : U256),
    v128 C3 = c3 → 0 < c3 → c3 < 10 ^ 34 → v256 C4 = c4 → 0 < c4 → 34 < ndigits c4 → ndigits c4 ≤ 68 →
    q3.toInt = ndigits c3 → e3.toInt = E3 → e4.toInt = E4 → -6176 ≤ E3 → E3 ≤ 6111 → -12352 ≤ E4 → E4 ≤ 12222 →
    0 < (ndigits c4 : Int) + E4 - ndigits c3 - E3 → (ndigits c4 : Int) + E4 - ndigits c3 - E3 < ndigits c4 →
    (ndigits c4 : Int) < (ndigits c4 : Int) + E4 - ndigits c3 - E3 + ndigits c3 →
    ∃ lt gt ilt igt : Bool,
      Dec.C02GenFma1112.case1112K q3 34 (sgnW sz) (sgnW sp) C4 m p1 p2 p3 p4 f res C3 e3 e4 sc ind x0 false false false false
          a0 b0 c0 d0 false lsb l1 l2 l3 false R64 P128 R128 P192 R192 R256 =
        .ok (ofBits (encode (addFin (modeOf m) sp c4 E4 sz c3 E3 (if E4 ≤ E3 then E4 else E3)).1), lt, gt, ilt, igt,
          f ||| UInt32.ofNat (addFin (modeOf m) sp c4 E4 sz c3 E3 (if E4 ≤ E3 then E4 else E3)).2)

/-- the entry invariant of block Mid in the SECOND pass (after the swap): as `C02GenFmaMid.EntryInv`, but the term in the
place of the addend is the PRODUCT (at most 34 digits), whose exponent lies in `[−6209, 12222]`, and the term in the place of
the product is the addend (its two high words zero), exponent in `[−6176, 6111]`; `1 ≤ delta ≤ 33` -/
structure MidInvWide (C3 : U128) (C4 : U256) (q3 q4 e3 e4 delta p34 : Int32) (z_sign p_sign : UInt64)
    (c3 c4 : Nat) (E3 E4 : Int) (sz sp : Bool) : Prop where
  hC3 : v128 C3 = c3
  hc3 : 0 < c3 ∧ c3 < 10 ^ 34
  hq3 : q3.toInt = ndigits c3
  he3 : e3.toInt = E3
  hE3 : -6209 ≤ E3 ∧ E3 ≤ 12222
  hC4 : v256 C4 = c4
  hc4 : 0 < c4 ∧ c4 < 10 ^ 34
  hq4 : q4.toInt = ndigits c4
  he4 : e4.toInt = E4
  hE4 : -6176 ≤ E4 ∧ E4 ≤ 6111
  hdelta : delta.toInt = (ndigits c3 : Int) + E3 - ndigits c4 - E4
  hdr : 1 ≤ delta.toInt ∧ delta.toInt ≤ 33
  hp34 : p34 = 34
  hzs : z_sign = sgnW sz
  hps : p_sign = sgnW sp

/-- (d) Cases (2)–(6) in the second pass: `midBlock` under `MidInvWide`, not (`delta ≤ 1` with opposite signs) -/
def MidWideSpec : Prop :=
  ∀ (p1 p2 p3 p4 : Bool) (rm : RoundingMode) (pf : UInt32) (res : U128) (z_sign p_sign tmp_sign : UInt64)
    (C3 : U128) (C4 : U256) (q3 q4 e3 e4 scale ind delta x0 p34 : Int32) (ML0 MG0 L0 G0 incr lsb : Bool)
    (R64 tmp64 : UInt64) (P128 R128 : U128) (P192 R192 : U192) (R256 : U256)
    (c3 c4 : Nat) (E3 E4 : Int) (sz sp : Bool),
    MidInvWide C3 C4 q3 q4 e3 e4 delta p34 z_sign p_sign c3 c4 E3 E4 sz sp → ¬ (delta.toInt ≤ 1 ∧ sp ≠ sz) →
    ∃ a b c d : Bool,
      Dec.C02GenFmaMid.midBlock p1 p2 p3 p4 rm pf res z_sign p_sign tmp_sign C3 C4 q3 q4 e3 e4 scale ind delta x0 p34
          false false false false ML0 MG0 L0 G0 incr lsb false R64 tmp64 P128 R128 P192 R192 R256 =
        .ok (ofBits (encode (addFin (modeOf rm) sp c4 E4 sz c3 E3 (if E4 ≤ E3 then E4 else E3)).1), a, b, c, d,
             pf ||| UInt32.ofNat (addFin (modeOf rm) sp c4 E4 sz c3 E3 (if E4 ≤ E3 then E4 else E3)).2)

/-! ## 2. The two remaining cases of three numbers with non-zero product and addend -/

/-- **Cases (11), (12) for the routine**, from (c) -/
theorem ext_fma_case1112 (hc : Case1112Spec) (p1 p2 p3 p4 : Bool) (x y z : U128) (m : RoundingMode) (f : UInt32)
    {s1 s2 s3 : Bool} {c1 c2 c3 : Nat} {e1 e2 e3 : Int} {zs ps ze pe : UInt64} {C3 : U128} {C4 : U256} {q3 q4 e3w e4w : Int32}
    (H : HandoverFacts s1 s2 s3 c1 c2 c3 e1 e2 e3 zs ps ze pe C3 C4 q3 q4 e3w e4w) (tmp : F64U)
    (hfront : bid128_ext_fma p1 p2 p3 p4 x y z m f = caseLoop p1 p2 p3 p4 m f zs ps ze pe C3 C4 q3 q4 e3w e4w tmp)
    (hd : 0 < (ndigits (c1 * c2) : Int) + (e1 + e2) - ndigits c3 - e3) (h34 : 34 < ndigits (c1 * c2))
    (hlt : (ndigits (c1 * c2) : Int) + (e1 + e2) - ndigits c3 - e3 < ndigits (c1 * c2))
    (hin : (ndigits (c1 * c2) : Int) < (ndigits (c1 * c2) : Int) + (e1 + e2) - ndigits c3 - e3 + ndigits c3) :
    ∃ lt gt ilt igt : Bool, bid128_ext_fma p1 p2 p3 p4 x y z m f =
      .ok (ofBits (encode (fmaD (modeOf m) false (.fin s1 c1 e1) (.fin s2 c2 e2) (.fin s3 c3 e3)).1), lt, gt, ilt, igt,
        f ||| UInt32.ofNat (fmaD (modeOf m) false (.fin s1 c1 e1) (.fin s2 c2 e2) (.fin s3 c3 e3)).2) := by
  have a := H.q3_range; have b := H.q4_range
  have h1 := H.e1lo; have h2 := H.e1hi; have h3 := H.e2lo; have h4 := H.e2hi; have h5 := H.e3lo; have h6 := H.e3hi
  have hdv := H.delta_val
  have hnd : (-(q3 + e3w - q4 - e4w)).toInt = (ndigits (c1 * c2) : Int) + (e1 + e2) - ndigits c3 - e3 := by
    rw [i32neg _ _ hdv (by omega) (by omega)]; omega
  have hq3' := H.hq3; have hq4' := H.hq4
  have r : Rng q3 q4 (-(q3 + e3w - q4 - e4w)) := ⟨by omega, by omega, by omega, by omega, by omega, by omega⟩
  obtain ⟨lt, gt, ilt, igt, h⟩ := hc (s1 != s2) s3 c3 (c1 * c2) e3 (e1 + e2) q3 C3 C4 e3w e4w m p1 p2 p3 p4 f
    (⟨(0xbaddbaddbaddbadd : UInt64), (0xbaddbaddbaddbadd : UInt64)⟩ : U128) default default default default default default
    default default default default default default default default default default default
    H.hC3 H.c3pos H.c3lt H.hC4 H.prod_pos h34 b.2 H.hq3 H.he3 H.he4 h5 h6 (by omega)
    (by omega) hd hlt hin
  rw [← H.hzs, ← H.hps] at h
  refine ⟨lt, gt, ilt, igt, ?_⟩
  rw [hfront, caseLoop_eq]
  refine run_case1112 m 4095 _ _ ?_ ?_ ?_ ?_ h
  · rw [decide_eq_true_eq, ge_iff_le, Int32.le_iff_toInt_le]
    show ¬ ((0 : Int) ≤ (q3 + e3w - q4 - e4w).toInt)
    rw [hdv]; omega
  · show ¬ (decide (c_P34 < q4) && decide (q4 ≤ -(q3 + e3w - q4 - e4w))) = true
    rw [show c_P34 = (34 : Int32) from rfl, case7Cond_iff q3 q4 _, decide_eq_true_eq, hnd, hq4']; omega
  · show ¬ swapCond q3 q4 (-(q3 + e3w - q4 - e4w)) c_P34 = true
    rw [show c_P34 = (34 : Int32) from rfl, swapCond_iff q3 q4 _ r, decide_eq_true_eq, hq4']; omega
  · show Dec.C02GenFmaAssembly.cond1112 q3 q4 (-(q3 + e3w - q4 - e4w)) c_P34 = true
    rw [show c_P34 = (34 : Int32) from rfl, cond1112_iff q3 q4 _ r, decide_eq_true_eq, hnd, hq4', hq3']; omega

theorem min_comm' (a b : Int) : (if a ≤ b then a else b) = (if b ≤ a then b else a) := by
  split <;> split <;> omega

/-- **the second pass of Cases (2)–(6) for the routine** (old Cases (9), (10), (13), (14), (18)), from (d) -/
theorem ext_fma_swap_mid (hm : MidWideSpec) (p1 p2 p3 p4 : Bool) (x y z : U128) (m : RoundingMode) (f : UInt32)
    {s1 s2 s3 : Bool} {c1 c2 c3 : Nat} {e1 e2 e3 : Int} {zs ps ze pe : UInt64} {C3 : U128} {C4 : U256} {q3 q4 e3w e4w : Int32}
    (H : HandoverFacts s1 s2 s3 c1 c2 c3 e1 e2 e3 zs ps ze pe C3 C4 q3 q4 e3w e4w) (tmp : F64U)
    (hfront : bid128_ext_fma p1 p2 p3 p4 x y z m f = caseLoop p1 p2 p3 p4 m f zs ps ze pe C3 C4 q3 q4 e3w e4w tmp)
    (hd : 0 < (ndigits (c1 * c2) : Int) + (e1 + e2) - ndigits c3 - e3) (hq4 : ndigits (c1 * c2) ≤ 34)
    (hd33 : (ndigits (c1 * c2) : Int) + (e1 + e2) - ndigits c3 - e3 ≤ 33)
    (hcase : ¬ ((ndigits (c1 * c2) : Int) + (e1 + e2) - ndigits c3 - e3 ≤ 1 ∧ (s1 != s2) ≠ s3)) :
    ∃ lt gt ilt igt : Bool, bid128_ext_fma p1 p2 p3 p4 x y z m f =
      .ok (ofBits (encode (fmaD (modeOf m) false (.fin s1 c1 e1) (.fin s2 c2 e2) (.fin s3 c3 e3)).1), lt, gt, ilt, igt,
        f ||| UInt32.ofNat (fmaD (modeOf m) false (.fin s1 c1 e1) (.fin s2 c2 e2) (.fin s3 c3 e3)).2) := by
  have a := H.q3_range; have b := H.q4_range
  have h1 := H.e1lo; have h2 := H.e1hi; have h3 := H.e2lo; have h4 := H.e2hi; have h5 := H.e3lo; have h6 := H.e3hi
  have hdv := H.delta_val
  have hnd : (-(q3 + e3w - q4 - e4w)).toInt = (ndigits (c1 * c2) : Int) + (e1 + e2) - ndigits c3 - e3 := by
    rw [i32neg _ _ hdv (by omega) (by omega)]; omega
  have hlt : c1 * c2 < 10 ^ 34 := (ndigits_le_iff H.prod_pos).1 hq4
  obtain ⟨w2, w3, v1, v2⟩ := swap_coeff C3 C4 (by rw [H.hC4]; exact hlt)
  have inv : MidInvWide ⟨C4.w0, C4.w1⟩ ⟨C3.w0, C3.w1, C4.w2, C4.w3⟩ q4 q3 e4w e3w (-(q3 + e3w - q4 - e4w)) c_P34 ps zs
      (c1 * c2) c3 (e1 + e2) e3 (s1 != s2) s3 :=
    ⟨by rw [v1, H.hC4], ⟨H.prod_pos, hlt⟩, H.hq4, H.he4, ⟨by omega, by omega⟩, by rw [v2, H.hC3], ⟨H.c3pos, H.c3lt⟩, H.hq3,
      H.he3, ⟨h5, h6⟩, hnd, ⟨by rw [hnd]; omega, by rw [hnd]; omega⟩, rfl, H.hps, H.hzs⟩
  obtain ⟨lt, gt, ilt, igt, h⟩ := hm p1 p2 p3 p4 m f (⟨(0xbaddbaddbaddbadd : UInt64), (0xbaddbaddbaddbadd : UInt64)⟩ : U128)
    ps zs zs ⟨C4.w0, C4.w1⟩ ⟨C3.w0, C3.w1, C4.w2, C4.w3⟩ q4 q3 e4w e3w default e3w (-(q3 + e3w - q4 - e4w)) default c_P34
    default default default default false default default default ⟨C3.w0, C3.w1⟩ default default default default
    (c1 * c2) c3 (e1 + e2) e3 (s1 != s2) s3 inv (by rw [hnd]; exact fun hh => hcase ⟨hh.1, fun e => hh.2 e.symm⟩)
  rw [addFin_comm, min_comm'] at h
  refine ⟨lt, gt, ilt, igt, ?_⟩
  have k34 : (c_P34 : Int32).toInt = 34 := rfl
  have hdm1 : (-(q3 + e3w - q4 - e4w) - 1).toInt = (ndigits (c1 * c2) : Int) + (e1 + e2) - ndigits c3 - e3 - 1 :=
    i32sub _ 1 _ 1 hnd rfl (by omega) (by omega)
  rw [hfront, first_pass_swaps p1 p2 p3 p4 m f H tmp (by omega) hq4]
  refine run_mid m 4094 _ _ ?_ ?_ ?_ h
  · rw [decide_eq_true_eq, ge_iff_le, Int32.le_iff_toInt_le]
    show (0 : Int) ≤ (-(q3 + e3w - q4 - e4w)).toInt
    rw [hnd]; omega
  · show ¬ case1Cond q4 e4w (-(q3 + e3w - q4 - e4w)) c_P34 = true
    unfold case1Cond
    rw [Bool.or_eq_true, Bool.and_eq_true, decide_eq_true_eq, beq_iff_eq, Int32.le_iff_toInt_le, ← Int32.toInt_inj, hdm1, hnd, k34]
    omega
  · show ¬ (c_P34 == (-(q3 + e3w - q4 - e4w))) = true
    rw [beq_iff_eq, ← Int32.toInt_inj, hnd, k34]; omega

/-! ## 3. The hypotheses discharged, as their theorems land -/

/-- (d) holds: `C02GenFmaMid.midBlock_spec_wide` (C02GenFmaMidWide.lean) -/
theorem midWideSpec : MidWideSpec := by
  intro p1 p2 p3 p4 rm pf res z_sign p_sign tmp_sign C3 C4 q3 q4 e3 e4 scale ind delta x0 p34 ML0 MG0 L0 G0 incr lsb R64 tmp64
    P128 R128 P192 R192 R256 c3 c4 E3 E4 sz sp h hcase
  have h1 := h.hE3; have h2 := h.hdr
  refine Dec.C02GenFmaMid.midBlock_spec_wide p1 p2 p3 p4 rm pf res z_sign p_sign tmp_sign C3 C4 q3 q4 e3 e4 scale ind delta x0 p34
    ML0 MG0 L0 G0 incr lsb R64 tmp64 P128 R128 P192 R192 R256 c3 c4 E3 E4 sz sp ?_ hcase
  refine ⟨?_, ⟨h.hc3.1, by rw [Dec.C13PackHelpers.P34_eq']; exact h.hc3.2⟩, h.hq3, h.he3, ⟨by omega, by omega⟩, ?_,
    ⟨h.hc4.1, by rw [Dec.C13PackHelpers.P34_eq']; exact h.hc4.2⟩, h.hq4, h.he4, h.hE4, h.hdelta, ⟨by omega, by omega⟩, ?_, ?_, ?_⟩
  · rw [← h.hC3]; unfold Dec.C03GenCompare.val128 v128; omega
  · rw [← h.hC4]; unfold Dec.C03GenCompare.val256 v256; omega
  · rw [h.hp34]; rfl
  · rw [h.hzs, sgnW_toNat]
  · rw [h.hps, sgnW_toNat]

/-- (a) holds: `C02GenFmaFrontSpec.front_prod_zero` -/
theorem prodZeroSpec : ProdZeroSpec := by
  intro p1 p2 p3 p4 x y z m f s1 s2 s3 c1 c2 c3 e1 e2 e3 hx hy hz h12 h3
  exact ⟨false, false, false, false, Dec.C02GenFmaFrontSpec.front_prod_zero p1 p2 p3 p4 x y z m f hx hy hz h12 h3⟩

/-- (c) holds: `C02GenFma1112.case1112_spec` (C02GenFma1112Closed.lean) -/
theorem case1112Spec : Case1112Spec := by
  intro sp sz c3 c4 E3 E4 q3 C3 C4 e3 e4 m p1 p2 p3 p4 f res sc ind x0 a0 b0 c0 d0 lsb l1 l2 l3 R64 P128 R128 P192 R192 R256
    hC3 h3pos h3lt hC4 h4pos h34 h68 hq3 he3 he4 hE3lo hE3hi hE4lo hE4hi hd hlt hin
  have hq3r : 1 ≤ ndigits c3 ∧ ndigits c3 ≤ 34 := ⟨ndigits_pos h3pos, (ndigits_le_iff h3pos).2 h3lt⟩
  obtain ⟨hs1, hs2⟩ := ndigits_spec h4pos
  -- the digit count of the product as an `Int32`, and `delta` (negated) as an `Int32`
  have hq4w : (Int32.ofNat (ndigits c4)).toInt = ndigits c4 := Int32.toInt_ofNat_of_lt (by omega)
  have hdw : (Int32.ofInt ((ndigits c4 : Int) + E4 - ndigits c3 - E3)).toInt = (ndigits c4 : Int) + E4 - ndigits c3 - E3 :=
    Int32.toInt_ofInt_of_le (by omega) (by omega)
  have r : Rng q3 (Int32.ofNat (ndigits c4)) (Int32.ofInt ((ndigits c4 : Int) + E4 - ndigits c3 - E3)) :=
    ⟨by omega, by omega, by omega, by omega, by omega, by omega⟩
  have hmin : (if E4 ≤ E3 then E4 else E3) = E3 := by rw [if_neg]; omega
  rw [hmin]
  obtain ⟨lt, gt, ilt, igt, h⟩ := Dec.C02GenFma1112.case1112_spec sp sz (ndigits c3) (ndigits c4) E3 E4 q3 (Int32.ofNat (ndigits c4))
    (Int32.ofInt ((ndigits c4 : Int) + E4 - ndigits c3 - E3)) C4 m p1 p2 p3 p4 f res C3 sc ind x0 a0 b0 c0 d0 lsb l1 l2 l3 R64
    P128 R128 P192 R192 R256 e3 e4 hq3 hq4w hq3r.1 hq3r.2 (by rw [hC3]; exact h3pos) (by rw [hC3]; exact lt_pow_ndigits c3) h68
    (by rw [hC4]; exact hs1) (by rw [hC4]; exact hs2) hE3lo hE3hi he3 he4 hdw (by omega) (by omega)
    (by rw [← cond1112_eq, cond1112_iff _ _ _ r, decide_eq_true_eq, hdw, hq4w, hq3]; omega)
  rw [hC3, hC4] at h
  exact ⟨lt, gt, ilt, igt, h⟩

/-! ## 4. All operands -/

/-- three numbers with non-zero product and non-zero addend: every case, from (c) and (d) -/
theorem ext_fma_ok_numbers_of (hc : Case1112Spec) (hm : MidWideSpec) (p1 p2 p3 p4 : Bool) (x y z : U128) (m : RoundingMode)
    (f : UInt32) {s1 s2 s3 : Bool} {c1 c2 c3 : Nat} {e1 e2 e3 : Int}
    (hx : dOf x = .fin s1 c1 e1) (hy : dOf y = .fin s2 c2 e2) (hz : dOf z = .fin s3 c3 e3) (h12 : c1 * c2 ≠ 0) (h3 : c3 ≠ 0) :
    ExtFmaOK p1 p2 p3 p4 x y z m f := by
  by_cases hrem : RemNum s1 s2 s3 c1 c2 c3 e1 e2 e3
  · obtain ⟨zs, ps, ze, pe, C3, C4, q3, q4, e3w, e4w, tmp, hh, hfront⟩ := front_spec p1 p2 p3 p4 x y z m f hx hy hz h12 h3
    have H := HandoverFacts.of hh h12 h3
    unfold ExtFmaOK; rw [hx, hy, hz]
    rcases hrem with ⟨h0, -⟩ | ⟨-, h0⟩ | ⟨-, -, hd, ⟨h34, hlt, hin⟩ | ⟨hq4, hd33, hcase⟩⟩
    · exact absurd h0 h12
    · exact absurd h0 h3
    · exact ext_fma_case1112 hc p1 p2 p3 p4 x y z m f H tmp hfront hd h34 hlt hin
    · exact ext_fma_swap_mid hm p1 p2 p3 p4 x y z m f H tmp hfront hd hq4 hd33 hcase
  · exact ext_fma_ok_numbers p1 p2 p3 p4 x y z m f hx hy hz h12 h3 hrem

/-- **`bid128_ext_fma`, all operands that are not NaNs**, from (a), (b), (c), (d) -/
theorem bid128_ext_fma_spec_of (ha : ProdZeroSpec) (hb : Z0Spec) (hc : Case1112Spec) (hm : MidWideSpec)
    (p1 p2 p3 p4 : Bool) (x y z : U128) (m : RoundingMode) (f : UInt32)
    (hx : (dOf x).isNaN = false) (hy : (dOf y).isNaN = false) (hz : (dOf z).isNaN = false) :
    ExtFmaOK p1 p2 p3 p4 x y z m f := by
  by_cases hi : ((dOf x).isInf || (dOf y).isInf || (dOf z).isInf) = true
  · exact ⟨false, false, false, false, Dec.C02GenFmaFrontSpec.front_inf p1 p2 p3 p4 x y z m f hx hy hz hi⟩
  · simp only [Bool.or_eq_true, not_or, Bool.not_eq_true] at hi
    obtain ⟨s1, c1, e1, hx'⟩ := fin_of_not_special _ hx hi.1.1
    obtain ⟨s2, c2, e2, hy'⟩ := fin_of_not_special _ hy hi.1.2
    obtain ⟨s3, c3, e3, hz'⟩ := fin_of_not_special _ hz hi.2
    by_cases h12 : c1 * c2 = 0
    · by_cases h3 : c3 = 0
      · subst h3
        exact ⟨false, false, false, false, Dec.C02GenFmaFrontSpec.front_zero_zero p1 p2 p3 p4 x y z m f hx' hy' hz' h12⟩
      · exact ha p1 p2 p3 p4 x y z m f s1 s2 s3 c1 c2 c3 e1 e2 e3 hx' hy' hz' h12 h3
    · by_cases h3 : c3 = 0
      · subst h3
        exact hb p1 p2 p3 p4 x y z m f s1 s2 s3 c1 c2 e1 e2 e3 hx' hy' hz' h12
      · exact ext_fma_ok_numbers_of hc hm p1 p2 p3 p4 x y z m f hx' hy' hz' h12 h3

/-- **`bid128_fma`, all operands that are not NaNs**, from (a), (b), (c), (d) -/
theorem bid128_fma_spec_of (ha : ProdZeroSpec) (hb : Z0Spec) (hc : Case1112Spec) (hm : MidWideSpec)
    (x y z : U128) (m : RoundingMode) (f : UInt32)
    (hx : (dOf x).isNaN = false) (hy : (dOf y).isNaN = false) (hz : (dOf z).isNaN = false) : FmaOK x y z m f :=
  FmaOK.of_ext (bid128_ext_fma_spec_of ha hb hc hm false false false false x y z m f hx hy hz)

/-- **`bid128_mul`, all operands that are not NaNs**, from (b) alone: non-zero products go through `bid128_fma (y, x, +0E+6111)`,
whose addend is a zero — the `z = 0` path -/
theorem bid128_mul_spec_of (hb : Z0Spec) (x y : U128) (m : RoundingMode) (f : UInt32)
    (hx : (dOf x).isNaN = false) (hy : (dOf y).isNaN = false) : MulOK x y m f := by
  by_cases hrem : ∃ s1 c1 e1 s2 c2 e2, dOf x = .fin s1 c1 e1 ∧ dOf y = .fin s2 c2 e2 ∧ c1 * c2 ≠ 0
  · obtain ⟨s1, c1, e1, s2, c2, e2, hx', hy', h12⟩ := hrem
    refine MulOK.of_fma ?_ (FmaOK.of_ext (hb false false false false y x z0 m f s2 s1 false c2 c1 e2 e1 6111 hy' hx' dOf_z0
      (by rw [Nat.mul_comm]; exact h12)))
    rintro ⟨-, -, hz⟩
    rw [hx', hy'] at hz
    rcases hz with hz | hz
    · exact h12 (by simp only [Datum.isZero, beq_iff_eq] at hz; rw [hz]; simp)
    · exact h12 (by simp only [Datum.isZero, beq_iff_eq] at hz; rw [hz]; simp)
  · exact bid128_mul_spec_partial x y m f hx hy hrem

/-! ### the state of affairs: (a), (c), (d) are discharged -/

/-- what remains: the `z = 0` path only -/
theorem bid128_fma_spec_partial2 (hb : Z0Spec) (x y z : U128) (m : RoundingMode) (f : UInt32)
    (hx : (dOf x).isNaN = false) (hy : (dOf y).isNaN = false) (hz : (dOf z).isNaN = false) : FmaOK x y z m f :=
  bid128_fma_spec_of prodZeroSpec hb case1112Spec midWideSpec x y z m f hx hy hz

/-- the remaining case after (a), (c), (d): two numbers with a non-zero product and a zero addend (the `z = 0` path) -/
def FmaRemaining2 (x y z : U128) : Prop :=
  ∃ s1 c1 e1 s2 c2 e2 s3 e3, dOf x = .fin s1 c1 e1 ∧ dOf y = .fin s2 c2 e2 ∧ dOf z = .fin s3 0 e3 ∧ c1 * c2 ≠ 0

/-- **`bid128_fma` whenever the addend is not a zero (or the product is)**, unconditionally: all operands that are not NaNs,
except a non-zero product of two numbers with a zero addend -/
theorem bid128_fma_spec_partial3 (x y z : U128) (m : RoundingMode) (f : UInt32)
    (hx : (dOf x).isNaN = false) (hy : (dOf y).isNaN = false) (hz : (dOf z).isNaN = false)
    (hrem : ¬ FmaRemaining2 x y z) : FmaOK x y z m f := by
  refine FmaOK.of_ext ?_
  by_cases hi : ((dOf x).isInf || (dOf y).isInf || (dOf z).isInf) = true
  · exact ⟨false, false, false, false, Dec.C02GenFmaFrontSpec.front_inf _ _ _ _ x y z m f hx hy hz hi⟩
  · simp only [Bool.or_eq_true, not_or, Bool.not_eq_true] at hi
    obtain ⟨s1, c1, e1, hx'⟩ := fin_of_not_special _ hx hi.1.1
    obtain ⟨s2, c2, e2, hy'⟩ := fin_of_not_special _ hy hi.1.2
    obtain ⟨s3, c3, e3, hz'⟩ := fin_of_not_special _ hz hi.2
    by_cases h12 : c1 * c2 = 0
    · by_cases h3 : c3 = 0
      · subst h3
        exact ⟨false, false, false, false, Dec.C02GenFmaFrontSpec.front_zero_zero _ _ _ _ x y z m f hx' hy' hz' h12⟩
      · exact prodZeroSpec _ _ _ _ x y z m f s1 s2 s3 c1 c2 c3 e1 e2 e3 hx' hy' hz' h12 h3
    · by_cases h3 : c3 = 0
      · subst h3
        exact absurd ⟨s1, c1, e1, s2, c2, e2, s3, e3, hx', hy', hz', h12⟩ hrem
      · exact ext_fma_ok_numbers_of case1112Spec midWideSpec _ _ _ _ x y z m f hx' hy' hz' h12 h3

/-- Cases (11), (12) for `bid128_fma`, unconditionally -/
theorem fma_ok_case1112 (x y z : U128) (m : RoundingMode) (f : UInt32) {s1 s2 s3 : Bool} {c1 c2 c3 : Nat} {e1 e2 e3 : Int}
    (hx : dOf x = .fin s1 c1 e1) (hy : dOf y = .fin s2 c2 e2) (hz : dOf z = .fin s3 c3 e3) (h12 : c1 * c2 ≠ 0) (h3 : c3 ≠ 0)
    (hd : 0 < (ndigits (c1 * c2) : Int) + (e1 + e2) - ndigits c3 - e3) (h34 : 34 < ndigits (c1 * c2))
    (hlt : (ndigits (c1 * c2) : Int) + (e1 + e2) - ndigits c3 - e3 < ndigits (c1 * c2))
    (hin : (ndigits (c1 * c2) : Int) < (ndigits (c1 * c2) : Int) + (e1 + e2) - ndigits c3 - e3 + ndigits c3) :
    FmaOK x y z m f := by
  refine FmaOK.of_ext ?_
  obtain ⟨zs, ps, ze, pe, C3, C4, q3, q4, e3w, e4w, tmp, hh, hfront⟩ := front_spec false false false false x y z m f hx hy hz h12 h3
  unfold ExtFmaOK; rw [hx, hy, hz]
  exact ext_fma_case1112 case1112Spec _ _ _ _ x y z m f (HandoverFacts.of hh h12 h3) tmp hfront hd h34 hlt hin

/-- Cases (9), (10), (13), (14), (18) — the second pass of Cases (2)–(6) — for `bid128_fma`, unconditionally -/
theorem fma_ok_swap_case2to6 (x y z : U128) (m : RoundingMode) (f : UInt32) {s1 s2 s3 : Bool} {c1 c2 c3 : Nat} {e1 e2 e3 : Int}
    (hx : dOf x = .fin s1 c1 e1) (hy : dOf y = .fin s2 c2 e2) (hz : dOf z = .fin s3 c3 e3) (h12 : c1 * c2 ≠ 0) (h3 : c3 ≠ 0)
    (hd : 0 < (ndigits (c1 * c2) : Int) + (e1 + e2) - ndigits c3 - e3) (hq4 : ndigits (c1 * c2) ≤ 34)
    (hd33 : (ndigits (c1 * c2) : Int) + (e1 + e2) - ndigits c3 - e3 ≤ 33)
    (hcase : ¬ ((ndigits (c1 * c2) : Int) + (e1 + e2) - ndigits c3 - e3 ≤ 1 ∧ (s1 != s2) ≠ s3)) : FmaOK x y z m f := by
  refine FmaOK.of_ext ?_
  obtain ⟨zs, ps, ze, pe, C3, C4, q3, q4, e3w, e4w, tmp, hh, hfront⟩ := front_spec false false false false x y z m f hx hy hz h12 h3
  unfold ExtFmaOK; rw [hx, hy, hz]
  exact ext_fma_swap_mid midWideSpec _ _ _ _ x y z m f (HandoverFacts.of hh h12 h3) tmp hfront hd hq4 hd33 hcase

-- old Case (18) with the product's exponent below −6176 (second pass, Case (6)): by the theorem, and by running the routine
example : (bid128_fma (ofBits (encode (.fin false (10^16+1) (-3100)))) (ofBits (encode (.fin false (10^16+3) (-3100))))
      (ofBits (encode (.fin true 5 (-6176)))) .TowardZero 0).toOption =
    some (ofBits (encode (.fin false 99999995 (-6176))), 0x30) := by decide +kernel

/-! ## 5. The `z = 0` path composed: (b) from the block theorems of C02GenFmaZ0 -/

open Dec.C02GenFmaZ0 (TinySpec z0K_big)
open Dec.RH (Ind)

/-- the block theorem for products of at most 34 digits, in the form of `C02GenFmaZ0.z0K_big` -/
def Z0SmallSpec : Prop :=
  ∀ (m : RoundingMode) (s : Bool) (N : Nat) (hN : 0 < N) (h34 : N < 10 ^ 34) (E : Int)
    (hElo : -12352 ≤ E) (hEhi : E ≤ 12222) (C3 : U128) (hC3 : C3.w1 = 0 ∧ C3.w0 = 0) (C4 : U256) (hC4 : C4.toNat' = N)
    (q4 e3 e4 : Int32) (hq4 : q4.toInt = ndigits N) (he4 : e4.toInt = E) (E3 : Int) (he3 : e3.toInt = E3)
    (hE3 : -6176 ≤ E3 ∧ E3 ≤ 6111) (z_exp : UInt64) (hze : z_exp.toNat = (E3 + 6176).toNat * 2 ^ 49) (f : UInt32)
    (k : Except String Out),
    ∃ i : Ind,
      z0K C3 C4 q4 e3 e4 z_exp (sgnW s) m f k =
        .ok (ofBits (encode (finish (modeOf m) s N 1 E (if E ≤ E3 then E else E3)).1),
             i.midLtEven, i.midGtEven, i.inexLtMid, i.inexGtMid,
             f ||| UInt32.ofNat (finish (modeOf m) s N 1 E (if E ≤ E3 then E else E3)).2)

/-- the model on a zero addend: the product, finished once, preferred exponent `min (e1 + e2, e3)` -/
theorem fmaD_zero_addend (mode : Mode) (s1 s2 s3 : Bool) (c1 c2 : Nat) (e1 e2 e3 : Int) (h12 : c1 * c2 ≠ 0) :
    fmaD mode false (.fin s1 c1 e1) (.fin s2 c2 e2) (.fin s3 0 e3) =
      finish mode (s1 != s2) (c1 * c2) 1 (e1 + e2) (if e1 + e2 ≤ e3 then e1 + e2 else e3) := by
  have hpos : 0 < c1 * c2 := Nat.pos_of_ne_zero h12
  show addFin mode (s1 != s2) (c1 * c2) (e1 + e2) s3 0 e3 (if e1 + e2 ≤ e3 then e1 + e2 else e3) false = _
  unfold addFin
  simp only [Nat.zero_mul]
  have hz : sInt s3 0 = 0 := by simp [sInt]
  rw [hz, add_zero]
  generalize hm : (if e1 + e2 ≤ e3 then e1 + e2 else e3) = mm
  generalize hk : (e1 + e2 - mm).toNat = k
  have hke : e1 + e2 = mm + (k : Int) := by rw [← hk, ← hm]; split <;> omega
  have hp : 0 < c1 * c2 * 10 ^ k := Nat.mul_pos hpos (Nat.pow_pos (by decide))
  have hfin : finish mode (s1 != s2) (c1 * c2 * 10 ^ k) 1 mm mm = finish mode (s1 != s2) (c1 * c2) 1 (e1 + e2) mm := by
    apply Dec.C04ScanNum.finish_congr_val _ _ _ _ _ _ _ _ _ hp (by decide) hpos (by decide)
    rw [hke, zpow_add₀ (by norm_num : (10 : ℚ) ≠ 0), zpow_natCast]
    push_cast; ring
  cases hs : (s1 != s2)
  · have e : sInt false (c1 * c2 * 10 ^ k) = ((c1 * c2 * 10 ^ k : Nat) : Int) := by simp [sInt]
    rw [hs] at hfin
    rw [e, if_neg (by omega), Int.natAbs_natCast]
    have : decide (((c1 * c2 * 10 ^ k : Nat) : Int) < 0) = false := by simp only [decide_eq_false_iff_not]; omega
    rw [this]; exact hfin
  · have e : sInt true (c1 * c2 * 10 ^ k) = -((c1 * c2 * 10 ^ k : Nat) : Int) := by simp [sInt]
    rw [hs] at hfin
    rw [e, if_neg (by omega), Int.natAbs_neg, Int.natAbs_natCast]
    have : decide (-((c1 * c2 * 10 ^ k : Nat) : Int) < 0) = true := by simp only [decide_eq_true_eq]; omega
    rw [this]; exact hfin

/-- **(b) from the block theorems**: `TinySpec` (C02GenFmaZ0Tiny), `z0K_big` (C02GenFmaZ0), `Z0SmallSpec` -/
theorem z0Spec_of (TS : TinySpec) (SS : Z0SmallSpec) : Z0Spec := by
  intro p1 p2 p3 p4 x y z m f s1 s2 s3 c1 c2 e1 e2 e3 hx hy hz h12
  obtain ⟨C3, C4, q4, e3w, e4w, ze, ps, k, hh, hfront⟩ :=
    Dec.C02GenFmaFrontSpec.front_z0 p1 p2 p3 p4 x y z m f hx hy hz h12
  unfold ExtFmaOK
  rw [hx, hy, hz, fmaD_zero_addend _ _ _ _ _ _ _ _ _ h12, hfront, hh.hps]
  by_cases hbig : 10 ^ 34 ≤ c1 * c2
  · obtain ⟨i, hi⟩ := z0K_big TS m (s1 != s2) (c1 * c2) hbig hh.hN (e1 + e2) (by have := hh.hE; omega) (by have := hh.hE; omega)
      C3 hh.hC3 C4 hh.hC4 q4 e3w e4w hh.hq4 hh.he4 e3 hh.he3 hh.hE3 ze hh.hze f k
    exact ⟨_, _, _, _, hi⟩
  · obtain ⟨i, hi⟩ := SS m (s1 != s2) (c1 * c2) hh.hN0 (by omega) (e1 + e2) hh.hE.1 hh.hE.2
      C3 hh.hC3 C4 hh.hC4 q4 e3w e4w hh.hq4 hh.he4 e3 hh.he3 hh.hE3 ze hh.hze f k
    exact ⟨_, _, _, _, hi⟩

end Dec.C02GenFmaAssembly2
