/-
  C06GenToIntRN — the round-to-nearest copies of bid128_to_int32.rs (`rnint`, `xrnint`, `rninta`, `xrninta`), on top of the
  blocks and lemmas of `C06GenToInt`.
-/
import DecProofs.Properties.C06GenToInt

set_option linter.unusedSimpArgs false
set_option linter.unusedVariables false
set_option linter.unnecessarySeqFocus false

namespace Dec.C06GenToInt
open Dec.Rs Dec.Gen.Code
open Dec.C03GenCompare (val128 val128_lt sigW sigF zeroP nzFin negW expW expW_lt val192 val256 inf_test steer_test val128_sigF ite_ok mul_128x128_to_256_spec)
open Dec.C13GenNoncomp (float_exp tblDD_nr nr_q log2_shift log2_hi toI_u64 toI_u32 toI_i32 u64_ofInt_nat u32_ofInt_nat shr32 nr_bound i32_of_small)

/-! ### block variants that occur in these copies -/

/-- the digit count with the bit length held in an `i32` (as `xrnint` has it) -/
def nrDigitsK2 {α : Type} (C1 : U128) (k : Int32 → Except String α) : Except String α := do
  let mut tmp1 : F64U := default
  let mut x_nr_bits : Int32 := default
  let mut q : Int32 := default
  if (C1.w1 == (0 : UInt64)) then
    if (decide (C1.w0 ≥ (0x20000000000000 : UInt64))) then
      tmp1 := (F64U.ofU64 (UInt64.ofInt (toI ((C1.w0 >>> 0x20)))))
      x_nr_bits := (Int32.ofInt (toI (((0x21 : UInt32) + ((((((UInt32.ofInt (toI ((tmp1.bits >>> 0x34))))) &&& (0x7ff : UInt32))) - (0x3ff : UInt32)))))))
    else
      tmp1 := (F64U.ofU64 (UInt64.ofInt (toI C1.w0)))
      x_nr_bits := (Int32.ofInt (toI (((1 : UInt32) + ((((((UInt32.ofInt (toI ((tmp1.bits >>> 0x34))))) &&& (0x7ff : UInt32))) - (0x3ff : UInt32)))))))
  else
    tmp1 := (F64U.ofU64 (UInt64.ofInt (toI C1.w1)))
    x_nr_bits := (Int32.ofInt (toI (((0x41 : UInt32) + ((((((UInt32.ofInt (toI ((tmp1.bits >>> 0x34))))) &&& (0x7ff : UInt32))) - (0x3ff : UInt32)))))))
  q := (Int32.ofInt (toI ((← tblDD Dec.Gen.BID_NR_DIGITS (UInt64.ofInt (toI ((x_nr_bits - (1 : Int32)))))).digits)))
  if (q == (0 : Int32)) then
    q := (Int32.ofInt (toI ((← tblDD Dec.Gen.BID_NR_DIGITS (UInt64.ofInt (toI ((x_nr_bits - (1 : Int32)))))).digits1)))
    if (← (if (decide (C1.w1 > (← tblDD Dec.Gen.BID_NR_DIGITS (UInt64.ofInt (toI ((x_nr_bits - (1 : Int32)))))).threshold_hi)) then pure true else (do pure ((← (if (C1.w1 == (← tblDD Dec.Gen.BID_NR_DIGITS (UInt64.ofInt (toI ((x_nr_bits - (1 : Int32)))))).threshold_hi) then (do pure (decide (C1.w0 ≥ (← tblDD Dec.Gen.BID_NR_DIGITS (UInt64.ofInt (toI ((x_nr_bits - (1 : Int32)))))).threshold_lo))) else pure false)))))) then
      q := (q + 1)
  k q

/-- the front end, generic in the digit-count block -/
def frontKg {α : Type} (nd : U128 → (Int32 → Except String α) → Except String α) (x : U128) (inv zero : Except String α)
    (k : UInt64 → U128 → Int32 → Int32 → Except String α) : Except String α :=
  if (((x.w1 &&& c_MASK_SPECIAL)) == c_MASK_SPECIAL) then inv
  else if ((((decide ((x.w1 &&& c_MASK_COEFF) > (0x1ed09bead87c0 : UInt64)))) || ((((x.w1 &&& c_MASK_COEFF) == (0x1ed09bead87c0 : UInt64)) && ((decide (x.w0 > (0x378d8e63ffffffff : UInt64))))))) || ((((x.w1 &&& (0x6000000000000000 : UInt64))) == (0x6000000000000000 : UInt64)))) then zero
  else if ((((x.w1 &&& c_MASK_COEFF) == (0 : UInt64))) && ((x.w0 == (0 : UInt64)))) then zero
  else nd ⟨x.w0, x.w1 &&& c_MASK_COEFF⟩ (fun q =>
    k (x.w1 &&& c_MASK_SIGN) ⟨x.w0, x.w1 &&& c_MASK_COEFF⟩ q (Int32.ofInt (toI (((((x.w1 &&& c_MASK_EXP) >>> 0x31)) - (0x1820 : UInt64))))))

/-- the comparison of a coefficient of `q` digits with the midpoint `5·10^(q−1)` (operands in `[0.1, 1)`), `cmp` being
`≤` or `<`; the 64-bit and the 128-bit case continue separately -/
def midTestK {α : Type} (cmp : UInt64 → UInt64 → Bool) (C1 : U128) (q : Int32) (k64 k128 : Bool → Except String α) :
    Except String α :=
  let ind := (q - (1 : Int32))
  if (decide (ind ≤ (0x12 : Int32))) then do
    let b ← (if ((C1.w1 == (0 : UInt64))) then (do pure ((cmp C1.w0 (← tbl64 Dec.Gen.BID_MIDPOINT64 (UInt64.ofInt (toI ind)))))) else pure false)
    k64 b
  else do
    let b ← (if ((decide (C1.w1 < (← tbl128 Dec.Gen.BID_MIDPOINT128 (UInt64.ofInt (toI ((ind - (0x13 : Int32)))))).w1))) then pure true else (do pure ((← (if ((C1.w1 == (← tbl128 Dec.Gen.BID_MIDPOINT128 (UInt64.ofInt (toI ((ind - (0x13 : Int32)))))).w1)) then (do pure ((cmp C1.w0 (← tbl128 Dec.Gen.BID_MIDPOINT128 (UInt64.ofInt (toI ((ind - (0x13 : Int32)))))).w0))) else pure false)))))
    k128 b

/-- the product split without the fraction (as `rninta` has it) -/
def splitCK {α : Type} (C1 : U128) (ind : Int32) (k : U128 → Except String α) : Except String α := do
  let mut Cstar : U128 := default
  let mut P256 : U256 := default
  let mut shift : Int32 := default
  P256 := (← mul_128x128_to_256 C1 (← tbl128 Dec.Gen.BID_TEN2MK128 (UInt64.ofInt (toI ((ind - (1 : Int32)))))))
  if (decide ((ind - (1 : Int32)) ≤ (0x15 : Int32))) then
    Cstar := { Cstar with w1 := P256.w3 }
    Cstar := { Cstar with w0 := P256.w2 }
  else
    Cstar := { Cstar with w1 := (0 : UInt64) }
    Cstar := { Cstar with w0 := P256.w3 }
  shift := (← tblI32 Dec.Gen.BID_SHIFTRIGHT128 (UInt64.ofInt (toI ((ind - (1 : Int32))))))
  Cstar := { Cstar with w0 := (if (decide ((ind - (1 : Int32)) ≤ (0x15 : Int32))) then (((Cstar.w0 >>> (UInt64.ofInt (toI shift)))) ||| ((Cstar.w1 <<< (UInt64.ofInt (toI (((0x40 : Int32) - shift))))))) else (Cstar.w0 >>> (UInt64.ofInt (toI ((shift - (0x40 : Int32))))))) }
  k Cstar

/-- the product split with the shift written as a statement (as `xrninta` has it) -/
def splitK2 {α : Type} (C1 : U128) (ind : Int32) (k : U128 → U256 → Except String α) : Except String α := do
  let mut Cstar : U128 := default
  let mut fstar : U256 := default
  let mut P256 : U256 := default
  let mut shift : Int32 := default
  P256 := (← mul_128x128_to_256 C1 (← tbl128 Dec.Gen.BID_TEN2MK128 (UInt64.ofInt (toI ((ind - (1 : Int32)))))))
  if (decide ((ind - (1 : Int32)) ≤ (0x15 : Int32))) then
    Cstar := { Cstar with w1 := P256.w3 }
    Cstar := { Cstar with w0 := P256.w2 }
    fstar := { fstar with w3 := (0 : UInt64) }
    fstar := { fstar with w2 := (P256.w2 &&& (← tbl64 Dec.Gen.BID_MASKHIGH128 (UInt64.ofInt (toI ((ind - (1 : Int32))))))) }
    fstar := { fstar with w1 := P256.w1 }
    fstar := { fstar with w0 := P256.w0 }
  else
    Cstar := { Cstar with w1 := (0 : UInt64) }
    Cstar := { Cstar with w0 := P256.w3 }
    fstar := { fstar with w3 := (P256.w3 &&& (← tbl64 Dec.Gen.BID_MASKHIGH128 (UInt64.ofInt (toI ((ind - (1 : Int32))))))) }
    fstar := { fstar with w2 := P256.w2 }
    fstar := { fstar with w1 := P256.w1 }
    fstar := { fstar with w0 := P256.w0 }
  shift := (← tblI32 Dec.Gen.BID_SHIFTRIGHT128 (UInt64.ofInt (toI ((ind - (1 : Int32))))))
  if (decide ((ind - (1 : Int32)) ≤ (0x15 : Int32))) then
    Cstar := { Cstar with w0 := (((Cstar.w0 >>> (UInt64.ofInt (toI shift)))) ||| ((Cstar.w1 <<< (UInt64.ofInt (toI (((0x40 : Int32) - shift))))))) }
  else
    Cstar := { Cstar with w0 := (Cstar.w0 >>> (UInt64.ofInt (toI (shift - (0x40 : Int32))))) }
  k Cstar fstar

/-- no correction of the quotient word -/
def adjN {α : Type} (xs : UInt64) (lt gt mle mge : Bool) (w : UInt64) (k : UInt64 → Except String α) : Except String α := k w

/-- the skeleton of the round-to-nearest copies -/
def skelRN (nd : U128 → (Int32 → Except String (Int32 × UInt32)) → Except String (Int32 × UInt32)) (P : RangeP) (f : UInt32)
    (small0 : Except String (Int32 × UInt32)) (midB : UInt64 → U128 → Int32 → Except String (Int32 × UInt32))
    (remAll : UInt64 → U128 → Int32 → Except String (Int32 × UInt32))
    (pe : UInt64 → U128 → Int32 → (Int32 → Except String (Int32 × UInt32)) → Except String (Int32 × UInt32))
    (x : U128) : Except String (Int32 × UInt32) :=
  frontKg nd x (INV f) (.ok (0, f)) (fun x_sign C1 q exp =>
    rangeK P x_sign C1 q exp (INV f)
      (if decide (q + exp < (0 : Int32)) then small0
       else if (q + exp == (0 : Int32)) then midB x_sign C1 q
       else if decide (exp < (0 : Int32)) then remAll x_sign C1 (-exp)
       else if (exp == (0 : Int32)) then fin32 f (resOf x_sign C1.w0)
       else pe x_sign C1 exp (fin32 f)))

def P_rnint : RangeP := ⟨0x500000005, true, 0x4fffffffb, false⟩
def P_rninta : RangeP := ⟨0x500000005, false, 0x4fffffffb, false⟩
def G_xrn : GlueP := ⟨false, false, true, false, false, true, false, false, false, false, false, false, false, false⟩
def pm1 (xs : UInt64) : Int32 := (if (xs != (0 : UInt64)) then 0xffffffff else 1)

set_option maxRecDepth 100000 in
set_option maxHeartbeats 1000000 in
theorem rnint_unfold (x : U128) (f : UInt32) :
    bid128_to_int32_rnint x f =
      skelRN nrDigitsK P_rnint f (.ok (0, f))
        (fun xs C1 q => midTestK (fun a b => decide (a ≤ b)) C1 q
          (fun b => fin32 f (if b then 0 else pm1 xs))
          (fun b => if b then fin32 f 0 else if (xs != (0 : UInt64)) then fin32 f 0xffffffff else fin32 f 1))
        (fun xs C1 ind => removeK C1 ind (fun Cs fs =>
          midK fs ind (if (((Cs.w0 &&& (1 : UInt64))) == (1 : UInt64)) then fin32 f (resOf xs (Cs.w0 - 1)) else fin32 f (resOf xs Cs.w0))
            (fin32 f (resOf xs Cs.w0))))
        posExpK' x := rfl

set_option maxRecDepth 100000 in
set_option maxHeartbeats 1000000 in
theorem rninta_unfold (x : U128) (f : UInt32) :
    bid128_to_int32_rninta x f =
      skelRN nrDigitsK P_rninta f (.ok (0, f))
        (fun xs C1 q => midTestK (fun a b => decide (a < b)) C1 q
          (fun b => fin32 f (if b then 0 else pm1 xs)) (fun b => fin32 f (if b then 0 else pm1 xs)))
        (fun xs C1 ind => addHalfK C1 ind (fun C1' => splitCK C1' ind (fun Cs => fin32 f (resOf xs Cs.w0))))
        posExpK x := rfl

set_option maxRecDepth 100000 in
set_option maxHeartbeats 1000000 in
theorem xrnint_unfold (x : U128) (f : UInt32) :
    bid128_to_int32_xrnint x f =
      skelRN nrDigitsK2 P_rnint f (.ok (0, IX f))
        (fun xs C1 q => midTestK (fun a b => decide (a ≤ b)) C1 q
          (fun b => fin32 (IX f) (if b then 0 else pm1 xs)) (fun b => fin32 (IX f) (if b then 0 else pm1 xs)))
        (fun xs C1 ind => removeK C1 ind (fun Cs fs => remG adjN G_xrn f xs Cs fs ind))
        posExpK' x := rfl

set_option maxRecDepth 100000 in
set_option maxHeartbeats 1000000 in
theorem xrninta_unfold (x : U128) (f : UInt32) :
    bid128_to_int32_xrninta x f =
      skelRN nrDigitsK P_rninta f (.ok (0, IX f))
        (fun xs C1 q => midTestK (fun a b => decide (a < b)) C1 q
          (fun b => fin32 (IX f) (if b then 0 else pm1 xs)) (fun b => fin32 (IX f) (if b then 0 else pm1 xs)))
        (fun xs C1 ind => addHalfK C1 ind (fun C1' => splitK2 C1' ind (fun Cs fs =>
          fracK fs ind (fin32 (IX f) (resOf xs Cs.w0)) (fin32 f (resOf xs Cs.w0)) (fin32 (IX f) (resOf xs Cs.w0)))))
        posExpK x := rfl

/-! ### specifications of the block variants -/

theorem nrDigitsK2_row {α : Type} (C1 : U128) (k : Int32 → Except String α) (i : Nat) (D D1 : UInt32) (THI TLO : UInt64)
    (hrow : tblDD Dec.Gen.BID_NR_DIGITS (UInt64.ofNat i) = .ok ⟨D, THI, TLO, D1⟩)
    (hidx : (if (C1.w1 == 0) = true then
        (if decide (C1.w0 ≥ 0x20000000000000) = true then
          UInt64.ofInt (toI (Int32.ofInt (toI ((0x21 : UInt32) + (((UInt32.ofInt (toI ((F64U.ofU64 (UInt64.ofInt (toI (C1.w0 >>> 0x20)))).bits >>> 0x34))) &&& 0x7ff) - 0x3ff))) - 1))
         else UInt64.ofInt (toI (Int32.ofInt (toI ((1 : UInt32) + (((UInt32.ofInt (toI ((F64U.ofU64 (UInt64.ofInt (toI C1.w0))).bits >>> 0x34))) &&& 0x7ff) - 0x3ff))) - 1)))
       else UInt64.ofInt (toI (Int32.ofInt (toI ((0x41 : UInt32) + (((UInt32.ofInt (toI ((F64U.ofU64 (UInt64.ofInt (toI C1.w1))).bits >>> 0x34))) &&& 0x7ff) - 0x3ff))) - 1)))
      = UInt64.ofNat i) :
    nrDigitsK2 C1 k = k (nrRow D D1 THI TLO C1) := by
  have := C1.w0.toNat_lt; have := TLO.toNat_lt
  unfold nrDigitsK2 nrRow
  simp only [bind, Except.bind, pure, Except.pure]
  have ev : ∀ (b : Except String Bool) (v : Bool), b = .ok v →
      (match b with
        | .error e => (.error e : Except String α)
        | .ok v_2 => if v_2 = true then k (Int32.ofInt (toI D1) + 1) else k (Int32.ofInt (toI D1))) =
      k (if v = true then Int32.ofInt (toI D1) + 1 else Int32.ofInt (toI D1)) := by
    intro b v hb; subst hb; cases v <;> rfl
  have key : (if decide (C1.w1 > THI) = true then Except.ok true
      else if (C1.w1 == THI) = true then Except.ok (decide (C1.w0 ≥ TLO)) else (Except.ok false : Except String Bool))
      = .ok (decide (THI.toNat * 2^64 + TLO.toNat ≤ C1.w1.toNat * 2^64 + C1.w0.toNat)) := by
    by_cases h1 : C1.w1 > THI
    · have : THI.toNat * 2^64 + TLO.toNat ≤ C1.w1.toNat * 2^64 + C1.w0.toNat := by
        rw [gt_iff_lt, UInt64.lt_iff_toNat_lt] at h1; omega
      simp only [h1, decide_true, if_true, this]
    · by_cases h2 : C1.w1 = THI
      · have : (THI.toNat * 2^64 + TLO.toNat ≤ C1.w1.toNat * 2^64 + C1.w0.toNat) ↔ C1.w0 ≥ TLO := by
          rw [ge_iff_le, UInt64.le_iff_toNat_le, h2]; omega
        rw [h2] at this
        simp only [h2, gt_iff_lt, UInt64.lt_irrefl, decide_false, Bool.false_eq_true, if_false, beq_self_eq_true, if_true]
        rw [decide_eq_decide.2 this]
      · have : ¬ THI.toNat * 2^64 + TLO.toNat ≤ C1.w1.toNat * 2^64 + C1.w0.toNat := by
          rw [gt_iff_lt, UInt64.lt_iff_toNat_lt] at h1
          rw [← UInt64.toNat_inj] at h2
          omega
        have h2' : (C1.w1 == THI) = false := by rw [beq_eq_false_iff_ne]; exact h2
        simp only [h1, decide_false, Bool.false_eq_true, if_false, h2', this]
  have fin : (if (Int32.ofInt (toI D) == 0) = true then
        k (if decide (THI.toNat * 2^64 + TLO.toNat ≤ C1.w1.toNat * 2^64 + C1.w0.toNat) = true
          then Int32.ofInt (toI D1) + 1 else Int32.ofInt (toI D1))
      else k (Int32.ofInt (toI D))) =
      k (if Int32.ofInt (toI D) = 0 then
        (if THI.toNat * 2^64 + TLO.toNat ≤ C1.w1.toNat * 2^64 + C1.w0.toNat then Int32.ofInt (toI D1) + 1 else Int32.ofInt (toI D1))
        else Int32.ofInt (toI D)) := by
    by_cases h0 : Int32.ofInt (toI D) = 0
    · simp only [h0, beq_self_eq_true, if_true, decide_eq_true_eq]
    · have h0' : (Int32.ofInt (toI D) == 0) = false := by rw [beq_eq_false_iff_ne]; exact h0
      simp only [h0', Bool.false_eq_true, if_false, h0]
  by_cases c1 : (C1.w1 == 0) = true
  · rw [if_pos c1] at hidx
    rw [if_pos c1]
    by_cases c2 : decide (C1.w0 ≥ 0x20000000000000) = true
    · rw [if_pos c2] at hidx
      rw [if_pos c2, hidx]
      simp only [hrow, key, ev _ _ rfl, fin]
    · rw [if_neg c2] at hidx
      rw [if_neg c2, hidx]
      simp only [hrow, key, ev _ _ rfl, fin]
  · rw [if_neg c1] at hidx
    rw [if_neg c1, hidx]
    simp only [hrow, key, ev _ _ rfl, fin]



/-- **digit count**: for a non-zero coefficient below 2^113 the block continues with the number of decimal digits (as an
`Int32`); no table access panics -/
theorem nrDigitsK2_spec (C1 : U128) (h0 : 0 < val128 C1) (hC : val128 C1 < 2^113) :
    ∃ Q : Int32, Q.toInt = (ndigits (val128 C1) : Int) ∧
      ∀ {α : Type} (k : Int32 → Except String α), nrDigitsK2 C1 k = k Q := by
  have hl := C1.w0.toNat_lt
  have hL : (val128 C1).log2 < 113 := (Nat.log2_lt (by omega)).2 hC
  have hq := nr_q (val128 C1) h0 hC
  refine ⟨_, hq, fun k => ?_⟩
  have hrow := tblDD_nr _ hL
  rw [nrDigitsK2_row C1 k _ _ _ _ _ hrow]
  · rfl
  · unfold val128 at *
    by_cases c5 : C1.w1.toNat = 0
    · rw [if_pos (by rw [u64_beq0]; simpa using c5)]
      by_cases c6 : 2^53 ≤ C1.w0.toNat
      · rw [if_pos (by rw [Dec.C13GenNoncomp.u64_ge]; simpa using c6),
          Dec.C13GenNoncomp.nr_bits_idx _ 0x21 (by rw [shr32]; omega) (by rw [shr32]; omega) (by decide) (by decide)]
        rw [shr32, show UInt32.toNat 0x21 - 1 = 32 from by decide, log2_shift _ c6, c5]
        simp only [Nat.zero_mul, Nat.zero_add]
      · rw [if_neg (by rw [Dec.C13GenNoncomp.u64_ge]; simpa using c6),
          Dec.C13GenNoncomp.nr_bits_idx _ 1 (by omega) (by omega) (by decide) (by decide)]
        rw [show UInt32.toNat 1 - 1 = 0 from by decide, c5]
        simp only [Nat.zero_mul, Nat.zero_add]
    · rw [if_neg (by rw [u64_beq0]; simpa using c5),
        Dec.C13GenNoncomp.nr_bits_idx _ 0x41 (by omega) (by omega) (by decide) (by decide)]
      rw [show UInt32.toNat 0x41 - 1 = 64 from by decide, log2_hi _ _ c5 hl]



/-- **front end**: NaN / infinity → `inv`; zeros (non-canonical encodings included) → `zero`; otherwise the continuation gets
the sign word, the coefficient words, the digit count of the coefficient and the unbiased exponent -/
theorem frontKg_spec {α : Type} (nd : U128 → (Int32 → Except String α) → Except String α)
    (hnd : ∀ C1 : U128, 0 < val128 C1 → val128 C1 < 2^113 → ∃ Q : Int32, Q.toInt = (ndigits (val128 C1) : Int) ∧ ∀ k, nd C1 k = k Q)
    (x : U128) (inv zero : Except String α)
    (k : UInt64 → U128 → Int32 → Int32 → Except String α) :
    (x.w1.toNat / 2^59 % 16 = 15 → frontKg nd x inv zero k = inv) ∧
    (x.w1.toNat / 2^59 % 16 ≠ 15 → zeroP x.w1.toNat x.w0.toNat → frontKg nd x inv zero k = zero) ∧
    (nzFin x → ∃ Q E : Int32, Q.toInt = (ndigits (sigW x.w1.toNat x.w0.toNat) : Int) ∧
      E.toInt = (expW x.w1.toNat : Int) - 6176 ∧
      frontKg nd x inv zero k = k (x.w1 &&& c_MASK_SIGN) (sigF x) Q E) := by
  have hl := x.w0.toNat_lt
  have e1 : ((x.w1 &&& c_MASK_SPECIAL) == c_MASK_SPECIAL) = decide (x.w1.toNat / 2^59 % 16 = 15) := inf_test x.w1
  have e2 : (decide ((x.w1 &&& c_MASK_COEFF) > (0x1ed09bead87c0 : UInt64)) ||
      ((x.w1 &&& c_MASK_COEFF) == (0x1ed09bead87c0 : UInt64) && decide (x.w0 > (0x378d8e63ffffffff : UInt64))) ||
      ((x.w1 &&& (0x6000000000000000 : UInt64)) == (0x6000000000000000 : UInt64)) ||
      ((x.w1 &&& c_MASK_COEFF) == (0 : UInt64) && x.w0 == (0 : UInt64))) = decide (zeroP x.w1.toNat x.w0.toNat) :=
    by rw [← Dec.C03GenCompare.zeroTest_eq x]; unfold Dec.C03GenCompare.zeroTest; rw [← steer_test]; rfl
  unfold frontKg
  rw [e1]
  refine ⟨fun h => by rw [if_pos (by simpa using h)], fun h hz => ?_, fun ⟨h, hz⟩ => ?_⟩
  · rw [if_neg (by simpa using h)]
    by_cases c : ((decide ((x.w1 &&& c_MASK_COEFF) > (0x1ed09bead87c0 : UInt64)) ||
      ((x.w1 &&& c_MASK_COEFF) == (0x1ed09bead87c0 : UInt64) && decide (x.w0 > (0x378d8e63ffffffff : UInt64))) ||
      ((x.w1 &&& (0x6000000000000000 : UInt64)) == (0x6000000000000000 : UInt64)))) = true
    · rw [if_pos c]
    · rw [if_neg c]
      have : ((x.w1 &&& c_MASK_COEFF) == (0 : UInt64) && x.w0 == (0 : UInt64)) = true := by
        have := e2
        rw [Bool.not_eq_true] at c
        rw [c, Bool.false_or, decide_eq_true hz] at this
        exact this
      rw [if_pos this]
  · rw [if_neg (by simpa using h)]
    have e3 := e2
    rw [decide_eq_false hz, Bool.or_eq_false_iff] at e3
    rw [if_neg (by rw [e3.1]; decide), if_neg (by rw [e3.2]; decide), sigF_eq]
    have hz' := hz
    unfold zeroP at hz'
    have hs : 0 < sigW x.w1.toNat x.w0.toNat := by omega
    have hs' : sigW x.w1.toNat x.w0.toNat < 2^113 := by unfold sigW; omega
    rw [← val128_sigF] at hs hs'
    obtain ⟨Q, hQ, hk⟩ := hnd (sigF x) hs hs'
    rw [val128_sigF] at hQ
    exact ⟨Q, _, hQ, exp_toInt x.w1, hk _⟩



/-- **midpoint comparison for operands in [0.1, 1)**: the continuation gets `C ≤ 5·10^(n−1)` (or `<`) -/
theorem midTestK_spec {α : Type} (cmp : UInt64 → UInt64 → Bool) (strict : Bool)
    (hcmp : ∀ a b : UInt64, cmp a b = if strict then decide (a.toNat < b.toNat) else decide (a.toNat ≤ b.toNat))
    (C1 : U128) (q : Int32) (k64 k128 : Bool → Except String α) (n : Nat) (hq : q.toInt = n) (h1 : 1 ≤ n) (h34 : n ≤ 34) :
    midTestK cmp C1 q k64 k128 =
      (if n ≤ 19 then k64 else k128)
        (if strict then decide (val128 C1 < 5 * 10 ^ (n - 1)) else decide (val128 C1 ≤ 5 * 10 ^ (n - 1))) := by
  obtain ⟨-, -, -, -, -, -, -, -, -, -, -, -, hmid⟩ := row (n - 1) (by omega)
  have hl := C1.w0.toNat_lt
  have d1 : (q - 1).toInt = ((n - 1 : Nat) : Int) := by
    rw [i32_sub _ _ (by rw [hq]; show (-2^31 : Int) ≤ n - 1; omega) (by rw [hq]; show (n : Int) - 1 < 2^31; omega), hq]
    show (n : Int) - 1 = _; omega
  generalize hM : 5 * 10 ^ (n - 1) = M at *
  unfold midTestK
  simp only []
  by_cases c : n ≤ 19
  · rw [if_pos c, if_pos (by rw [decide_eq_true_eq, Int32.le_iff_toInt_le, d1]; show ((n - 1 : Nat) : Int) ≤ 18; omega)]
    rw [if_pos (by omega)] at hmid
    have hk := idx_of_i32 _ _ d1
    have hMlt : M < 2^64 := by
      rw [← hM]
      calc 5 * 10 ^ (n - 1) ≤ 5 * 10 ^ 18 := Nat.mul_le_mul_left 5 (Nat.pow_le_pow_right (by decide) (by omega))
        _ < 2^64 := by decide
    simp only [bind, Except.bind, pure, Except.pure, tbl64_get _ _ _ (by rw [hk]; exact hmid), ite_ok, hcmp,
      UInt64.toNat_ofNat', Nat.mod_eq_of_lt hMlt]
    congr 1
    unfold val128
    by_cases c0 : C1.w1 = 0
    · have : C1.w1.toNat = 0 := by rw [c0]; rfl
      simp only [c0, beq_self_eq_true, if_true, UInt64.toNat_zero, Nat.zero_mul, Nat.zero_add]
    · have h0 : (C1.w1 == 0) = false := by rw [beq_eq_false_iff_ne]; exact c0
      have : 0 < C1.w1.toNat := by
        rw [← UInt64.toNat_inj] at c0; exact Nat.pos_of_ne_zero c0
      simp only [h0, Bool.false_eq_true, if_false]
      cases strict <;> simp only [Bool.false_eq_true, if_true, if_false] <;> symm <;> rw [decide_eq_false_iff_not] <;> omega
  · rw [if_neg c, if_neg (by rw [decide_eq_true_eq, Int32.le_iff_toInt_le, d1]; show ¬ ((n - 1 : Nat) : Int) ≤ 18; omega)]
    rw [if_neg (by omega), show n - 1 - 19 = n - 20 by omega] at hmid
    have hk := idx_sub (q - 1) 0x13 (n - 1) 19 d1 rfl (by omega) (by omega)
    rw [show n - 1 - 19 = n - 20 by omega] at hk
    have hMlt : M < 2^128 := by
      rw [← hM]
      calc 5 * 10 ^ (n - 1) ≤ 5 * 10 ^ 33 := Nat.mul_le_mul_left 5 (Nat.pow_le_pow_right (by decide) (by omega))
        _ < 2^128 := by decide
    simp only [bind, Except.bind, pure, Except.pure,
      tbl128_get _ _ _ _ (by rw [hk]; exact hmid.1) (by rw [hk]; exact hmid.2), ite_ok, ite_tt, ite_ff, hcmp]
    congr 1
    have e0 : (UInt64.ofNat (M % 2^64)).toNat = M % 2^64 := by rw [UInt64.toNat_ofNat', Nat.mod_mod]
    have e1 : (UInt64.ofNat (M / 2^64)).toNat = M / 2^64 := by rw [UInt64.toNat_ofNat', Nat.mod_eq_of_lt (by omega)]
    generalize UInt64.ofNat (M % 2^64) = m0 at *
    generalize UInt64.ofNat (M / 2^64) = m1 at *
    unfold val128
    cases strict <;> simp only [Bool.false_eq_true, if_true, if_false] <;> rw [Bool.eq_iff_iff] <;>
      simp only [Bool.or_eq_true, Bool.and_eq_true, decide_eq_true_eq, beq_iff_eq, UInt64.lt_iff_toNat_lt, ← UInt64.toNat_inj] <;>
      omega


theorem splitK2_eq {α : Type} (C1 : U128) (ind : Int32) (k : U128 → U256 → Except String α) :
    splitK2 C1 ind k = splitK C1 ind k := by
  simp only [splitK2, splitK, bind, Except.bind, pure, Except.pure]
  by_cases c : decide (ind - 1 ≤ 0x15) = true
  · simp only [c, if_true]
  · simp only [c, if_false, Bool.false_eq_true]

/-- the split without the fraction: the quotient word -/
theorem splitCK_spec {α : Type} (C1 : U128) (ind : Int32) (k : U128 → Except String α) (x : Nat)
    (hx : ind.toInt = x) (h1 : 1 ≤ x) (h34 : x ≤ 34) :
    ∃ (Cs : U128), splitCK C1 ind k = k Cs ∧
      (val128 C1 * kT (x - 1) / 2 ^ (128 + shT (x - 1)) < 2^64 →
        Cs.w0.toNat = val128 C1 * kT (x - 1) / 2 ^ (128 + shT (x - 1))) := by
  obtain ⟨-, -, -, hK, hk0, hk1, -, -, -, -, hsh, hrange, -⟩ := row (x - 1) (by omega)
  have hk := idx_sub ind 1 x 1 hx rfl h1 (by omega)
  have d1 : (ind - 1).toInt = ((x - 1 : Nat) : Int) := by
    rw [i32_sub _ _ (by rw [hx]; show (-2^31 : Int) ≤ x - 1; omega) (by rw [hx]; show (x : Int) - 1 < 2^31; omega), hx]
    show (x : Int) - 1 = _; omega
  obtain ⟨P, hP, Pv⟩ := mul_128x128_to_256_spec C1 ⟨UInt64.ofNat (kT (x - 1) % 2^64), UInt64.ofNat (kT (x - 1) / 2^64)⟩
  rw [val128_ofNat _ hK] at Pv
  obtain ⟨sh, hsh', shv⟩ := tblI32_get _ (UInt64.ofInt (toI (ind - 1))) _ (by rw [hk]; exact hsh)
    (by split at hrange <;> [skip; split at hrange] <;> omega)
  have hmlt : 2 ^ (shT (x - 1) % 64) - 1 < 2^64 := by
    have : 2 ^ (shT (x - 1) % 64) ≤ 2 ^ 63 := Nat.pow_le_pow_right (by decide) (by omega)
    omega
  obtain ⟨sw1, sw2⟩ := split_words P (shT (x - 1)) sh shv (UInt64.ofNat (2 ^ (shT (x - 1) % 64) - 1))
    (by rw [UInt64.toNat_ofNat', Nat.mod_eq_of_lt hmlt])
  simp only [splitCK, bind, Except.bind, pure, Except.pure]
  rw [tbl128_get _ _ _ _ (by rw [hk]; exact hk0) (by rw [hk]; exact hk1)]
  simp only [hP]
  by_cases c : x - 1 ≤ 21
  · have c' : decide (ind - 1 ≤ 0x15) = true := by
      rw [decide_eq_true_eq, Int32.le_iff_toInt_le, d1]; show ((x - 1 : Nat) : Int) ≤ 21; omega
    have hs63 : shT (x - 1) ≤ 63 := by
      by_cases c2 : x - 1 ≤ 2
      · rw [if_pos c2] at hrange; omega
      · rw [if_neg c2, if_pos c] at hrange; omega
    obtain ⟨q1, -⟩ := sw1 hs63
    simp only [c', if_true, hsh']
    refine ⟨_, rfl, ?_⟩
    intro hA; rw [← Pv] at hA ⊢; exact q1 hA
  · have c' : ¬ decide (ind - 1 ≤ 0x15) = true := by
      rw [decide_eq_true_eq, Int32.le_iff_toInt_le, d1]; show ¬ ((x - 1 : Nat) : Int) ≤ 21; omega
    have hs : 65 ≤ shT (x - 1) ∧ shT (x - 1) ≤ 127 := by
      rw [if_neg (by omega), if_neg c] at hrange; exact hrange
    obtain ⟨q1, -⟩ := sw2 hs.1 hs.2
    simp only [c', if_false, hsh']
    refine ⟨_, rfl, ?_⟩
    intro _; rw [← Pv]; exact q1


/-- what the skeletons need from the combined digit-removal step -/
def RemAllOK (mode : Mode) (xf : Bool) (f : UInt32) (remAll : UInt64 → U128 → Int32 → Except String (Int32 × UInt32)) : Prop :=
  ∀ (xs : UInt64) (s : Bool) (C1 : U128) (ind : Int32) (x : Nat), (xs != 0) = s → ind.toInt = x → 1 ≤ x → x ≤ 34 →
    val128 C1 < 10 ^ 34 → val128 C1 / 10 ^ x ≤ 10 ^ 10 →
    remAll xs C1 ind = .ok (Int32.ofInt (sInt s (roundInt mode s (val128 C1 / 10 ^ x) (val128 C1 % 10 ^ x) (10 ^ x))),
      f ||| ixFlag xf (val128 C1 % 10 ^ x == 0))

/-- digit removal followed by a treatment `rem` of quotient and fraction -/
theorem remAll_of_rem (mode : Mode) (xf : Bool) (f : UInt32) (rem : UInt64 → U128 → U256 → Int32 → Except String (Int32 × UInt32))
    (hrem : ∀ (xs : UInt64) (s : Bool) (Cs : U128) (fs : U256) (ind : Int32) (x a r : Nat), (xs != 0) = s → ind.toInt = x →
      1 ≤ x → x ≤ 34 → r < 10 ^ x → a ≤ 10 ^ 10 →
      Cs.w0.toNat = (if r < 5 * 10 ^ (x - 1) then a else a + 1) → FracOK x r fs →
      rem xs Cs fs ind = .ok (Int32.ofInt (sInt s (roundInt mode s a r (10 ^ x))), f ||| ixFlag xf (r == 0))) :
    RemAllOK mode xf f (fun xs C1 ind => removeK C1 ind (fun Cs fs => rem xs Cs fs ind)) := by
  intro xs s C1 ind x hs hx h1 h34 hC ha10
  obtain ⟨Cs, fs, hk, hA, hF⟩ := removeK_spec C1 ind (fun Cstar fstar => rem xs Cstar fstar ind) x hx h1 h34 hC
  have hAlt : (if val128 C1 % 10 ^ x < 5 * 10 ^ (x - 1) then val128 C1 / 10 ^ x else val128 C1 / 10 ^ x + 1) < 2^64 := by
    have : (10:Nat) ^ 10 + 1 < 2^64 := by decide
    split <;> omega
  simp only []
  rw [hk, hrem xs s Cs fs ind x _ _ hs hx h1 h34 (Nat.mod_lt _ (Nat.pow_pos (by decide))) ha10 (hA hAlt) hF]

open Dec.C03GenCompare (decode_bitsOf decodeW_kind nzFin_decode) in
/-- **the round-to-nearest skeleton is right** once its parameters are: the digit-count block, the range constants, the
answers for operands below 0.1 and in [0.1, 1), the combined digit-removal step, the positive-exponent block -/
theorem skelRN_spec (nd : U128 → (Int32 → Except String (Int32 × UInt32)) → Except String (Int32 × UInt32))
    (P : RangeP) (mode : Mode) (xf : Bool) (f : UInt32) (small0 : Except String (Int32 × UInt32))
    (midB : UInt64 → U128 → Int32 → Except String (Int32 × UInt32))
    (remAll : UInt64 → U128 → Int32 → Except String (Int32 × UInt32))
    (pe : UInt64 → U128 → Int32 → (Int32 → Except String (Int32 × UInt32)) → Except String (Int32 × UInt32))
    (hnd : ∀ C1 : U128, 0 < val128 C1 → val128 C1 < 2^113 → ∃ Q : Int32, Q.toInt = (ndigits (val128 C1) : Int) ∧ ∀ k, nd C1 k = k Q)
    (hP : RangeOK P mode) (hpe : PosExpOK pe)
    (hdir : ∀ s, dirOf mode s = .even ∨ dirOf mode s = .away)
    (hsmall0 : small0 = .ok (0, f ||| ixFlag xf false))
    (hmidB : ∀ (xs : UInt64) (s : Bool) (C1 : U128) (q : Int32), (xs != 0) = s → 0 < val128 C1 → val128 C1 < 10 ^ 34 →
      q.toInt = (ndigits (val128 C1) : Int) →
      midB xs C1 q = .ok (Int32.ofInt (sInt s (roundInt mode s 0 (val128 C1) (10 ^ ndigits (val128 C1)))), f ||| ixFlag xf false))
    (hrem : RemAllOK mode xf f remAll)
    (x : U128) :
    skelRN nd P f small0 midB remAll pe x = specOut mode xf x f := by
  obtain ⟨f1, f2, f3⟩ := frontKg_spec nd hnd x (INV f) (.ok (0, f)) (fun x_sign C1 q exp =>
    rangeK P x_sign C1 q exp (INV f)
      (if decide (q + exp < (0 : Int32)) then small0
       else if (q + exp == (0 : Int32)) then midB x_sign C1 q
       else if decide (exp < (0 : Int32)) then remAll x_sign C1 (-exp)
       else if (exp == (0 : Int32)) then fin32 f (resOf x_sign C1.w0)
       else pe x_sign C1 exp (fin32 f)))
  unfold skelRN specOut
  rw [decode_bitsOf]
  rcases decodeW_kind x.w1.toNat x.w0.toNat with ⟨hN, s, p, hd⟩ | ⟨hN, hI, hd⟩ | ⟨hI, hz, e, hd⟩ | ⟨hI, hS, hlt, hpos, hd⟩
  · rw [f1 (by omega), hd]; rfl
  · rw [f1 hI, hd]; rfl
  · rw [f2 hI hz, hd, toIntD_fin, magOf_zero, exactOf_zero]
    have : (0 : Nat) < if decide (x.w1.toNat / 2 ^ 63 % 2 = 1) = true then 2147483649 else 2147483648 := by split <;> omega
    rw [if_pos this]
    cases decide (x.w1.toNat / 2 ^ 63 % 2 = 1) <;> cases xf <;>
      exact congrArg Except.ok (Prod.ext rfl (UInt32.or_zero).symm)
  · -- finite non-zero
    have hnz : nzFin x := ⟨hI, by unfold zeroP; omega⟩
    obtain ⟨Q, E, hQ, hE, hk⟩ := f3 hnz
    rw [hk, hd, toIntD_fin]
    clear f1 f2 f3 hk
    have hsw : ((x.w1 &&& c_MASK_SIGN) != 0) = decide (x.w1.toNat / 2 ^ 63 % 2 = 1) := sign_word x.w1
    have hv : val128 (sigF x) = sigW x.w1.toNat x.w0.toNat := Dec.C03GenCompare.val128_sigF x
    have hel := expW_lt x.w1.toNat
    generalize x.w1 &&& c_MASK_SIGN = xs at *
    generalize decide (x.w1.toNat / 2 ^ 63 % 2 = 1) = s at *
    generalize hC1 : sigF x = C1 at *
    generalize hCv : sigW x.w1.toNat x.w0.toNat = C at *
    generalize hev : ((x.w1.toNat / 2 ^ 49 % 2 ^ 14 : Nat) : Int) - 6176 = e at *
    have hE' : E.toInt = e := by rw [hE, ← hev]; rfl
    have he1 : -10000 ≤ e := by rw [← hev]; omega
    have he2 : e ≤ 10000 := by
      rw [← hev]; have : x.w1.toNat / 2 ^ 49 % 2 ^ 14 < 2^14 := Nat.mod_lt _ (by decide); omega
    rw [← hv] at hQ
    rw [rangeK_sem P mode hP xs C1 Q E _ _ s e hsw (by omega) (by omega) hQ hE' he1 he2, hv]
    rw [show (if s = true then 2147483649 else 2147483648) = bnd s from rfl]
    by_cases hin : bnd s ≤ magOf mode s C e
    · rw [if_pos hin, if_neg (show ¬ magOf mode s C e < bnd s by omega)]; rfl
    rw [if_neg hin, if_pos (show magOf mode s C e < bnd s by omega)]
    show _ = Except.ok (Int32.ofInt (sInt s (magOf mode s C e)), f ||| ixFlag xf (exactOf C e))
    have hn := ndigits_pos hpos
    obtain ⟨hlo, hhi⟩ := ndigits_spec hpos
    have hn34 : ndigits C ≤ 34 := by rw [ndigits_le_iff hpos]; simpa [P34] using hlt
    rw [hv] at hQ
    have ht10 : (ndigits C : Int) + e ≤ 10 := by
      apply Classical.byContradiction; intro hc
      have := magOf_big mode s C e hpos (by omega)
      unfold bnd at hin; split at hin <;> omega
    have hsum : (Q + E).toInt = (ndigits C : Int) + e := by rw [i32_add _ _ (by omega) (by omega), hQ, hE']
    have hround0 : ∀ D, 2 * C < D → roundInt mode s 0 C D = 0 := by
      intro D hD
      rw [roundInt_eq]
      have : incr (dirOf mode s) (0 % 2 == 1) C D = false := by
        unfold incr
        rw [if_neg (by omega)]
        rcases hdir s with h | h <;> rw [h] <;> simp only [Bool.or_eq_false_iff, Bool.and_eq_false_iff, decide_eq_false_iff_not] <;> omega
      rw [this]; rfl
    by_cases c1 : (ndigits C : Int) + e < 0
    · -- below 0.1
      rw [if_pos (by rw [decide_eq_true_eq, Int32.lt_iff_toInt_lt, hsum]; exact c1), hsmall0]
      obtain ⟨hneg, ha, hr⟩ := tiny C e hpos (by omega)
      unfold magOf exactOf
      rw [if_neg (by omega), if_neg (by omega), ha, hr]
      have hCD : 2 * C < 10 ^ (-e).toNat := by
        have h1 : 10 ^ (ndigits C + 1) ≤ 10 ^ (-e).toNat := Nat.pow_le_pow_right (by decide) (by omega)
        rw [Nat.pow_succ] at h1
        omega
      rw [hround0 _ hCD]
      have : (C == 0) = false := by rw [beq_eq_false_iff_ne]; omega
      rw [this]; cases s <;> rfl
    rw [if_neg (by rw [decide_eq_true_eq, Int32.lt_iff_toInt_lt, hsum]; exact c1)]
    by_cases c1' : (ndigits C : Int) + e = 0
    · -- in [0.1, 1)
      rw [if_pos (by rw [beq_iff_eq, ← Int32.toInt_inj, hsum, c1']; rfl)]
      rw [← hv] at hpos hlt hQ
      rw [hmidB xs s C1 Q hsw hpos (by simpa [P34] using hlt) hQ, hv]
      obtain ⟨hneg, ha, hr⟩ := tiny C e (by rw [← hv]; exact hpos) (by omega)
      unfold magOf exactOf
      rw [if_neg (by omega), if_neg (by omega), ha, hr, show (-e).toNat = ndigits C by omega]
      have : (C == 0) = false := by rw [beq_eq_false_iff_ne]; rw [hv] at hpos; omega
      rw [this]
    rw [if_neg (by rw [beq_iff_eq, ← Int32.toInt_inj, hsum]; exact c1')]
    by_cases c2 : e < 0
    · -- digits to remove
      rw [if_pos (by rw [decide_eq_true_eq, Int32.lt_iff_toInt_lt, hE']; exact c2)]
      have hx : (-E).toInt = (((-e).toNat : Nat) : Int) := by rw [i32_neg _ (by omega), hE']; omega
      have hx1 : 1 ≤ (-e).toNat := by omega
      have hx34 : (-e).toNat ≤ 34 := by omega
      have ha10 : C / 10 ^ (-e).toNat ≤ 10 ^ 10 := by
        apply Nat.le_of_lt
        rw [Nat.div_lt_iff_lt_mul (Nat.pow_pos (by decide)), ← Nat.pow_add]
        exact Nat.lt_of_lt_of_le hhi (Nat.pow_le_pow_right (by decide) (by omega))
      rw [hrem xs s C1 (-E) (-e).toNat hsw hx hx1 hx34 (by rw [hv]; simpa [P34] using hlt) (by rw [hv]; exact ha10), hv]
      unfold magOf exactOf
      rw [if_neg (by omega), if_neg (by omega)]
    rw [if_neg (by rw [decide_eq_true_eq, Int32.lt_iff_toInt_lt, hE']; exact c2)]
    have hC10 : C < 10 ^ 10 := Nat.lt_of_lt_of_le hhi (Nat.pow_le_pow_right (by decide) (by omega))
    have hw1 : C1.w1.toNat = 0 := val128_small C1 (by rw [hv]; exact Nat.lt_trans hC10 (by decide))
    have hw0 : C1.w0.toNat = C := by rw [← hv]; unfold val128; rw [hw1, Nat.zero_mul, Nat.zero_add]
    have hex : exactOf C e = true := by unfold exactOf; rw [if_pos (by omega)]
    have hfl : f ||| ixFlag xf true = f := by
      unfold ixFlag; cases xf <;> exact UInt32.or_zero
    rw [hex, hfl]
    by_cases c3 : e = 0
    · rw [if_pos (by rw [beq_iff_eq, ← Int32.toInt_inj, hE', c3]; rfl)]
      unfold fin32 magOf
      rw [if_pos (by omega), c3, resOf_spec xs C1.w0 s C hsw hw0 (Nat.lt_trans hC10 (by decide))]
      simp
    · rw [if_neg (by rw [beq_iff_eq, ← Int32.toInt_inj, hE']; exact c3)]
      have hm : C * 10 ^ e.toNat < 10 ^ 10 := by
        have : C * 10 ^ e.toNat < 10 ^ ndigits C * 10 ^ e.toNat := Nat.mul_lt_mul_of_pos_right hhi (Nat.pow_pos (by decide))
        rw [← Nat.pow_add] at this
        exact Nat.lt_of_lt_of_le this (Nat.pow_le_pow_right (by decide) (by omega))
      rw [hpe xs C1 E (fin32 f) s e.toNat hsw (by rw [hE']; omega) (by omega) (by omega)
        (by rw [hw0]; exact Nat.lt_trans hm (by decide)), hw0]
      unfold fin32 magOf
      rw [if_pos (by omega)]




/-! ### the four copies -/

def adjND (s lt gt mle mge : Bool) : Int := 0
theorem adjN_ok : AdjOK adjN adjND := by
  intro xs s lt gt mle mge w k hs; rfl

def G0 : GlueP := ⟨false, false, false, false, false, false, false, false, false, false, false, false, false, false⟩

theorem pm1_eq (xs : UInt64) (s : Bool) (hs : (xs != 0) = s) : pm1 xs = Int32.ofInt (sInt s 1) := by
  unfold pm1; rw [hs]; cases s <;> rfl

/-- operands in [0.1, 1): the answer is 0 or ±1 by the comparison with the midpoint -/
theorem midB_ok (mode : Mode) (strict : Bool) (hm : (mode = .rne ∧ strict = false) ∨ (mode = .rna ∧ strict = true))
    (cmp : UInt64 → UInt64 → Bool)
    (hcmp : ∀ a b : UInt64, cmp a b = if strict then decide (a.toNat < b.toNat) else decide (a.toNat ≤ b.toNat))
    (pf : UInt32) (xs : UInt64) (s : Bool) (C1 : U128) (q : Int32)
    (k64 k128 : Bool → Except String (Int32 × UInt32))
    (hk64 : ∀ b, k64 b = fin32 pf (if b then 0 else pm1 xs)) (hk128 : ∀ b, k128 b = fin32 pf (if b then 0 else pm1 xs))
    (hs : (xs != 0) = s) (hC0 : 0 < val128 C1) (hC : val128 C1 < 10 ^ 34) (hq : q.toInt = (ndigits (val128 C1) : Int)) :
    midTestK cmp C1 q k64 k128 =
      .ok (Int32.ofInt (sInt s (roundInt mode s 0 (val128 C1) (10 ^ ndigits (val128 C1)))), pf) := by
  have hn := ndigits_pos hC0
  have hn34 : ndigits (val128 C1) ≤ 34 := by rw [ndigits_le_iff hC0]; exact hC
  rw [midTestK_spec cmp strict hcmp C1 q k64 k128 _ hq hn hn34]
  have hD := two_h (ndigits (val128 C1)) hn
  rw [← hD, roundInt_eq]
  generalize 5 * 10 ^ (ndigits (val128 C1) - 1) = M at *
  generalize val128 C1 = C at *
  have key : ∀ b : Bool, b = !incr (dirOf mode s) (0 % 2 == 1) C (2 * M) →
      (if ndigits C ≤ 19 then k64 else k128) b = .ok (Int32.ofInt (sInt s (if incr (dirOf mode s) (0 % 2 == 1) C (2 * M) = true then 0 + 1 else 0)), pf) := by
    intro b hb
    have : (if ndigits C ≤ 19 then k64 else k128) b = fin32 pf (if b then 0 else pm1 xs) := by split <;> [exact hk64 b; exact hk128 b]
    rw [this, hb, pm1_eq xs s hs]
    cases incr (dirOf mode s) (0 % 2 == 1) C (2 * M) <;> cases s <;> rfl
  apply key
  unfold incr
  have hC0' : ¬ C = 0 := by omega
  rcases hm with ⟨rfl, rfl⟩ | ⟨rfl, rfl⟩
  · simp only [dirOf, hC0', Bool.false_eq_true, if_false, Nat.zero_mod, Nat.reduceBEq, Bool.and_false, Bool.or_false]
    rw [Bool.eq_iff_iff]; simp only [decide_eq_true_eq, Bool.not_eq_true', decide_eq_false_iff_not]; omega
  · simp only [dirOf, hC0', if_true, if_false]
    rw [Bool.eq_iff_iff]; simp only [decide_eq_true_eq, Bool.not_eq_true', decide_eq_false_iff_not]; omega


/-- the quotient rounded half up is the `rna` rounding -/
theorem roundInt_rna (s : Bool) (a r x : Nat) (h1 : 1 ≤ x) :
    roundInt .rna s a r (10 ^ x) = if r < 5 * 10 ^ (x - 1) then a else a + 1 := by
  have hh : 0 < 5 * 10 ^ (x - 1) := Nat.mul_pos (by decide) (Nat.pow_pos (by decide))
  rw [roundInt_eq, ← two_h x h1]
  unfold incr
  simp only [dirOf]
  generalize 5 * 10 ^ (x - 1) = h at *
  by_cases c : r < h
  · rw [if_pos c]
    by_cases h0 : r = 0
    · simp [h0]
    · have : ¬ 2 * r ≥ 2 * h := by omega
      simp [h0, this]
  · rw [if_neg c]
    have h0 : ¬ r = 0 := by omega
    have : 2 * r ≥ 2 * h := by omega
    simp [h0, this]

theorem ite3 {α : Type} (c1 c2 : Prop) [Decidable c1] [Decidable c2] (T : α) :
    (if c1 then (if c2 then T else T) else T) = T := by
  split <;> [split; skip] <;> rfl

/-- `rnint` after digit removal: only the midpoint test -/
theorem rem_rnint_ok (f : UInt32) :
    RemAllOK .rne false f (fun xs C1 ind => removeK C1 ind (fun Cs fs =>
      midK fs ind (if (((Cs.w0 &&& (1 : UInt64))) == (1 : UInt64)) then fin32 f (resOf xs (Cs.w0 - 1)) else fin32 f (resOf xs Cs.w0))
        (fin32 f (resOf xs Cs.w0)))) := by
  apply remAll_of_rem
  intro xs s Cs fs ind x a r hs hx h1 h34 hr ha hA ok
  have := remG_spec adjN adjND G0 .rne false f adjN_ok (by decide) xs s Cs fs ind x a r hs hx h1 h34 hr ha hA ok
  rw [← this]
  unfold remG
  simp only []
  rw [fracK_spec fs ind _ _ _ x r hx h1 h34 ok]
  exact (ite3 (r < 5 * 10 ^ (x - 1)) (0 < r) _).symm

/-- `xrnint` after digit removal -/
theorem rem_xrnint_ok (f : UInt32) :
    RemAllOK .rne true f (fun xs C1 ind => removeK C1 ind (fun Cs fs => remG adjN G_xrn f xs Cs fs ind)) :=
  remAll_of_rem .rne true f _ (remG_spec adjN adjND G_xrn .rne true f adjN_ok (by decide))

/-- `xrninta` after digit removal: the fraction only decides the inexact flag -/
theorem rem_xrninta_ok (f : UInt32) :
    RemAllOK .rna true f (fun xs C1 ind => addHalfK C1 ind (fun C1' => splitK2 C1' ind (fun Cs fs =>
      fracK fs ind (fin32 (IX f) (resOf xs Cs.w0)) (fin32 f (resOf xs Cs.w0)) (fin32 (IX f) (resOf xs Cs.w0))))) := by
  have : (fun (xs : UInt64) (C1 : U128) (ind : Int32) => addHalfK C1 ind (fun C1' => splitK2 C1' ind (fun Cs fs =>
      fracK fs ind (fin32 (IX f) (resOf xs Cs.w0)) (fin32 f (resOf xs Cs.w0)) (fin32 (IX f) (resOf xs Cs.w0))))) =
      (fun xs C1 ind => removeK C1 ind (fun Cs fs =>
        (fun xs Cs fs ind => fracK fs ind (fin32 (IX f) (resOf xs Cs.w0)) (fin32 f (resOf xs Cs.w0)) (fin32 (IX f) (resOf xs Cs.w0)))
          xs Cs fs ind)) := by
    funext xs C1 ind
    unfold removeK
    simp only [splitK2_eq]
  rw [this]
  apply remAll_of_rem
  intro xs s Cs fs ind x a r hs hx h1 h34 hr ha hA ok
  show fracK fs ind _ _ _ = _
  rw [fracK_spec fs ind _ _ _ x r hx h1 h34 ok, roundInt_rna s a r x h1, ← hA]
  have hm : Cs.w0.toNat < 2^63 := by
    rw [hA]; have : (10:Nat)^10 + 1 < 2^63 := by decide
    split <;> omega
  have hres := resOf_spec xs Cs.w0 s _ hs rfl hm
  unfold fin32
  rw [hres]
  by_cases c0 : r = 0
  · have hh : 0 < 5 * 10 ^ (x - 1) := Nat.mul_pos (by decide) (Nat.pow_pos (by decide))
    rw [if_pos (by omega), if_neg (by omega)]
    have : (r == 0) = true := by rw [c0]; rfl
    rw [this]
    exact congrArg Except.ok (Prod.ext rfl (UInt32.or_zero).symm)
  · have : (r == 0) = false := by rw [beq_eq_false_iff_ne]; exact c0
    rw [this]
    split <;> [rw [if_pos (by omega)]; skip] <;> rfl


/-- `rninta` after digit removal: the half-up quotient is the answer -/
theorem rem_rninta_ok (f : UInt32) :
    RemAllOK .rna false f (fun xs C1 ind => addHalfK C1 ind (fun C1' => splitCK C1' ind (fun Cs => fin32 f (resOf xs Cs.w0)))) := by
  intro xs s C1 ind x hs hx h1 h34 hC ha10
  obtain ⟨r1, r2, -, -, -, -, -, -, -, -, -, -, -⟩ := row (x - 1) (by omega)
  rw [show x - 1 + 1 = x by omega] at r1 r2
  have hh : 0 < 5 * 10 ^ (x - 1) := Nat.mul_pos (by decide) (Nat.pow_pos (by decide))
  have hhalf : 5 * 10 ^ (x - 1) ≤ 5 * 10 ^ 33 := Nat.mul_le_mul_left 5 (Nat.pow_le_pow_right (by decide) (by omega))
  have hsum : val128 C1 + 5 * 10 ^ (x - 1) < 10 ^ 35 := by
    calc val128 C1 + 5 * 10 ^ (x - 1) < 10 ^ 34 + 5 * 10 ^ 33 := Nat.add_lt_add_of_lt_of_le hC hhalf
      _ < 10 ^ 35 := by decide
  obtain ⟨C1', e1, v1⟩ := addHalfK_spec C1 ind (fun C1' => splitCK C1' ind (fun Cs => fin32 f (resOf xs Cs.w0))) x hx h1 h34
    (Nat.lt_trans hsum (by decide))
  obtain ⟨Cs, e2, qv⟩ := splitCK_spec C1' ind (fun Cs => fin32 f (resOf xs Cs.w0)) x hx h1 h34
  have hD := two_h x h1
  generalize hK : kT (x - 1) = K at *
  generalize hE : 128 + shT (x - 1) = E at *
  have hKD : K * (2 * (5 * 10 ^ (x - 1))) = 2 ^ E + (K * 10 ^ x - 2 ^ E) := by rw [hD]; omega
  have hb : ((val128 C1 + 5 * 10 ^ (x - 1)) / (2 * (5 * 10 ^ (x - 1))) + 1) * (K * 10 ^ x - 2 ^ E) < K := by
    rw [hD]
    have : (val128 C1 + 5 * 10 ^ (x - 1)) / 10 ^ x ≤ 10 ^ 35 / 10 ^ x := Nat.div_le_div_right (Nat.le_of_lt hsum)
    calc ((val128 C1 + 5 * 10 ^ (x - 1)) / 10 ^ x + 1) * (K * 10 ^ x - 2 ^ E)
        ≤ (10 ^ 35 / 10 ^ x + 1) * (K * 10 ^ x - 2 ^ E) := Nat.mul_le_mul_right _ (by omega)
      _ < K := r2
  obtain ⟨t1, -⟩ := fracTests (5 * 10 ^ (x - 1)) K E (K * 10 ^ x - 2 ^ E) (val128 C1) hh hKD (by omega) (by omega) hb
  rw [hD] at t1
  rw [v1, t1] at qv
  have hAlt : (if val128 C1 % 10 ^ x < 5 * 10 ^ (x - 1) then val128 C1 / 10 ^ x else val128 C1 / 10 ^ x + 1) < 2^63 := by
    have : (10:Nat) ^ 10 + 1 < 2^63 := by decide
    split <;> omega
  have hw := qv (Nat.lt_trans hAlt (by decide))
  simp only []
  rw [e1, e2, roundInt_rna s _ _ x h1]
  unfold fin32
  rw [resOf_spec xs Cs.w0 s _ hs hw hAlt]
  exact congrArg Except.ok (Prod.ext rfl (by unfold ixFlag; exact (UInt32.or_zero).symm))

theorem ok0 (f : UInt32) : (Except.ok (0, f) : Except String (Int32 × UInt32)) = .ok (0, f ||| ixFlag false false) := by
  rw [show f ||| ixFlag false false = f from UInt32.or_zero]

theorem nd_ok (C1 : U128) (h0 : 0 < val128 C1) (hC : val128 C1 < 2^113) :
    ∃ Q : Int32, Q.toInt = (ndigits (val128 C1) : Int) ∧ ∀ k : Int32 → Except String (Int32 × UInt32), nrDigitsK C1 k = k Q := by
  obtain ⟨Q, hQ, hk⟩ := nrDigitsK_spec C1 h0 hC
  exact ⟨Q, hQ, fun k => hk k⟩

theorem nd2_ok (C1 : U128) (h0 : 0 < val128 C1) (hC : val128 C1 < 2^113) :
    ∃ Q : Int32, Q.toInt = (ndigits (val128 C1) : Int) ∧ ∀ k : Int32 → Except String (Int32 × UInt32), nrDigitsK2 C1 k = k Q := by
  obtain ⟨Q, hQ, hk⟩ := nrDigitsK2_spec C1 h0 hC
  exact ⟨Q, hQ, fun k => hk k⟩

/-- **`bid128_to_int32_rnint`** (to nearest, ties to even; no inexact) -/
theorem to_int32_rnint_spec (x : U128) (f : UInt32) : bid128_to_int32_rnint x f = specOut .rne false x f := by
  rw [rnint_unfold]
  refine skelRN_spec nrDigitsK P_rnint .rne false f _ _ _ _ nd_ok (by decide) posExpK'_ok
    (by decide) (ok0 f) ?_ (rem_rnint_ok f) x
  intro xs s C1 q hs hC0 hC hq
  have e : f ||| ixFlag false false = f := UInt32.or_zero
  rw [e]
  refine midB_ok .rne false (Or.inl ⟨rfl, rfl⟩) _ (fun a b => by simp [UInt64.le_iff_toNat_le]) f xs s C1 q _ _ (fun b => rfl) ?_ hs hC0 hC hq
  intro b; cases b
  · unfold pm1; simp only [Bool.false_eq_true, if_false]; split <;> rfl
  · rfl

-- 2.5, −2.5, 2147483647.5, −2147483648.5, −0.3, 123·10^7 (out of range), a NaN
example : bid128_to_int32_rnint ⟨0x19, 0x303e000000000000⟩ 0 = .ok (2, 0x0) := by rfl
example : bid128_to_int32_rnint ⟨0x19, 0xb03e000000000000⟩ 0 = .ok (-2, 0x0) := by rfl
example : bid128_to_int32_rnint ⟨0x4fffffffb, 0x303e000000000000⟩ 0 = .ok (-2147483648, 0x1) := by rfl
example : bid128_to_int32_rnint ⟨0x500000005, 0xb03e000000000000⟩ 0 = .ok (-2147483648, 0x0) := by rfl
example : bid128_to_int32_rnint ⟨0x3, 0xb03e000000000000⟩ 0 = .ok (0, 0x0) := by rfl
example : bid128_to_int32_rnint ⟨0x7b, 0x304e000000000000⟩ 0 = .ok (1230000000, 0x0) := by rfl
example : bid128_to_int32_rnint ⟨7, 0x7c00000000000000⟩ 0x20 = .ok (-2147483648, 0x21) := by rfl

/-- **`bid128_to_int32_rninta`** (to nearest, ties away from zero; no inexact) -/
theorem to_int32_rninta_spec (x : U128) (f : UInt32) : bid128_to_int32_rninta x f = specOut .rna false x f := by
  rw [rninta_unfold]
  refine skelRN_spec nrDigitsK P_rninta .rna false f _ _ _ _ nd_ok (by decide) posExpK_ok
    (by decide) (ok0 f) ?_ (rem_rninta_ok f) x
  intro xs s C1 q hs hC0 hC hq
  have e : f ||| ixFlag false false = f := UInt32.or_zero
  rw [e]
  exact midB_ok .rna true (Or.inr ⟨rfl, rfl⟩) _ (fun a b => by simp [UInt64.lt_iff_toNat_lt]) f xs s C1 q _ _ (fun b => rfl) (fun b => rfl)
    hs hC0 hC hq

-- 2.5, −2.5, 2147483647.5, −2147483648.5, −0.3, 123·10^7 (out of range), a NaN
example : bid128_to_int32_rninta ⟨0x19, 0x303e000000000000⟩ 0 = .ok (3, 0x0) := by rfl
example : bid128_to_int32_rninta ⟨0x19, 0xb03e000000000000⟩ 0 = .ok (-3, 0x0) := by rfl
example : bid128_to_int32_rninta ⟨0x4fffffffb, 0x303e000000000000⟩ 0 = .ok (-2147483648, 0x1) := by rfl
example : bid128_to_int32_rninta ⟨0x500000005, 0xb03e000000000000⟩ 0 = .ok (-2147483648, 0x1) := by rfl
example : bid128_to_int32_rninta ⟨0x3, 0xb03e000000000000⟩ 0 = .ok (0, 0x0) := by rfl
example : bid128_to_int32_rninta ⟨0x7b, 0x304e000000000000⟩ 0 = .ok (1230000000, 0x0) := by rfl
example : bid128_to_int32_rninta ⟨7, 0x7c00000000000000⟩ 0x20 = .ok (-2147483648, 0x21) := by rfl

/-- **`bid128_to_int32_xrnint`** (to nearest, ties to even; inexact signalled) -/
theorem to_int32_xrnint_spec (x : U128) (f : UInt32) : bid128_to_int32_xrnint x f = specOut .rne true x f := by
  rw [xrnint_unfold]
  refine skelRN_spec nrDigitsK2 P_rnint .rne true f _ _ _ _ nd2_ok (by decide) posExpK'_ok
    (by decide) rfl ?_ (rem_xrnint_ok f) x
  intro xs s C1 q hs hC0 hC hq
  exact midB_ok .rne false (Or.inl ⟨rfl, rfl⟩) _ (fun a b => by simp [UInt64.le_iff_toNat_le]) (IX f) xs s C1 q _ _ (fun b => rfl) (fun b => rfl)
    hs hC0 hC hq

-- 2.5, −2.5, 2147483647.5, −2147483648.5, −0.3, 123·10^7 (out of range), a NaN
example : bid128_to_int32_xrnint ⟨0x19, 0x303e000000000000⟩ 0 = .ok (2, 0x20) := by rfl
example : bid128_to_int32_xrnint ⟨0x19, 0xb03e000000000000⟩ 0 = .ok (-2, 0x20) := by rfl
example : bid128_to_int32_xrnint ⟨0x4fffffffb, 0x303e000000000000⟩ 0 = .ok (-2147483648, 0x1) := by rfl
example : bid128_to_int32_xrnint ⟨0x500000005, 0xb03e000000000000⟩ 0 = .ok (-2147483648, 0x20) := by rfl
example : bid128_to_int32_xrnint ⟨0x3, 0xb03e000000000000⟩ 0 = .ok (0, 0x20) := by rfl
example : bid128_to_int32_xrnint ⟨0x7b, 0x304e000000000000⟩ 0 = .ok (1230000000, 0x0) := by rfl
example : bid128_to_int32_xrnint ⟨7, 0x7c00000000000000⟩ 0x20 = .ok (-2147483648, 0x21) := by rfl

/-- **`bid128_to_int32_xrninta`** (to nearest, ties away from zero; inexact signalled) -/
theorem to_int32_xrninta_spec (x : U128) (f : UInt32) : bid128_to_int32_xrninta x f = specOut .rna true x f := by
  rw [xrninta_unfold]
  refine skelRN_spec nrDigitsK P_rninta .rna true f _ _ _ _ nd_ok (by decide) posExpK_ok
    (by decide) rfl ?_ (rem_xrninta_ok f) x
  intro xs s C1 q hs hC0 hC hq
  exact midB_ok .rna true (Or.inr ⟨rfl, rfl⟩) _ (fun a b => by simp [UInt64.lt_iff_toNat_lt]) (IX f) xs s C1 q _ _ (fun b => rfl) (fun b => rfl)
    hs hC0 hC hq

-- 2.5, −2.5, 2147483647.5, −2147483648.5, −0.3, 123·10^7 (out of range), a NaN
example : bid128_to_int32_xrninta ⟨0x19, 0x303e000000000000⟩ 0 = .ok (3, 0x20) := by rfl
example : bid128_to_int32_xrninta ⟨0x19, 0xb03e000000000000⟩ 0 = .ok (-3, 0x20) := by rfl
example : bid128_to_int32_xrninta ⟨0x4fffffffb, 0x303e000000000000⟩ 0 = .ok (-2147483648, 0x1) := by rfl
example : bid128_to_int32_xrninta ⟨0x500000005, 0xb03e000000000000⟩ 0 = .ok (-2147483648, 0x1) := by rfl
example : bid128_to_int32_xrninta ⟨0x3, 0xb03e000000000000⟩ 0 = .ok (0, 0x20) := by rfl
example : bid128_to_int32_xrninta ⟨0x7b, 0x304e000000000000⟩ 0 = .ok (1230000000, 0x0) := by rfl
example : bid128_to_int32_xrninta ⟨7, 0x7c00000000000000⟩ 0x20 = .ok (-2147483648, 0x21) := by rfl


end Dec.C06GenToInt
