/-
  C13 — every 128-bit pattern is interpreted per the standard and results are canonical.
  (The codec round-trip theorems are in `DecProofs.Core.Codec`.)
-/
import DecModel.Ops

namespace Dec.C13

/-- `class` returns exactly one of the ten classes -/
theorem class_lt_ten (d : Datum) : classOf d < 10 := by
  cases d with
  | fin s c e => simp only [classOf]; split <;> split <;> (try split) <;> decide
  | inf s => cases s <;> decide
  | nan s g p => cases g <;> simp [classOf]

/-- … and is consistent with the nine predicates -/
theorem class_consistent (d : Datum) :
    (classOf d = 0 ↔ d.isSNaN = true) ∧
    (classOf d = 1 ↔ (d.isNaN = true ∧ d.isSNaN = false)) ∧
    ((classOf d = 2 ∨ classOf d = 9) ↔ d.isInf = true) ∧
    ((classOf d = 5 ∨ classOf d = 6) ↔ d.isZero = true) ∧
    ((classOf d = 3 ∨ classOf d = 8) ↔ isNormalD d = true) ∧
    ((classOf d = 4 ∨ classOf d = 7) ↔ isSubnormalD d = true) ∧
    ((2 ≤ classOf d ∧ classOf d ≤ 5) → d.neg = true) ∧
    ((6 ≤ classOf d ∧ classOf d ≤ 9) → d.neg = false) ∧
    (d.isFin = true ↔ (3 ≤ classOf d ∧ classOf d ≤ 8)) := by
  cases d with
  | inf s => cases s <;> simp [classOf, Datum.isSNaN, Datum.isNaN, Datum.isInf, Datum.isZero, isNormalD, isSubnormalD, Datum.neg, Datum.isFin]
  | nan s g p => cases g <;> simp [classOf, Datum.isSNaN, Datum.isNaN, Datum.isInf, Datum.isZero, isNormalD, isSubnormalD, Datum.neg, Datum.isFin]
  | fin s c e =>
    by_cases hc : c = 0
    · cases s <;> simp [classOf, hc, Datum.isSNaN, Datum.isNaN, Datum.isInf, Datum.isZero, isNormalD, isSubnormalD, Datum.neg, Datum.isFin]
    · by_cases hn : (ndigits c : Int) + e - 1 ≥ -6143
      · have hn' : ¬ ((ndigits c : Int) + e - 1 < -6143) := by omega
        cases s <;> simp [classOf, hc, hn, hn', Datum.isSNaN, Datum.isNaN, Datum.isInf, Datum.isZero, isNormalD, isSubnormalD, Datum.neg, Datum.isFin]
      · have hn' : (ndigits c : Int) + e - 1 < -6143 := by omega
        cases s <;> simp [classOf, hc, hn, hn', Datum.isSNaN, Datum.isNaN, Datum.isInf, Datum.isZero, isNormalD, isSubnormalD, Datum.neg, Datum.isFin]

/-- normal iff finite, non-zero and the adjusted exponent is at least −6143 -/
theorem normal_iff (s : Bool) (c : Nat) (e : Int) :
    isNormalD (.fin s c e) = true ↔ (c ≠ 0 ∧ (ndigits c : Int) + e - 1 ≥ -6143) := by
  simp [isNormalD]

/-- the three non-canonical finite families decode to zeros with their sign and exponent -/
theorem noncanonical_large_form (b : Nat) (h : (b / 2^123) % 16 ≠ 15) (h2 : (b / 2^123) % 16 / 4 = 3) :
    decode b = .fin ((b / 2^127) % 2 == 1) 0 (((b / 2^111) % 2^14 : Nat) - (6176 : Int)) := by
  unfold decode
  simp [h, h2]

theorem noncanonical_big_coefficient (b : Nat) (h : (b / 2^123) % 16 ≠ 15) (h2 : (b / 2^123) % 16 / 4 ≠ 3)
    (hc : ¬ (b % 2^113 < P34)) :
    decode b = .fin ((b / 2^127) % 2 == 1) 0 (((b / 2^113) % 2^14 : Nat) - (6176 : Int)) := by
  unfold decode
  simp [h, h2, hc]

/-- junk bits in infinities are ignored -/
theorem inf_junk_ignored (b : Nat) (h : (b / 2^123) % 16 = 15) (h2 : (b / 2^122) % 2 = 0) :
    decode b = .inf ((b / 2^127) % 2 == 1) := by
  unfold decode
  simp [h, h2]

/-- every d128-valued result the judge accepts as `exactD` is a canonical re-encoding of a datum:
the model never hands out anything but `encode _` -/
theorem exactD_is_encode (r : Datum × Flags) : exactD r = .oneOf [[.d (encode r.1)]] r.2 := rfl

example : classOf (decode 0x30400000000000000000000000000001) = 8 := by decide
example : decode 0x6c000000000000000000000000000005 = .fin false 0 (-6176 + 6144) := by decide  -- large-coefficient form: a zero

end Dec.C13
