/-
  C01 (generated-code level): arm (B) of `Dec.C01GenAddRound.LoopRestRounding` — the rounding loop of `bid128_add`,
  opposite signs, where the padded first coefficient minus the rounded second one may fall to `10^33` or below
  (`second_pass`: a second turn of the loop with `x1 − 1`), including the boundary with one turn.

  §0 `LoopBCodeSpec` (the word-level statement, consumed by `C01GenAddLoopB2.lean`: `add_loopB`, `loop_rest_of_arms`).
  §1 `postG` / `postTailG`: the text after the loop (`addPost` of `C01GenAddLoopShape.lean`) = `corrCE` / `codeTail` of
     `C01GenAddLoopMath.lean` (carry to `10^34`, crossing into the lower decade; no overflow in this arm).
  §2 `turnG`: one turn of the loop (`addBody`) for ANY continuation `Kc`, result `RHS`, turn parameters (`x1`,
     `second_pass`, `kk` digits rounded away, minuend `Bx`): `(addBody … 0 state >>= Kc) = RHS` provided `Kc` maps every
     `.done` state and every `.yield` state satisfying the turn's postcondition to `RHS`.
  §3 `loopB_code (H : RoundBlockSpec) : LoopBCodeSpec`: first turn (`kk = k`, `Bx = B`): `.done` = the boundary without
     second turn (`sub_final1'`); `.yield` = `loop_first` again and `turnG` with `kk = k − 1`, `Bx = 10·B`: `k = 1` nothing
     rounded (`sub_final_exact`), `k ≥ 2` (`sub_final2`, which also excludes a third turn).
  Findings: none (the code agrees with the model on the whole arm).
-/
import DecProofs.Properties.C01GenAddRound
import DecProofs.Properties.C01GenAddLoopMath
import DecProofs.Properties.C01GenAddLoopShape

namespace Dec.C01GenAddLoopB
open Dec.Rs Dec.Gen.Code Dec.C06GenFromInt Dec.C12GenNaN Dec.C01GenAdd Dec.C01GenAddLoop Dec.C01GenAddRound
open Dec.C01GenAddLoopMath
open Dec.C01GenAddLoopShape (addBody addPost addInit addBody_const)
open Dec.C13GenPack (md)
open Dec.C01GenAdd.Sym Dec.C01GenAddLoop.Sym2
open Dec.C13GenNoncomp (bmod32 ten2k64_get)
set_option linter.unusedVariables false
set_option linter.unusedTactic false
set_option linter.unreachableTactic false
set_option linter.unusedSimpArgs false

open Lean Meta Elab Tactic in
/-- the goal is `(forIn r init G >>= post) = R`: name the loop body, a variable `G` with `hG : (the text) = G` -/
elab "gname " k:ident hk:ident : tactic => withMainContext do
  let g ← getMainGoal
  let t := (← instantiateMVars (← g.getType)).consumeMData
  let some (_, lhs0, _) := t.eq? | throwError "gname: not an equation"
  unless lhs0.isAppOfArity ``Bind.bind 6 do throwError "gname: no frame"
  let X := lhs0.getAppArgs[4]!
  unless X.isAppOf ``ForIn.forIn do throwError "gname: no loop"
  let G := X.getAppArgs.back!
  let (_, g') ← g.generalize #[{ expr := G, xName? := some k.getId, hName? := some hk.getId }]
  replaceMainGoal [g']

/-! ## 0. The statement at word level (consumed by the wrappers in `C01GenAddLoopB2.lean`) -/

/-- **arm (B) at word level**: opposite signs, operands in the code's order (`a` has the larger exponent; `Ordered`),
`k = x1 = delta + q_b − 34` digits of `cB` rounded away, `B = cA·10^(34 − QA)` the padded first coefficient,
`cB = av·10^k + rv`, outside the region of `loop1_code` (`¬ (10^33 + av + 1 < B)`): the result of `bid128_add` is the
model's `finish` on the exact difference `B·10^k − cB` at `eB` (sign of `a`).  All hypotheses are the facts `fin_view` /
`digits_row` give for the two decoded operands (see `add_loop1_core` in `C01GenAddRound.lean` for how they are obtained). -/
def LoopBCodeSpec : Prop :=
  ∀ (x y a b : U128) (m : RoundingMode) (f : UInt32)
    (hsp : ¬ ((x.w1 &&& c_MASK_SPECIAL == c_MASK_SPECIAL) || (y.w1 &&& c_MASK_SPECIAL == c_MASK_SPECIAL)) = true)
    (hx0 : ¬ (uH x == 0 && uL x == 0) = true) (hy0 : ¬ (uH y == 0 && uL y == 0) = true)
    (hab : Ordered x y a b)
    (D D1 : UInt32) (THI TLO : UInt64) (D' D1' : UInt32) (THI' TLO' : UInt64)
    (hTa : tblDD Dec.Gen.BID_NR_DIGITS (UInt64.ofInt (toI (nbOf (uH a) (uL a)))) = .ok ⟨D, THI, TLO, D1⟩)
    (hTb : tblDD Dec.Gen.BID_NR_DIGITS (UInt64.ofInt (toI (nbOf (uH b) (uL b)))) = .ok ⟨D', THI', TLO', D1'⟩)
    (sA sB : Bool) (cA cB QA QB EA EB k B av rv : Nat) (eB : Int)
    (has : (a.w1 &&& c_MASK_SIGN).toNat = if sA then 2^63 else 0) (hbs : (b.w1 &&& c_MASK_SIGN).toNat = if sB then 2^63 else 0)
    (hac : (uH a).toNat * 2^64 + (uL a).toNat = cA) (hbc : (uH b).toNat * 2^64 + (uL b).toNat = cB)
    (hae : (uE a).toNat = EA * 2^49) (hbe : (uE b).toNat = EB * 2^49)
    (hqa : (qOf D D1 THI TLO (uH a) (uL a)).toInt = QA) (hqb : (qOf D' D1' THI' TLO' (uH b) (uL b)).toInt = QB)
    (hQAd : ndigits cA = QA) (hcA0 : 0 < cA) (hQA1 : 1 ≤ QA) (hQA : QA ≤ 34) (hQB1 : 1 ≤ QB) (hQB : QB ≤ 34)
    (hEA : EA < 12288) (hEle : EB ≤ EA) (hkE : (QA : Int) + EA - EB - 34 = k) (hk1 : 1 ≤ k) (hkQ : k + 1 ≤ QB)
    (hBd : cA * 10 ^ (34 - QA) = B) (hB1 : 10^33 ≤ B) (hB2 : B < 10^34) (hcBQ : cB < 10 ^ QB) (hcB0 : 0 < cB)
    (hcBe : cB / 10 ^ k = av ∧ cB % 10 ^ k = rv) (hrlt : rv < 10 ^ k)
    (hsne : ¬ sA = sB) (hdomB : ¬ (10^33 + av + 1 < B)) (heB : eB = (EB : Int) - 6176),
    bid128_add x y m f =
      .ok (ofBits (encode (finish (md m) sA (B * 10 ^ k - cB) 1 eB eB).1),
           f ||| UInt32.ofNat (finish (md m) sA (B * 10 ^ k - cB) 1 eB eB).2)

/-- `scaleK` with the old value of `C1` (whose low word the code's text mentions before overwriting it) -/
def scaleKj {β : Type} (q1 sc : Int32) (ah al : UInt64) (c0 : U128) (K : U128 → Except String β) : Except String β :=
  if decide (sc ≥ 20) = true then (do
    let t ← tbl128 Dec.Gen.BID_TEN2K128 (UInt64.ofInt (toI (sc - 20)))
    let C1 ← mul_128x64_to_128 al t
    K C1)
  else if decide (sc ≥ 1) = true then
    (if decide (q1 ≤ 19) = true then (do
      let t ← tbl64 Dec.Gen.BID_TEN2K64 (UInt64.ofInt (toI sc))
      let C1 ← mul_64x64_to_128MACH al t
      K C1)
    else (do
      let t ← tbl64 Dec.Gen.BID_TEN2K64 (UInt64.ofInt (toI sc))
      let C1 ← mul_128x64_to_128 t ⟨al, (⟨c0.w0, ah⟩ : U128).w1⟩
      K C1))
  else K ⟨al, (⟨c0.w0, ah⟩ : U128).w1⟩

theorem scaleKj_eq {β : Type} (q1 sc : Int32) (ah al : UInt64) (c0 : U128) (K : U128 → Except String β) :
    scaleKj q1 sc ah al c0 K = scaleK q1 sc ah al K := rfl

/-- the corrected coefficient and (biased) exponent as naturals -/
theorem corrCE_nat (m : RoundingMode) (sA : Bool) (Q0 Eb : Nat) (lte gte ltm gtm : Bool) (hQ34 : Q0 < 10^34)
    (hcross : dnB (!sA) sA m lte gtm = true → Q0 - 1 = 10^33 - 1 → 1 ≤ Eb) :
    ∃ C' Eb' : Nat, corrCE m sA Q0 ((Eb : Int) - 6176) lte gte ltm gtm = (C', (Eb' : Int) - 6176) ∧ C' < 10^34 ∧
      Eb' ≤ Eb + 1 ∧ (Eb' = Eb + 1 → Q0 + 1 = 10^34) := by
  have h3334 : (10:Nat)^33 < 10^34 := by decide
  unfold corrCE
  by_cases h1 : m ≠ .NearestEven ∧ upB (!sA) sA m ltm gte = true
  · rw [if_pos h1]
    by_cases h2 : Q0 + 1 = 10^34
    · rw [if_pos h2]; exact ⟨10^33, Eb + 1, by push_cast; congr 1; omega, h3334, le_refl _, fun _ => h2⟩
    · rw [if_neg h2]; exact ⟨Q0 + 1, Eb, rfl, by omega, by omega, fun h => absurd h (by omega)⟩
  · rw [if_neg h1]
    by_cases h3 : m ≠ .NearestEven ∧ dnB (!sA) sA m lte gtm = true
    · rw [if_pos h3]
      by_cases h4 : Q0 - 1 = 10^33 - 1
      · rw [if_pos h4]
        have := hcross h3.2 h4
        exact ⟨10^34 - 1, Eb - 1, by congr 1; omega, by omega, by omega, fun h => absurd h (by omega)⟩
      · rw [if_neg h4]; exact ⟨Q0 - 1, Eb, rfl, by omega, by omega, fun h => absurd h (by omega)⟩
    · rw [if_neg h3]; exact ⟨Q0, Eb, rfl, hQ34, by omega, fun h => absurd h (by omega)⟩

/-! ## 1. The text after the loop -/

/-- the text after the loop against `corrCE` (no overflow in this arm) -/
theorem postG (m : RoundingMode) (f : UInt32) (sa : UInt64) (sA : Bool) (has : sa.toNat = if sA then 2^63 else 0) :
    ∀ (resv : U128) (tsv t64 tA tB : UInt64) (sc xv iv sv : Int32) (tI : Bool) (C1v C2v hfv : U128)
      (Qv Rv : U256) (lte gte ltm gtm spv : Bool) (yev : UInt64) (Q0 Eb C' Eb' : Nat),
      C1v.w1.toNat * 2^64 + C1v.w0.toNat = Q0 → yev.toNat = Eb * 2^49 → Q0 < 10^34 → Eb < 12288 →
      corrCE m sA Q0 ((Eb : Int) - 6176) lte gte ltm gtm = (C', (Eb' : Int) - 6176) → C' < 10^34 → Eb' < 12288 →
      (m ≠ .NearestEven → dnB (!sA) sA m lte gtm = true → 1 ≤ Q0 ∧ (Q0 - 1 = 10^33 - 1 → 1 ≤ Eb)) →
      addPost m (none, f, resv, sa, tsv, yev, t64, tA, tB, sc, xv, iv, sv, tI, C1v, C2v, hfv, Qv, Rv, lte, gte, ltm, gtm,
        spv, true) = .ok (ofBits (encode (.fin sA C' ((Eb' : Int) - 6176))),
          if tI = true then f ||| c_StatusFlags_BID_INEXACT_EXCEPTION else f) := by
  obtain ⟨hz, hnz⟩ := sign_bools sa sA has
  have htt : true = true := rfl
  have hft : ¬ false = true := Bool.false_ne_true
  intro resv tsv t64 tA tB sc xv iv sv tI C1v C2v hfv Qv Rv lte gte ltm gtm spv yev Q0 Eb C' Eb' hv hyx hQ34 hEb hc hC' hEb' hdn1
  unfold addPost
  head_step
  take_neg
  · exact (by simp : ¬ (!true) = true)
  head_step
  clean_proj
  have h128 : (10:Nat)^34 + 1 < 2^128 := by decide
  have h3334 : (10:Nat)^33 < 10^34 := by decide
  have hnovG : ∀ (w : UInt64) (E : Nat), w.toNat = E * 2^49 → E < 12288 → ¬ (w == c_EXP_MAX_P1) = true := by
    intro w E hw hE h
    have := congrArg UInt64.toNat (beq_iff_eq.1 h)
    rw [hw, show c_EXP_MAX_P1.toNat = 12288 * 2^49 from rfl] at this
    omega
  unfold corrCE at hc
  by_cases hm : (m != RoundingMode.NearestEven) = true
  · have hmne : m ≠ .NearestEven := by simpa using hm
    take_pos
    · exact hm
    head_step
    by_cases hup : upB (!sA) sA m ltm gte = true
    · take_pos
      · exact (show upB (sa == 0) (sa != 0) m ltm gte = true by rw [hz, hnz]; exact hup)
      rw [if_pos ⟨hmne, hup⟩] at hc
      have hv' := inc_words C1v.w1 C1v.w0 (by rw [hv]; omega)
      rw [hv] at hv'
      head_step
      sym_exec
      gen_args _ hiC
      head_step
      by_cases hcar : Q0 + 1 = 10^34
      · rw [if_pos hcar] at hc
        have e1 : C' = 10^33 := (Prod.mk.inj hc).1.symm
        have e2 : Eb' = Eb + 1 := by have := (Prod.mk.inj hc).2; omega
        take_pos
        · rw [hhiC, eq_words, hv', show (542101086242752 : UInt64).toNat * 2^64 + (4003012203950112768 : UInt64).toNat = 10^34 from by decide]
          exact decide_eq_true hcar
        have hy1 := expP1 yev Eb hyx (by omega)
        head_step
        take_neg
        · exact hnovG _ _ hy1 (by omega)
        sym_exec!
        rw [ite_pair, e1, e2]
        exact asm_ok sa (yev + c_EXP_P1) 54210108624275 4089650035136921600 _ sA (10^33) (Eb + 1) has hy1 (by omega) (by decide) (by decide)
      · rw [if_neg hcar] at hc
        have e1 : C' = Q0 + 1 := (Prod.mk.inj hc).1.symm
        have e2 : Eb' = Eb := by have := (Prod.mk.inj hc).2; omega
        take_neg
        · rw [hhiC, eq_words, hv', show (542101086242752 : UInt64).toNat * 2^64 + (4003012203950112768 : UInt64).toNat = 10^34 from by decide]
          simpa using hcar
        head_step
        take_neg
        · exact hnovG _ _ hyx hEb
        sym_exec!
        rw [ite_pair, hhiC, e1, e2]
        exact asm_ok sa yev _ _ _ sA (Q0 + 1) Eb has hyx (by omega) hv' (by omega)
    · take_neg
      · exact (show ¬ upB (sa == 0) (sa != 0) m ltm gte = true by rw [hz, hnz]; exact hup)
      rw [if_neg (fun h => hup h.2)] at hc
      head_step
      by_cases hdn : dnB (!sA) sA m lte gtm = true
      · take_pos
        · exact (show dnB (sa == 0) (sa != 0) m lte gtm = true by rw [hz, hnz]; exact hdn)
        rw [if_pos ⟨hmne, hdn⟩] at hc
        obtain ⟨hQ1, hE1⟩ := hdn1 hmne hdn
        have hv' := dec_words C1v.w1 C1v.w0 (by rw [hv]; exact hQ1)
        rw [hv] at hv'
        head_step
        sym_exec
        gen_args _ hiC
        head_step
        by_cases hcr : Q0 - 1 = 10^33 - 1
        · rw [if_pos hcr] at hc
          have hE1' := hE1 hcr
          have e1 : C' = 10^34 - 1 := (Prod.mk.inj hc).1.symm
          have e2 : Eb' = Eb - 1 := by have := (Prod.mk.inj hc).2; omega
          take_pos
          · rw [hhiC, eq_words, hv', show (54210108624275 : UInt64).toNat * 2^64 + (4089650035136921599 : UInt64).toNat = 10^33 - 1 from by decide]
            exact decide_eq_true hcr
          have hy1 := expM1 yev Eb hyx hE1'
          head_step
          take_neg
          · exact hnovG _ _ hy1 (by omega)
          sym_exec!
          rw [ite_pair, e1, e2]
          exact asm_ok sa (yev - c_EXP_P1) 542101086242752 4003012203950112767 _ sA (10^34 - 1) (Eb - 1) has hy1 (by omega) (by decide) (by decide)
        · rw [if_neg hcr] at hc
          have e1 : C' = Q0 - 1 := (Prod.mk.inj hc).1.symm
          have e2 : Eb' = Eb := by have := (Prod.mk.inj hc).2; omega
          take_neg
          · rw [hhiC, eq_words, hv', show (54210108624275 : UInt64).toNat * 2^64 + (4089650035136921599 : UInt64).toNat = 10^33 - 1 from by decide]
            simpa using hcr
          head_step
          take_neg
          · exact hnovG _ _ hyx hEb
          sym_exec!
          rw [ite_pair, hhiC, e1, e2]
          exact asm_ok sa yev _ _ _ sA (Q0 - 1) Eb has hyx (by omega) hv' (by omega)
      · take_neg
        · exact (show ¬ dnB (sa == 0) (sa != 0) m lte gtm = true by rw [hz, hnz]; exact hdn)
        rw [if_neg (fun h => hdn h.2)] at hc
        have e1 : C' = Q0 := (Prod.mk.inj hc).1.symm
        have e2 : Eb' = Eb := by have := (Prod.mk.inj hc).2; omega
        head_step
        take_neg
        · exact hnovG _ _ hyx hEb
        sym_exec!
        rw [ite_pair, e1, e2]
        exact asm_ok sa yev _ _ _ sA Q0 Eb has hyx (by omega) hv hQ34
  · have hme : m = .NearestEven := by
      cases m <;> first | rfl | exact absurd rfl hm
    take_neg
    · exact hm
    rw [if_neg (fun h => h.1 hme), if_neg (fun h => h.1 hme)] at hc
    have e1 : C' = Q0 := (Prod.mk.inj hc).1.symm
    have e2 : Eb' = Eb := by have := (Prod.mk.inj hc).2; omega
    sym_exec!
    rw [ite_pair, e1, e2]
    exact asm_ok sa yev _ _ _ sA Q0 Eb has hyx (by omega) hv hQ34

/-- the same against `codeTail` -/
theorem postTailG (m : RoundingMode) (f : UInt32) (sa : UInt64) (sA : Bool) (has : sa.toNat = if sA then 2^63 else 0) :
    ∀ (resv : U128) (tsv t64 tA tB : UInt64) (sc xv iv sv : Int32) (tI : Bool) (C1v C2v hfv : U128)
      (Qv Rv : U256) (lte gte ltm gtm spv : Bool) (yev : UInt64) (Q0 Eb : Nat),
      C1v.w1.toNat * 2^64 + C1v.w0.toNat = Q0 → yev.toNat = Eb * 2^49 → 1 ≤ Q0 → Q0 < 10^34 → Eb < 12288 →
      (dnB (!sA) sA m lte gtm = true → Q0 - 1 = 10^33 - 1 → 1 ≤ Eb) → (Q0 + 1 = 10^34 → Eb + 1 < 12288) →
      addPost m (none, f, resv, sa, tsv, yev, t64, tA, tB, sc, xv, iv, sv, tI, C1v, C2v, hfv, Qv, Rv, lte, gte, ltm, gtm,
        spv, true) = .ok (ofBits (encode (codeTail m sA Q0 ((Eb : Int) - 6176) lte gte ltm gtm tI).1),
          f ||| UInt32.ofNat (codeTail m sA Q0 ((Eb : Int) - 6176) lte gte ltm gtm tI).2) := by
  intro resv tsv t64 tA tB sc xv iv sv tI C1v C2v hfv Qv Rv lte gte ltm gtm spv yev Q0 Eb hv hyx hQ1 hQ34 hEb hcr hcar
  obtain ⟨C', Eb', hc, hC', hE1, hE2⟩ := corrCE_nat m sA Q0 Eb lte gte ltm gtm hQ34 hcr
  have hEb' : Eb' < 12288 := by
    by_cases h : Eb' = Eb + 1
    · have := hcar (hE2 h); omega
    · omega
  rw [codeTail_eq m sA Q0 _ lte gte ltm gtm tI C' _ hc (by unfold eMax; omega),
    postG m f sa sA has resv tsv t64 tA tB sc xv iv sv tI C1v C2v hfv Qv Rv lte gte ltm gtm spv yev Q0 Eb C' Eb' hv hyx hQ34 hEb hc hC' hEb'
      (fun _ hd => ⟨hQ1, hcr hd⟩)]
  cases tI
  · exact congrArg Except.ok (Prod.ext rfl (or_zero32 f).symm)
  · rfl

/-! ## 2. One turn of the loop -/

/-- **one turn of the rounding loop, opposite signs, for any continuation `Kc` and result `RHS`**: `kk` digits of `cB` are
rounded away (`kk = k` in the first turn, `k − 1` in the second), the first coefficient is padded to
`Bx = cA·10^(34 − QA + (k − kk))`; the turn ends the loop (`.done`) or asks for another one with `x1 − 1` (`.yield`), and `Kc`
is only asked to map the states satisfying the turn's postcondition to `RHS` -/
theorem turnG (H : RoundBlockSpec) (m : RoundingMode) (f : UInt32) (sa sb ea eb ah al bh bl : UInt64) (q1 q2 : Int32)
    (cA cB QA QB EA EB k : Nat) (hsS : ¬ (sa == sb) = true)
    (hac : ah.toNat * 2^64 + al.toNat = cA) (hbc : bh.toNat * 2^64 + bl.toNat = cB) (hbe : eb.toNat = EB * 2^49)
    (hqa : q1.toInt = QA) (hqb : q2.toInt = QB) (hdl : (deltaOf q1 q2 ea eb).toInt = (QA : Int) + EA - QB - EB)
    (hQAd : ndigits cA = QA) (hcA0 : 0 < cA) (hQA1 : 1 ≤ QA) (hQA : QA ≤ 34) (hQB1 : 1 ≤ QB) (hQB : QB ≤ 34)
    (hEA : EA < 12288) (hEle : EB ≤ EA) (hkE : (QA : Int) + EA - EB - 34 = k) (hk1 : 1 ≤ k) (hkQ : k + 1 ≤ QB)
    (hcB34 : cB < 10^34) :
    ∀ (Kc : ForInStep _ → Except String (U128 × UInt32)) (RHS : Except String (U128 × UInt32))
      (x1v : Int32) (sp : Bool) (kk Bx : Nat)
      (resv : U128) (tsv t64 tA tB : UInt64) (sc iv sv : Int32) (C1j C2j hfj : U128) (Qj Rj : U256),
      x1v.toInt = kk → kk ≤ k → k ≤ kk + 1 → cA * 10 ^ (34 - QA + (k - kk)) = Bx → cB / 10 ^ kk + 1 ≤ Bx → Bx < 10^35 →
      (∀ (resv' : U128) (tsv' t64' tA' tB' : UInt64) (sc' xv' iv' sv' : Int32) (tI : Bool) (C1v C2v hfv : U128) (Qv Rv : U256)
          (lte gte ltm gtm spv : Bool) (yev : UInt64) (Rf : Nat),
          (kk = 0 → Rf = cB ∧ lte = false ∧ gte = false ∧ ltm = false ∧ gtm = false ∧ tI = false) →
          (1 ≤ kk → Rf = firstR Bx (cB / 10 ^ kk) (cB % 10 ^ kk) (10 ^ kk / 2) ∧
            lte = decide (cB % 10 ^ kk = 10 ^ kk / 2 ∧ (Bx + cB / 10 ^ kk + 1) % 2 = 1) ∧
            gte = decide (cB % 10 ^ kk = 10 ^ kk / 2 ∧ (Bx + cB / 10 ^ kk + 1) % 2 = 0) ∧
            ltm = decide (10 ^ kk / 2 < cB % 10 ^ kk) ∧ gtm = decide (0 < cB % 10 ^ kk ∧ cB % 10 ^ kk < 10 ^ kk / 2) ∧
            tI = decide (cB % 10 ^ kk ≠ 0)) →
          ((Bx - Rf < 10^33 ∨ (Bx - Rf = 10^33 ∧ (gtm = true ∨ lte = true))) → kk = 0) →
          C1v.w1.toNat * 2^64 + C1v.w0.toNat = (if Bx - Rf = 10^34 then 10^33 else Bx - Rf) →
          yev.toNat = (EB + kk + (if Bx - Rf = 10^34 then 1 else 0)) * 2^49 →
          Kc (ForInStep.done (none, f, resv', sa, tsv', yev, t64', tA', tB', sc', xv', iv', sv', tI, C1v, C2v, hfv, Qv, Rv,
            lte, gte, ltm, gtm, spv, true)) = RHS) →
      (∀ (resv' : U128) (tsv' t64' tA' tB' : UInt64) (sc' iv' sv' : Int32) (C1v C2v hfv : U128) (Qv Rv : U256)
          (lte gtm : Bool) (Rf : Nat),
          1 ≤ kk → Rf = firstR Bx (cB / 10 ^ kk) (cB % 10 ^ kk) (10 ^ kk / 2) →
          lte = decide (cB % 10 ^ kk = 10 ^ kk / 2 ∧ (Bx + cB / 10 ^ kk + 1) % 2 = 1) →
          gtm = decide (0 < cB % 10 ^ kk ∧ cB % 10 ^ kk < 10 ^ kk / 2) →
          (Bx - Rf < 10^33 ∨ (Bx - Rf = 10^33 ∧ (gtm = true ∨ lte = true))) →
          C1v.w1.toNat * 2^64 + C1v.w0.toNat = Bx - Rf →
          Kc (ForInStep.yield (none, f, resv', sa, tsv', eb, t64', tA', tB', sc', x1v - 1, iv', sv', false, C1v, C2v, hfv, Qv, Rv,
            false, false, false, false, true, false)) = RHS) →
      (addBody m sb ea eb ah bh al bl q1 q2 0 (none, f, resv, sa, tsv, eb, t64, tA, tB, sc, x1v, iv, sv, false, C1j, C2j, hfj, Qj, Rj, false, false, false, false,
        sp, false) >>= Kc) = RHS := by
  have htt : true = true := rfl
  have hft : ¬ false = true := Bool.false_ne_true
  have h1i : (1 : Int32).toInt = 1 := by decide
  have h0i : (0 : Int32).toInt = 0 := by decide
  have hEk : EB + k < 12288 := by omega
  intro Kc RHS x1v sp kk Bx resv tsv t64 tA tB sc iv sv C1j C2j hfj Qj Rj hx1v hkk1 hkk2 hBx hcBx hBx35 hDone hYield
  unfold addBody
  head_zeta_vals
  clean_proj
  klet
  extract_lets -underBinder +onlyGivenNames J
  have hscale : (deltaOf q1 q2 ea eb - q1 + q2 - x1v).toInt = ((34 - QA + (k - kk) : Nat) : Int) := by
    rw [Int32.toInt_sub, Int32.toInt_add, Int32.toInt_sub, hdl, hqa, hqb, hx1v,
      bmod32 ((QA : Int) + EA - QB - EB - QA) (by omega) (by omega),
      bmod32 ((QA : Int) + EA - QB - EB - QA + QB) (by omega) (by omega), bmod32 _ (by omega) (by omega)]
    omega
  generalize hscd : deltaOf q1 q2 ea eb - q1 + q2 - x1v = scv at hscale ⊢
  obtain ⟨P, hP, hKs⟩ := scaleK_ok' q1 scv ah al cA QA (34 - QA + (k - kk)) hac hqa hscale hQAd.symm hcA0 (by omega)
  kframe (refine Eq.trans (show _ = scaleKj q1 scv ah al C1j (fun C1 => J () C1) from by unfold scaleKj; rfl) ?_)
  rw [scaleKj_eq, hKs]
  have hPB : P.w1.toNat * 2^64 + P.w0.toNat = Bx := words_of_toNat' P _ (by rw [hP, hBx])
  clear hKs hP
  kframe (show J () P = _)
  unfold J
  head_zeta_vals
  klet
  extract_lets -underBinder +onlyGivenNames JT
  have h128 : (10:Nat)^35 < 2^127 := by decide
  have keyTt : ∀ (tA' tB' : UInt64) (shv : Int32) (tI : Bool) (C2v hfv : U128) (R : U256) (lte gte ltm gtm : Bool) (Rf : Nat),
      R.w3.toNat * 2^64 + R.w2.toNat = Rf → Rf ≤ Bx →
      (kk = 0 → Rf = cB ∧ lte = false ∧ gte = false ∧ ltm = false ∧ gtm = false ∧ tI = false) →
      (1 ≤ kk → Rf = firstR Bx (cB / 10 ^ kk) (cB % 10 ^ kk) (10 ^ kk / 2) ∧
        lte = decide (cB % 10 ^ kk = 10 ^ kk / 2 ∧ (Bx + cB / 10 ^ kk + 1) % 2 = 1) ∧
        gte = decide (cB % 10 ^ kk = 10 ^ kk / 2 ∧ (Bx + cB / 10 ^ kk + 1) % 2 = 0) ∧
        ltm = decide (10 ^ kk / 2 < cB % 10 ^ kk) ∧ gtm = decide (0 < cB % 10 ^ kk ∧ cB % 10 ^ kk < 10 ^ kk / 2) ∧
        tI = decide (cB % 10 ^ kk ≠ 0)) →
      (JT () tA' tB' shv tI C2v hfv R lte gte ltm gtm >>= Kc) = RHS := by
    intro tA' tB' shv tI C2v hfv R lte gte ltm gtm Rf hR hRfB hk0 hk1'
    unfold JT
    kframe head_step
    kframe take_neg
    · exact hsS
    kframe sym_exec
    kgen_args _ C1s
    replace hC1s : C1s = if decide (P.w0 - R.w2 > P.w0) = true then ⟨P.w0 - R.w2, P.w1 - R.w3 - 1⟩
        else ⟨P.w0 - R.w2, P.w1 - R.w3⟩ := hC1s
    have hv : C1s.w1.toNat * 2^64 + C1s.w0.toNat = Bx - Rf := by
      have h := sub128_words P.w1 P.w0 R.w3 R.w2
      rw [hPB, hR, show (Bx + 2^128 - Rf) % 2^128 = Bx - Rf from by omega] at h
      rw [hC1s]
      by_cases c : decide (P.w0 - R.w2 > P.w0) = true
      · rw [if_pos c] at h ⊢; exact h
      · rw [if_neg c] at h ⊢; exact h
    clear hC1s
    kframe head_step
    kframe take_neg
    · have h0 := C1s.w0.toNat_lt
      have : C1s.w1.toNat < 2^63 := by omega
      rw [decide_eq_true_eq, ge_iff_le, UInt64.le_iff_toNat_le, show (0x8000000000000000 : UInt64).toNat = 2^63 from rfl]
      omega
    kframe head_zeta_vals
    klet
    extract_lets -underBinder +onlyGivenNames JF
    have keyFin : ∀ (xv' : Int32), (decide (xv' ≥ 1) = true → xv'.toInt = kk ∧ 1 ≤ kk) → (¬ decide (xv' ≥ 1) = true → kk = 0) →
        ((Bx - Rf < 10^33 ∨ (Bx - Rf = 10^33 ∧ (gtm = true ∨ lte = true))) → kk = 0) →
        (JF () xv' tI lte gte ltm gtm sp >>= Kc) = RHS := by
      intro xv' hxa hxb hpk
      unfold JF
      kframe head_beta
      klet
      extract_lets -underBinder +onlyGivenNames JF2
      have keyFin2 : ∀ (yv : UInt64) (C1f : U128) (Ey : Nat), yv.toNat = Ey * 2^49 →
          Ey = EB + (if Bx - Rf = 10^34 then 1 else 0) →
          C1f.w1.toNat * 2^64 + C1f.w0.toNat = (if Bx - Rf = 10^34 then 10^33 else Bx - Rf) →
          (JF2 () yv C1f >>= Kc) = RHS := by
        intro yv C1f Ey hyv hEy hC1f
        unfold JF2
        kframe head_step
        by_cases hx : decide (xv' ≥ 1) = true
        · obtain ⟨hxt, hk1''⟩ := hxa hx
          kframe take_pos
          · exact hx
          kframe head_step
          sym_exec
          have hEy' : Ey + kk < 2^14 := by
            rw [hEy]; split <;> omega
          exact hDone _ _ _ _ _ _ _ _ _ tI C1f _ _ _ _ lte gte ltm gtm _ _ Rf hk0 hk1' hpk hC1f
            (by rw [exp_plus yv xv' Ey kk hyv hxt hEy', hEy]; congr 1; omega)
        · have hkk0 := hxb hx
          kframe take_neg
          · exact hx
          kframe head_step
          sym_exec
          exact hDone _ _ _ _ _ _ _ _ _ tI C1f _ _ _ _ lte gte ltm gtm _ _ Rf hk0 hk1' hpk hC1f
            (by rw [hyv, hEy, hkk0, Nat.add_zero])
      by_cases h34 : Bx - Rf = 10^34
      · kframe take_pos
        · rw [eq_words, hv, show (542101086242752 : UInt64).toNat * 2^64 + (4003012203950112768 : UInt64).toNat = 10^34 from by decide]
          exact decide_eq_true h34
        kframe head_zeta
        exact keyFin2 _ _ (EB + 1) (exp_plus eb 1 EB 1 hbe h1i (by omega)) (by rw [if_pos h34]) (by rw [if_pos h34]; exact (by decide : (54210108624275 : UInt64).toNat * 2^64 + (4089650035136921600 : UInt64).toNat = 10^33))
      · kframe take_neg
        · rw [eq_words, hv, show (542101086242752 : UInt64).toNat * 2^64 + (4003012203950112768 : UInt64).toNat = 10^34 from by decide]
          simpa using h34
        exact keyFin2 eb C1s EB hbe (by rw [if_neg h34]; rfl) (by rw [if_neg h34]; exact hv)
    have hc33 : (54210108624275 : UInt64).toNat * 2^64 + (4089650035136921600 : UInt64).toNat = 10^33 := by decide
    have hxm1 : (x1v - 1).toInt = (kk : Int) - 1 := by
      rw [Int32.toInt_sub, hx1v, h1i, bmod32 _ (by omega) (by omega)]
    by_cases hpass : (Bx - Rf < 10^33 ∨ (Bx - Rf = 10^33 ∧ (gtm = true ∨ lte = true)))
    · kframe take_pos
      · rw [Dec.C13GenNoncomp.lt128, eq_words, hv, hc33]
        simp only [Bool.or_eq_true, Bool.and_eq_true, decide_eq_true_eq]
        exact hpass
      kframe head_step
      by_cases hk : 1 ≤ kk
      · kframe take_pos
        · rw [i32_ge, hxm1, h0i]; exact decide_eq_true (by omega)
        kframe head_step
        sym_exec
        obtain ⟨e1, e2, -, -, e5, -⟩ := hk1' hk
        exact hYield _ _ _ _ _ _ _ _ C1s _ _ _ _ lte gtm Rf hk e1 e2 e5 hpass hv
      · have hkk0 : kk = 0 := by omega
        kframe take_neg
        · rw [i32_ge, hxm1, h0i]; simp only [decide_eq_true_eq]; omega
        exact keyFin (x1v - 1)
          (fun h => by rw [i32_ge, hxm1, h1i] at h; simp only [decide_eq_true_eq] at h; omega)
          (fun _ => hkk0) (fun _ => hkk0)
    · kframe take_neg
      · rw [Dec.C13GenNoncomp.lt128, eq_words, hv, hc33]
        simp only [Bool.or_eq_true, Bool.and_eq_true, decide_eq_true_eq]
        exact hpass
      exact keyFin x1v
        (fun h => by rw [i32_ge, hx1v, h1i] at h; simp only [decide_eq_true_eq] at h; exact ⟨hx1v, by omega⟩)
        (fun h => by rw [i32_ge, hx1v, h1i] at h; simp only [decide_eq_true_eq] at h; omega)
        (fun h => absurd h hpass)
  have hxm1 : (x1v - 1).toInt = (kk : Int) - 1 := by
    rw [Int32.toInt_sub, hx1v, h1i, bmod32 _ (by omega) (by omega)]
  by_cases hkpos : 1 ≤ kk
  swap
  · -- nothing is rounded: `R256 := C2`
    have hkk0 : kk = 0 := by omega
    kframe take_neg
    · rw [i32_ge, hxm1, h0i]; simp only [decide_eq_true_eq]; omega
    have hcBle : cB ≤ Bx := by
      rw [hkk0, Nat.pow_zero, Nat.div_one] at hcBx; omega
    cases sp
    · kframe sym_exec
      kgen_args _ _ _ _ _ _ _ Rv
      have hRv' : Rv.w3.toNat * 2^64 + Rv.w2.toNat = cB := by rw [hRv]; exact hbc
      exact keyTt _ _ _ false _ _ Rv false false false false cB hRv' hcBle (fun _ => ⟨rfl, rfl, rfl, rfl, rfl, rfl⟩)
        (fun h => absurd h (by omega))
    · kframe sym_exec
      kgen_args _ _ _ _ _ _ _ Rv
      have hRv' : Rv.w3.toNat * 2^64 + Rv.w2.toNat = cB := by rw [hRv]; exact hbc
      exact keyTt _ _ _ false _ _ Rv false false false false cB hRv' hcBle (fun _ => ⟨rfl, rfl, rfl, rfl, rfl, rfl⟩)
        (fun h => absurd h (by omega))
  -- `QB ≥ 2`: the second coefficient is rounded to its leading digit by the reciprocal block
  have hxi : (x1v - 1).toInt = ((kk - 1 : Nat) : Int) := by
    rw [Int32.toInt_sub, hx1v, h1i, bmod32 _ (by omega) (by omega)]; omega
  have hcBw : bh.toNat * 2^64 + bl.toNat < 10^34 := by rw [hbc]; exact hcB34
  obtain ⟨m64, m128, KT, tr, mask0, oh0, sh0, hM64, hM128, hKT, hTR, hMK, hSH, hOH, hspec⟩ := H bh bl (kk - 1) (by omega) hcBw
  obtain ⟨mask, sh, oh, hMK', hSH', hOH'⟩ := tabs_get (kk - 1) (by omega)
  have e3 : 3 ≤ kk - 1 → mask0 = mask ∧ sh0 = sh ∧ oh0 = oh := fun h3 =>
    ⟨Except.ok.inj ((hMK h3).symm.trans hMK'), Except.ok.inj ((hSH h3).symm.trans hSH'), Except.ok.inj ((hOH h3).symm.trans hOH')⟩
  rw [← idx_i32 (x1v - 1) (kk - 1) hxi] at hM64 hKT hTR hMK' hSH' hOH'
  rw [hbc, show kk - 1 + 1 = kk from by omega] at hspec
  have hrltK := Nat.mod_lt cB (show 10 ^ kk > 0 from Nat.pow_pos (by decide))
  generalize haKd : cB / 10 ^ kk = aK at *
  generalize hrKd : cB % 10 ^ kk = rK at *
  have hD := pow10_even kk hkpos
  generalize hh : 10 ^ kk / 2 = hK at *
  clear hMK hSH hOH
  have hge : decide (x1v - 1 ≥ 0) = true := by
    rw [i32_ge, hxi, h0i]; exact decide_eq_true (by omega)
  kframe take_pos
  · exact hge
  have hspec' : ∀ R : U256, R.toNat' = (rbC2 (kk - 1) bh bl m64 m128).toNat' * KT.toNat' →
      ((rbQ (kk - 1) R sh).2.toNat * 2^64 + (rbQ (kk - 1) R sh).1.toNat = if rK < hK then aK else aK + 1) ∧
      rbGtHalf (kk - 1) R (rbHf (kk - 1) R mask) oh = decide (rK < hK) ∧
      (rK < hK → rbGtT (kk - 1) R (rbHf (kk - 1) R mask) oh tr = decide (0 < rK)) ∧
      rbMid R (rbHf (kk - 1) R mask) tr = decide (rK = hK) := by
    by_cases h3 : 3 ≤ kk - 1
    · obtain ⟨rfl, rfl, rfl⟩ := e3 h3; exact hspec
    · intro R hR
      have hs := hspec R hR
      have e1 : rbQ (kk - 1) R sh0 = rbQ (kk - 1) R sh := by unfold rbQ; rw [if_neg h3, if_neg h3]
      have e2 : rbHf (kk - 1) R mask0 = rbHf (kk - 1) R mask := by
        unfold rbHf; rw [if_pos (show kk - 1 ≤ 2 by omega), if_pos (show kk - 1 ≤ 2 by omega)]
      have e4 : ∀ hfv, rbGtHalf (kk - 1) R hfv oh0 = rbGtHalf (kk - 1) R hfv oh := by
        intro hfv; unfold rbGtHalf; rw [if_pos (show kk - 1 ≤ 2 by omega), if_pos (show kk - 1 ≤ 2 by omega)]
      have e5 : ∀ hfv, rbGtT (kk - 1) R hfv oh0 tr = rbGtT (kk - 1) R hfv oh tr := by
        intro hfv; unfold rbGtT; rw [if_pos (show kk - 1 ≤ 2 by omega), if_pos (show kk - 1 ≤ 2 by omega)]
      rw [e1, e2, e4, e5] at hs
      exact hs
  clear hspec e3
  rw [← hD] at hrltK
  have c2 : decide (x1v - 1 ≤ 2) = decide (kk - 1 ≤ 2) := by
    rw [i32_le_lit, hxi, show (2 : Int32).toInt = 2 from by decide, decide_eq_decide]; omega
  have c21 : decide (x1v - 1 ≤ 21) = decide (kk - 1 ≤ 21) := by
    rw [i32_le_lit, hxi, show (21 : Int32).toInt = 21 from by decide, decide_eq_decide]; omega
  have c18 : decide (x1v - 1 ≤ 18) = decide (kk - 1 ≤ 18) := by
    rw [i32_le_lit, hxi, show (18 : Int32).toInt = 18 from by decide, decide_eq_decide]; omega
  have c3 : decide (x1v - 1 ≥ 3) = decide (3 ≤ kk - 1) := by
    rw [i32_ge, hxi, show (3 : Int32).toInt = 3 from by decide, decide_eq_decide]; omega
  klet
  extract_lets -underBinder +onlyGivenNames c2a c2b J1
  have key1 : ∀ C2' : U128, C2' = rbC2 (kk - 1) bh bl m64 m128 →
      (J1 () C2' >>= Kc) = RHS := by
    intro C2' hC2'
    obtain ⟨RR, hMul, hRR⟩ := C01GenArith.gen_mul_128x128_to_256 C2' KT
    rw [hC2'] at hRR
    obtain ⟨sQ, sG, sT, sM⟩ := hspec' RR hRR
    clear hspec' hRR
    unfold J1
    kframe head_step
    kframe sym_exec
    kgen_args _ hf
    kframe head_step
    kframe sym_exec
    kgen_args _ shv R2
    have eR0 : R2.w0 = RR.w0 := by
      rw [hR2]; split
      · split <;> rfl
      · rfl
    have eR1 : R2.w1 = RR.w1 := by
      rw [hR2]; split
      · split <;> rfl
      · rfl
    have eQ : (R2.w2, R2.w3) = rbQ (kk - 1) RR sh := by
      rw [hR2, c3]; unfold rbQ
      by_cases h3 : 3 ≤ kk - 1
      · rw [if_pos (decide_eq_true h3), if_pos h3]
        by_cases h64 : decide (sh < 64) = true
        · rw [if_pos h64, if_pos h64]
        · rw [if_neg h64, if_neg h64]
      · rw [if_neg (by simpa using h3), if_neg h3]
    have eHf : hf = rbHf (kk - 1) RR mask := by
      rw [hhf, c2, c21]; unfold rbHf
      by_cases h2 : kk - 1 ≤ 2
      · rw [if_pos (decide_eq_true h2), if_pos h2]
      · rw [if_neg (by simpa using h2), if_neg h2]
        by_cases h21 : kk - 1 ≤ 21
        · rw [if_pos (decide_eq_true h21), if_pos h21]
        · rw [if_neg (by simpa using h21), if_neg h21]
    rw [← eHf] at sG sT sM
    have eQ2 : R2.w3.toNat * 2^64 + R2.w2.toNat = if rK < hK then aK else aK + 1 := by
      rw [← sQ, ← eQ]
    clear hhf hR2 hshv sQ
    kframe head_beta
    klet
    extract_lets -underBinder +onlyGivenNames J3
    kframe (refine Eq.trans (ite_self _) ?_)
    unfold J3
    kframe head_beta
    klet
    extract_lets -underBinder +onlyGivenNames ff J2
    have hh1 : 1 ≤ hK := by
      have : 0 < 10 ^ kk := Nat.pow_pos (by decide)
      omega
    have hk0abs : kk = 0 → ∀ (Rf : Nat) (lte gte ltm gtm tI : Bool),
        Rf = cB ∧ lte = false ∧ gte = false ∧ ltm = false ∧ gtm = false ∧ tI = false := fun h0 => absurd h0 (by omega)
    have key2 : ∀ (tA tB : UInt64) (tI ltm0 gtm0 : Bool), tI = decide (rK ≠ 0) →
        ltm0 = decide (¬ rK < hK) → gtm0 = decide (0 < rK ∧ rK < hK) →
        (J2 () tA tB tI ltm0 gtm0 >>= Kc) = RHS := by
      intro tA tB tI ltm0 gtm0 htI hltm0 hgtm0
      unfold J2
      kframe head_step
      kframe sym_exec
      unfold rbMid at sM
      have hparG : ¬ rK < hK → (P.w0 + R2.w2 &&& 1 == 1) = decide ((Bx + aK + 1) % 2 = 1) := by
        intro hnlt
        have e2 := eQ2
        rw [if_neg hnlt] at e2
        rw [(parity_word 0 (P.w0 + R2.w2)).1, decide_eq_decide]
        show (0 * 2^64 + (P.w0 + R2.w2).toNat) % 2 = 1 ↔ _
        rw [UInt64.toNat_add]
        omega
      have keyTs : ∀ (R : U256) (lte gte ltm gtm : Bool) (Rf : Nat), R.w3.toNat * 2^64 + R.w2.toNat = Rf → Rf ≤ aK + 1 →
          lte = decide (rK = hK ∧ (Bx + aK + 1) % 2 = 1) → gte = decide (rK = hK ∧ (Bx + aK + 1) % 2 = 0) →
          ltm = decide (hK < rK) → gtm = decide (0 < rK ∧ rK < hK) →
          Rf = (if rK < hK then aK else if rK = hK ∧ (Bx + aK + 1) % 2 = 1 then aK else aK + 1) →
          (JT () tA tB shv tI C2' hf R lte gte ltm gtm >>= Kc) = RHS := by
        intro R lte gte ltm gtm Rf hR hRf hlte hgte hltm hgtm hRfe
        exact keyTt tA tB shv tI C2' hf R lte gte ltm gtm Rf hR (by omega) (fun h0 => absurd h0 (by omega))
          (fun _ => ⟨by unfold firstR; exact hRfe, hlte, hgte, hltm, hgtm, htI⟩)
      khead_cases hM
      · kframe take_pos
        · exact hM
        rw [mid_glue, eR1, eR0, sM, decide_eq_true_eq] at hM
        have hnlt : ¬ rK < hK := by omega
        have hpar := hparG hnlt
        rw [if_neg hnlt] at eQ2
        by_cases hodd : (Bx + aK + 1) % 2 = 1
        · kframe take_pos
          · rw [hpar]; exact decide_eq_true hodd
          kframe sym_exec
          kgen_args _ Rd
          replace hRd : Rd = if (R2.w2 - 1 == 18446744073709551615) = true then ⟨R2.w0, R2.w1, R2.w2 - 1, R2.w3 - 1⟩
              else ⟨R2.w0, R2.w1, R2.w2 - 1, R2.w3⟩ := hRd
          have hRdv : Rd.w3.toNat * 2^64 + Rd.w2.toNat = aK := by
            have hd := dec_words R2.w3 R2.w2 (by rw [eQ2]; omega)
            rw [eQ2, Nat.add_sub_cancel] at hd
            rw [hRd]
            by_cases c : (R2.w2 - 1 == 18446744073709551615) = true
            · rw [if_pos c] at hd ⊢; exact hd
            · rw [if_neg c] at hd ⊢; exact hd
          kframe head_step
          kframe take_neg
          · exact hsS
          kframe head_zeta
          exact keyTs Rd true false false false aK hRdv (by omega)
            (decide_eq_true ⟨hM, hodd⟩).symm (decide_eq_false (fun hh => by have := hh.2; omega)).symm
            (decide_eq_false (by omega)).symm (decide_eq_false (by omega)).symm
            (by rw [if_neg hnlt, if_pos ⟨hM, hodd⟩])
        · kframe take_neg
          · rw [hpar]; simpa using hodd
          kframe sym_exec
          kframe head_zeta
          exact keyTs R2 false true false false (aK + 1) eQ2 (by omega)
            (decide_eq_false (fun hh => hodd hh.2)).symm (decide_eq_true ⟨hM, by omega⟩).symm
            (decide_eq_false (by omega)).symm (decide_eq_false (by omega)).symm
            (by rw [if_neg hnlt, if_neg (fun hh => hodd hh.2)])
      · kframe take_neg
        · exact hM
        rw [mid_glue, eR1, eR0, sM, decide_eq_true_eq] at hM
        exact keyTs R2 false false ltm0 gtm0 _ eQ2 (by split <;> omega)
          (decide_eq_false (fun hh => hM hh.1)).symm (decide_eq_false (fun hh => hM hh.1)).symm
          (by rw [hltm0, decide_eq_decide]; omega) hgtm0
          (by by_cases c : rK < hK
              · rw [if_pos c, if_pos c]
              · rw [if_neg c, if_neg c, if_neg (fun hh => hM hh.1)])
    have leafG : ∀ (Texp : Bool) (tA tB : UInt64), rK < hK → Texp = decide (0 < rK) →
        ((if Texp = true then J2 () tA tB true false true else J2 () tA tB false false false) >>= Kc) = RHS := by
      intro Texp tA tB hlt hTe
      by_cases r0 : 0 < rK
      · rw [hTe, if_pos (decide_eq_true r0)]
        exact key2 tA tB true false true (decide_eq_true (by omega)).symm
          (decide_eq_false (not_not.2 hlt)).symm (decide_eq_true ⟨r0, hlt⟩).symm
      · rw [hTe, if_neg (by simpa using r0)]
        exact key2 tA tB false false false (decide_eq_false (by omega)).symm
          (decide_eq_false (not_not.2 hlt)).symm (decide_eq_false (fun hh => r0 hh.1)).symm
    have leafL : ∀ (tA tB : UInt64), ¬ rK < hK → (J2 () tA tB true true false >>= Kc) = RHS := by
      intro tA tB hlt
      exact key2 tA tB true true false (decide_eq_true (by omega)).symm
        (decide_eq_true hlt).symm (decide_eq_false (fun hh => hlt hh.2)).symm
    clear key2
    unfold rbGtHalf at sG
    unfold rbGtT at sT
    by_cases h2 : kk - 1 ≤ 2
    · have hr1 : decide (x1v - 1 ≤ 2) = true := by rw [c2]; exact decide_eq_true h2
      rw [if_pos h2] at sG sT
      rw [← eR1, ← eR0] at sG sT
      kframe take_pos
      · exact hr1
      khead_cases hG
      · kframe take_pos
        · exact hG
        rw [sG, decide_eq_true_eq] at hG
        have sT' := sT hG
        kframe sym_exec
        refine leafG _ (R2.w1 - 9223372036854775808) tB hG ?_
        rw [or_glue]; exact sT'
      · kframe take_neg
        · exact hG
        rw [sG, decide_eq_true_eq] at hG
        kframe sym_exec
        exact leafL tA tB hG
    have hr1 : ¬ decide (x1v - 1 ≤ 2) = true := by rw [c2]; simpa using h2
    rw [if_neg h2] at sG sT
    kframe take_neg
    · exact hr1
    by_cases h21 : kk - 1 ≤ 21
    · have hr2 : decide (x1v - 1 ≤ 21) = true := by rw [c21]; exact decide_eq_true h21
      rw [if_pos h21] at sG sT
      rw [← eR1, ← eR0] at sG sT
      kframe take_pos
      · exact hr2
      kframe sym_exec
      khead_cases hG
      · kframe take_pos
        · exact hG
        rw [g2_glue, sG, decide_eq_true_eq] at hG
        kframe sym_exec
        kframe head_step
        kframe sym_exec
        refine leafG _ (hf.w0 - oh) (if decide (hf.w0 - oh > hf.w0) = true then hf.w1 - 1 else hf.w1) hG ?_
        rw [t2_glue]; exact sT hG
      · kframe take_neg
        · exact hG
        rw [g2_glue, sG, decide_eq_true_eq] at hG
        kframe sym_exec
        exact leafL tA tB hG
    · have hr2 : ¬ decide (x1v - 1 ≤ 21) = true := by rw [c21]; simpa using h21
      rw [if_neg h21] at sG sT
      rw [← eR1, ← eR0] at sG sT
      kframe take_neg
      · exact hr2
      kframe sym_exec
      khead_cases hG
      · kframe take_pos
        · exact hG
        rw [or1_glue, sG, decide_eq_true_eq] at hG
        kframe sym_exec
        refine leafG _ tA (hf.w1 - oh) hG ?_
        rw [t2_glue]; exact sT hG
      · kframe take_neg
        · exact hG
        rw [or1_glue, sG, decide_eq_true_eq] at hG
        kframe sym_exec
        exact leafL tA tB hG
  by_cases h18 : kk - 1 ≤ 18
  · have hr18 : decide (x1v - 1 ≤ 18) = true := by rw [c18]; exact decide_eq_true h18
    have hM64' := hM64 h18
    kframe take_pos
    · exact hr18
    kframe sym_exec
    khead_cases hc
    · kframe take_pos
      · exact hc
      refine key1 _ ?_
      have hc' : decide (bl + m64 < bl) = true := hc
      unfold rbC2; rw [if_pos h18, if_pos hc']
    · kframe take_neg
      · exact hc
      refine key1 _ ?_
      have hc' : ¬ decide (bl + m64 < bl) = true := hc
      unfold rbC2; rw [if_pos h18, if_neg hc']
  · have hr18 : ¬ decide (x1v - 1 ≤ 18) = true := by rw [c18]; simpa using h18
    have hi19 : (x1v - 1 - 19).toInt = ((kk - 1 - 19 : Nat) : Int) := by
      rw [Int32.toInt_sub, hxi, show (19 : Int32).toInt = 19 from by decide, bmod32 _ (by omega) (by omega)]; omega
    have hM128' := hM128 h18
    rw [← idx_i32 (x1v - 1 - 19) (kk - 1 - 19) hi19] at hM128'
    kframe take_neg
    · exact hr18
    kframe sym_exec
    khead_cases hc
    · kframe take_pos
      · exact hc
      refine key1 _ ?_
      have hc' : decide (bl + m128.w0 < bl) = true := hc
      unfold rbC2; rw [if_neg h18, if_pos hc']
    · kframe take_neg
      · exact hc
      refine key1 _ ?_
      have hc' : ¬ decide (bl + m128.w0 < bl) = true := hc
      unfold rbC2; rw [if_neg h18, if_neg hc']

/-! ## 3. The two turns -/

/-- opposite signs, operands in the code's order (`a` has the larger exponent), `k = x1`, `B` the padded first coefficient,
`cB = av·10^k + rv`, outside the region of `loop1_code`: the result is the model's `finish` on the exact difference -/
theorem loopB_code_aux (H : RoundBlockSpec) (x y a b : U128) (m : RoundingMode) (f : UInt32)
    (hsp : ¬ ((x.w1 &&& c_MASK_SPECIAL == c_MASK_SPECIAL) || (y.w1 &&& c_MASK_SPECIAL == c_MASK_SPECIAL)) = true)
    (hx0 : ¬ (uH x == 0 && uL x == 0) = true) (hy0 : ¬ (uH y == 0 && uL y == 0) = true)
    (hab : Ordered x y a b)
    (D D1 : UInt32) (THI TLO : UInt64) (D' D1' : UInt32) (THI' TLO' : UInt64)
    (hTa : tblDD Dec.Gen.BID_NR_DIGITS (UInt64.ofInt (toI (nbOf (uH a) (uL a)))) = .ok ⟨D, THI, TLO, D1⟩)
    (hTb : tblDD Dec.Gen.BID_NR_DIGITS (UInt64.ofInt (toI (nbOf (uH b) (uL b)))) = .ok ⟨D', THI', TLO', D1'⟩)
    (sA sB : Bool) (cA cB QA QB EA EB k B av rv : Nat) (eB : Int)
    (has : (a.w1 &&& c_MASK_SIGN).toNat = if sA then 2^63 else 0) (hbs : (b.w1 &&& c_MASK_SIGN).toNat = if sB then 2^63 else 0)
    (hac : (uH a).toNat * 2^64 + (uL a).toNat = cA) (hbc : (uH b).toNat * 2^64 + (uL b).toNat = cB)
    (hae : (uE a).toNat = EA * 2^49) (hbe : (uE b).toNat = EB * 2^49)
    (hqa : (qOf D D1 THI TLO (uH a) (uL a)).toInt = QA) (hqb : (qOf D' D1' THI' TLO' (uH b) (uL b)).toInt = QB)
    (hQAd : ndigits cA = QA) (hcA0 : 0 < cA) (hQA1 : 1 ≤ QA) (hQA : QA ≤ 34) (hQB1 : 1 ≤ QB) (hQB : QB ≤ 34)
    (hEA : EA < 12288) (hEle : EB ≤ EA) (hkE : (QA : Int) + EA - EB - 34 = k) (hk1 : 1 ≤ k) (hkQ : k + 1 ≤ QB)
    (hBd : cA * 10 ^ (34 - QA) = B) (hB1 : 10^33 ≤ B) (hB2 : B < 10^34) (hcBQ : cB < 10 ^ QB) (hcB0 : 0 < cB)
    (hcBe : cB / 10 ^ k = av ∧ cB % 10 ^ k = rv) (hrlt : rv < 10 ^ k)
    (hsne : ¬ sA = sB) (hdomB : ¬ (10^33 + av + 1 < B)) (heB : eB = (EB : Int) - 6176) :
    bid128_add x y m f =
      .ok (ofBits (encode (finish (md m) sA (B * 10 ^ k - cB) 1 eB eB).1),
           f ||| UInt32.ofNat (finish (md m) sA (B * 10 ^ k - cB) 1 eB eB).2) := by
  have hEB : EB < 2^14 := by omega
  have hEA' : EA < 2^14 := by omega
  have hdl := delta_toInt _ _ (uE a) (uE b) _ _ _ _ hqa hqb hQA hQB hae hbe hEA' hEB
  have h34 : c_P34.toInt = 34 := by decide
  have hsig : (a.w1 &&& c_MASK_SIGN == b.w1 &&& c_MASK_SIGN) = (sA == sB) := (sign_eq_bools _ _ sA sB has hbs).1
  have hd1 : ¬ decide (deltaOf (qOf D D1 THI TLO (uH a) (uL a)) (qOf D' D1' THI' TLO' (uH b) (uL b)) (uE a) (uE b) ≥ c_P34) = true := by
    rw [i32_ge, hdl, h34]; simp only [decide_eq_true_eq]; omega
  have hd2 : decide (deltaOf (qOf D D1 THI TLO (uH a) (uL a)) (qOf D' D1' THI' TLO' (uH b) (uL b)) (uE a) (uE b) ≥ 0) = true := by
    rw [i32_ge, hdl, show (0 : Int32).toInt = 0 from by decide]; exact decide_eq_true (by omega)
  have hq2s : (c_P34 - 1 - qOf D' D1' THI' TLO' (uH b) (uL b)).toInt = 33 - (QB : Int) := by
    rw [Int32.toInt_sub, hqb, show (c_P34 - 1).toInt = 33 from by decide, bmod32 _ (by omega) (by omega)]
  have hq2t : (c_P34 - qOf D' D1' THI' TLO' (uH b) (uL b)).toInt = 34 - (QB : Int) := by
    rw [Int32.toInt_sub, hqb, h34, bmod32 _ (by omega) (by omega)]
  have hd3 : ¬ decide (deltaOf (qOf D D1 THI TLO (uH a) (uL a)) (qOf D' D1' THI' TLO' (uH b) (uL b)) (uE a) (uE b) ≤ c_P34 - 1 - qOf D' D1' THI' TLO' (uH b) (uL b)) = true := by
    rw [i32_le_lit, hdl, hq2s]; simp only [decide_eq_true_eq]; omega
  have hd4 : ¬ (deltaOf (qOf D D1 THI TLO (uH a) (uL a)) (qOf D' D1' THI' TLO' (uH b) (uL b)) (uE a) (uE b) == c_P34 - qOf D' D1' THI' TLO' (uH b) (uL b)) = true := by
    rw [beq_i32', hdl, hq2t]; simp only [decide_eq_true_eq]; omega
  add_front
  take_neg
  · rw [hq1, hq2, hea, heb]; exact hd1
  take_pos
  · rw [hq1, hq2, hea, heb]; exact hd2
  take_neg
  · rw [hq1, hq2, hea, heb]; exact hd3
  take_neg
  · rw [hq1, hq2, hea, heb]; exact hd4
  rw [← hq1] at hqa
  rw [← hq2] at hqb
  rw [← hal, ← hah] at hac
  rw [← hbl, ← hbh] at hbc
  rw [← hsa] at has
  rw [← hsb] at hbs
  rw [← hsa, ← hsb] at hsig
  rw [← hea] at hae
  rw [← heb] at hbe
  rw [← hq1, ← hq2, ← hea, ← heb] at hdl
  clear hd1 hd2 hd3 hd4 hTa hTb hsp hx0 hy0 hab hq2s hq2t
  clear hq1 hq2 hal hah hbl hbh hsa hsb hea heb
  have htt : true = true := rfl
  have hft : ¬ false = true := Bool.false_ne_true
  head_step
  fold_add_loop
  unfold addInit
  have hx1 : (deltaOf q1 q2 ea eb + q2 - c_P34).toInt = (k : Int) := by
    rw [Int32.toInt_sub, Int32.toInt_add, hdl, hqb, h34, bmod32 ((QA : Int) + EA - QB - EB + QB) (by omega) (by omega),
      bmod32 _ (by omega) (by omega)]
    omega
  generalize hx1d : deltaOf q1 q2 ea eb + q2 - c_P34 = x1 at hx1 ⊢
  have h1i : (1 : Int32).toInt = 1 := by decide
  have h0i : (0 : Int32).toInt = 0 := by decide
  have hsS : ¬ (sa == sb) = true := by rw [hsig]; simpa using hsne
  have hGc := fun i j st => addBody_const m sb ea eb ah bh al bl q1 q2 i j st
  have hcB34 : cB < 10^34 := lt_of_lt_of_le hcBQ (Nat.pow_le_pow_right (by decide) hQB)
  have hEk : EB + k < 12288 := by omega
  have turn := turnG H m f sa sb ea eb ah al bh bl q1 q2 cA cB QA QB EA EB k hsS hac hbc hbe hqa hqb hdl hQAd hcA0 hQA1 hQA hQB1 hQB
    hEA hEle hkE hk1 hkQ hcB34
  have postTail := postTailG m f sa sA has
  -- number-level data
  have hp : 0 < 10 ^ k := Nat.pow_pos (by decide)
  have hD := pow10_even k hk1
  have hcBeq : cB = av * 10 ^ k + rv := by
    rw [← hcBe.1, ← hcBe.2, Nat.mul_comm]; exact (Nat.div_add_mod cB (10 ^ k)).symm
  have hav33 : av < 10 ^ (QB - k) := by
    rw [← hcBe.1, Nat.div_lt_iff_lt_mul hp, ← Nat.pow_add, show QB - k + k = QB from by omega]; exact hcBQ
  have hav33' : av < 10^33 := lt_of_lt_of_le hav33 (Nat.pow_le_pow_right (by decide) (by omega))
  have heBlo : -6176 ≤ eB := by omega
  have h3334 : (10:Nat)^33 < 10^34 := by decide
  have hBle : B ≤ 10^33 + av + 1 := by omega
  refine Eq.trans (loop_first 4095 _ hGc _ (addPost m)) ?_
  refine turn _ _ x1 false k B _ _ _ _ _ _ _ _ _ _ _ _ _ hx1 (le_refl k) (by omega)
    (by rw [Nat.sub_self, Nat.add_zero]; exact hBd) (by rw [hcBe.1]; omega) (lt_trans hB2 (by decide)) ?_ ?_
  · -- the first turn ends the loop: the boundary, no second turn
    intro resv' tsv' t64' tA' tB' sc' xv' iv' sv' tI C1v C2v hfv Qv Rv lte gte ltm gtm spv yev Rf h0 h1 hpk hC hy
    refine Eq.trans (show _ = addPost m (none, f, resv', sa, tsv', yev, t64', tA', tB', sc', xv', iv', sv', tI, C1v, C2v, hfv, Qv, Rv,
      lte, gte, ltm, gtm, spv, true) from rfl) ?_
    obtain ⟨eRf, elte, egte, eltm, egtm, etI⟩ := h1 hk1
    simp only [hcBe.1, hcBe.2] at eRf elte egte eltm egtm etI
    generalize hh : 10 ^ k / 2 = h at *
    have hno : ¬ (B - Rf < 10^33 ∨ (B - Rf = 10^33 ∧ (gtm = true ∨ lte = true))) := fun hps => absurd (hpk hps) (by omega)
    have hRfle : Rf ≤ av + 1 := by rw [eRf]; unfold firstR; split_ifs <;> omega
    have hne34 : ¬ B - Rf = 10^34 := by omega
    rw [if_neg hne34] at hC hy
    have hfin := sub_final1' m sA B av rv h k eB hD.symm hk1 (by rw [hD]; exact hrlt) hB2 (by omega) lte gte ltm gtm elte egte
      eltm egtm (B * 10 ^ k - cB) (by rw [hcBeq]) (by rw [← eRf]; exact hno) heBlo (by omega)
    rw [hfin, ← eRf, ← etI, show eB + (k : Int) = ((EB + k : Nat) : Int) - 6176 from by omega]
    exact postTail _ _ _ _ _ _ _ _ _ tI C1v _ _ _ _ lte gte ltm gtm _ yev (B - Rf) (EB + k) hC (by rw [hy, Nat.add_zero])
      (by omega) (by omega) hEk (fun _ _ => by omega) (fun h => absurd h (by omega))
  · -- the second turn
    intro resv' tsv' t64' tA' tB' sc' iv' sv' C1v C2v hfv Qv Rv lte gtm Rf _ eRf elte egtm hpass hC
    refine Eq.trans (show _ = (forIn [:4095] (none, f, resv', sa, tsv', eb, t64', tA', tB', sc', x1 - 1, iv', sv', false, C1v, C2v,
      hfv, Qv, Rv, false, false, false, false, true, false) (addBody m sb ea eb ah bh al bl q1 q2) >>= addPost m) from rfl) ?_
    refine Eq.trans (loop_first 4094 _ hGc _ (addPost m)) ?_
    simp only [hcBe.1, hcBe.2] at eRf elte egtm
    generalize hh : 10 ^ k / 2 = h at *
    have hh0 : 0 < h := by omega
    have hxm : (x1 - 1).toInt = ((k - 1 : Nat) : Int) := by
      rw [Int32.toInt_sub, hx1, h1i, bmod32 _ (by omega) (by omega)]; omega
    have h10B : cA * 10 ^ (34 - QA + (k - (k - 1))) = 10 * B := by
      rw [show k - (k - 1) = 1 from by omega, Nat.pow_add, ← Nat.mul_assoc, hBd]; omega
    have hdivle : cB / 10 ^ (k - 1) ≤ cB := Nat.div_le_self _ _
    -- the first turn's test says that the exact difference is below `10^33` units
    obtain ⟨htr, -⟩ := sub_adjust_gen m sA B av rv h k hD.symm hh0 (by rw [hD]; exact hrlt) (by omega) lte
      (decide (rv = h ∧ (B + av + 1) % 2 = 0)) (decide (h < rv)) gtm elte rfl rfl egtm (B * 10 ^ k - cB) _ (by rw [hcBeq]) rfl
    rw [← eRf] at htr
    have hyes := (pass2_iff _ _ _ _ _ _ _ _ hh0 htr).1 hpass
    have hS2 : 2 ≤ k → ∀ (lte' gte' ltm' gtm' : Bool),
        lte' = decide (cB % 10 ^ (k - 1) = 10 ^ (k - 1) / 2 ∧ (10 * B + cB / 10 ^ (k - 1) + 1) % 2 = 1) →
        gte' = decide (cB % 10 ^ (k - 1) = 10 ^ (k - 1) / 2 ∧ (10 * B + cB / 10 ^ (k - 1) + 1) % 2 = 0) →
        ltm' = decide (10 ^ (k - 1) / 2 < cB % 10 ^ (k - 1)) →
        gtm' = decide (0 < cB % 10 ^ (k - 1) ∧ cB % 10 ^ (k - 1) < 10 ^ (k - 1) / 2) →
        ∀ D2, D2 = 10 * B - firstR (10 * B) (cB / 10 ^ (k - 1)) (cB % 10 ^ (k - 1)) (10 ^ (k - 1) / 2) →
        finish (md m) sA (B * 10 ^ k - cB) 1 eB eB =
          codeTail m sA (if D2 = 10 ^ 34 then 10 ^ 33 else D2)
            (if D2 = 10 ^ 34 then eB + (k - 1 : Nat) + 1 else eB + (k - 1 : Nat)) lte' gte' ltm' gtm'
            (decide (cB % 10 ^ (k - 1) ≠ 0)) ∧
        9 * 10 ^ 33 ≤ D2 ∧ D2 ≤ 10 ^ 34 ∧ ¬ (D2 < 10 ^ 33 ∨ (D2 = 10 ^ 33 ∧ (gtm' = true ∨ lte' = true))) := by
      intro hk2 lte' gte' ltm' gtm' e1 e2 e3 e4 D2 hD2
      have hD' := pow10_even (k - 1) (by omega)
      have hp' : 0 < 10 ^ (k - 1) := Nat.pow_pos (by decide)
      have hav32 : av < 10^32 := lt_of_lt_of_le hav33 (Nat.pow_le_pow_right (by decide) (by omega))
      have hps := hpass
      rw [eRf] at hps
      exact sub_final2 m sA B av rv h k (cB / 10 ^ (k - 1)) (cB % 10 ^ (k - 1)) (10 ^ (k - 1) / 2) eB hD.symm hk2
        (by rw [hD]; exact hrlt) hB1 hB2 hav32 lte (decide (rv = h ∧ (B + av + 1) % 2 = 0)) (decide (h < rv)) gtm elte rfl rfl egtm
        (B * 10 ^ k - cB) (by rw [hcBeq]) hps hD'.symm (by rw [hD']; exact Nat.mod_lt _ hp')
        (by rw [← hcBeq, Nat.mul_comm]; exact (Nat.div_add_mod cB (10 ^ (k - 1))).symm)
        lte' gte' ltm' gtm' e1 e2 e3 e4 D2 hD2 heBlo (by unfold eMax; omega)
    refine turn _ _ (x1 - 1) true (k - 1) (10 * B) _ _ _ _ _ _ _ _ _ _ _ _ _ hxm (by omega) (by omega) h10B (by omega) (by omega)
      ?_ ?_
    · intro resv'' tsv'' t64'' tA'' tB'' sc'' xv'' iv'' sv'' tI C1w C2w hfw Qw Rw lte' gte' ltm' gtm' spv yev Rf' h0 h1 hpk hCw hy
      refine Eq.trans (show _ = addPost m (none, f, resv'', sa, tsv'', yev, t64'', tA'', tB'', sc'', xv'', iv'', sv'', tI, C1w, C2w, hfw,
        Qw, Rw, lte', gte', ltm', gtm', spv, true) from rfl) ?_
      by_cases hk2 : 2 ≤ k
      · obtain ⟨eRf', elte', egte', eltm', egtm', etI'⟩ := h1 (by omega)
        obtain ⟨hfin, hD2lo, hD2hi, -⟩ := hS2 hk2 lte' gte' ltm' gtm' elte' egte' eltm' egtm' (10 * B - Rf') (by rw [eRf'])
        rw [hfin, ← etI']
        have hEe : (if 10 * B - Rf' = 10 ^ 34 then eB + ((k - 1 : Nat) : Int) + 1 else eB + ((k - 1 : Nat) : Int)) =
            ((EB + (k - 1) + (if 10 * B - Rf' = 10 ^ 34 then 1 else 0) : Nat) : Int) - 6176 := by
          split <;> omega
        rw [hEe]
        exact postTail _ _ _ _ _ _ _ _ _ tI C1w _ _ _ _ lte' gte' ltm' gtm' _ yev _ _ hCw hy
          (by split <;> omega) (by split <;> omega) (by split <;> omega)
          (fun _ hq => by
            by_cases c : 10 * B - Rf' = 10 ^ 34
            · rw [if_pos c]; omega
            · rw [if_neg c] at hq; omega)
          (fun hq => by
            by_cases c : 10 * B - Rf' = 10 ^ 34
            · rw [if_pos c] at hq; omega
            · rw [if_neg c]; omega)
      · -- `k = 1`: nothing is rounded in the second turn
        have hk1e : k = 1 := by omega
        subst hk1e
        obtain ⟨eRf', rfl, rfl, rfl, rfl, rfl⟩ := h0 rfl
        obtain ⟨eN, hN0, hN34, -⟩ := finish_sub_pass2_exact (md m) sA B cB eB (by omega) (B * 10 ^ 1 - cB) rfl hyes heBlo (by omega)
        have hfin := sub_final_exact m sA B cB eB (by omega) (B * 10 ^ 1 - cB) rfl hyes heBlo (by omega)
        have hne34 : ¬ 10 * B - Rf' = 10^34 := by rw [eRf']; omega
        rw [if_neg hne34] at hCw hy
        rw [hfin, ← eRf', show eB = ((EB : Nat) : Int) - 6176 from heB]
        exact postTail _ _ _ _ _ _ _ _ _ false C1w _ _ _ _ false false false false _ yev (10 * B - Rf') EB hCw
          (by rw [hy]; simp) (by rw [eRf', ← eN]; exact hN0) (by rw [eRf', ← eN]; exact hN34) (by omega)
          (fun hd => absurd hd (by rw [dnB_ff]; decide)) (fun _ => by omega)
    · -- there is no third turn
      intro resv'' tsv'' t64'' tA'' tB'' sc'' iv'' sv'' C1w C2w hfw Qw Rw lte' gtm' Rf' hk' eRf' elte' egtm' hpass' _
      obtain ⟨-, -, -, hno3⟩ := hS2 (by omega) lte' _ _ gtm' elte' rfl rfl egtm' (10 * B - Rf') (by rw [eRf'])
      exact absurd hpass' hno3

/-- **arm (B) of the rounding loop at word level** -/
theorem loopB_code (H : RoundBlockSpec) : LoopBCodeSpec := loopB_code_aux H

end Dec.C01GenAddLoopB
