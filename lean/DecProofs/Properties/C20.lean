/-
  C20 — Eq, Ord and Hash on d128 are mutually consistent (model of the trait glue as `d128.rs`
  composes it; the transitivity statements are in `DecProofs.Properties.C20Order`).
-/
import DecModel.Ops

namespace Dec.C20

theorem cmpFin_refl (s : Bool) (c : Nat) (e : Int) : cmpFin s c e s c e = .eq := by simp [cmpFin]

theorem cmpD_refl (x : Datum) (h : x.isNaN = false) : cmpD x x = some .eq := by
  cases x with
  | fin s c e => simp [cmpD, cmpFin_refl]
  | inf s => simp [cmpD]
  | nan s g p => simp [Datum.isNaN] at h

/-- equality is reflexive — including on NaNs, which form one class -/
theorem eq_refl (x : Datum) : eqGlue x x = true := by
  unfold eqGlue
  cases h : x.isNaN
  · simp [cmpD_refl x h]
  · simp

/-- a NaN never equals a number; all NaNs are equal -/
theorem nan_classes (x y : Datum) :
    (x.isNaN = true → y.isNaN = true → eqGlue x y = true) ∧
    (x.isNaN = true → y.isNaN = false → eqGlue x y = false ∧ eqGlue y x = false) := by
  constructor
  · intro hx hy; simp [eqGlue, hx, hy]
  · intro hx hy; simp [eqGlue, hx, hy]

/-- `partial_cmp` is Equal exactly when `==` holds -/
theorem partialCmp_eq_iff (x y : Datum) : partialCmpGlue x y = some .eq ↔ eqGlue x y = true := by
  unfold partialCmpGlue
  by_cases h : eqGlue x y = true
  · simp [h]
  · simp only [h, if_false, iff_false, Bool.false_eq_true]
    rcases hc : cmpD x y with _ | (_ | _ | _) <;> simp

/-- `a <= b` holds exactly when `partial_cmp(a, b)` is Less or Equal (this is how the judge's
expectation for `le`/`ge` is defined, and — since the repair of D11 — how the crate computes it) -/
theorem le_iff_partialCmp (x y : Datum) :
    (partialCmpGlue x y == some .lt || partialCmpGlue x y == some .eq) =
    (match partialCmpGlue x y with | some .lt | some .eq => true | _ => false) := by
  rcases partialCmpGlue x y with _ | (_ | _ | _) <;> rfl

/-- values that are equal have the same hash key: the key of a NaN, of a zero and of an infinity -/
theorem hashKey_classes (s1 s2 g1 g2 : Bool) (p1 p2 : Nat) (e1 e2 : Int) :
    hashKey (.nan s1 g1 p1) = hashKey (.nan s2 g2 p2) ∧ hashKey (.fin s1 0 e1) = hashKey (.fin s2 0 e2) ∧
    hashKey (.inf s1) = .inf s1 := by
  simp [hashKey]

example : hashKey (.fin false 10 (-1)) = hashKey (.fin false 1 0) := by decide
example : hashKey (.fin false 7920000 (-3)) = hashKey (.fin false 7920 0) := by decide
example : eqGlue (.nan false true 3) (.nan true false 9) = true := by decide

end Dec.C20
