/-
  C06GenToUInt64 — the ten decimal128 → unsigned 64-bit integer conversions of bid128_to_uint64.rs as translated in
  `DecGen/Code.lean` (`Dec.Gen.Code.bid128_to_uint64_{int,xint,floor,xfloor,ceil,xceil,rnint,xrnint,rninta,xrninta}`)
  return, for ALL 128-bit patterns (non-canonical ones included) and every incoming status word, exactly what the model's
  `Dec.toIntD mode xflag` says for the type `u64` (`DecModel/Misc.lean`, `u64Ty` of `DecModel/Ops.lean`): the integer
  (NaN, infinity, or a rounded value outside [0, 2^64 − 1]: the indefinite value 2^63 and `invalid`), and `inexact` or-ed in
  by the `x` variants iff the value was not an integer; nothing else is raised; no routine ever panics (every table index in
  range).

  Main theorems, one per routine (`specOut mode xf x f` = `.ok (that integer as a word, f ||| the model's flags)`):
      to_uint64_int_spec     = specOut .rtz false        to_uint64_xint_spec     = specOut .rtz true
      to_uint64_floor_spec   = specOut .rdn false        to_uint64_xfloor_spec   = specOut .rdn true
      to_uint64_ceil_spec    = specOut .rup false        to_uint64_xceil_spec    = specOut .rup true
      to_uint64_rnint_spec   = specOut .rne false        to_uint64_xrnint_spec   = specOut .rne true
      to_uint64_rninta_spec  = specOut .rna false        to_uint64_xrninta_spec  = specOut .rna true
  and `all_meet_model` (the word's value IS the model's integer, the status word the incoming one with the model's flags),
  `expect_u64` (the judge's `expect "convert_to_u64_…"` is that model value, for the ten entry points of `DecGen/Api.lean`).

  Method.  Every routine is its own copy of one case analysis.  The blocks are written once, in continuation-passing
  style, as the text of the routines (`frontK` with `nrDigitsK`, `rangeK` / `rangeFK` / `rangePosK`, `valueK`, `quotK`,
  `splitK`, `fracGtK`, `incK`, `addHalfK`, `fracK`, `midK`, `halfK`), parameterised by the comparison blocks in which the
  copies differ (`t19_*`, `t20_*`, `negT_*`, `tBig_*`: their own text).  `…_shape` lemmas (all by `rfl`) state that each
  translated routine IS the chain of blocks with its own parameters.  Each block has one specification (`frontK_spec`,
  `rangeK_spec`, `quotK_spec`, `splitK_spec`, `fracGtK_spec`, `removeK_spec`, `fracK_spec`, `midK_spec`, `halfK_spec`, …);
  the per-copy parameters are checked by `rangeOK_int / _ceil / _rn` (the constants 0xa_0000000000000000,
  0x9_fffffffffffffff6 strict, 0x9_fffffffffffffffb are 10·2^64, 10·(2^64 − 1), 10·2^64 − 5) and `negT_any_inv`; the model side
  says these are the right thresholds for the direction (`range20`: at 20 integer digits the test decides `2^64 ≤` the
  rounded magnitude).  The glue lemmas (`front_glue`, `range_glue`, `rest_pos`, `rest_any`, `rest_near`, `value_glue`)
  reduce each routine to its digit-removal block.  The reciprocal multiplication is analysed on numbers (`remove_trunc`;
  for the nearest copies `core` of `C02RoundHelpers`), its side conditions are checked by the kernel on the rows of the
  tables the crate was compiled with (`rowFacts_all`).  The blocks `nrDigitsK`, `addHalfK`, `splitK`, `fracK`, `midK` have
  the same text as in the 32-bit conversions; their analysis follows `C06GenToInt` (a sibling file; nothing is imported
  from it).

  Findings (no deviation from the specification was found):
    * the branch `q == 21` for negative operands with 20 integer digits (`q + exp == 20`), present in eight copies
      (`int`, `xint`, `ceil`, `xceil`: `C1.w[1] != 0 || C1.w[0] >= 10`; `rnint`, `xrnint`: `… > 5`; `rninta`, `xrninta`: `… >= 5`):
      a 21-digit coefficient is at least 10^20, so the condition is always true and the branch returns invalid exactly like
      its `else` branch (`negT_any_inv`); were it ever false, control would fall through to the general path, which returns
      invalid for every negative operand with an integer digit anyway.  The test is vacuous, not wrong.
      (`floor` / `xfloor` do not have it: every negative non-zero operand leaves before the digit count.)
    * when 1 to 3 digits are removed the table shift is 0 and the code evaluates `Cstar.w[1] << (64 − 0)`: with the crate's
      profile (overflow checks off) the shift amount wraps to 0 and the result word is `Cstar.w[0] | Cstar.w[1]`; this is
      harmless because `Cstar.w[1] = 0` whenever the quotient fits 64 bits, which the range test has ensured
      (`split_words`, case `s = 0`).  With overflow checks on, that expression would panic.
    * the first text of the inexactness test of `xrnint` / `xrninta` (1 to 3 digits removed) compares with `>=` where the
      other two texts compare with `>`; the value in question is never attained (`FracOK.inexGe`, `inexGt`).
    * `ceil`: the tests `x_sign == 0` next to the fraction tests are always true there (negative operands have left).
-/
import DecGen.Code
import DecModel.Misc
import DecModel.Ops
import DecProofs.Core.Digits
import DecProofs.Properties.C03GenCompare
import DecProofs.Properties.C17GenNext
import DecProofs.Properties.C02RoundHelpers
import Mathlib.Tactic.Ring
import Mathlib.Tactic.Linarith

set_option linter.unusedSimpArgs false
set_option linter.unusedVariables false
set_option linter.unnecessarySeqFocus false

namespace Dec.C06GenToUInt64
open Dec.Rs Dec.Gen.Code Dec.C03GenCompare
open Dec.C17GenNext (float_exp tblDD_nr nr_q log2_shift log2_hi toI_u64 toI_u32 toI_i32 bmod32 u64_ge u64_beq_zero mach_spec
  mul_128x64_spec idx_toNat)

/-! ## 0. The specification -/

/-- what the model expects of a conversion to `u64` in direction `mode` (`xf`: the inexact-signalling variant): the
integer (or the indefinite value 2^63) and the incoming status word with the model's flags or-ed in -/
def specOut (mode : Mode) (xf : Bool) (x : U128) (f : UInt32) : Except String (UInt64 × UInt32) :=
  .ok (UInt64.ofNat (toIntD mode xf u64Ty.lo u64Ty.hi u64Ty.indef (decode (bitsOf x))).1.toNat,
       f ||| UInt32.ofNat (toIntD mode xf u64Ty.lo u64Ty.hi u64Ty.indef (decode (bitsOf x))).2)

/-! ## 1. The blocks of the case analysis, in continuation-passing style (each is the text of the Rust routines) -/

/-- invalid: the 64-bit indefinite value -/
def INV (f : UInt32) : Except String (UInt64 × UInt32) :=
  .ok ((0x8000000000000000 : UInt64), f ||| c_StatusFlags_BID_INVALID_EXCEPTION)

/-- inexact or-ed into the status word -/
def IX (f : UInt32) : UInt32 := f ||| c_StatusFlags_BID_INEXACT_EXCEPTION

/-- the digit count of a non-zero coefficient: bit length through the exponent field of an `f64`, then `BID_NR_DIGITS` -/
def nrDigitsK {α : Type} (C1 : U128) (k : Int32 → Except String α) : Except String α := do
  let mut tmp1 : F64U := default
  let mut x_nr_bits : UInt32 := default
  let mut q : Int32 := default
  if (C1.w1 == (0 : UInt64)) then
    if (decide (C1.w0 ≥ (0x20000000000000 : UInt64))) then
      tmp1 := (F64U.ofU64 (UInt64.ofInt (toI ((C1.w0 >>> 0x20)))))
      x_nr_bits := ((0x21 : UInt32) + ((((((UInt32.ofInt (toI ((tmp1.bits >>> 0x34))))) &&& (0x7ff : UInt32))) - (0x3ff : UInt32))))
    else
      tmp1 := (F64U.ofU64 (UInt64.ofInt (toI C1.w0)))
      x_nr_bits := ((1 : UInt32) + ((((((UInt32.ofInt (toI ((tmp1.bits >>> 0x34))))) &&& (0x7ff : UInt32))) - (0x3ff : UInt32))))
  else
    tmp1 := (F64U.ofU64 (UInt64.ofInt (toI C1.w1)))
    x_nr_bits := ((0x41 : UInt32) + ((((((UInt32.ofInt (toI ((tmp1.bits >>> 0x34))))) &&& (0x7ff : UInt32))) - (0x3ff : UInt32))))
  q := (Int32.ofInt (toI ((← tblDD Dec.Gen.BID_NR_DIGITS (UInt64.ofInt (toI ((x_nr_bits - (1 : UInt32)))))).digits)))
  if (q == (0 : Int32)) then
    q := (Int32.ofInt (toI ((← tblDD Dec.Gen.BID_NR_DIGITS (UInt64.ofInt (toI ((x_nr_bits - (1 : UInt32)))))).digits1)))
    if (← (if (decide (C1.w1 > (← tblDD Dec.Gen.BID_NR_DIGITS (UInt64.ofInt (toI ((x_nr_bits - (1 : UInt32)))))).threshold_hi)) then pure true else (do pure ((← (if (C1.w1 == (← tblDD Dec.Gen.BID_NR_DIGITS (UInt64.ofInt (toI ((x_nr_bits - (1 : UInt32)))))).threshold_hi) then (do pure (decide (C1.w0 ≥ (← tblDD Dec.Gen.BID_NR_DIGITS (UInt64.ofInt (toI ((x_nr_bits - (1 : UInt32)))))).threshold_lo))) else pure false)))))) then
      q := (q + 1)
  k q

/-- front end: NaN / infinity → `inv`; zero / non-canonical → `zero`; a finite non-zero operand first goes through `pre`
(the early exit of `floor` for negative operands; the identity elsewhere), then the continuation gets the sign word, the
coefficient, its digit count and the unbiased exponent -/
def frontK {α : Type} (x : U128) (inv zero : Except String α) (pre : UInt64 → Except String α → Except String α)
    (k : UInt64 → U128 → Int32 → Int32 → Except String α) : Except String α :=
  if (((x.w1 &&& c_MASK_SPECIAL)) == c_MASK_SPECIAL) then inv
  else if ((((decide ((x.w1 &&& c_MASK_COEFF) > (0x1ed09bead87c0 : UInt64)))) || ((((x.w1 &&& c_MASK_COEFF) == (0x1ed09bead87c0 : UInt64)) && ((decide (x.w0 > (0x378d8e63ffffffff : UInt64))))))) || ((((x.w1 &&& (0x6000000000000000 : UInt64))) == (0x6000000000000000 : UInt64)))) then zero
  else if ((((x.w1 &&& c_MASK_COEFF) == (0 : UInt64))) && ((x.w0 == (0 : UInt64)))) then zero
  else pre (x.w1 &&& c_MASK_SIGN) (nrDigitsK ⟨x.w0, x.w1 &&& c_MASK_COEFF⟩ (fun q =>
    k (x.w1 &&& c_MASK_SIGN) ⟨x.w0, x.w1 &&& c_MASK_COEFF⟩ q (Int32.ofInt (toI (((((x.w1 &&& c_MASK_EXP) >>> 0x31)) - (0x1820 : UInt64)))))))

/-- a comparison block of the range test: on a 128-bit number, go to the first continuation (invalid) or to the second -/
abbrev Tst (α : Type) := U128 → Except String α → Except String α → Except String α

/-- range test for a non-negative operand with exactly 20 integer digits (`q + exp = 20`): compare `10·|x|` — formed as
`C1·10^(21−q)`, or `C1` against the constant times `10^(q−21)` — with the copy's threshold.  `t19` is the copy's test of
the scaled coefficient (`q ≤ 19`), `t20` its test for `q = 20`, `t21` for `q = 21`, `cT` / `tBig` constant and
comparison for `q > 21` -/
def rangePosK {α : Type} (t19 t20 t21 : Tst α) (cT : U128) (tBig : U128 → Tst α) (C1 : U128) (q : Int32)
    (inv k : Except String α) : Except String α :=
  if (q == (1 : Int32)) then do
    let C ← mul_128x64_to_128 C1.w0 (← tbl128 Dec.Gen.BID_TEN2K128 (UInt64.ofInt (toI 0)))
    t19 C inv k
  else
    if (decide (q ≤ (0x13 : Int32))) then do
      let C ← mul_64x64_to_128MACH C1.w0 (← tbl64 Dec.Gen.BID_TEN2K64 (UInt64.ofInt (toI (((0x15 : Int32) - q)))))
      t19 C inv k
    else
      if (q == (0x14 : Int32)) then t20 C1 inv k
      else
        if (q == (0x15 : Int32)) then t21 C1 inv k
        else do
          let C ← mul_128x64_to_128 (← tbl64 Dec.Gen.BID_TEN2K64 (UInt64.ofInt (toI ((q - (0x15 : Int32)))))) cT
          tBig C1 C inv k

/-- the range test: more than 20 integer digits → invalid; exactly 20 → negative operands are invalid (through the copy's
`negT` when `q = 21`), non-negative ones go through `rangePosK`; fewer → go on -/
def rangeK {α : Type} (negT : Tst α) (t19 t20 t21 : Tst α) (cT : U128) (tBig : U128 → Tst α)
    (x_sign : UInt64) (C1 : U128) (q exp : Int32) (inv k : Except String α) : Except String α :=
  if (decide ((q + exp) > (0x14 : Int32))) then inv
  else
    if ((q + exp) == (0x14 : Int32)) then
      if (x_sign != (0 : UInt64)) then
        if (q == (0x15 : Int32)) then negT C1 inv k
        else inv
      else rangePosK t19 t20 t21 cT tBig C1 q inv k
    else k

/-- the range test of `floor` / `xfloor` (negative operands have left already) -/
def rangeFK {α : Type} (t19 t20 t21 : Tst α) (cT : U128) (tBig : U128 → Tst α)
    (C1 : U128) (q exp : Int32) (inv k : Except String α) : Except String α :=
  if (decide ((q + exp) > (0x14 : Int32))) then inv
  else
    if ((q + exp) == (0x14 : Int32)) then rangePosK t19 t20 t21 cT tBig C1 q inv k
    else k

/-- multiply by the reciprocal of `10^ind` and keep the (shifted) quotient word only -/
def quotK {α : Type} (C1 : U128) (ind : Int32) (k : UInt64 → Except String α) : Except String α := do
  let mut Cstar : U128 := default
  let mut P256 : U256 := default
  let mut shift : Int32 := default
  P256 := (← mul_128x128_to_256 C1 (← tbl128 Dec.Gen.BID_TEN2MK128 (UInt64.ofInt (toI ((ind - (1 : Int32)))))))
  if (decide ((ind - (1 : Int32)) ≤ (0x15 : Int32))) then
    Cstar := { Cstar with w1 := P256.w3 }
    Cstar := { Cstar with w0 := P256.w2 }
  else
    Cstar := { Cstar with w1 := (0 : UInt64) }
    Cstar := { Cstar with w0 := P256.w3 }
  shift := (← tblI32 Dec.Gen.BID_SHIFTRIGHT128 (UInt64.ofInt (toI ((ind - (1 : Int32))))))
  Cstar := { Cstar with w0 := (if (decide ((ind - (1 : Int32)) ≤ (0x15 : Int32))) then (((Cstar.w0 >>> (UInt64.ofInt (toI shift)))) ||| ((Cstar.w1 <<< (UInt64.ofInt (toI (((0x40 : Int32) - shift))))))) else (Cstar.w0 >>> (UInt64.ofInt (toI ((shift - (0x40 : Int32))))))) }
  k Cstar.w0

/-- the value of a non-negative operand with 1 to 20 integer digits: digits are removed by `neg` when the exponent is
negative; otherwise the coefficient itself, or the coefficient times a power of ten -/
def valueK {α : Type} (C1 : U128) (exp : Int32) (neg : Except String α) (k : UInt64 → Except String α) :
    Except String α :=
  if (decide (exp < (0 : Int32))) then neg
  else
    if (exp == (0 : Int32)) then k C1.w0
    else do
      k (C1.w0 * (← tbl64 Dec.Gen.BID_TEN2K64 (UInt64.ofInt (toI exp))))

/-! ### the copies of the comparison blocks -/

def t19_int {α : Type} : Tst α := fun C inv k => if (decide (C.w1 ≥ (0xa : UInt64))) then inv else k
def t20_int {α : Type} : Tst α := fun C1 inv k => if (decide (C1.w1 ≥ (1 : UInt64))) then inv else k
def tBig_ge {α : Type} : U128 → Tst α := fun C1 C inv k =>
  if ((decide (C1.w1 > C.w1)) || (((C1.w1 == C.w1) && (decide (C1.w0 ≥ C.w0))))) then inv else k
def negT_int {α : Type} : Tst α := fun C1 inv k =>
  if ((C1.w1 != (0 : UInt64)) || (decide (C1.w0 ≥ (0xa : UInt64)))) then inv else k

/-- `bid128_to_uint64_int` is the chain of the blocks -/
theorem int_shape (x : U128) (f : UInt32) : bid128_to_uint64_int x f =
    frontK x (INV f) (.ok (0, f)) (fun _ k => k) (fun x_sign C1 q exp =>
      rangeK negT_int t19_int t20_int t19_int ⟨0, 0xa⟩ tBig_ge x_sign C1 q exp (INV f)
        (if (decide ((q + exp) ≤ (0 : Int32))) then .ok (0, f)
         else if (x_sign != (0 : UInt64)) then INV f
         else valueK C1 exp (quotK C1 (-exp) (fun r => .ok (r, f))) (fun r => .ok (r, f)))) := by
  rfl

/-- multiply by the reciprocal of `10^ind` and split the 256-bit product into the quotient `Cstar` (already shifted) and
the fraction `fstar` -/
def splitK {α : Type} (C1 : U128) (ind : Int32) (k : U128 → U256 → Except String α) : Except String α := do
  let mut Cstar : U128 := default
  let mut fstar : U256 := default
  let mut P256 : U256 := default
  let mut shift : Int32 := default
  P256 := (← mul_128x128_to_256 C1 (← tbl128 Dec.Gen.BID_TEN2MK128 (UInt64.ofInt (toI ((ind - (1 : Int32)))))))
  if (decide ((ind - (1 : Int32)) ≤ (0x15 : Int32))) then
    Cstar := { Cstar with w1 := P256.w3 }
    Cstar := { Cstar with w0 := P256.w2 }
    fstar := { fstar with w3 := (0 : UInt64) }
    fstar := { fstar with w2 := (P256.w2 &&& (← tbl64 Dec.Gen.BID_MASKHIGH128 (UInt64.ofInt (toI ((ind - (1 : Int32))))))) }
    fstar := { fstar with w1 := P256.w1 }
    fstar := { fstar with w0 := P256.w0 }
  else
    Cstar := { Cstar with w1 := (0 : UInt64) }
    Cstar := { Cstar with w0 := P256.w3 }
    fstar := { fstar with w3 := (P256.w3 &&& (← tbl64 Dec.Gen.BID_MASKHIGH128 (UInt64.ofInt (toI ((ind - (1 : Int32))))))) }
    fstar := { fstar with w2 := P256.w2 }
    fstar := { fstar with w1 := P256.w1 }
    fstar := { fstar with w0 := P256.w0 }
  shift := (← tblI32 Dec.Gen.BID_SHIFTRIGHT128 (UInt64.ofInt (toI ((ind - (1 : Int32))))))
  Cstar := { Cstar with w0 := (if (decide ((ind - (1 : Int32)) ≤ (0x15 : Int32))) then (((Cstar.w0 >>> (UInt64.ofInt (toI shift)))) ||| ((Cstar.w1 <<< (UInt64.ofInt (toI (((0x40 : Int32) - shift))))))) else (Cstar.w0 >>> (UInt64.ofInt (toI ((shift - (0x40 : Int32))))))) }
  k Cstar fstar

/-- "the fraction exceeds the truncated reciprocal" (the discarded digits are not all zero), as the directed copies test
it: three texts by the number of removed digits; `g` is what the copy does with the answer before branching on it -/
def fracGtK {α : Type} (fstar : U256) (ind : Int32) (g : Bool → Bool) (kY kN : Except String α) : Except String α := do
  if (decide ((ind - (1 : Int32)) ≤ (2 : Int32))) then
    if g (← (if (decide (fstar.w1 > (← tbl128 Dec.Gen.BID_TEN2MK128TRUNC (UInt64.ofInt (toI ((ind - (1 : Int32)))))).w1)) then pure true else (do pure ((← (if (fstar.w1 == (← tbl128 Dec.Gen.BID_TEN2MK128TRUNC (UInt64.ofInt (toI ((ind - (1 : Int32)))))).w1) then (do pure (decide (fstar.w0 > (← tbl128 Dec.Gen.BID_TEN2MK128TRUNC (UInt64.ofInt (toI ((ind - (1 : Int32)))))).w0))) else pure false)))))) then
      kY
    else kN
  else
    if (decide ((ind - (1 : Int32)) ≤ (0x15 : Int32))) then
      if g (← (if (← (if (fstar.w2 != (0 : UInt64)) then pure true else (do pure (decide (fstar.w1 > (← tbl128 Dec.Gen.BID_TEN2MK128TRUNC (UInt64.ofInt (toI ((ind - (1 : Int32)))))).w1))))) then pure true else (do pure ((← (if (fstar.w1 == (← tbl128 Dec.Gen.BID_TEN2MK128TRUNC (UInt64.ofInt (toI ((ind - (1 : Int32)))))).w1) then (do pure (decide (fstar.w0 > (← tbl128 Dec.Gen.BID_TEN2MK128TRUNC (UInt64.ofInt (toI ((ind - (1 : Int32)))))).w0))) else pure false)))))) then
        kY
      else kN
    else
      if g (← (if (← (if ((fstar.w3 != (0 : UInt64)) || (fstar.w2 != (0 : UInt64))) then pure true else (do pure (decide (fstar.w1 > (← tbl128 Dec.Gen.BID_TEN2MK128TRUNC (UInt64.ofInt (toI ((ind - (1 : Int32)))))).w1))))) then pure true else (do pure ((← (if (fstar.w1 == (← tbl128 Dec.Gen.BID_TEN2MK128TRUNC (UInt64.ofInt (toI ((ind - (1 : Int32)))))).w1) then (do pure (decide (fstar.w0 > (← tbl128 Dec.Gen.BID_TEN2MK128TRUNC (UInt64.ofInt (toI ((ind - (1 : Int32)))))).w0))) else pure false)))))) then
        kY
      else kN

/-- add one to the quotient word (the carry into the high word does not reach the result) -/
def incK {α : Type} (w : UInt64) (k : UInt64 → Except String α) : Except String α :=
  if ((w + 1) == (0 : UInt64)) then k (w + 1) else k (w + 1)

def t19_ceil {α : Type} : Tst α := fun C inv k =>
  if ((decide (C.w1 > (9 : UInt64))) || (((C.w1 == (9 : UInt64)) && (decide (C.w0 > (0xfffffffffffffff6 : UInt64)))))) then inv else k
def t20_ceil {α : Type} : Tst α := fun C1 inv k => if (C1.w1 != (0 : UInt64)) then inv else k
def tBig_gt {α : Type} : U128 → Tst α := fun C1 C inv k =>
  if ((decide (C1.w1 > C.w1)) || (((C1.w1 == C.w1) && (decide (C1.w0 > C.w0))))) then inv else k

theorem xint_shape (x : U128) (f : UInt32) : bid128_to_uint64_xint x f =
    frontK x (INV f) (.ok (0, f)) (fun _ k => k) (fun x_sign C1 q exp =>
      rangeK negT_int t19_int t20_int t19_int ⟨0, 0xa⟩ tBig_ge x_sign C1 q exp (INV f)
        (if (decide ((q + exp) ≤ (0 : Int32))) then .ok (0, IX f)
         else if (x_sign != (0 : UInt64)) then INV f
         else valueK C1 exp
          (splitK C1 (-exp) (fun Cs fs => fracGtK fs (-exp) (fun b => b) (.ok (Cs.w0, IX f)) (.ok (Cs.w0, f))))
          (fun r => .ok (r, f)))) := by
  rfl

theorem floor_shape (x : U128) (f : UInt32) : bid128_to_uint64_floor x f =
    frontK x (INV f) (.ok (0, f)) (fun x_sign k => if (x_sign != (0 : UInt64)) then INV f else k) (fun x_sign C1 q exp =>
      rangeFK t19_int t20_int t19_int ⟨0, 0xa⟩ tBig_ge C1 q exp (INV f)
        (if (decide ((q + exp) ≤ (0 : Int32))) then .ok (0, f)
         else valueK C1 exp (quotK C1 (-exp) (fun r => .ok (r, f))) (fun r => .ok (r, f)))) := by
  rfl

theorem xfloor_shape (x : U128) (f : UInt32) : bid128_to_uint64_xfloor x f =
    frontK x (INV f) (.ok (0, f)) (fun x_sign k => if (x_sign != (0 : UInt64)) then INV f else k) (fun x_sign C1 q exp =>
      rangeFK t19_int t20_int t19_int ⟨0, 0xa⟩ tBig_ge C1 q exp (INV f)
        (if (decide ((q + exp) ≤ (0 : Int32))) then .ok (0, IX f)
         else valueK C1 exp
          (splitK C1 (-exp) (fun Cs fs => fracGtK fs (-exp) (fun b => b) (.ok (Cs.w0, IX f)) (.ok (Cs.w0, f))))
          (fun r => .ok (r, f)))) := by
  rfl

theorem ceil_shape (x : U128) (f : UInt32) : bid128_to_uint64_ceil x f =
    frontK x (INV f) (.ok (0, f)) (fun _ k => k) (fun x_sign C1 q exp =>
      rangeK negT_int t19_ceil t20_ceil t19_ceil ⟨0xfffffffffffffff6, 9⟩ tBig_gt x_sign C1 q exp (INV f)
        (if (decide ((q + exp) ≤ (0 : Int32))) then .ok ((if (x_sign != (0 : UInt64)) then (0 : UInt64) else (1 : UInt64)), f)
         else if (x_sign != (0 : UInt64)) then INV f
         else valueK C1 exp
          (splitK C1 (-exp) (fun Cs fs => fracGtK fs (-exp) (fun b => b && (x_sign == (0 : UInt64)))
            (incK Cs.w0 (fun r => .ok (r, f))) (.ok (Cs.w0, f))))
          (fun r => .ok (r, f)))) := by
  rfl

theorem xceil_shape (x : U128) (f : UInt32) : bid128_to_uint64_xceil x f =
    frontK x (INV f) (.ok (0, f)) (fun _ k => k) (fun x_sign C1 q exp =>
      rangeK negT_int t19_ceil t20_ceil t19_ceil ⟨0xfffffffffffffff6, 9⟩ tBig_gt x_sign C1 q exp (INV f)
        (if (decide ((q + exp) ≤ (0 : Int32))) then .ok ((if (x_sign != (0 : UInt64)) then (0 : UInt64) else (1 : UInt64)), IX f)
         else if (x_sign != (0 : UInt64)) then INV f
         else valueK C1 exp
          (splitK C1 (-exp) (fun Cs fs => fracGtK fs (-exp) (fun b => b)
            (if (x_sign == (0 : UInt64)) then incK Cs.w0 (fun r => .ok (r, IX f)) else .ok (Cs.w0, IX f)) (.ok (Cs.w0, f))))
          (fun r => .ok (r, f)))) := by
  rfl

/-- add half a unit of the last kept place (`5·10^(ind−1)`) to the coefficient -/
def addHalfK {α : Type} (C1_ : U128) (ind : Int32) (k : U128 → Except String α) : Except String α := do
  let mut C1 : U128 := C1_
  let mut tmp64 : UInt64 := default
  tmp64 := C1.w0
  if (decide (ind ≤ (0x13 : Int32))) then
    C1 := { C1 with w0 := (C1.w0 + (← tbl64 Dec.Gen.BID_MIDPOINT64 (UInt64.ofInt (toI ((ind - (1 : Int32))))))) }
  else
    C1 := { C1 with w0 := (C1.w0 + (← tbl128 Dec.Gen.BID_MIDPOINT128 (UInt64.ofInt (toI ((ind - (0x14 : Int32)))))).w0) }
    C1 := { C1 with w1 := (C1.w1 + (← tbl128 Dec.Gen.BID_MIDPOINT128 (UInt64.ofInt (toI ((ind - (0x14 : Int32)))))).w1) }
  if (decide (C1.w0 < tmp64)) then
    C1 := { C1 with w1 := (C1.w1 + 1) }
  k C1

/-- classification of the fraction of the half-adjusted product: `kA` when it is above ½ by more than the reciprocal error
(discarded part below the midpoint, not zero), `kB` when above ½ but within the error (discarded part zero), `kC`
otherwise (discarded part at least the midpoint) -/
def fracK {α : Type} (fstar : U256) (ind : Int32) (kA kB kC : Except String α) : Except String α := do
  if (decide ((ind - (1 : Int32)) ≤ (2 : Int32))) then
    if ((decide (fstar.w1 > (0x8000000000000000 : UInt64))) || (((fstar.w1 == (0x8000000000000000 : UInt64)) && (decide (fstar.w0 > (0 : UInt64)))))) then
      let tmp64 := (fstar.w1 - (0x8000000000000000 : UInt64))
      if (← (if (decide (tmp64 > (← tbl128 Dec.Gen.BID_TEN2MK128TRUNC (UInt64.ofInt (toI ((ind - (1 : Int32)))))).w1)) then pure true else (do pure ((← (if (tmp64 == (← tbl128 Dec.Gen.BID_TEN2MK128TRUNC (UInt64.ofInt (toI ((ind - (1 : Int32)))))).w1) then (do pure (decide (fstar.w0 ≥ (← tbl128 Dec.Gen.BID_TEN2MK128TRUNC (UInt64.ofInt (toI ((ind - (1 : Int32)))))).w0))) else pure false)))))) then
        kA
      else
        kB
    else
      kC
  else
    if (decide ((ind - (1 : Int32)) ≤ (0x15 : Int32))) then
      if (← (if (← (if (decide (fstar.w3 > (0 : UInt64))) then pure true else (do pure ((← (if (fstar.w3 == (0 : UInt64)) then (do pure (decide (fstar.w2 > (← tbl64 Dec.Gen.BID_ONEHALF128 (UInt64.ofInt (toI ((ind - (1 : Int32))))))))) else pure false)))))) then pure true else (do pure (((← (if (fstar.w3 == (0 : UInt64)) then (do pure (fstar.w2 == (← tbl64 Dec.Gen.BID_ONEHALF128 (UInt64.ofInt (toI ((ind - (1 : Int32)))))))) else pure false)) && (((fstar.w1 != (0 : UInt64)) || (fstar.w0 != (0 : UInt64))))))))) then
        let tmp64 := (fstar.w2 - (← tbl64 Dec.Gen.BID_ONEHALF128 (UInt64.ofInt (toI ((ind - (1 : Int32)))))))
        let mut tmp64A := fstar.w3
        if (decide (tmp64 > fstar.w2)) then
          tmp64A := (tmp64A - 1)
        if (← (if (← (if ((tmp64A != (0 : UInt64)) || (tmp64 != (0 : UInt64))) then pure true else (do pure (decide (fstar.w1 > (← tbl128 Dec.Gen.BID_TEN2MK128TRUNC (UInt64.ofInt (toI ((ind - (1 : Int32)))))).w1))))) then pure true else (do pure ((← (if (fstar.w1 == (← tbl128 Dec.Gen.BID_TEN2MK128TRUNC (UInt64.ofInt (toI ((ind - (1 : Int32)))))).w1) then (do pure (decide (fstar.w0 > (← tbl128 Dec.Gen.BID_TEN2MK128TRUNC (UInt64.ofInt (toI ((ind - (1 : Int32)))))).w0))) else pure false)))))) then
          kA
        else
          kB
      else
        kC
    else
      if (← (if (decide (fstar.w3 > (← tbl64 Dec.Gen.BID_ONEHALF128 (UInt64.ofInt (toI ((ind - (1 : Int32)))))))) then pure true else (do pure (((fstar.w3 == (← tbl64 Dec.Gen.BID_ONEHALF128 (UInt64.ofInt (toI ((ind - (1 : Int32))))))) && ((((fstar.w2 != (0 : UInt64)) || (fstar.w1 != (0 : UInt64))) || (fstar.w0 != (0 : UInt64))))))))) then
        let tmp64 := (fstar.w3 - (← tbl64 Dec.Gen.BID_ONEHALF128 (UInt64.ofInt (toI ((ind - (1 : Int32)))))))
        if (← (if (← (if ((tmp64 != (0 : UInt64)) || (fstar.w2 != (0 : UInt64))) then pure true else (do pure (decide (fstar.w1 > (← tbl128 Dec.Gen.BID_TEN2MK128TRUNC (UInt64.ofInt (toI ((ind - (1 : Int32)))))).w1))))) then pure true else (do pure ((← (if (fstar.w1 == (← tbl128 Dec.Gen.BID_TEN2MK128TRUNC (UInt64.ofInt (toI ((ind - (1 : Int32)))))).w1) then (do pure (decide (fstar.w0 > (← tbl128 Dec.Gen.BID_TEN2MK128TRUNC (UInt64.ofInt (toI ((ind - (1 : Int32)))))).w0))) else pure false)))))) then
          kA
        else
          kB
      else
        kC

/-- the midpoint test: the fraction is non-zero and within the reciprocal error -/
def midK {α : Type} (fstar : U256) (ind : Int32) (kMid kNot : Except String α) : Except String α := do
  if (← (if ((((fstar.w3 == (0 : UInt64))) && ((fstar.w2 == (0 : UInt64)))) && (((fstar.w1 != (0 : UInt64)) || (fstar.w0 != (0 : UInt64))))) then (do pure ((← (if (decide (fstar.w1 < (← tbl128 Dec.Gen.BID_TEN2MK128TRUNC (UInt64.ofInt (toI ((ind - (1 : Int32)))))).w1)) then pure true else (do pure ((← (if (fstar.w1 == (← tbl128 Dec.Gen.BID_TEN2MK128TRUNC (UInt64.ofInt (toI ((ind - (1 : Int32)))))).w1) then (do pure (decide (fstar.w0 ≤ (← tbl128 Dec.Gen.BID_TEN2MK128TRUNC (UInt64.ofInt (toI ((ind - (1 : Int32)))))).w0))) else pure false)))))))) else pure false)) then kMid else kNot

/-- values with no integer digit but a first fractional digit (`q + exp = 0`, so 0.1 ≤ |x| < 1): compare the coefficient
with the midpoint `5·10^(q−1)`; `le` is the copy's comparison (`≤` for ties-to-even, `<` for ties-away) -/
def halfK {α : Type} (le : UInt64 → UInt64 → Bool) (C1 : U128) (q : Int32) (kLow kHigh : Except String α) :
    Except String α := do
  if (decide ((q - (1 : Int32)) ≤ (0x12 : Int32))) then
    if (← (if (C1.w1 == (0 : UInt64)) then (do pure (le C1.w0 (← tbl64 Dec.Gen.BID_MIDPOINT64 (UInt64.ofInt (toI (q - (1 : Int32))))))) else pure false)) then
      kLow
    else kHigh
  else
    if (← (if (decide (C1.w1 < (← tbl128 Dec.Gen.BID_MIDPOINT128 (UInt64.ofInt (toI ((q - (1 : Int32)) - (0x13 : Int32))))).w1)) then pure true else (do pure (← (if (C1.w1 == (← tbl128 Dec.Gen.BID_MIDPOINT128 (UInt64.ofInt (toI ((q - (1 : Int32)) - (0x13 : Int32))))).w1) then (do pure (le C1.w0 (← tbl128 Dec.Gen.BID_MIDPOINT128 (UInt64.ofInt (toI ((q - (1 : Int32)) - (0x13 : Int32))))).w0)) else pure false))))) then
      kLow
    else kHigh

def t19_rn {α : Type} : Tst α := fun C inv k =>
  if ((decide (C.w1 > (9 : UInt64))) || (((C.w1 == (9 : UInt64)) && (decide (C.w0 ≥ (0xfffffffffffffffb : UInt64)))))) then inv else k
def t20_rn {α : Type} : Tst α := fun C1 inv k =>
  if (decide ((C1.w0 + C1.w0) < C1.w0)) then
    (if ((decide ((C1.w1 + C1.w1 + 1) > (1 : UInt64))) || ((((C1.w1 + C1.w1 + 1) == (1 : UInt64)) && (decide ((C1.w0 + C1.w0) ≥ (0xffffffffffffffff : UInt64)))))) then inv else k)
  else
    (if ((decide ((C1.w1 + C1.w1) > (1 : UInt64))) || ((((C1.w1 + C1.w1) == (1 : UInt64)) && (decide ((C1.w0 + C1.w0) ≥ (0xffffffffffffffff : UInt64)))))) then inv else k)
def negT_rn {α : Type} : Tst α := fun C1 inv k =>
  if ((C1.w1 != (0 : UInt64)) || (decide (C1.w0 > (5 : UInt64)))) then inv else k
def negT_rna {α : Type} : Tst α := fun C1 inv k =>
  if ((C1.w1 != (0 : UInt64)) || (decide (C1.w0 ≥ (5 : UInt64)))) then inv else k

/-- the last step of the ties-to-even copies: at a midpoint an odd quotient is lowered by one -/
def evenK {α : Type} (fs : U256) (ind : Int32) (w : UInt64) (k : UInt64 → Except String α) : Except String α :=
  midK fs ind (if (((w &&& (1 : UInt64))) == (1 : UInt64)) then k (w - 1) else k w) (k w)

theorem rnint_shape (x : U128) (f : UInt32) : bid128_to_uint64_rnint x f =
    frontK x (INV f) (.ok (0, f)) (fun _ k => k) (fun x_sign C1 q exp =>
      rangeK negT_rn t19_rn t20_rn t19_rn ⟨0xfffffffffffffffb, 9⟩ tBig_ge x_sign C1 q exp (INV f)
        (if (decide ((q + exp) < (0 : Int32))) then .ok (0, f)
         else if ((q + exp) == (0 : Int32)) then
           halfK (fun a b => decide (a ≤ b)) C1 q (.ok (0, f)) (if (x_sign == (0 : UInt64)) then .ok (1, f) else INV f)
         else if (x_sign != (0 : UInt64)) then INV f
         else valueK C1 exp
          (addHalfK C1 (-exp) (fun C1' => splitK C1' (-exp) (fun Cs fs => evenK fs (-exp) Cs.w0 (fun r => .ok (r, f)))))
          (fun r => .ok (r, f)))) := by
  rfl

theorem xrnint_shape (x : U128) (f : UInt32) : bid128_to_uint64_xrnint x f =
    frontK x (INV f) (.ok (0, f)) (fun _ k => k) (fun x_sign C1 q exp =>
      rangeK negT_rn t19_rn t20_rn t19_rn ⟨0xfffffffffffffffb, 9⟩ tBig_ge x_sign C1 q exp (INV f)
        (if (decide ((q + exp) < (0 : Int32))) then .ok (0, IX f)
         else if ((q + exp) == (0 : Int32)) then
           halfK (fun a b => decide (a ≤ b)) C1 q (.ok (0, IX f)) (if (x_sign == (0 : UInt64)) then .ok (1, IX f) else INV f)
         else if (x_sign != (0 : UInt64)) then INV f
         else valueK C1 exp
          (addHalfK C1 (-exp) (fun C1' => splitK C1' (-exp) (fun Cs fs =>
            fracK fs (-exp) (evenK fs (-exp) Cs.w0 (fun r => .ok (r, IX f))) (evenK fs (-exp) Cs.w0 (fun r => .ok (r, f)))
              (evenK fs (-exp) Cs.w0 (fun r => .ok (r, IX f))))))
          (fun r => .ok (r, f)))) := by
  rfl

theorem rninta_shape (x : U128) (f : UInt32) : bid128_to_uint64_rninta x f =
    frontK x (INV f) (.ok (0, f)) (fun _ k => k) (fun x_sign C1 q exp =>
      rangeK negT_rna t19_rn t20_rn t19_rn ⟨0xfffffffffffffffb, 9⟩ tBig_ge x_sign C1 q exp (INV f)
        (if (decide ((q + exp) < (0 : Int32))) then .ok (0, f)
         else if ((q + exp) == (0 : Int32)) then
           halfK (fun a b => decide (a < b)) C1 q (.ok (0, f)) (if (x_sign == (0 : UInt64)) then .ok (1, f) else INV f)
         else if (x_sign != (0 : UInt64)) then INV f
         else valueK C1 exp
          (addHalfK C1 (-exp) (fun C1' => quotK C1' (-exp) (fun r => .ok (r, f))))
          (fun r => .ok (r, f)))) := by
  rfl

theorem xrninta_shape (x : U128) (f : UInt32) : bid128_to_uint64_xrninta x f =
    frontK x (INV f) (.ok (0, f)) (fun _ k => k) (fun x_sign C1 q exp =>
      rangeK negT_rna t19_rn t20_rn t19_rn ⟨0xfffffffffffffffb, 9⟩ tBig_ge x_sign C1 q exp (INV f)
        (if (decide ((q + exp) < (0 : Int32))) then .ok (0, IX f)
         else if ((q + exp) == (0 : Int32)) then
           halfK (fun a b => decide (a < b)) C1 q (.ok (0, IX f)) (if (x_sign == (0 : UInt64)) then .ok (1, IX f) else INV f)
         else if (x_sign != (0 : UInt64)) then INV f
         else valueK C1 exp
          (addHalfK C1 (-exp) (fun C1' => splitK C1' (-exp) (fun Cs fs =>
            fracK fs (-exp) (.ok (Cs.w0, IX f)) (.ok (Cs.w0, f)) (.ok (Cs.w0, IX f)))))
          (fun r => .ok (r, f)))) := by
  rfl

/-! ## 2. Specifications of the blocks

(The digit-count, digit-removal and fraction-test blocks have the same text as in the 32-bit conversions; their analysis
follows the one in `C06GenToInt`, on top of the number-level lemmas of `C02RoundHelpers` and `C17GenNext`.) -/

theorem ofInt_u64 (v : UInt64) : UInt64.ofInt (toI v) = v := Dec.C17GenNext.ofInt_toI v

/-- the table index the code derives from the exponent field of `v as f64`: bit length − 1 (offset by the word position) -/
theorem idx32 (v : UInt64) (K : UInt32) (h0 : 0 < v.toNat) (h53 : v.toNat < 2^53) (hK1 : 1 ≤ K.toNat) (hK2 : K.toNat ≤ 65) :
    UInt64.ofInt (toI ((K + (((UInt32.ofInt (toI ((F64U.ofU64 (UInt64.ofInt (toI v))).bits >>> 0x34))) &&& 0x7ff) - 0x3ff)) - 1))
      = UInt64.ofNat (K.toNat - 1 + v.toNat.log2) := by
  obtain ⟨f1, f2⟩ := float_exp v.toNat h0 h53
  have hl : v.toNat.log2 < 53 := (Nat.log2_lt (by omega)).2 h53
  have e2 : ((F64U.ofU64 v).bits >>> 0x34).toNat = v.toNat.log2 + 1023 := by
    rw [UInt64.toNat_shiftRight, F64U.ofU64, UInt64.toNat_ofNat', Nat.mod_eq_of_lt (by omega),
      show (0x34 : UInt64).toNat % 64 = 52 from by decide, Nat.shiftRight_eq_div_pow, f1]
  have e3 : (K + (((UInt32.ofInt (toI ((F64U.ofU64 v).bits >>> 0x34))) &&& 0x7ff) - 0x3ff)).toNat = K.toNat + v.toNat.log2 := by
    rw [UInt32.toNat_add, UInt32.toNat_sub, UInt32.toNat_and, toI_u64, ofInt_natCast32, e2,
      show (0x7ff : UInt32).toNat = 2^11 - 1 from by decide, Nat.and_two_pow_sub_one_eq_mod,
      show (0x3ff : UInt32).toNat = 1023 from by decide]
    omega
  rw [ofInt_u64, toI_u32, ← UInt64.toNat_inj, ofInt_natCast64, UInt32.toNat_sub, e3, show (1 : UInt32).toNat = 1 from by decide,
    UInt64.toNat_ofNat']
  omega

/-- the digit-count tail once the table row is known -/
def nrRow (D D1 : UInt32) (THI TLO : UInt64) (C1 : U128) : Int32 :=
  if Int32.ofInt (toI D) = 0 then
    (if THI.toNat * 2^64 + TLO.toNat ≤ C1.w1.toNat * 2^64 + C1.w0.toNat then Int32.ofInt (toI D1) + 1 else Int32.ofInt (toI D1))
  else Int32.ofInt (toI D)

theorem nrDigitsK_row {α : Type} (C1 : U128) (k : Int32 → Except String α) (i : Nat) (D D1 : UInt32) (THI TLO : UInt64)
    (hrow : tblDD Dec.Gen.BID_NR_DIGITS (UInt64.ofNat i) = .ok ⟨D, THI, TLO, D1⟩)
    (hidx : (if (C1.w1 == 0) = true then
        (if decide (C1.w0 ≥ 0x20000000000000) = true then
          UInt64.ofInt (toI (((0x21 : UInt32) + (((UInt32.ofInt (toI ((F64U.ofU64 (UInt64.ofInt (toI (C1.w0 >>> 0x20)))).bits >>> 0x34))) &&& 0x7ff) - 0x3ff)) - 1))
         else UInt64.ofInt (toI (((1 : UInt32) + (((UInt32.ofInt (toI ((F64U.ofU64 (UInt64.ofInt (toI C1.w0))).bits >>> 0x34))) &&& 0x7ff) - 0x3ff)) - 1)))
       else UInt64.ofInt (toI (((0x41 : UInt32) + (((UInt32.ofInt (toI ((F64U.ofU64 (UInt64.ofInt (toI C1.w1))).bits >>> 0x34))) &&& 0x7ff) - 0x3ff)) - 1)))
      = UInt64.ofNat i) :
    nrDigitsK C1 k = k (nrRow D D1 THI TLO C1) := by
  have := C1.w0.toNat_lt; have := TLO.toNat_lt
  unfold nrDigitsK nrRow
  simp only [bind, Except.bind, pure, Except.pure]
  have ev : ∀ (b : Except String Bool) (v : Bool), b = .ok v →
      (match b with
        | .error e => (.error e : Except String α)
        | .ok v_2 => if v_2 = true then k (Int32.ofInt (toI D1) + 1) else k (Int32.ofInt (toI D1))) =
      k (if v = true then Int32.ofInt (toI D1) + 1 else Int32.ofInt (toI D1)) := by
    intro b v hb; subst hb; cases v <;> rfl
  have key : (if decide (C1.w1 > THI) = true then Except.ok true
      else if (C1.w1 == THI) = true then Except.ok (decide (C1.w0 ≥ TLO)) else (Except.ok false : Except String Bool))
      = .ok (decide (THI.toNat * 2^64 + TLO.toNat ≤ C1.w1.toNat * 2^64 + C1.w0.toNat)) := by
    by_cases h1 : C1.w1 > THI
    · have : THI.toNat * 2^64 + TLO.toNat ≤ C1.w1.toNat * 2^64 + C1.w0.toNat := by
        rw [gt_iff_lt, UInt64.lt_iff_toNat_lt] at h1; omega
      simp only [h1, decide_true, if_true, this]
    · by_cases h2 : C1.w1 = THI
      · have : (THI.toNat * 2^64 + TLO.toNat ≤ C1.w1.toNat * 2^64 + C1.w0.toNat) ↔ C1.w0 ≥ TLO := by
          rw [ge_iff_le, UInt64.le_iff_toNat_le, h2]; omega
        rw [h2] at this
        simp only [h2, gt_iff_lt, UInt64.lt_irrefl, decide_false, Bool.false_eq_true, if_false, beq_self_eq_true, if_true]
        rw [decide_eq_decide.2 this]
      · have : ¬ THI.toNat * 2^64 + TLO.toNat ≤ C1.w1.toNat * 2^64 + C1.w0.toNat := by
          rw [gt_iff_lt, UInt64.lt_iff_toNat_lt] at h1
          rw [← UInt64.toNat_inj] at h2
          omega
        have h2' : (C1.w1 == THI) = false := by rw [beq_eq_false_iff_ne]; exact h2
        simp only [h1, decide_false, Bool.false_eq_true, if_false, h2', this]
  have fin : (if (Int32.ofInt (toI D) == 0) = true then
        k (if decide (THI.toNat * 2^64 + TLO.toNat ≤ C1.w1.toNat * 2^64 + C1.w0.toNat) = true
          then Int32.ofInt (toI D1) + 1 else Int32.ofInt (toI D1))
      else k (Int32.ofInt (toI D))) =
      k (if Int32.ofInt (toI D) = 0 then
        (if THI.toNat * 2^64 + TLO.toNat ≤ C1.w1.toNat * 2^64 + C1.w0.toNat then Int32.ofInt (toI D1) + 1 else Int32.ofInt (toI D1))
        else Int32.ofInt (toI D)) := by
    by_cases h0 : Int32.ofInt (toI D) = 0
    · simp only [h0, beq_self_eq_true, if_true, decide_eq_true_eq]
    · have h0' : (Int32.ofInt (toI D) == 0) = false := by rw [beq_eq_false_iff_ne]; exact h0
      simp only [h0', Bool.false_eq_true, if_false, h0]
  by_cases c1 : (C1.w1 == 0) = true
  · rw [if_pos c1] at hidx
    rw [if_pos c1]
    by_cases c2 : decide (C1.w0 ≥ 0x20000000000000) = true
    · rw [if_pos c2] at hidx
      rw [if_pos c2, hidx]
      simp only [hrow, key, ev _ _ rfl, fin]
    · rw [if_neg c2] at hidx
      rw [if_neg c2, hidx]
      simp only [hrow, key, ev _ _ rfl, fin]
  · rw [if_neg c1] at hidx
    rw [if_neg c1, hidx]
    simp only [hrow, key, ev _ _ rfl, fin]

/-- **digit count**: for a non-zero coefficient below 2^113 the block continues with the number of decimal digits (as an
`Int32`); no table access panics -/
theorem nrDigitsK_spec (C1 : U128) (h0 : 0 < val128 C1) (hC : val128 C1 < 2^113) :
    ∃ Q : Int32, Q.toInt = (ndigits (val128 C1) : Int) ∧
      ∀ {α : Type} (k : Int32 → Except String α), nrDigitsK C1 k = k Q := by
  have hl := C1.w0.toNat_lt
  have hL : (val128 C1).log2 < 113 := (Nat.log2_lt (by omega)).2 hC
  have hq := nr_q (val128 C1) h0 hC
  refine ⟨_, hq, fun k => ?_⟩
  have hrow := tblDD_nr _ hL
  rw [nrDigitsK_row C1 k _ _ _ _ _ hrow]
  · rfl
  · unfold val128 at *
    by_cases c5 : C1.w1.toNat = 0
    · rw [if_pos (by rw [u64_beq_zero]; simpa using c5)]
      by_cases c6 : 2^53 ≤ C1.w0.toNat
      · rw [if_pos (by rw [u64_ge]; simpa using c6),
          idx32 _ 0x21 (by rw [high32]; omega) (by rw [high32]; omega) (by decide) (by decide)]
        rw [high32, show UInt32.toNat 0x21 - 1 = 32 from by decide, log2_shift _ c6, c5]
        simp only [Nat.zero_mul, Nat.zero_add]
      · rw [if_neg (by rw [u64_ge]; simpa using c6),
          idx32 _ 1 (by omega) (by omega) (by decide) (by decide)]
        rw [show UInt32.toNat 1 - 1 = 0 from by decide, c5]
        simp only [Nat.zero_mul, Nat.zero_add]
    · rw [if_neg (by rw [u64_beq_zero]; simpa using c5),
        idx32 _ 0x41 (by omega) (by omega) (by decide) (by decide)]
      rw [show UInt32.toNat 0x41 - 1 = 64 from by decide, log2_hi _ _ c5 hl]

/-- the unbiased exponent as the code extracts it -/
theorem exp_toInt (w : UInt64) :
    (Int32.ofInt (toI (((w &&& c_MASK_EXP) >>> 0x31) - (0x1820 : UInt64)))).toInt = (expW w.toNat : Int) - 6176 := by
  have e : ((w &&& c_MASK_EXP) >>> 0x31).toNat = expW w.toNat := by
    unfold expW
    rw [UInt64.toNat_shiftRight, toNat_and_field w _ 14 49 (by decide), show (0x31 : UInt64).toNat % 64 = 49 from by decide,
      Nat.shiftRight_eq_div_pow, Nat.mul_div_cancel _ (by decide)]
  have hl := expW_lt w.toNat
  rw [Int32.toInt_ofInt, toI_u64, UInt64.toNat_sub, e, show (0x1820 : UInt64).toNat = 6176 from by decide,
    show Int32.size = 4294967296 from rfl, Int.bmod_def]
  omega

theorem sigF_eq (x : U128) : (⟨x.w0, x.w1 &&& c_MASK_COEFF⟩ : U128) = sigF x := rfl

/-- **front end**: NaN / infinity → `inv`; zeros (non-canonical encodings included) → `zero`; otherwise `pre` of the sign
word and the continuation on the sign word, the coefficient words, the digit count and the unbiased exponent -/
theorem frontK_spec {α : Type} (x : U128) (inv zero : Except String α) (pre : UInt64 → Except String α → Except String α)
    (k : UInt64 → U128 → Int32 → Int32 → Except String α) :
    (x.w1.toNat / 2^59 % 16 = 15 → frontK x inv zero pre k = inv) ∧
    (x.w1.toNat / 2^59 % 16 ≠ 15 → zeroP x.w1.toNat x.w0.toNat → frontK x inv zero pre k = zero) ∧
    (nzFin x → ∃ Q E : Int32, Q.toInt = (ndigits (sigW x.w1.toNat x.w0.toNat) : Int) ∧
      E.toInt = (expW x.w1.toNat : Int) - 6176 ∧
      frontK x inv zero pre k = pre (x.w1 &&& c_MASK_SIGN) (k (x.w1 &&& c_MASK_SIGN) (sigF x) Q E)) := by
  have hl := x.w0.toNat_lt
  have e1 : ((x.w1 &&& c_MASK_SPECIAL) == c_MASK_SPECIAL) = decide (x.w1.toNat / 2^59 % 16 = 15) := inf_test x.w1
  have e2 : (decide ((x.w1 &&& c_MASK_COEFF) > (0x1ed09bead87c0 : UInt64)) ||
      ((x.w1 &&& c_MASK_COEFF) == (0x1ed09bead87c0 : UInt64) && decide (x.w0 > (0x378d8e63ffffffff : UInt64))) ||
      ((x.w1 &&& (0x6000000000000000 : UInt64)) == (0x6000000000000000 : UInt64)) ||
      ((x.w1 &&& c_MASK_COEFF) == (0 : UInt64) && x.w0 == (0 : UInt64))) = decide (zeroP x.w1.toNat x.w0.toNat) :=
    by rw [← zeroTest_eq x]; unfold zeroTest; rw [← steer_test]; rfl
  unfold frontK
  rw [e1]
  refine ⟨fun h => by rw [if_pos (by simpa using h)], fun h hz => ?_, fun ⟨h, hz⟩ => ?_⟩
  · rw [if_neg (by simpa using h)]
    by_cases c : ((decide ((x.w1 &&& c_MASK_COEFF) > (0x1ed09bead87c0 : UInt64)) ||
      ((x.w1 &&& c_MASK_COEFF) == (0x1ed09bead87c0 : UInt64) && decide (x.w0 > (0x378d8e63ffffffff : UInt64))) ||
      ((x.w1 &&& (0x6000000000000000 : UInt64)) == (0x6000000000000000 : UInt64)))) = true
    · rw [if_pos c]
    · rw [if_neg c]
      have : ((x.w1 &&& c_MASK_COEFF) == (0 : UInt64) && x.w0 == (0 : UInt64)) = true := by
        have := e2
        rw [Bool.not_eq_true] at c
        rw [c, Bool.false_or, decide_eq_true hz] at this
        exact this
      rw [if_pos this]
  · rw [if_neg (by simpa using h)]
    have e3 := e2
    rw [decide_eq_false hz, Bool.or_eq_false_iff] at e3
    rw [if_neg (by rw [e3.1]; decide), if_neg (by rw [e3.2]; decide), sigF_eq]
    have hz' := hz
    unfold zeroP at hz'
    have hs : 0 < sigW x.w1.toNat x.w0.toNat := by omega
    have hs' : sigW x.w1.toNat x.w0.toNat < 2^113 := by unfold sigW; omega
    rw [← val128_sigF] at hs hs'
    obtain ⟨Q, hQ, hk⟩ := nrDigitsK_spec (sigF x) hs hs'
    rw [val128_sigF] at hQ
    exact ⟨Q, _, hQ, exp_toInt x.w1, by rw [hk]⟩

/-! ### the range test -/

/-- comparison of a number with a threshold: `T < n` (strict) or `T ≤ n` -/
def cmpN (strict : Bool) (T n : Nat) : Bool := if strict then decide (T < n) else decide (T ≤ n)

/-- a comparison block goes to its first continuation exactly when `g` holds of the number it is given -/
def TstIs {α : Type} (tst : Tst α) (g : Nat → Bool) : Prop :=
  ∀ C inv k, tst C inv k = if g (val128 C) = true then inv else k

/-- the comparison blocks of a copy implement the threshold `T` (strict or not) on `10·|x|` -/
structure RangeOK {α : Type} (t19 t20 t21 : Tst α) (cT : U128) (tBig : U128 → Tst α) (T : Nat) (strict : Bool) : Prop where
  h19 : TstIs t19 (cmpN strict T)
  h20 : ∀ C inv k, val128 C < 10 ^ 20 → t20 C inv k = if cmpN strict T (10 * val128 C) = true then inv else k
  h21 : TstIs t21 (cmpN strict T)
  hc : val128 cT = T
  hT : T < 2^68
  hBig : ∀ C1, TstIs (tBig C1) (fun n => cmpN strict n (val128 C1))

theorem i32_lit (n : Nat) (h : n < 2^31) : (Int32.ofNat n).toInt = n := by
  rw [Int32.toInt_ofNat_of_lt (by omega)]

theorem i32_add (a b : Int32) (h1 : -2^31 ≤ a.toInt + b.toInt) (h2 : a.toInt + b.toInt < 2^31) :
    (a + b).toInt = a.toInt + b.toInt := by rw [Int32.toInt_add, bmod32 _ h1 h2]

theorem i32_sub (a b : Int32) (h1 : -2^31 ≤ a.toInt - b.toInt) (h2 : a.toInt - b.toInt < 2^31) :
    (a - b).toInt = a.toInt - b.toInt := by rw [Int32.toInt_sub, bmod32 _ h1 h2]

theorem i32_beq (a b : Int32) : (a == b) = decide (a.toInt = b.toInt) := by
  rw [Bool.eq_iff_iff, beq_iff_eq, decide_eq_true_eq, Int32.toInt_inj]

theorem i32_gt (a b : Int32) : decide (a > b) = decide (b.toInt < a.toInt) := by
  rw [decide_eq_decide, gt_iff_lt, Int32.lt_iff_toInt_lt]

theorem i32_lt (a b : Int32) : decide (a < b) = decide (a.toInt < b.toInt) := by
  rw [decide_eq_decide, Int32.lt_iff_toInt_lt]

theorem i32_le (a b : Int32) : decide (a ≤ b) = decide (a.toInt ≤ b.toInt) := by
  rw [decide_eq_decide, Int32.le_iff_toInt_le]

theorem pow_lt_of_le (q n : Nat) (h : q ≤ n) : 10 ^ q ≤ 10 ^ n := Nat.pow_le_pow_right (by decide) h

/-- **range test, non-negative operands with 20 integer digits**: the block goes to `inv` exactly when
`c·10^(21−q)` exceeds (reaches) the threshold times `10^(q−21)`; no table access panics -/
theorem rangePosK_spec {α : Type} (t19 t20 t21 : Tst α) (cT : U128) (tBig : U128 → Tst α) (T : Nat) (strict : Bool)
    (ok : RangeOK t19 t20 t21 cT tBig T strict) (C1 : U128) (Q : Int32) (q : Nat) (hQ : Q.toInt = q) (hq1 : 1 ≤ q)
    (hq34 : q ≤ 34) (hC : val128 C1 < 10 ^ q) (inv k : Except String α) :
    rangePosK t19 t20 t21 cT tBig C1 Q inv k =
      if cmpN strict (T * 10 ^ (q - 21)) (val128 C1 * 10 ^ (21 - q)) = true then inv else k := by
  unfold rangePosK
  simp only [i32_beq, hQ, bind, Except.bind, pure, Except.pure, Int32.le_iff_toInt_le]
  rw [show (1 : Int32).toInt = 1 from rfl, show (0x13 : Int32).toInt = 19 from rfl, show (0x14 : Int32).toInt = 20 from rfl,
    show (0x15 : Int32).toInt = 21 from rfl]
  by_cases h1 : q = 1
  · -- one digit: times 10^20
    subst h1
    rw [if_pos (by simp)]
    have hw := Dec.C17GenNext.val128_word C1 (Dec.C17GenNext.fits_word _ 1 hC (by decide))
    obtain ⟨t, ht, tv⟩ := tbl128_ten (UInt64.ofInt (toI 0)) (by decide)
    obtain ⟨r, hr, rv⟩ := mul_128x64_spec C1.w0 t
    simp only [ht, hr]
    rw [ok.h19 r inv k, rv, tv, ← hw, show (UInt64.ofInt (toI 0)).toNat + 20 = 20 from rfl, Nat.mod_eq_of_lt]
    · rw [show 1 - 21 = 0 from rfl, show 21 - 1 = 20 from rfl, Nat.pow_zero, Nat.mul_one]
    · calc val128 C1 * 10 ^ 20 < 10 ^ 1 * 10 ^ 20 := Nat.mul_lt_mul_of_pos_right hC (by decide)
        _ < 2 ^ 128 := by decide
  · rw [if_neg (by simp only [decide_eq_true_eq]; omega)]
    by_cases h19 : q ≤ 19
    · rw [if_pos (by simp only [decide_eq_true_eq]; omega)]
      have hw := Dec.C17GenNext.val128_word C1 (Dec.C17GenNext.fits_word _ q hC h19)
      have hsub : ((0x15 : Int32) - Q).toInt = ((21 - q : Nat) : Int) := by
        rw [i32_sub _ _ (by rw [hQ]; show (-2^31 : Int) ≤ 21 - q; omega) (by rw [hQ]; show (21 : Int) - q < 2^31; omega), hQ]
        show (21 : Int) - q = _; omega
      obtain ⟨t, r, ht, hr, rv⟩ := Dec.C17GenNext.scaleM1 C1.w0 ((0x15 : Int32) - Q) (21 - q) hsub (by omega)
      simp only [ht, hr]
      rw [ok.h19 r inv k, rv, ← hw, show q - 21 = 0 by omega, Nat.pow_zero, Nat.mul_one]
    · rw [if_neg (by simp only [decide_eq_true_eq]; omega)]
      by_cases h20 : q = 20
      · subst h20
        rw [if_pos (by simp), ok.h20 C1 inv k hC]
        rw [show 20 - 21 = 0 from rfl, show 21 - 20 = 1 from rfl, Nat.pow_zero, Nat.mul_one, Nat.pow_one, Nat.mul_comm _ 10]
      · rw [if_neg (by simp only [decide_eq_true_eq]; omega)]
        by_cases h21 : q = 21
        · subst h21
          rw [if_pos (by simp), ok.h21 C1 inv k]
          rw [show 21 - 21 = 0 from rfl, Nat.pow_zero, Nat.mul_one, Nat.mul_one]
        · rw [if_neg (by simp only [decide_eq_true_eq]; omega)]
          have hsub : (Q - (0x15 : Int32)).toInt = ((q - 21 : Nat) : Int) := by
            rw [i32_sub _ _ (by rw [hQ]; show (-2^31 : Int) ≤ q - 21; omega) (by rw [hQ]; show (q : Int) - 21 < 2^31; omega), hQ]
            show (q : Int) - 21 = _; omega
          obtain ⟨t, ht, tv⟩ := tbl64_ten (UInt64.ofInt (toI (Q - (0x15 : Int32)))) (by rw [idx_toNat _ _ hsub]; omega)
          obtain ⟨r, hr, rv⟩ := mul_128x64_spec t cT
          simp only [ht, hr]
          rw [ok.hBig C1 r inv k, rv, tv, idx_toNat _ _ hsub, ok.hc, show 21 - q = 0 by omega, Nat.pow_zero, Nat.mul_one,
            Nat.mul_comm, Nat.mod_eq_of_lt]
          have := ok.hT
          calc T * 10 ^ (q - 21) < 2 ^ 68 * 10 ^ (q - 21) := Nat.mul_lt_mul_of_pos_right this (Nat.pow_pos (by decide))
            _ ≤ 2 ^ 68 * 10 ^ 13 := Nat.mul_le_mul_left _ (pow_lt_of_le _ _ (by omega))
            _ < 2 ^ 128 := by decide


theorem sign_bne (w : UInt64) : (w &&& c_MASK_SIGN != 0) = negW w.toNat := by
  rw [show c_MASK_SIGN = 0x8000000000000000 from rfl, Dec.C17GenNext.sign_nonzero_test]; rfl

theorem sign_beq (w : UInt64) : (w &&& c_MASK_SIGN == 0) = !negW w.toNat := by
  have := sign_bne w
  rw [bne] at this
  rw [← this, Bool.not_not]

/-- **range test**: more than 20 integer digits → `inv`; exactly 20: negative → `inv`, non-negative → `inv` exactly when
the threshold is exceeded (reached); fewer → `k` -/
theorem rangeK_spec {α : Type} (negT t19 t20 t21 : Tst α) (cT : U128) (tBig : U128 → Tst α) (T : Nat) (strict : Bool)
    (ok : RangeOK t19 t20 t21 cT tBig T strict) (hneg : ∀ C inv k, 10 ≤ val128 C → negT C inv k = inv)
    (xs : UInt64) (s : Bool) (hs : (xs != 0) = s) (C1 : U128) (Q E : Int32) (q : Nat) (e : Int)
    (hQ : Q.toInt = q) (hE : E.toInt = e) (he1 : -6176 ≤ e) (he2 : e ≤ 6111) (hq1 : 1 ≤ q) (hq34 : q ≤ 34)
    (hlo : 10 ^ (q - 1) ≤ val128 C1) (hC : val128 C1 < 10 ^ q) (inv k : Except String α) :
    rangeK negT t19 t20 t21 cT tBig xs C1 Q E inv k =
      if 20 < (q : Int) + e then inv
      else if (q : Int) + e = 20 then
        (if s = true then inv
         else if cmpN strict (T * 10 ^ (q - 21)) (val128 C1 * 10 ^ (21 - q)) = true then inv else k)
      else k := by
  have hsum : (Q + E).toInt = (q : Int) + e := by
    rw [i32_add _ _ (by rw [hQ, hE]; omega) (by rw [hQ, hE]; omega), hQ, hE]
  unfold rangeK
  rw [i32_beq, i32_gt, hsum, hs, show (0x14 : Int32).toInt = 20 from rfl]
  by_cases h1 : 20 < (q : Int) + e
  · rw [if_pos (by simpa using h1), if_pos h1]
  · rw [if_neg (by simpa using h1), if_neg h1]
    by_cases h2 : (q : Int) + e = 20
    · rw [if_pos (by simpa using h2), if_pos h2]
      cases s
      · rw [if_neg Bool.false_ne_true, if_neg Bool.false_ne_true]
        exact rangePosK_spec t19 t20 t21 cT tBig T strict ok C1 Q q hQ hq1 hq34 hC inv k
      · rw [if_pos rfl, if_pos rfl]
        rw [i32_beq, hQ, show (0x15 : Int32).toInt = 21 from rfl]
        split
        · rename_i h21
          have h21' : q = 21 := by simp only [decide_eq_true_eq] at h21; exact_mod_cast h21
          subst h21'
          apply hneg
          calc 10 ≤ 10 ^ (21 - 1) := by decide
            _ ≤ val128 C1 := hlo
        · rfl
    · rw [if_neg (by simpa using h2), if_neg h2]

/-- **range test of `floor` / `xfloor`** (non-negative operands only) -/
theorem rangeFK_spec {α : Type} (t19 t20 t21 : Tst α) (cT : U128) (tBig : U128 → Tst α) (T : Nat) (strict : Bool)
    (ok : RangeOK t19 t20 t21 cT tBig T strict)
    (C1 : U128) (Q E : Int32) (q : Nat) (e : Int)
    (hQ : Q.toInt = q) (hE : E.toInt = e) (he1 : -6176 ≤ e) (he2 : e ≤ 6111) (hq1 : 1 ≤ q) (hq34 : q ≤ 34)
    (hC : val128 C1 < 10 ^ q) (inv k : Except String α) :
    rangeFK t19 t20 t21 cT tBig C1 Q E inv k =
      if 20 < (q : Int) + e then inv
      else if (q : Int) + e = 20 then
        (if cmpN strict (T * 10 ^ (q - 21)) (val128 C1 * 10 ^ (21 - q)) = true then inv else k)
      else k := by
  have hsum : (Q + E).toInt = (q : Int) + e := by
    rw [i32_add _ _ (by rw [hQ, hE]; omega) (by rw [hQ, hE]; omega), hQ, hE]
  unfold rangeFK
  rw [i32_beq, i32_gt, hsum, show (0x14 : Int32).toInt = 20 from rfl]
  by_cases h1 : 20 < (q : Int) + e
  · rw [if_pos (by simpa using h1), if_pos h1]
  · rw [if_neg (by simpa using h1), if_neg h1]
    by_cases h2 : (q : Int) + e = 20
    · rw [if_pos (by simpa using h2), if_pos h2]
      exact rangePosK_spec t19 t20 t21 cT tBig T strict ok C1 Q q hQ hq1 hq34 hC inv k
    · rw [if_neg (by simpa using h2), if_neg h2]

/-! ### the comparison blocks of the copies, on numbers -/

theorem u64_gt (a b : UInt64) : decide (a > b) = decide (b.toNat < a.toNat) := by
  rw [decide_eq_decide, gt_iff_lt, UInt64.lt_iff_toNat_lt]

theorem u64_bne_zero (a : UInt64) : (a != 0) = decide (a.toNat ≠ 0) := by
  rw [bne, u64_beq_zero, Bool.eq_iff_iff]; simp

/-- the thresholds: `10·2^64` (truncating and downward copies), `10·(2^64 − 1)` strict (upward), `10·2^64 − 5` (nearest) -/
def T_int : Nat := 10 * 2^64
def T_ceil : Nat := 10 * 2^64 - 10
def T_rn : Nat := 10 * 2^64 - 5

theorem ge128' (A B : U128) :
    (decide (A.w1 > B.w1) || (A.w1 == B.w1 && decide (A.w0 ≥ B.w0))) = decide (val128 B ≤ val128 A) := geW A B

theorem gt128' (A B : U128) :
    (decide (A.w1 > B.w1) || (A.w1 == B.w1 && decide (A.w0 > B.w0))) = decide (val128 B < val128 A) := gtW A B

theorem ite_congr_dec {α : Type} (p q : Prop) [Decidable p] [Decidable q] (h : p ↔ q) (a b : α) :
    (if decide p = true then a else b) = (if decide q = true then a else b) := by
  rw [decide_eq_decide.2 h]

theorem rangeOK_int {α : Type} : RangeOK (α := α) t19_int t20_int t19_int ⟨0, 0xa⟩ tBig_ge T_int false := by
  have e19 : TstIs (α := α) t19_int (cmpN false T_int) := by
    intro C inv k
    have := C.w0.toNat_lt
    unfold t19_int cmpN T_int val128
    rw [u64_ge]
    simp only [UInt64.toNat_ofNat, Bool.false_eq_true, if_false]
    apply ite_congr_dec; omega
  refine ⟨e19, ?_, e19, by decide, by decide, ?_⟩
  · intro C inv k _
    have := C.w0.toNat_lt
    unfold t20_int cmpN T_int val128
    rw [u64_ge]
    simp only [UInt64.toNat_ofNat, Bool.false_eq_true, if_false]
    apply ite_congr_dec; omega
  · intro C1 C inv k
    unfold tBig_ge cmpN
    rw [ge128']
    simp only [Bool.false_eq_true, if_false]

theorem rangeOK_ceil {α : Type} : RangeOK (α := α) t19_ceil t20_ceil t19_ceil ⟨0xfffffffffffffff6, 9⟩ tBig_gt T_ceil true := by
  have e19 : TstIs (α := α) t19_ceil (cmpN true T_ceil) := by
    intro C inv k
    unfold t19_ceil cmpN T_ceil
    rw [gt128' C ⟨0xfffffffffffffff6, 9⟩]
    simp only [if_true]
    rfl
  refine ⟨e19, ?_, e19, by decide, by decide, ?_⟩
  · intro C inv k _
    have := C.w0.toNat_lt
    unfold t20_ceil cmpN T_ceil val128
    rw [u64_bne_zero]
    simp only [if_true]
    apply ite_congr_dec; omega
  · intro C1 C inv k
    unfold tBig_gt cmpN
    rw [gt128']
    simp only [if_true]

theorem rangeOK_rn {α : Type} : RangeOK (α := α) t19_rn t20_rn t19_rn ⟨0xfffffffffffffffb, 9⟩ tBig_ge T_rn false := by
  have e19 : TstIs (α := α) t19_rn (cmpN false T_rn) := by
    intro C inv k
    unfold t19_rn cmpN T_rn
    rw [ge128' C ⟨0xfffffffffffffffb, 9⟩]
    simp only [Bool.false_eq_true, if_false]
    rfl
  refine ⟨e19, ?_, e19, by decide, by decide, ?_⟩
  · intro C inv k hC
    have h0 := C.w0.toNat_lt
    have h1 : C.w1.toNat < 8 := by simp only [val128] at hC; omega
    unfold t20_rn cmpN T_rn
    simp only [Bool.false_eq_true, if_false]
    by_cases hc : C.w0 + C.w0 < C.w0
    · rw [if_pos (by simpa using hc)]
      rw [ge128' ⟨C.w0 + C.w0, C.w1 + C.w1 + 1⟩ ⟨0xffffffffffffffff, 1⟩]
      rw [UInt64.lt_iff_toNat_lt, UInt64.toNat_add] at hc
      apply ite_congr_dec
      simp only [val128, UInt64.toNat_add, UInt64.toNat_ofNat, UInt64.toNat_one]
      omega
    · rw [if_neg (by simpa using hc)]
      rw [ge128' ⟨C.w0 + C.w0, C.w1 + C.w1⟩ ⟨0xffffffffffffffff, 1⟩]
      rw [UInt64.lt_iff_toNat_lt, UInt64.toNat_add] at hc
      apply ite_congr_dec
      simp only [val128, UInt64.toNat_add, UInt64.toNat_ofNat, UInt64.toNat_one]
      omega
  · intro C1 C inv k
    unfold tBig_ge cmpN
    rw [ge128']
    simp only [Bool.false_eq_true, if_false]

/-! ### the tables of the digit-removal stage -/

/-- shift amount, reciprocal, truncated reciprocal for removing `i + 1` digits -/
def shT (i : Nat) : Nat := Dec.Gen.BID_SHIFTRIGHT128.getD i 0
def kT (i : Nat) : Nat := Dec.Gen.BID_TEN2MK128.getD (2 * i) 0 + 2^64 * Dec.Gen.BID_TEN2MK128.getD (2 * i + 1) 0
def tT (i : Nat) : Nat := Dec.Gen.BID_TEN2MK128TRUNC.getD (2 * i) 0 + 2^64 * Dec.Gen.BID_TEN2MK128TRUNC.getD (2 * i + 1) 0

/-- everything the proofs use about row `i` of the tables, as one decidable statement -/
def rowFacts (i : Nat) : Bool :=
  let s := shT i; let K := kT i; let D := 10 ^ (i + 1)
  decide (2 ^ (128 + s) < K * D) && decide ((10 ^ 35 / D + 1) * (K * D - 2 ^ (128 + s)) < K) &&
  decide (tT i + 1 = K) && decide (K < 2^128) &&
  decide (Dec.Gen.BID_TEN2MK128[2 * i]? = some (K % 2^64)) && decide (Dec.Gen.BID_TEN2MK128[2 * i + 1]? = some (K / 2^64)) &&
  decide (Dec.Gen.BID_TEN2MK128TRUNC[2 * i]? = some (tT i % 2^64)) && decide (Dec.Gen.BID_TEN2MK128TRUNC[2 * i + 1]? = some (tT i / 2^64)) &&
  decide (Dec.Gen.BID_MASKHIGH128[i]? = some (2 ^ (s % 64) - 1)) &&
  decide (Dec.Gen.BID_ONEHALF128[i]? = some (if s % 64 = 0 then 0 else 2 ^ (s % 64 - 1))) &&
  decide (Dec.Gen.BID_SHIFTRIGHT128[i]? = some s) &&
  decide (if i ≤ 2 then s = 0 else if i ≤ 21 then 1 ≤ s ∧ s ≤ 63 else 65 ≤ s ∧ s ≤ 127) &&
  decide (if i < 19 then Dec.Gen.BID_MIDPOINT64[i]? = some (5 * 10 ^ i)
          else Dec.Gen.BID_MIDPOINT128[2 * (i - 19)]? = some (5 * 10 ^ i % 2^64) ∧
               Dec.Gen.BID_MIDPOINT128[2 * (i - 19) + 1]? = some (5 * 10 ^ i / 2^64))

theorem rowFacts_all : ∀ i, i < 34 → rowFacts i = true := by decide +kernel

/-- the facts about row `i`, unpacked -/
theorem row (i : Nat) (hi : i < 34) :
    2 ^ (128 + shT i) < kT i * 10 ^ (i + 1) ∧
    (10 ^ 35 / 10 ^ (i + 1) + 1) * (kT i * 10 ^ (i + 1) - 2 ^ (128 + shT i)) < kT i ∧
    tT i + 1 = kT i ∧ kT i < 2^128 ∧
    Dec.Gen.BID_TEN2MK128[2 * i]? = some (kT i % 2^64) ∧ Dec.Gen.BID_TEN2MK128[2 * i + 1]? = some (kT i / 2^64) ∧
    Dec.Gen.BID_TEN2MK128TRUNC[2 * i]? = some (tT i % 2^64) ∧ Dec.Gen.BID_TEN2MK128TRUNC[2 * i + 1]? = some (tT i / 2^64) ∧
    Dec.Gen.BID_MASKHIGH128[i]? = some (2 ^ (shT i % 64) - 1) ∧
    Dec.Gen.BID_ONEHALF128[i]? = some (if shT i % 64 = 0 then 0 else 2 ^ (shT i % 64 - 1)) ∧
    Dec.Gen.BID_SHIFTRIGHT128[i]? = some (shT i) ∧
    (if i ≤ 2 then shT i = 0 else if i ≤ 21 then 1 ≤ shT i ∧ shT i ≤ 63 else 65 ≤ shT i ∧ shT i ≤ 127) ∧
    (if i < 19 then Dec.Gen.BID_MIDPOINT64[i]? = some (5 * 10 ^ i)
      else Dec.Gen.BID_MIDPOINT128[2 * (i - 19)]? = some (5 * 10 ^ i % 2^64) ∧
           Dec.Gen.BID_MIDPOINT128[2 * (i - 19) + 1]? = some (5 * 10 ^ i / 2^64)) := by
  have h := rowFacts_all i hi
  simp only [rowFacts, Bool.and_eq_true, decide_eq_true_eq] at h
  obtain ⟨⟨⟨⟨⟨⟨⟨⟨⟨⟨⟨⟨a1, a2⟩, a3⟩, a4⟩, a5⟩, a6⟩, a7⟩, a8⟩, a9⟩, a10⟩, a11⟩, a12⟩, a13⟩ := h
  exact ⟨a1, a2, a3, a4, a5, a6, a7, a8, a9, a10, a11, a12, a13⟩

/-! ### table look-ups -/

theorem tbl64_get (t : List Nat) (i : UInt64) (v : Nat) (h : t[i.toNat]? = some v) : tbl64 t i = .ok (UInt64.ofNat v) := by
  unfold tbl64; rw [h]

theorem tbl128_get (t : List Nat) (i : UInt64) (a b : Nat) (h0 : t[2 * i.toNat]? = some a) (h1 : t[2 * i.toNat + 1]? = some b) :
    tbl128 t i = .ok ⟨UInt64.ofNat a, UInt64.ofNat b⟩ := by
  unfold tbl128; rw [h0, h1]

theorem tblI32_get (t : List Nat) (i : UInt64) (v : Nat) (h : t[i.toNat]? = some v) (hv : v < 2^31) :
    ∃ r : Int32, tblI32 t i = .ok r ∧ r.toInt = v := by
  refine ⟨_, by unfold tblI32; rw [h], ?_⟩
  have e : (UInt64.ofNat v).toInt64.toInt = v := by
    rw [UInt64.toInt64_ofNat', Int64.toInt_ofNat_of_lt (by omega)]
  rw [e, Int32.toInt_ofInt_of_le (by omega) (by omega)]

theorem val128_ofNat (K : Nat) (h : K < 2^128) : val128 ⟨UInt64.ofNat (K % 2^64), UInt64.ofNat (K / 2^64)⟩ = K := by
  simp only [val128, UInt64.toNat_ofNat']
  omega

theorem idx_sub (ind : Int32) (c : Int32) (x cv : Nat) (hx : ind.toInt = x) (hc : c.toInt = cv) (hle : cv ≤ x) (hb : x < 2^20) :
    (UInt64.ofInt (toI (ind - c))).toNat = x - cv := by
  apply idx_toNat
  rw [i32_sub _ _ (by rw [hx, hc]; omega) (by rw [hx, hc]; omega), hx, hc]; omega

/-! ### splitting the product -/

open Dec.RH (wd shl64 shr64) in
open Dec.C02RoundHelpers (funnelZ' shr_top and_mask modsplit) in
/-- word-level: the quotient word and the fraction of a 256-bit product `P` split at bit `128 + s`, as the code assembles them -/
theorem split_words (P : U256) (s : Nat) (sh : Int32) (hs : sh.toInt = s) (m : UInt64) (hm : m.toNat = 2 ^ (s % 64) - 1) :
    (s ≤ 63 →
      (val256 P / 2 ^ (128 + s) < 2^64 →
        (P.w2 >>> UInt64.ofInt (toI sh) ||| P.w3 <<< UInt64.ofInt (toI ((0x40 : Int32) - sh))).toNat = val256 P / 2 ^ (128 + s)) ∧
      val256 ⟨P.w0, P.w1, P.w2 &&& m, 0⟩ = val256 P % 2 ^ (128 + s)) ∧
    (65 ≤ s → s ≤ 127 →
      (P.w3 >>> UInt64.ofInt (toI (sh - (0x40 : Int32)))).toNat = val256 P / 2 ^ (128 + s) ∧
      val256 ⟨P.w0, P.w1, P.w2, P.w3 &&& m⟩ = val256 P % 2 ^ (128 + s)) := by
  have b0 := P.w0.toNat_lt; have b1 := P.w1.toNat_lt; have b2 := P.w2.toNat_lt; have b3 := P.w3.toNat_lt
  have hP : val256 P < 2^256 := by unfold val256; omega
  have w0 : wd (val256 P) 0 = P.w0.toNat := by unfold wd val256; omega
  have w1 : wd (val256 P) 1 = P.w1.toNat := by unfold wd val256; omega
  have w2 : wd (val256 P) 2 = P.w2.toNat := by unfold wd val256; omega
  have w3 : wd (val256 P) 3 = P.w3.toNat := by unfold wd val256; omega
  have low : val256 P % 2^128 = P.w1.toNat * 2^64 + P.w0.toNat := by unfold val256; omega
  have low3 : val256 P % 2^192 = P.w2.toNat * 2^128 + P.w1.toNat * 2^64 + P.w0.toNat := by unfold val256; omega
  constructor
  · intro h63
    have hk : (UInt64.ofInt (toI sh)).toNat = s := idx_toNat _ _ hs
    have hk' : (UInt64.ofInt (toI ((0x40 : Int32) - sh))).toNat = 64 - s := by
      apply idx_toNat
      rw [i32_sub _ _ (by rw [hs]; show (-2^31 : Int) ≤ 64 - s; omega) (by rw [hs]; show (64 : Int) - s < 2^31; omega), hs]
      show (64 : Int) - s = _; omega
    constructor
    · intro hA
      rw [UInt64.toNat_or, UInt64.toNat_shiftRight, UInt64.toNat_shiftLeft, hk, hk']
      by_cases h0 : s = 0
      · subst h0
        have h3 : P.w3.toNat = 0 := by
          have : val256 P < 2^192 := by
            have := (Nat.div_lt_iff_lt_mul (Nat.pow_pos (by decide))).1 hA
            calc val256 P < 2^64 * 2^(128 + 0) := this
              _ = 2^192 := by decide
          unfold val256 at this; omega
        rw [h3]
        simp only [Nat.zero_mod, Nat.shiftRight_zero, Nat.sub_zero, Nat.mod_self, Nat.zero_shiftLeft, Nat.or_zero, Nat.add_zero]
        unfold val256; rw [h3]; omega
      · have := funnelZ' (val256 P) 2 s (128 + s) 0 (by omega) h63 (by omega)
        rw [w2, w3] at this
        unfold shr64 shl64 at this
        rw [this]
        unfold wd
        rw [Nat.mul_zero, Nat.pow_zero, Nat.div_one, Nat.mod_eq_of_lt hA]
    · have hm' : (P.w2 &&& m).toNat = val256 P / 2 ^ 128 % 2 ^ s := by
        rw [UInt64.toNat_and, hm, Nat.mod_eq_of_lt (by omega : s < 64), ← w2]
        exact and_mask (val256 P) 2 s (by omega)
      rw [modsplit, low]
      simp only [val256, hm', UInt64.toNat_zero]
      omega
  · intro h65 h127
    have hk : (UInt64.ofInt (toI (sh - (0x40 : Int32)))).toNat = s - 64 := by
      apply idx_toNat
      rw [i32_sub _ _ (by rw [hs]; show (-2^31 : Int) ≤ s - 64; omega) (by rw [hs]; show (s : Int) - 64 < 2^31; omega), hs]
      show (s : Int) - 64 = _; omega
    constructor
    · rw [UInt64.toNat_shiftRight, hk]
      have := shr_top (val256 P) 3 (s - 64) (by omega) hP
      rw [w3] at this
      unfold shr64 at this
      rw [this]
      congr 2; omega
    · have hm' : (P.w3 &&& m).toNat = val256 P / 2 ^ 192 % 2 ^ (s - 64) := by
        rw [UInt64.toNat_and, hm, show s % 64 = s - 64 by omega, ← w3]
        exact and_mask (val256 P) 3 (s - 64) (by omega)
      rw [show 128 + s = 192 + (s - 64) by omega, modsplit, low3]
      simp only [val256, hm']
      omega

/-- **splitting the product**: with `Pv = C'·K_x` and `E = 128 + s_x`, the block continues with the quotient word
`Pv / 2^E` (when that fits a word) and the fraction `Pv mod 2^E` -/
theorem splitK_spec {α : Type} (C1 : U128) (ind : Int32) (k : U128 → U256 → Except String α) (x : Nat)
    (hx : ind.toInt = x) (h1 : 1 ≤ x) (h34 : x ≤ 34) :
    ∃ (Cs : U128) (fs : U256), splitK C1 ind k = k Cs fs ∧
      (val128 C1 * kT (x - 1) / 2 ^ (128 + shT (x - 1)) < 2^64 →
        Cs.w0.toNat = val128 C1 * kT (x - 1) / 2 ^ (128 + shT (x - 1))) ∧
      val256 fs = val128 C1 * kT (x - 1) % 2 ^ (128 + shT (x - 1)) := by
  obtain ⟨-, -, -, hK, hk0, hk1, -, -, hmask, -, hsh, hrange, -⟩ := row (x - 1) (by omega)
  have hk := idx_sub ind 1 x 1 hx rfl h1 (by omega)
  have d1 : (ind - 1).toInt = ((x - 1 : Nat) : Int) := by
    rw [i32_sub _ _ (by rw [hx]; show (-2^31 : Int) ≤ x - 1; omega) (by rw [hx]; show (x : Int) - 1 < 2^31; omega), hx]
    show (x : Int) - 1 = _; omega
  obtain ⟨P, hP, Pv⟩ := mul_128x128_to_256_spec C1 ⟨UInt64.ofNat (kT (x - 1) % 2^64), UInt64.ofNat (kT (x - 1) / 2^64)⟩
  rw [val128_ofNat _ hK] at Pv
  obtain ⟨sh, hsh', shv⟩ := tblI32_get _ (UInt64.ofInt (toI (ind - 1))) _ (by rw [hk]; exact hsh)
    (by split at hrange <;> [skip; split at hrange] <;> omega)
  have hmlt : 2 ^ (shT (x - 1) % 64) - 1 < 2^64 := by
    have : 2 ^ (shT (x - 1) % 64) ≤ 2 ^ 63 := Nat.pow_le_pow_right (by decide) (by omega)
    omega
  obtain ⟨sw1, sw2⟩ := split_words P (shT (x - 1)) sh shv (UInt64.ofNat (2 ^ (shT (x - 1) % 64) - 1))
    (by rw [UInt64.toNat_ofNat', Nat.mod_eq_of_lt hmlt])
  simp only [splitK, bind, Except.bind, pure, Except.pure]
  rw [tbl128_get _ _ _ _ (by rw [hk]; exact hk0) (by rw [hk]; exact hk1)]
  simp only [hP]
  rw [tbl64_get _ _ _ (by rw [hk]; exact hmask), hsh']
  by_cases c : x - 1 ≤ 21
  · have c' : decide (ind - 1 ≤ 0x15) = true := by
      rw [decide_eq_true_eq, Int32.le_iff_toInt_le, d1]; show ((x - 1 : Nat) : Int) ≤ 21; omega
    have hs63 : shT (x - 1) ≤ 63 := by
      by_cases c2 : x - 1 ≤ 2
      · rw [if_pos c2] at hrange; omega
      · rw [if_neg c2, if_pos c] at hrange; omega
    obtain ⟨q1, q2⟩ := sw1 hs63
    simp only [c', if_true]
    refine ⟨_, _, rfl, ?_, ?_⟩
    · intro hA; rw [← Pv] at hA ⊢; exact q1 hA
    · rw [← Pv]; exact q2
  · have c' : ¬ decide (ind - 1 ≤ 0x15) = true := by
      rw [decide_eq_true_eq, Int32.le_iff_toInt_le, d1]; show ¬ ((x - 1 : Nat) : Int) ≤ 21; omega
    have hs : 65 ≤ shT (x - 1) ∧ shT (x - 1) ≤ 127 := by
      rw [if_neg (by omega), if_neg c] at hrange; exact hrange
    obtain ⟨q1, q2⟩ := sw2 hs.1 hs.2
    simp only [c', if_false]
    refine ⟨_, _, rfl, ?_, ?_⟩
    · intro _; rw [← Pv]; exact q1
    · rw [← Pv]; exact q2

/-- **the quotient block** (copies that do not look at the fraction): the quotient word `Pv / 2^E` when that fits a word -/
theorem quotK_spec {α : Type} (C1 : U128) (ind : Int32) (k : UInt64 → Except String α) (x : Nat)
    (hx : ind.toInt = x) (h1 : 1 ≤ x) (h34 : x ≤ 34) :
    ∃ w : UInt64, quotK C1 ind k = k w ∧
      (val128 C1 * kT (x - 1) / 2 ^ (128 + shT (x - 1)) < 2^64 →
        w.toNat = val128 C1 * kT (x - 1) / 2 ^ (128 + shT (x - 1))) := by
  obtain ⟨-, -, -, hK, hk0, hk1, -, -, hmask, -, hsh, hrange, -⟩ := row (x - 1) (by omega)
  have hk := idx_sub ind 1 x 1 hx rfl h1 (by omega)
  have d1 : (ind - 1).toInt = ((x - 1 : Nat) : Int) := by
    rw [i32_sub _ _ (by rw [hx]; show (-2^31 : Int) ≤ x - 1; omega) (by rw [hx]; show (x : Int) - 1 < 2^31; omega), hx]
    show (x : Int) - 1 = _; omega
  obtain ⟨P, hP, Pv⟩ := mul_128x128_to_256_spec C1 ⟨UInt64.ofNat (kT (x - 1) % 2^64), UInt64.ofNat (kT (x - 1) / 2^64)⟩
  rw [val128_ofNat _ hK] at Pv
  obtain ⟨sh, hsh', shv⟩ := tblI32_get _ (UInt64.ofInt (toI (ind - 1))) _ (by rw [hk]; exact hsh)
    (by split at hrange <;> [skip; split at hrange] <;> omega)
  have hmlt : 2 ^ (shT (x - 1) % 64) - 1 < 2^64 := by
    have : 2 ^ (shT (x - 1) % 64) ≤ 2 ^ 63 := Nat.pow_le_pow_right (by decide) (by omega)
    omega
  obtain ⟨sw1, sw2⟩ := split_words P (shT (x - 1)) sh shv (UInt64.ofNat (2 ^ (shT (x - 1) % 64) - 1))
    (by rw [UInt64.toNat_ofNat', Nat.mod_eq_of_lt hmlt])
  simp only [quotK, bind, Except.bind, pure, Except.pure]
  rw [tbl128_get _ _ _ _ (by rw [hk]; exact hk0) (by rw [hk]; exact hk1)]
  simp only [hP, hsh']
  by_cases c : x - 1 ≤ 21
  · have c' : decide (ind - 1 ≤ 0x15) = true := by
      rw [decide_eq_true_eq, Int32.le_iff_toInt_le, d1]; show ((x - 1 : Nat) : Int) ≤ 21; omega
    have hs63 : shT (x - 1) ≤ 63 := by
      by_cases c2 : x - 1 ≤ 2
      · rw [if_pos c2] at hrange; omega
      · rw [if_neg c2, if_pos c] at hrange; omega
    obtain ⟨q1, q2⟩ := sw1 hs63
    simp only [c', if_true]
    refine ⟨_, rfl, ?_⟩
    intro hA; rw [← Pv] at hA ⊢; exact q1 hA
  · have c' : ¬ decide (ind - 1 ≤ 0x15) = true := by
      rw [decide_eq_true_eq, Int32.le_iff_toInt_le, d1]; show ¬ ((x - 1 : Nat) : Int) ≤ 21; omega
    have hs : 65 ≤ shT (x - 1) ∧ shT (x - 1) ≤ 127 := by
      rw [if_neg (by omega), if_neg c] at hrange; exact hrange
    obtain ⟨q1, q2⟩ := sw2 hs.1 hs.2
    simp only [c', if_false]
    refine ⟨_, rfl, ?_⟩
    intro _; rw [← Pv]; exact q1

/-! ## 3. Model side: the magnitude of the rounded integer -/

/-- the magnitude of `roundToInt` -/
def magOf (mode : Mode) (s : Bool) (c : Nat) (e : Int) : Nat :=
  if e ≥ 0 then c * 10 ^ e.toNat
  else roundInt mode s (c / 10 ^ (-e).toNat) (c % 10 ^ (-e).toNat) (10 ^ (-e).toNat)

/-- was the datum already an integer? -/
def exactOf (c : Nat) (e : Int) : Bool := if e ≥ 0 then true else c % 10 ^ (-e).toNat == 0

theorem roundToInt_eq (mode : Mode) (s : Bool) (c : Nat) (e : Int) :
    roundToInt mode s c e = (sInt s (magOf mode s c e), exactOf c e) := by
  unfold roundToInt magOf exactOf
  split <;> rfl

/-- the status word with inexact or-ed in when the copy signals inexact (`xf`) and the value was not an integer -/
def ixWord (f : UInt32) (xf exact : Bool) : UInt32 := if (xf && !exact) = true then IX f else f

/-- the expected outcome for a finite datum: the magnitude when the rounded value is in `[0, 2^64 − 1]` — that is, when
it is zero, or non-negative and below `2^64` —, otherwise invalid -/
def specFin (mode : Mode) (xf s : Bool) (c : Nat) (e : Int) (f : UInt32) : Except String (UInt64 × UInt32) :=
  if magOf mode s c e = 0 ∨ (s = false ∧ magOf mode s c e < 2^64) then
    .ok (UInt64.ofNat (magOf mode s c e), ixWord f xf (exactOf c e))
  else INV f

theorem or_ofNat_inexact (f : UInt32) : f ||| UInt32.ofNat fInexact = IX f := rfl
theorem or_ofNat_invalid (f : UInt32) : f ||| UInt32.ofNat fInvalid = f ||| c_StatusFlags_BID_INVALID_EXCEPTION := rfl

theorem indef_word : UInt64.ofNat (Int.toNat 9223372036854775808) = (0x8000000000000000 : UInt64) := by decide +kernel

theorem toIntD_u64 (mode : Mode) (xf : Bool) (s : Bool) (c : Nat) (e : Int) :
    toIntD mode xf u64Ty.lo u64Ty.hi u64Ty.indef (.fin s c e) =
      if magOf mode s c e = 0 ∨ (s = false ∧ magOf mode s c e < 2^64) then
        ((magOf mode s c e : Int), if (xf && !exactOf c e) = true then fInexact else 0)
      else (9223372036854775808, fInvalid) := by
  unfold u64Ty
  simp only [toIntD, roundToInt_eq]
  generalize magOf mode s c e = m
  generalize exactOf c e = ex
  cases s
  · simp only [sInt, Bool.false_eq_true, if_false, true_and]
    by_cases h : m < 2^64
    · rw [if_pos (by omega), if_pos (Or.inr h)]
    · rw [if_neg (by omega), if_neg (by omega)]
  · simp only [sInt, if_true, Bool.true_eq_false, false_and, or_false]
    by_cases h : m = 0
    · subst h
      rw [if_pos (by omega), if_pos rfl]
      rfl
    · rw [if_neg (by omega), if_neg h]

/-- `specOut` on a finite datum -/
theorem specOut_fin (mode : Mode) (xf : Bool) (x : U128) (f : UInt32) (s : Bool) (c : Nat) (e : Int)
    (hd : decode (bitsOf x) = .fin s c e) : specOut mode xf x f = specFin mode xf s c e f := by
  unfold specOut specFin INV ixWord
  rw [hd, toIntD_u64]
  split
  · simp only [Int.toNat_natCast]
    split
    · rw [or_ofNat_inexact]
    · rw [show UInt32.ofNat 0 = 0 from rfl, UInt32.or_zero]
  · simp only [indef_word, or_ofNat_invalid]

theorem specOut_special (mode : Mode) (xf : Bool) (x : U128) (f : UInt32) (h : (decode (bitsOf x)).isFin = false) :
    specOut mode xf x f = INV f := by
  unfold specOut INV
  cases hd : decode (bitsOf x) with
  | fin s c e => rw [hd] at h; exact Bool.noConfusion h
  | inf s => simp only [toIntD, u64Ty, indef_word, or_ofNat_invalid]
  | nan s g p => simp only [toIntD, u64Ty, indef_word, or_ofNat_invalid]

theorem magOf_zero (mode : Mode) (s : Bool) (e : Int) : magOf mode s 0 e = 0 := by
  unfold magOf
  split
  · rw [Nat.zero_mul]
  · simp [roundInt, roundUp]

theorem exactOf_zero (e : Int) : exactOf 0 e = true := by
  unfold exactOf; split <;> simp

theorem specFin_zero (mode : Mode) (xf s : Bool) (e : Int) (f : UInt32) : specFin mode xf s 0 e f = .ok (0, f) := by
  unfold specFin ixWord
  rw [magOf_zero, exactOf_zero, if_pos (Or.inl rfl)]
  simp

theorem roundInt_ge (mode : Mode) (s : Bool) (a r D : Nat) : a ≤ roundInt mode s a r D := by
  unfold roundInt; split <;> omega

theorem roundInt_le (mode : Mode) (s : Bool) (a r D : Nat) : roundInt mode s a r D ≤ a + 1 := by
  unfold roundInt; split <;> omega

theorem roundInt_exact (mode : Mode) (s : Bool) (a D : Nat) : roundInt mode s a 0 D = a := by
  simp [roundInt, roundUp]

/-- at least `n + 1` integer digits: the rounded magnitude is at least `10^n`, whatever the direction -/
theorem magOf_ge (mode : Mode) (s : Bool) (c : Nat) (e : Int) (n : Nat) (hc : 0 < c) (h : (n : Int) + 1 ≤ (ndigits c : Int) + e) :
    10 ^ n ≤ magOf mode s c e := by
  obtain ⟨hlo, -⟩ := ndigits_spec hc
  unfold magOf
  by_cases he : e ≥ 0
  · rw [if_pos he]
    have : 10 ^ n ≤ 10 ^ (ndigits c - 1 + e.toNat) := Nat.pow_le_pow_right (by decide) (by omega)
    calc 10 ^ n ≤ 10 ^ (ndigits c - 1 + e.toNat) := this
      _ = 10 ^ (ndigits c - 1) * 10 ^ e.toNat := Nat.pow_add ..
      _ ≤ c * 10 ^ e.toNat := Nat.mul_le_mul_right _ hlo
  · rw [if_neg he]
    refine Nat.le_trans ?_ (roundInt_ge ..)
    rw [Nat.le_div_iff_mul_le (Nat.pow_pos (by decide)), ← Nat.pow_add]
    exact Nat.le_trans (Nat.pow_le_pow_right (by decide) (by omega)) hlo

/-- at most `n` integer digits: the rounded magnitude is at most `10^n` -/
theorem magOf_le (mode : Mode) (s : Bool) (c : Nat) (e : Int) (n : Nat) (hc : 0 < c) (h : (ndigits c : Int) + e ≤ n) :
    magOf mode s c e ≤ 10 ^ n := by
  obtain ⟨-, hhi⟩ := ndigits_spec hc
  unfold magOf
  by_cases he : e ≥ 0
  · rw [if_pos he]
    have : c * 10 ^ e.toNat < 10 ^ ndigits c * 10 ^ e.toNat := Nat.mul_lt_mul_of_pos_right hhi (Nat.pow_pos (by decide))
    rw [← Nat.pow_add] at this
    exact Nat.le_of_lt (Nat.lt_of_lt_of_le this (Nat.pow_le_pow_right (by decide) (by omega)))
  · rw [if_neg he]
    refine Nat.le_trans (roundInt_le ..) ?_
    have : c / 10 ^ (-e).toNat < 10 ^ n := by
      rw [Nat.div_lt_iff_lt_mul (Nat.pow_pos (by decide)), ← Nat.pow_add]
      exact Nat.lt_of_lt_of_le hhi (Nat.pow_le_pow_right (by decide) (by omega))
    omega

/-- no integer digit: the quotient is 0 and the whole coefficient is discarded -/
theorem tiny (c : Nat) (e : Int) (hc : 0 < c) (h : (ndigits c : Int) + e ≤ 0) :
    e < 0 ∧ c / 10 ^ (-e).toNat = 0 ∧ c % 10 ^ (-e).toNat = c ∧ c < 10 ^ (-e).toNat := by
  obtain ⟨-, hhi⟩ := ndigits_spec hc
  have hn := ndigits_pos hc
  have hlt : c < 10 ^ (-e).toNat := Nat.lt_of_lt_of_le hhi (Nat.pow_le_pow_right (by decide) (by omega))
  exact ⟨by omega, Nat.div_eq_of_lt hlt, Nat.mod_eq_of_lt hlt, hlt⟩

/-- with no integer digit the rounded magnitude is 0 or 1, by the direction, and the value is not an integer -/
theorem magOf_tiny (mode : Mode) (s : Bool) (c : Nat) (e : Int) (hc : 0 < c) (h : (ndigits c : Int) + e ≤ 0) :
    magOf mode s c e = (if roundUp mode s false c (10 ^ (-e).toNat) = true then 1 else 0) ∧ exactOf c e = false := by
  obtain ⟨he, h1, h2, -⟩ := tiny c e hc h
  unfold magOf exactOf
  have hne : ¬ e ≥ 0 := by omega
  rw [if_neg hne, if_neg hne, h1, h2]
  refine ⟨?_, by rw [beq_eq_false_iff_ne]; omega⟩
  unfold roundInt
  rw [show ((0 : Nat) % 2 == 1) = false from rfl, Nat.zero_add]


/-! ### the threshold of the range test is the right one for the direction -/

/-- threshold and strictness of the range test on `10·|x|`, by rounding direction (non-negative operands) -/
def thr : Mode → Nat × Bool
  | .rtz => (T_int, false)
  | .rdn => (T_int, false)
  | .rup => (T_ceil, true)
  | .rne => (T_rn, false)
  | .rna => (T_rn, false)

/-- quotient thresholds against products, for `omega` -/
theorem div_facts (c D : Nat) (hD : 0 < D) (N : Nat) :
    (N ≤ c / D ↔ N * D ≤ c) ∧ (c / D < N ↔ c < N * D) :=
  ⟨Nat.le_div_iff_mul_le hD, Nat.div_lt_iff_lt_mul hD⟩

theorem cmpN_iff (strict : Bool) (T n : Nat) : cmpN strict T n = true ↔ (if strict = true then T < n else T ≤ n) := by
  unfold cmpN; cases strict <;> simp

/-- **the range test decides `2^64 ≤` rounded magnitude**, for a non-negative operand with exactly 20 integer digits -/
theorem range20 (mode : Mode) (c : Nat) (e : Int) (hc : 0 < c) (h20 : (ndigits c : Int) + e = 20) :
    2^64 ≤ magOf mode false c e ↔
      cmpN (thr mode).2 ((thr mode).1 * 10 ^ (ndigits c - 21)) (c * 10 ^ (21 - ndigits c)) = true := by
  have hq := ndigits_pos hc
  rw [cmpN_iff]
  generalize ndigits c = q at *
  unfold magOf
  by_cases he : e ≥ 0
  · -- an integer: 10·|x| = c·10^(21−q) is a multiple of ten
    have e1 : c * 10 ^ (21 - q) = 10 * (c * 10 ^ e.toNat) := by
      rw [show 21 - q = e.toNat + 1 by omega, Nat.pow_succ]; ring
    rw [if_pos he, show q - 21 = 0 by omega, Nat.pow_zero, Nat.mul_one, e1]
    generalize c * 10 ^ e.toNat = M
    cases mode <;> simp only [thr, T_int, T_ceil, T_rn, Bool.false_eq_true, if_false, if_true] <;> omega
  · rw [if_neg he, show 21 - q = 0 by omega, Nat.pow_zero, Nat.mul_one]
    obtain ⟨W, hW, hD⟩ : ∃ W, W = 10 ^ (q - 21) ∧ 10 ^ (-e).toNat = 10 * W := by
      refine ⟨_, rfl, ?_⟩
      rw [show (-e).toNat = (q - 21) + 1 by omega, Nat.pow_succ, Nat.mul_comm]
    rw [← hW, hD]
    have hWpos : 0 < W := by rw [hW]; exact Nat.pow_pos (by decide)
    have hDpos : 0 < 10 * W := by omega
    have hdm := Nat.div_add_mod c (10 * W)
    have hr := Nat.mod_lt c hDpos
    obtain ⟨f1, f2⟩ := div_facts c (10 * W) hDpos (2^64)
    obtain ⟨g1, g2⟩ := div_facts c (10 * W) hDpos (2^64 - 1)
    generalize c / (10 * W) = a at *
    generalize c % (10 * W) = r at *
    have hP1 : a = 2^64 - 1 → 10 * W * a = (2^64 - 1) * (10 * W) := fun h => by rw [h, Nat.mul_comm]
    generalize 10 * W * a = P at *
    have fin : ∀ (b : Bool) (p : Prop) (T : Nat), (b = true ↔ p) →
        ((p → (2^64 ≤ a + 1 ↔ T ≤ c)) ∧ (¬ p → (2^64 ≤ a ↔ T ≤ c))) →
        ((2^64 ≤ if b = true then a + 1 else a) ↔ T ≤ c) := by
      intro b p T hb ⟨h1, h2⟩
      cases b
      · simp only [Bool.false_eq_true, if_false]; exact h2 (fun hp => by simpa using hb.2 hp)
      · simp only [if_true]; exact h1 (hb.1 rfl)
    cases mode <;>
      simp only [thr, T_int, T_ceil, T_rn, Bool.false_eq_true, if_false, if_true, roundInt, roundUp, Bool.not_false]
    · -- ties to even
      by_cases hr0 : r = 0
      · simp only [hr0, if_true, Bool.false_eq_true, if_false]; omega
      · simp only [hr0, if_false]
        refine fin _ (2 * r > 10 * W ∨ (2 * r = 10 * W ∧ a % 2 = 1)) _ (by simp) ⟨?_, ?_⟩ <;> intro h <;> omega
    · -- downward (a non-negative operand: truncation)
      by_cases hr0 : r = 0
      · simp only [hr0, if_true, Bool.false_eq_true, if_false]; omega
      · simp only [hr0, if_false, Bool.false_eq_true]; omega
    · -- upward
      by_cases hr0 : r = 0
      · simp only [hr0, if_true, Bool.false_eq_true, if_false]; omega
      · simp only [hr0, if_false, if_true]; omega
    · -- toward zero
      by_cases hr0 : r = 0
      · simp only [hr0, if_true, Bool.false_eq_true, if_false]; omega
      · simp only [hr0, if_false, Bool.false_eq_true]; omega
    · -- ties away
      by_cases hr0 : r = 0
      · simp only [hr0, if_true, Bool.false_eq_true, if_false]; omega
      · simp only [hr0, if_false]
        refine fin _ (2 * r ≥ 10 * W) _ (by simp) ⟨?_, ?_⟩ <;> intro h <;> omega

/-! ## 4. Gluing the blocks to the model -/

abbrev R := Except String (UInt64 × UInt32)

theorem specFin_inv (mode : Mode) (xf s : Bool) (c : Nat) (e : Int) (f : UInt32)
    (h0 : magOf mode s c e ≠ 0) (h : s = true ∨ 2^64 ≤ magOf mode s c e) : specFin mode xf s c e f = INV f := by
  unfold specFin
  rw [if_neg]
  rintro (h1 | ⟨h1, h2⟩)
  · exact h0 h1
  · rcases h with h | h
    · rw [h1] at h; exact Bool.noConfusion h
    · omega

theorem specFin_ok (mode : Mode) (xf : Bool) (c : Nat) (e : Int) (f : UInt32) (h : magOf mode false c e < 2^64) :
    specFin mode xf false c e f = .ok (UInt64.ofNat (magOf mode false c e), ixWord f xf (exactOf c e)) := by
  unfold specFin
  rw [if_pos (Or.inr ⟨rfl, h⟩)]

/-- **front end, glued**: if the body of a copy returns the expected outcome on every finite non-zero operand (given the sign
word, the coefficient, its digit count and the exponent), the copy returns the expected outcome on every operand -/
theorem front_glue (mode : Mode) (xf : Bool) (x : U128) (f : UInt32) (pre : UInt64 → R → R)
    (body : UInt64 → U128 → Int32 → Int32 → R)
    (hbody : ∀ (s : Bool) (C1 : U128) (Q E : Int32) (c : Nat) (e : Int),
      (x.w1 &&& c_MASK_SIGN != 0) = s → val128 C1 = c → 0 < c → c < P34 → Q.toInt = (ndigits c : Int) → E.toInt = e →
      -6176 ≤ e → e ≤ 6111 → pre (x.w1 &&& c_MASK_SIGN) (body (x.w1 &&& c_MASK_SIGN) C1 Q E) = specFin mode xf s c e f) :
    frontK x (INV f) (.ok (0, f)) pre body = specOut mode xf x f := by
  obtain ⟨h1, h2, h3⟩ := frontK_spec x (INV f) (.ok (0, f)) pre body
  by_cases hI : x.w1.toNat / 2^59 % 16 = 15
  · rw [h1 hI, specOut_special]
    rw [decode_bitsOf, Dec.C17GenNext.isFin_decodeW]; simpa using hI
  · by_cases hz : zeroP x.w1.toNat x.w0.toNat
    · obtain ⟨e, hd⟩ := Dec.C17GenNext.decodeW_zero _ _ hI hz
      rw [h2 hI hz, specOut_fin mode xf x f _ 0 e (by rw [decode_bitsOf]; exact hd), specFin_zero]
    · have hx : nzFin x := ⟨hI, hz⟩
      obtain ⟨hd, hpos, hlt⟩ := nzFin_decode x hx
      obtain ⟨Q, E, hQ, hE, hk⟩ := h3 hx
      have hE' := expW_lt x.w1.toNat
      have hS : x.w1.toNat / 2^61 % 4 ≠ 3 := fun h => hz (Or.inl h)
      have hEb : expW x.w1.toNat < 12288 := by unfold expW; omega
      rw [hk, specOut_fin mode xf x f _ _ _ hd]
      exact hbody _ (sigF x) Q E _ _ (sign_bne x.w1) (val128_sigF x) hpos hlt hQ hE (by omega) (by unfold expW at hEb; omega)

/-- **range test, glued**: above the range the expected outcome is invalid; the rest of the copy has to deliver the
expected outcome only within the range -/
theorem range_glue (mode : Mode) (xf s : Bool) (c : Nat) (e : Int) (f : UInt32) (hc : 0 < c) (REST : R)
    (hrest : (ndigits c : Int) + e ≤ 20 → ((ndigits c : Int) + e = 20 → s = false ∧ magOf mode false c e < 2^64) →
      REST = specFin mode xf s c e f) :
    (if 20 < (ndigits c : Int) + e then INV f
      else if (ndigits c : Int) + e = 20 then
        (if s = true then INV f
         else if cmpN (thr mode).2 ((thr mode).1 * 10 ^ (ndigits c - 21)) (c * 10 ^ (21 - ndigits c)) = true then INV f else REST)
      else REST) = specFin mode xf s c e f := by
  have big : (2:Nat)^64 ≤ 10^20 := by decide
  by_cases h1 : 20 < (ndigits c : Int) + e
  · rw [if_pos h1]
    have := magOf_ge mode s c e 20 hc (by omega)
    rw [specFin_inv mode xf s c e f (by omega) (Or.inr (by omega))]
  · rw [if_neg h1]
    by_cases h2 : (ndigits c : Int) + e = 20
    · rw [if_pos h2]
      cases s
      · rw [if_neg Bool.false_ne_true]
        have hr := range20 mode c e hc h2
        by_cases h3 : cmpN (thr mode).2 ((thr mode).1 * 10 ^ (ndigits c - 21)) (c * 10 ^ (21 - ndigits c)) = true
        · rw [if_pos h3]
          have := hr.2 h3
          rw [specFin_inv mode xf false c e f (by omega) (Or.inr this)]
        · rw [if_neg h3]
          exact hrest (by omega) (fun _ => ⟨rfl, by have := mt hr.1 h3; omega⟩)
      · rw [if_pos rfl]
        have := magOf_ge mode true c e 19 hc (by omega)
        have p : (0:Nat) < 10^19 := by decide
        rw [specFin_inv mode xf true c e f (by omega) (Or.inl rfl)]
    · rw [if_neg h2]
      exact hrest (by omega) (fun h => absurd h h2)

/-- the value of an operand whose exponent is not negative (or the digit-removal block when it is) -/
theorem valueK_spec {α : Type} (C1 : U128) (E : Int32) (e : Int) (hE : E.toInt = e) (he19 : e ≤ 19)
    (neg : Except String α) (k : UInt64 → Except String α) :
    valueK C1 E neg k = if e < 0 then neg else k (UInt64.ofNat (C1.w0.toNat * 10 ^ e.toNat)) := by
  unfold valueK
  rw [i32_lt, i32_beq, hE, show (0 : Int32).toInt = 0 from rfl]
  by_cases h1 : e < 0
  · rw [if_pos (by simpa using h1), if_pos h1]
  · rw [if_neg (by simpa using h1), if_neg h1]
    by_cases h2 : e = 0
    · rw [if_pos (by simpa using h2), h2]
      congr 1
      rw [← UInt64.toNat_inj, UInt64.toNat_ofNat']
      have := C1.w0.toNat_lt
      simp only [Int.toNat_zero, Nat.pow_zero, Nat.mul_one]
      omega
    · rw [if_neg (by simpa using h2)]
      have hidx : E.toInt = ((e.toNat : Nat) : Int) := by rw [hE]; omega
      obtain ⟨t, ht, tv⟩ := tbl64_ten (UInt64.ofInt (toI E)) (by rw [idx_toNat _ _ hidx]; omega)
      simp only [bind, Except.bind, ht]
      congr 1
      rw [← UInt64.toNat_inj, UInt64.toNat_mul, tv, idx_toNat _ _ hidx, UInt64.toNat_ofNat']

/-- **value block, glued** (non-negative operand, 1 to 20 integer digits, rounded magnitude below `2^64`): only the
digit-removal block remains to be checked -/
theorem value_glue (mode : Mode) (xf : Bool) (c : Nat) (e : Int) (f : UInt32) (C1 : U128) (E : Int32)
    (hC1 : val128 C1 = c) (hE : E.toInt = e) (hc : 0 < c) (hlt : magOf mode false c e < 2^64) (NEG : R)
    (hneg : e < 0 → NEG = .ok (UInt64.ofNat (magOf mode false c e), ixWord f xf (exactOf c e))) :
    valueK C1 E NEG (fun r => .ok (r, f)) = specFin mode xf false c e f := by
  rw [specFin_ok mode xf c e f hlt]
  by_cases he : e < 0
  · have he19 : e ≤ 19 := by omega
    rw [valueK_spec C1 E e hE he19, if_pos he, hneg he]
  · have hm : magOf mode false c e = c * 10 ^ e.toNat := by unfold magOf; rw [if_pos (by omega)]
    have hex : exactOf c e = true := by unfold exactOf; rw [if_pos (by omega)]
    have hpow : 10 ^ e.toNat < 2^64 := by
      rw [hm] at hlt
      exact Nat.lt_of_le_of_lt (Nat.le_mul_of_pos_left _ hc) hlt
    have he19 : e ≤ 19 := by
      by_contra hcon
      have : (10:Nat) ^ 20 ≤ 10 ^ e.toNat := Nat.pow_le_pow_right (by decide) (by omega)
      have : (2:Nat)^64 ≤ 10^20 := by decide
      omega
    have hcw : c < 2^64 := by
      rw [hm] at hlt
      exact Nat.lt_of_le_of_lt (Nat.le_mul_of_pos_right _ (Nat.pow_pos (by decide))) hlt
    have hw : C1.w0.toNat = c := by
      rw [← hC1] at hcw ⊢
      exact (Dec.C17GenNext.val128_word C1 hcw).symm
    rw [valueK_spec C1 E e hE he19, if_neg he, hw, hm, hex]
    unfold ixWord
    simp

/-! ## 5. Digit removal, on numbers -/

/-- with `K·D = 2^E + δ` (`K` the reciprocal of `D` rounded up) and enough slack, the product `Cp·K` has the quotient
`Cp / D` above bit `E` and the fraction bits `(Cp / D)·δ + (Cp mod D)·K` below -/
theorem recipForm (D K E δ Cp : Nat) (hD : 0 < D) (hK : K * D = 2 ^ E + δ) (hb : (Cp / D + 1) * δ < K) :
    Cp * K / 2 ^ E = Cp / D ∧ Cp * K % 2 ^ E = Cp / D * δ + Cp % D * K := by
  have e' := Nat.div_add_mod Cp D
  have hr' := Nat.mod_lt Cp hD
  generalize Cp / D = a' at *
  generalize Cp % D = r' at *
  have hP : Cp * K = 2 ^ E * a' + (a' * δ + r' * K) := by
    calc Cp * K = (D * a' + r') * K := by rw [e']
      _ = a' * (K * D) + r' * K := by rw [Nat.add_mul, Nat.mul_comm D a', Nat.mul_assoc, Nat.mul_comm D K]
      _ = a' * (2 ^ E + δ) + r' * K := by rw [hK]
      _ = 2 ^ E * a' + (a' * δ + r' * K) := by rw [Nat.mul_add, Nat.mul_comm a' (2 ^ E), Nat.add_assoc]
  have hb' : a' * δ + δ < K := by rw [Nat.add_mul, Nat.one_mul] at hb; exact hb
  have hrK : r' * K + K ≤ 2 ^ E + δ := by
    have : (r' + 1) * K ≤ D * K := Nat.mul_le_mul_right K hr'
    rw [Nat.add_mul, Nat.one_mul, Nat.mul_comm D K, hK] at this
    exact this
  have hX : a' * δ + r' * K < 2 ^ E := by omega
  constructor
  · rw [hP, Nat.mul_add_div (Nat.pow_pos (by decide)), Nat.div_eq_of_lt hX, Nat.add_zero]
  · rw [hP, Nat.mul_add_mod, Nat.mod_eq_of_lt hX]

/-- **truncating digit removal, on numbers**: for `1 ≤ x ≤ 34` and `C < 10^35` the product with the tabulated reciprocal has
`C / 10^x` above the split position, and the fraction below exceeds the truncated reciprocal exactly when the removed
digits are not all zero -/
theorem remove_trunc (C x : Nat) (h1 : 1 ≤ x) (h34 : x ≤ 34) (hC : C < 10 ^ 35) :
    C * kT (x - 1) / 2 ^ (128 + shT (x - 1)) = C / 10 ^ x ∧
    (tT (x - 1) < C * kT (x - 1) % 2 ^ (128 + shT (x - 1)) ↔ 0 < C % 10 ^ x) := by
  obtain ⟨r1, r2, r3, -⟩ := row (x - 1) (by omega)
  rw [show x - 1 + 1 = x by omega] at r1 r2
  generalize kT (x - 1) = K at *
  generalize 128 + shT (x - 1) = E at *
  generalize tT (x - 1) = T at *
  have hDpos : 0 < 10 ^ x := Nat.pow_pos (by decide)
  have hKD : K * 10 ^ x = 2 ^ E + (K * 10 ^ x - 2 ^ E) := by omega
  have hb : (C / 10 ^ x + 1) * (K * 10 ^ x - 2 ^ E) < K := by
    have : C / 10 ^ x ≤ 10 ^ 35 / 10 ^ x := Nat.div_le_div_right (Nat.le_of_lt hC)
    calc (C / 10 ^ x + 1) * (K * 10 ^ x - 2 ^ E) ≤ (10 ^ 35 / 10 ^ x + 1) * (K * 10 ^ x - 2 ^ E) :=
          Nat.mul_le_mul_right _ (by omega)
      _ < K := r2
  obtain ⟨hA, hF⟩ := recipForm (10 ^ x) K E (K * 10 ^ x - 2 ^ E) C hDpos hKD hb
  refine ⟨hA, ?_⟩
  rw [hF]
  generalize K * 10 ^ x - 2 ^ E = δ at *
  have hb' : C / 10 ^ x * δ + δ < K := by rw [Nat.add_mul, Nat.one_mul] at hb; exact hb
  generalize C / 10 ^ x * δ = A at *
  by_cases hr : C % 10 ^ x = 0
  · rw [hr, Nat.zero_mul]; omega
  · have : K ≤ C % 10 ^ x * K := Nat.le_mul_of_pos_left K (by omega)
    generalize C % 10 ^ x * K = B at *
    omega

theorem i32_neg (a : Int32) (h1 : -2^31 < a.toInt) : (-a).toInt = -a.toInt := by
  rw [Int32.toInt_neg, bmod32 _ (by have := a.toInt_lt; omega) (by omega)]

/-! ## 6. The routines -/

theorem negT_int_inv {α : Type} (C : U128) (inv k : Except String α) (h : 10 ≤ val128 C) : negT_int C inv k = inv := by
  have := C.w0.toNat_lt
  unfold negT_int
  rw [if_pos]
  rw [u64_bne_zero, u64_ge]
  simp only [Bool.or_eq_true, decide_eq_true_eq, UInt64.toNat_ofNat, val128] at h ⊢
  omega

theorem i32_sum (Q E : Int32) (q : Nat) (e : Int) (hQ : Q.toInt = q) (hE : E.toInt = e) (hq : q ≤ 34) (he1 : -6176 ≤ e)
    (he2 : e ≤ 6111) : (Q + E).toInt = (q : Int) + e := by
  rw [i32_add _ _ (by rw [hQ, hE]; omega) (by rw [hQ, hE]; omega), hQ, hE]

/-- **`bid128_to_uint64_int`** (conversion toward zero, inexact not signalled), all patterns, every status word:
the model's `toIntD .rtz false` for the unsigned 64-bit type -/
theorem to_uint64_int_spec (x : U128) (f : UInt32) : bid128_to_uint64_int x f = specOut .rtz false x f := by
  rw [int_shape]
  apply front_glue .rtz false x f
  intro s C1 Q E c e hs hC1 hc hlt hQ hE he1 he2
  have hq1 := ndigits_pos hc
  have hq34 : ndigits c ≤ 34 := Dec.C17GenNext.ndigits_le_34 hc hlt
  obtain ⟨hlo, hhi⟩ := ndigits_spec hc
  have hsum := i32_sum Q E _ e hQ hE hq34 he1 he2
  show rangeK negT_int t19_int t20_int t19_int ⟨0, 0xa⟩ tBig_ge _ C1 Q E (INV f) _ = _
  rw [rangeK_spec negT_int t19_int t20_int t19_int _ tBig_ge T_int false rangeOK_int negT_int_inv _ s hs C1 Q E (ndigits c) e
    hQ hE he1 he2 hq1 hq34 (by rw [hC1]; exact hlo) (by rw [hC1]; exact hhi), hC1]
  refine range_glue .rtz false s c e f hc _ (fun h20 hr => ?_)
  rw [i32_le, hsum, show (0 : Int32).toInt = 0 from rfl, hs]
  by_cases hsm : (ndigits c : Int) + e ≤ 0
  · -- no integer digit: 0
    rw [if_pos (by simpa using hsm)]
    obtain ⟨hm, hex⟩ := magOf_tiny .rtz s c e hc hsm
    unfold specFin ixWord
    rw [hm, hex]
    simp [roundUp]
  · rw [if_neg (by simpa using hsm)]
    cases s
    · rw [if_neg Bool.false_ne_true]
      have hmlt : magOf .rtz false c e < 2^64 := by
        by_cases h : (ndigits c : Int) + e = 20
        · exact (hr h).2
        · have := magOf_le .rtz false c e 19 hc (by omega)
          have : (10:Nat)^19 < 2^64 := by decide
          omega
      refine value_glue .rtz false c e f C1 E hC1 hE hc hmlt _ (fun he => ?_)
      -- remove −e digits
      have hx : (-E).toInt = (((-e).toNat : Nat) : Int) := by rw [i32_neg _ (by rw [hE]; omega), hE]; omega
      obtain ⟨w, hw, wv⟩ := quotK_spec C1 (-E) (fun r => (.ok (r, f) : R)) (-e).toNat hx (by omega) (by omega)
      obtain ⟨t1, -⟩ := remove_trunc c (-e).toNat (by omega) (by omega) (by simp only [P34] at hlt; omega)
      have hm : magOf .rtz false c e = c / 10 ^ (-e).toNat := by
        unfold magOf; rw [if_neg (by omega)]; simp [roundInt, roundUp]
      rw [hw, hm]
      rw [hC1, t1] at wv
      rw [hm] at hmlt
      unfold ixWord
      simp only [Bool.false_and, Bool.false_eq_true, if_false]
      congr 2
      rw [← UInt64.toNat_inj, wv hmlt, UInt64.toNat_ofNat', Nat.mod_eq_of_lt hmlt]
    · rw [if_pos rfl]
      have := magOf_ge .rtz true c e 0 hc (by omega)
      rw [specFin_inv .rtz false true c e f (by omega) (Or.inl rfl)]

/-! ### the fraction tests of the directed copies -/

theorem u64_sub_toNat (a b : UInt64) (h : b.toNat ≤ a.toNat) : (a - b).toNat = a.toNat - b.toNat := by
  have := a.toNat_lt
  rw [UInt64.toNat_sub]; omega

theorem ite_tt (c d : Bool) : (if c = true then true else d) = (c || d) := by cases c <;> rfl
theorem ite_ff (c d : Bool) : (if c = true then d else false) = (c && d) := by cases c <;> rfl

/-- turn a Boolean combination of word comparisons into a statement about numbers -/
macro "words_omega" : tactic => `(tactic| (
  rw [Bool.eq_iff_iff, decide_eq_true_iff]
  simp only [Bool.or_eq_true, Bool.and_eq_true, decide_eq_true_eq, beq_iff_eq, bne_iff_ne, ne_eq, gt_iff_lt, ge_iff_le,
    UInt64.lt_iff_toNat_lt, UInt64.le_iff_toNat_le, ← UInt64.toNat_inj, UInt64.toNat_ofNat, UInt64.toNat_zero] at *
  omega))

/-- **"the removed digits are not all zero"**: the three texts of the test all decide `T_x < fraction` -/
theorem fracGtK_spec {α : Type} (fs : U256) (ind : Int32) (g : Bool → Bool) (kY kN : Except String α) (x : Nat)
    (hx : ind.toInt = x) (h1 : 1 ≤ x) (h34 : x ≤ 34) (hlt : val256 fs < 2 ^ (128 + shT (x - 1))) :
    fracGtK fs ind g kY kN = if g (decide (tT (x - 1) < val256 fs)) = true then kY else kN := by
  obtain ⟨-, -, hT1, hK, -, -, ht0, ht1, -, -, -, hrange, -⟩ := row (x - 1) (by omega)
  have hk := idx_sub ind 1 x 1 hx rfl h1 (by omega)
  have d1 : (ind - 1).toInt = ((x - 1 : Nat) : Int) := by
    rw [i32_sub _ _ (by rw [hx]; show (-2^31 : Int) ≤ x - 1; omega) (by rw [hx]; show (x : Int) - 1 < 2^31; omega), hx]
    show (x : Int) - 1 = _; omega
  have hTlt : tT (x - 1) < 2^128 := by omega
  have hTr := tbl128_get _ (UInt64.ofInt (toI (ind - 1))) _ _ (by rw [hk]; exact ht0) (by rw [hk]; exact ht1)
  have b0 := fs.w0.toNat_lt; have b1 := fs.w1.toNat_lt; have b2 := fs.w2.toNat_lt; have b3 := fs.w3.toNat_lt
  simp only [fracGtK, bind, Except.bind, pure, Except.pure, hTr, ite_ok, ite_tt, ite_ff]
  clear hTr ht0 ht1 hT1 hK
  generalize hF : val256 fs = F at *
  generalize hTv : tT (x - 1) = T at *
  have tv0 : (UInt64.ofNat (T % 2^64)).toNat = T % 2^64 := by rw [UInt64.toNat_ofNat', Nat.mod_mod]
  have tv1 : (UInt64.ofNat (T / 2^64)).toNat = T / 2^64 := by rw [UInt64.toNat_ofNat', Nat.mod_eq_of_lt (by omega)]
  generalize UInt64.ofNat (T % 2^64) = t0 at *
  generalize UInt64.ofNat (T / 2^64) = t1 at *
  have ht01 : T = t1.toNat * 2^64 + t0.toNat := by omega
  unfold val256 at hF
  by_cases c1 : x - 1 ≤ 2
  · have c1' : decide (ind - 1 ≤ 2) = true := by
      rw [decide_eq_true_eq, Int32.le_iff_toInt_le, d1]; show ((x - 1 : Nat) : Int) ≤ 2; omega
    rw [if_pos c1']
    rw [if_pos c1] at hrange
    rw [hrange] at hlt
    have h32 : fs.w3.toNat = 0 ∧ fs.w2.toNat = 0 := by omega
    have e : (decide (fs.w1 > t1) || fs.w1 == t1 && decide (fs.w0 > t0)) = decide (T < F) := by words_omega
    rw [e]
  · have c1' : ¬ decide (ind - 1 ≤ 2) = true := by
      rw [decide_eq_true_eq, Int32.le_iff_toInt_le, d1]; show ¬ ((x - 1 : Nat) : Int) ≤ 2; omega
    rw [if_neg c1']
    rw [if_neg c1] at hrange
    by_cases c2 : x - 1 ≤ 21
    · have c2' : decide (ind - 1 ≤ 21) = true := by
        rw [decide_eq_true_eq, Int32.le_iff_toInt_le, d1]; show ((x - 1 : Nat) : Int) ≤ 21; omega
      rw [if_pos c2']
      rw [if_pos c2] at hrange
      have h3 : fs.w3.toNat = 0 := by
        have : 2 ^ (128 + shT (x - 1)) ≤ 2 ^ 191 := Nat.pow_le_pow_right (by decide) (by omega)
        omega
      have e : (fs.w2 != 0 || decide (fs.w1 > t1) || fs.w1 == t1 && decide (fs.w0 > t0)) = decide (T < F) := by words_omega
      rw [e]
    · have c2' : ¬ decide (ind - 1 ≤ 21) = true := by
        rw [decide_eq_true_eq, Int32.le_iff_toInt_le, d1]; show ¬ ((x - 1 : Nat) : Int) ≤ 21; omega
      rw [if_neg c2']
      have e : (fs.w3 != 0 || fs.w2 != 0 || decide (fs.w1 > t1) || fs.w1 == t1 && decide (fs.w0 > t0)) = decide (T < F) := by
        words_omega
      rw [e]


/-- **directed digit removal**: the quotient `C / 10^x` (when it fits a word) and the answer to "are the removed digits
not all zero" -/
theorem dirK_spec {α : Type} (C1 : U128) (ind : Int32) (g : Bool → Bool) (KY KN : U128 → Except String α) (x : Nat)
    (hx : ind.toInt = x) (h1 : 1 ≤ x) (h34 : x ≤ 34) (hC : val128 C1 < 10 ^ 35) :
    ∃ Cs : U128, splitK C1 ind (fun Cs fs => fracGtK fs ind g (KY Cs) (KN Cs)) =
        (if g (decide (0 < val128 C1 % 10 ^ x)) = true then KY Cs else KN Cs) ∧
      (val128 C1 / 10 ^ x < 2^64 → Cs.w0.toNat = val128 C1 / 10 ^ x) := by
  obtain ⟨Cs, fs, e1, qv, fv⟩ := splitK_spec C1 ind (fun Cs fs => fracGtK fs ind g (KY Cs) (KN Cs)) x hx h1 h34
  obtain ⟨t1, t2⟩ := remove_trunc (val128 C1) x h1 h34 hC
  refine ⟨Cs, ?_, ?_⟩
  · rw [e1, fracGtK_spec fs ind g _ _ x hx h1 h34 (by rw [fv]; exact Nat.mod_lt _ (Nat.pow_pos (by decide))), fv,
      decide_eq_decide.2 t2]
  · rw [t1] at qv; exact qv

/-- the expected outcome with no integer digit -/
theorem small_spec (mode : Mode) (xf s : Bool) (c : Nat) (e : Int) (f : UInt32) (hc : 0 < c)
    (hsm : (ndigits c : Int) + e ≤ 0) :
    specFin mode xf s c e f =
      if roundUp mode s false c (10 ^ (-e).toNat) = true then (if s = true then INV f else .ok (1, ixWord f xf false))
      else .ok (0, ixWord f xf false) := by
  obtain ⟨hm, hex⟩ := magOf_tiny mode s c e hc hsm
  unfold specFin
  rw [hm, hex]
  split
  · cases s
    · rw [if_pos (Or.inr ⟨rfl, by decide⟩), if_neg Bool.false_ne_true]; rfl
    · rw [if_neg (by simp), if_pos rfl]
  · rw [if_pos (Or.inl rfl)]; rfl

/-- the part of a directed copy after the range test, for a non-negative operand -/
theorem rest_pos (mode : Mode) (xf : Bool) (c : Nat) (e : Int) (f : UInt32) (C1 : U128) (Q E : Int32)
    (hC1 : val128 C1 = c) (hQ : Q.toInt = (ndigits c : Int)) (hE : E.toInt = e) (he1 : -6176 ≤ e) (he2 : e ≤ 6111)
    (hc : 0 < c) (hlt : c < P34)
    (h20 : (ndigits c : Int) + e ≤ 20) (hr : (ndigits c : Int) + e = 20 → magOf mode false c e < 2^64)
    (SMALL NEGB : R)
    (hsmall : (ndigits c : Int) + e ≤ 0 → SMALL = specFin mode xf false c e f)
    (hnegb : e < 0 → 1 ≤ (ndigits c : Int) + e → magOf mode false c e < 2^64 →
      NEGB = .ok (UInt64.ofNat (magOf mode false c e), ixWord f xf (exactOf c e))) :
    (if decide (Q + E ≤ (0 : Int32)) = true then SMALL else valueK C1 E NEGB (fun r => .ok (r, f))) =
      specFin mode xf false c e f := by
  have hq34 : ndigits c ≤ 34 := Dec.C17GenNext.ndigits_le_34 hc hlt
  have hsum := i32_sum Q E _ e hQ hE hq34 he1 he2
  rw [i32_le, hsum, show (0 : Int32).toInt = 0 from rfl]
  by_cases hsm : (ndigits c : Int) + e ≤ 0
  · rw [if_pos (by simpa using hsm)]; exact hsmall hsm
  · rw [if_neg (by simpa using hsm)]
    have hmlt : magOf mode false c e < 2^64 := by
      by_cases h : (ndigits c : Int) + e = 20
      · exact hr h
      · have := magOf_le mode false c e 19 hc (by omega)
        have : (10:Nat)^19 < 2^64 := by decide
        omega
    exact value_glue mode xf c e f C1 E hC1 hE hc hmlt _ (fun he => hnegb he (by omega) hmlt)

/-- the part of a directed copy after the range test, either sign (negative operands with an integer digit are invalid) -/
theorem rest_any (mode : Mode) (xf s : Bool) (c : Nat) (e : Int) (f : UInt32) (xs : UInt64) (hs : (xs != 0) = s)
    (C1 : U128) (Q E : Int32)
    (hC1 : val128 C1 = c) (hQ : Q.toInt = (ndigits c : Int)) (hE : E.toInt = e) (he1 : -6176 ≤ e) (he2 : e ≤ 6111)
    (hc : 0 < c) (hlt : c < P34)
    (h20 : (ndigits c : Int) + e ≤ 20) (hr : (ndigits c : Int) + e = 20 → s = false ∧ magOf mode false c e < 2^64)
    (SMALL NEGB : R)
    (hsmall : (ndigits c : Int) + e ≤ 0 → SMALL = specFin mode xf s c e f)
    (hnegb : s = false → e < 0 → 1 ≤ (ndigits c : Int) + e → magOf mode false c e < 2^64 →
      NEGB = .ok (UInt64.ofNat (magOf mode false c e), ixWord f xf (exactOf c e))) :
    (if decide (Q + E ≤ (0 : Int32)) = true then SMALL
      else if (xs != 0) = true then INV f else valueK C1 E NEGB (fun r => .ok (r, f))) =
      specFin mode xf s c e f := by
  cases s
  · rw [hs, if_neg Bool.false_ne_true]
    exact rest_pos mode xf c e f C1 Q E hC1 hQ hE he1 he2 hc hlt h20 (fun h => (hr h).2) SMALL NEGB hsmall (hnegb rfl)
  · have hq34 : ndigits c ≤ 34 := Dec.C17GenNext.ndigits_le_34 hc hlt
    have hsum := i32_sum Q E _ e hQ hE hq34 he1 he2
    rw [i32_le, hsum, show (0 : Int32).toInt = 0 from rfl, hs, if_pos rfl]
    by_cases hsm : (ndigits c : Int) + e ≤ 0
    · rw [if_pos (by simpa using hsm)]; exact hsmall hsm
    · rw [if_neg (by simpa using hsm)]
      have := magOf_ge mode true c e 0 hc (by omega)
      rw [specFin_inv mode xf true c e f (by omega) (Or.inl rfl)]


/-! ### the magnitudes of the directed roundings of a non-negative operand with a negative exponent -/

theorem mag_trunc (mode : Mode) (hm : mode = .rtz ∨ mode = .rdn) (c : Nat) (e : Int) (he : e < 0) :
    magOf mode false c e = c / 10 ^ (-e).toNat := by
  unfold magOf
  rw [if_neg (by omega)]
  rcases hm with rfl | rfl <;> simp [roundInt, roundUp]

theorem mag_up (c : Nat) (e : Int) (he : e < 0) :
    magOf .rup false c e = if 0 < c % 10 ^ (-e).toNat then c / 10 ^ (-e).toNat + 1 else c / 10 ^ (-e).toNat := by
  unfold magOf
  rw [if_neg (by omega)]
  by_cases h : c % 10 ^ (-e).toNat = 0
  · simp [roundInt, roundUp, h]
  · simp [roundInt, roundUp, h, Nat.pos_of_ne_zero h]

theorem exact_neg (c : Nat) (e : Int) (he : e < 0) : exactOf c e = !decide (0 < c % 10 ^ (-e).toNat) := by
  unfold exactOf
  rw [if_neg (by omega)]
  by_cases h : c % 10 ^ (-e).toNat = 0
  · simp [h]
  · simp [h, Nat.pos_of_ne_zero h]

theorem ofNat_of_toNat (w : UInt64) (n : Nat) (h : w.toNat = n) : w = UInt64.ofNat n := by
  rw [← h, UInt64.ofNat_toNat]

theorem negx (E : Int32) (e : Int) (hE : E.toInt = e) (he1 : -6176 ≤ e) (he : e < 0) :
    (-E).toInt = (((-e).toNat : Nat) : Int) := by
  rw [i32_neg _ (by rw [hE]; omega), hE]; omega

/-- the quotient block of the copies that do not look at the fraction delivers the truncated magnitude -/
theorem quot_out (mode : Mode) (hm : mode = .rtz ∨ mode = .rdn) (c : Nat) (e : Int) (f : UInt32) (C1 : U128) (E : Int32)
    (hC1 : val128 C1 = c) (hE : E.toInt = e) (he1 : -6176 ≤ e) (hlt : c < P34)
    (he : e < 0) (hq : 1 ≤ (ndigits c : Int) + e) (hmlt : magOf mode false c e < 2^64) :
    quotK C1 (-E) (fun r => (.ok (r, f) : R)) = .ok (UInt64.ofNat (magOf mode false c e), ixWord f false (exactOf c e)) := by
  have hq34 : ndigits c ≤ 34 := by
    by_cases hc : c = 0
    · subst hc; rw [ndigits_zero]; omega
    · exact Dec.C17GenNext.ndigits_le_34 (Nat.pos_of_ne_zero hc) hlt
  obtain ⟨w, hw, wv⟩ := quotK_spec C1 (-E) (fun r => (.ok (r, f) : R)) (-e).toNat (negx E e hE he1 he) (by omega) (by omega)
  obtain ⟨t1, -⟩ := remove_trunc c (-e).toNat (by omega) (by omega) (by simp only [P34] at hlt; omega)
  rw [mag_trunc mode hm c e he] at hmlt ⊢
  rw [hC1, t1] at wv
  rw [hw, ofNat_of_toNat w _ (wv hmlt)]
  rfl

/-- the directed removal with the inexact flag (`xint`, `xfloor`) -/
theorem dir_out_x (mode : Mode) (hm : mode = .rtz ∨ mode = .rdn) (c : Nat) (e : Int) (f : UInt32) (C1 : U128) (E : Int32)
    (hC1 : val128 C1 = c) (hE : E.toInt = e) (he1 : -6176 ≤ e) (hlt : c < P34)
    (he : e < 0) (hq : 1 ≤ (ndigits c : Int) + e) (hmlt : magOf mode false c e < 2^64) :
    splitK C1 (-E) (fun Cs fs => fracGtK fs (-E) (fun b => b) (.ok (Cs.w0, IX f) : R) (.ok (Cs.w0, f))) =
      .ok (UInt64.ofNat (magOf mode false c e), ixWord f true (exactOf c e)) := by
  have hq34 : ndigits c ≤ 34 := by
    by_cases hc : c = 0
    · subst hc; rw [ndigits_zero]; omega
    · exact Dec.C17GenNext.ndigits_le_34 (Nat.pos_of_ne_zero hc) hlt
  obtain ⟨Cs, h1, h2⟩ := dirK_spec C1 (-E) (fun b => b) (fun Cs => (.ok (Cs.w0, IX f) : R)) (fun Cs => .ok (Cs.w0, f))
    (-e).toNat (negx E e hE he1 he) (by omega) (by omega) (by rw [hC1]; simp only [P34] at hlt; omega)
  rw [mag_trunc mode hm c e he] at hmlt ⊢
  rw [hC1] at h1 h2
  rw [h1, exact_neg c e he, ofNat_of_toNat Cs.w0 _ (h2 hmlt)]
  unfold ixWord
  by_cases hr : 0 < c % 10 ^ (-e).toNat
  · simp [hr]
  · simp [hr]

theorem inc_out (w : UInt64) (n : Nat) (hw : w.toNat = n) (hn : n + 1 < 2^64) (f : UInt32) :
    incK w (fun r => (.ok (r, f) : R)) = .ok (UInt64.ofNat (n + 1), f) := by
  unfold incK
  have : w + 1 = UInt64.ofNat (n + 1) := by
    apply ofNat_of_toNat
    rw [UInt64.toNat_add, hw, UInt64.toNat_one]; omega
  rw [this]; split <;> rfl

/-- the upward removal (`ceil`, and `xceil` with the inexact flag) -/
theorem dir_out_up (xf : Bool) (c : Nat) (e : Int) (f : UInt32) (C1 : U128) (E : Int32) (xs : UInt64) (hs : (xs != 0) = false)
    (hC1 : val128 C1 = c) (hE : E.toInt = e) (he1 : -6176 ≤ e) (hlt : c < P34)
    (he : e < 0) (hq : 1 ≤ (ndigits c : Int) + e) (hmlt : magOf .rup false c e < 2^64) (g : Bool → Bool) (KY KN : U128 → R)
    (hg : ∀ b, g b = b)
    (hY : ∀ Cs : U128, KY Cs = incK Cs.w0 (fun r => .ok (r, if xf = true then IX f else f)))
    (hN : ∀ Cs : U128, KN Cs = .ok (Cs.w0, f)) :
    splitK C1 (-E) (fun Cs fs => fracGtK fs (-E) g (KY Cs) (KN Cs)) =
      .ok (UInt64.ofNat (magOf .rup false c e), ixWord f xf (exactOf c e)) := by
  have hq34 : ndigits c ≤ 34 := by
    by_cases hc : c = 0
    · subst hc; rw [ndigits_zero]; omega
    · exact Dec.C17GenNext.ndigits_le_34 (Nat.pos_of_ne_zero hc) hlt
  obtain ⟨Cs, h1, h2⟩ := dirK_spec C1 (-E) g KY KN
    (-e).toNat (negx E e hE he1 he) (by omega) (by omega) (by rw [hC1]; simp only [P34] at hlt; omega)
  rw [mag_up c e he] at hmlt ⊢
  rw [hC1] at h1 h2
  rw [h1, hg, exact_neg c e he]
  unfold ixWord
  by_cases hr : 0 < c % 10 ^ (-e).toNat
  · rw [if_pos hr] at hmlt
    rw [if_pos (by simpa using hr), if_pos hr, hY, inc_out Cs.w0 _ (h2 (by omega)) hmlt]
    cases xf <;> simp [hr]
  · rw [if_neg hr] at hmlt
    rw [if_neg (by simpa using hr), if_neg hr, hN, ofNat_of_toNat Cs.w0 _ (h2 hmlt)]
    cases xf <;> simp [hr]


theorem negT_any_inv {α : Type} (negT : Tst α) (h : negT = negT_int ∨ negT = negT_rn ∨ negT = negT_rna)
    (C : U128) (inv k : Except String α) (hC : 10 ≤ val128 C) : negT C inv k = inv := by
  have := C.w0.toNat_lt
  rcases h with rfl | rfl | rfl
  · exact negT_int_inv C inv k hC
  · unfold negT_rn
    rw [if_pos]
    rw [u64_bne_zero, u64_gt]
    simp only [Bool.or_eq_true, decide_eq_true_eq, UInt64.toNat_ofNat, val128] at hC ⊢
    omega
  · unfold negT_rna
    rw [if_pos]
    rw [u64_bne_zero, u64_ge]
    simp only [Bool.or_eq_true, decide_eq_true_eq, UInt64.toNat_ofNat, val128] at hC ⊢
    omega

theorem small_rtz (xf s : Bool) (c : Nat) (e : Int) (f : UInt32) (hc : 0 < c) (hsm : (ndigits c : Int) + e ≤ 0) :
    specFin .rtz xf s c e f = .ok (0, if xf = true then IX f else f) := by
  rw [small_spec .rtz xf s c e f hc hsm]
  cases xf <;> simp [roundUp, ixWord]

theorem small_rdn (xf : Bool) (c : Nat) (e : Int) (f : UInt32) (hc : 0 < c) (hsm : (ndigits c : Int) + e ≤ 0) :
    specFin .rdn xf false c e f = .ok (0, if xf = true then IX f else f) := by
  rw [small_spec .rdn xf false c e f hc hsm]
  cases xf <;> simp [roundUp, ixWord]

theorem small_rup (xf s : Bool) (c : Nat) (e : Int) (f : UInt32) (hc : 0 < c) (hsm : (ndigits c : Int) + e ≤ 0) :
    specFin .rup xf s c e f = .ok (if s = true then 0 else 1, if xf = true then IX f else f) := by
  rw [small_spec .rup xf s c e f hc hsm]
  have : c ≠ 0 := by omega
  cases xf <;> cases s <;> simp [roundUp, ixWord, this]

/-- a negative non-zero operand rounds downward to at most −1: invalid -/
theorem rdn_neg (xf : Bool) (c : Nat) (e : Int) (f : UInt32) (hc : 0 < c) : specFin .rdn xf true c e f = INV f := by
  apply specFin_inv _ _ _ _ _ _ _ (Or.inl rfl)
  unfold magOf
  split
  · exact Nat.ne_of_gt (Nat.mul_pos hc (Nat.pow_pos (by decide)))
  · unfold roundInt roundUp
    by_cases hr : c % 10 ^ (-e).toNat = 0
    · simp only [hr, if_true, Bool.false_eq_true, if_false]
      have hd := Nat.div_add_mod c (10 ^ (-e).toNat)
      rw [hr, Nat.add_zero] at hd
      intro h0; rw [h0, Nat.mul_zero] at hd; omega
    · simp [hr]

/-- **`bid128_to_uint64_xint`** (toward zero, inexact signalled) -/
theorem to_uint64_xint_spec (x : U128) (f : UInt32) : bid128_to_uint64_xint x f = specOut .rtz true x f := by
  rw [xint_shape]
  apply front_glue .rtz true x f
  intro s C1 Q E c e hs hC1 hc hlt hQ hE he1 he2
  have hq1 := ndigits_pos hc
  have hq34 : ndigits c ≤ 34 := Dec.C17GenNext.ndigits_le_34 hc hlt
  obtain ⟨hlo, hhi⟩ := ndigits_spec hc
  show rangeK negT_int t19_int t20_int t19_int ⟨0, 0xa⟩ tBig_ge _ C1 Q E (INV f) _ = _
  rw [rangeK_spec negT_int t19_int t20_int t19_int _ tBig_ge T_int false rangeOK_int negT_int_inv _ s hs C1 Q E (ndigits c) e
    hQ hE he1 he2 hq1 hq34 (by rw [hC1]; exact hlo) (by rw [hC1]; exact hhi), hC1]
  refine range_glue .rtz true s c e f hc _ (fun h20 hr => ?_)
  refine rest_any .rtz true s c e f _ hs C1 Q E hC1 hQ hE he1 he2 hc hlt h20 hr _ _ (fun hsm => ?_) (fun _ he hq hm => ?_)
  · rw [small_rtz true s c e f hc hsm]; rfl
  · exact dir_out_x .rtz (Or.inl rfl) c e f C1 E hC1 hE he1 hlt he hq hm

/-- **`bid128_to_uint64_floor`** (toward −∞) -/
theorem to_uint64_floor_spec (x : U128) (f : UInt32) : bid128_to_uint64_floor x f = specOut .rdn false x f := by
  rw [floor_shape]
  apply front_glue .rdn false x f
  intro s C1 Q E c e hs hC1 hc hlt hQ hE he1 he2
  have hq1 := ndigits_pos hc
  have hq34 : ndigits c ≤ 34 := Dec.C17GenNext.ndigits_le_34 hc hlt
  obtain ⟨hlo, hhi⟩ := ndigits_spec hc
  show (if (x.w1 &&& c_MASK_SIGN != 0) = true then INV f else rangeFK t19_int t20_int t19_int ⟨0, 0xa⟩ tBig_ge C1 Q E (INV f) _) = _
  rw [hs]
  cases s
  · rw [if_neg Bool.false_ne_true,
      rangeFK_spec t19_int t20_int t19_int _ tBig_ge T_int false rangeOK_int C1 Q E (ndigits c) e
      hQ hE he1 he2 hq1 hq34 (by rw [hC1]; exact hhi), hC1]
    have := range_glue .rdn false false c e f hc
    simp only [Bool.false_eq_true, if_false] at this
    refine this _ (fun h20 hr => ?_)
    refine rest_pos .rdn false c e f C1 Q E hC1 hQ hE he1 he2 hc hlt h20 (fun h => (hr h).2) _ _ (fun hsm => ?_)
      (fun he hq hm => ?_)
    · rw [small_rdn false c e f hc hsm]; rfl
    · exact quot_out .rdn (Or.inr rfl) c e f C1 E hC1 hE he1 hlt he hq hm
  · rw [if_pos rfl, rdn_neg false c e f hc]

/-- **`bid128_to_uint64_xfloor`** (toward −∞, inexact signalled) -/
theorem to_uint64_xfloor_spec (x : U128) (f : UInt32) : bid128_to_uint64_xfloor x f = specOut .rdn true x f := by
  rw [xfloor_shape]
  apply front_glue .rdn true x f
  intro s C1 Q E c e hs hC1 hc hlt hQ hE he1 he2
  have hq1 := ndigits_pos hc
  have hq34 : ndigits c ≤ 34 := Dec.C17GenNext.ndigits_le_34 hc hlt
  obtain ⟨hlo, hhi⟩ := ndigits_spec hc
  show (if (x.w1 &&& c_MASK_SIGN != 0) = true then INV f else rangeFK t19_int t20_int t19_int ⟨0, 0xa⟩ tBig_ge C1 Q E (INV f) _) = _
  rw [hs]
  cases s
  · rw [if_neg Bool.false_ne_true,
      rangeFK_spec t19_int t20_int t19_int _ tBig_ge T_int false rangeOK_int C1 Q E (ndigits c) e
      hQ hE he1 he2 hq1 hq34 (by rw [hC1]; exact hhi), hC1]
    have := range_glue .rdn true false c e f hc
    simp only [Bool.false_eq_true, if_false] at this
    refine this _ (fun h20 hr => ?_)
    refine rest_pos .rdn true c e f C1 Q E hC1 hQ hE he1 he2 hc hlt h20 (fun h => (hr h).2) _ _ (fun hsm => ?_)
      (fun he hq hm => ?_)
    · rw [small_rdn true c e f hc hsm]; rfl
    · exact dir_out_x .rdn (Or.inr rfl) c e f C1 E hC1 hE he1 hlt he hq hm
  · rw [if_pos rfl, rdn_neg true c e f hc]

/-- **`bid128_to_uint64_ceil`** (toward +∞) -/
theorem to_uint64_ceil_spec (x : U128) (f : UInt32) : bid128_to_uint64_ceil x f = specOut .rup false x f := by
  rw [ceil_shape]
  apply front_glue .rup false x f
  intro s C1 Q E c e hs hC1 hc hlt hQ hE he1 he2
  have hq1 := ndigits_pos hc
  have hq34 : ndigits c ≤ 34 := Dec.C17GenNext.ndigits_le_34 hc hlt
  obtain ⟨hlo, hhi⟩ := ndigits_spec hc
  show rangeK negT_int t19_ceil t20_ceil t19_ceil ⟨0xfffffffffffffff6, 9⟩ tBig_gt _ C1 Q E (INV f) _ = _
  rw [rangeK_spec negT_int t19_ceil t20_ceil t19_ceil _ tBig_gt T_ceil true rangeOK_ceil negT_int_inv _ s hs C1 Q E (ndigits c) e
    hQ hE he1 he2 hq1 hq34 (by rw [hC1]; exact hlo) (by rw [hC1]; exact hhi), hC1]
  refine range_glue .rup false s c e f hc _ (fun h20 hr => ?_)
  refine rest_any .rup false s c e f _ hs C1 Q E hC1 hQ hE he1 he2 hc hlt h20 hr _ _ (fun hsm => ?_) (fun hs0 he hq hm => ?_)
  · rw [small_rup false s c e f hc hsm, hs]; rfl
  · subst hs0
    have hbeq : (x.w1 &&& c_MASK_SIGN == 0) = true := by
      rw [bne, Bool.not_eq_false'] at hs; exact hs
    exact dir_out_up false c e f C1 E _ hs hC1 hE he1 hlt he hq hm _ _ _ (fun b => by rw [hbeq, Bool.and_true])
      (fun Cs => rfl) (fun Cs => rfl)

/-- **`bid128_to_uint64_xceil`** (toward +∞, inexact signalled) -/
theorem to_uint64_xceil_spec (x : U128) (f : UInt32) : bid128_to_uint64_xceil x f = specOut .rup true x f := by
  rw [xceil_shape]
  apply front_glue .rup true x f
  intro s C1 Q E c e hs hC1 hc hlt hQ hE he1 he2
  have hq1 := ndigits_pos hc
  have hq34 : ndigits c ≤ 34 := Dec.C17GenNext.ndigits_le_34 hc hlt
  obtain ⟨hlo, hhi⟩ := ndigits_spec hc
  show rangeK negT_int t19_ceil t20_ceil t19_ceil ⟨0xfffffffffffffff6, 9⟩ tBig_gt _ C1 Q E (INV f) _ = _
  rw [rangeK_spec negT_int t19_ceil t20_ceil t19_ceil _ tBig_gt T_ceil true rangeOK_ceil negT_int_inv _ s hs C1 Q E (ndigits c) e
    hQ hE he1 he2 hq1 hq34 (by rw [hC1]; exact hlo) (by rw [hC1]; exact hhi), hC1]
  refine range_glue .rup true s c e f hc _ (fun h20 hr => ?_)
  refine rest_any .rup true s c e f _ hs C1 Q E hC1 hQ hE he1 he2 hc hlt h20 hr _ _ (fun hsm => ?_) (fun hs0 he hq hm => ?_)
  · rw [small_rup true s c e f hc hsm, hs]; rfl
  · subst hs0
    have hbeq : (x.w1 &&& c_MASK_SIGN == 0) = true := by
      rw [bne, Bool.not_eq_false'] at hs; exact hs
    exact dir_out_up true c e f C1 E _ hs hC1 hE he1 hlt he hq hm _ _ _ (fun b => rfl)
      (fun Cs => by rw [hbeq]; rfl) (fun Cs => rfl)

/-! ## 7. The blocks of the copies that round to nearest -/

/-- comparison with the midpoint, `≤` or `<` -/
def cmpM (strict : Bool) (a b : Nat) : Prop := if strict = true then a < b else a ≤ b

instance (strict : Bool) (a b : Nat) : Decidable (cmpM strict a b) := by unfold cmpM; infer_instance

/-- **0.1 ≤ |x| < 1**: the block compares the coefficient with the midpoint `5·10^(q−1)` -/
theorem halfK_spec {α : Type} (le : UInt64 → UInt64 → Bool) (strict : Bool)
    (hle : ∀ a b, le a b = decide (cmpM strict a.toNat b.toNat)) (C1 : U128) (Q : Int32) (q : Nat)
    (hQ : Q.toInt = q) (hq1 : 1 ≤ q) (hq34 : q ≤ 34) (kLow kHigh : Except String α) :
    halfK le C1 Q kLow kHigh = if cmpM strict (val128 C1) (5 * 10 ^ (q - 1)) then kLow else kHigh := by
  obtain ⟨-, -, -, -, -, -, -, -, -, -, -, -, hmid⟩ := row (q - 1) (by omega)
  have hl := C1.w0.toNat_lt
  have d1 : (Q - 1).toInt = ((q - 1 : Nat) : Int) := by
    rw [i32_sub _ _ (by rw [hQ]; show (-2^31 : Int) ≤ q - 1; omega) (by rw [hQ]; show (q : Int) - 1 < 2^31; omega), hQ]
    show (q : Int) - 1 = _; omega
  simp only [halfK, bind, Except.bind, pure, Except.pure]
  rw [i32_le, d1, show (0x12 : Int32).toInt = 18 from rfl]
  generalize hM : 5 * 10 ^ (q - 1) = M at *
  by_cases c : q - 1 ≤ 18
  · rw [if_pos (by simp only [decide_eq_true_eq]; omega)]
    rw [if_pos (by omega)] at hmid
    have hk : (UInt64.ofInt (toI (Q - 1))).toNat = q - 1 := idx_toNat _ _ d1
    rw [tbl64_get _ _ _ (by rw [hk]; exact hmid)]
    have hMlt : M < 2^64 := by
      rw [← hM]
      calc 5 * 10 ^ (q - 1) ≤ 5 * 10 ^ 18 := Nat.mul_le_mul_left 5 (Nat.pow_le_pow_right (by decide) c)
        _ < 2^64 := by decide
    have hMv : (UInt64.ofNat M).toNat = M := by rw [UInt64.toNat_ofNat', Nat.mod_eq_of_lt hMlt]
    have e : (if (C1.w1 == 0) = true then (Except.ok (le C1.w0 (UInt64.ofNat M)) : Except String Bool) else Except.ok false)
        = .ok (decide (cmpM strict (val128 C1) M)) := by
      rw [ite_ok, hle, hMv, u64_beq_zero]
      congr 1
      rw [Bool.eq_iff_iff]
      unfold cmpM val128
      by_cases a0 : C1.w1.toNat = 0
      · rw [if_pos (by simpa using a0)]
        cases strict <;> simp <;> omega
      · rw [if_neg (by simpa using a0)]
        cases strict <;> simp <;> omega
    simp only [e, decide_eq_true_eq]
  · rw [if_neg (by simp only [decide_eq_true_eq]; omega)]
    rw [if_neg (by omega), show q - 1 - 19 = q - 20 by omega] at hmid
    have d2 : (Q - 1 - 0x13).toInt = ((q - 20 : Nat) : Int) := by
      rw [i32_sub _ _ (by rw [d1]; show (-2^31 : Int) ≤ ((q - 1 : Nat) : Int) - 19; omega)
        (by rw [d1]; show ((q - 1 : Nat) : Int) - 19 < 2^31; omega), d1]
      show ((q - 1 : Nat) : Int) - 19 = _; omega
    have hk : (UInt64.ofInt (toI (Q - 1 - 0x13))).toNat = q - 20 := idx_toNat _ _ d2
    rw [tbl128_get _ _ _ _ (by rw [hk]; exact hmid.1) (by rw [hk]; exact hmid.2)]
    have hMlt : M < 2^128 := by
      rw [← hM]
      calc 5 * 10 ^ (q - 1) ≤ 5 * 10 ^ 33 := Nat.mul_le_mul_left 5 (Nat.pow_le_pow_right (by decide) (by omega))
        _ < 2^128 := by decide
    have m0 : (UInt64.ofNat (M % 2^64)).toNat = M % 2^64 := by rw [UInt64.toNat_ofNat', Nat.mod_mod]
    have m1 : (UInt64.ofNat (M / 2^64)).toNat = M / 2^64 := by rw [UInt64.toNat_ofNat', Nat.mod_eq_of_lt (by omega)]
    simp only []
    have e : (if C1.w1 < UInt64.ofNat (M / 2^64) then (Except.ok true : Except String Bool)
        else if (C1.w1 == UInt64.ofNat (M / 2^64)) = true then Except.ok (le C1.w0 (UInt64.ofNat (M % 2^64))) else Except.ok false)
        = .ok (decide (cmpM strict (val128 C1) M)) := by
      rw [ite_ok, ite_ok, hle, m0]
      congr 1
      rw [Bool.eq_iff_iff]
      unfold cmpM val128
      by_cases a1 : C1.w1.toNat < M / 2^64
      · rw [if_pos (by rw [UInt64.lt_iff_toNat_lt, m1]; exact a1)]
        cases strict <;> simp <;> omega
      · rw [if_neg (by rw [UInt64.lt_iff_toNat_lt, m1]; exact a1)]
        by_cases a2 : C1.w1.toNat = M / 2^64
        · rw [if_pos (by rw [beq_iff_eq, ← UInt64.toNat_inj, m1]; exact a2)]
          cases strict <;> simp <;> omega
        · rw [if_neg (by rw [beq_iff_eq, ← UInt64.toNat_inj, m1]; exact a2)]
          cases strict <;> simp <;> omega
    simp only [e, decide_eq_true_eq]


/-! ### adding the midpoint, splitting, and the fraction tests of the nearest copies (as in `C06GenToInt`) -/

/-- **fraction tests, on numbers.**  `D = 2h = 10^x`, `K·D = 2^E + δ`, `0 < δ`, enough slack; `a = C / D`, `r = C mod D`.
With `A` the bits of `(C + h)·K` above bit `E` and `F` those below:
`A = a` or `a + 1` (nearest, half up);  `F > 2^(E−1) ⇔ r < h`;  when `r < h`: `F − 2^(E−1) ≥ K − 1 ⇔ F − 2^(E−1) > K − 1 ⇔ 0 < r`;
`0 < F ≤ K − 1 ⇔ r = h`. -/
theorem fracTests (h K E δ C : Nat) (hh : 0 < h) (hK : K * (2 * h) = 2 ^ E + δ) (hδ : 0 < δ) (hE : 1 ≤ E)
    (hb : ((C + h) / (2 * h) + 1) * δ < K) :
    let A := (C + h) * K / 2 ^ E
    let F := (C + h) * K % 2 ^ E
    let r := C % (2 * h)
    A = (if r < h then C / (2 * h) else C / (2 * h) + 1) ∧
    (2 ^ (E - 1) < F ↔ r < h) ∧
    (r < h → (K - 1 ≤ F - 2 ^ (E - 1) ↔ 0 < r)) ∧
    (r < h → (K - 1 < F - 2 ^ (E - 1) ↔ 0 < r)) ∧
    ((0 < F ∧ F ≤ K - 1) ↔ r = h) ∧ (F ≤ K - 1 ↔ r = h) := by
  intro A F r
  obtain ⟨c1, c2, c3, c4, c5⟩ := Dec.C02RoundHelpers.core h K E δ C hh hK hδ hE hb
  obtain ⟨hA, hF⟩ := recipForm (2 * h) K E δ (C + h) (by omega) hK hb
  refine ⟨c1, c2, ?_, c3, ?_, c4⟩
  · -- `≥` instead of `>`: the value `K − 1` itself is not taken
    intro hr
    constructor
    · intro hge
      apply Classical.byContradiction
      intro h0
      have hr0 : r = 0 := by omega
      -- r = 0: (C + h) mod 2h = h, F = a'·δ + h·K, 2·h·K = 2^E + δ
      have hmod : (C + h) % (2 * h) = h := by
        have := Nat.div_add_mod C (2 * h)
        have e : C + h = 2 * h * (C / (2 * h)) + h := by
          show C + h = _; have : C % (2 * h) = 0 := hr0; omega
        rw [e, Nat.mul_add_mod, Nat.mod_eq_of_lt (by omega)]
      have hFv : F = (C + h) / (2 * h) * δ + h * K := by
        show (C + h) * K % 2 ^ E = _; rw [hF, hmod]
      have hpow : 2 ^ E = 2 * 2 ^ (E - 1) := by rw [← Nat.pow_succ']; congr 1; omega
      have hhK : 2 * (h * K) = 2 * 2 ^ (E - 1) + δ := by rw [← hpow, ← hK, Nat.mul_comm K, Nat.mul_assoc]
      have hb' : (C + h) / (2 * h) * δ + δ < K := by rw [Nat.add_mul, Nat.one_mul] at hb; exact hb
      generalize (C + h) / (2 * h) * δ = X at *
      generalize h * K = Y at *
      generalize 2 ^ (E - 1) = half at *
      omega
    · intro h0
      exact Nat.le_of_lt ((c3 hr).2 h0)
  · constructor
    · intro ⟨_, hle⟩; exact c4.1 hle
    · intro hr
      refine ⟨?_, c4.2 hr⟩
      -- r = h: (C + h) mod 2h = 0 and (C + h) / 2h ≥ 1, F = a'·δ > 0
      have hmod : (C + h) % (2 * h) = 0 := by
        have := Nat.div_add_mod C (2 * h)
        have e : C + h = 2 * h * (C / (2 * h) + 1) := by
          show C + h = _; have : C % (2 * h) = h := hr; rw [Nat.mul_add]; omega
        rw [e, Nat.mul_mod_right]
      have hdiv : 1 ≤ (C + h) / (2 * h) := by
        have : 2 * h ≤ C + h := by
          have := Nat.mod_le C (2 * h); have : C % (2 * h) = h := hr; omega
        exact (Nat.le_div_iff_mul_le (by omega)).2 (by omega)
      have hFv : F = (C + h) / (2 * h) * δ := by
        show (C + h) * K % 2 ^ E = _; rw [hF, hmod, Nat.zero_mul, Nat.add_zero]
      rw [hFv]
      exact Nat.mul_pos hdiv hδ


theorem add_words (a0 a1 m0 m1 : Nat) (ha0 : a0 < 2^64) (hm0 : m0 < 2^64)
    (h : a1 * 2^64 + a0 + (m1 * 2^64 + m0) < 2^128) :
    ((a0 + m0) % 2^64 < a0 → ((a1 + m1) % 2^64 + 1) % 2^64 * 2^64 + (a0 + m0) % 2^64 = a1 * 2^64 + a0 + (m1 * 2^64 + m0)) ∧
    (¬ (a0 + m0) % 2^64 < a0 → (a1 + m1) % 2^64 * 2^64 + (a0 + m0) % 2^64 = a1 * 2^64 + a0 + (m1 * 2^64 + m0)) := by
  have hc : a1 + m1 + (a0 + m0) / 2^64 < 2^64 := by
    apply Nat.lt_of_mul_lt_mul_right (a := 2^64)
    have := Nat.div_add_mod (a0 + m0) (2^64)
    have : (a1 + m1 + (a0 + m0) / 2^64) * 2^64 ≤ a1 * 2^64 + a0 + (m1 * 2^64 + m0) := by
      rw [Nat.add_mul, Nat.add_mul]; omega
    calc (a1 + m1 + (a0 + m0) / 2^64) * 2^64 ≤ a1 * 2^64 + a0 + (m1 * 2^64 + m0) := this
      _ < 2^64 * 2^64 := by omega
  have hd := Nat.div_add_mod (a0 + m0) (2^64)
  have hq : (a0 + m0) / 2^64 ≤ 1 := by omega
  constructor
  · intro hlt
    have : (a0 + m0) / 2^64 = 1 := by omega
    rw [Nat.mod_eq_of_lt (a := a1 + m1) (by omega), Nat.mod_eq_of_lt (a := a1 + m1 + 1) (by omega)]
    rw [this] at hd
    linarith
  · intro hlt
    have : (a0 + m0) / 2^64 = 0 := by omega
    rw [Nat.mod_eq_of_lt (a := a1 + m1) (by omega)]
    rw [this] at hd
    linarith

/-- **adding the midpoint**: the block continues with `C + 5·10^(x−1)` (no panic, no wrap) -/
theorem addHalfK_spec {α : Type} (C1 : U128) (ind : Int32) (k : U128 → Except String α) (x : Nat)
    (hx : ind.toInt = x) (h1 : 1 ≤ x) (h34 : x ≤ 34) (hC : val128 C1 + 5 * 10 ^ (x - 1) < 2^128) :
    ∃ C1' : U128, addHalfK C1 ind k = k C1' ∧ val128 C1' = val128 C1 + 5 * 10 ^ (x - 1) := by
  have hl := C1.w0.toNat_lt
  obtain ⟨-, -, -, -, -, -, -, -, -, -, -, -, hmid⟩ := row (x - 1) (by omega)
  simp only [addHalfK, bind, Except.bind, pure, Except.pure]
  generalize hM : 5 * 10 ^ (x - 1) = M at *
  by_cases c : x ≤ 19
  · rw [if_pos (by rw [decide_eq_true_eq, Int32.le_iff_toInt_le, hx]; show (x : Int) ≤ 19; omega)]
    rw [if_pos (by omega)] at hmid
    have hk := idx_sub ind 1 x 1 hx rfl h1 (by omega)
    rw [tbl64_get _ _ _ (by rw [hk]; exact hmid)]
    have hMlt : M < 2^64 := by
      rw [← hM]
      calc 5 * 10 ^ (x - 1) ≤ 5 * 10 ^ 18 := Nat.mul_le_mul_left 5 (Nat.pow_le_pow_right (by decide) (by omega))
        _ < 2^64 := by decide
    obtain ⟨aw1, aw2⟩ := add_words C1.w0.toNat C1.w1.toNat M 0 hl hMlt (by unfold val128 at hC; omega)
    simp only []
    by_cases cy : C1.w0 + UInt64.ofNat M < C1.w0
    · rw [if_pos (by simpa using cy)]
      refine ⟨_, rfl, ?_⟩
      rw [UInt64.lt_iff_toNat_lt, UInt64.toNat_add, UInt64.toNat_ofNat', Nat.mod_eq_of_lt hMlt] at cy
      have := aw1 cy
      simp only [val128, UInt64.toNat_add, UInt64.toNat_ofNat', UInt64.toNat_one, Nat.mod_eq_of_lt hMlt]
      simp only [Nat.add_zero, Nat.zero_mul, Nat.zero_add, Nat.mod_eq_of_lt C1.w1.toNat_lt] at this
      exact this
    · rw [if_neg (by simpa using cy)]
      refine ⟨_, rfl, ?_⟩
      rw [UInt64.lt_iff_toNat_lt, UInt64.toNat_add, UInt64.toNat_ofNat', Nat.mod_eq_of_lt hMlt] at cy
      have := aw2 cy
      simp only [val128, UInt64.toNat_add, UInt64.toNat_ofNat', Nat.mod_eq_of_lt hMlt]
      simp only [Nat.add_zero, Nat.zero_mul, Nat.zero_add, Nat.mod_eq_of_lt C1.w1.toNat_lt] at this
      exact this
  · rw [if_neg (by rw [decide_eq_true_eq, Int32.le_iff_toInt_le, hx]; show ¬ (x : Int) ≤ 19; omega)]
    rw [if_neg (by omega), show x - 1 - 19 = x - 20 by omega] at hmid
    have hk := idx_sub ind 0x14 x 20 hx rfl (by omega) (by omega)
    rw [tbl128_get _ _ _ _ (by rw [hk]; exact hmid.1) (by rw [hk]; exact hmid.2)]
    simp only []
    have hMlt : M < 2^128 := by omega
    have hMs : M / 2^64 * 2^64 + M % 2^64 = M := by omega
    obtain ⟨aw1, aw2⟩ := add_words C1.w0.toNat C1.w1.toNat (M % 2^64) (M / 2^64) hl (by omega)
      (by unfold val128 at hC; omega)
    by_cases cy : C1.w0 + UInt64.ofNat (M % 2^64) < C1.w0
    · rw [if_pos (by simpa using cy)]
      refine ⟨_, rfl, ?_⟩
      rw [UInt64.lt_iff_toNat_lt, UInt64.toNat_add, UInt64.toNat_ofNat', Nat.mod_mod] at cy
      have := aw1 cy
      simp only [val128, UInt64.toNat_add, UInt64.toNat_ofNat', UInt64.toNat_one, Nat.mod_mod]
      rw [Nat.mod_eq_of_lt (a := M / 2^64) (by omega), this, hMs]
    · rw [if_neg (by simpa using cy)]
      refine ⟨_, rfl, ?_⟩
      rw [UInt64.lt_iff_toNat_lt, UInt64.toNat_add, UInt64.toNat_ofNat', Nat.mod_mod] at cy
      have := aw2 cy
      simp only [val128, UInt64.toNat_add, UInt64.toNat_ofNat', Nat.mod_mod]
      rw [Nat.mod_eq_of_lt (a := M / 2^64) (by omega), this, hMs]


/-- digit removal with rounding to nearest: add half a unit of the last kept place, multiply by the reciprocal, split -/
def removeK {α : Type} (C1 : U128) (ind : Int32) (k : U128 → U256 → Except String α) : Except String α :=
  addHalfK C1 ind (fun C1' => splitK C1' ind k)

/-- what the fraction tests need to know about the fraction words `fs`, in terms of the discarded part `r = C mod 10^x`
(`h = 5·10^(x−1)` the midpoint, `K_x` the reciprocal, `E = 128 + s_x` the split position) -/
structure FracOK (x r : Nat) (fs : U256) : Prop where
  lt : val256 fs < 2 ^ (128 + shT (x - 1))
  above : 2 ^ (128 + shT (x - 1) - 1) < val256 fs ↔ r < 5 * 10 ^ (x - 1)
  inexGe : r < 5 * 10 ^ (x - 1) → (kT (x - 1) - 1 ≤ val256 fs - 2 ^ (128 + shT (x - 1) - 1) ↔ 0 < r)
  inexGt : r < 5 * 10 ^ (x - 1) → (kT (x - 1) - 1 < val256 fs - 2 ^ (128 + shT (x - 1) - 1) ↔ 0 < r)
  mid : (0 < val256 fs ∧ val256 fs ≤ kT (x - 1) - 1) ↔ r = 5 * 10 ^ (x - 1)

theorem two_h (x : Nat) (h1 : 1 ≤ x) : 2 * (5 * 10 ^ (x - 1)) = 10 ^ x := by
  obtain ⟨j, rfl⟩ : ∃ j, x = j + 1 := ⟨x - 1, by omega⟩
  rw [Nat.add_sub_cancel, Nat.pow_succ]; omega

/-- **digit removal**: for a coefficient `C < 10^34` and `1 ≤ x ≤ 34` digits to remove, the block continues with the
coefficient rounded to nearest, half up (`C / 10^x`, plus one when the discarded part is at least half a unit), and with
fraction words on which the code's tests decide how the discarded part compares with 0 and with the midpoint -/
theorem removeK_spec {α : Type} (C1 : U128) (ind : Int32) (k : U128 → U256 → Except String α) (x : Nat)
    (hx : ind.toInt = x) (h1 : 1 ≤ x) (h34 : x ≤ 34) (hC : val128 C1 < 10 ^ 34) :
    ∃ (Cs : U128) (fs : U256), removeK C1 ind k = k Cs fs ∧
      ((if val128 C1 % 10 ^ x < 5 * 10 ^ (x - 1) then val128 C1 / 10 ^ x else val128 C1 / 10 ^ x + 1) < 2^64 →
        Cs.w0.toNat = (if val128 C1 % 10 ^ x < 5 * 10 ^ (x - 1) then val128 C1 / 10 ^ x else val128 C1 / 10 ^ x + 1)) ∧
      FracOK x (val128 C1 % 10 ^ x) fs := by
  obtain ⟨r1, r2, -, -, -, -, -, -, -, -, -, -, -⟩ := row (x - 1) (by omega)
  rw [show x - 1 + 1 = x by omega] at r1 r2
  have hh : 0 < 5 * 10 ^ (x - 1) := Nat.mul_pos (by decide) (Nat.pow_pos (by decide))
  have hhalf : 5 * 10 ^ (x - 1) ≤ 5 * 10 ^ 33 := Nat.mul_le_mul_left 5 (Nat.pow_le_pow_right (by decide) (by omega))
  have hsum : val128 C1 + 5 * 10 ^ (x - 1) < 10 ^ 35 := by
    calc val128 C1 + 5 * 10 ^ (x - 1) < 10 ^ 34 + 5 * 10 ^ 33 := Nat.add_lt_add_of_lt_of_le hC hhalf
      _ < 10 ^ 35 := by decide
  obtain ⟨C1', e1, v1⟩ := addHalfK_spec C1 ind (fun C1' => splitK C1' ind k) x hx h1 h34
    (Nat.lt_trans hsum (by decide))
  obtain ⟨Cs, fs, e2, qv, fv⟩ := splitK_spec C1' ind k x hx h1 h34
  have hD := two_h x h1
  generalize hK : kT (x - 1) = K at *
  generalize hE : 128 + shT (x - 1) = E at *
  have hKD : K * (2 * (5 * 10 ^ (x - 1))) = 2 ^ E + (K * 10 ^ x - 2 ^ E) := by rw [hD]; omega
  have hb : ((val128 C1 + 5 * 10 ^ (x - 1)) / (2 * (5 * 10 ^ (x - 1))) + 1) * (K * 10 ^ x - 2 ^ E) < K := by
    rw [hD]
    have : (val128 C1 + 5 * 10 ^ (x - 1)) / 10 ^ x ≤ 10 ^ 35 / 10 ^ x := Nat.div_le_div_right (Nat.le_of_lt hsum)
    calc ((val128 C1 + 5 * 10 ^ (x - 1)) / 10 ^ x + 1) * (K * 10 ^ x - 2 ^ E)
        ≤ (10 ^ 35 / 10 ^ x + 1) * (K * 10 ^ x - 2 ^ E) := Nat.mul_le_mul_right _ (by omega)
      _ < K := r2
  obtain ⟨t1, t2, t3, t4, t5, -⟩ := fracTests (5 * 10 ^ (x - 1)) K E (K * 10 ^ x - 2 ^ E) (val128 C1) hh hKD (by omega)
    (by omega) hb
  rw [hD] at t1 t2 t3 t4 t5
  rw [v1] at qv fv
  subst hK; subst hE
  refine ⟨Cs, fs, by unfold removeK; rw [e1, e2], ?_, ?_⟩
  · intro hA
    rw [← t1] at hA ⊢
    exact qv hA
  · rw [← fv] at t2 t3 t4 t5
    exact ⟨by rw [fv]; exact Nat.mod_lt _ (Nat.pow_pos (by decide)), t2, t3, t4, t5⟩


/-- **fraction classification**: `kA` when the discarded part is non-zero and below the midpoint, `kB` when it is zero,
`kC` when it is at or above the midpoint -/
theorem fracK_spec {α : Type} (fs : U256) (ind : Int32) (kA kB kC : Except String α) (x r : Nat)
    (hx : ind.toInt = x) (h1 : 1 ≤ x) (h34 : x ≤ 34) (ok : FracOK x r fs) :
    fracK fs ind kA kB kC = if r < 5 * 10 ^ (x - 1) then (if 0 < r then kA else kB) else kC := by
  obtain ⟨-, -, hT1, hK, -, -, ht0, ht1, -, hoh, -, hrange, -⟩ := row (x - 1) (by omega)
  obtain ⟨hlt, habove, hge, hgt, -⟩ := ok
  have hk := idx_sub ind 1 x 1 hx rfl h1 (by omega)
  have d1 : (ind - 1).toInt = ((x - 1 : Nat) : Int) := by
    rw [i32_sub _ _ (by rw [hx]; show (-2^31 : Int) ≤ x - 1; omega) (by rw [hx]; show (x : Int) - 1 < 2^31; omega), hx]
    show (x : Int) - 1 = _; omega
  have hTlt : tT (x - 1) < 2^128 := by omega
  have hTr := tbl128_get _ (UInt64.ofInt (toI (ind - 1))) _ _ (by rw [hk]; exact ht0) (by rw [hk]; exact ht1)
  have hOH := tbl64_get _ (UInt64.ofInt (toI (ind - 1))) _ (by rw [hk]; exact hoh)
  have b0 := fs.w0.toNat_lt; have b1 := fs.w1.toNat_lt; have b2 := fs.w2.toNat_lt; have b3 := fs.w3.toNat_lt
  have hKT : kT (x - 1) - 1 = tT (x - 1) := by omega
  rw [hKT] at hge hgt
  simp only [fracK, bind, Except.bind, pure, Except.pure, hTr, hOH, ite_ok, ite_tt, ite_ff]
  clear hTr hOH ht0 ht1 hoh hKT hT1 hK
  generalize hF : val256 fs = F at *
  generalize hTv : tT (x - 1) = T at *
  have tv0 : (UInt64.ofNat (T % 2^64)).toNat = T % 2^64 := by rw [UInt64.toNat_ofNat', Nat.mod_mod]
  have tv1 : (UInt64.ofNat (T / 2^64)).toNat = T / 2^64 := by rw [UInt64.toNat_ofNat', Nat.mod_eq_of_lt (by omega)]
  generalize UInt64.ofNat (T % 2^64) = t0 at *
  generalize UInt64.ofNat (T / 2^64) = t1 at *
  have ht01 : T = t1.toNat * 2^64 + t0.toNat := by omega
  unfold val256 at hF
  -- the shape of the conclusion once the two tests are known
  have fin : ∀ (B1 B2 : Bool) (E : Nat), (128 + shT (x - 1) - 1 = E) → B1 = decide (2 ^ E < F) → (B1 = true → (B2 = decide (T < F - 2 ^ E) ∨ B2 = decide (T ≤ F - 2 ^ E))) →
      (if B1 = true then (if B2 = true then kA else kB) else kC) =
        if r < 5 * 10 ^ (x - 1) then (if 0 < r then kA else kB) else kC := by
    intro B1 B2 E hE e1 e2
    rw [hE] at habove hgt hge
    by_cases hr : r < 5 * 10 ^ (x - 1)
    · have hab := habove.2 hr
      have e1' : B1 = true := by rw [e1]; exact decide_eq_true hab
      rw [e1', if_pos hr, if_pos rfl]
      rcases e2 e1' with e2 | e2 <;> rw [e2]
      · by_cases h0 : 0 < r
        · rw [if_pos h0, decide_eq_true ((hgt hr).2 h0), if_pos rfl]
        · rw [if_neg h0, decide_eq_false (fun h => h0 ((hgt hr).1 h)), if_neg (by decide)]
      · by_cases h0 : 0 < r
        · rw [if_pos h0, decide_eq_true ((hge hr).2 h0), if_pos rfl]
        · rw [if_neg h0, decide_eq_false (fun h => h0 ((hge hr).1 h)), if_neg (by decide)]
    · rw [if_neg hr, e1, decide_eq_false (fun h => hr (habove.1 h)), if_neg (by decide)]
  by_cases c1 : x - 1 ≤ 2
  · -- E = 128
    have c1' : decide (ind - 1 ≤ 2) = true := by
      rw [decide_eq_true_eq, Int32.le_iff_toInt_le, d1]; show ((x - 1 : Nat) : Int) ≤ 2; omega
    rw [if_pos c1']
    rw [if_pos c1] at hrange
    rw [hrange] at hlt
    have h32 : fs.w3.toNat = 0 ∧ fs.w2.toNat = 0 := by omega
    apply fin _ _ 127 (by rw [hrange])
    · words_omega
    · intro hB1
      right
      have hhi : 2^63 ≤ fs.w1.toNat := by
        simp only [Bool.or_eq_true, Bool.and_eq_true, decide_eq_true_eq, beq_iff_eq, gt_iff_lt, UInt64.lt_iff_toNat_lt,
          ← UInt64.toNat_inj, UInt64.toNat_ofNat] at hB1
        omega
      have hsub : (fs.w1 - 9223372036854775808).toNat = fs.w1.toNat - 2^63 := u64_sub_toNat _ _ hhi
      generalize fs.w1 - 9223372036854775808 = d at *
      words_omega
  · have c1' : ¬ decide (ind - 1 ≤ 2) = true := by
      rw [decide_eq_true_eq, Int32.le_iff_toInt_le, d1]; show ¬ ((x - 1 : Nat) : Int) ≤ 2; omega
    rw [if_neg c1']
    rw [if_neg c1] at hrange
    by_cases c2 : x - 1 ≤ 21
    · -- E = 128 + s, 1 ≤ s ≤ 63
      have c2' : decide (ind - 1 ≤ 21) = true := by
        rw [decide_eq_true_eq, Int32.le_iff_toInt_le, d1]; show ((x - 1 : Nat) : Int) ≤ 21; omega
      rw [if_pos c2']
      rw [if_pos c2] at hrange
      have hs : shT (x - 1) % 64 = shT (x - 1) := Nat.mod_eq_of_lt (by omega)
      rw [hs, if_neg (show ¬ shT (x - 1) = 0 by omega)]
      generalize shT (x - 1) = s at *
      have hpow : 2 ^ (128 + s) = 2 ^ 128 * (2 * 2 ^ (s - 1)) := by
        rw [← Nat.pow_succ', ← Nat.pow_add]; congr 1; omega
      have hpow' : 2 ^ (128 + s - 1) = 2 ^ 128 * 2 ^ (s - 1) := by rw [← Nat.pow_add]; congr 1; omega
      have hoh : 2 ^ (s - 1) ≤ 2 ^ 62 := Nat.pow_le_pow_right (by decide) (by omega)
      have ohv : (UInt64.ofNat (2 ^ (s - 1))).toNat = 2 ^ (s - 1) := by
        rw [UInt64.toNat_ofNat', Nat.mod_eq_of_lt (by omega)]
      generalize UInt64.ofNat (2 ^ (s - 1)) = OH at *
      rw [hpow] at hlt
      generalize 2 ^ (s - 1) = oh at *
      have h3 : fs.w3.toNat = 0 := by
        apply Classical.byContradiction; intro h3
        have : 2 ^ 128 * (2 * oh) ≤ 2 ^ 128 * 2 ^ 64 := Nat.mul_le_mul_left _ (by omega)
        omega
      have hnb : (decide (fs.w3 > 0) || fs.w3 == 0 && decide (fs.w2 > OH) ||
          fs.w3 == 0 && fs.w2 == OH && (fs.w1 != 0 || fs.w0 != 0)) = true → OH.toNat ≤ fs.w2.toNat := by
        intro hB
        simp only [Bool.or_eq_true, Bool.and_eq_true, decide_eq_true_eq, beq_iff_eq, gt_iff_lt, UInt64.lt_iff_toNat_lt,
          ← UInt64.toNat_inj, UInt64.toNat_zero] at hB
        omega
      have shape : ∀ (B1 : Bool) (X Y : Except String α) (c : Prop) [Decidable c], (B1 = true → ¬ c) →
          (if B1 = true then (if c then X else Y) else kC) = (if B1 = true then Y else kC) := by
        intro B1 X Y c _ h
        by_cases hB : B1 = true
        · rw [if_pos hB, if_pos hB, if_neg (h hB)]
        · rw [if_neg hB, if_neg hB]
      rw [shape _ _ _ (decide (fs.w2 - OH > fs.w2) = true) (by
        intro hB
        have := hnb hB
        rw [decide_eq_true_eq, gt_iff_lt, UInt64.lt_iff_toNat_lt, u64_sub_toNat _ _ this]
        omega)]
      apply fin _ _ _ rfl
      · rw [hpow']; words_omega
      · intro hB1
        left
        have hle := hnb hB1
        have hsub : (fs.w2 - OH).toNat = fs.w2.toNat - OH.toNat := u64_sub_toNat _ _ hle
        generalize fs.w2 - OH = d at *
        rw [hpow']; words_omega
    · -- E = 128 + s, 65 ≤ s ≤ 127
      have c2' : ¬ decide (ind - 1 ≤ 21) = true := by
        rw [decide_eq_true_eq, Int32.le_iff_toInt_le, d1]; show ¬ ((x - 1 : Nat) : Int) ≤ 21; omega
      rw [if_neg c2']
      rw [if_neg c2] at hrange
      have hs : shT (x - 1) % 64 = shT (x - 1) - 64 := by omega
      rw [hs, if_neg (show ¬ shT (x - 1) - 64 = 0 by omega)]
      generalize shT (x - 1) = s at *
      have hpow : 2 ^ (128 + s) = 2 ^ 192 * (2 * 2 ^ (s - 64 - 1)) := by
        rw [← Nat.pow_succ', ← Nat.pow_add]; congr 1; omega
      have hpow' : 2 ^ (128 + s - 1) = 2 ^ 192 * 2 ^ (s - 64 - 1) := by rw [← Nat.pow_add]; congr 1; omega
      have hoh : 2 ^ (s - 64 - 1) ≤ 2 ^ 62 := Nat.pow_le_pow_right (by decide) (by omega)
      have ohv : (UInt64.ofNat (2 ^ (s - 64 - 1))).toNat = 2 ^ (s - 64 - 1) := by
        rw [UInt64.toNat_ofNat', Nat.mod_eq_of_lt (by omega)]
      generalize UInt64.ofNat (2 ^ (s - 64 - 1)) = OH at *
      rw [hpow] at hlt
      generalize 2 ^ (s - 64 - 1) = oh at *
      apply fin _ _ _ rfl
      · rw [hpow']; words_omega
      · intro hB1
        left
        have hle : OH.toNat ≤ fs.w3.toNat := by
          simp only [Bool.or_eq_true, Bool.and_eq_true, decide_eq_true_eq, beq_iff_eq, gt_iff_lt, UInt64.lt_iff_toNat_lt,
            ← UInt64.toNat_inj] at hB1
          omega
        have hsub : (fs.w3 - OH).toNat = fs.w3.toNat - OH.toNat := u64_sub_toNat _ _ hle
        generalize fs.w3 - OH = d at *
        rw [hpow']; words_omega


/-- **midpoint test**: `kMid` exactly when the discarded part is half a unit of the last kept place -/
theorem midK_spec {α : Type} (fs : U256) (ind : Int32) (kMid kNot : Except String α) (x r : Nat)
    (hx : ind.toInt = x) (h1 : 1 ≤ x) (h34 : x ≤ 34) (ok : FracOK x r fs) :
    midK fs ind kMid kNot = if r = 5 * 10 ^ (x - 1) then kMid else kNot := by
  obtain ⟨-, -, hT1, hK, -, -, ht0, ht1, -, -, -, -, -⟩ := row (x - 1) (by omega)
  obtain ⟨-, -, -, -, hmid⟩ := ok
  have hk := idx_sub ind 1 x 1 hx rfl h1 (by omega)
  have hTlt : tT (x - 1) < 2^128 := by omega
  have hTr := tbl128_get _ (UInt64.ofInt (toI (ind - 1))) _ _ (by rw [hk]; exact ht0) (by rw [hk]; exact ht1)
  have b0 := fs.w0.toNat_lt; have b1 := fs.w1.toNat_lt; have b2 := fs.w2.toNat_lt; have b3 := fs.w3.toNat_lt
  have hKT : kT (x - 1) - 1 = tT (x - 1) := by omega
  rw [hKT] at hmid
  simp only [midK, bind, Except.bind, pure, Except.pure, hTr, ite_ok, ite_tt, ite_ff]
  clear hTr ht0 ht1 hKT hT1 hK
  generalize hF : val256 fs = F at *
  generalize hTv : tT (x - 1) = T at *
  have tv0 : (UInt64.ofNat (T % 2^64)).toNat = T % 2^64 := by rw [UInt64.toNat_ofNat', Nat.mod_mod]
  have tv1 : (UInt64.ofNat (T / 2^64)).toNat = T / 2^64 := by rw [UInt64.toNat_ofNat', Nat.mod_eq_of_lt (by omega)]
  generalize UInt64.ofNat (T % 2^64) = t0 at *
  generalize UInt64.ofNat (T / 2^64) = t1 at *
  have ht01 : T = t1.toNat * 2^64 + t0.toNat := by omega
  unfold val256 at hF
  have e : (fs.w3 == 0 && fs.w2 == 0 && (fs.w1 != 0 || fs.w0 != 0) &&
      (decide (fs.w1 < t1) || fs.w1 == t1 && decide (fs.w0 ≤ t0))) = decide (0 < F ∧ F ≤ T) := by
    words_omega
  rw [e]
  by_cases hr : r = 5 * 10 ^ (x - 1)
  · rw [if_pos hr, decide_eq_true (hmid.2 hr), if_pos rfl]
  · rw [if_neg hr, decide_eq_false (fun h => hr (hmid.1 h)), if_neg (by decide)]



/-! ## 8. The copies that round to nearest -/

/-- the magnitude rounded to nearest with ties away from zero, and with ties to even, in terms of the half-adjusted
quotient `A = ⌊(c + h)/10^x⌋` (`h` half a unit of the last kept place) -/
theorem mag_near (c : Nat) (e : Int) (he : e < 0) (x a r h A : Nat) (hx : x = (-e).toNat) (ha : a = c / 10 ^ x)
    (hr : r = c % 10 ^ x) (hh : h = 5 * 10 ^ (x - 1)) (hA : A = if r < h then a else a + 1) :
    magOf .rna false c e = A ∧
    magOf .rne false c e = (if r = h ∧ A % 2 = 1 then A - 1 else A) := by
  have hx1 : 1 ≤ x := by omega
  have hD : 2 * h = 10 ^ x := by rw [hh]; exact two_h x hx1
  have hrlt : r < 10 ^ x := by rw [hr]; exact Nat.mod_lt _ (Nat.pow_pos (by decide))
  unfold magOf
  rw [if_neg (by omega), if_neg (by omega), ← hx, ← ha, ← hr]
  generalize 10 ^ x = D at *
  clear hr ha hh hx
  subst hA
  constructor
  · unfold roundInt roundUp
    by_cases h0 : r = 0
    · simp only [h0, if_true, Bool.false_eq_true, if_false]; rw [if_pos (by omega)]
    · simp only [h0, if_false, decide_eq_true_eq]
      by_cases h1 : r < h
      · rw [if_neg (by omega), if_pos h1]
      · rw [if_pos (by omega), if_neg h1]
  · unfold roundInt roundUp
    by_cases h0 : r = 0
    · have hlt : r < h := by omega
      have hne : ¬ r = h := by omega
      simp only [h0, if_true, Bool.false_eq_true, if_false]
      rw [h0] at hlt hne
      simp only [hlt, hne, if_true, false_and, if_false]
    · simp only [h0, if_false, Bool.or_eq_true, Bool.and_eq_true, decide_eq_true_eq, beq_iff_eq]
      by_cases h1 : r < h
      · have hne : ¬ r = h := by omega
        simp only [h1, hne, if_true, false_and, if_false]
        rw [if_neg (by omega)]
      · simp only [h1, if_false]
        by_cases h2 : r = h
        · by_cases h3 : a % 2 = 1
          · rw [if_pos (by omega), if_neg (by omega)]
          · rw [if_neg (by omega), if_pos (by omega)]; omega
        · rw [if_pos (by omega), if_neg (by omega)]

/-- the expected outcome of the nearest copies on operands with no integer digit -/
theorem small_near (mode : Mode) (hm : mode = .rne ∨ mode = .rna) (xf s : Bool) (c : Nat) (e : Int) (f : UInt32) (hc : 0 < c)
    (hsm : (ndigits c : Int) + e ≤ 0) :
    specFin mode xf s c e f =
      if (ndigits c : Int) + e < 0 ∨ cmpM (mode == .rna) c (5 * 10 ^ (ndigits c - 1)) then .ok (0, ixWord f xf false)
      else (if s = true then INV f else .ok (1, ixWord f xf false)) := by
  rw [small_spec mode xf s c e f hc hsm]
  obtain ⟨hlo, hhi⟩ := ndigits_spec hc
  have hq := ndigits_pos hc
  generalize ndigits c = q at *
  have key : roundUp mode s false c (10 ^ (-e).toNat) = true ↔ ¬ ((q : Int) + e < 0 ∨ cmpM (mode == .rna) c (5 * 10 ^ (q - 1))) := by
    have hc0 : c ≠ 0 := by omega
    by_cases hlt : (q : Int) + e < 0
    · -- 10·c < D
      have hD : 10 ^ (-e).toNat = 10 ^ ((-e).toNat - q - 1) * 10 * 10 ^ q := by
        rw [Nat.mul_assoc, ← Nat.pow_succ', ← Nat.pow_add]; congr 1; omega
      have : 10 * 10 ^ q ≤ 10 ^ (-e).toNat := by
        rw [hD, Nat.mul_assoc]; exact Nat.le_mul_of_pos_left _ (Nat.pow_pos (by decide))
      generalize 10 ^ (-e).toNat = D at *
      rcases hm with rfl | rfl <;> simp [roundUp, hc0, hlt] <;> omega
    · have hx : (-e).toNat = q := by omega
      have hD := two_h q hq
      rw [hx]
      unfold cmpM
      generalize 5 * 10 ^ (q - 1) = M at *
      generalize 10 ^ q = D at *
      rcases hm with rfl | rfl <;> simp [roundUp, hc0, hlt] <;> omega
  by_cases hk : roundUp mode s false c (10 ^ (-e).toNat) = true
  · rw [if_pos hk, if_neg (key.1 hk)]
  · rw [if_neg hk, if_pos (Classical.not_not.1 (mt key.2 hk))]


theorem odd_test (w : UInt64) : ((w &&& 1) == 1) = decide (w.toNat % 2 = 1) := by
  rw [Bool.eq_iff_iff, beq_iff_eq, decide_eq_true_eq, ← UInt64.toNat_inj, UInt64.toNat_and, UInt64.toNat_one,
    show (1 : Nat) = 2 ^ 1 - 1 from rfl, Nat.and_two_pow_sub_one_eq_mod]

/-- the last step of the ties-to-even copies, on numbers -/
theorem evenK_spec {α : Type} (fs : U256) (ind : Int32) (w : UInt64) (k : UInt64 → Except String α) (x r : Nat)
    (hx : ind.toInt = x) (h1 : 1 ≤ x) (h34 : x ≤ 34) (ok : FracOK x r fs) :
    evenK fs ind w k = k (if r = 5 * 10 ^ (x - 1) ∧ w.toNat % 2 = 1 then w - 1 else w) := by
  unfold evenK
  rw [midK_spec fs ind _ _ x r hx h1 h34 ok, odd_test]
  by_cases h : r = 5 * 10 ^ (x - 1)
  · rw [if_pos h]
    by_cases ho : w.toNat % 2 = 1
    · rw [if_pos (by simpa using ho), if_pos ⟨h, ho⟩]
    · rw [if_neg (by simpa using ho), if_neg (fun hc => ho hc.2)]
  · rw [if_neg h, if_neg (fun hc => h hc.1)]

/-- the data of the nearest digit removal for a non-negative operand with negative exponent -/
theorem near_setup (c : Nat) (e : Int) (hlt : c < P34) (he1 : -6176 ≤ e) (he : e < 0) (hq : 1 ≤ (ndigits c : Int) + e) :
    1 ≤ (-e).toNat ∧ (-e).toNat ≤ 34 ∧ c < 10 ^ 34 := by
  have hq34 : ndigits c ≤ 34 := by
    by_cases hc : c = 0
    · subst hc; rw [ndigits_zero]; omega
    · exact Dec.C17GenNext.ndigits_le_34 (Nat.pos_of_ne_zero hc) hlt
  exact ⟨by omega, by omega, by simp only [P34] at hlt; omega⟩

/-- ties away, inexact not signalled: half added, quotient taken -/
theorem near_out_rna (c : Nat) (e : Int) (f : UInt32) (C1 : U128) (E : Int32)
    (hC1 : val128 C1 = c) (hE : E.toInt = e) (he1 : -6176 ≤ e) (hlt : c < P34)
    (he : e < 0) (hq : 1 ≤ (ndigits c : Int) + e) (hmlt : magOf .rna false c e < 2^64) :
    addHalfK C1 (-E) (fun C1' => quotK C1' (-E) (fun r => (.ok (r, f) : R))) =
      .ok (UInt64.ofNat (magOf .rna false c e), ixWord f false (exactOf c e)) := by
  obtain ⟨x1, x34, hc34⟩ := near_setup c e hlt he1 he hq
  have hxi := negx E e hE he1 he
  have hhalf : 5 * 10 ^ ((-e).toNat - 1) ≤ 5 * 10 ^ 33 :=
    Nat.mul_le_mul_left 5 (Nat.pow_le_pow_right (by decide) (by omega))
  have hsum : c + 5 * 10 ^ ((-e).toNat - 1) < 10 ^ 35 := by
    have : (10:Nat) ^ 34 + 5 * 10 ^ 33 < 10 ^ 35 := by decide
    omega
  obtain ⟨C1', e1, v1⟩ := addHalfK_spec C1 (-E) (fun C1' => quotK C1' (-E) (fun r => (.ok (r, f) : R))) (-e).toNat hxi x1 x34
    (by rw [hC1]; have : (10:Nat)^35 < 2^128 := by decide
        omega)
  obtain ⟨w, hw, wv⟩ := quotK_spec C1' (-E) (fun r => (.ok (r, f) : R)) (-e).toNat hxi x1 x34
  rw [v1, hC1] at wv
  obtain ⟨t1, -⟩ := remove_trunc (c + 5 * 10 ^ ((-e).toNat - 1)) (-e).toNat x1 x34 hsum
  rw [t1] at wv
  obtain ⟨m1, -⟩ := mag_near c e he _ _ _ _ _ rfl rfl rfl rfl rfl
  have hh : 0 < 5 * 10 ^ ((-e).toNat - 1) := Nat.mul_pos (by decide) (Nat.pow_pos (by decide))
  obtain ⟨dm1, dm2⟩ := Dec.C02RoundHelpers.divmod_add_half c (5 * 10 ^ ((-e).toNat - 1)) hh
  rw [two_h _ x1] at dm1 dm2
  have hA : (c + 5 * 10 ^ ((-e).toNat - 1)) / 10 ^ (-e).toNat = magOf .rna false c e := by
    rw [m1]
    split
    · rename_i hr; exact (dm1 hr).1
    · rename_i hr; exact (dm2 (by omega)).1
  rw [hA] at wv
  rw [e1, hw, ofNat_of_toNat w _ (wv hmlt)]
  rfl

/-- ties away with the inexact flag -/
theorem near_out_xrna (c : Nat) (e : Int) (f : UInt32) (C1 : U128) (E : Int32)
    (hC1 : val128 C1 = c) (hE : E.toInt = e) (he1 : -6176 ≤ e) (hlt : c < P34)
    (he : e < 0) (hq : 1 ≤ (ndigits c : Int) + e) (hmlt : magOf .rna false c e < 2^64) :
    addHalfK C1 (-E) (fun C1' => splitK C1' (-E) (fun Cs fs =>
      fracK fs (-E) (.ok (Cs.w0, IX f) : R) (.ok (Cs.w0, f)) (.ok (Cs.w0, IX f)))) =
      .ok (UInt64.ofNat (magOf .rna false c e), ixWord f true (exactOf c e)) := by
  obtain ⟨x1, x34, hc34⟩ := near_setup c e hlt he1 he hq
  have hxi := negx E e hE he1 he
  obtain ⟨Cs, fs, e1, qv, ok⟩ := removeK_spec C1 (-E) (fun Cs fs =>
      fracK fs (-E) (.ok (Cs.w0, IX f) : R) (.ok (Cs.w0, f)) (.ok (Cs.w0, IX f))) (-e).toNat hxi x1 x34 (by rw [hC1]; exact hc34)
  obtain ⟨m1, -⟩ := mag_near c e he _ _ _ _ _ rfl rfl rfl rfl rfl
  rw [hC1] at qv ok
  rw [← m1] at qv
  unfold removeK at e1
  rw [e1, fracK_spec fs (-E) _ _ _ (-e).toNat _ hxi x1 x34 ok, exact_neg c e he, ofNat_of_toNat Cs.w0 _ (qv hmlt)]
  unfold ixWord
  by_cases h0 : 0 < c % 10 ^ (-e).toNat
  · simp only [h0, if_true, ite_self, decide_true, Bool.not_true, Bool.not_false, Bool.and_true, Bool.true_and]
  · have : c % 10 ^ (-e).toNat < 5 * 10 ^ ((-e).toNat - 1) := by
      have : 0 < 5 * 10 ^ ((-e).toNat - 1) := Nat.mul_pos (by decide) (Nat.pow_pos (by decide))
      omega
    simp [h0, this]

/-- ties to even -/
theorem near_out_rne (c : Nat) (e : Int) (f : UInt32) (C1 : U128) (E : Int32)
    (hC1 : val128 C1 = c) (hE : E.toInt = e) (he1 : -6176 ≤ e) (hlt : c < P34)
    (he : e < 0) (hq : 1 ≤ (ndigits c : Int) + e) (hmlt : magOf .rne false c e < 2^64) :
    addHalfK C1 (-E) (fun C1' => splitK C1' (-E) (fun Cs fs => evenK fs (-E) Cs.w0 (fun r => (.ok (r, f) : R)))) =
      .ok (UInt64.ofNat (magOf .rne false c e), ixWord f false (exactOf c e)) := by
  obtain ⟨x1, x34, hc34⟩ := near_setup c e hlt he1 he hq
  have hxi := negx E e hE he1 he
  obtain ⟨Cs, fs, e1, qv, ok⟩ := removeK_spec C1 (-E) (fun Cs fs => evenK fs (-E) Cs.w0 (fun r => (.ok (r, f) : R)))
    (-e).toNat hxi x1 x34 (by rw [hC1]; exact hc34)
  obtain ⟨-, m2⟩ := mag_near c e he _ _ _ _ _ rfl rfl rfl rfl rfl
  rw [hC1] at qv ok
  unfold removeK at e1
  rw [e1, evenK_spec fs (-E) Cs.w0 _ (-e).toNat _ hxi x1 x34 ok]
  rw [m2] at hmlt ⊢
  generalize (if c % 10 ^ (-e).toNat < 5 * 10 ^ ((-e).toNat - 1) then c / 10 ^ (-e).toNat else c / 10 ^ (-e).toNat + 1) = A at *
  have hA : A < 2^64 := by
    split at hmlt
    · rename_i h; omega
    · exact hmlt
  have hw := qv hA
  unfold ixWord
  simp only [Bool.false_and, Bool.false_eq_true, if_false]
  congr 2
  rw [hw]
  split
  · rename_i h
    apply ofNat_of_toNat
    rw [u64_sub_toNat _ _ (by rw [hw, UInt64.toNat_one]; omega), hw, UInt64.toNat_one]
  · exact ofNat_of_toNat _ _ hw

/-- ties to even with the inexact flag -/
theorem near_out_xrne (c : Nat) (e : Int) (f : UInt32) (C1 : U128) (E : Int32)
    (hC1 : val128 C1 = c) (hE : E.toInt = e) (he1 : -6176 ≤ e) (hlt : c < P34)
    (he : e < 0) (hq : 1 ≤ (ndigits c : Int) + e) (hmlt : magOf .rne false c e < 2^64) :
    addHalfK C1 (-E) (fun C1' => splitK C1' (-E) (fun Cs fs =>
      fracK fs (-E) (evenK fs (-E) Cs.w0 (fun r => (.ok (r, IX f) : R))) (evenK fs (-E) Cs.w0 (fun r => .ok (r, f)))
        (evenK fs (-E) Cs.w0 (fun r => .ok (r, IX f))))) =
      .ok (UInt64.ofNat (magOf .rne false c e), ixWord f true (exactOf c e)) := by
  obtain ⟨x1, x34, hc34⟩ := near_setup c e hlt he1 he hq
  have hxi := negx E e hE he1 he
  obtain ⟨Cs, fs, e1, qv, ok⟩ := removeK_spec C1 (-E) (fun Cs fs =>
      fracK fs (-E) (evenK fs (-E) Cs.w0 (fun r => (.ok (r, IX f) : R))) (evenK fs (-E) Cs.w0 (fun r => .ok (r, f)))
        (evenK fs (-E) Cs.w0 (fun r => .ok (r, IX f)))) (-e).toNat hxi x1 x34 (by rw [hC1]; exact hc34)
  obtain ⟨-, m2⟩ := mag_near c e he _ _ _ _ _ rfl rfl rfl rfl rfl
  rw [hC1] at qv ok
  unfold removeK at e1
  rw [e1, fracK_spec fs (-E) _ _ _ (-e).toNat _ hxi x1 x34 ok]
  simp only [evenK_spec fs (-E) Cs.w0 _ (-e).toNat _ hxi x1 x34 ok]
  rw [m2] at hmlt ⊢
  rw [exact_neg c e he]
  have hhpos : 0 < 5 * 10 ^ ((-e).toNat - 1) := Nat.mul_pos (by decide) (Nat.pow_pos (by decide))
  generalize hr : c % 10 ^ (-e).toNat = r at *
  generalize 5 * 10 ^ ((-e).toNat - 1) = h at *
  generalize (if r < h then c / 10 ^ (-e).toNat else c / 10 ^ (-e).toNat + 1) = A at *
  have hA : A < 2^64 := by
    split at hmlt
    · rename_i h; omega
    · exact hmlt
  have hw := qv hA
  have hval : (if r = h ∧ Cs.w0.toNat % 2 = 1 then Cs.w0 - 1 else Cs.w0) = UInt64.ofNat (if r = h ∧ A % 2 = 1 then A - 1 else A) := by
    rw [hw]
    split
    · apply ofNat_of_toNat
      rw [u64_sub_toNat _ _ (by rw [hw, UInt64.toNat_one]; omega), hw, UInt64.toNat_one]
    · exact ofNat_of_toNat _ _ hw
  rw [hval]
  unfold ixWord
  by_cases h0 : 0 < r
  · simp only [h0, if_true, ite_self, decide_true, Bool.not_true, Bool.not_false, Bool.and_true, Bool.true_and]
  · have : r < h := by omega
    simp [h0, this]


/-- the part of a nearest copy after the range test -/
theorem rest_near (mode : Mode) (hm : mode = .rne ∨ mode = .rna) (xf s : Bool) (c : Nat) (e : Int) (f fx : UInt32)
    (hfx : fx = ixWord f xf false) (xs : UInt64) (hs : (xs != 0) = s)
    (C1 : U128) (Q E : Int32)
    (hC1 : val128 C1 = c) (hQ : Q.toInt = (ndigits c : Int)) (hE : E.toInt = e) (he1 : -6176 ≤ e) (he2 : e ≤ 6111)
    (hc : 0 < c) (hlt : c < P34)
    (h20 : (ndigits c : Int) + e ≤ 20) (hr : (ndigits c : Int) + e = 20 → s = false ∧ magOf mode false c e < 2^64)
    (le : UInt64 → UInt64 → Bool) (hle : ∀ a b, le a b = decide (cmpM (mode == .rna) a.toNat b.toNat)) (NEGB : R)
    (hnegb : s = false → e < 0 → 1 ≤ (ndigits c : Int) + e → magOf mode false c e < 2^64 →
      NEGB = .ok (UInt64.ofNat (magOf mode false c e), ixWord f xf (exactOf c e))) :
    (if decide (Q + E < (0 : Int32)) = true then .ok (0, fx)
      else if (Q + E == (0 : Int32)) = true then
        halfK le C1 Q (.ok (0, fx)) (if (xs == 0) = true then .ok (1, fx) else INV f)
      else if (xs != 0) = true then INV f else valueK C1 E NEGB (fun r => .ok (r, f))) =
      specFin mode xf s c e f := by
  have hq1 := ndigits_pos hc
  have hq34 : ndigits c ≤ 34 := Dec.C17GenNext.ndigits_le_34 hc hlt
  have hsum := i32_sum Q E _ e hQ hE hq34 he1 he2
  have hxs : (xs == 0) = !s := by rw [← hs, bne, Bool.not_not]
  rw [i32_lt, i32_beq, hsum, show (0 : Int32).toInt = 0 from rfl, hxs, hs]
  by_cases h1 : (ndigits c : Int) + e < 0
  · rw [if_pos (by simpa using h1), small_near mode hm xf s c e f hc (by omega), if_pos (Or.inl h1), hfx]
  · rw [if_neg (by simpa using h1)]
    by_cases h2 : (ndigits c : Int) + e = 0
    · rw [if_pos (by simpa using h2), small_near mode hm xf s c e f hc (by omega),
        halfK_spec le (mode == .rna) hle C1 Q (ndigits c) hQ hq1 hq34, hC1, hfx]
      by_cases h3 : cmpM (mode == .rna) c (5 * 10 ^ (ndigits c - 1))
      · rw [if_pos h3, if_pos (Or.inr h3)]
      · have hno : ¬ ((ndigits c : Int) + e < 0 ∨ cmpM (mode == .rna) c (5 * 10 ^ (ndigits c - 1))) := by
          rintro (h | h)
          · exact h1 h
          · exact h3 h
        rw [if_neg h3, if_neg hno]
        cases s <;> rfl
    · rw [if_neg (by simpa using h2)]
      cases s
      · rw [if_neg Bool.false_ne_true]
        have hmlt : magOf mode false c e < 2^64 := by
          by_cases h : (ndigits c : Int) + e = 20
          · exact (hr h).2
          · have := magOf_le mode false c e 19 hc (by omega)
            have : (10:Nat)^19 < 2^64 := by decide
            omega
        exact value_glue mode xf c e f C1 E hC1 hE hc hmlt _ (fun he => hnegb rfl he (by omega) hmlt)
      · rw [if_pos rfl]
        have := magOf_ge mode true c e 0 hc (by omega)
        rw [specFin_inv mode xf true c e f (by omega) (Or.inl rfl)]

theorem le_rne (a b : UInt64) : (fun a b : UInt64 => decide (a ≤ b)) a b = decide (cmpM (Mode.rne == .rna) a.toNat b.toNat) := by
  show decide (a ≤ b) = decide (a.toNat ≤ b.toNat)
  rw [decide_eq_decide, UInt64.le_iff_toNat_le]

theorem lt_rna (a b : UInt64) : (fun a b : UInt64 => decide (a < b)) a b = decide (cmpM (Mode.rna == .rna) a.toNat b.toNat) := by
  show decide (a < b) = decide (a.toNat < b.toNat)
  rw [decide_eq_decide, UInt64.lt_iff_toNat_lt]

/-- **`bid128_to_uint64_rnint`** (to nearest, ties to even) -/
theorem to_uint64_rnint_spec (x : U128) (f : UInt32) : bid128_to_uint64_rnint x f = specOut .rne false x f := by
  rw [rnint_shape]
  apply front_glue .rne false x f
  intro s C1 Q E c e hs hC1 hc hlt hQ hE he1 he2
  have hq1 := ndigits_pos hc
  have hq34 : ndigits c ≤ 34 := Dec.C17GenNext.ndigits_le_34 hc hlt
  obtain ⟨hlo, hhi⟩ := ndigits_spec hc
  show rangeK negT_rn t19_rn t20_rn t19_rn ⟨0xfffffffffffffffb, 9⟩ tBig_ge _ C1 Q E (INV f) _ = _
  rw [rangeK_spec negT_rn t19_rn t20_rn t19_rn _ tBig_ge T_rn false rangeOK_rn
    (negT_any_inv negT_rn (Or.inr (Or.inl rfl))) _ s hs C1 Q E (ndigits c) e
    hQ hE he1 he2 hq1 hq34 (by rw [hC1]; exact hlo) (by rw [hC1]; exact hhi), hC1]
  refine range_glue .rne false s c e f hc _ (fun h20 hr => ?_)
  exact rest_near .rne (Or.inl rfl) false s c e f f rfl _ hs C1 Q E hC1 hQ hE he1 he2 hc hlt h20 hr _ le_rne _
    (fun _ he hq hm => near_out_rne c e f C1 E hC1 hE he1 hlt he hq hm)

/-- **`bid128_to_uint64_xrnint`** (to nearest, ties to even, inexact signalled) -/
theorem to_uint64_xrnint_spec (x : U128) (f : UInt32) : bid128_to_uint64_xrnint x f = specOut .rne true x f := by
  rw [xrnint_shape]
  apply front_glue .rne true x f
  intro s C1 Q E c e hs hC1 hc hlt hQ hE he1 he2
  have hq1 := ndigits_pos hc
  have hq34 : ndigits c ≤ 34 := Dec.C17GenNext.ndigits_le_34 hc hlt
  obtain ⟨hlo, hhi⟩ := ndigits_spec hc
  show rangeK negT_rn t19_rn t20_rn t19_rn ⟨0xfffffffffffffffb, 9⟩ tBig_ge _ C1 Q E (INV f) _ = _
  rw [rangeK_spec negT_rn t19_rn t20_rn t19_rn _ tBig_ge T_rn false rangeOK_rn
    (negT_any_inv negT_rn (Or.inr (Or.inl rfl))) _ s hs C1 Q E (ndigits c) e
    hQ hE he1 he2 hq1 hq34 (by rw [hC1]; exact hlo) (by rw [hC1]; exact hhi), hC1]
  refine range_glue .rne true s c e f hc _ (fun h20 hr => ?_)
  exact rest_near .rne (Or.inl rfl) true s c e f (IX f) rfl _ hs C1 Q E hC1 hQ hE he1 he2 hc hlt h20 hr _ le_rne _
    (fun _ he hq hm => near_out_xrne c e f C1 E hC1 hE he1 hlt he hq hm)

/-- **`bid128_to_uint64_rninta`** (to nearest, ties away from zero) -/
theorem to_uint64_rninta_spec (x : U128) (f : UInt32) : bid128_to_uint64_rninta x f = specOut .rna false x f := by
  rw [rninta_shape]
  apply front_glue .rna false x f
  intro s C1 Q E c e hs hC1 hc hlt hQ hE he1 he2
  have hq1 := ndigits_pos hc
  have hq34 : ndigits c ≤ 34 := Dec.C17GenNext.ndigits_le_34 hc hlt
  obtain ⟨hlo, hhi⟩ := ndigits_spec hc
  show rangeK negT_rna t19_rn t20_rn t19_rn ⟨0xfffffffffffffffb, 9⟩ tBig_ge _ C1 Q E (INV f) _ = _
  rw [rangeK_spec negT_rna t19_rn t20_rn t19_rn _ tBig_ge T_rn false rangeOK_rn
    (negT_any_inv negT_rna (Or.inr (Or.inr rfl))) _ s hs C1 Q E (ndigits c) e
    hQ hE he1 he2 hq1 hq34 (by rw [hC1]; exact hlo) (by rw [hC1]; exact hhi), hC1]
  refine range_glue .rna false s c e f hc _ (fun h20 hr => ?_)
  exact rest_near .rna (Or.inr rfl) false s c e f f rfl _ hs C1 Q E hC1 hQ hE he1 he2 hc hlt h20 hr _ lt_rna _
    (fun _ he hq hm => near_out_rna c e f C1 E hC1 hE he1 hlt he hq hm)

/-- **`bid128_to_uint64_xrninta`** (to nearest, ties away from zero, inexact signalled) -/
theorem to_uint64_xrninta_spec (x : U128) (f : UInt32) : bid128_to_uint64_xrninta x f = specOut .rna true x f := by
  rw [xrninta_shape]
  apply front_glue .rna true x f
  intro s C1 Q E c e hs hC1 hc hlt hQ hE he1 he2
  have hq1 := ndigits_pos hc
  have hq34 : ndigits c ≤ 34 := Dec.C17GenNext.ndigits_le_34 hc hlt
  obtain ⟨hlo, hhi⟩ := ndigits_spec hc
  show rangeK negT_rna t19_rn t20_rn t19_rn ⟨0xfffffffffffffffb, 9⟩ tBig_ge _ C1 Q E (INV f) _ = _
  rw [rangeK_spec negT_rna t19_rn t20_rn t19_rn _ tBig_ge T_rn false rangeOK_rn
    (negT_any_inv negT_rna (Or.inr (Or.inr rfl))) _ s hs C1 Q E (ndigits c) e
    hQ hE he1 he2 hq1 hq34 (by rw [hC1]; exact hlo) (by rw [hC1]; exact hhi), hC1]
  refine range_glue .rna true s c e f hc _ (fun h20 hr => ?_)
  exact rest_near .rna (Or.inr rfl) true s c e f (IX f) rfl _ hs C1 Q E hC1 hQ hE he1 he2 hc hlt h20 hr _ lt_rna _
    (fun _ he hq hm => near_out_xrna c e f C1 E hC1 hE he1 hlt he hq hm)

/-! ## 9. In the judge's vocabulary, and examples -/

/-- the model's result for the unsigned 64-bit type -/
abbrev modelU64 (mode : Mode) (xf : Bool) (b : Nat) : Int × Flags := toIntD mode xf u64Ty.lo u64Ty.hi u64Ty.indef (decode b)

/-- the model's integer always fits the result type -/
theorem model_range (mode : Mode) (xf : Bool) (b : Nat) : 0 ≤ (modelU64 mode xf b).1 ∧ (modelU64 mode xf b).1 < 2^64 := by
  unfold modelU64
  cases hd : decode b with
  | fin s c e =>
    rw [toIntD_u64]
    split
    · rename_i h
      show 0 ≤ ((magOf mode s c e : Nat) : Int) ∧ ((magOf mode s c e : Nat) : Int) < 2^64
      rcases h with h | ⟨_, h⟩ <;> omega
    · show (0 : Int) ≤ 9223372036854775808 ∧ (9223372036854775808 : Int) < 2^64
      omega
  | inf s =>
    show (0 : Int) ≤ 9223372036854775808 ∧ (9223372036854775808 : Int) < 2^64
    omega
  | nan s g p =>
    show (0 : Int) ≤ 9223372036854775808 ∧ (9223372036854775808 : Int) < 2^64
    omega

/-- a routine that meets `specOut` returns a word whose value is the model's integer, and the incoming status word with
exactly the model's flags or-ed in — what the judge's `expect "convert_to_u64_…"` asks of the API's `(.i value, flags)` -/
theorem meets_model (mode : Mode) (xf : Bool) (x : U128) (f : UInt32) (out : R) (h : out = specOut mode xf x f) :
    ∃ res f', out = .ok (res, f') ∧ ((res.toNat : Nat) : Int) = (modelU64 mode xf (bitsOf x)).1 ∧
      f' = f ||| UInt32.ofNat (modelU64 mode xf (bitsOf x)).2 := by
  obtain ⟨h0, h1⟩ := model_range mode xf (bitsOf x)
  refine ⟨_, _, h, ?_, rfl⟩
  show ((UInt64.ofNat (modelU64 mode xf (bitsOf x)).1.toNat).toNat : Int) = _
  rw [UInt64.toNat_ofNat', Nat.mod_eq_of_lt (by omega)]
  omega

theorem expect_u64 (m : Mode) (b : Nat) (ta : Bool) :
    expect "convert_to_u64_toward_zero" m [.d b] ta = exactly [.i (modelU64 .rtz false b).1] (modelU64 .rtz false b).2 ∧
    expect "convert_to_u64_exact_toward_zero" m [.d b] ta = exactly [.i (modelU64 .rtz true b).1] (modelU64 .rtz true b).2 ∧
    expect "convert_to_u64_toward_negative" m [.d b] ta = exactly [.i (modelU64 .rdn false b).1] (modelU64 .rdn false b).2 ∧
    expect "convert_to_u64_exact_toward_negative" m [.d b] ta = exactly [.i (modelU64 .rdn true b).1] (modelU64 .rdn true b).2 ∧
    expect "convert_to_u64_toward_positive" m [.d b] ta = exactly [.i (modelU64 .rup false b).1] (modelU64 .rup false b).2 ∧
    expect "convert_to_u64_exact_toward_positive" m [.d b] ta = exactly [.i (modelU64 .rup true b).1] (modelU64 .rup true b).2 ∧
    expect "convert_to_u64_ties_to_even" m [.d b] ta = exactly [.i (modelU64 .rne false b).1] (modelU64 .rne false b).2 ∧
    expect "convert_to_u64_exact_ties_to_even" m [.d b] ta = exactly [.i (modelU64 .rne true b).1] (modelU64 .rne true b).2 ∧
    expect "convert_to_u64_ties_to_away" m [.d b] ta = exactly [.i (modelU64 .rna false b).1] (modelU64 .rna false b).2 ∧
    expect "convert_to_u64_exact_ties_to_away" m [.d b] ta = exactly [.i (modelU64 .rna true b).1] (modelU64 .rna true b).2 :=
  ⟨rfl, rfl, rfl, rfl, rfl, rfl, rfl, rfl, rfl, rfl⟩


/-- every one of the ten routines, on every pattern and every status word, returns what the judge expects of the
corresponding `convert_to_u64_*` entry point -/
theorem all_meet_model (x : U128) (f : UInt32) :
    (∃ r f', bid128_to_uint64_int x f = .ok (r, f') ∧ ((r.toNat : Nat) : Int) = (modelU64 .rtz false (bitsOf x)).1 ∧ f' = f ||| UInt32.ofNat (modelU64 .rtz false (bitsOf x)).2) ∧
    (∃ r f', bid128_to_uint64_xint x f = .ok (r, f') ∧ ((r.toNat : Nat) : Int) = (modelU64 .rtz true (bitsOf x)).1 ∧ f' = f ||| UInt32.ofNat (modelU64 .rtz true (bitsOf x)).2) ∧
    (∃ r f', bid128_to_uint64_floor x f = .ok (r, f') ∧ ((r.toNat : Nat) : Int) = (modelU64 .rdn false (bitsOf x)).1 ∧ f' = f ||| UInt32.ofNat (modelU64 .rdn false (bitsOf x)).2) ∧
    (∃ r f', bid128_to_uint64_xfloor x f = .ok (r, f') ∧ ((r.toNat : Nat) : Int) = (modelU64 .rdn true (bitsOf x)).1 ∧ f' = f ||| UInt32.ofNat (modelU64 .rdn true (bitsOf x)).2) ∧
    (∃ r f', bid128_to_uint64_ceil x f = .ok (r, f') ∧ ((r.toNat : Nat) : Int) = (modelU64 .rup false (bitsOf x)).1 ∧ f' = f ||| UInt32.ofNat (modelU64 .rup false (bitsOf x)).2) ∧
    (∃ r f', bid128_to_uint64_xceil x f = .ok (r, f') ∧ ((r.toNat : Nat) : Int) = (modelU64 .rup true (bitsOf x)).1 ∧ f' = f ||| UInt32.ofNat (modelU64 .rup true (bitsOf x)).2) ∧
    (∃ r f', bid128_to_uint64_rnint x f = .ok (r, f') ∧ ((r.toNat : Nat) : Int) = (modelU64 .rne false (bitsOf x)).1 ∧ f' = f ||| UInt32.ofNat (modelU64 .rne false (bitsOf x)).2) ∧
    (∃ r f', bid128_to_uint64_xrnint x f = .ok (r, f') ∧ ((r.toNat : Nat) : Int) = (modelU64 .rne true (bitsOf x)).1 ∧ f' = f ||| UInt32.ofNat (modelU64 .rne true (bitsOf x)).2) ∧
    (∃ r f', bid128_to_uint64_rninta x f = .ok (r, f') ∧ ((r.toNat : Nat) : Int) = (modelU64 .rna false (bitsOf x)).1 ∧ f' = f ||| UInt32.ofNat (modelU64 .rna false (bitsOf x)).2) ∧
    (∃ r f', bid128_to_uint64_xrninta x f = .ok (r, f') ∧ ((r.toNat : Nat) : Int) = (modelU64 .rna true (bitsOf x)).1 ∧ f' = f ||| UInt32.ofNat (modelU64 .rna true (bitsOf x)).2) :=
  ⟨meets_model _ _ x f _ (to_uint64_int_spec x f), meets_model _ _ x f _ (to_uint64_xint_spec x f),
   meets_model _ _ x f _ (to_uint64_floor_spec x f), meets_model _ _ x f _ (to_uint64_xfloor_spec x f),
   meets_model _ _ x f _ (to_uint64_ceil_spec x f), meets_model _ _ x f _ (to_uint64_xceil_spec x f),
   meets_model _ _ x f _ (to_uint64_rnint_spec x f), meets_model _ _ x f _ (to_uint64_xrnint_spec x f),
   meets_model _ _ x f _ (to_uint64_rninta_spec x f), meets_model _ _ x f _ (to_uint64_xrninta_spec x f)⟩

/-! ### examples (the translated routine evaluated, and the model's value through the theorem) -/

-- 18446744073709551615.5 = 2^64 − 1/2 (coefficient 184467440737095516155, 21 digits, 20 integer digits): toward zero and
-- downward give 2^64 − 1; to nearest it is a tie whose even neighbour is 2^64: invalid; upward: invalid
example : bid128_to_uint64_int ⟨0xfffffffffffffffb, 0x303e000000000009⟩ 0 = .ok (18446744073709551615, 0) := by rfl
example : bid128_to_uint64_xfloor ⟨0xfffffffffffffffb, 0x303e000000000009⟩ 0 = .ok (18446744073709551615, 0x20) := by rfl
example : bid128_to_uint64_rnint ⟨0xfffffffffffffffb, 0x303e000000000009⟩ 0 = .ok (0x8000000000000000, 1) := by rfl
example : bid128_to_uint64_rninta ⟨0xfffffffffffffffb, 0x303e000000000009⟩ 0 = .ok (0x8000000000000000, 1) := by rfl
example : bid128_to_uint64_ceil ⟨0xfffffffffffffffb, 0x303e000000000009⟩ 0 = .ok (0x8000000000000000, 1) := by rfl
example : specOut .rne false ⟨0xfffffffffffffffb, 0x303e000000000009⟩ 0 = .ok (0x8000000000000000, 1) := by decide +kernel
example : specOut .rtz false ⟨0xfffffffffffffffb, 0x303e000000000009⟩ 0 = .ok (18446744073709551615, 0) := by decide +kernel
-- 18446744073709551615.4: the nearest copies give 2^64 − 1 and signal inexact; upward is invalid
example : bid128_to_uint64_xrnint ⟨0xfffffffffffffffa, 0x303e000000000009⟩ 0 = .ok (18446744073709551615, 0x20) := by rfl
example : bid128_to_uint64_xrninta ⟨0xfffffffffffffffa, 0x303e000000000009⟩ 0 = .ok (18446744073709551615, 0x20) := by rfl
example : bid128_to_uint64_xceil ⟨0xfffffffffffffffa, 0x303e000000000009⟩ 0 = .ok (0x8000000000000000, 1) := by rfl
example : specOut .rna true ⟨0xfffffffffffffffa, 0x303e000000000009⟩ 0 = .ok (18446744073709551615, 0x20) := by decide +kernel
-- −0.3: toward zero and upward give (−0 =) 0, downward is −1: invalid; −0.5 is a tie: to even 0, away −1: invalid
example : bid128_to_uint64_xint ⟨3, 0xb03e000000000000⟩ 0 = .ok (0, 0x20) := by rfl
example : bid128_to_uint64_ceil ⟨3, 0xb03e000000000000⟩ 0 = .ok (0, 0) := by rfl
example : bid128_to_uint64_floor ⟨3, 0xb03e000000000000⟩ 0 = .ok (0x8000000000000000, 1) := by rfl
example : bid128_to_uint64_rnint ⟨5, 0xb03e000000000000⟩ 0 = .ok (0, 0) := by rfl
example : bid128_to_uint64_rninta ⟨5, 0xb03e000000000000⟩ 0 = .ok (0x8000000000000000, 1) := by rfl
example : specOut .rdn false ⟨3, 0xb03e000000000000⟩ 0 = .ok (0x8000000000000000, 1) := by decide +kernel
example : specOut .rup true ⟨3, 0xb03e000000000000⟩ 0 = .ok (0, 0x20) := by decide +kernel
-- 2.5 ↦ 2 (even) / 3 (away); 3.5 ↦ 4, inexact; 2.5 upward with overflow already raised ↦ 3, inexact or-ed in
example : bid128_to_uint64_rnint ⟨25, 0x303e000000000000⟩ 0 = .ok (2, 0) := by rfl
example : bid128_to_uint64_rninta ⟨25, 0x303e000000000000⟩ 0 = .ok (3, 0) := by rfl
example : bid128_to_uint64_xrnint ⟨35, 0x303e000000000000⟩ 0 = .ok (4, 0x20) := by rfl
example : bid128_to_uint64_xceil ⟨25, 0x303e000000000000⟩ 8 = .ok (3, 0x28) := by rfl
example : specOut .rne true ⟨35, 0x303e000000000000⟩ 0 = .ok (4, 0x20) := by decide +kernel
-- the negative operand −18446744073709551615.5 (q = 21 at q + exp = 20, the branch with the vacuous test): invalid
example : bid128_to_uint64_int ⟨0xfffffffffffffffb, 0xb03e000000000009⟩ 0 = .ok (0x8000000000000000, 1) := by rfl
example : bid128_to_uint64_rnint ⟨0xfffffffffffffffb, 0xb03e000000000009⟩ 0 = .ok (0x8000000000000000, 1) := by rfl
-- a positive exponent: 1844674407370955161E+1 fits, 1844674407370955162E+1 ≥ 2^64 does not; a NaN; a non-canonical zero
example : bid128_to_uint64_int ⟨1844674407370955161, 0x3042000000000000⟩ 0 = .ok (18446744073709551610, 0) := by rfl
example : bid128_to_uint64_int ⟨1844674407370955162, 0x3042000000000000⟩ 0 = .ok (0x8000000000000000, 1) := by rfl
example : bid128_to_uint64_xrnint ⟨7, 0x7c00000000000000⟩ 0x20 = .ok (0x8000000000000000, 0x21) := by rfl
example : bid128_to_uint64_xceil ⟨0xffffffffffffffff, 0x3041ffffffffffff⟩ 0 = .ok (0, 0) := by rfl

end Dec.C06GenToUInt64
