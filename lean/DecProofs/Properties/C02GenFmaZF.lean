/-
  C02GenFmaZ (part F: the overflow sub-case of Case (1')) — see C02GenFmaZ.lean
-/
import DecProofs.Properties.C02GenFmaZE
set_option linter.unusedSimpArgs false
set_option linter.unusedVariables false
namespace Dec.C02GenFmaZ
open Dec Dec.Rs Dec.Gen.Code Dec.C03GenCompare Dec.C02GenCorrection
open Dec.C08GenRoundIntegral (bind_ok' ite_true_bool ite_false_bool i32_add i32_sub i32_neg)
open Dec.C01GenAdd (idx_i32 ten2k128_get19 lt113)

/-! ## 9. The overflow sub-case of Case (1'): the translated text in slices -/


/-- Case (1'), overflow sub-case: half a unit of the product's leading place, from the midpoint tables (the translated expression) -/
def ovfHalf {α : Type} (q4 : Int32) (k : U256 → Except String α) : Except String α := do
  let mut C4_half : U256 := (← (if (decide (q4 ≤ (0x13 : Int32))) then (do pure (⟨(← tbl64 Dec.Gen.BID_MIDPOINT64 (UInt64.ofInt (toI ((q4 - (1 : Int32)))))), (0 : UInt64), (0 : UInt64), (0 : UInt64)⟩ : U256)) else (do pure (← (if (decide (q4 ≤ (0x26 : Int32))) then (do pure (⟨(← tbl128 Dec.Gen.BID_MIDPOINT128 (UInt64.ofInt (toI ((q4 - (0x14 : Int32)))))).w0, (← tbl128 Dec.Gen.BID_MIDPOINT128 (UInt64.ofInt (toI ((q4 - (0x14 : Int32)))))).w1, (0 : UInt64), (0 : UInt64)⟩ : U256)) else (do pure (← (if (decide (q4 ≤ (0x3a : Int32))) then (do pure (⟨(← tbl192 Dec.Gen.BID_MIDPOINT192 (UInt64.ofInt (toI ((q4 - (0x27 : Int32)))))).w0, (← tbl192 Dec.Gen.BID_MIDPOINT192 (UInt64.ofInt (toI ((q4 - (0x27 : Int32)))))).w1, (← tbl192 Dec.Gen.BID_MIDPOINT192 (UInt64.ofInt (toI ((q4 - (0x27 : Int32)))))).w2, (0 : UInt64)⟩ : U256)) else (do pure (← tbl256 Dec.Gen.BID_MIDPOINT256 (UInt64.ofInt (toI ((q4 - (0x3b : Int32)))))))))))))))
  k C4_half

/-- Case (1'), overflow sub-case: "nearest mode, opposite signs, a one-digit gap below `10^33·10^(emax+1)`" (the translated expression) -/
def ovfNear {α : Type} (rnd_mode : RoundingMode) (z_sign p_sign : UInt64) (C3 : U128) (q3 e3 delta p34 : Int32) (k : Bool → Except String α) : Except String α := do
  let t ← (if ((((((rnd_mode == RoundingMode.NearestEven) || (rnd_mode == RoundingMode.NearestAway))) && (p_sign != z_sign)) && (delta == (p34 + (1 : Int32)))) && (((q3 + e3)) == (((p34 + c_EXP_MAX_UNBIASED) + (1 : Int32))))) then (do pure ((← (if (← (if ((← (if (decide (q3 ≤ (0x13 : Int32))) then (do pure (C3.w0 == (← tbl64 Dec.Gen.BID_TEN2K64 (UInt64.ofInt (toI ((q3 - (1 : Int32)))))))) else pure false))) then pure true else (do pure ((← (if ((q3 == (0x14 : Int32)) && (C3.w1 == (0 : UInt64))) then (do pure (C3.w0 == (← tbl64 Dec.Gen.BID_TEN2K64 (UInt64.ofInt (toI 0x13))))) else pure false)))))) then pure true else (do pure ((← (if (← (if (decide (q3 ≥ (0x15 : Int32))) then (do pure (C3.w1 == (← tbl128 Dec.Gen.BID_TEN2K128 (UInt64.ofInt (toI ((q3 - (0x15 : Int32)))))).w1)) else pure false)) then (do pure (C3.w0 == (← tbl128 Dec.Gen.BID_TEN2K128 (UInt64.ofInt (toI ((q3 - (0x15 : Int32)))))).w0)) else pure false)))))))) else pure false)
  k t

/-- `C4 > C4_half`, word by word (the translated expression) -/
abbrev ovfGt (C4 C4_half : U256) : Bool :=
  (((decide (C4.w3 > C4_half.w3)) || (((C4.w3 == C4_half.w3) && (((decide (C4.w2 > C4_half.w2)) || (((C4.w2 == C4_half.w2) && (((decide (C4.w1 > C4_half.w1)) || (((C4.w1 == C4_half.w1) && (decide (C4.w0 > C4_half.w0))))))))))))))

/-- Case (1'), overflow sub-case, the overflow proper: infinity in nearest-even, otherwise the padded `z` through the correction (the translated text) -/
def ovfMain (ptr_is_midpoint_lt_even_ : Bool) (ptr_is_midpoint_gt_even_ : Bool) (ptr_is_inexact_lt_midpoint_ : Bool) (ptr_is_inexact_gt_midpoint_ : Bool) (rnd_mode_ : RoundingMode) (pfpsf_ : UInt32) (res_ : U128) (z_sign_ : UInt64) (p_sign_ : UInt64) (C3_ : U128) (q3_ : Int32) (e3_ : Int32) (scale_ : Int32) (p34_ : Int32) (is_midpoint_lt_even_ : Bool) (is_midpoint_gt_even_ : Bool) (is_inexact_lt_midpoint_ : Bool) (is_inexact_gt_midpoint_ : Bool) : Except String (U128 × Bool × Bool × Bool × Bool × UInt32) := do
  let mut ptr_is_midpoint_lt_even : Bool := ptr_is_midpoint_lt_even_
  let mut ptr_is_midpoint_gt_even : Bool := ptr_is_midpoint_gt_even_
  let mut ptr_is_inexact_lt_midpoint : Bool := ptr_is_inexact_lt_midpoint_
  let mut ptr_is_inexact_gt_midpoint : Bool := ptr_is_inexact_gt_midpoint_
  let mut rnd_mode : RoundingMode := rnd_mode_
  let mut pfpsf : UInt32 := pfpsf_
  let mut res : U128 := res_
  let mut z_sign : UInt64 := z_sign_
  let mut p_sign : UInt64 := p_sign_
  let mut C3 : U128 := C3_
  let mut q3 : Int32 := q3_
  let mut e3 : Int32 := e3_
  let mut scale : Int32 := scale_
  let mut p34 : Int32 := p34_
  let mut is_midpoint_lt_even : Bool := is_midpoint_lt_even_
  let mut is_midpoint_gt_even : Bool := is_midpoint_gt_even_
  let mut is_inexact_lt_midpoint : Bool := is_inexact_lt_midpoint_
  let mut is_inexact_gt_midpoint : Bool := is_inexact_gt_midpoint_
  if (rnd_mode == RoundingMode.NearestEven) then
    res := { res with w1 := (z_sign ||| (0x7800000000000000 : UInt64)) }
    res := { res with w0 := (0 : UInt64) }
    pfpsf := (pfpsf ||| (c_StatusFlags_BID_INEXACT_EXCEPTION ||| c_StatusFlags_BID_OVERFLOW_EXCEPTION))
  else
    if (p_sign == z_sign) then
      is_inexact_lt_midpoint := true
    else
      is_inexact_gt_midpoint := true
    scale := (p34 - q3)
    if (scale == (0 : Int32)) then
      res := { res with w1 := (z_sign ||| C3.w1) }
      res := { res with w0 := C3.w0 }
    else
      if (decide (q3 ≤ (0x13 : Int32))) then
        if (decide (scale ≤ (0x13 : Int32))) then
          res := (← mul_64x64_to_128MACH C3.w0 (← tbl64 Dec.Gen.BID_TEN2K64 (UInt64.ofInt (toI scale))))
        else
          res := (← mul_128x64_to_128 C3.w0 (← tbl128 Dec.Gen.BID_TEN2K128 (UInt64.ofInt (toI ((scale - (0x14 : Int32)))))))
      else
        res := (← mul_128x64_to_128 (← tbl64 Dec.Gen.BID_TEN2K64 (UInt64.ofInt (toI scale))) C3)
    e3 := (e3 - scale)
    res := { res with w1 := (res.w1 ||| z_sign) }
    let t__20 ← bid_rounding_correction rnd_mode is_inexact_lt_midpoint is_inexact_gt_midpoint is_midpoint_lt_even is_midpoint_gt_even e3 res pfpsf
    res := t__20.1
    pfpsf := t__20.2
  ptr_is_midpoint_lt_even := is_midpoint_lt_even
  ptr_is_midpoint_gt_even := is_midpoint_gt_even
  ptr_is_inexact_lt_midpoint := is_inexact_lt_midpoint
  ptr_is_inexact_gt_midpoint := is_inexact_gt_midpoint
  return (res, ptr_is_midpoint_lt_even, ptr_is_midpoint_gt_even, ptr_is_inexact_lt_midpoint, ptr_is_inexact_gt_midpoint, pfpsf)

theorem z1Ovf_eq (pml pmg pil pig : Bool) (m : RoundingMode) (pfpsf : UInt32) (res : U128) (z_sign p_sign : UInt64)
    (C3 : U128) (C4 : U256) (q3 q4 e3 scale delta p34 : Int32) (ml mg il ig : Bool) :
    z1Ovf pml pmg pil pig m pfpsf res z_sign p_sign C3 C4 q3 q4 e3 scale delta p34 ml mg il ig =
      ovfHalf q4 fun h => ovfNear m z_sign p_sign C3 q3 e3 delta p34 fun t =>
        if (t && ovfGt C4 h) = true then
          .ok (⟨0x378d8e63ffffffff, z_sign ||| 0x5fffed09bead87c0⟩, ml, mg, true, ig, pfpsf ||| c_StatusFlags_BID_INEXACT_EXCEPTION)
        else ovfMain pml pmg pil pig m pfpsf res z_sign p_sign C3 q3 e3 scale p34 ml mg il ig := by
  rfl


/-- a coefficient below `2^113` under the sign word: sign and coefficient of the pair of words -/
theorem signed_words (l h sw : UInt64) (s : Bool) (M : Nat) (hP : h.toNat * 2^64 + l.toNat = M) (hM : M < 2^113)
    (hsw : sw.toNat = if s then 2^63 else 0) :
    negW (h ||| sw).toNat = s ∧ sigW (h ||| sw).toNat l.toNat = M := by
  have hl := l.toNat_lt
  have hh : h.toNat < 2^49 := by omega
  have hor : (h ||| sw).toNat = (if s then 1 else 0) * 2^63 + h.toNat := by
    rw [UInt64.toNat_or, hsw]
    cases s
    · simp
    · simp only [if_true]
      have := Dec.C17GenNext.or_sign h.toNat 1 (by omega)
      rw [Nat.one_mul] at this
      rw [this, Nat.one_mul]
  rw [hor]; unfold negW sigW
  cases s <;> simp only [if_true, if_false, Bool.false_eq_true, decide_eq_true_eq, decide_eq_false_iff_not] <;> omega

/-- **the overflow proper** in nearest-even: infinity under the sign of `z`, overflow and inexact, no indicator -/
theorem ovfMain_rne (pml pmg pil pig : Bool) (pfpsf : UInt32) (res : U128) (z_sign p_sign : UInt64)
    (C3 : U128) (q3 e3 scale p34 : Int32) :
    ovfMain pml pmg pil pig .NearestEven pfpsf res z_sign p_sign C3 q3 e3 scale p34 false false false false =
      .ok (⟨0, z_sign ||| 0x7800000000000000⟩, false, false, false, false,
        pfpsf ||| (c_StatusFlags_BID_INEXACT_EXCEPTION ||| c_StatusFlags_BID_OVERFLOW_EXCEPTION)) := by
  rfl

/-- **the overflow proper** in the other modes: `z` padded to 34 digits under its sign goes through the correction with
the one inexact indicator -/
theorem ovfMain_corr (pml pmg pil pig : Bool) (m : RoundingMode) (hm : m ≠ .NearestEven) (pfpsf : UInt32) (res : U128)
    (z_sign p_sign : UInt64)
    (C3 : U128) (q3 e3 scale p34 : Int32) (c3 : Nat) (E3 : Int) (sz sp : Bool)
    (hC3 : C3.w1.toNat * 2^64 + C3.w0.toNat = c3) (hc0 : 0 < c3) (hc34 : c3 < 10 ^ 34) (hq3 : q3.toInt = ndigits c3)
    (he3 : e3.toInt = E3) (hE1 : -6176 ≤ E3) (hE2 : E3 ≤ 12222)
    (hzs : z_sign.toNat = if sz then 2^63 else 0) (hps : p_sign.toNat = if sp then 2^63 else 0) (hp : p34 = 34) :
    ∃ (r : U128) (e : Int32), negW r.w1.toNat = sz ∧ sigW r.w1.toNat r.w0.toNat = c3 * 10 ^ (34 - ndigits c3) ∧
      e.toInt = E3 - (34 - ndigits c3 : Nat) ∧
      ovfMain pml pmg pil pig m pfpsf res z_sign p_sign C3 q3 e3 scale p34 false false false false =
        (bid_rounding_correction m (sp == sz) (!(sp == sz)) false false e r pfpsf).bind fun t =>
          .ok (t.1, false, false, sp == sz, !(sp == sz), t.2) := by
  have hQ34 : ndigits c3 ≤ 34 := Dec.C08GenRoundIntegral.ndigits_le_34 c3 (by rw [Dec.C13PackHelpers.P34_eq']; exact hc34)
  have hQ1 := ndigits_pos hc0
  obtain ⟨S, hS⟩ : ∃ S, S = 34 - ndigits c3 := ⟨_, rfl⟩
  rw [← hS]
  have hsc : (p34 - q3).toInt = S := by rw [hp, i32_sub _ _ (by decide) (by omega), hq3]; show (34 : Int) - _ = _; omega
  have he' : (e3 - (p34 - q3)).toInt = E3 - S := by rw [i32_sub _ _ (by omega) (by omega), he3, hsc]
  have hlt := Dec.C01GenAdd.pow_lt_of_digits (C := c3) (Q := ndigits c3) (S := S) rfl (by omega)
  have hsb := sign_beq p_sign z_sign sp sz hps hzs
  have fin : ∀ rr : U128, rr.w1.toNat * 2^64 + rr.w0.toNat = c3 * 10 ^ S →
      negW (rr.w1 ||| z_sign).toNat = sz ∧ sigW (rr.w1 ||| z_sign).toNat rr.w0.toNat = c3 * 10 ^ S := fun rr hr =>
    signed_words rr.w0 rr.w1 z_sign sz _ hr (lt113 hlt) hzs
  have hmb : (m == RoundingMode.NearestEven) = false := by simpa using hm
  by_cases hS0 : S = 0
  · have hz : (p34 - q3 == 0) = true := by rw [beq_zero_i32 _ S hsc]; simpa using hS0
    obtain ⟨f1, f2⟩ := fin ⟨C3.w0, C3.w1⟩ (by rw [hS0]; simpa using hC3)
    refine ⟨⟨C3.w0, C3.w1 ||| z_sign⟩, e3 - (p34 - q3), f1, f2, he', ?_⟩
    have hw : (z_sign ||| C3.w1) ||| z_sign = C3.w1 ||| z_sign := by
      rw [UInt64.or_comm z_sign C3.w1, UInt64.or_assoc, UInt64.or_self]
    simp only [ovfMain, bind, pure, Except.pure, bind_ok', hmb, hz, hsb, if_true, if_false, Bool.false_eq_true, hw]
    cases hs : (sp == sz) <;> simp only [hs, if_true, if_false, Bool.false_eq_true, Bool.not_true, Bool.not_false]
  · have hz : ¬ (p34 - q3 == 0) = true := by rw [beq_zero_i32 _ S hsc]; simpa using hS0
    obtain ⟨d1, d2, g1, g2, g3⟩ := pad_facts q3 (p34 - q3) C3 c3 (ndigits c3) S hC3 hq3 hsc rfl hc0 (by omega) (by omega)
    by_cases c1 : ndigits c3 ≤ 19
    · by_cases c2 : S ≤ 19
      · obtain ⟨v, r, hv, hr, hrv⟩ := g1 c1 c2
        obtain ⟨f1, f2⟩ := fin r hrv
        refine ⟨⟨r.w0, r.w1 ||| z_sign⟩, e3 - (p34 - q3), f1, f2, he', ?_⟩
        simp only [ovfMain, bind, pure, Except.pure, bind_ok', hmb, hz, hsb, if_true, if_false, Bool.false_eq_true, d1, d2, c1, c2,
          decide_true, hv, hr]
        cases hs : (sp == sz) <;> simp only [hs, if_true, if_false, Bool.false_eq_true, Bool.not_true, Bool.not_false]
      · obtain ⟨v, r, hv, hr, hrv⟩ := g2 c1 (by omega)
        obtain ⟨f1, f2⟩ := fin r hrv
        refine ⟨⟨r.w0, r.w1 ||| z_sign⟩, e3 - (p34 - q3), f1, f2, he', ?_⟩
        simp only [ovfMain, bind, pure, Except.pure, bind_ok', hmb, hz, hsb, if_true, if_false, Bool.false_eq_true, d1, d2, c1, c2,
          decide_true, decide_false, hv, hr]
        cases hs : (sp == sz) <;> simp only [hs, if_true, if_false, Bool.false_eq_true, Bool.not_true, Bool.not_false]
    · obtain ⟨v, r, hv, hr, hrv⟩ := g3 (by omega)
      obtain ⟨f1, f2⟩ := fin r hrv
      refine ⟨⟨r.w0, r.w1 ||| z_sign⟩, e3 - (p34 - q3), f1, f2, he', ?_⟩
      simp only [ovfMain, bind, pure, Except.pure, bind_ok', hmb, hz, hsb, if_true, if_false, Bool.false_eq_true, d1, d2, c1,
        decide_true, decide_false, hv, hr]
      cases hs : (sp == sz) <;> simp only [hs, if_true, if_false, Bool.false_eq_true, Bool.not_true, Bool.not_false]


/-! ### the midpoint tables: entry `j` is `5·10^j` (offset by the table's first exponent) -/

theorem mid64_all : (List.range 19).all (fun j =>
    match tbl64 Dec.Gen.BID_MIDPOINT64 (UInt64.ofNat j) with
    | .ok v => decide (v.toNat = 5 * 10^j)
    | .error _ => false) = true := by
  decide +kernel

theorem mid64_get (j : Nat) (hj : j < 19) : ∃ v, tbl64 Dec.Gen.BID_MIDPOINT64 (UInt64.ofNat j) = .ok v ∧ v.toNat = 5 * 10^j := by
  have h := List.all_eq_true.1 mid64_all j (List.mem_range.2 hj)
  cases ht : tbl64 Dec.Gen.BID_MIDPOINT64 (UInt64.ofNat j) with
  | error e => rw [ht] at h; exact absurd h (by simp)
  | ok v => rw [ht] at h; exact ⟨v, rfl, by simpa using h⟩

theorem mid128_all : (List.range 19).all (fun j =>
    match tbl128 Dec.Gen.BID_MIDPOINT128 (UInt64.ofNat j) with
    | .ok v => decide (v.w1.toNat * 2^64 + v.w0.toNat = 5 * 10^(j+19))
    | .error _ => false) = true := by
  decide +kernel

theorem mid128_get (j : Nat) (hj : j < 19) :
    ∃ v, tbl128 Dec.Gen.BID_MIDPOINT128 (UInt64.ofNat j) = .ok v ∧ v.w1.toNat * 2^64 + v.w0.toNat = 5 * 10^(j+19) := by
  have h := List.all_eq_true.1 mid128_all j (List.mem_range.2 hj)
  cases ht : tbl128 Dec.Gen.BID_MIDPOINT128 (UInt64.ofNat j) with
  | error e => rw [ht] at h; exact absurd h (by simp)
  | ok v => rw [ht] at h; exact ⟨v, rfl, by simpa using h⟩

theorem mid192_all : (List.range 20).all (fun j =>
    match tbl192 Dec.Gen.BID_MIDPOINT192 (UInt64.ofNat j) with
    | .ok v => decide (v.w2.toNat * 2^128 + v.w1.toNat * 2^64 + v.w0.toNat = 5 * 10^(j+38))
    | .error _ => false) = true := by
  decide +kernel

theorem mid192_get (j : Nat) (hj : j < 20) :
    ∃ v, tbl192 Dec.Gen.BID_MIDPOINT192 (UInt64.ofNat j) = .ok v ∧
      v.w2.toNat * 2^128 + v.w1.toNat * 2^64 + v.w0.toNat = 5 * 10^(j+38) := by
  have h := List.all_eq_true.1 mid192_all j (List.mem_range.2 hj)
  cases ht : tbl192 Dec.Gen.BID_MIDPOINT192 (UInt64.ofNat j) with
  | error e => rw [ht] at h; exact absurd h (by simp)
  | ok v => rw [ht] at h; exact ⟨v, rfl, by simpa using h⟩

theorem mid256_all : (List.range 19).all (fun j =>
    match tbl256 Dec.Gen.BID_MIDPOINT256 (UInt64.ofNat j) with
    | .ok v => decide (v.w3.toNat * 2^192 + v.w2.toNat * 2^128 + v.w1.toNat * 2^64 + v.w0.toNat = 5 * 10^(j+58))
    | .error _ => false) = true := by
  decide +kernel

theorem mid256_get (j : Nat) (hj : j < 19) :
    ∃ v, tbl256 Dec.Gen.BID_MIDPOINT256 (UInt64.ofNat j) = .ok v ∧
      v.w3.toNat * 2^192 + v.w2.toNat * 2^128 + v.w1.toNat * 2^64 + v.w0.toNat = 5 * 10^(j+58) := by
  have h := List.all_eq_true.1 mid256_all j (List.mem_range.2 hj)
  cases ht : tbl256 Dec.Gen.BID_MIDPOINT256 (UInt64.ofNat j) with
  | error e => rw [ht] at h; exact absurd h (by simp)
  | ok v => rw [ht] at h; exact ⟨v, rfl, by simpa using h⟩

/-- the value of four words -/
abbrev v4 (x : U256) : Nat := x.w3.toNat * 2^192 + x.w2.toNat * 2^128 + x.w1.toNat * 2^64 + x.w0.toNat

/-- **half a unit of the product's leading place** from the midpoint tables -/
theorem ovfHalf_spec {α : Type} (q4 : Int32) (k : U256 → Except String α) (Q4 : Nat) (hq4 : q4.toInt = Q4) (h1 : 1 ≤ Q4)
    (h2 : Q4 ≤ 68) : ∃ h : U256, ovfHalf q4 k = k h ∧ v4 h = 5 * 10 ^ (Q4 - 1) := by
  by_cases c1 : Q4 ≤ 19
  · have d1 : decide (q4 ≤ 0x13) = true := by
      rw [decide_eq_true_eq, Int32.le_iff_toInt_le, hq4]; show (Q4 : Int) ≤ 19; omega
    have hi : (q4 - 1).toInt = ((Q4 - 1 : Nat) : Int) := by
      rw [i32_sub _ _ (by omega) (by decide), hq4]; show (Q4 : Int) - 1 = _; omega
    obtain ⟨v, hv, hvn⟩ := mid64_get (Q4 - 1) (by omega)
    refine ⟨⟨v, 0, 0, 0⟩, ?_, ?_⟩
    · simp only [ovfHalf, bind, pure, Except.pure, bind_ok', d1, if_true, idx_i32 _ _ hi, hv]
    · show (0 : UInt64).toNat * 2^192 + (0 : UInt64).toNat * 2^128 + (0 : UInt64).toNat * 2^64 + v.toNat = _
      rw [hvn]; simp
  · have d1 : decide (q4 ≤ 0x13) = false := by
      rw [decide_eq_false_iff_not, Int32.le_iff_toInt_le, hq4]; show ¬ (Q4 : Int) ≤ 19; omega
    by_cases c2 : Q4 ≤ 38
    · have d2 : decide (q4 ≤ 0x26) = true := by
        rw [decide_eq_true_eq, Int32.le_iff_toInt_le, hq4]; show (Q4 : Int) ≤ 38; omega
      have hi : (q4 - 0x14).toInt = ((Q4 - 20 : Nat) : Int) := by
        rw [i32_sub _ _ (by omega) (by decide), hq4]; show (Q4 : Int) - 20 = _; omega
      obtain ⟨v, hv, hvn⟩ := mid128_get (Q4 - 20) (by omega)
      refine ⟨⟨v.w0, v.w1, 0, 0⟩, ?_, ?_⟩
      · simp only [ovfHalf, bind, pure, Except.pure, bind_ok', d1, d2, if_true, if_false, Bool.false_eq_true, idx_i32 _ _ hi, hv]
      · show (0 : UInt64).toNat * 2^192 + (0 : UInt64).toNat * 2^128 + v.w1.toNat * 2^64 + v.w0.toNat = _
        rw [show Q4 - 1 = Q4 - 20 + 19 by omega, ← hvn]; simp
    · have d2 : decide (q4 ≤ 0x26) = false := by
        rw [decide_eq_false_iff_not, Int32.le_iff_toInt_le, hq4]; show ¬ (Q4 : Int) ≤ 38; omega
      by_cases c3 : Q4 ≤ 58
      · have d3 : decide (q4 ≤ 0x3a) = true := by
          rw [decide_eq_true_eq, Int32.le_iff_toInt_le, hq4]; show (Q4 : Int) ≤ 58; omega
        have hi : (q4 - 0x27).toInt = ((Q4 - 39 : Nat) : Int) := by
          rw [i32_sub _ _ (by omega) (by decide), hq4]; show (Q4 : Int) - 39 = _; omega
        obtain ⟨v, hv, hvn⟩ := mid192_get (Q4 - 39) (by omega)
        refine ⟨⟨v.w0, v.w1, v.w2, 0⟩, ?_, ?_⟩
        · simp only [ovfHalf, bind, pure, Except.pure, bind_ok', d1, d2, d3, if_true, if_false, Bool.false_eq_true,
            idx_i32 _ _ hi, hv]
        · show (0 : UInt64).toNat * 2^192 + v.w2.toNat * 2^128 + v.w1.toNat * 2^64 + v.w0.toNat = _
          rw [show Q4 - 1 = Q4 - 39 + 38 by omega, ← hvn]; simp
      · have d3 : decide (q4 ≤ 0x3a) = false := by
          rw [decide_eq_false_iff_not, Int32.le_iff_toInt_le, hq4]; show ¬ (Q4 : Int) ≤ 58; omega
        have hi : (q4 - 0x3b).toInt = ((Q4 - 59 : Nat) : Int) := by
          rw [i32_sub _ _ (by omega) (by decide), hq4]; show (Q4 : Int) - 59 = _; omega
        obtain ⟨v, hv, hvn⟩ := mid256_get (Q4 - 59) (by omega)
        refine ⟨v, ?_, ?_⟩
        · simp only [ovfHalf, bind, pure, Except.pure, bind_ok', d1, d2, d3, if_true, if_false, Bool.false_eq_true,
            idx_i32 _ _ hi, hv]
        · show v.w3.toNat * 2^192 + v.w2.toNat * 2^128 + v.w1.toNat * 2^64 + v.w0.toNat = _
          rw [show Q4 - 1 = Q4 - 59 + 58 by omega, ← hvn]

/-- four-word "greater than" -/
theorem ovfGt_eq (a b : U256) : ovfGt a b = decide (v4 b < v4 a) := by
  have a0 := a.w0.toNat_lt; have a1 := a.w1.toNat_lt; have a2 := a.w2.toNat_lt; have a3 := a.w3.toNat_lt
  have b0 := b.w0.toNat_lt; have b1 := b.w1.toNat_lt; have b2 := b.w2.toNat_lt; have b3 := b.w3.toNat_lt
  unfold ovfGt v4
  rw [Bool.eq_iff_iff]
  simp only [Bool.or_eq_true, Bool.and_eq_true, decide_eq_true_eq, beq_iff_eq, gt_iff_lt, UInt64.lt_iff_toNat_lt,
    ← UInt64.toNat_inj]
  omega


theorem beq_nat (a b : UInt64) : (a == b) = decide (a.toNat = b.toNat) := by
  rw [Bool.eq_iff_iff, beq_iff_eq, decide_eq_true_eq, ← UInt64.toNat_inj]

set_option maxRecDepth 4000 in
/-- the test of the repaired overflow sub-case: a nearest mode, opposite signs, `delta = 35`, `q3 + e3 = emax + 35`, and
`C3` a power of ten -/
theorem ovfNear_spec {α : Type} (m : RoundingMode) (z_sign p_sign : UInt64) (C3 : U128) (q3 e3 delta p34 : Int32)
    (k : Bool → Except String α) (c3 : Nat) (E3 δ : Int) (sz sp : Bool)
    (hC3 : C3.w1.toNat * 2^64 + C3.w0.toNat = c3) (hc0 : 0 < c3) (hc34 : c3 < 10 ^ 34) (hq3 : q3.toInt = ndigits c3)
    (he3 : e3.toInt = E3) (hE1 : -6176 ≤ E3) (hE2 : E3 ≤ 12222) (hd : delta.toInt = δ)
    (hzs : z_sign.toNat = if sz then 2^63 else 0) (hps : p_sign.toNat = if sp then 2^63 else 0) (hp : p34 = 34) :
    ovfNear m z_sign p_sign C3 q3 e3 delta p34 k =
      k (decide ((m = .NearestEven ∨ m = .NearestAway) ∧ sp ≠ sz ∧ δ = 35 ∧ (ndigits c3 : Int) + E3 = 6146 ∧
        c3 = 10 ^ (ndigits c3 - 1))) := by
  have hQ34 : ndigits c3 ≤ 34 := Dec.C08GenRoundIntegral.ndigits_le_34 c3 (by rw [Dec.C13PackHelpers.P34_eq']; exact hc34)
  have hQ1 := ndigits_pos hc0
  obtain ⟨hlo, hhi⟩ := ndigits_spec hc0
  have h0 := C3.w0.toNat_lt
  have hA : (((((m == RoundingMode.NearestEven) || (m == RoundingMode.NearestAway)) && (p_sign != z_sign)) &&
      (delta == (p34 + (1 : Int32)))) && ((q3 + e3) == ((p34 + c_EXP_MAX_UNBIASED) + (1 : Int32)))) =
      decide ((m = .NearestEven ∨ m = .NearestAway) ∧ sp ≠ sz ∧ δ = 35 ∧ (ndigits c3 : Int) + E3 = 6146) := by
    rw [sign_bne _ _ _ _ hps hzs, Bool.eq_iff_iff]
    simp only [Bool.and_eq_true, Bool.or_eq_true, beq_iff_eq, bne_iff_ne, decide_eq_true_eq, ne_eq, ← Int32.toInt_inj, hp]
    rw [hd, show ((34 : Int32) + 1).toInt = 35 from rfl, show ((34 : Int32) + c_EXP_MAX_UNBIASED + 1).toInt = 6146 from rfl,
      i32_add q3 e3 (by omega) (by omega), hq3, he3]
    constructor
    · rintro ⟨⟨⟨a, b⟩, c⟩, d⟩; exact ⟨a, b, c, d⟩
    · rintro ⟨a, b, c, d⟩; exact ⟨⟨⟨a, b⟩, c⟩, d⟩
  by_cases hcond : (m = .NearestEven ∨ m = .NearestAway) ∧ sp ≠ sz ∧ δ = 35 ∧ (ndigits c3 : Int) + E3 = 6146
  swap
  · have hA' := hA; rw [show decide _ = false from by simpa using hcond] at hA'
    rw [show decide (_ ∧ _ ∧ _ ∧ _ ∧ _) = false from by
      rw [decide_eq_false_iff_not]; rintro ⟨a, b, c, d, _⟩; exact hcond ⟨a, b, c, d⟩]
    simp only [ovfNear, bind, pure, Except.pure, bind_ok', hA', if_false, Bool.false_eq_true]
  have hA' := hA; rw [show decide _ = true from by simpa using hcond] at hA'
  have hfinal : decide ((m = .NearestEven ∨ m = .NearestAway) ∧ sp ≠ sz ∧ δ = 35 ∧ (ndigits c3 : Int) + E3 = 6146 ∧
        c3 = 10 ^ (ndigits c3 - 1)) = decide (c3 = 10 ^ (ndigits c3 - 1)) := by
    rw [decide_eq_decide]
    exact ⟨fun h => h.2.2.2.2, fun h => ⟨hcond.1, hcond.2.1, hcond.2.2.1, hcond.2.2.2, h⟩⟩
  rw [hfinal]
  by_cases c1 : ndigits c3 ≤ 19
  · have d1 : decide (q3 ≤ 0x13) = true := by
      rw [decide_eq_true_eq, Int32.le_iff_toInt_le, hq3]; show (ndigits c3 : Int) ≤ 19; omega
    have d2 : (q3 == 0x14) = false := by
      rw [beq_eq_false_iff_ne, Ne, ← Int32.toInt_inj, hq3]; show ¬ (ndigits c3 : Int) = 20; omega
    have d3 : decide (q3 ≥ 0x15) = false := by
      rw [decide_eq_false_iff_not, ge_iff_le, Int32.le_iff_toInt_le, hq3]; show ¬ (21 : Int) ≤ ndigits c3; omega
    have hi : (q3 - 1).toInt = ((ndigits c3 - 1 : Nat) : Int) := by
      rw [i32_sub _ _ (by omega) (by decide), hq3]; show (ndigits c3 : Int) - 1 = _; omega
    obtain ⟨v, hv, hvn⟩ := Dec.C13GenNoncomp.ten2k64_get (ndigits c3 - 1) (by omega)
    have hlt : c3 < 2^64 := lt_of_lt_of_le hhi (le_trans (Nat.pow_le_pow_right (by decide) c1) (by decide))
    have hw1 : C3.w1.toNat = 0 := by omega
    simp only [ovfNear, bind, pure, Except.pure, bind_ok', hA', d1, d2, d3, if_true, if_false, Bool.false_eq_true, Bool.false_and,
      idx_i32 _ _ hi, hv]
    rw [beq_nat, hvn]
    by_cases h : C3.w0.toNat = 10 ^ (ndigits c3 - 1)
    · rw [show decide (c3 = 10 ^ (ndigits c3 - 1)) = true from by rw [decide_eq_true_eq]; omega]
      simp only [h, decide_true, if_true]
      rfl
    · rw [show decide (c3 = 10 ^ (ndigits c3 - 1)) = false from by rw [decide_eq_false_iff_not]; omega]
      simp only [h, decide_false, if_false, Bool.false_eq_true]
      rfl
  · have d1 : decide (q3 ≤ 0x13) = false := by
      rw [decide_eq_false_iff_not, Int32.le_iff_toInt_le, hq3]; show ¬ (ndigits c3 : Int) ≤ 19; omega
    by_cases c2 : ndigits c3 = 20
    · have d2 : (q3 == 0x14) = true := by
        rw [beq_iff_eq, ← Int32.toInt_inj, hq3]; show (ndigits c3 : Int) = 20; omega
      have d3 : decide (q3 ≥ 0x15) = false := by
        rw [decide_eq_false_iff_not, ge_iff_le, Int32.le_iff_toInt_le, hq3]; show ¬ (21 : Int) ≤ ndigits c3; omega
      obtain ⟨v, hv, hvn⟩ := Dec.C13GenNoncomp.ten2k64_get 19 (by decide)
      have hidx : UInt64.ofInt (toI 0x13) = UInt64.ofNat 19 := rfl
      rw [c2]
      simp only [ovfNear, bind, pure, Except.pure, bind_ok', hA', d1, d2, d3, if_true, if_false, Bool.false_eq_true, Bool.true_and,
        hidx, hv]
      rw [beq_nat]
      by_cases h1 : C3.w1.toNat = (0 : UInt64).toNat
      · have h1' : C3.w1.toNat = 0 := h1
        simp only [h1, decide_true, if_true]
        rw [beq_nat, hvn]
        by_cases h : C3.w0.toNat = 10 ^ 19
        · rw [show decide (c3 = 10 ^ (20 - 1)) = true from by rw [decide_eq_true_eq]; omega]
          simp only [h, decide_true, if_true]
          rfl
        · rw [show decide (c3 = 10 ^ (20 - 1)) = false from by rw [decide_eq_false_iff_not]; omega]
          simp only [h, decide_false, if_false, Bool.false_eq_true]
          rfl
      · have h1' : C3.w1.toNat ≠ 0 := h1
        rw [show decide (c3 = 10 ^ (20 - 1)) = false from by rw [decide_eq_false_iff_not]; omega]
        simp only [h1, decide_false, if_false, Bool.false_eq_true]
        rfl
    · have d2 : (q3 == 0x14) = false := by
        rw [beq_eq_false_iff_ne, Ne, ← Int32.toInt_inj, hq3]; show ¬ (ndigits c3 : Int) = 20; omega
      have d3 : decide (q3 ≥ 0x15) = true := by
        rw [decide_eq_true_eq, ge_iff_le, Int32.le_iff_toInt_le, hq3]; show (21 : Int) ≤ ndigits c3; omega
      have hi : (q3 - 0x15).toInt = ((ndigits c3 - 21 : Nat) : Int) := by
        rw [i32_sub _ _ (by omega) (by decide), hq3]; show (ndigits c3 : Int) - 21 = _; omega
      obtain ⟨v, hv, hvn⟩ := ten2k128_get19 (ndigits c3 - 21) (by omega)
      have hvn' : v.w0.toNat + 2^64 * v.w1.toNat = 10 ^ (ndigits c3 - 1) := by
        rw [show ndigits c3 - 1 = ndigits c3 - 21 + 20 by omega, ← hvn]; rfl
      have hv0 := v.w0.toNat_lt
      simp only [ovfNear, bind, pure, Except.pure, bind_ok', hA', d1, d2, d3, if_true, if_false, Bool.false_eq_true, Bool.false_and,
        idx_i32 _ _ hi, hv]
      rw [beq_nat]
      by_cases h1 : C3.w1.toNat = v.w1.toNat
      · simp only [h1, decide_true, if_true]
        rw [beq_nat]
        by_cases h : C3.w0.toNat = v.w0.toNat
        · rw [show decide (c3 = 10 ^ (ndigits c3 - 1)) = true from by rw [decide_eq_true_eq]; omega]
          simp only [h, decide_true, if_true]
          rfl
        · rw [show decide (c3 = 10 ^ (ndigits c3 - 1)) = false from by rw [decide_eq_false_iff_not]; omega]
          simp only [h, decide_false, if_false, Bool.false_eq_true]
          rfl
      · rw [show decide (c3 = 10 ^ (ndigits c3 - 1)) = false from by rw [decide_eq_false_iff_not]; omega]
        simp only [h1, decide_false, if_false, Bool.false_eq_true]
        rfl


/-! ## 10. The overflow sub-case: mathematics and assembly -/

theorem sign_word_eq (a b : UInt64) (h : negW a.toNat = negW b.toNat) : a &&& c_MASK_SIGN = b &&& c_MASK_SIGN := by
  apply UInt64.toNat_inj.1
  rw [show c_MASK_SIGN = 0x8000000000000000 from rfl, Dec.C17GenNext.sign_toNat, Dec.C17GenNext.sign_toNat]
  unfold negW at h
  have := a.toNat_lt; have := b.toNat_lt
  by_cases h1 : a.toNat / 2^63 % 2 = 1 <;> by_cases h2 : b.toNat / 2^63 % 2 = 1 <;> simp [h1, h2] at h <;> omega

/-- in a directed mode, "`10^33` at `e`, the exact value below it" and "`10^34 − 1` at `e − 1`, the exact value above
it" are corrected to the same result -/
theorem correction_transfer (m : RoundingMode) (ef : Int)
    (hm : m = .Upward ∨ m = .Downward ∨ m = .TowardZero ∨ (m = .NearestAway ∧ 6112 < ef)) (e e' : Int32)
    (r r' : U128) (pf : UInt32) (he : e.toInt = ef) (he' : e'.toInt = ef - 1) (h1 : -6176 < ef) (h2 : ef < 26590)
    (hs : negW r.w1.toNat = negW r'.w1.toNat) (hc : sigW r.w1.toNat r.w0.toNat = P33)
    (hc' : sigW r'.w1.toNat r'.w0.toNat = P34 - 1) :
    bid_rounding_correction m false true false false e r pf = bid_rounding_correction m true false false false e' r' pf := by
  rw [correction_eval m false true false false e r pf ef P33 he (by omega) (by omega) hc (by decide) (fun _ _ => by decide),
    correction_eval m true false false false e' r' pf (ef - 1) (P34 - 1) he' (by omega) (by omega) hc' (by decide)
      (fun _ _ => by decide)]
  have hsw := sign_word_eq _ _ hs
  unfold outW
  rw [← hsw, ← hs]
  have hbit : r'.w1.toNat / 2^63 % 2 = r.w1.toNat / 2^63 % 2 := by
    have := congrArg UInt64.toNat hsw
    rw [show c_MASK_SIGN = 0x8000000000000000 from rfl, Dec.C17GenNext.sign_toNat, Dec.C17GenNext.sign_toNat] at this
    omega
  rw [hbit]
  generalize negW r.w1.toNat = s
  have e34 : P34 = 10000000000000000000000000000000000 := rfl
  have e33 : P33 = 1000000000000000000000000000000000 := rfl
  have hp1 : P34 - 1 + 1 = P34 := by decide
  rcases hm with rfl | rfl | rfl | ⟨rfl, hbig⟩ <;> cases s <;>
    simp only [upD, downD, stepC, Bool.not_true, Bool.not_false, Bool.true_and, Bool.false_and, Bool.or_false, Bool.or_true,
      Bool.false_or, Bool.true_or, if_true, if_false, Bool.false_eq_true, h1, hp1, Int.sub_add_cancel, reduceCtorEq]
  all_goals
    rw [if_pos (by omega), if_pos (by omega), show decide (6111 < ef) = true from by simpa using (by omega : 6111 < ef),
      show decide (6111 < ef - 1) = true from by simpa using (by omega : 6111 < ef - 1)]

/-- a delivery without a tie, in mode nearest-away: as in nearest-even -/
theorem Deliv.nearest_away {s : Bool} {N : Nat} {E4 ef : Int} {cf : Nat} {L G : Bool} (h : Deliv s N E4 ef cf L G false false)
    (pref : Int) :
    finish .rna s N 1 E4 pref =
      if eMax < (deliver cf ef).2 then (.inf s, fOverflow ||| fInexact)
      else (.fin s (deliver cf ef).1 (deliver cf ef).2,
        if N < 10 ^ 33 * 10 ^ (ef - E4).toNat then fUnderflow ||| fInexact else fInexact) := by
  obtain ⟨hE, hef1, hef2, hne, hL, hG, hML, hMG, hcf, hcarry, hlow, hinex, hlt, hleast⟩ := h
  have e34 : P34 = 10000000000000000000000000000000000 := rfl
  have e33 : P33 = 1000000000000000000000000000000000 := rfl
  have hna : RoundedInt .rna s N (10 ^ (ef - E4).toNat) cf := by
    have h1 : ¬ (2 * N + 10 ^ (ef - E4).toNat = 2 * (cf * 10 ^ (ef - E4).toNat)) := by simpa using hML.symm
    have h2 : ¬ (2 * N = 2 * (cf * 10 ^ (ef - E4).toNat) + 10 ^ (ef - E4).toNat) := by simpa using hMG.symm
    have e3 : ∀ a : Nat, 2 * a * 10 ^ (ef - E4).toNat = 2 * (a * 10 ^ (ef - E4).toNat) := fun a => Nat.mul_assoc _ _ _
    simp only [RoundedInt, e3] at hne ⊢
    refine ⟨hne.1, fun ht => ?_⟩
    rcases ht with ht | ht
    · exact absurd ht h2
    · exact absurd ht.symm h1
  have hfin := finish_of_rounded .rna s N E4 ef pref (deliver cf ef).1 (deliver cf ef).2 hE (by unfold eMin; exact hef1) hinex hlt
    hleast (by
      unfold deliver
      by_cases hc : cf = P34
      · simp only [hc, if_true]
        rw [show ef + 1 - ef = 1 by omega, show P33 * 10 ^ (1 : Int).toNat = cf from by rw [hc]; rfl]
        exact hna
      · simp only [hc, if_false]
        rw [Int.sub_self]
        simpa using hna)
    (by unfold deliver; split <;> simp only [] <;> omega) (by unfold deliver; split <;> simp only [] <;> omega)
    (by unfold deliver; split <;> simp only [] <;> omega)
    (by unfold deliver; split <;> simp only [] <;> intro h <;> omega)
  rw [hfin]
  have : overflowResult .rna s = .inf s := by cases s <;> rfl
  rw [this]

/-- a delivery that is not tiny, through the correction: the encoding of `finish`'s datum, the flags OR-ed -/
theorem Deliv.corr_nt {s : Bool} {N : Nat} {E4 ef : Int} {cf : Nat} {L G ML MG : Bool} (h : Deliv s N E4 ef cf L G ML MG)
    (hnt : ¬ N < 10 ^ 33 * 10 ^ (ef - E4).toNat) (m : RoundingMode) (hm : m ≠ .NearestEven) (e : Int32) (res : U128)
    (pf : UInt32) (pref : Int) (hs : negW res.w1.toNat = s) (hc : sigW res.w1.toNat res.w0.toNat = (deliver cf ef).1)
    (he : e.toInt = (deliver cf ef).2) :
    bid_rounding_correction m L G ML MG e res pf =
      .ok (ofBits (encode (finish (modeOf m) s N 1 E4 pref).1), pf ||| UInt32.ofNat (finish (modeOf m) s N 1 E4 pref).2) := by
  obtain ⟨uf, ov, hcode, hfl, huf, hov⟩ := h.corrected m hm e res pf pref hs hc he
  rw [hcode, hfl]
  have := flags_corr pf (N < 10 ^ 33 * 10 ^ (ef - E4).toNat) uf ov huf hov
  rw [if_neg hnt] at this
  rw [this]

/-- the exceptional region of the overflow sub-case (the D19 repair): `z` padded is `10^33·10^(emax+1)`, the product of the
opposite sign starts one digit below and exceeds half a unit there -/
def ovfSpecial (sz sp : Bool) (c3 c4 : Nat) (E3 E4 : Int) : Prop :=
  sp ≠ sz ∧ (ndigits c3 : Int) + E3 - ndigits c4 - E4 = 35 ∧ (ndigits c3 : Int) + E3 = 6146 ∧ c3 = 10 ^ (ndigits c3 - 1) ∧
    10 ^ ndigits c4 < 2 * c4

instance (sz sp : Bool) (c3 c4 : Nat) (E3 E4 : Int) : Decidable (ovfSpecial sz sp c3 c4 E3 E4) := by
  unfold ovfSpecial; infer_instance

/-- **the mathematics of the overflow sub-case** -/
theorem ovf_math (sz sp : Bool) (c3 c4 : Nat) (E3 E4 pref : Int) (hc0 : 0 < c3) (hc34 : c3 < 10 ^ 34) (h40 : 0 < c4)
    (hE2 : E3 ≤ 12222) (hbig : 6146 ≤ (ndigits c3 : Int) + E3) (hδ : 35 ≤ (ndigits c3 : Int) + E3 - ndigits c4 - E4) :
    (ovfSpecial sz sp c3 c4 E3 E4 →
      addFin .rne sp c4 E4 sz c3 E3 pref = (.fin sz (P34 - 1) 6111, fInexact) ∧
      addFin .rna sp c4 E4 sz c3 E3 pref = (.fin sz (P34 - 1) 6111, fInexact)) ∧
    (¬ ovfSpecial sz sp c3 c4 E3 E4 → addFin .rne sp c4 E4 sz c3 E3 pref = (.inf sz, fOverflow ||| fInexact)) ∧
    (∀ m : RoundingMode, m ≠ .NearestEven → ¬ (ovfSpecial sz sp c3 c4 E3 E4 ∧ m = .NearestAway) →
      ∀ (r : U128) (e : Int32) (pf : UInt32), negW r.w1.toNat = sz →
        sigW r.w1.toNat r.w0.toNat = c3 * 10 ^ (34 - ndigits c3) → e.toInt = E3 - (34 - ndigits c3 : Nat) →
        bid_rounding_correction m (sp == sz) (!(sp == sz)) false false e r pf =
          .ok (ofBits (encode (addFin (modeOf m) sp c4 E4 sz c3 E3 pref).1),
            pf ||| UInt32.ofNat (addFin (modeOf m) sp c4 E4 sz c3 E3 pref).2)) := by
  have hQ34 : ndigits c3 ≤ 34 := Dec.C08GenRoundIntegral.ndigits_le_34 c3 (by rw [Dec.C13PackHelpers.P34_eq']; exact hc34)
  have hQ1 := ndigits_pos hc0
  have hq4 := ndigits_pos h40
  obtain ⟨S, hS⟩ : ∃ S, S = 34 - ndigits c3 := ⟨_, rfl⟩
  rw [← hS]
  have hQS : ndigits c3 + S = 34 := by omega
  obtain ⟨g, hg⟩ : ∃ g : Nat, (g : Int) = (ndigits c3 : Int) + E3 - ndigits c4 - E4 - ndigits c3 - S :=
    ⟨((ndigits c3 : Int) + E3 - ndigits c4 - E4 - ndigits c3 - S).toNat, by omega⟩
  have hg1 : 1 ≤ g := by omega
  obtain ⟨hEle, hD, hA⟩ := gap_pow c3 c4 S E3 E4 g hg
  obtain ⟨hcf34, _, hcfu⟩ := pad_bounds c3 S hc0 (by omega)
  have hcf33 := hcfu hQS
  have hc4 : c4 < 10 ^ ndigits c4 := lt_pow_ndigits c4
  have hgp : 10 ≤ 10 ^ g := by
    calc 10 = 10 ^ 1 := rfl
      _ ≤ 10 ^ g := Nat.pow_le_pow_right (by decide) hg1
  have hQ4p : 0 < 10 ^ ndigits c4 := Nat.pow_pos (by decide)
  have hDge : 10 ^ ndigits c4 * 10 ≤ 10 ^ (E3 - S - E4).toNat := by rw [hD]; exact Nat.mul_le_mul_left _ hgp
  have hsm : 2 * c4 < 10 ^ (E3 - S - E4).toNat := by omega
  have hcfpos : 0 < c3 * 10 ^ S := Nat.mul_pos hc0 (Nat.pow_pos (by decide))
  have hdom : c4 < c3 * 10 ^ (E3 - E4).toNat := by
    rw [← hA]
    calc c4 < 10 ^ (E3 - S - E4).toNat := by omega
      _ ≤ c3 * 10 ^ S * 10 ^ (E3 - S - E4).toNat := Nat.le_mul_of_pos_left _ hcfpos
  have hadd : ∀ mode, addFin mode sp c4 E4 sz c3 E3 pref = finish mode sz
      (if sp = sz then c3 * 10 ^ S * 10 ^ (E3 - S - E4).toNat + c4 else c3 * 10 ^ S * 10 ^ (E3 - S - E4).toNat - c4) 1 E4 pref := by
    intro mode
    rw [addFin_dom mode sp sz c4 c3 E4 E3 pref (by omega) hdom, hA]
  have e34 : P34 = 10000000000000000000000000000000000 := rfl
  have e33 : P33 = 1000000000000000000000000000000000 := rfl
  have hef : 6112 ≤ E3 - S := by omega
  have hnodel : deliver (c3 * 10 ^ S) (E3 - S) = (c3 * 10 ^ S, E3 - S) := by unfold deliver; rw [if_neg (by omega)]
  -- an ordinary delivery at the exponent of the padded z: nothing special, overflow
  have ordinary : ∀ (N : Nat) (L G ML MG : Bool), Deliv sz N E4 (E3 - S) (c3 * 10 ^ S) L G ML MG →
      (∀ mode, addFin mode sp c4 E4 sz c3 E3 pref = finish mode sz N 1 E4 pref) →
      ¬ N < 10 ^ 33 * 10 ^ (E3 - S - E4).toNat →
      addFin .rne sp c4 E4 sz c3 E3 pref = (.inf sz, fOverflow ||| fInexact) ∧
      (∀ m : RoundingMode, m ≠ .NearestEven → ∀ (r : U128) (e : Int32) (pf : UInt32), negW r.w1.toNat = sz →
        sigW r.w1.toNat r.w0.toNat = c3 * 10 ^ S → e.toInt = E3 - S →
        bid_rounding_correction m L G ML MG e r pf =
          .ok (ofBits (encode (addFin (modeOf m) sp c4 E4 sz c3 E3 pref).1),
            pf ||| UInt32.ofNat (addFin (modeOf m) sp c4 E4 sz c3 E3 pref).2)) := by
    intro N L G ML MG hdl hN hnt
    refine ⟨?_, fun m hm r e pf h1 h2 h3 => ?_⟩
    · rw [hN, hdl.nearest pref, hnodel, if_pos (by unfold eMax; show (6111 : Int) < E3 - S; omega)]
    · rw [hN]
      exact hdl.corr_nt hnt m hm e r pf pref h1 (by rw [hnodel]; exact h2) (by rw [hnodel]; exact h3)
  obtain ⟨D, hDd⟩ : ∃ D, D = 10 ^ (E3 - S - E4).toNat := ⟨_, rfl⟩
  obtain ⟨cf, hcf⟩ : ∃ cf, cf = c3 * 10 ^ S := ⟨_, rfl⟩
  have hDp : 0 < D := by rw [hDd]; exact Nat.pow_pos (by decide)
  by_cases hsg : sp = sz
  · -- same signs
    have hns : ¬ ovfSpecial sz sp c3 c4 E3 E4 := fun h => h.1 hsg
    have hb : (sp == sz) = true := by simpa using hsg
    have hdl := deliv_add sz (c3 * 10 ^ S) c4 E4 (E3 - S) hEle (by omega) (by omega) h40 hsm hcf34 (Or.inr hcf33)
    obtain ⟨o1, o2⟩ := ordinary _ _ _ _ _ hdl (fun mode => by rw [hadd mode, if_pos hsg]) (by
      rw [← hDd]
      have := Nat.mul_le_mul_right D hcf33
      omega)
    refine ⟨fun h => absurd h hns, fun _ => o1, fun m hm _ r e pf h1 h2 h3 => ?_⟩
    rw [hb]; exact o2 m hm r e pf h1 h2 h3
  · have hb : (sp == sz) = false := by simpa using hsg
    rw [hb]
    simp only [Bool.not_false]
    by_cases hc : c3 * 10 ^ S = 10 ^ 33
    swap
    · -- opposite signs, z padded above 10^33
      have hns : ¬ ovfSpecial sz sp c3 c4 E3 E4 := fun h => hc (pad_of_pow c3 S hc0 hQS h.2.2.2.1)
      have hdl := deliv_sub sz (c3 * 10 ^ S) c4 E4 (E3 - S) hEle (by omega) (by omega) h40 hsm hcfpos hcf34 (Or.inr (by omega))
      obtain ⟨o1, o2⟩ := ordinary _ _ _ _ _ hdl (fun mode => by rw [hadd mode, if_neg hsg]) (by
        rw [← hDd]
        have := Nat.mul_le_mul_right D (show 10 ^ 33 + 1 ≤ c3 * 10 ^ S by omega)
        rw [Nat.add_mul] at this
        rw [← hDd] at hsm
        omega)
      exact ⟨fun h => absurd h hns, fun _ => o1, fun m hm _ r e pf h1 h2 h3 => o2 m hm r e pf h1 h2 h3⟩
    · -- opposite signs, z padded = 10^33: one exponent lower
      have hpow : c3 = 10 ^ (ndigits c3 - 1) := (pow_of_pad c3 S hc0 (by omega) hc).1
      have hE' : E4 ≤ E3 - S - 1 := by omega
      have hg' : (E3 - S - E4).toNat = (E3 - S - 1 - E4).toNat + 1 := by omega
      have hD' : 10 ^ (E3 - S - 1 - E4).toNat = 10 ^ ndigits c4 * 10 ^ (g - 1) := by
        rw [← Nat.pow_add]; congr 1; omega
      have hN : c3 * 10 ^ S * 10 ^ (E3 - S - E4).toNat = P34 * 10 ^ (E3 - S - 1 - E4).toNat := by
        rw [hg', Nat.pow_succ, hc, e34]; generalize 10 ^ (E3 - S - 1 - E4).toNat = D'; omega
      have haddN : ∀ mode, addFin mode sp c4 E4 sz c3 E3 pref = finish mode sz (P34 * 10 ^ (E3 - S - 1 - E4).toNat - c4) 1 E4 pref := by
        intro mode; rw [hadd mode, if_neg hsg, hN]
      have hdelP : deliver P34 (E3 - S - 1) = (c3 * 10 ^ S, E3 - S) := by
        unfold deliver; rw [if_pos rfl, hc]
        exact Prod.ext (by show P33 = _; rw [e33]; rfl) (by show E3 - S - 1 + 1 = _; omega)
      obtain ⟨D', hD'd⟩ : ∃ D', D' = 10 ^ (E3 - S - 1 - E4).toNat := ⟨_, rfl⟩
      have hD'p : 0 < D' := by rw [hD'd]; exact Nat.pow_pos (by decide)
      have hnt' : ¬ P34 * D' - c4 < 10 ^ 33 * D' := by
        have : c4 < D' := by
          rw [hD'd, hD']
          calc c4 < 10 ^ ndigits c4 := hc4
            _ ≤ 10 ^ ndigits c4 * 10 ^ (g - 1) := Nat.le_mul_of_pos_right _ (Nat.pow_pos (by decide))
        rw [e34]; omega
      -- a delivery of 10^34 one exponent lower (below half a unit there, or a tie)
      have lower : ∀ (L G ML MG : Bool), Deliv sz (P34 * D' - c4) E4 (E3 - S - 1) P34 L G ML MG →
          addFin .rne sp c4 E4 sz c3 E3 pref = (.inf sz, fOverflow ||| fInexact) ∧
          (∀ m : RoundingMode, m ≠ .NearestEven → ∀ (r : U128) (e : Int32) (pf : UInt32), negW r.w1.toNat = sz →
            sigW r.w1.toNat r.w0.toNat = c3 * 10 ^ S → e.toInt = E3 - S →
            bid_rounding_correction m L G ML MG e r pf =
              .ok (ofBits (encode (addFin (modeOf m) sp c4 E4 sz c3 E3 pref).1),
                pf ||| UInt32.ofNat (addFin (modeOf m) sp c4 E4 sz c3 E3 pref).2)) := by
        intro L G ML MG hdl
        refine ⟨?_, fun m hm r e pf h1 h2 h3 => ?_⟩
        · rw [haddN, ← hD'd, hdl.nearest pref, hdelP, if_pos (by unfold eMax; show (6111 : Int) < E3 - S; omega)]
        · rw [haddN, ← hD'd]
          exact hdl.corr_nt (by rw [← hD'd]; exact hnt') m hm e r pf pref h1 (by rw [hdelP]; exact h2) (by rw [hdelP]; exact h3)
      by_cases hlo : 2 * c4 < D'
      · have hns : ¬ ovfSpecial sz sp c3 c4 E3 E4 := by
          rintro ⟨_, h2, _, _, h5⟩
          have : g = 1 := by omega
          rw [hD'd, hD', this] at hlo
          simp at hlo; omega
        have hdl := deliv_sub_pow sz c4 E4 (E3 - S) hE' (by omega) (by omega) h40 (by rw [← hD'd]; exact hlo)
        rw [← hD'd] at hdl
        obtain ⟨o1, o2⟩ := lower _ _ _ _ hdl
        exact ⟨fun h => absurd h hns, fun _ => o1, fun m hm _ r e pf h1 h2 h3 => o2 m hm r e pf h1 h2 h3⟩
      · -- then the gap is one digit: D' = 10^q4
        have hg1' : g = 1 := by
          by_contra hne
          have : 10 ≤ 10 ^ (g - 1) := by
            calc 10 = 10 ^ 1 := rfl
              _ ≤ 10 ^ (g - 1) := Nat.pow_le_pow_right (by decide) (by omega)
          have : 10 ^ ndigits c4 * 10 ≤ D' := by rw [hD'd, hD']; exact Nat.mul_le_mul_left _ this
          omega
        have hD'q : D' = 10 ^ ndigits c4 := by rw [hD'd, hD', hg1']; simp
        by_cases htie : 2 * c4 = D'
        · have hns : ¬ ovfSpecial sz sp c3 c4 E3 E4 := by
            rintro ⟨_, _, _, _, h5⟩; omega
          have hdl := deliv_sub_pow_tie sz c4 E4 (E3 - S) hE' (by omega) (by omega) h40 (by rw [← hD'd]; exact htie)
          rw [← hD'd] at hdl
          obtain ⟨o1, o2⟩ := lower _ _ _ _ hdl
          refine ⟨fun h => absurd h hns, fun _ => o1, fun m hm _ r e pf h1 h2 h3 => ?_⟩
          rw [← correction_swap]
          exact o2 m hm r e pf h1 h2 h3
        · have hhi : D' < 2 * c4 := by omega
          have hc4' : c4 < D' := by rw [hD'q]; exact hc4
          have hdl := deliv_sub_pow_hi sz c4 E4 (E3 - S) hE' (by omega) (by omega) (by rw [← hD'd]; exact hhi)
            (by rw [← hD'd]; exact hc4')
          rw [← hD'd] at hdl
          have hdel2 : deliver (P34 - 1) (E3 - S - 1) = (P34 - 1, E3 - S - 1) := by
            unfold deliver; rw [if_neg (by decide)]
          have hspec : ovfSpecial sz sp c3 c4 E3 E4 ↔ E3 - S = 6112 := by
            unfold ovfSpecial
            constructor
            · rintro ⟨_, _, h3, _, _⟩; omega
            · intro h; exact ⟨hsg, by omega, by omega, hpow, by rw [← hD'q]; exact hhi⟩
          -- the correction: by transfer to the true delivery
          have corr : ∀ m : RoundingMode, m ≠ .NearestEven → ¬ (ovfSpecial sz sp c3 c4 E3 E4 ∧ m = .NearestAway) →
              ∀ (r : U128) (e : Int32) (pf : UInt32), negW r.w1.toNat = sz →
              sigW r.w1.toNat r.w0.toNat = c3 * 10 ^ S → e.toInt = E3 - S →
              bid_rounding_correction m false true false false e r pf =
                .ok (ofBits (encode (addFin (modeOf m) sp c4 E4 sz c3 E3 pref).1),
                  pf ||| UInt32.ofNat (addFin (modeOf m) sp c4 E4 sz c3 E3 pref).2) := by
            intro m hm hnsp r e pf h1 h2 h3
            have hmm : m = .Upward ∨ m = .Downward ∨ m = .TowardZero ∨ (m = .NearestAway ∧ 6112 < E3 - S) := by
              cases m
              · exact absurd rfl hm
              · exact Or.inr (Or.inl rfl)
              · exact Or.inl rfl
              · exact Or.inr (Or.inr (Or.inl rfl))
              · refine Or.inr (Or.inr (Or.inr ⟨rfl, ?_⟩))
                by_contra hcon
                exact hnsp ⟨hspec.2 (by omega), rfl⟩
            have he1 : (e - 1).toInt = E3 - S - 1 := by
              rw [Dec.C08GenRoundIntegral.i32_sub _ _ (by omega) (by decide), h3]; rfl
            have hw1 := enc_neg sz (P34 - 1) 0 (by decide) (by decide) (by decide)
            have hw2 := enc_sig sz (P34 - 1) 0 (by decide) (by decide) (by decide)
            rw [correction_transfer m (E3 - S) hmm e (e - 1) r (ofBits (encode (.fin sz (P34 - 1) 0))) pf h3 he1
              (by omega) (by omega) (by rw [h1, hw1]) (by rw [h2, hc, e33]; rfl) hw2, haddN, ← hD'd]
            exact hdl.corr_nt (by rw [← hD'd]; exact hnt') m hm (e - 1) _ pf pref hw1 (by rw [hdel2]; exact hw2)
              (by rw [hdel2]; exact he1)
          refine ⟨fun hsp => ?_, fun hnsp => ?_, corr⟩
          · have h6 := hspec.1 hsp
            constructor
            · rw [haddN, ← hD'd, hdl.nearest pref, hdel2, if_neg (by unfold eMax; show ¬ (6111 : Int) < E3 - S - 1; omega),
                ← hD'd, if_neg hnt']
              show (Datum.fin sz (P34 - 1) (E3 - S - 1), fInexact) = _
              rw [show E3 - S - 1 = 6111 by omega]
            · rw [haddN, ← hD'd, hdl.nearest_away pref, hdel2, if_neg (by unfold eMax; show ¬ (6111 : Int) < E3 - S - 1; omega),
                ← hD'd, if_neg hnt']
              show (Datum.fin sz (P34 - 1) (E3 - S - 1), fInexact) = _
              rw [show E3 - S - 1 = 6111 by omega]
          · have h6 : E3 - S ≠ 6112 := fun h => hnsp (hspec.2 h)
            rw [haddN, ← hD'd, hdl.nearest pref, hdel2, if_pos (by unfold eMax; show (6111 : Int) < E3 - S - 1; omega)]

theorem maxfp_word (z_sign : UInt64) (sz : Bool) (hzs : z_sign.toNat = if sz then 2^63 else 0) :
    (⟨0x378d8e63ffffffff, z_sign ||| 0x5fffed09bead87c0⟩ : U128) = ofBits (encode (.fin sz (P34 - 1) 6111)) := by
  have : z_sign = if sz then 0x8000000000000000 else 0 := by
    apply UInt64.toNat_inj.1; rw [hzs]; cases sz <;> rfl
  subst this
  cases sz <;> decide

theorem inf_word (z_sign : UInt64) (sz : Bool) (hzs : z_sign.toNat = if sz then 2^63 else 0) :
    (⟨0, z_sign ||| 0x7800000000000000⟩ : U128) = ofBits (encode (.inf sz)) := by
  have : z_sign = if sz then 0x8000000000000000 else 0 := by
    apply UInt64.toNat_inj.1; rw [hzs]; cases sz <;> rfl
  subst this
  cases sz <;> decide

/-- the two inexact indicators the overflow sub-case hands back -/
def ovfInd (m : RoundingMode) (sz sp : Bool) (c3 c4 : Nat) (E3 E4 : Int) : Bool × Bool :=
  if ovfSpecial sz sp c3 c4 E3 E4 ∧ (m = .NearestEven ∨ m = .NearestAway) then (true, false)
  else if m = .NearestEven then (false, false) else (sp == sz, !(sp == sz))

/-- **Case (1'), the overflow sub-case** (`q3 + e3 > 34 + emax`: reached only with the product as the dominant term) -/
theorem caseZ1_ovf (C3 : U128) (C4 : U256) (q3 q4 e3 delta p34 : Int32) (z_sign p_sign z_exp : UInt64)
    (sz sp : Bool) (c3 c4 : Nat) (E3 E4 : Int)
    (inv : ZInv C3 C4 q3 q4 e3 delta p34 z_sign p_sign z_exp sz sp c3 c4 E3 E4)
    (hov : ((decide ((q3 + e3) > (p34 + c_EXP_MAX_UNBIASED))) && (decide (p34 ≤ (delta - (1 : Int32))))) = true)
    (pml pmg pil pig : Bool) (m : RoundingMode) (pfpsf : UInt32) (res : U128) (scale ind : Int32) (incr : Bool) (R64 : UInt64)
    (P128 R128 : U128) (P192 R192 : U192) (R256 : U256) (pref : Int) :
    caseZ1 pml pmg pil pig m pfpsf res z_sign p_sign z_exp C3 C4 q3 q4 e3 scale ind delta p34 false false false false incr
        R64 P128 R128 P192 R192 R256 =
      .ok (ofBits (encode (addFin (modeOf m) sp c4 E4 sz c3 E3 pref).1), false, false,
        (ovfInd m sz sp c3 c4 E3 E4).1, (ovfInd m sz sp c3 c4 E3 E4).2,
        pfpsf ||| UInt32.ofNat (addFin (modeOf m) sp c4 E4 sz c3 E3 pref).2) := by
  obtain ⟨hC3, hc0, hc34, hq3, he3, hE1, hE2, hze, hzs, hps, hC4, h40, hq4, hq468, hE4a, hE4b, hdelta, hp⟩ := inv
  have hQ34 : ndigits c3 ≤ 34 := Dec.C08GenRoundIntegral.ndigits_le_34 c3 (by rw [Dec.C13PackHelpers.P34_eq']; exact hc34)
  have hQ1 := ndigits_pos hc0
  have hq4p := ndigits_pos h40
  have hov' := hov
  have hA1 : (q3 + e3).toInt = (ndigits c3 : Int) + E3 := by
    rw [Dec.C08GenRoundIntegral.i32_add q3 e3 (by omega) (by omega), hq3, he3]
  have hA2 : (delta - 1).toInt = (ndigits c3 : Int) + E3 - ndigits c4 - E4 - 1 := by
    rw [Dec.C08GenRoundIntegral.i32_sub delta 1 (by omega) (by decide), hdelta]; rfl
  rw [Bool.and_eq_true, decide_eq_true_eq, decide_eq_true_eq, gt_iff_lt, Int32.lt_iff_toInt_lt, Int32.le_iff_toInt_le, hp,
    hA1, hA2] at hov'
  obtain ⟨hbig, hδ⟩ := hov'
  have hbig' : 6146 ≤ (ndigits c3 : Int) + E3 := by
    have : ((34 : Int32) + c_EXP_MAX_UNBIASED).toInt = 6145 := rfl
    omega
  have hδ' : 35 ≤ (ndigits c3 : Int) + E3 - ndigits c4 - E4 := by
    have : (34 : Int32).toInt = 34 := rfl
    have : (1 : Int32).toInt = 1 := rfl
    omega
  obtain ⟨m1, m2, m3⟩ := ovf_math sz sp c3 c4 E3 E4 pref hc0 hc34 h40 hE2 hbig' hδ'
  rw [caseZ1_eq, if_pos hov, z1Ovf_eq]
  obtain ⟨h, hh, hhv⟩ := ovfHalf_spec q4 (fun h => ovfNear m z_sign p_sign C3 q3 e3 delta p34 fun t =>
        if (t && ovfGt C4 h) = true then
          .ok (⟨0x378d8e63ffffffff, z_sign ||| 0x5fffed09bead87c0⟩, false, false, true, false,
            pfpsf ||| c_StatusFlags_BID_INEXACT_EXCEPTION)
        else ovfMain pml pmg pil pig m pfpsf res z_sign p_sign C3 q3 e3 scale p34 false false false false)
    (ndigits c4) hq4 hq4p hq468
  rw [hh, ovfNear_spec m z_sign p_sign C3 q3 e3 delta p34 _ c3 E3 _ sz sp hC3 hc0 hc34 hq3 he3 hE1 hE2 hdelta hzs hps hp,
    ovfGt_eq]
  have hgt : v4 h < v4 C4 ↔ 10 ^ ndigits c4 < 2 * c4 := by
    rw [hhv, show v4 C4 = c4 from hC4]
    have : 10 ^ ndigits c4 = 10 * 10 ^ (ndigits c4 - 1) := by
      rw [← Nat.pow_succ']; congr 1; omega
    rw [this]; omega
  have hcond : (decide ((m = .NearestEven ∨ m = .NearestAway) ∧ sp ≠ sz ∧ (ndigits c3 : Int) + E3 - ndigits c4 - E4 = 35 ∧
      (ndigits c3 : Int) + E3 = 6146 ∧ c3 = 10 ^ (ndigits c3 - 1)) && decide (v4 h < v4 C4)) =
      decide (ovfSpecial sz sp c3 c4 E3 E4 ∧ (m = .NearestEven ∨ m = .NearestAway)) := by
    rw [Bool.eq_iff_iff, Bool.and_eq_true, decide_eq_true_eq, decide_eq_true_eq, decide_eq_true_eq, hgt]
    unfold ovfSpecial
    constructor
    · rintro ⟨⟨a, b, c, d, e⟩, f⟩; exact ⟨⟨b, c, d, e, f⟩, a⟩
    · rintro ⟨⟨b, c, d, e, f⟩, a⟩; exact ⟨⟨a, b, c, d, e⟩, f⟩
  rw [hcond]
  by_cases hsp : ovfSpecial sz sp c3 c4 E3 E4 ∧ (m = .NearestEven ∨ m = .NearestAway)
  · have hI : ovfInd m sz sp c3 c4 E3 E4 = (true, false) := by unfold ovfInd; rw [if_pos hsp]
    rw [show decide _ = true from by simpa using hsp, if_pos rfl, hI, maxfp_word z_sign sz hzs]
    obtain ⟨a1, a2⟩ := m1 hsp.1
    rcases hsp.2 with rfl | rfl
    · show _ = Except.ok (ofBits (encode (addFin .rne sp c4 E4 sz c3 E3 pref).1), _, _, _, _,
        pfpsf ||| UInt32.ofNat (addFin .rne sp c4 E4 sz c3 E3 pref).2)
      rw [a1]; rfl
    · show _ = Except.ok (ofBits (encode (addFin .rna sp c4 E4 sz c3 E3 pref).1), _, _, _, _,
        pfpsf ||| UInt32.ofNat (addFin .rna sp c4 E4 sz c3 E3 pref).2)
      rw [a2]; rfl
  · rw [show decide _ = false from by simpa using hsp, if_neg (by decide)]
    by_cases hm : m = .NearestEven
    · subst hm
      have hns : ¬ ovfSpecial sz sp c3 c4 E3 E4 := fun h => hsp ⟨h, Or.inl rfl⟩
      have hI : ovfInd .NearestEven sz sp c3 c4 E3 E4 = (false, false) := by unfold ovfInd; rw [if_neg hsp, if_pos rfl]
      rw [ovfMain_rne, hI, inf_word z_sign sz hzs]
      show _ = Except.ok (ofBits (encode (addFin .rne sp c4 E4 sz c3 E3 pref).1), _, _, _, _,
        pfpsf ||| UInt32.ofNat (addFin .rne sp c4 E4 sz c3 E3 pref).2)
      rw [m2 hns, show (c_StatusFlags_BID_INEXACT_EXCEPTION ||| c_StatusFlags_BID_OVERFLOW_EXCEPTION : UInt32) =
        UInt32.ofNat (fOverflow ||| fInexact) from by decide]
    · have hI : ovfInd m sz sp c3 c4 E3 E4 = (sp == sz, !(sp == sz)) := by unfold ovfInd; rw [if_neg hsp, if_neg hm]
      obtain ⟨r, e, f1, f2, f3, hcode⟩ := ovfMain_corr pml pmg pil pig m hm pfpsf res z_sign p_sign C3 q3 e3 scale p34 c3 E3 sz sp
        hC3 hc0 hc34 hq3 he3 hE1 hE2 hzs hps hp
      rw [hcode, m3 m hm (fun h => hsp ⟨h.1, Or.inr h.2⟩) r e pfpsf f1 f2 f3, hI]
      rfl

end Dec.C02GenFmaZ
