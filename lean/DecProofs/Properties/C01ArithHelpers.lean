/-
  C01 (crate-internal integer primitives) — `DecModel/ArithHelpers.lean` is a word-level, line-by-line transcription
  of the multi-word integer routines at the end of /repo/src/bid_internal.rs (32-bit half-word products, carry
  chains, modulo-64 shift amounts).  Here: for ALL 64-bit words, the words each routine returns, read as one
  little-endian integer, are the mathematical sum / difference / product / quotient by a power of two — exactly
  where the result is wide enough, modulo 2^(64·words) where the routine truncates by design — and, for the routines
  that are NOT what their name says on part of their input space, exactly what they compute instead, the
  sub-domain on which they are exact, and that the call sites stay inside it.

  Conventions.  `W` is 2^64.  `A.wf` says every word of `A` is below 2^64 (the only precondition of most theorems).
  `A.val` is the integer `w0 + 2^64·w1 + …`; `valOf A.words = A.val` (`valOf_words*`).  Each `_spec` theorem also
  states that the result is again made of 64-bit words, so the theorems compose.

  Findings (each with a witness that was run on the real code through the `hk_` hook; the model agrees with the code
  on all of them, see the validation report):
  * `__shr_128`, `__shr_128_long`, `__shl_128_long` at `k = 0`: `A.w[1] << (64 - 0)` is a shift by 64, which Rust
    (overflow checks off) performs as a shift by 0, so the other word is ORed in whole (`shr128_zero`,
    `shr128Long_zero`, `shl128Long_zero`).  `__shr_128` for `k ≥ 64` repeats with period 64 (`shr128_periodic`).
    The callers never do that: `k` is `BID_RECIP_SCALE[·]` (all 36 entries in 1..109, `recip_scale_range`), guarded
    by `amount < 64` before `__shr_128`, or `128 - amount`.
  * `__shr_256` shifts only the low 128 bits and returns zeros above; `__sub_256_128_to_256` subtracts only from the
    low 128 bits and returns zeros above (`shr256_spec`, `sub256_128to256_spec`).  The callers read only word 0
    resp. words 0–1, which are right.
  * `__mul_64x256_to_256` never reads `lB.w[3]`: it is `lA·(lB mod 2^192)`, not `lA·lB mod 2^256`
    (`mul64x256to256_spec`, `mul64x256to256_trunc_iff`).  All three call sites pass `lB.w[3] = 0`.
  * `__mul_128x128_high` / `__mul_128x128_full` lose the carry out of `ALBH + AHBL` (2^192) when
    `A0·B1 + B0·A1 + ⌊A0·B0/2^64⌋ ≥ 2^128` (`mul128x128Full_general`); exact when `A.w1 + B.w1 ≤ 2^64`
    (`mul128x128Full_spec`), which all call sites satisfy (`reciprocals_hi_small`).
  * `__mul_64x64_to_128_fast` loses 2^96 when its middle sum wraps (`mul64x64to128Fast_general`); exact for
    operands below 2^63 (`mul64x64to128Fast_spec`).
  Reading the call sites (recorded at each theorem; not itself proved here beyond the table facts) shows none of these
  sub-domains being entered from the public operations; they are properties of the helpers on their own input space.
-/
import DecModel.ArithHelpers
import DecGen.T_BID_RECIP_SCALE
import DecGen.T_BID_RECIPROCALS10_128
import Mathlib.Tactic.Ring
import Mathlib.Tactic.SplitIfs

namespace Dec.C01ArithHelpers
open Dec.AH

/-- 2^64 -/
local notation "W" => (18446744073709551616 : Nat)

/-- unfold the word operations also inside `Decidable` instances, split every `if`, turn Boolean tests into
propositions, finish with linear arithmetic -/
local macro "wsolve" : tactic =>
  `(tactic| ((try delta add64 sub64 mul64) <;> split_ifs <;>
      (try simp only [decide_eq_true_eq, Bool.or_eq_true, not_or, Nat.not_lt] at *) <;> omega))

/-! ### words and values -/

theorem valOf_words128 (a : U128) : valOf a.words = a.val := by
  simp only [U128.words, valOf, U128.val, Nat.mul_zero, Nat.add_zero]
theorem valOf_words192 (a : U192) : valOf a.words = a.val := by
  simp only [U192.words, valOf, U192.val, Nat.mul_zero, Nat.add_zero]; ring
theorem valOf_words256 (a : U256) : valOf a.words = a.val := by
  simp only [U256.words, valOf, U256.val, Nat.mul_zero, Nat.add_zero]; ring
theorem valOf_words384 (a : U384) : valOf a.words = a.val := by
  simp only [U384.words, valOf, U384.val, Nat.mul_zero, Nat.add_zero]; ring
theorem valOf_words512 (a : U512) : valOf a.words = a.val := by
  simp only [U512.words, valOf, U512.val, Nat.mul_zero, Nat.add_zero]; ring

theorem U128.val_lt {a : U128} (h : a.wf) : a.val < W * W := by
  obtain ⟨h0, h1⟩ := h; simp only [U128.val]; omega

theorem shr64_32 (x : Nat) : shr64 x 32 = x / 4294967296 := by simp [shr64]
theorem shl64_32 (x : Nat) : shl64 x 32 = x * 4294967296 % W := by simp [shl64]
theorem shr64_63 (x : Nat) : shr64 x 63 = x / 9223372036854775808 := by simp [shr64]

/-! ### Carries and borrows (`__add_carry_out`, `__add_carry_in_out`, `__sub_borrow_out`, `__sub_borrow_in_out`) -/

/-- `__add_carry_out`: `S + 2^64·CY = X + Y`, `CY ∈ {0, 1}` — for all words. -/
theorem addCarryOut_spec {x y : Nat} (hx : x < W) (hy : y < W) :
    (addCarryOut x y).1 + W * (addCarryOut x y).2 = x + y ∧ (addCarryOut x y).1 < W ∧ (addCarryOut x y).2 ≤ 1 := by
  simp only [addCarryOut, add64]
  wsolve
example : addCarryOut 0xffffffffffffffff 2 = (1, 1) := by decide

/-- `__add_carry_in_out`: `S + 2^64·CY = X + Y + CI` whenever that sum is below 2^65 — in particular for every
carry-in `CI ≤ 1`, which is what all 37 call sites pass (the carry out of the previous step).  (For `CI ≥ 2` the sum
can reach 2·2^64 and more, which one carry bit cannot hold: `X = Y = CI = 2^64 − 1` gives `(2^64 − 3, 1)`.) -/
theorem addCarryInOut_spec {x y ci : Nat} (hx : x < W) (hy : y < W) (hci : ci < W) (h : x + y + ci < 2 * W) :
    (addCarryInOut x y ci).1 + W * (addCarryInOut x y ci).2 = x + y + ci ∧ (addCarryInOut x y ci).1 < W
      ∧ (addCarryInOut x y ci).2 ≤ 1 := by
  simp only [addCarryInOut, add64]
  wsolve
example : addCarryInOut 0xffffffffffffffff 0xffffffffffffffff 1 = (0xffffffffffffffff, 1) := by decide
example : addCarryInOut 0xffffffffffffffff 0xffffffffffffffff 0xffffffffffffffff = (0xfffffffffffffffd, 1) := by decide

/-- `__sub_borrow_out`: `X − Y = S − 2^64·CY` (written without subtraction), `CY ∈ {0, 1}` — for all words. -/
theorem subBorrowOut_spec {x y : Nat} (hx : x < W) (hy : y < W) :
    (subBorrowOut x y).1 + y = x + W * (subBorrowOut x y).2 ∧ (subBorrowOut x y).1 < W ∧ (subBorrowOut x y).2 ≤ 1 := by
  simp only [subBorrowOut, sub64, gt_iff_lt]
  wsolve
example : subBorrowOut 1 2 = (0xffffffffffffffff, 1) := by decide

/-- `__sub_borrow_in_out`: `X − Y − CI = S − 2^64·CY` whenever `Y + CI ≤ 2^64` — in particular for every borrow-in
`CI ≤ 1` (all 13 call sites). -/
theorem subBorrowInOut_spec {x y ci : Nat} (hx : x < W) (hy : y < W) (hci : ci < W) (h : y + ci ≤ W) :
    (subBorrowInOut x y ci).1 + y + ci = x + W * (subBorrowInOut x y ci).2 ∧ (subBorrowInOut x y ci).1 < W
      ∧ (subBorrowInOut x y ci).2 ≤ 1 := by
  simp only [subBorrowInOut, sub64, gt_iff_lt]
  wsolve
example : subBorrowInOut 0 0xffffffffffffffff 1 = (0, 1) := by decide

/-! ### 128-bit add / subtract -/

/-- `__add_128_64`: `(A + B) mod 2^128`. -/
theorem add128_64_spec {A : U128} {B : Nat} (h0 : A.w0 < W) (h1 : A.w1 < W) (hB : B < W) :
    (add128_64 A B).val = (A.val + B) % (W * W) ∧ (add128_64 A B).w0 < W ∧ (add128_64 A B).w1 < W := by
  simp only [add128_64, add64, U128.val]
  wsolve
example : (add128_64 ⟨0xffffffffffffffff, 7⟩ 3).words = [2, 8] := by decide

/-- `__sub_128_64`: `(A − B) mod 2^128` (no call site in the crate). -/
theorem sub128_64_spec {A : U128} {B : Nat} (h0 : A.w0 < W) (h1 : A.w1 < W) (hB : B < W) :
    (sub128_64 A B).val = (A.val + W * W - B) % (W * W) ∧ (sub128_64 A B).w0 < W ∧ (sub128_64 A B).w1 < W := by
  simp only [sub128_64, sub64, U128.val]
  wsolve
example : (sub128_64 ⟨2, 8⟩ 3).words = [0xffffffffffffffff, 7] := by decide

/-- `__add_128_128` ("assume no carry-out"): `(A + B) mod 2^128`. -/
theorem add128_128_spec {A B : U128} (h0 : A.w0 < W) (_h1 : A.w1 < W) (g0 : B.w0 < W) (_g1 : B.w1 < W) :
    (add128_128 A B).val = (A.val + B.val) % (W * W) ∧ (add128_128 A B).w0 < W ∧ (add128_128 A B).w1 < W := by
  simp only [add128_128, add64, U128.val]
  wsolve
example : (add128_128 ⟨0xffffffffffffffff, 0xffffffffffffffff⟩ ⟨2, 0⟩).words = [1, 0] := by decide

/-- `__sub_128_128`: `(A − B) mod 2^128`; so `A − B` when `B ≤ A` (`sub128_128_exact`). -/
theorem sub128_128_spec {A B : U128} (h0 : A.w0 < W) (h1 : A.w1 < W) (g0 : B.w0 < W) (g1 : B.w1 < W) :
    (sub128_128 A B).val = (A.val + W * W - B.val) % (W * W) ∧ (sub128_128 A B).w0 < W ∧ (sub128_128 A B).w1 < W := by
  simp only [sub128_128, sub64, U128.val]
  wsolve
example : (sub128_128 ⟨1, 5⟩ ⟨2, 1⟩).words = [0xffffffffffffffff, 3] := by decide

theorem sub128_128_exact {A B : U128} (hA : A.wf) (hB : B.wf) (h : B.val ≤ A.val) :
    (sub128_128 A B).val = A.val - B.val := by
  rw [(sub128_128_spec hA.1 hA.2 hB.1 hB.2).1]
  have := U128.val_lt hA
  omega

/-- `__sub_256_128_to_256` is `__sub_128_128` on the two low words of `A`, zeros above. -/
theorem sub256_128to256_eq (A : U256) (B : U128) :
    sub256_128to256 A B = ⟨(sub128_128 ⟨A.w0, A.w1⟩ B).w0, (sub128_128 ⟨A.w0, A.w1⟩ B).w1, 0, 0⟩ := rfl

theorem val256_low (a b : Nat) : U256.val ⟨a, b, 0, 0⟩ = a + W * b := by
  simp only [U256.val, Nat.mul_zero, Nat.add_zero]

/-- `__sub_256_128_to_256`: `((A mod 2^128) − B) mod 2^128` — the two high words of `A` are ignored and the two high
words of the result are 0. -/
theorem sub256_128to256_spec {A : U256} {B : U128} (hA : A.wf) (hB : B.wf) :
    (sub256_128to256 A B).val = (A.val % (W * W) + W * W - B.val) % (W * W) ∧ (sub256_128to256 A B).wf
      ∧ (sub256_128to256 A B).w2 = 0 ∧ (sub256_128to256 A B).w3 = 0 := by
  obtain ⟨h0, h1, h2, h3⟩ := hA
  obtain ⟨e, b0, b1⟩ := sub128_128_spec (A := ⟨A.w0, A.w1⟩) (B := B) h0 h1 hB.1 hB.2
  rw [sub256_128to256_eq, val256_low]
  refine ⟨?_, ⟨b0, b1, by show (0 : Nat) < _; omega, by show (0 : Nat) < _; omega⟩, rfl, rfl⟩
  have hlow : A.val % (W * W) = (⟨A.w0, A.w1⟩ : U128).val := by
    simp only [U256.val, U128.val]; omega
  rw [hlow]; exact e

/-- … so it is the 256-bit difference `A − B` exactly when `A` has no high words and `B ≤ A` — the situation at its
three call sites (`bid128_rem.rs:148`: `P256.w[2] = P256.w[3] = 0` was tested at line 126 and `CR < P256`;
`bid___div_256_by_128`, lines 275 and 293: only words 0–1 of the result are read — they are right whatever `A.w[2]`,
`A.w[3]` hold, by `sub256_128to256_spec` — and line 293 sits behind `__unsigned_compare_ge_256_128`). -/
theorem sub256_128to256_exact {A : U256} {B : U128} (hA : A.wf) (hB : B.wf) (h2 : A.w2 = 0) (h3 : A.w3 = 0)
    (h : B.val ≤ A.val) : (sub256_128to256 A B).val = A.val - B.val := by
  rw [(sub256_128to256_spec hA hB).1]
  obtain ⟨h0, h1, -, -⟩ := hA
  have : A.val = A.w0 + W * A.w1 := by simp only [U256.val, h2, h3, Nat.mul_zero, Nat.add_zero]
  rw [this] at h ⊢
  omega
example : (sub256_128to256 ⟨1, 5, 0, 0⟩ ⟨2, 1⟩).words = [0xffffffffffffffff, 3, 0, 0] := by decide
/-- the witness that it is not a 256-bit subtraction: `(2^128 + 5) − 1` comes out as 4 (real code: the same) -/
example : (sub256_128to256 ⟨5, 0, 1, 0⟩ ⟨1, 0⟩).words = [4, 0, 0, 0] := by decide

/-! ### 128-bit compares -/

/-- `__unsigned_compare_gt_128` is `A > B` on the integers. -/
theorem compareGt128_iff {A B : U128} (hA : A.wf) (hB : B.wf) :
    compareGt128 A B = true ↔ A.val > B.val := by
  obtain ⟨h0, -⟩ := hA
  obtain ⟨g0, -⟩ := hB
  simp only [compareGt128, U128.val, Bool.or_eq_true, Bool.and_eq_true, decide_eq_true_eq]
  omega
example : compareGt128 ⟨0, 2⟩ ⟨0xffffffffffffffff, 1⟩ = true := by decide
example : compareGt128 ⟨5, 2⟩ ⟨5, 2⟩ = false := by decide

/-- `__unsigned_compare_ge_128` is `A ≥ B` on the integers. -/
theorem compareGe128_iff {A B : U128} (hA : A.wf) (hB : B.wf) :
    compareGe128 A B = true ↔ A.val ≥ B.val := by
  obtain ⟨h0, -⟩ := hA
  obtain ⟨g0, -⟩ := hB
  simp only [compareGe128, U128.val, Bool.or_eq_true, Bool.and_eq_true, decide_eq_true_eq]
  omega
example : compareGe128 ⟨5, 2⟩ ⟨5, 2⟩ = true := by decide
example : compareGe128 ⟨4, 2⟩ ⟨5, 2⟩ = false := by decide

/-- `__test_equal_128` is `A = B` on the integers (no call site in the crate). -/
theorem testEqual128_iff {A B : U128} (hA : A.wf) (hB : B.wf) :
    testEqual128 A B = true ↔ A.val = B.val := by
  obtain ⟨h0, -⟩ := hA
  obtain ⟨g0, -⟩ := hB
  simp only [testEqual128, U128.val, Bool.and_eq_true, decide_eq_true_eq]
  omega
example : testEqual128 ⟨5, 2⟩ ⟨5, 2⟩ = true := by decide
example : testEqual128 ⟨5, 2⟩ ⟨5, 3⟩ = false := by decide

/-! ### Logical shifts

Shift counts are `i32` values (`Int`).  Every `u64` shift in the code uses its count modulo 64 (Rust, overflow checks
off); `64 - k`, `k - 64` wrap as `i32`, which does not change them modulo 64 (`shamt_i32w`). -/

theorem shamt_i32w (x : Int) : shamt (i32w x) = shamt x := by
  simp only [shamt, i32w]; omega

theorem shamt_of_range {k : Int} (h0 : 0 ≤ k) (h1 : k < 64) : shamt k = k.toNat := by
  simp only [shamt]; omega

theorem two_pow_split {n : Nat} (hn : n ≤ 64) : 2 ^ n * 2 ^ (64 - n) = W := by
  rw [← Nat.pow_add]; have : n + (64 - n) = 64 := by omega
  rw [this]

/-- the word pair `(lo / 2^n) | (hi << (64 - n))`, `hi >> n` is the 128-bit number shifted right by `n`,
for `1 ≤ n ≤ 63` -/
theorem shr_pair {a0 a1 n : Nat} (h0 : a0 < W) (hn1 : 1 ≤ n) (hn : n ≤ 63) :
    (a0 / 2 ^ n ||| (a1 * 2 ^ (64 - n)) % W) + W * (a1 / 2 ^ n) = (a0 + W * a1) / 2 ^ n
      ∧ (a0 / 2 ^ n ||| (a1 * 2 ^ (64 - n)) % W) < W := by
  have hPQ := two_pow_split (n := n) (by omega)
  have hP : 0 < 2 ^ n := Nat.pow_pos (by decide)
  generalize 2 ^ n = P at *
  generalize hQ : 2 ^ (64 - n) = Q at *
  -- (a1 * Q) % W = Q * (a1 % P)
  have e1 : (a1 * Q) % W = Q * (a1 % P) := by
    rw [← hPQ, Nat.mul_comm a1 Q, Nat.mul_comm P Q, Nat.mul_mod_mul_left]
  -- a0 / P < Q
  have e2 : a0 / P < Q := by
    apply Nat.div_lt_of_lt_mul; rw [hPQ]; exact h0
  have e3 : Q * (a1 % P) + a0 / P = Q * (a1 % P) ||| a0 / P := by
    rw [← hQ] at e2 ⊢; exact Nat.two_pow_add_eq_or_of_lt e2 _
  rw [e1, Nat.or_comm, ← e3]
  have e4 : (a0 + W * a1) / P = a0 / P + Q * a1 := by
    rw [← hPQ, Nat.mul_assoc]; exact Nat.add_mul_div_left _ _ hP
  have e5 : P * (a1 / P) + a1 % P = a1 := Nat.div_add_mod a1 P
  have e6 : a1 % P < P := Nat.mod_lt _ hP
  have e7 : Q * (a1 % P) + Q ≤ Q * P := by
    have : Q * (a1 % P + 1) ≤ Q * P := Nat.mul_le_mul_left Q e6
    rwa [Nat.mul_add, Nat.mul_one] at this
  constructor
  · rw [e4]
    have : W * (a1 / P) = Q * (P * (a1 / P)) := by rw [← hPQ]; ring
    rw [this]
    have : Q * a1 = Q * (P * (a1 / P)) + Q * (a1 % P) := by rw [← Nat.mul_add, e5]
    rw [this]; omega
  · rw [Nat.mul_comm Q P, hPQ] at e7; omega

/-- the word pair `lo << n`, `(hi << n) | (lo >> (64 - n))` is the 128-bit number shifted left by `n` (bits above
2^128 lost), for `1 ≤ n ≤ 63` -/
theorem shl_pair {a0 a1 n : Nat} (h0 : a0 < W) (hn1 : 1 ≤ n) (hn : n ≤ 63) :
    (a0 * 2 ^ n) % W + W * ((a1 * 2 ^ n) % W ||| a0 / 2 ^ (64 - n)) = ((a0 + W * a1) * 2 ^ n) % (W * W)
      ∧ ((a1 * 2 ^ n) % W ||| a0 / 2 ^ (64 - n)) < W := by
  have hPQ := two_pow_split (n := n) (by omega)
  have hQ0 : 0 < 2 ^ (64 - n) := Nat.pow_pos (by decide)
  generalize hP : 2 ^ n = P at *
  generalize 2 ^ (64 - n) = Q at *
  have e1 : (a1 * P) % W = P * (a1 % Q) := by
    rw [← hPQ, Nat.mul_comm a1 P, Nat.mul_mod_mul_left]
  have e1' : (a0 * P) % W = P * (a0 % Q) := by
    rw [← hPQ, Nat.mul_comm a0 P, Nat.mul_mod_mul_left]
  have e2 : a0 / Q < P := by
    apply Nat.div_lt_of_lt_mul; rw [Nat.mul_comm, hPQ]; exact h0
  have e3 : P * (a1 % Q) + a0 / Q = P * (a1 % Q) ||| a0 / Q := by
    rw [← hP] at e2 ⊢; exact Nat.two_pow_add_eq_or_of_lt e2 _
  rw [e1, e1', ← e3]
  have d0 : Q * (a0 / Q) + a0 % Q = a0 := Nat.div_add_mod a0 Q
  have d1 : Q * (a1 / Q) + a1 % Q = a1 := Nat.div_add_mod a1 Q
  have m0 : a0 % Q < Q := Nat.mod_lt _ hQ0
  have m1 : a1 % Q < Q := Nat.mod_lt _ hQ0
  have b0 : P * (a0 % Q) + P ≤ W := by
    have : P * (a0 % Q + 1) ≤ P * Q := Nat.mul_le_mul_left P m0
    rwa [Nat.mul_add, Nat.mul_one, hPQ] at this
  have b1 : P * (a1 % Q) + P ≤ W := by
    have : P * (a1 % Q + 1) ≤ P * Q := Nat.mul_le_mul_left P m1
    rwa [Nat.mul_add, Nat.mul_one, hPQ] at this
  have key : (a0 + W * a1) * P = P * (a0 % Q) + W * (P * (a1 % Q) + a0 / Q) + W * W * (a1 / Q) := by
    have gen : ∀ u0 v0 u1 v1 : Nat, (Q * u0 + v0 + (P * Q) * (Q * u1 + v1)) * P
        = P * v0 + (P * Q) * (P * v1 + u0) + (P * Q) * (P * Q) * u1 := by intros; ring
    have := gen (a0 / Q) (a0 % Q) (a1 / Q) (a1 % Q)
    rw [d0, d1, hPQ] at this
    exact this
  constructor
  · rw [key]
    generalize P * (a0 % Q) = x0 at *
    generalize P * (a1 % Q) = x1 at *
    omega
  · omega


/-! #### the routines -/

theorem toNat_mod64 {k : Int} (h0 : 0 ≤ k) (h1 : k < 64) : k.toNat % 64 = k.toNat := by omega

/-- `__shr_128` on its working domain `1 ≤ k ≤ 63`: `⌊A / 2^k⌋`.  Call sites: `bid128_div.rs:379` (`k =
BID_RECIP_SCALE[nzeros]`, `nzeros ≤ 16`, so `k ≤ 43`), `bid128_quantize.rs:168` and `bid_internal.rs:320, 452` (behind
`if amount >= 64 {…} else`); `k ≥ 1` because every `BID_RECIP_SCALE` entry is (`recip_scale_range`). -/
theorem shr128_spec {A : U128} {k : Int} (hA : A.wf) (hk1 : 1 ≤ k) (hk : k ≤ 63) :
    (shr128 A k).val = A.val / 2 ^ k.toNat ∧ (shr128 A k).wf := by
  obtain ⟨h0, h1⟩ := hA
  have s1 : shamt k = k.toNat := shamt_of_range (by omega) (by omega)
  have s2 : shamt (64 - k) = 64 - k.toNat := by rw [shamt_of_range (by omega) (by omega)]; omega
  have m1 : k.toNat % 64 = k.toNat := by omega
  have m2 : (64 - k.toNat) % 64 = 64 - k.toNat := by omega
  simp only [shr128, shamt_i32w, U128.val, shr64, shl64, s1, s2, m1, m2]
  have hn1 : 1 ≤ k.toNat := by omega
  have hn : k.toNat ≤ 63 := by omega
  have := shr_pair (a0 := A.w0) (a1 := A.w1) h0 hn1 hn
  refine ⟨this.1, this.2, ?_⟩
  exact Nat.lt_of_le_of_lt (Nat.div_le_self _ _) h1

/-- `__shr_128` depends on `k` only through `k mod 64` (every shift amount in it is reduced modulo 64). -/
theorem shr128_periodic (A : U128) (k : Int) : shr128 A (k + 64) = shr128 A k := by
  have s1 : shamt (k + 64) = shamt k := by simp only [shamt]; omega
  have s2 : shamt (64 - (k + 64)) = shamt (64 - k) := by simp only [shamt]; omega
  simp only [shr128, shamt_i32w, s1, s2]

/-- `__shr_128` at `k = 0` is NOT the identity: `A.w[1] << 64` is `A.w[1] << 0`, so the high word is ORed into the low. -/
theorem shr128_zero {A : U128} (hA : A.wf) : shr128 A 0 = ⟨A.w0 ||| A.w1, A.w1⟩ := by
  obtain ⟨-, h1⟩ := hA
  have a : shamt (0 : Int) = 0 := by decide
  have b : shamt (64 - 0 : Int) = 0 := by decide
  simp only [shr128, shamt_i32w, shr64, shl64, a, b, Nat.zero_mod, Nat.pow_zero, Nat.div_one, Nat.mul_one,
    Nat.mod_eq_of_lt h1]

/-- `__shr_256` is `__shr_128` on the two low words, zeros above. -/
theorem shr256_eq (A : U256) (k : Int) :
    shr256 A k = ⟨(shr128 ⟨A.w0, A.w1⟩ k).w0, (shr128 ⟨A.w0, A.w1⟩ k).w1, 0, 0⟩ := rfl

theorem div_pow_low256 (a0 a1 a2 a3 : Nat) {n : Nat} (hn : n ≤ 64) :
    (a0 + W * a1 + W * W * a2 + W * W * W * a3) / 2 ^ n
      = (a0 + W * a1) / 2 ^ n + W * (2 ^ (64 - n) * (a2 + W * a3)) := by
  have hPQ := two_pow_split (n := n) hn
  have hP : 0 < 2 ^ n := Nat.pow_pos (by decide)
  have : a0 + W * a1 + W * W * a2 + W * W * W * a3
      = a0 + W * a1 + 2 ^ n * (W * (2 ^ (64 - n) * (a2 + W * a3))) := by
    rw [← hPQ]; ring
  rw [this]; exact Nat.add_mul_div_left _ _ hP

/-- `__shr_256` on `1 ≤ k ≤ 63`: the LOW 128 bits of `A` shifted right by `k` (words 2, 3 of `A` are ignored, words 2, 3 of
the result are 0); its word 0 — the only word the two callers in `short_sqrt128` read, after reducing `k` into 1..63
and guarding `k != 0` — IS word 0 of the full 256-bit number shifted right by `k`. -/
theorem shr256_spec {A : U256} {k : Int} (hA : A.wf) (hk1 : 1 ≤ k) (hk : k ≤ 63) :
    (shr256 A k).val = (A.val % (W * W)) / 2 ^ k.toNat ∧ (shr256 A k).w0 = (A.val / 2 ^ k.toNat) % W
      ∧ (shr256 A k).w0 < W ∧ (shr256 A k).w1 < W ∧ (shr256 A k).w2 = 0 ∧ (shr256 A k).w3 = 0 := by
  obtain ⟨h0, h1, -, -⟩ := hA
  obtain ⟨e, b0, b1⟩ := shr128_spec (A := ⟨A.w0, A.w1⟩) (k := k) ⟨h0, h1⟩ hk1 hk
  rw [shr256_eq]
  refine ⟨?_, ?_, b0, b1, rfl, rfl⟩
  · simp only [U256.val, U128.val] at e ⊢
    have hlow : (A.w0 + W * A.w1 + W * W * A.w2 + W * W * W * A.w3) % (W * W) = A.w0 + W * A.w1 := by omega
    rw [hlow, ← e]; omega
  · simp only [U256.val, U128.val] at e ⊢
    rw [div_pow_low256 _ _ _ _ (by omega), ← e, Nat.add_mul_mod_self_left]; omega

/-- `__shr_128_long` on `1 ≤ k ≤ 127`: `⌊A / 2^k⌋` (`k = 64` included).  Call sites: `bid128_div.rs:242` with
`k = BID_RECIP_SCALE[·]` and `bid_internal.rs:373, 502` with `k = 128 − BID_RECIP_SCALE[·]`: both in 1..127
(`recip_scale_range`).  At `k = 0` see `shr128Long_zero`; at `k = 128` the result is `A.w[1]`, not 0. -/
theorem shr128Long_spec {A : U128} {k : Int} (hA : A.wf) (hk1 : 1 ≤ k) (hk : k ≤ 127) :
    (shr128Long A k).val = A.val / 2 ^ k.toNat ∧ (shr128Long A k).wf := by
  obtain ⟨h0, h1⟩ := hA
  by_cases hlt : k < 64
  · have : shr128Long A k = shr128 A k := by simp only [shr128Long, hlt, if_true, shr128]
    rw [this]; exact shr128_spec ⟨h0, h1⟩ hk1 (by omega)
  · have s1 : shamt (k - 64) = k.toNat - 64 := by rw [shamt_of_range (by omega) (by omega)]; omega
    have m1 : (k.toNat - 64) % 64 = k.toNat - 64 := by omega
    simp only [shr128Long, hlt, if_false, shamt_i32w, U128.val, U128.wf, shr64, s1, m1]
    have hk' : k.toNat = 64 + (k.toNat - 64) := by omega
    have e : (A.w0 + W * A.w1) / 2 ^ k.toNat = A.w1 / 2 ^ (k.toNat - 64) := by
      conv_lhs => rw [hk', Nat.pow_add, ← Nat.div_div_eq_div_mul]
      have : (A.w0 + W * A.w1) / 2 ^ 64 = A.w1 := by omega
      rw [this]
    refine ⟨by rw [e]; omega, ?_, by omega⟩
    exact Nat.lt_of_le_of_lt (Nat.div_le_self _ _) h1

/-- `__shl_128_long` on `1 ≤ k ≤ 127`: `A·2^k mod 2^128`.  Call sites (`bid_internal.rs:331, 347, 376, 461, 477, 505`):
`k = 128 − BID_RECIP_SCALE[·]` or `k = BID_RECIP_SCALE[·]`, in 1..127. -/
theorem shl128Long_spec {A : U128} {k : Int} (hA : A.wf) (hk1 : 1 ≤ k) (hk : k ≤ 127) :
    (shl128Long A k).val = (A.val * 2 ^ k.toNat) % (W * W) ∧ (shl128Long A k).wf := by
  obtain ⟨h0, -⟩ := hA
  by_cases hlt : k < 64
  · have s1 : shamt k = k.toNat := shamt_of_range (by omega) (by omega)
    have s2 : shamt (64 - k) = 64 - k.toNat := by rw [shamt_of_range (by omega) (by omega)]; omega
    have m1 : k.toNat % 64 = k.toNat := by omega
    have m2 : (64 - k.toNat) % 64 = 64 - k.toNat := by omega
    simp only [shl128Long, hlt, if_true, shamt_i32w, U128.val, shr64, shl64, s1, s2, m1, m2]
    have := shl_pair (a0 := A.w0) (a1 := A.w1) (n := k.toNat) h0 (by omega) (by omega)
    exact ⟨this.1, Nat.mod_lt _ (by decide), this.2⟩
  · have s1 : shamt (k - 64) = k.toNat - 64 := by rw [shamt_of_range (by omega) (by omega)]; omega
    have m1 : (k.toNat - 64) % 64 = k.toNat - 64 := by omega
    simp only [shl128Long, hlt, if_false, shamt_i32w, U128.val, U128.wf, shl64, s1, m1]
    have hk' : k.toNat = 64 + (k.toNat - 64) := by omega
    refine ⟨?_, by omega, Nat.mod_lt _ (by decide)⟩
    conv_rhs => rw [hk', Nat.pow_add]
    generalize 2 ^ (k.toNat - 64) = T
    have : (A.w0 + W * A.w1) * (2 ^ 64 * T) = W * (A.w0 * T + W * (A.w1 * T)) := by ring
    rw [this, Nat.mul_mod_mul_left, Nat.add_mul_mod_self_left]; omega

/-- `__shr_128_long` and `__shl_128_long` at `k = 0` are not the identity either (same `64 - k` wrap). -/
theorem shr128Long_zero {A : U128} (hA : A.wf) : shr128Long A 0 = ⟨A.w0 ||| A.w1, A.w1⟩ := by
  have : shr128Long A 0 = shr128 A 0 := by simp [shr128Long, shr128]
  rw [this, shr128_zero hA]


theorem shl128Long_zero {A : U128} (hA : A.wf) : shl128Long A 0 = ⟨A.w0, A.w1 ||| A.w0⟩ := by
  obtain ⟨h0, h1⟩ := hA
  have a : shamt (0 : Int) = 0 := by decide
  have b : shamt (64 - 0 : Int) = 0 := by decide
  have c : ((0 : Int) < 64) = True := by simp
  simp only [shl128Long, c, if_true, shamt_i32w, shr64, shl64, a, b, Nat.zero_mod, Nat.pow_zero, Nat.div_one,
    Nat.mul_one, Nat.mod_eq_of_lt h0, Nat.mod_eq_of_lt h1]

/-- witnesses (the real code returns the same words): shifting `2^64` right by 0, and `1` left by 0 -/
example : (shr128 ⟨0, 1⟩ 0).words = [1, 1] := by decide
example : (shr128 ⟨0, 1⟩ 64).words = [1, 1] := by decide
example : (shl128Long ⟨1, 0⟩ 0).words = [1, 1] := by decide
example : (shr128Long ⟨0, 1⟩ 128).words = [1, 0] := by decide
example : (shr128 ⟨0x123456789abcdef0, 0xfedcba9876543210⟩ 4).val
    = (0xfedcba9876543210123456789abcdef0 : Nat) / 2 ^ 4 := by decide +kernel
example : (shr256 ⟨0x123456789abcdef0, 0xfedcba9876543210, 0xf, 0⟩ 4).words
    = [0x0123456789abcdef, 0x0fedcba987654321, 0, 0] := by decide +kernel
example : (shr128Long ⟨0x123456789abcdef0, 0xfedcba9876543210⟩ 100).val
    = (0xfedcba9876543210123456789abcdef0 : Nat) / 2 ^ 100 := by decide +kernel
example : (shl128Long ⟨0x123456789abcdef0, 0xfedcba9876543210⟩ 100).val
    = ((0xfedcba9876543210123456789abcdef0 : Nat) * 2 ^ 100) % 2 ^ 128 := by decide +kernel

/-- Every entry of `BID_RECIP_SCALE` (the only source of shift counts for `__shr_128`, `__shr_128_long`,
`__shl_128_long`) lies in 1..127 — so `amount` and `128 − amount` are both inside the domain of the `_long`
routines, and `amount ≥ 1` for `__shr_128`.  (From the table as compiled.) -/
theorem recip_scale_range : Dec.Gen.BID_RECIP_SCALE.all (fun a => decide (1 ≤ a ∧ a ≤ 127)) = true := by
  decide +kernel

/-- the hook's `word as i32` on a small count is the count -/
theorem i32OfWord_small {w : Nat} (h : w < 2147483648) : i32OfWord w = (w : Int) := by
  simp only [i32OfWord, i32w]; omega

/-! ### 64×64 multiplies -/

theorem half_mul_le {a b : Nat} (ha : a < 4294967296) (hb : b < 4294967296) : a * b ≤ 18446744065119617025 := by
  have : a * b ≤ 4294967295 * 4294967295 := Nat.mul_le_mul (by omega) (by omega)
  omega

/-- a product of two words is at most (2^64 − 1)^2 -/
theorem word_mul_le {a b : Nat} (ha : a < W) (hb : b < W) : a * b ≤ 340282366920938463426481119284349108225 := by
  have : a * b ≤ 18446744073709551615 * 18446744073709551615 := Nat.mul_le_mul (by omega) (by omega)
  omega

theorem split_mul (x y : Nat) :
    x * y = (x / 4294967296) * (y / 4294967296) * W
      + ((x / 4294967296) * (y % 4294967296) + (x % 4294967296) * (y / 4294967296)) * 4294967296
      + (x % 4294967296) * (y % 4294967296) := by
  have hx := Nat.div_add_mod x 4294967296
  have hy := Nat.div_add_mod y 4294967296
  generalize x / 4294967296 = a at *
  generalize x % 4294967296 = b at *
  generalize y / 4294967296 = c at *
  generalize y % 4294967296 = d at *
  subst hx; subst hy
  ring

/-- The heart of the group: the 32-bit half-word scheme of `__mul_64x64_to_128` (four 32×32 products, the middle sum
split so that nothing wraps) returns exactly the two words of the 128-bit product — for all words. -/
theorem mul64_core {CX CY : Nat} (hx : CX < W) (hy : CY < W) :
    (mul64x64to128 CX CY).w0 = CX * CY % W ∧ (mul64x64to128 CX CY).w1 = CX * CY / W := by
  have hs := split_mul CX CY
  have ha : CX / 4294967296 < 4294967296 := by omega
  have hb : CX % 4294967296 < 4294967296 := by omega
  have hc : CY / 4294967296 < 4294967296 := by omega
  have hd : CY % 4294967296 < 4294967296 := by omega
  have h1 := half_mul_le ha hd
  have h2 := half_mul_le ha hc
  have h3 := half_mul_le hb hd
  have h4 := half_mul_le hb hc
  simp only [mul64x64to128, shr64_32, shl64_32, lo32, mul64, add64]
  generalize (CX / 4294967296) * (CY % 4294967296) = p1 at *
  generalize (CX / 4294967296) * (CY / 4294967296) = p2 at *
  generalize (CX % 4294967296) * (CY % 4294967296) = p3 at *
  generalize (CX % 4294967296) * (CY / 4294967296) = p4 at *
  rw [hs]
  constructor <;> omega

theorem mul64x64to128Full_eq (x y : Nat) : mul64x64to128Full x y = mul64x64to128 x y := rfl
theorem mul64x64to128MACH_eq (x y : Nat) : mul64x64to128MACH x y = mul64x64to128 x y := rfl
theorem mul64x64to128HIGH_eq (x y : Nat) : mul64x64to128HIGH x y = (mul64x64to128 x y).w1 := rfl

/-- `__mul_64x64_to_128`: the exact 128-bit product. -/
theorem mul64x64to128_spec {x y : Nat} (hx : x < W) (hy : y < W) :
    (mul64x64to128 x y).val = x * y ∧ (mul64x64to128 x y).w0 < W ∧ (mul64x64to128 x y).w1 < W := by
  obtain ⟨e0, e1⟩ := mul64_core hx hy
  have := word_mul_le hx hy
  simp only [U128.val, e0, e1]
  omega

example : (mul64x64to128 0xfedcba9876543210 0x0123456789abcdef).val
    = 0xfedcba9876543210 * 0x0123456789abcdef := by decide +kernel
example : (mul64x64to128 0xffffffffffffffff 0xffffffffffffffff).words = [1, 0xfffffffffffffffe] := by decide +kernel

/-- `__mul_64x64_to_64`: the product modulo 2^64. -/
theorem mul64x64to64_spec (x y : Nat) : mul64x64to64 x y = (x * y) % W := rfl
example : mul64x64to64 0xfedcba9876543210 0x0123456789abcdef = 0x2236d88fe5618cf0 := by decide +kernel

/-- `__mul_64x64_to_128_full` and `__mul_64x64_to_128MACH` are textually `__mul_64x64_to_128`: the exact product. -/
theorem mul64x64to128Full_spec {x y : Nat} (hx : x < W) (hy : y < W) :
    (mul64x64to128Full x y).val = x * y ∧ (mul64x64to128Full x y).wf := by
  rw [mul64x64to128Full_eq]; exact mul64x64to128_spec hx hy
theorem mul64x64to128MACH_spec {x y : Nat} (hx : x < W) (hy : y < W) :
    (mul64x64to128MACH x y).val = x * y ∧ (mul64x64to128MACH x y).wf := by
  rw [mul64x64to128MACH_eq]; exact mul64x64to128_spec hx hy
example : (mul64x64to128MACH 0xfedcba9876543210 0xffffffffffffffff).val
    = 0xfedcba9876543210 * 0xffffffffffffffff := by decide +kernel

/-- `__mul_64x64_to_128HIGH`: `⌊x·y / 2^64⌋` (no call site in the crate). -/
theorem mul64x64to128HIGH_spec {x y : Nat} (hx : x < W) (hy : y < W) :
    mul64x64to128HIGH x y = (x * y) / W ∧ mul64x64to128HIGH x y < W := by
  rw [mul64x64to128HIGH_eq, (mul64_core hx hy).2]
  have := word_mul_le hx hy
  exact ⟨rfl, by omega⟩
example : mul64x64to128HIGH 0xfedcba9876543210 0x0123456789abcdef
    = (0xfedcba9876543210 * 0x0123456789abcdef) / 2 ^ 64 := by decide +kernel

/-- `__mul_64x64_to_128_fast`, for ALL words: the middle sum `PM = CXH·CYL + CXL·CYH + (PL >> 32)` is kept in one
`u64`; when it reaches 2^64 its top bit — worth 2^96 in the product — is lost.  So the result is the product minus
`2^96·⌊PM / 2^64⌋` (modulo 2^128; `⌊PM / 2^64⌋` is 0 or 1). -/
theorem mul64x64to128Fast_general {CX CY : Nat} (hx : CX < W) (hy : CY < W) :
    (mul64x64to128Fast CX CY).val
      = (CX * CY + W * W
          - 79228162514264337593543950336 *
            (((CX / 4294967296) * (CY % 4294967296) + (CX % 4294967296) * (CY / 4294967296)
              + (CX % 4294967296) * (CY % 4294967296) / 4294967296) / W)) % (W * W)
      ∧ (mul64x64to128Fast CX CY).w0 < W ∧ (mul64x64to128Fast CX CY).w1 < W := by
  have hs := split_mul CX CY
  have ha : CX / 4294967296 < 4294967296 := by omega
  have hb : CX % 4294967296 < 4294967296 := by omega
  have hc : CY / 4294967296 < 4294967296 := by omega
  have hd : CY % 4294967296 < 4294967296 := by omega
  have h1 := half_mul_le ha hd
  have h2 := half_mul_le ha hc
  have h3 := half_mul_le hb hd
  have h4 := half_mul_le hb hc
  simp only [mul64x64to128Fast, shr64_32, shl64_32, lo32, mul64, add64, U128.val]
  generalize (CX / 4294967296) * (CY % 4294967296) = p1 at *
  generalize (CX / 4294967296) * (CY / 4294967296) = p2 at *
  generalize (CX % 4294967296) * (CY % 4294967296) = p3 at *
  generalize (CX % 4294967296) * (CY / 4294967296) = p4 at *
  rw [hs]
  refine ⟨?_, ?_, ?_⟩ <;> omega


/-- `_fast` is exact when its middle sum does not wrap -/
theorem mul64x64to128Fast_exact {CX CY : Nat} (hx : CX < W) (hy : CY < W)
    (hM : (CX / 4294967296) * (CY % 4294967296) + (CX % 4294967296) * (CY / 4294967296)
        + (CX % 4294967296) * (CY % 4294967296) / 4294967296 < W) :
    (mul64x64to128Fast CX CY).val = CX * CY := by
  obtain ⟨e, -, -⟩ := mul64x64to128Fast_general hx hy
  have p := word_mul_le hx hy
  rw [e, Nat.div_eq_of_lt hM]
  omega

/-- … in particular for operands below 2^63 (the source comment promises 2^61; the call sites — a square root below
2^59 in `bid128_sqrt`, a 17-digit number times 10^17 or 10^18 in `bid128_from_string` — are inside). -/
theorem mul64x64to128Fast_spec {CX CY : Nat} (hx : CX < 9223372036854775808) (hy : CY < 9223372036854775808) :
    (mul64x64to128Fast CX CY).val = CX * CY := by
  apply mul64x64to128Fast_exact (by omega) (by omega)
  have ha : CX / 4294967296 ≤ 2147483647 := by omega
  have hb : CX % 4294967296 ≤ 4294967295 := by omega
  have hc : CY / 4294967296 ≤ 2147483647 := by omega
  have hd : CY % 4294967296 ≤ 4294967295 := by omega
  have h1 : (CX / 4294967296) * (CY % 4294967296) ≤ 2147483647 * 4294967295 := Nat.mul_le_mul ha hd
  have h2 : (CX % 4294967296) * (CY / 4294967296) ≤ 4294967295 * 2147483647 := Nat.mul_le_mul hb hc
  have h3 : (CX % 4294967296) * (CY % 4294967296) ≤ 4294967295 * 4294967295 := Nat.mul_le_mul hb hd
  generalize (CX / 4294967296) * (CY % 4294967296) = p1 at *
  generalize (CX % 4294967296) * (CY / 4294967296) = p4 at *
  generalize (CX % 4294967296) * (CY % 4294967296) = p3 at *
  omega

/-- the witness that `_fast` is not the product on all words: (2^64−1)^2 comes out 2^96 short -/
example : (mul64x64to128Fast 0xffffffffffffffff 0xffffffffffffffff).val + 2 ^ 96
    = 0xffffffffffffffff * 0xffffffffffffffff := by decide +kernel
example : (mul64x64to128Fast 0x7fffffffffffffff 0x7fffffffffffffff).val
    = 0x7fffffffffffffff * 0x7fffffffffffffff := by decide +kernel
example : (mul64x64to128Fast 99999999999999999 1000000000000000000).val
    = 99999999999999999 * 1000000000000000000 := by decide +kernel


/-! ### 64×128 family -/

/-- the common body of the six 64×128 routines: low word of `A·B0`, then `A·B1 + high(A·B0)` -/
theorem mul64x128_body {A : Nat} {B : U128} (hA : A < W) (hB0 : B.w0 < W) (hB1 : B.w1 < W) :
    (mul64x64to128 A B.w0).w0 + W * (add128_64 (mul64x64to128 A B.w1) (mul64x64to128 A B.w0).w1).w0
        + W * W * (add128_64 (mul64x64to128 A B.w1) (mul64x64to128 A B.w0).w1).w1 = A * B.val
      ∧ (mul64x64to128 A B.w0).w0 < W
      ∧ (add128_64 (mul64x64to128 A B.w1) (mul64x64to128 A B.w0).w1).w0 < W
      ∧ (add128_64 (mul64x64to128 A B.w1) (mul64x64to128 A B.w0).w1).w1 < W := by
  obtain ⟨vL, bL0, bL1⟩ := mul64x64to128_spec hA hB0
  obtain ⟨vH, bH0, bH1⟩ := mul64x64to128_spec hA hB1
  obtain ⟨vQ, bQ0, bQ1⟩ := add128_64_spec (A := mul64x64to128 A B.w1) (B := (mul64x64to128 A B.w0).w1) bH0 bH1 bL1
  have b1 := word_mul_le hA hB1
  simp only [U128.val] at vL vH vQ ⊢
  generalize mul64x64to128 A B.w0 = L at *
  generalize mul64x64to128 A B.w1 = H at *
  generalize add128_64 H L.w1 = Q at *
  rw [Nat.mul_add, Nat.mul_left_comm]
  generalize A * B.w0 = m0 at *
  generalize A * B.w1 = m1 at *
  refine ⟨?_, bL0, bQ0, bQ1⟩
  omega

/-! ### 64×256 → 320 -/

/-- `__mul_64x256_to_320`: the exact 320-bit product, returned in a `BID_UINT512` whose words 5–7 are 0. -/
theorem mul64x256to320_spec {A : Nat} {B : U256} (hA : A < W) (hB : B.wf) :
    (mul64x256to320 A B).val = A * B.val ∧ (mul64x256to320 A B).wf
      ∧ (mul64x256to320 A B).w5 = 0 ∧ (mul64x256to320 A B).w6 = 0 ∧ (mul64x256to320 A B).w7 = 0 := by
  obtain ⟨hB0, hB1, hB2, hB3⟩ := hB
  refine ⟨?_, ?_, rfl, rfl, rfl⟩
  all_goals
    simp only [mul64x256to320, U512.wf]
    obtain ⟨v0, a0, b0⟩ := mul64x64to128_spec hA hB0
    obtain ⟨v1, a1, b1⟩ := mul64x64to128_spec hA hB1
    obtain ⟨v2, a2, b2⟩ := mul64x64to128_spec hA hB2
    obtain ⟨v3, a3, b3⟩ := mul64x64to128_spec hA hB3
    have p0 := word_mul_le hA hB0
    have p1 := word_mul_le hA hB1
    have p2 := word_mul_le hA hB2
    have p3 := word_mul_le hA hB3
    generalize mul64x64to128 A B.w0 = L0 at *
    generalize mul64x64to128 A B.w1 = L1 at *
    generalize mul64x64to128 A B.w2 = L2 at *
    generalize mul64x64to128 A B.w3 = L3 at *
    obtain ⟨s1, t1, c1⟩ := addCarryOut_spec (x := L1.w0) (y := L0.w1) a1 b0
    generalize addCarryOut L1.w0 L0.w1 = r1 at *
    obtain ⟨s2, t2, c2⟩ := addCarryInOut_spec (x := L2.w0) (y := L1.w1) (ci := r1.2) a2 b1 (by omega) (by omega)
    generalize addCarryInOut L2.w0 L1.w1 r1.2 = r2 at *
    obtain ⟨s3, t3, c3⟩ := addCarryInOut_spec (x := L3.w0) (y := L2.w1) (ci := r2.2) a3 b2 (by omega) (by omega)
    generalize addCarryInOut L3.w0 L2.w1 r2.2 = r3 at *
    simp only [U512.val, U256.val, U128.val, add64] at *
  · have : A * (B.w0 + W * B.w1 + W * W * B.w2 + W * W * W * B.w3)
        = A * B.w0 + W * (A * B.w1) + W * W * (A * B.w2) + W * W * W * (A * B.w3) := by ring
    rw [this]
    generalize A * B.w0 = m0 at *
    generalize A * B.w1 = m1 at *
    generalize A * B.w2 = m2 at *
    generalize A * B.w3 = m3 at *
    omega
  · omega


example : (mul64x256to320 0xffffffffffffffff
      ⟨0xffffffffffffffff, 0xffffffffffffffff, 0xffffffffffffffff, 0xffffffffffffffff⟩).words
    = [1, 0xffffffffffffffff, 0xffffffffffffffff, 0xffffffffffffffff, 0xfffffffffffffffe, 0, 0, 0] := by decide +kernel

/- from here on the building blocks are used through their `_spec` theorems only; making them irreducible keeps
`generalize` from unfolding them when it compares two applications with different arguments -/
attribute [local irreducible] mul64x64to128 add128_64 add128_128 addCarryOut addCarryInOut

/-! ### 64×128 routines -/

/-- `__mul_64x128_full`: `Ql + 2^128·Ph` is the exact 192-bit product `A·B`. -/
theorem mul64x128Full_spec {A : Nat} {B : U128} (hA : A < W) (hB : B.wf) :
    (mul64x128Full A B).2.val + W * W * (mul64x128Full A B).1 = A * B.val
      ∧ (mul64x128Full A B).1 < W ∧ (mul64x128Full A B).2.wf := by
  obtain ⟨e, b0, b1, b2⟩ := mul64x128_body hA hB.1 hB.2
  simp only [mul64x128Full, U128.val, U128.wf, U128.val] at e ⊢
  exact ⟨by omega, b2, b0, b1⟩
example : (mul64x128Full 0xfedcba9876543210 ⟨0x0123456789abcdef, 0xffffffffffffffff⟩).2.val
      + 2 ^ 128 * (mul64x128Full 0xfedcba9876543210 ⟨0x0123456789abcdef, 0xffffffffffffffff⟩).1
    = 0xfedcba9876543210 * 0xffffffffffffffff0123456789abcdef := by decide +kernel

/-- `__mul_64x128_to_192`: the exact 192-bit product. -/
theorem mul64x128to_192_spec {A : Nat} {B : U128} (hA : A < W) (hB : B.wf) :
    (mul64x128to_192 A B).val = A * B.val ∧ (mul64x128to_192 A B).wf := by
  obtain ⟨e, b0, b1, b2⟩ := mul64x128_body hA hB.1 hB.2
  simp only [mul64x128to_192, U192.val, U192.wf, U128.val] at e ⊢
  exact ⟨by omega, b0, b1, b2⟩
example : (mul64x128to_192 0xffffffffffffffff ⟨0xffffffffffffffff, 0xffffffffffffffff⟩).val
    = 0xffffffffffffffff * 0xffffffffffffffffffffffffffffffff := by decide +kernel

theorem mul64x128to192_eq (A : Nat) (B : U128) : mul64x128to192 A B = mul64x128to_192 A B := by
  simp only [mul64x128to192, mul64x128to_192]

/-- `__mul_64x128_to192` (textually the same routine): the exact 192-bit product. -/
theorem mul64x128to192_spec {A : Nat} {B : U128} (hA : A < W) (hB : B.wf) :
    (mul64x128to192 A B).val = A * B.val ∧ (mul64x128to192 A B).wf := by
  rw [mul64x128to192_eq]; exact mul64x128to_192_spec hA hB

theorem val256_zero_top (a b c : Nat) : U256.val ⟨a, b, c, 0⟩ = a + W * b + W * W * c := by
  simp only [U256.val, Nat.mul_zero, Nat.add_zero]

theorem mul64x128to256_eq (A : Nat) (B : U128) : mul64x128to256 A B
    = ⟨(mul64x128to_192 A B).w0, (mul64x128to_192 A B).w1, (mul64x128to_192 A B).w2, 0⟩ := by
  simp only [mul64x128to256, mul64x128to_192]

/-- `__mul_64x128_to_256`: the exact product in four words, the top one 0. -/
theorem mul64x128to256_spec {A : Nat} {B : U128} (hA : A < W) (hB : B.wf) :
    (mul64x128to256 A B).val = A * B.val ∧ (mul64x128to256 A B).wf ∧ (mul64x128to256 A B).w3 = 0 := by
  obtain ⟨e, b0, b1, b2⟩ := mul64x128to_192_spec hA hB
  rw [mul64x128to256_eq, val256_zero_top]
  exact ⟨e, ⟨b0, b1, b2, by show (0 : Nat) < _; omega⟩, rfl⟩
example : (mul64x128to256 0x001fffffffffffff ⟨0x378d8e63ffffffff, 0x0001ed09bead87c0⟩).val
    = 0x001fffffffffffff * 0x0001ed09bead87c0378d8e63ffffffff := by decide +kernel

/-- `__mul_64x128_low` (no call site): the product TRUNCATED to 128 bits, `A·B mod 2^128`. -/
theorem mul64x128Low_spec {A : Nat} {B : U128} (hA : A < W) (hB : B.wf) :
    (mul64x128Low A B).val = (A * B.val) % (W * W) ∧ (mul64x128Low A B).wf := by
  obtain ⟨e, b0, b1, b2⟩ := mul64x128_body hA hB.1 hB.2
  simp only [mul64x128Low, U128.val, U128.wf, U128.val] at e ⊢
  exact ⟨by omega, b0, b1⟩

theorem mul64x128to128_eq (A : Nat) (B : U128) : mul64x128to128 A B = mul64x128Low A B := by
  simp only [mul64x128to128, mul64x128Low]

/-- `__mul_64x128_to_128` (textually `__mul_64x128_low`): `A·B mod 2^128` — truncating; exact when the product
is below 2^128. -/
theorem mul64x128to128_spec {A : Nat} {B : U128} (hA : A < W) (hB : B.wf) :
    (mul64x128to128 A B).val = (A * B.val) % (W * W) ∧ (mul64x128to128 A B).wf := by
  rw [mul64x128to128_eq]; exact mul64x128Low_spec hA hB
example : (mul64x128to128 0xfedcba9876543210 ⟨0x0123456789abcdef, 0xffffffffffffffff⟩).val
    = (0xfedcba9876543210 * 0xffffffffffffffff0123456789abcdef) % 2 ^ 128 := by decide +kernel

/-- `__mul_64x128_short`: `A·B mod 2^128` (the high partial product is taken modulo 2^64 by design); exact when the
product is below 2^128 — at its two call sites (`bid128_div.rs`) the product is a coefficient below 10^34 times a
power of ten chosen to keep it below 10^35. -/
theorem mul64x128Short_spec {A : Nat} {B : U128} (hA : A < W) (hB : B.wf) :
    (mul64x128Short A B).val = (A * B.val) % (W * W) ∧ (mul64x128Short A B).wf := by
  obtain ⟨e0, e1⟩ := mul64_core hA hB.1
  have p0 := word_mul_le hA hB.1
  simp only [mul64x128Short, mul64x64to64, mul64, add64, U128.val, U128.wf, e0, e1]
  rw [Nat.mul_add, Nat.mul_left_comm]
  generalize A * B.w0 = m0 at *
  generalize A * B.w1 = m1 at *
  omega
example : (mul64x128Short 10000000000000000000 ⟨0x378d8e63ffffffff, 0x0001ed09bead87c0⟩).val
    = (10000000000000000000 * 0x0001ed09bead87c0378d8e63ffffffff) % 2 ^ 128 := by decide +kernel

theorem mul128x64to128_eq (A : Nat) (B : U128) : mul128x64to128 A B = mul64x128Short A B := by
  simp only [mul128x64to128, mul64x128Short, mul64x64to128MACH_eq, mul64x64to64]

/-- `__mul_128x64_to_128` (the same computation through `…MACH`): `A·B mod 2^128`. -/
theorem mul128x64to128_spec {A : Nat} {B : U128} (hA : A < W) (hB : B.wf) :
    (mul128x64to128 A B).val = (A * B.val) % (W * W) ∧ (mul128x64to128 A B).wf := by
  rw [mul128x64to128_eq]; exact mul64x128Short_spec hA hB

/-! ### 128×128 -/

/-- `__mul_128x128_low`: the product TRUNCATED to 128 bits, `A·B mod 2^128`. -/
theorem mul128x128Low_spec {A B : U128} (hA : A.wf) (hB : B.wf) :
    (mul128x128Low A B).val = (A.val * B.val) % (W * W) ∧ (mul128x128Low A B).wf := by
  obtain ⟨e0, e1⟩ := mul64_core hA.1 hB.1
  have p0 := word_mul_le hA.1 hB.1
  simp only [mul128x128Low, mul64, add64, U128.val, U128.wf, e0, e1]
  have : (A.w0 + W * A.w1) * (B.w0 + W * B.w1)
      = A.w0 * B.w0 + W * (B.w0 * A.w1 + A.w0 * B.w1) + W * W * (A.w1 * B.w1) := by ring
  rw [this]
  generalize A.w0 * B.w0 = m00 at *
  generalize B.w0 * A.w1 = m10 at *
  generalize A.w0 * B.w1 = m01 at *
  generalize A.w1 * B.w1 = m11 at *
  omega
example : (mul128x128Low ⟨0xfedcba9876543210, 0x0123456789abcdef⟩ ⟨0x0f1e2d3c4b5a6978, 0x8796a5b4c3d2e1f0⟩).val
    = (0x0123456789abcdeffedcba9876543210 * 0x8796a5b4c3d2e1f00f1e2d3c4b5a6978) % 2 ^ 128 := by decide +kernel

theorem mul_le_W3 {a b : Nat} (ha : a < W) (hb : b < W * W) :
    a * b ≤ 18446744073709551615 * 340282366920938463463374607431768211455 :=
  Nat.mul_le_mul (by omega) (by omega)

/-- `__mul_128x128_to_256` (131 call sites): the exact 256-bit product — for all words. -/
theorem mul128x128to256_spec {A B : U128} (hA : A.wf) (hB : B.wf) :
    (mul128x128to256 A B).val = A.val * B.val ∧ (mul128x128to256 A B).wf := by
  obtain ⟨vL, aL, bL0, bL1⟩ := mul64x128Full_spec hA.1 hB
  obtain ⟨vH, aH, bH0, bH1⟩ := mul64x128Full_spec hA.2 hB
  have hBv : B.val < W * W := by have := hB.1; have := hB.2; simp only [U128.val]; omega
  have pH := mul_le_W3 hA.2 hBv
  simp only [mul128x128to256, U256.wf]
  generalize mul64x128Full A.w0 B = L at *
  generalize mul64x128Full A.w1 B = H at *
  obtain ⟨s1, t1, c1⟩ := addCarryOut_spec (x := H.2.w0) (y := L.2.w1) bH0 bL1
  generalize addCarryOut H.2.w0 L.2.w1 = r1 at *
  obtain ⟨s2, t2, c2⟩ := addCarryInOut_spec (x := H.2.w1) (y := L.1) (ci := r1.2) bH1 aL (by omega) (by omega)
  generalize addCarryInOut H.2.w1 L.1 r1.2 = r2 at *
  have : A.val * B.val = A.w0 * B.val + W * (A.w1 * B.val) := by simp only [U128.val]; ring
  rw [this]
  simp only [U256.val, U128.val, add64] at *
  generalize A.w0 * (B.w0 + W * B.w1) = t0 at *
  generalize A.w1 * (B.w0 + W * B.w1) = t1' at *
  omega
example : (mul128x128to256 ⟨0xffffffffffffffff, 0xffffffffffffffff⟩ ⟨0xffffffffffffffff, 0xffffffffffffffff⟩).words
    = [1, 0, 0xfffffffffffffffe, 0xffffffffffffffff] := by decide +kernel
example : (mul128x128to256 ⟨0xfedcba9876543210, 0x0123456789abcdef⟩ ⟨0x0f1e2d3c4b5a6978, 0x8796a5b4c3d2e1f0⟩).val
    = 0x0123456789abcdeffedcba9876543210 * 0x8796a5b4c3d2e1f00f1e2d3c4b5a6978 := by decide +kernel

/-- `__mul_128x128_full` (and `_high`, its high half), in general: the carry out of `ALBH + AHBL` — worth 2^192 — is
dropped, so the 256-bit number `(Qh, Ql)` falls short of the product by exactly `2^192·⌊S / 2^128⌋`, where
`S = A0·B1 + B0·A1 + ⌊A0·B0 / 2^64⌋` (`S < 2^129`, so the deficit is 0 or 2^192). -/
theorem mul128x128Full_general {A B : U128} (hA : A.wf) (hB : B.wf) :
    (mul128x128Full A B).2.val + W * W * (mul128x128Full A B).1.val
        + W * W * W * ((A.w0 * B.w1 + B.w0 * A.w1 + A.w0 * B.w0 / W) / (W * W)) = A.val * B.val
      ∧ (mul128x128Full A B).1.wf ∧ (mul128x128Full A B).2.wf := by
  obtain ⟨vLH, aLH, bLH⟩ := mul64x64to128_spec hA.1 hB.2
  obtain ⟨vHL, aHL, bHL⟩ := mul64x64to128_spec hB.1 hA.2
  obtain ⟨vLL, aLL, bLL⟩ := mul64x64to128_spec hA.1 hB.1
  obtain ⟨vHH, aHH, bHH⟩ := mul64x64to128_spec hA.2 hB.2
  have pLH := word_mul_le hA.1 hB.2
  have pHL := word_mul_le hB.1 hA.2
  have pLL := word_mul_le hA.1 hB.1
  have pHH := word_mul_le hA.2 hB.2
  simp only [mul128x128Full, U128.wf]
  generalize mul64x64to128 A.w0 B.w1 = ALBH at *
  generalize mul64x64to128 B.w0 A.w1 = AHBL at *
  generalize mul64x64to128 A.w0 B.w0 = ALBL at *
  generalize mul64x64to128 A.w1 B.w1 = AHBH at *
  obtain ⟨vQM, aQM, bQM⟩ := add128_128_spec (A := ALBH) (B := AHBL) aLH bLH aHL bHL
  generalize add128_128 ALBH AHBL = QM at *
  obtain ⟨vQM2, aQM2, bQM2⟩ := add128_64_spec (A := QM) (B := ALBL.w1) aQM bQM bLL
  generalize add128_64 QM ALBL.w1 = QM2 at *
  obtain ⟨vQh, aQh, bQh⟩ := add128_64_spec (A := AHBH) (B := QM2.w1) aHH bHH bQM2
  generalize add128_64 AHBH QM2.w1 = Qh at *
  have : A.val * B.val
      = A.w0 * B.w0 + W * (A.w0 * B.w1 + B.w0 * A.w1) + W * W * (A.w1 * B.w1) := by simp only [U128.val]; ring
  rw [this]
  simp only [U128.val] at *
  generalize A.w0 * B.w1 = mLH at *
  generalize B.w0 * A.w1 = mHL at *
  generalize A.w0 * B.w0 = mLL at *
  generalize A.w1 * B.w1 = mHH at *
  have hhi : mLL / W = ALBL.w1 := by omega
  have hQM2 : QM2.w0 + W * QM2.w1 = (mLH + mHL + ALBL.w1) % (W * W) := by omega
  have hQh : Qh.w0 + W * Qh.w1 = mHH + QM2.w1 := by omega
  rw [hhi]
  clear vQM vQM2 vQh vLH vHL vHH pLH pHL pHH pLL hhi aQM bQM aLH bLH aHL bHL aHH bHH
  generalize hS : mLH + mHL + ALBL.w1 = S at *
  refine ⟨?_, ⟨aQh, bQh⟩, aLL, aQM2⟩
  omega
/-- the witness (real code: the same words): (2^128−1)^2 — `Qh` comes out as `…fffe_…fffe` instead of `…ffff_…fffe`,
2^192 short -/
example : ((mul128x128Full ⟨0xffffffffffffffff, 0xffffffffffffffff⟩ ⟨0xffffffffffffffff, 0xffffffffffffffff⟩).1.words,
    (mul128x128Full ⟨0xffffffffffffffff, 0xffffffffffffffff⟩ ⟨0xffffffffffffffff, 0xffffffffffffffff⟩).2.words)
    = ([0xfffffffffffffffe, 0xfffffffffffffffe], [1, 0]) := by decide +kernel
example : (mul128x128High ⟨0xffffffffffffffff, 0xffffffffffffffff⟩ ⟨0xffffffffffffffff, 0xffffffffffffffff⟩).val + 2 ^ 64
    = (0xffffffffffffffffffffffffffffffff * 0xffffffffffffffffffffffffffffffff) / 2 ^ 128 := by decide +kernel

theorem mul128x128High_eq (A B : U128) : mul128x128High A B = (mul128x128Full A B).1 := by
  simp only [mul128x128High, mul128x128Full]

/-- the dropped carry is 0 when the high words are small: `A.w1 + B.w1 ≤ 2^64` suffices -/
theorem mul128x128_S_small {A B : U128} (hA : A.wf) (hB : B.wf) (h : A.w1 + B.w1 ≤ W) :
    (A.w0 * B.w1 + B.w0 * A.w1 + A.w0 * B.w0 / W) / (W * W) = 0 := by
  have p1 : A.w0 * B.w1 ≤ 18446744073709551615 * B.w1 := Nat.mul_le_mul_right _ (by have := hA.1; omega)
  have p2 : B.w0 * A.w1 ≤ 18446744073709551615 * A.w1 := Nat.mul_le_mul_right _ (by have := hB.1; omega)
  have p3 := word_mul_le hA.1 hB.1
  generalize A.w0 * B.w1 = mLH at *
  generalize B.w0 * A.w1 = mHL at *
  generalize A.w0 * B.w0 = mLL at *
  omega

/-- `__mul_128x128_full` is the exact 256-bit product when `A.w1 + B.w1 ≤ 2^64` (all call sites: one operand is a
coefficient below 2^114, the other `d1000` or a `BID_RECIPROCALS10_128` entry, high word below 2^62). -/
theorem mul128x128Full_spec {A B : U128} (hA : A.wf) (hB : B.wf) (h : A.w1 + B.w1 ≤ W) :
    (mul128x128Full A B).2.val + W * W * (mul128x128Full A B).1.val = A.val * B.val
      ∧ (mul128x128Full A B).1.wf ∧ (mul128x128Full A B).2.wf := by
  obtain ⟨e, w1, w2⟩ := mul128x128Full_general hA hB
  have hz := mul128x128_S_small hA hB h
  generalize (A.w0 * B.w1 + B.w0 * A.w1 + A.w0 * B.w0 / W) / (W * W) = q at e hz
  exact ⟨by omega, w1, w2⟩

/-- `__mul_128x128_high`: `⌊A·B / 2^128⌋` under the same condition -/
theorem mul128x128High_spec {A B : U128} (hA : A.wf) (hB : B.wf) (h : A.w1 + B.w1 ≤ W) :
    (mul128x128High A B).val = (A.val * B.val) / (W * W) ∧ (mul128x128High A B).wf := by
  obtain ⟨e, w1, w2⟩ := mul128x128Full_spec hA hB h
  rw [mul128x128High_eq]
  refine ⟨?_, w1⟩
  have : (mul128x128Full A B).2.val < W * W := by
    have := w2.1; have := w2.2; simp only [U128.val]; omega
  omega
example : (mul128x128High ⟨0x378d8e63ffffffff, 0x0001ed09bead87c0⟩ ⟨0x9DB22D0E56041894, 0x4189374BC6A7EF⟩).val
    = (0x0001ed09bead87c0378d8e63ffffffff * 0x4189374BC6A7EF9DB22D0E56041894) / 2 ^ 128 := by decide +kernel

/-- Call sites of `__mul_128x128_full` / `_high`: the second operand is `d1000` (`bid_dpd.rs`, high word
`0x4189374BC6A7EF`) or an entry of `BID_RECIPROCALS10_128`, whose high words are all below 2^62 (from the table as
compiled); the first is a coefficient (plus a rounding constant) below 2^114, high word below 2^50.  So
`A.w1 + B.w1 ≤ 2^64` holds with room. -/
theorem reciprocals_hi_small :
    (List.range Dec.Gen.BID_RECIPROCALS10_128_len).all
      (fun i => decide (Dec.Gen.BID_RECIPROCALS10_128.getD (2 * i + 1) 0 < 4611686018427387904)) = true := by
  decide +kernel


/-! ### 64×192, 64×256 -/

/-- `__mul_64x192_to_256`: the exact 256-bit product. -/
theorem mul64x192to256_spec {A : Nat} {B : U192} (hA : A < W) (hB : B.wf) :
    (mul64x192to256 A B).val = A * B.val ∧ (mul64x192to256 A B).wf := by
  obtain ⟨hB0, hB1, hB2⟩ := hB
  obtain ⟨v0, a0, b0⟩ := mul64x64to128_spec hA hB0
  obtain ⟨v1, a1, b1⟩ := mul64x64to128_spec hA hB1
  obtain ⟨v2, a2, b2⟩ := mul64x64to128_spec hA hB2
  have p0 := word_mul_le hA hB0
  have p1 := word_mul_le hA hB1
  have p2 := word_mul_le hA hB2
  simp only [mul64x192to256, U256.wf]
  generalize mul64x64to128 A B.w0 = L0 at *
  generalize mul64x64to128 A B.w1 = L1 at *
  generalize mul64x64to128 A B.w2 = L2 at *
  obtain ⟨s1, t1, c1⟩ := addCarryOut_spec (x := L1.w0) (y := L0.w1) a1 b0
  generalize addCarryOut L1.w0 L0.w1 = r1 at *
  obtain ⟨s2, t2, c2⟩ := addCarryInOut_spec (x := L2.w0) (y := L1.w1) (ci := r1.2) a2 b1 (by omega) (by omega)
  generalize addCarryInOut L2.w0 L1.w1 r1.2 = r2 at *
  simp only [U256.val, U192.val, U128.val, add64] at *
  have : A * (B.w0 + W * B.w1 + W * W * B.w2)
      = A * B.w0 + W * (A * B.w1) + W * W * (A * B.w2) := by ring
  rw [this]
  generalize A * B.w0 = m0 at *
  generalize A * B.w1 = m1 at *
  generalize A * B.w2 = m2 at *
  refine ⟨?_, ?_, ?_, ?_, ?_⟩ <;> omega
example : (mul64x192to256 0xffffffffffffffff ⟨0xffffffffffffffff, 0xffffffffffffffff, 0xffffffffffffffff⟩).val
    = 0xffffffffffffffff * 0xffffffffffffffffffffffffffffffffffffffffffffffff := by decide +kernel

/-- `__mul_64x256_to_256` never reads `lB.w[3]`: it IS `__mul_64x192_to_256` on the three low words. -/
theorem mul64x256to256_eq (A : Nat) (B : U256) :
    mul64x256to256 A B = mul64x192to256 A ⟨B.w0, B.w1, B.w2⟩ := by
  simp only [mul64x256to256, mul64x192to256]

/-- `__mul_64x256_to_256` computes `lA · (lB mod 2^192)` exactly. -/
theorem mul64x256to256_spec {A : Nat} {B : U256} (hA : A < W) (hB : B.wf) :
    (mul64x256to256 A B).val = A * (B.val % (W * W * W)) ∧ (mul64x256to256 A B).wf := by
  obtain ⟨hB0, hB1, hB2, hB3⟩ := hB
  rw [mul64x256to256_eq]
  obtain ⟨e, w⟩ := mul64x192to256_spec (B := ⟨B.w0, B.w1, B.w2⟩) hA ⟨hB0, hB1, hB2⟩
  refine ⟨?_, w⟩
  rw [e]
  have : B.val % (W * W * W) = (⟨B.w0, B.w1, B.w2⟩ : U192).val := by
    simp only [U256.val, U192.val]; omega
  rw [this]

/-- … hence it is the product (which then fits 256 bits) when `lB.w[3] = 0` — the case at all three call sites
(`short_sqrt128`: the second operand is the result of `__mul_64x128_to_256`, whose word 3 is 0). -/
theorem mul64x256to256_exact {A : Nat} {B : U256} (hA : A < W) (hB : B.wf) (h3 : B.w3 = 0) :
    (mul64x256to256 A B).val = A * B.val := by
  obtain ⟨hB0, hB1, hB2, hB3⟩ := hB
  rw [(mul64x256to256_spec hA ⟨hB0, hB1, hB2, hB3⟩).1]
  have : B.val % (W * W * W) = B.val := by
    simp only [U256.val, h3]; omega
  rw [this]

/-- … and it is the product truncated to 256 bits exactly when `lA · lB.w[3]` is a multiple of 2^64. -/
theorem mul64x256to256_trunc_iff {A : Nat} {B : U256} (hA : A < W) (hB : B.wf) :
    (mul64x256to256 A B).val = (A * B.val) % (W * W * W * W) ↔ (A * B.w3) % W = 0 := by
  obtain ⟨hB0, hB1, hB2, hB3⟩ := hB
  obtain ⟨e, w⟩ := mul64x192to256_spec (B := ⟨B.w0, B.w1, B.w2⟩) hA ⟨hB0, hB1, hB2⟩
  rw [mul64x256to256_eq, e]
  have hlt : A * (⟨B.w0, B.w1, B.w2⟩ : U192).val < W * W * W * W := by
    have : (⟨B.w0, B.w1, B.w2⟩ : U192).val < W * W * W := by simp only [U192.val]; omega
    calc A * (⟨B.w0, B.w1, B.w2⟩ : U192).val < W * (W * W * W) := Nat.mul_lt_mul'' hA this
      _ = W * W * W * W := by norm_num
  have hsplit : A * B.val = A * (⟨B.w0, B.w1, B.w2⟩ : U192).val + W * W * W * (A * B.w3) := by
    simp only [U256.val, U192.val]; ring
  rw [hsplit]
  generalize A * (⟨B.w0, B.w1, B.w2⟩ : U192).val = t at *
  generalize A * B.w3 = u at *
  omega
example : (mul64x256to256 0x001fffffffffffff ⟨0xfedcba9876543210, 0x0123456789abcdef, 0x00000000ffffffff, 0⟩).val
    = 0x001fffffffffffff * 0x00000000ffffffff0123456789abcdeffedcba9876543210 := by decide +kernel
/-- the witness (real code: the same): `1 · 2^192` comes out as 0 -/
example : (mul64x256to256 1 ⟨0, 0, 0, 1⟩).words = [0, 0, 0, 0] := by decide +kernel


attribute [local irreducible] mul64x192to256 mul64x256to320

/-! ### 192×192, 128², 256×256 -/

/-- one accumulation step of the schoolbook product: a 4-word row `q` (a word times a 3-word number, so at most
(2^64−1)(2^192−1)) added to 3 words `x` of the running sum through `__add_carry_out`, two `__add_carry_in_out`
and a final wrapping `+`: nothing is lost. -/
theorem add_row4 {x1 x2 x3 q0 q1 q2 q3 : Nat} (hx1 : x1 < W) (hx2 : x2 < W) (hx3 : x3 < W)
    (hq0 : q0 < W) (hq1 : q1 < W) (hq2 : q2 < W) (hq3 : q3 < W)
    (hq : q0 + W * q1 + W * W * q2 + W * W * W * q3
      ≤ 18446744073709551615 * 6277101735386680763835789423207666416102355444464034512895) :
    (addCarryOut q0 x1).1
        + W * (addCarryInOut q1 x2 (addCarryOut q0 x1).2).1
        + W * W * (addCarryInOut q2 x3 (addCarryInOut q1 x2 (addCarryOut q0 x1).2).2).1
        + W * W * W * (add64 q3 (addCarryInOut q2 x3 (addCarryInOut q1 x2 (addCarryOut q0 x1).2).2).2)
      = (x1 + W * x2 + W * W * x3) + (q0 + W * q1 + W * W * q2 + W * W * W * q3)
    ∧ (addCarryOut q0 x1).1 < W
    ∧ (addCarryInOut q1 x2 (addCarryOut q0 x1).2).1 < W
    ∧ (addCarryInOut q2 x3 (addCarryInOut q1 x2 (addCarryOut q0 x1).2).2).1 < W
    ∧ add64 q3 (addCarryInOut q2 x3 (addCarryInOut q1 x2 (addCarryOut q0 x1).2).2).2 < W := by
  obtain ⟨s1, t1, c1⟩ := addCarryOut_spec (x := q0) (y := x1) hq0 hx1
  generalize addCarryOut q0 x1 = r1 at *
  obtain ⟨s2, t2, c2⟩ := addCarryInOut_spec (x := q1) (y := x2) (ci := r1.2) hq1 hx2 (by omega) (by omega)
  generalize addCarryInOut q1 x2 r1.2 = r2 at *
  obtain ⟨s3, t3, c3⟩ := addCarryInOut_spec (x := q2) (y := x3) (ci := r2.2) hq2 hx3 (by omega) (by omega)
  generalize addCarryInOut q2 x3 r2.2 = r3 at *
  simp only [add64]
  refine ⟨?_, t1, t2, t3, ?_⟩ <;> omega

theorem mul_le_W4 {a b : Nat} (ha : a < W) (hb : b < W * W * W) :
    a * b ≤ 18446744073709551615 * 6277101735386680763835789423207666416102355444464034512895 :=
  Nat.mul_le_mul (by omega) (by omega)

/-- `__mul_192x192_to_384`: the exact 384-bit product — for all words. -/
theorem mul192x192to384_spec {A B : U192} (hA : A.wf) (hB : B.wf) :
    (mul192x192to384 A B).val = A.val * B.val ∧ (mul192x192to384 A B).wf := by
  obtain ⟨hA0, hA1, hA2⟩ := hA
  obtain ⟨v0, w00, w01, w02, w03⟩ := mul64x192to256_spec hA0 hB
  obtain ⟨v1, w10, w11, w12, w13⟩ := mul64x192to256_spec hA1 hB
  obtain ⟨v2, w20, w21, w22, w23⟩ := mul64x192to256_spec hA2 hB
  have hBv : B.val < W * W * W := by
    obtain ⟨h0, h1, h2⟩ := hB; simp only [U192.val]; omega
  have q1 := mul_le_W4 hA1 hBv
  have q2 := mul_le_W4 hA2 hBv
  rw [← v1] at q1
  rw [← v2] at q2
  have hsplit : A.val * B.val = A.w0 * B.val + W * (A.w1 * B.val) + W * W * (A.w2 * B.val) := by
    simp only [U192.val]; ring
  rw [hsplit, ← v0, ← v1, ← v2]
  simp only [mul192x192to384, U384.wf]
  generalize mul64x192to256 A.w0 B = P0 at *
  generalize mul64x192to256 A.w1 B = P1 at *
  generalize mul64x192to256 A.w2 B = P2 at *
  simp only [U256.val] at q1 q2 ⊢
  obtain ⟨eA, a1b, a2b, a3b, r4b⟩ := add_row4 w01 w02 w03 w10 w11 w12 w13 q1
  obtain ⟨eB, b2b, b3b, b4b, r5b⟩ := add_row4 a2b a3b r4b w20 w21 w22 w23 q2
  simp only [U384.val]
  refine ⟨?_, w00, a1b, b2b, b3b, b4b, r5b⟩
  generalize addCarryOut P1.w0 P0.w1 = a1 at *
  generalize addCarryInOut P1.w1 P0.w2 a1.2 = a2 at *
  generalize addCarryInOut P1.w2 P0.w3 a2.2 = a3 at *
  generalize add64 P1.w3 a3.2 = R4 at *
  generalize addCarryOut P2.w0 a2.1 = b2 at *
  generalize addCarryInOut P2.w1 a3.1 b2.2 = b3 at *
  generalize addCarryInOut P2.w2 R4 b3.2 = b4 at *
  generalize add64 P2.w3 b4.2 = R5 at *
  clear q1 q2 hsplit hBv v0 v1 v2
  omega
example : (mul192x192to384 ⟨0xffffffffffffffff, 0xffffffffffffffff, 0xffffffffffffffff⟩
      ⟨0xffffffffffffffff, 0xffffffffffffffff, 0xffffffffffffffff⟩).words
    = [1, 0, 0, 0xfffffffffffffffe, 0xffffffffffffffff, 0xffffffffffffffff] := by decide +kernel
example : (mul192x192to384 ⟨0xfedcba9876543210, 0x0123456789abcdef, 0x0f1e2d3c4b5a6978⟩
      ⟨0x8796a5b4c3d2e1f0, 0x1111111111111111, 0xfffffffffffffffe⟩).val
    = 0x0f1e2d3c4b5a69780123456789abcdeffedcba9876543210
      * 0xfffffffffffffffe11111111111111118796a5b4c3d2e1f0 := by decide +kernel


theorem or_low_bit {x b : Nat} (hb : b < 2) : (x + x) % W ||| b = (x + x) % W + b := by
  have h : (x + x) % W = 2 ^ 1 * (x % 9223372036854775808) := by omega
  rw [h]; exact (Nat.two_pow_add_eq_or_of_lt (by simpa using hb) _).symm

/-- `__sqr128_to_256`: the exact square (one cross product, doubled by shifting, its top bit carried into
`Qhh.w[1]` by hand). -/
theorem sqr128to256_spec {A : U128} (hA : A.wf) :
    (sqr128to256 A).val = A.val * A.val ∧ (sqr128to256 A).wf := by
  obtain ⟨hA0, hA1⟩ := hA
  obtain ⟨vhh, ahh, bhh⟩ := mul64x64to128_spec hA1 hA1
  obtain ⟨vlh, alh, blh⟩ := mul64x64to128_spec hA0 hA1
  obtain ⟨vll, all', bll⟩ := mul64x64to128_spec hA0 hA0
  have phh := word_mul_le hA1 hA1
  have plh := word_mul_le hA0 hA1
  have pll := word_mul_le hA0 hA0
  simp only [sqr128to256, U256.wf, shr64_63]
  generalize mul64x64to128 A.w1 A.w1 = Qhh at *
  generalize mul64x64to128 A.w0 A.w1 = Qlh at *
  generalize mul64x64to128 A.w0 A.w0 = Qll at *
  have hor : add64 Qlh.w1 Qlh.w1 ||| Qlh.w0 / 9223372036854775808
      = (Qlh.w1 + Qlh.w1) % W + Qlh.w0 / 9223372036854775808 := by
    simp only [add64]; exact or_low_bit (by omega)
  rw [hor]
  have hsplit : A.val * A.val = A.w0 * A.w0 + W * (2 * (A.w0 * A.w1)) + W * W * (A.w1 * A.w1) := by
    simp only [U128.val]; ring
  rw [hsplit]
  simp only [U128.val] at vhh vlh vll
  generalize A.w0 * A.w0 = m00 at *
  generalize A.w0 * A.w1 = m01 at *
  generalize A.w1 * A.w1 = m11 at *
  have hl0 : add64 Qlh.w0 Qlh.w0 < W := by simp only [add64]; omega
  obtain ⟨s1, t1, c1⟩ := addCarryOut_spec (x := add64 Qlh.w0 Qlh.w0) (y := Qll.w1) hl0 bll
  generalize addCarryOut (add64 Qlh.w0 Qlh.w0) Qll.w1 = r1 at *
  have hl1 : (Qlh.w1 + Qlh.w1) % W + Qlh.w0 / 9223372036854775808 < W := by omega
  obtain ⟨s2, t2, c2⟩ := addCarryInOut_spec (x := (Qlh.w1 + Qlh.w1) % W + Qlh.w0 / 9223372036854775808)
    (y := Qhh.w0) (ci := r1.2) hl1 ahh (by omega) (by omega)
  generalize addCarryInOut ((Qlh.w1 + Qlh.w1) % W + Qlh.w0 / 9223372036854775808) Qhh.w0 r1.2 = r2 at *
  simp only [U256.val, add64] at *
  refine ⟨?_, ?_, ?_, ?_, ?_⟩ <;> omega
example : (sqr128to256 ⟨0xffffffffffffffff, 0xffffffffffffffff⟩).words
    = [1, 0, 0xfffffffffffffffe, 0xffffffffffffffff] := by decide +kernel
example : (sqr128to256 ⟨0xfedcba9876543210, 0x8123456789abcdef⟩).val
    = 0x8123456789abcdeffedcba9876543210 * 0x8123456789abcdeffedcba9876543210 := by decide +kernel

/-- the accumulation step for 5-word rows (a word times a 4-word number) -/
theorem add_row5 {x1 x2 x3 x4 q0 q1 q2 q3 q4 : Nat} (hx1 : x1 < W) (hx2 : x2 < W) (hx3 : x3 < W) (hx4 : x4 < W)
    (hq0 : q0 < W) (hq1 : q1 < W) (hq2 : q2 < W) (hq3 : q3 < W) (hq4 : q4 < W)
    (hq : q0 + W * q1 + W * W * q2 + W * W * W * q3 + W * W * W * W * q4
      ≤ 18446744073709551615
        * 115792089237316195423570985008687907853269984665640564039457584007913129639935) :
    (addCarryOut q0 x1).1
        + W * (addCarryInOut q1 x2 (addCarryOut q0 x1).2).1
        + W * W * (addCarryInOut q2 x3 (addCarryInOut q1 x2 (addCarryOut q0 x1).2).2).1
        + W * W * W * (addCarryInOut q3 x4 (addCarryInOut q2 x3 (addCarryInOut q1 x2 (addCarryOut q0 x1).2).2).2).1
        + W * W * W * W * (add64 q4
            (addCarryInOut q3 x4 (addCarryInOut q2 x3 (addCarryInOut q1 x2 (addCarryOut q0 x1).2).2).2).2)
      = (x1 + W * x2 + W * W * x3 + W * W * W * x4)
          + (q0 + W * q1 + W * W * q2 + W * W * W * q3 + W * W * W * W * q4)
    ∧ (addCarryOut q0 x1).1 < W
    ∧ (addCarryInOut q1 x2 (addCarryOut q0 x1).2).1 < W
    ∧ (addCarryInOut q2 x3 (addCarryInOut q1 x2 (addCarryOut q0 x1).2).2).1 < W
    ∧ (addCarryInOut q3 x4 (addCarryInOut q2 x3 (addCarryInOut q1 x2 (addCarryOut q0 x1).2).2).2).1 < W
    ∧ add64 q4 (addCarryInOut q3 x4 (addCarryInOut q2 x3 (addCarryInOut q1 x2 (addCarryOut q0 x1).2).2).2).2 < W := by
  obtain ⟨s1, t1, c1⟩ := addCarryOut_spec (x := q0) (y := x1) hq0 hx1
  generalize addCarryOut q0 x1 = r1 at *
  obtain ⟨s2, t2, c2⟩ := addCarryInOut_spec (x := q1) (y := x2) (ci := r1.2) hq1 hx2 (by omega) (by omega)
  generalize addCarryInOut q1 x2 r1.2 = r2 at *
  obtain ⟨s3, t3, c3⟩ := addCarryInOut_spec (x := q2) (y := x3) (ci := r2.2) hq2 hx3 (by omega) (by omega)
  generalize addCarryInOut q2 x3 r2.2 = r3 at *
  obtain ⟨s4, t4, c4⟩ := addCarryInOut_spec (x := q3) (y := x4) (ci := r3.2) hq3 hx4 (by omega) (by omega)
  generalize addCarryInOut q3 x4 r3.2 = r4 at *
  simp only [add64]
  refine ⟨?_, t1, t2, t3, t4, ?_⟩ <;> omega

theorem mul_le_W5 {a b : Nat} (ha : a < W) (hb : b < W * W * W * W) :
    a * b ≤ 18446744073709551615
      * 115792089237316195423570985008687907853269984665640564039457584007913129639935 :=
  Nat.mul_le_mul (by omega) (by omega)

/-- the five-word value of a `__mul_64x256_to_320` result (its words 5–7 are zero) -/
theorem val512_320 {P : U512} (h5 : P.w5 = 0) (h6 : P.w6 = 0) (h7 : P.w7 = 0) :
    P.val = P.w0 + W * P.w1 + W * W * P.w2 + W * W * W * P.w3 + W * W * W * W * P.w4 := by
  simp only [U512.val, h5, h6, h7, Nat.mul_zero, Nat.add_zero]

/-- `__mul_256x256_to_512`: the exact 512-bit product — for all words. -/
theorem mul256x256to512_spec {A B : U256} (hA : A.wf) (hB : B.wf) :
    (mul256x256to512 A B).val = A.val * B.val ∧ (mul256x256to512 A B).wf := by
  obtain ⟨hA0, hA1, hA2, hA3⟩ := hA
  obtain ⟨v0, ⟨w00, w01, w02, w03, w04, -, -, -⟩, z05, z06, z07⟩ := mul64x256to320_spec hA0 hB
  obtain ⟨v1, ⟨w10, w11, w12, w13, w14, -, -, -⟩, z15, z16, z17⟩ := mul64x256to320_spec hA1 hB
  obtain ⟨v2, ⟨w20, w21, w22, w23, w24, -, -, -⟩, z25, z26, z27⟩ := mul64x256to320_spec hA2 hB
  obtain ⟨v3, ⟨w30, w31, w32, w33, w34, -, -, -⟩, z35, z36, z37⟩ := mul64x256to320_spec hA3 hB
  rw [val512_320 z05 z06 z07] at v0
  rw [val512_320 z15 z16 z17] at v1
  rw [val512_320 z25 z26 z27] at v2
  rw [val512_320 z35 z36 z37] at v3
  have hBv : B.val < W * W * W * W := by
    obtain ⟨h0, h1, h2, h3⟩ := hB; simp only [U256.val]; omega
  have q1 := mul_le_W5 hA1 hBv
  have q2 := mul_le_W5 hA2 hBv
  have q3 := mul_le_W5 hA3 hBv
  rw [← v1] at q1
  rw [← v2] at q2
  rw [← v3] at q3
  have hsplit : A.val * B.val
      = A.w0 * B.val + W * (A.w1 * B.val) + W * W * (A.w2 * B.val) + W * W * W * (A.w3 * B.val) := by
    simp only [U256.val]; ring
  rw [hsplit, ← v0, ← v1, ← v2, ← v3]
  simp only [mul256x256to512, U512.wf]
  generalize mul64x256to320 A.w0 B = P0 at *
  generalize mul64x256to320 A.w1 B = P1 at *
  generalize mul64x256to320 A.w2 B = P2 at *
  generalize mul64x256to320 A.w3 B = P3 at *
  obtain ⟨eA, a1b, a2b, a3b, a4b, r5b⟩ := add_row5 w01 w02 w03 w04 w10 w11 w12 w13 w14 q1
  obtain ⟨eB, b2b, b3b, b4b, b5b, r6b⟩ := add_row5 a2b a3b a4b r5b w20 w21 w22 w23 w24 q2
  obtain ⟨eC, c3b, c4b, c5b, c6b, r7b⟩ := add_row5 b3b b4b b5b r6b w30 w31 w32 w33 w34 q3
  simp only [U512.val]
  refine ⟨?_, w00, a1b, b2b, c3b, c4b, c5b, c6b, r7b⟩
  generalize addCarryOut P1.w0 P0.w1 = a1 at *
  generalize addCarryInOut P1.w1 P0.w2 a1.2 = a2 at *
  generalize addCarryInOut P1.w2 P0.w3 a2.2 = a3 at *
  generalize addCarryInOut P1.w3 P0.w4 a3.2 = a4 at *
  generalize add64 P1.w4 a4.2 = R5 at *
  generalize addCarryOut P2.w0 a2.1 = b2 at *
  generalize addCarryInOut P2.w1 a3.1 b2.2 = b3 at *
  generalize addCarryInOut P2.w2 a4.1 b3.2 = b4 at *
  generalize addCarryInOut P2.w3 R5 b4.2 = b5 at *
  generalize add64 P2.w4 b5.2 = R6 at *
  generalize addCarryOut P3.w0 b3.1 = c3 at *
  generalize addCarryInOut P3.w1 b4.1 c3.2 = c4 at *
  generalize addCarryInOut P3.w2 b5.1 c4.2 = c5 at *
  generalize addCarryInOut P3.w3 R6 c5.2 = c6 at *
  generalize add64 P3.w4 c6.2 = R7 at *
  clear q1 q2 q3 hsplit hBv v0 v1 v2 v3
  omega

example : (mul256x256to512 ⟨0xffffffffffffffff, 0xffffffffffffffff, 0xffffffffffffffff, 0xffffffffffffffff⟩
      ⟨0xffffffffffffffff, 0xffffffffffffffff, 0xffffffffffffffff, 0xffffffffffffffff⟩).words
    = [1, 0, 0, 0, 0xfffffffffffffffe, 0xffffffffffffffff, 0xffffffffffffffff, 0xffffffffffffffff] := by
  decide +kernel
example : (mul256x256to512 ⟨0xfedcba9876543210, 0x0123456789abcdef, 0x0f1e2d3c4b5a6978, 0x8796a5b4c3d2e1f0⟩
      ⟨0x1111111111111111, 0xfffffffffffffffe, 0x8000000000000001, 0xdeadbeefcafef00d⟩).val
    = 0x8796a5b4c3d2e1f00f1e2d3c4b5a69780123456789abcdeffedcba9876543210
      * 0xdeadbeefcafef00d8000000000000001fffffffffffffffe1111111111111111 := by decide +kernel


/-! ### The judge's interface `hkArith` -/

/-- on 64-bit argument words `hkArith` is the routine table `hkArithWords` with the status word passed through -/
theorem hkArith_of_wf {name : String} {m : Mode} {f : Nat} {args : List Nat} (h : ∀ a ∈ args, a < W) :
    hkArith name m f args = (hkArithWords name args).map (fun ws => (ws, f)) := by
  have : args.all (fun a => decide (a < W)) = true := by
    rw [List.all_eq_true]; intro a ha; exact decide_eq_true (h a ha)
  simp only [hkArith, this, if_true]

/-- no routine of the group touches the status word, whatever the name, mode and arguments -/
theorem hkArith_flags {name : String} {m : Mode} {f : Nat} {args ws : List Nat} {f' : Nat}
    (h : hkArith name m f args = some (ws, f')) : f' = f := by
  unfold hkArith at h
  split at h
  · cases hw : hkArithWords name args with
    | none => rw [hw] at h; exact absurd h (by simp)
    | some v => rw [hw] at h; simp only [Option.map_some, Option.some.injEq, Prod.mk.injEq] at h; exact h.2.symm
  · exact absurd h (by simp)

/-- … nor reads the rounding mode -/
theorem hkArith_mode (name : String) (m m' : Mode) (f : Nat) (args : List Nat) :
    hkArith name m f args = hkArith name m' f args := rfl

/-- an argument that is not a 64-bit word: no prediction -/
theorem hkArith_none_of_big {name : String} {m : Mode} {f : Nat} {args : List Nat} {a : Nat} (ha : a ∈ args)
    (hbig : W ≤ a) : hkArith name m f args = none := by
  have : args.all (fun a => decide (a < W)) = false := by
    rw [List.all_eq_false]; exact ⟨a, ha, by simp only [decide_eq_true_eq]; omega⟩
  simp only [hkArith, this, Bool.false_eq_true, if_false]

/-! The table itself, one definitional unfolding per name (argument order and result layout of the hook). -/
section table
variable (a0 a1 a2 a3 b0 b1 b2 b3 a b x y k ci : Nat)
theorem hkW_shr_128 : hkArithWords "shr_128" [a0, a1, k] = some (shr128 ⟨a0, a1⟩ (i32OfWord k)).words := rfl
theorem hkW_shr_256 : hkArithWords "shr_256" [a0, a1, a2, a3, k] = some (shr256 ⟨a0, a1, a2, a3⟩ (i32OfWord k)).words := rfl
theorem hkW_shr_128_long : hkArithWords "shr_128_long" [a0, a1, k] = some (shr128Long ⟨a0, a1⟩ (i32OfWord k)).words := rfl
theorem hkW_shl_128_long : hkArithWords "shl_128_long" [a0, a1, k] = some (shl128Long ⟨a0, a1⟩ (i32OfWord k)).words := rfl
theorem hkW_add_128_64 : hkArithWords "add_128_64" [a0, a1, b] = some (add128_64 ⟨a0, a1⟩ b).words := rfl
theorem hkW_sub_128_64 : hkArithWords "sub_128_64" [a0, a1, b] = some (sub128_64 ⟨a0, a1⟩ b).words := rfl
theorem hkW_add_128_128 : hkArithWords "add_128_128" [a0, a1, b0, b1] = some (add128_128 ⟨a0, a1⟩ ⟨b0, b1⟩).words := rfl
theorem hkW_sub_128_128 : hkArithWords "sub_128_128" [a0, a1, b0, b1] = some (sub128_128 ⟨a0, a1⟩ ⟨b0, b1⟩).words := rfl
theorem hkW_sub_256_128_to_256 : hkArithWords "sub_256_128_to_256" [a0, a1, a2, a3, b0, b1]
    = some (sub256_128to256 ⟨a0, a1, a2, a3⟩ ⟨b0, b1⟩).words := rfl
theorem hkW_add_carry_out : hkArithWords "add_carry_out" [x, y] = some [(addCarryOut x y).1, (addCarryOut x y).2] := rfl
theorem hkW_add_carry_in_out : hkArithWords "add_carry_in_out" [x, y, ci]
    = some [(addCarryInOut x y ci).1, (addCarryInOut x y ci).2] := rfl
theorem hkW_sub_borrow_out : hkArithWords "sub_borrow_out" [x, y] = some [(subBorrowOut x y).1, (subBorrowOut x y).2] := rfl
theorem hkW_sub_borrow_in_out : hkArithWords "sub_borrow_in_out" [x, y, ci]
    = some [(subBorrowInOut x y ci).1, (subBorrowInOut x y ci).2] := rfl
theorem hkW_mul_64x64_to_64 : hkArithWords "mul_64x64_to_64" [x, y] = some [mul64x64to64 x y] := rfl
theorem hkW_mul_64x64_to_128 : hkArithWords "mul_64x64_to_128" [x, y] = some (mul64x64to128 x y).words := rfl
theorem hkW_mul_64x64_to_128_fast : hkArithWords "mul_64x64_to_128_fast" [x, y] = some (mul64x64to128Fast x y).words := rfl
theorem hkW_mul_64x64_to_128_full : hkArithWords "mul_64x64_to_128_full" [x, y] = some (mul64x64to128Full x y).words := rfl
theorem hkW_mul_64x64_to_128MACH : hkArithWords "mul_64x64_to_128MACH" [x, y] = some (mul64x64to128MACH x y).words := rfl
theorem hkW_mul_64x64_to_128HIGH : hkArithWords "mul_64x64_to_128HIGH" [x, y] = some [mul64x64to128HIGH x y] := rfl
theorem hkW_mul_128x128_high : hkArithWords "mul_128x128_high" [a0, a1, b0, b1]
    = some (mul128x128High ⟨a0, a1⟩ ⟨b0, b1⟩).words := rfl
theorem hkW_mul_128x128_full : hkArithWords "mul_128x128_full" [a0, a1, b0, b1]
    = some ((mul128x128Full ⟨a0, a1⟩ ⟨b0, b1⟩).1.words ++ (mul128x128Full ⟨a0, a1⟩ ⟨b0, b1⟩).2.words) := rfl
theorem hkW_mul_128x128_low : hkArithWords "mul_128x128_low" [a0, a1, b0, b1]
    = some (mul128x128Low ⟨a0, a1⟩ ⟨b0, b1⟩).words := rfl
theorem hkW_mul_64x128_low : hkArithWords "mul_64x128_low" [a, b0, b1] = some (mul64x128Low a ⟨b0, b1⟩).words := rfl
theorem hkW_mul_64x128_full : hkArithWords "mul_64x128_full" [a, b0, b1]
    = some ((mul64x128Full a ⟨b0, b1⟩).1 :: (mul64x128Full a ⟨b0, b1⟩).2.words) := rfl
theorem hkW_mul_64x128_to_192 : hkArithWords "mul_64x128_to_192" [a, b0, b1] = some (mul64x128to_192 a ⟨b0, b1⟩).words := rfl
theorem hkW_mul_64x128_to_256 : hkArithWords "mul_64x128_to_256" [a, b0, b1] = some (mul64x128to256 a ⟨b0, b1⟩).words := rfl
theorem hkW_mul_64x128_to192 : hkArithWords "mul_64x128_to192" [a, b0, b1] = some (mul64x128to192 a ⟨b0, b1⟩).words := rfl
theorem hkW_mul_128x128_to_256 : hkArithWords "mul_128x128_to_256" [a0, a1, b0, b1]
    = some (mul128x128to256 ⟨a0, a1⟩ ⟨b0, b1⟩).words := rfl
theorem hkW_mul_64x192_to_256 : hkArithWords "mul_64x192_to_256" [a, b0, b1, b2]
    = some (mul64x192to256 a ⟨b0, b1, b2⟩).words := rfl
theorem hkW_mul_64x256_to_256 : hkArithWords "mul_64x256_to_256" [a, b0, b1, b2, b3]
    = some (mul64x256to256 a ⟨b0, b1, b2, b3⟩).words := rfl
theorem hkW_mul_128x64_to_128 : hkArithWords "mul_128x64_to_128" [a, b0, b1] = some (mul128x64to128 a ⟨b0, b1⟩).words := rfl
theorem hkW_mul_64x128_to_128 : hkArithWords "mul_64x128_to_128" [a, b0, b1] = some (mul64x128to128 a ⟨b0, b1⟩).words := rfl
theorem hkW_mul_64x256_to_320 : hkArithWords "mul_64x256_to_320" [a, b0, b1, b2, b3]
    = some (mul64x256to320 a ⟨b0, b1, b2, b3⟩).words := rfl
theorem hkW_mul_192x192_to_384 : hkArithWords "mul_192x192_to_384" [a0, a1, a2, b0, b1, b2]
    = some (mul192x192to384 ⟨a0, a1, a2⟩ ⟨b0, b1, b2⟩).words := rfl
theorem hkW_sqr128_to_256 : hkArithWords "sqr128_to_256" [a0, a1] = some (sqr128to256 ⟨a0, a1⟩).words := rfl
theorem hkW_mul_256x256_to_512 : hkArithWords "mul_256x256_to_512" [a0, a1, a2, a3, b0, b1, b2, b3]
    = some (mul256x256to512 ⟨a0, a1, a2, a3⟩ ⟨b0, b1, b2, b3⟩).words := rfl
theorem hkW_mul_64x128_short : hkArithWords "mul_64x128_short" [a, b0, b1] = some (mul64x128Short a ⟨b0, b1⟩).words := rfl
theorem hkW_compare_gt_128 : hkArithWords "compare_gt_128" [a0, a1, b0, b1]
    = some [b2w (compareGt128 ⟨a0, a1⟩ ⟨b0, b1⟩)] := rfl
theorem hkW_compare_ge_128 : hkArithWords "compare_ge_128" [a0, a1, b0, b1]
    = some [b2w (compareGe128 ⟨a0, a1⟩ ⟨b0, b1⟩)] := rfl
theorem hkW_test_equal_128 : hkArithWords "test_equal_128" [a0, a1, b0, b1]
    = some [b2w (testEqual128 ⟨a0, a1⟩ ⟨b0, b1⟩)] := rfl
end table

/-! End-to-end statements for the judge (the others follow the same way from `hkArith_of_wf`, the table line and
the `_spec` theorem). -/

/-- `hk_mul_128x128_to_256` on any four words: four words, status unchanged, and they are the product. -/
theorem hk_mul_128x128_to_256 {m : Mode} {f a0 a1 b0 b1 : Nat} (h0 : a0 < W) (h1 : a1 < W) (g0 : b0 < W) (g1 : b1 < W) :
    ∃ ws, hkArith "mul_128x128_to_256" m f [a0, a1, b0, b1] = some (ws, f) ∧ ws.length = 4 ∧ (∀ w ∈ ws, w < W)
      ∧ valOf ws = (a0 + W * a1) * (b0 + W * b1) := by
  have hw : ∀ a ∈ [a0, a1, b0, b1], a < W := by
    intro a ha; simp only [List.mem_cons, List.not_mem_nil, or_false] at ha
    rcases ha with rfl | rfl | rfl | rfl <;> assumption
  obtain ⟨e, w0, w1, w2, w3⟩ := mul128x128to256_spec (A := ⟨a0, a1⟩) (B := ⟨b0, b1⟩) ⟨h0, h1⟩ ⟨g0, g1⟩
  refine ⟨_, by rw [hkArith_of_wf hw, hkW_mul_128x128_to_256]; rfl, rfl, ?_, ?_⟩
  · intro w hwm
    simp only [U256.words, List.mem_cons, List.not_mem_nil, or_false] at hwm
    rcases hwm with rfl | rfl | rfl | rfl <;> assumption
  · rw [valOf_words256, e]; rfl

/-- `hk_mul_256x256_to_512` on any eight words: the 512-bit product. -/
theorem hk_mul_256x256_to_512 {m : Mode} {f a0 a1 a2 a3 b0 b1 b2 b3 : Nat}
    (hA : (⟨a0, a1, a2, a3⟩ : U256).wf) (hB : (⟨b0, b1, b2, b3⟩ : U256).wf) :
    ∃ ws, hkArith "mul_256x256_to_512" m f [a0, a1, a2, a3, b0, b1, b2, b3] = some (ws, f) ∧ ws.length = 8
      ∧ valOf ws = (⟨a0, a1, a2, a3⟩ : U256).val * (⟨b0, b1, b2, b3⟩ : U256).val := by
  have hw : ∀ a ∈ [a0, a1, a2, a3, b0, b1, b2, b3], a < W := by
    obtain ⟨h0, h1, h2, h3⟩ := hA
    obtain ⟨g0, g1, g2, g3⟩ := hB
    intro a ha; simp only [List.mem_cons, List.not_mem_nil, or_false] at ha
    rcases ha with rfl | rfl | rfl | rfl | rfl | rfl | rfl | rfl <;> assumption
  refine ⟨_, by rw [hkArith_of_wf hw, hkW_mul_256x256_to_512]; rfl, rfl, ?_⟩
  rw [valOf_words512, (mul256x256to512_spec hA hB).1]

/-- `hk_shr_128` with a count word in 1..63: `⌊A / 2^k⌋`. -/
theorem hk_shr_128 {m : Mode} {f a0 a1 k : Nat} (h0 : a0 < W) (h1 : a1 < W) (hk1 : 1 ≤ k) (hk : k ≤ 63) :
    ∃ ws, hkArith "shr_128" m f [a0, a1, k] = some (ws, f) ∧ valOf ws = (a0 + W * a1) / 2 ^ k := by
  have hw : ∀ a ∈ [a0, a1, k], a < W := by
    intro a ha; simp only [List.mem_cons, List.not_mem_nil, or_false] at ha
    rcases ha with rfl | rfl | rfl
    · assumption
    · assumption
    · omega
  refine ⟨_, by rw [hkArith_of_wf hw, hkW_shr_128]; rfl, ?_⟩
  rw [valOf_words128, i32OfWord_small (by omega),
    (shr128_spec (A := ⟨a0, a1⟩) (k := (k : Int)) ⟨h0, h1⟩ (by omega) (by omega)).1]
  rfl

example : hkArith "shr_128" .rne 0x3f [0x123456789abcdef0, 0xfedcba9876543210, 0x41]
    = some ([0x91a2b3c4d5e6f78, 0x7f6e5d4c3b2a1908], 0x3f) := by decide +kernel
example : hkArith "mul_64x64_to_128" .rne 0 [0xffffffffffffffff, 0xffffffffffffffff]
    = some ([1, 0xfffffffffffffffe], 0) := by decide +kernel
example : hkArith "mul_64x64_to_128" .rne 0 [0xffffffffffffffff] = none := by decide +kernel
example : hkArith "round64" .rne 0 [1, 2, 3] = none := by decide +kernel
example : hkArith "add_carry_out" .rne 0 [0x10000000000000000, 1] = none := by decide +kernel

end Dec.C01ArithHelpers
